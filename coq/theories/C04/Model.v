(* C04 - executable model of mouette's mesh file codecs (mouette/mesh/io/{xyz,obj,off,tet,medit}.py and the
   save/load plumbing of mouette/mesh/mesh.py), at the level of lines of tokens.  The geogram_ascii and STL
   codecs are in Geo.v / Stl.v.  Keywords, index offsets, arities, slices and decision expressions come from
   Gen.v, which the translator regenerates from /repo on every run.
   Executable definitions only: no proofs here, so the model still runs when a proof breaks.

   Floats are abstract: [F] is the type of binary64 values, [Ftxt] the type of their decimal texts;
   [pf] is '{}'.format(x), [rf] is float(text), [f_of_int] is float("12").  Nothing is assumed of them here. *)
From Coq Require Import ZArith Bool String Ascii.
From Coq Require Import List.
Import ListNotations.
Require Import MV.Lib.Base MV.C04.Gen.
Open Scope list_scope.
Set Implicit Arguments.
Set Maximal Implicit Insertion.
Open Scope Z_scope.

(* ------------------------------------------------------------------ small Python-list helpers *)
Fixpoint omap {A B} (f : A -> option B) (l : list A) : option (list B) :=
  match l with
  | [] => Some []
  | x :: t => match f x, omap f t with Some y, Some r => Some (y :: r) | _, _ => None end
  end.

Definition zlen {A} (l : list A) : Z := Z.of_nat (length l).
Definition isnil {A} (l : list A) : bool := match l with [] => true | _ => false end.
(* l[a:b] for constants 0 <= a *)
Definition slice {A} (l : list A) (a b : Z) : list A := firstn (Z.to_nat (b - a)) (skipn (Z.to_nat a) l).
Definition nthz {A} (l : list A) (i : Z) : option A := if i <? 0 then None else nth_error l (Z.to_nat i).
(* l[i] with Python's negative indices; None = IndexError *)
Definition py_nth {A} (l : list A) (i : Z) : option A := if i <? 0 then nthz l (zlen l + i) else nthz l i.
Definition count_if {A} (p : A -> bool) (l : list A) : Z := zlen (filter p l).
Definition len_is {A} (n : Z) (l : list A) : bool := zlen l =? n.

(* Python int(text) on a text without blanks: optional sign, then digits; None = ValueError *)
Definition digit_of (c : ascii) : option Z :=
  let n := Z.of_nat (nat_of_ascii c) in if (48 <=? n) && (n <=? 57) then Some (n - 48) else None.
Fixpoint digits (s : string) (acc : Z) : option Z :=
  match s with
  | EmptyString => Some acc
  | String c t => match digit_of c with Some d => digits t (10 * acc + d) | None => None end
  end.
Definition z_of_string (s : string) : option Z :=
  match s with
  | EmptyString => None
  | String c t =>
      if Ascii.eqb c "-"%char then match t with EmptyString => None | _ => option_map Z.opp (digits t 0) end
      else if Ascii.eqb c "+"%char then match t with EmptyString => None | _ => digits t 0 end
      else digits s 0
  end.
(* text.split(c) *)
Fixpoint split_on (c : ascii) (s : string) : list string :=
  match s with
  | EmptyString => [EmptyString]
  | String a t =>
      let r := split_on c t in
      if Ascii.eqb a c then EmptyString :: r
      else match r with h :: tl => String a h :: tl | [] => [String a EmptyString] end
  end.
Fixpoint consecutive {A} (l : list A) : list (A * A) :=
  match l with a :: ((b :: _) as r) => (a, b) :: consecutive r | _ => [] end.

(* attribute values (only the geogram format carries them) *)
Inductive aty := TyBool | TyInt | TyFloat | TyComplex | TyString.
Definition aty_eqb (a b : aty) : bool :=
  match a, b with
  | TyBool, TyBool | TyInt, TyInt | TyFloat, TyFloat | TyComplex, TyComplex | TyString, TyString => true
  | _, _ => false
  end.

Section Codec.
Variables F Ftxt Cx Ctxt : Type.
Variable pf : F -> Ftxt.         (* '{}'.format(x), x a binary64 *)
Variable rf : Ftxt -> F.         (* float(text) on a text that denotes a float *)
Variable f_of_int : Z -> F.      (* float("12") *)
Variable pc : Cx -> Ctxt.        (* '{}'.format(z), z a complex *)
Variable rc : Ctxt -> Cx.        (* complex(text) *)
Variable cx_of_f : F -> Cx.      (* complex("1.5") *)

Inductive tok := TInt (z : Z) | TFlt (t : Ftxt) | TCx (c : Ctxt) | TWord (s : string).
Definition line := list tok.

Definition py_int (t : tok) : option Z := match t with TInt z => Some z | _ => None end.
Definition py_float (t : tok) : option F :=
  match t with TInt z => Some (f_of_int z) | TFlt x => Some (rf x) | _ => None end.
Definition is_word (t : tok) (s : string) : bool := match t with TWord w => String.eqb w s | _ => false end.
(* the whole stripped line equals the keyword *)
Definition line_is (l : line) (s : string) : bool := match l with [t] => is_word t s | _ => false end.
Definition fl (x : F) : tok := TFlt (pf x).

Inductive aval := VBool (b : bool) | VInt (z : Z) | VFloat (x : F) | VCx (c : Cx) | VStr (s : string).
(* an attribute of a mesh handed to save: name, type, arity and the dense list attr[0], attr[1], ... flattened *)
Record attr := mkattr { a_name : string; a_ty : aty; a_ar : Z; a_vals : list aval }.
(* an attribute as import_geogram_ascii leaves it: the sparse dictionary key -> value(s) *)
Record sattr := mksattr { s_name : string; s_ty : aty; s_ar : Z; s_items : list (Z * list aval) }.

(* a prepared mesh handed to save.  mHard = keys of the sparse attribute "hard_edges" on edges, if it exists;
   mAdj = the values cell_faces["adjacent_cell"][(iC, iF)] that save() computes for a VolumeMesh *)
Record mesh := mkmesh {
  mV : list (F * F * F); mE : list (Z * Z); mHard : option (list Z); mF : list (list Z); mC : list (list Z);
  aV : list attr; aE : list attr; aF : list attr; aFC : list attr; aC : list attr; aCC : list attr; aCF : list attr;
  mAdj : list Z }.
(* what an import function returns (RawMeshData, before prepare) *)
Record raw := mkraw {
  rV : list (list F); rE : list (list Z); rF : list (list Z); rC : list (list Z);
  rAV : list sattr; rAE : list sattr; rAF : list sattr; rAFC : list sattr; rAC : list sattr; rACC : list sattr;
  rACF : list sattr }.
Definition raw_of (V : list (list F)) (E Fs C : list (list Z)) : raw := mkraw V E Fs C [] [] [] [] [] [] [].

Definition v3 (v : F * F * F) : list F := let '(x, y, z) := v in [x; y; z].
Definition e2 (e : Z * Z) : list Z := [fst e; snd e].
(* utils.keyify(a, b) *)
Definition keyify2 (a b : Z) : list Z := [Z.min a b; Z.max a b].
Definition vtx_idx (v : F * F * F) (i : Z) : option F :=
  let '(x, y, z) := v in if i =? 0 then Some x else if i =? 1 then Some y else if i =? 2 then Some z else None.

(* ------------------------------------------------------------------ mesh.py: save / load plumbing *)
Record switches := mksw {
  sw_obj_edges : bool;        (* config.export_edges_in_obj *)
  sw_complete_edges : bool;   (* config.complete_edges_from_faces *)
  sw_ignore : list string     (* save(..., ignore_elements=...) *) }.
Definition default_sw : switches := mksw true true [].

Definition ignored (sw : switches) (container : string) : bool :=
  existsb (fun e => existsb (String.eqb (fst e)) (sw_ignore sw) && existsb (String.eqb container) (snd e)) save_ignore_table.

(* save(): the containers named by ignore_elements are cleared (data and attributes) *)
Definition apply_ignore (sw : switches) (m : mesh) : mesh :=
  let ie := ignored sw "edges" in let ifa := ignored sw "faces" in let ifc := ignored sw "face_corners" in
  let ic := ignored sw "cells" in let icc := ignored sw "cell_corners" in let icf := ignored sw "cell_faces" in
  mkmesh (mV m) (if ie then [] else mE m) (if ie then None else mHard m) (if ifa then [] else mF m) (if ic then [] else mC m)
         (aV m) (if ie then [] else aE m) (if ifa then [] else aF m) (if ifc then [] else aFC m)
         (if ic then [] else aC m) (if icc then [] else aCC m) (if icf then [] else aCF m) (if icf then [] else mAdj m).

Definition dim_mesh (m : mesh) : Z := compute_dimensionality (isnil (mC m)) (isnil (mF m)) (isnil (mE m)).
Definition dim_raw (r : raw) : Z := compute_dimensionality (isnil (rC r)) (isnil (rF r)) (isnil (rE r)).
(* load(): class of the object built from the imported data (dim override absent) *)
Definition class_of_raw (r : raw) : option string := instanciate_class (dim_raw r).
(* load() prepares the data first: RawMeshData._prepare_edges drops the edges that are not valid, so an edge-only
   file whose edges are all invalid loads as a point cloud *)
Definition edge_valid (n : Z) (e : list Z) : bool :=
  match e with [a; b] => prepare_edge_is_valid a b n | _ => false end.
Definition class_of_loaded (r : raw) : option string :=
  instanciate_class (compute_dimensionality (isnil (rC r)) (isnil (rF r)) (negb (existsb (edge_valid (zlen (rV r))) (rE r)))).

(* load(path, dim=d): the explicit dimension is a lower bound, never a cap (max with the dimensionality of the data) *)
Definition class_of_loaded_dim (d : option Z) (r : raw) : option string :=
  instanciate_class (instanciate_dim d
    (compute_dimensionality (isnil (rC r)) (isnil (rF r)) (negb (existsb (edge_valid (zlen (rV r))) (rE r))))).

(* edges designated by the keys of hard_edges: mesh.edges[e]; None = IndexError *)
Definition hard_edge_list (m : mesh) (ks : list Z) : option (list (Z * Z)) := omap (fun k => py_nth (mE m) k) ks.

(* the exporters of .obj / .xyz write the vertex / face-corner attributes named in Gen (uv_coords, normals) as extra lines or
   columns: meshes carrying them are outside this model (guard of the obj and xyz theorems) *)
Definition attr_names (l : list attr) : list string := map a_name l.
Definition no_obj_attrs (m : mesh) : Prop :=
  forall n, In n obj_exp_special_attrs -> ~ In n (attr_names (aV m)) /\ ~ In n (attr_names (aFC m)).
Definition no_xyz_attrs (m : mesh) : Prop := forall n, In n xyz_exp_special_attrs -> ~ In n (attr_names (aV m)).

(* ------------------------------------------------------------------ xyz.py (vertices without a "normals" attribute) *)
Definition print_xyz (m : mesh) : option (list line) :=
  omap (fun v => omap (fun i => option_map fl (vtx_idx v i)) xyz_exp_idx) (mV m).

Fixpoint parse_xyz_lines (ls : list line) : option (list (list F)) :=
  match ls with
  | [] => Some []
  | l :: r =>
      match omap py_float l, parse_xyz_lines r with
      | Some data, Some vs => if xyz_imp_skip (zlen data) then Some vs else Some (slice data xyz_imp_lo xyz_imp_hi :: vs)
      | _, _ => None
      end
  end.
Definition parse_xyz (ls : list line) : option raw := option_map (fun vs => raw_of vs [] [] []) (parse_xyz_lines ls).
Definition vocab_xyz (m : mesh) : raw := raw_of (map v3 (mV m)) [] [] [].

(* ------------------------------------------------------------------ obj.py (no uv_coords / normals attributes) *)
Definition obj_vertex_line (v : F * F * F) : line := TWord obj_exp_kw_v :: map fl (v3 v).
Definition obj_edge_line (e : Z * Z) : line := TWord obj_exp_kw_l :: map TInt (obj_exp_edge (fst e) (snd e)).
Definition obj_face_line (f : list Z) : line := TWord obj_exp_kw_f :: map (fun vid => TInt (obj_exp_vid vid)) f.

Definition obj_exported_edges (sw : switches) (m : mesh) : option (list (Z * Z)) :=
  if sw_obj_edges sw then
    if obj_exp_all_edges (sw_complete_edges sw) (dim_mesh m) then Some (mE m)
    else match mHard m with Some ks => hard_edge_list m ks | None => Some [] end
  else Some [].

Definition print_obj (sw : switches) (m : mesh) : option (list line) :=
  match obj_exported_edges sw m with
  | None => None
  | Some el => Some (map obj_vertex_line (mV m) ++ map obj_edge_line el ++ map obj_face_line (mF m))
  end.

(* parse_vertex: "12" -> 11, "12/3/7" -> 11, "-1" -> the last of the nv vertices read so far (resolve_index; the texture /
   normal indices must be integers when present; the uv_coords / normals attributes they fill are not modelled, nor the
   IndexError of a dangling reference) *)
Definition obj_parse_vertex (nv : Z) (t : tok) : option Z :=
  match t with
  | TInt z => Some (obj_imp_resolve z nv)
  | TWord s =>
      let vals := split_on "/"%char s in
      match vals with
      | v0 :: rest =>
          match z_of_string v0 with
          | None => None
          | Some z =>
              let ok1 := match rest with t1 :: _ => if String.eqb t1 "" then true else match z_of_string t1 with Some _ => true | None => false end
                                    | [] => true end in
              let ok2 := match rest with _ :: t2 :: _ => match z_of_string t2 with Some _ => true | None => false end | _ => true end in
              if ok1 && ok2 then Some (obj_imp_resolve z nv) else None
          end
      | [] => None
      end
  | _ => None
  end.

(* nv: the number of v statements before this line (len(obj.vertices) when the line is read) *)
Definition obj_step (nv : Z) (l : line) (acc : list (list F) * list (list Z) * list (list Z))
  : option (list (list F) * list (list Z) * list (list Z)) :=
  let '(V, E, Fs) := acc in
  match l with
  | [] => Some acc
  | t0 :: _ =>
      if is_word t0 obj_imp_kw_v then
        option_map (fun v => (v :: V, E, Fs)) (omap py_float (slice l obj_imp_v_lo obj_imp_v_hi))
      else if is_word t0 obj_imp_kw_vn then
        option_map (fun _ => acc) (omap py_float (skipn 1 l))
      else if is_word t0 obj_imp_kw_vt then
        match nthz l 1, nthz l 2 with
        | Some a, Some b => match py_float a, py_float b with Some _, Some _ => Some acc | _, _ => None end
        | _, _ => None
        end
      else if is_word t0 obj_imp_kw_f then
        option_map (fun f => (V, E, f :: Fs)) (omap (obj_parse_vertex nv) (skipn 1 l))
      else if is_word t0 obj_imp_kw_l then
        (* a polyline: for i in range(1, len(toks)-1): the edge (toks[i], toks[i+1]) *)
        let args := skipn 1 l in
        if (length args <? 2)%nat then Some acc
        else option_map (fun idx => (V, map (fun p => keyify2 (fst p) (snd p)) (consecutive idx) ++ E, Fs))
                        (omap (fun t => option_map (fun x => obj_imp_resolve x nv) (py_int t)) args)
      else Some acc
  end.

Definition obj_line_nv (l : line) : Z :=
  match l with t0 :: _ => if is_word t0 obj_imp_kw_v then 1 else 0 | [] => 0 end.
(* the lines are read in order; the result is assembled from the end, the count of vertices read so far goes forward *)
Fixpoint parse_obj_from (nv : Z) (ls : list line) : option (list (list F) * list (list Z) * list (list Z)) :=
  match ls with
  | [] => Some ([], [], [])
  | l :: r => match parse_obj_from (nv + obj_line_nv l) r with Some acc => obj_step nv l acc | None => None end
  end.
Definition parse_obj_lines (ls : list line) := parse_obj_from 0 ls.
Definition parse_obj (ls : list line) : option raw :=
  option_map (fun a => let '(V, E, Fs) := a in raw_of V E Fs []) (parse_obj_lines ls).

Definition vocab_obj (sw : switches) (m : mesh) : option raw :=
  option_map (fun el => raw_of (map v3 (mV m)) (map (fun e => keyify2 (fst e) (snd e)) el) (mF m) []) (obj_exported_edges sw m).

(* ------------------------------------------------------------------ off.py *)
Definition off_vertex_line (v : F * F * F) : line := map fl (v3 v).
Definition sized_line (f : list Z) : line := TInt (zlen f) :: map TInt f.
Definition print_off (m : mesh) : list line :=
  [TWord off_header] :: map TInt (off_exp_counts (zlen (mV m)) (zlen (mF m)) (zlen (mE m)))
  :: map off_vertex_line (mV m) ++ map sized_line (mF m).

(* the face loop of parse_off_data over the lines it consumes *)
Fixpoint off_faces (ls : list line) : option (list (list Z) * list (list Z)) :=
  match ls with
  | [] => Some ([], [])
  | l :: r =>
      match off_faces r with
      | None => None
      | Some (Fs, Es) =>
          match l with
          | [] => None
          | t0 :: _ =>
              match py_int t0 with
              | None => None
              | Some nvi =>
                  if off_imp_is_face nvi then
                    option_map (fun f => (f :: Fs, Es)) (omap py_int (slice l off_imp_face_lo (off_imp_face_hi nvi)))
                  else if off_imp_is_edge nvi then
                    match omap (fun p => match nthz l p with Some t => py_int t | None => None end) off_imp_edge_pos with
                    | Some [a; b] => Some (Fs, [Z.min a b; Z.max a b] :: Es)
                    | _ => None
                    end
                  else Some (Fs, Es)
              end
          end
      end
  end.

(* the lines are taken after removal of the # comments (done by the tokeniser) and of the empty lines *)
Definition parse_off (ls : list line) : option raw :=
  match (match filter (fun l => negb (isnil l)) ls with
         | (t0 :: rest0) :: d1 =>
             if off_imp_counts_inline (zlen (t0 :: rest0)) then Some (t0, slice (t0 :: rest0) off_imp_counts_inline_from (zlen (t0 :: rest0)), d1)
             else match d1 with cl :: d2 => Some (t0, cl, d2) | [] => None end
         | _ => None
         end) with
  | Some (t0, cl, d2) =>
      if is_word t0 off_header then
        match omap py_int cl with
        | None => None
        | Some cs =>
            if zlen cs =? off_imp_ncounts then
              match nthz cs off_imp_counts_nv, nthz cs off_imp_counts_nf with
              | Some nv, Some nf =>
                  let nvn := Z.to_nat nv in let nfn := Z.to_nat nf in
                  if (length d2 <? nvn)%nat then None else
                  match omap (omap py_float) (firstn nvn d2) with
                  | None => None
                  | Some V =>
                      let d3 := skipn nvn d2 in
                      if (length d3 <? nfn)%nat then None else
                      match off_faces (firstn nfn d3) with
                      | None => None
                      | Some (Fs, Es) => Some (raw_of V Es Fs [])
                      end
                  end
              | _, _ => None
              end
            else None
        end
      else None
  | None => None
  end.
Definition vocab_off (m : mesh) : raw := raw_of (map v3 (mV m)) [] (mF m) [].
(* faces of fewer than 3 vertices are outside what an OFF file gives back as faces:
   `2 a b` is read as an edge, `1 a` and `0` are skipped *)
Definition off_ok (m : mesh) : Prop := Forall (fun f => 3 <= zlen f) (mF m).

(* ------------------------------------------------------------------ tet.py *)
Definition print_tet (m : mesh) : list line :=
  [TInt (zlen (mV m)); TWord tet_exp_word_v] :: [TInt (zlen (mC m)); TWord tet_exp_word_c]
  :: map off_vertex_line (mV m) ++ map sized_line (mC m).

Definition parse_tet (ls : list line) : option raw :=
  match ls with
  | l0 :: l1 :: rest =>
      match nthz l0 tet_imp_count_pos, nthz l1 tet_imp_count_pos with
      | Some t0, Some t1 =>
          match py_int t0, py_int t1 with
          | Some nv, Some nc =>
              let nvn := Z.to_nat nv in let ncn := Z.to_nat nc in
              if (length rest <? nvn)%nat then None else
              match omap (omap py_float) (firstn nvn rest) with
              | None => None
              | Some V =>
                  let r2 := skipn nvn rest in
                  if (length r2 <? ncn)%nat then None else
                  match omap (fun l => omap py_int (skipn (Z.to_nat tet_imp_cell_lo) l)) (firstn ncn r2) with
                  | None => None
                  | Some C => Some (raw_of V [] [] C)
                  end
              end
          | _, _ => None
          end
      | _, _ => None
      end
  | _ => None
  end.
Definition vocab_tet (m : mesh) : raw := raw_of (map v3 (mV m)) [] [] (mC m).

(* ------------------------------------------------------------------ medit.py *)
Definition medit_vertex_line (v : F * F * F) : option line :=
  option_map (fun l => l ++ [TInt medit_exp_ref]) (omap (fun i => option_map fl (vtx_idx v i)) medit_exp_vertex_idx).
Definition medit_elem_line (e : list Z) : line := map (fun i => TInt (medit_exp_idx i)) e ++ [TInt medit_exp_ref].
Definition medit_block (els : list (list Z)) (b : string * Z * Z * Z) : list line :=
  let '(kw, _, war, car) := b in
  let n := count_if (len_is car) els in
  if n >? 0 then [TWord kw] :: [TInt n] :: map medit_elem_line (filter (len_is war) els) ++ [[]] else [].
Definition medit_blocks (cont : Z) (els : list (list Z)) : list line :=
  flat_map (medit_block els) (filter (fun b => let '(_, c, _, _) := b in c =? cont) medit_exp_blocks).
Definition medit_exported_edges (m : mesh) : option (list (Z * Z)) :=
  if isnil (mE m) then Some []
  else match mHard m with Some ks => hard_edge_list m ks | None => Some (mE m) end.

Definition print_medit (m : mesh) : option (list line) :=
  match omap medit_vertex_line (mV m), medit_exported_edges m with
  | Some vl, Some el =>
      Some (map (fun h => [TWord (fst h); TInt (snd h)]) medit_exp_header
            ++ (if isnil (mV m) then [] else [TWord medit_exp_vertices] :: [TInt (zlen (mV m))] :: vl ++ [[]])
            ++ (if isnil (mE m) then [] else
                  [TWord medit_exp_edges] :: [TInt (zlen el)] :: map (fun e => medit_elem_line (e2 e)) el ++ [[]])
            ++ (if isnil (mF m) then [] else medit_blocks 2 (mF m))
            ++ (if isnil (mC m) then [] else medit_blocks 3 (mC m)))
  | _, _ => None
  end.

(* import_medit as a machine over the lines: idle / the count line is next / inside a block *)
Inductive mkind := KVert | KField (cont ar : Z).
Inductive mstate := MIdle | MCount (k : mkind) | MBlock (k : mkind) (rem : nat) | MDone.
Definition macc := (list (list F) * list (list Z) * list (list Z) * list (list Z))%type.

Definition medit_keyword (l : line) : option mkind :=
  if line_is l medit_imp_vertices then Some KVert
  else match find (fun f => line_is l (fst (fst f))) medit_imp_fields with
       | Some (_, c, a) => Some (KField c a)
       | None => None
       end.

Definition medit_elem (k : mkind) (l : line) (acc : macc) : option macc :=
  let '(V, E, Fs, C) := acc in
  match k with
  | KVert => option_map (fun v => (V ++ [v], E, Fs, C)) (omap py_float (slice l 0 medit_imp_vertex_hi))
  | KField c a =>
      match omap py_int l with
      | None => None
      | Some d =>
          let e := slice (map medit_imp_idx d) 0 a in
          if c =? 1 then Some (V, E ++ [e], Fs, C)
          else if c =? 2 then Some (V, E, Fs ++ [e], C)
          else if c =? 3 then Some (V, E, Fs, C ++ [e])
          else None
      end
  end.

Definition medit_step (s : mstate * macc) (l : line) : option (mstate * macc) :=
  let '(st, acc) := s in
  match st with
  | MDone => Some s
  | MIdle =>
      if line_is l medit_imp_end then Some (MDone, acc)
      else match medit_keyword l with Some k => Some (MCount k, acc) | None => Some (MIdle, acc) end
  | MCount k =>
      match l with
      | [TInt n] => if n <=? 0 then Some (MIdle, acc) else Some (MBlock k (Z.to_nat n), acc)
      | _ => None
      end
  | MBlock k rem =>
      match medit_elem k l acc with
      | None => None
      | Some acc' => match rem with S (S r) => Some (MBlock k (S r), acc') | _ => Some (MIdle, acc') end
      end
  end.

Fixpoint medit_run (s : mstate * macc) (ls : list line) : option (mstate * macc) :=
  match ls with
  | [] => Some s
  | l :: r => match medit_step s l with Some s' => medit_run s' r | None => None end
  end.

Definition parse_medit (ls : list line) : option raw :=
  match medit_run (MIdle, ([], [], [], [])) ls with
  | Some (MIdle, (V, E, Fs, C)) | Some (MDone, (V, E, Fs, C)) => Some (raw_of V E Fs C)
  | _ => None   (* the file ends inside a block: IndexError *)
  end.

Definition vocab_medit (m : mesh) : option raw :=
  option_map (fun el =>
    raw_of (map v3 (mV m)) (map e2 el)
           (flat_map (fun b => let '(_, _, war, _) := b in filter (len_is war) (mF m))
                     (filter (fun b => let '(_, c, _, _) := b in c =? 2) medit_exp_blocks))
           (flat_map (fun b => let '(_, _, war, _) := b in filter (len_is war) (mC m))
                     (filter (fun b => let '(_, c, _, _) := b in c =? 3) medit_exp_blocks)))
    (medit_exported_edges m).

End Codec.





Arguments TInt {Ftxt Ctxt} z.
Arguments TFlt {Ftxt Ctxt} t.
Arguments TCx {Ftxt Ctxt} c.
Arguments TWord {Ftxt Ctxt} s.
Arguments VBool {F Cx} b.
Arguments VInt {F Cx} z.
Arguments VFloat {F Cx} x.
Arguments VCx {F Cx} c.
Arguments VStr {F Cx} s.
