(* C04 property theorems only: each closed by `exact <lemma>` with Print Assumptions beneath.
   F / Ftxt: binary64 values and their decimal texts; pf = '{}'.format, rf = float(), f_of_int = float("12").
   The one fact assumed of them is the round trip rf (pf x) = x. *)
From Coq Require Import ZArith Bool String.
From Coq Require Import List.
Import ListNotations.
Require Import MV.C04.Gen MV.C04.Model MV.C04.Proofs.
Open Scope Z_scope.

Theorem C04_roundtrip_xyz : forall (F Ftxt Cx Ctxt : Type) (pf : F -> Ftxt) (rf : Ftxt -> F) (f_of_int : Z -> F),
  (forall x, rf (pf x) = x) -> forall (m : mesh F Cx) L,
  @print_xyz F Ftxt Cx Ctxt pf m = Some L -> @parse_xyz F Ftxt Cx Ctxt rf f_of_int L = Some (vocab_xyz m).
Proof. exact xyz_roundtrip. Qed.
Print Assumptions C04_roundtrip_xyz.

Theorem C04_roundtrip_obj : forall (F Ftxt Cx Ctxt : Type) (pf : F -> Ftxt) (rf : Ftxt -> F) (f_of_int : Z -> F),
  (forall x, rf (pf x) = x) -> forall sw (m : mesh F Cx) L,
  @print_obj F Ftxt Cx Ctxt pf sw m = Some L -> @parse_obj F Ftxt Cx Ctxt rf f_of_int L = vocab_obj sw m.
Proof. exact obj_roundtrip. Qed.
Print Assumptions C04_roundtrip_obj.

Theorem C04_roundtrip_off : forall (F Ftxt Cx Ctxt : Type) (pf : F -> Ftxt) (rf : Ftxt -> F) (f_of_int : Z -> F),
  (forall x, rf (pf x) = x) -> forall (m : mesh F Cx), off_ok m ->
  @parse_off F Ftxt Cx Ctxt rf f_of_int (print_off Ctxt pf m) = Some (vocab_off m).
Proof. exact off_roundtrip. Qed.
Print Assumptions C04_roundtrip_off.

Theorem C04_roundtrip_tet : forall (F Ftxt Cx Ctxt : Type) (pf : F -> Ftxt) (rf : Ftxt -> F) (f_of_int : Z -> F),
  (forall x, rf (pf x) = x) -> forall (m : mesh F Cx),
  @parse_tet F Ftxt Cx Ctxt rf f_of_int (print_tet Ctxt pf m) = Some (vocab_tet m).
Proof. exact tet_roundtrip. Qed.
Print Assumptions C04_roundtrip_tet.

Theorem C04_roundtrip_medit : forall (F Ftxt Cx Ctxt : Type) (pf : F -> Ftxt) (rf : Ftxt -> F) (f_of_int : Z -> F),
  (forall x, rf (pf x) = x) -> forall (m : mesh F Cx) L,
  @print_medit F Ftxt Cx Ctxt pf m = Some L -> @parse_medit F Ftxt Cx Ctxt rf f_of_int L = vocab_medit m.
Proof. exact medit_roundtrip. Qed.
Print Assumptions C04_roundtrip_medit.
