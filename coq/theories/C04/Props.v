(* C04 property theorems only: each closed by `exact <lemma>` with Print Assumptions beneath.
   F / Ftxt: binary64 values and their decimal texts; pf = '{}'.format, rf = float(), f_of_int = float("12").
   The one fact assumed of them is the round trip rf (pf x) = x (tested on every run).
   Guards that are not in the property's quantifier are visible premises (no_xyz_attrs, no_obj_attrs, off_ok, geo_ok, ...);
   statements that cover only part of a clause carry _partial, refuted ones _refuted. *)
From Coq Require Import ZArith Bool String.
From Coq Require Import List.
Import ListNotations.
Require Import MV.C04.Gen MV.C04.Model MV.C04.Geo MV.C04.Stl MV.C04.Ref MV.C04.GeoRef MV.C04.Run MV.C04.Proofs.
Open Scope Z_scope.

(* ---- round trips parse_f (print_f m) = vocab_f m.
   no_xyz_attrs / no_obj_attrs: the mesh carries no "normals" / "uv_coords" attribute on its vertices or face corners (the
   exporters would write them as extra columns / vt vn lines: outside the model). *)
Theorem C04_roundtrip_xyz : forall (F Ftxt Cx Ctxt : Type) (pf : F -> Ftxt) (rf : Ftxt -> F) (f_of_int : Z -> F),
  (forall x, rf (pf x) = x) -> forall (m : mesh F Cx) L, no_xyz_attrs m ->
  @print_xyz F Ftxt Cx Ctxt pf m = Some L -> @parse_xyz F Ftxt Cx Ctxt rf f_of_int L = Some (vocab_xyz m).
Proof. exact roundtrip_xyz_stmt. Qed.
Print Assumptions C04_roundtrip_xyz.

Theorem C04_roundtrip_obj : forall (F Ftxt Cx Ctxt : Type) (pf : F -> Ftxt) (rf : Ftxt -> F) (f_of_int : Z -> F),
  (forall x, rf (pf x) = x) -> forall sw (m : mesh F Cx) L, no_obj_attrs m -> nonneg_edges (mE m) -> nonneg_elems (mF m) ->
  @print_obj F Ftxt Cx Ctxt pf sw m = Some L -> @parse_obj F Ftxt Cx Ctxt rf f_of_int L = vocab_obj sw m.
Proof. exact roundtrip_obj_stmt. Qed.
Print Assumptions C04_roundtrip_obj.

(* off_ok: faces have at least 3 vertices (a `2 a b` line is an edge for the importer, `1 a` / `0` are skipped) *)
Theorem C04_roundtrip_off : forall (F Ftxt Cx Ctxt : Type) (pf : F -> Ftxt) (rf : Ftxt -> F) (f_of_int : Z -> F),
  (forall x, rf (pf x) = x) -> forall (m : mesh F Cx), off_ok m ->
  @parse_off F Ftxt Cx Ctxt rf f_of_int (print_off Ctxt pf m) = Some (vocab_off m).
Proof. exact off_roundtrip. Qed.
Print Assumptions C04_roundtrip_off.

Theorem C04_roundtrip_tet : forall (F Ftxt Cx Ctxt : Type) (pf : F -> Ftxt) (rf : Ftxt -> F) (f_of_int : Z -> F),
  (forall x, rf (pf x) = x) -> forall (m : mesh F Cx),
  @parse_tet F Ftxt Cx Ctxt rf f_of_int (print_tet Ctxt pf m) = Some (vocab_tet m).
Proof. exact tet_roundtrip. Qed.
Print Assumptions C04_roundtrip_tet.

Theorem C04_roundtrip_medit : forall (F Ftxt Cx Ctxt : Type) (pf : F -> Ftxt) (rf : Ftxt -> F) (f_of_int : Z -> F),
  (forall x, rf (pf x) = x) -> forall (m : mesh F Cx) L,
  @print_medit F Ftxt Cx Ctxt pf m = Some L -> @parse_medit F Ftxt Cx Ctxt rf f_of_int L = vocab_medit m.
Proof. exact medit_roundtrip. Qed.
Print Assumptions C04_roundtrip_medit.

(* geogram_ascii.  pc / rc: '{}'.format and complex() on complex values; f_is_zero x is x == 0.0, c_is_zero z is z == 0j;
   enc_s / dec_s, enc_n / dec_n: urllib.parse.quote (with the alphabets of Gen.v) / unquote applied to string values and to
   the names of user attributes.  Assumed of them (tested on every run, and evaluated on the concrete Coq version pct_encode /
   pct_decode in ex_pct_roundtrip): unquote (quote s) = s, and a quoted text holds no double quote and no chunk keyword.
   geo_ok m: attribute names are distinct on each container and are not names the format or mouette reserve (see
   C04_geogram_reserved_name_refuted); arities are >= 1; values have the attribute's type.  Cells of any arity are covered
   (cell_ptr is written when some cell is not a tetrahedron; the cell adjacency exists for tetrahedral meshes only). *)
Theorem C04_roundtrip_geogram : forall (F Ftxt Cx Ctxt : Type) (pf : F -> Ftxt) (rf : Ftxt -> F) (f_of_int : Z -> F)
    (pc : Cx -> Ctxt) (rc : Ctxt -> Cx) (cx_of_f : F -> Cx) (f_is_zero : F -> bool) (c_is_zero : Cx -> bool)
    (enc_s dec_s enc_n dec_n : string -> string),
  (forall x, rf (pf x) = x) -> (forall c, rc (pc c) = c) ->
  (forall s, dec_s (enc_s s) = s) -> (forall s, dec_n (enc_n s) = s) ->
  (forall s, @is_chunk_header Ftxt Ctxt (TWord (enc_s s)) = false) ->
  (forall s, clean (enc_n s) /\ @is_chunk_header Ftxt Ctxt (TWord (qs (enc_n s))) = false) ->
  forall (m : mesh F Cx), @geo_ok F Cx enc_n m ->
  @parse_geo F Ftxt Cx Ctxt rf f_of_int rc cx_of_f f_is_zero c_is_zero dec_s dec_n (@print_geo F Ftxt Cx Ctxt pf pc enc_s enc_n m)
  = Some (@vocab_geo F Cx f_is_zero c_is_zero m).
Proof. exact geo_roundtrip. Qed.
Print Assumptions C04_roundtrip_geogram.

(* corollary used with the round trip: every attribute comes back with its name, type and arity (fields of sparse_of a, see
   vocab_geo) and, read densely over the n items of its container, with its values; a scalar attribute does not distinguish
   a value that compares equal to the type's default from the default itself (-0.0 reads back as 0.0). *)
Theorem C04_attributes_geogram : forall (F Cx : Type) (f_of_int : Z -> F) (cx_of_f : F -> Cx)
    (f_is_zero : F -> bool) (c_is_zero : Cx -> bool) (a : attr F Cx) (n : nat),
  1 <= a_ar a -> length (a_vals a) = (n * Z.to_nat (a_ar a))%nat ->
  (a_ar a = 1 -> Forall (fun v => @not_default F Cx f_is_zero c_is_zero v = false -> v = @ty_default F Cx f_of_int cx_of_f (a_ty a)) (a_vals a)) ->
  @dense_of F Cx f_of_int cx_of_f (Z.of_nat n) (@sparse_of F Cx f_is_zero c_is_zero a) = a_vals a
  /\ s_name (@sparse_of F Cx f_is_zero c_is_zero a) = a_name a
  /\ s_ty (@sparse_of F Cx f_is_zero c_is_zero a) = a_ty a /\ s_ar (@sparse_of F Cx f_is_zero c_is_zero a) = a_ar a.
Proof. exact attributes_geogram_stmt. Qed.
Print Assumptions C04_attributes_geogram.

(* ---- interoperability with the reference codecs of Ref.v (written from the format descriptions, free-form token
   stream readers for OFF / tet / Medit): what mouette writes means the same to the reference reader, and what the
   reference writer writes loads correctly. *)
Theorem C04_interop_xyz : forall (F Ftxt Cx Ctxt : Type) (pf : F -> Ftxt) (rf : Ftxt -> F) (f_of_int : Z -> F),
  (forall x, rf (pf x) = x) -> forall (m : mesh F Cx), no_xyz_attrs m ->
  (forall L, @print_xyz F Ftxt Cx Ctxt pf m = Some L -> @ref_parse_xyz F Ftxt Cx Ctxt rf f_of_int L = Some (vocab_xyz m))
  /\ @parse_xyz F Ftxt Cx Ctxt rf f_of_int (@ref_print_xyz F Ftxt Cx Ctxt pf m) = Some (vocab_xyz m).
Proof. exact interop_xyz_stmt. Qed.
Print Assumptions C04_interop_xyz.

(* obj_ref_ok: vertex indices are >= 0 and faces have at least 3 vertices (what the OBJ grammar can say) *)
Theorem C04_interop_obj : forall (F Ftxt Cx Ctxt : Type) (pf : F -> Ftxt) (rf : Ftxt -> F) (f_of_int : Z -> F),
  (forall x, rf (pf x) = x) -> forall sw (m : mesh F Cx), no_obj_attrs m ->
  (forall L el, obj_exported_edges sw m = Some el -> @obj_ref_ok F Cx el m -> @print_obj F Ftxt Cx Ctxt pf sw m = Some L ->
     @ref_parse_obj F Ftxt Cx Ctxt rf f_of_int L = Some (raw_of Cx (map (@v3 F) (mV m)) (map e2 el) (mF m) []))
  /\ (nonneg_edges (mE m) -> nonneg_elems (mF m) ->
      @parse_obj F Ftxt Cx Ctxt rf f_of_int (@ref_print_obj F Ftxt Cx Ctxt pf m)
      = Some (raw_of Cx (map (@v3 F) (mV m)) (map (fun e => keyify2 (fst e) (snd e)) (mE m)) (mF m) [])).
Proof. exact interop_obj_stmt. Qed.
Print Assumptions C04_interop_obj.

(* OBJ relative references (repaired in /repo, resolve_index): an independent writer may designate the vertex i of the n
   vertices written so far by i - n (-1 = the last one), in f and in l statements.  ref_print_obj_rel writes the n vertices, then
   every polyline and face that way; mouette loads the mesh it denotes.  The bound i < n is what makes i - n a relative
   reference (negative); nonneg_edges / nonneg_elems above: an index of a mesh is a natural number (absolute references) *)
Theorem C04_interop_obj_relative : forall (F Ftxt Cx Ctxt : Type) (pf : F -> Ftxt) (rf : Ftxt -> F) (f_of_int : Z -> F),
  (forall x, rf (pf x) = x) -> forall (m : mesh F Cx),
  Forall (fun e : Z * Z => fst e < zlen (mV m) /\ snd e < zlen (mV m)) (mE m) ->
  Forall (Forall (fun i => i < zlen (mV m))) (mF m) ->
  @parse_obj F Ftxt Cx Ctxt rf f_of_int (@ref_print_obj_rel F Ftxt Cx Ctxt pf m)
  = Some (raw_of Cx (map (@v3 F) (mV m)) (map (fun e => keyify2 (fst e) (snd e)) (mE m)) (mF m) []).
Proof. exact interop_obj_relative_stmt. Qed.
Print Assumptions C04_interop_obj_relative.

Theorem C04_interop_off : forall (F Ftxt Cx Ctxt : Type) (pf : F -> Ftxt) (rf : Ftxt -> F) (f_of_int : Z -> F),
  (forall x, rf (pf x) = x) -> forall (m : mesh F Cx),
  @ref_parse_off F Ftxt Cx Ctxt rf f_of_int (concat (print_off Ctxt pf m)) = Some (vocab_off m)
  /\ (off_ok m -> @parse_off F Ftxt Cx Ctxt rf f_of_int (@ref_print_off F Ftxt Cx Ctxt pf m) = Some (vocab_off m)).
Proof. exact interop_off_stmt. Qed.
Print Assumptions C04_interop_off.

Theorem C04_interop_tet : forall (F Ftxt Cx Ctxt : Type) (pf : F -> Ftxt) (rf : Ftxt -> F) (f_of_int : Z -> F),
  (forall x, rf (pf x) = x) -> forall (m : mesh F Cx),
  @ref_parse_tet F Ftxt Cx Ctxt rf f_of_int (concat (print_tet Ctxt pf m)) = Some (vocab_tet m)
  /\ @parse_tet F Ftxt Cx Ctxt rf f_of_int (@ref_print_tet F Ftxt Cx Ctxt pf m) = Some (vocab_tet m).
Proof. exact interop_tet_stmt. Qed.
Print Assumptions C04_interop_tet.

(* the reference writer emits every edge and the kinds Triangles, Quadrilaterals, Tetrahedra, Hexahedra in that order *)
Theorem C04_interop_medit : forall (F Ftxt Cx Ctxt : Type) (pf : F -> Ftxt) (rf : Ftxt -> F) (f_of_int : Z -> F),
  (forall x, rf (pf x) = x) -> forall (m : mesh F Cx),
  (forall L, @print_medit F Ftxt Cx Ctxt pf m = Some L ->
     option_map Some (@ref_parse_medit F Ftxt Cx Ctxt rf f_of_int (concat L)) = Some (vocab_medit m))
  /\ @parse_medit F Ftxt Cx Ctxt rf f_of_int (@ref_print_medit F Ftxt Cx Ctxt pf m)
     = Some (raw_of Cx (map (@v3 F) (mV m)) (map e2 (mE m))
               (filter (len_is 3) (mF m) ++ filter (len_is 4) (mF m)) (filter (len_is 4) (mC m) ++ filter (len_is 8) (mC m))).
Proof. exact interop_medit_stmt. Qed.
Print Assumptions C04_interop_medit.

(* ---- geogram_ascii read by an independent, count-driven reader (GeoRef.v: it reads the number of values the declared
   sizes announce and never looks for the next chunk header, as geogram does): it cuts the file exactly into the attribute
   sets and attributes mouette wrote, each attribute with all its values (count consistency of the file; the reader does
   not interpret them as vertices / faces).  geo_sizes_ok: every attribute holds size * arity values.
   PARTIAL: the converse direction (files of an independent geogram writer, and a file written by geogram itself) is
   compared per run with the model's parser, not proved. *)
Theorem C04_interop_geogram_partial : forall (F Ftxt Cx Ctxt : Type) (pf : F -> Ftxt) (pc : Cx -> Ctxt)
    (enc_s enc_n : string -> string) (m : mesh F Cx),
  @geo_sizes_ok F Cx m ->
  @ref_read_geo Ftxt Ctxt (@print_geo F Ftxt Cx Ctxt pf pc enc_s enc_n m)
  = Some (@items_of Ftxt Ctxt (tl (@geo_chunks F Ftxt Cx Ctxt pf pc enc_s enc_n m))).
Proof. exact geo_ref_reads. Qed.
Print Assumptions C04_interop_geogram_partial.

(* ---- binary STL (partial: triangle meshes; the importer is the third-party stl_reader, compared by the driver).
   to32 is struct.pack('f'): rounding to binary32.  Full statement wanted: load (save m) = soup of m for every mesh;
   missing: a model of stl_reader.  Quads: see C04_stl_quads_refuted. *)
Theorem C04_roundtrip_stl_partial : forall (F Cx F32 : Type) (to32 : F -> option F32) (zero32 : F32) (m : mesh F Cx) S,
  Forall (fun f => zlen f = 3) (mF m) -> @soup32 F Cx F32 to32 m = Some S ->
  exists L, @print_stl F Cx F32 to32 zero32 m = Some L /\ @ref_parse_stl F32 L = Some S.
Proof. exact stl_roundtrip. Qed.
Print Assumptions C04_roundtrip_stl_partial.

(* ---- the loaded object has the class its content implies (load() = _instanciate_raw_mesh_data of the imported data, which
   prepares it: edges that are not valid - endpoints equal or out of range - are dropped; the decision chains and the
   validity test are regenerated from mesh.py / mesh_data.py) *)
Theorem C04_class_implied : forall (F Cx : Type) (r : raw F Cx),
  (forall e, In e (rE r) -> edge_valid (zlen (rV r)) e = true) ->
  class_of_loaded r = Some (if negb (isnil (rC r)) then "VolumeMesh" else if negb (isnil (rF r)) then "SurfaceMesh"
                            else if negb (isnil (rE r)) then "PolyLine" else "PointCloud")%string.
Proof. exact class_loaded. Qed.
Print Assumptions C04_class_implied.

(* ---- load(path, dim=d): an explicit dimension not above that of the content gives the same class (it is a lower bound: no
   element kind is dropped, the object is never demoted); leaving it out is the plain load.  The max(...) and the value
   standing for "absent" are regenerated from mesh.py *)
Theorem C04_load_dim_never_demotes : forall (F Cx : Type) (r : raw F Cx) (d : Z),
  (forall e, In e (rE r) -> edge_valid (zlen (rV r)) e = true) -> d <= dim_raw r ->
  class_of_loaded_dim (Some d) r = Some (if negb (isnil (rC r)) then "VolumeMesh" else if negb (isnil (rF r)) then "SurfaceMesh"
                                         else if negb (isnil (rE r)) then "PolyLine" else "PointCloud")%string
  /\ class_of_loaded_dim None r = class_of_loaded r.
Proof. exact class_loaded_dim. Qed.
Print Assumptions C04_load_dim_never_demotes.

(* ---- corollary of the round trips: element kinds a format cannot express are absent from what its files give back *)
Theorem C04_vocabulary : forall (F Cx : Type) (m : mesh F Cx) sw,
  (rE (vocab_xyz m) = [] /\ rF (vocab_xyz m) = [] /\ rC (vocab_xyz m) = [])
  /\ (forall r, vocab_obj sw m = Some r -> rC r = [])
  /\ (rE (vocab_off m) = [] /\ rC (vocab_off m) = [])
  /\ (rE (vocab_tet m) = [] /\ rF (vocab_tet m) = [])
  /\ (forall r, vocab_medit m = Some r ->
        Forall (fun f => zlen f = 3 \/ zlen f = 4) (rF r) /\ Forall (fun c => zlen c = 8 \/ zlen c = 4) (rC r)).
Proof. exact vocabulary. Qed.
Print Assumptions C04_vocabulary.

(* ---- io.py: each extension is dispatched to the import / export function the model describes (tables of Gen.v) *)
Theorem C04_extension_dispatch : forall f, dispatch_ok f = true.
Proof. exact dispatch_all. Qed.
Print Assumptions C04_extension_dispatch.

(* ---- save(ignore_elements=...) (table of Gen.v): the named kinds and their attributes are absent from what is written,
   the vertices are kept, and without the switch nothing changes *)
Theorem C04_ignore_elements : forall (F Cx : Type) (sw : switches) (m : mesh F Cx),
  (In "edges"%string (sw_ignore sw) -> mE (apply_ignore sw m) = [] /\ mHard (apply_ignore sw m) = None /\ aE (apply_ignore sw m) = [])
  /\ (In "faces"%string (sw_ignore sw) -> mF (apply_ignore sw m) = [] /\ aF (apply_ignore sw m) = [] /\ aFC (apply_ignore sw m) = [])
  /\ (In "cells"%string (sw_ignore sw) -> mC (apply_ignore sw m) = [] /\ aC (apply_ignore sw m) = [] /\ aCC (apply_ignore sw m) = []
                                         /\ aCF (apply_ignore sw m) = [])
  /\ mV (apply_ignore sw m) = mV m /\ aV (apply_ignore sw m) = aV m
  /\ (sw_ignore sw = [] -> apply_ignore sw m = m).
Proof. exact ignore_elements_stmt. Qed.
Print Assumptions C04_ignore_elements.

(* ---- REFUTED for the faithful model (known findings, each replayed on the implementation on every run) *)
(* Medit: `Vertices 1` on one line is read by the reference (free-form) reader, skipped by mouette *)
Theorem C04_medit_inline_count_refuted :
  exists r1 r2, ref_parse_fmt Fmedit ex_medit_inline = Some r1 /\ parse_fmt Fmedit ex_medit_inline = Some r2
                /\ rV r1 = [[0; 0; 0]] /\ rV r2 = [].
Proof. exact medit_inline_count_refuted. Qed.
Print Assumptions C04_medit_inline_count_refuted.
(* Medit: in a `Dimension 2` file the reference label 7 of the vertex (0, 0) is loaded as z = 7.0 *)
Theorem C04_medit_dimension2_refuted :
  exists r, parse_fmt Fmedit ex_medit_dim2 = Some r /\ rV r = [[0; 0; 4619567317775286272]].
Proof. exact medit_dimension2_refuted. Qed.
Print Assumptions C04_medit_dimension2_refuted.
(* geogram_ascii: a user attribute named like one the format gives a meaning to ("point" on the vertices) is read back as
   geometry: 4 vertices instead of 2, no attribute *)
Theorem C04_geogram_reserved_name_refuted :
  exists r, parse_fmt Fgeo (map (fun t => [t]) (zprint_geo ex_point_mesh)) = Some r
            /\ length (rV r) = 4%nat /\ rAV r = [] /\ oraw_eqb (Some r) (vocab_fmt Fgeo default_sw ex_point_mesh) = false.
Proof. exact geogram_reserved_name_refuted. Qed.
Print Assumptions C04_geogram_reserved_name_refuted.
(* STL: a quad is outside the format's vocabulary yet is not left out: it is written as two triangles *)
Theorem C04_stl_quads_refuted :
  exists L S, zprint_stl ex_quad_smesh = Some L /\ @ref_parse_stl Z L = Some S /\ length S = 2%nat /\ Forall (fun t => length t = 3%nat) S.
Proof. exact stl_quad_refuted. Qed.
Print Assumptions C04_stl_quads_refuted.
