(* C04 property theorems only: each closed by `exact <lemma>` with Print Assumptions beneath.
   F / Ftxt: binary64 values and their decimal texts; pf = '{}'.format, rf = float(), f_of_int = float("12").
   The one fact assumed of them is the round trip rf (pf x) = x. *)
From Coq Require Import ZArith Bool String.
From Coq Require Import List.
Import ListNotations.
Require Import MV.C04.Gen MV.C04.Model MV.C04.Geo MV.C04.Stl MV.C04.Ref MV.C04.GeoRef MV.C04.Run MV.C04.Proofs.
Open Scope Z_scope.

Theorem C04_roundtrip_xyz : forall (F Ftxt Cx Ctxt : Type) (pf : F -> Ftxt) (rf : Ftxt -> F) (f_of_int : Z -> F),
  (forall x, rf (pf x) = x) -> forall (m : mesh F Cx) L,
  @print_xyz F Ftxt Cx Ctxt pf m = Some L -> @parse_xyz F Ftxt Cx Ctxt rf f_of_int L = Some (vocab_xyz m).
Proof. exact xyz_roundtrip. Qed.
Print Assumptions C04_roundtrip_xyz.

Theorem C04_roundtrip_obj : forall (F Ftxt Cx Ctxt : Type) (pf : F -> Ftxt) (rf : Ftxt -> F) (f_of_int : Z -> F),
  (forall x, rf (pf x) = x) -> forall sw (m : mesh F Cx) L,
  @print_obj F Ftxt Cx Ctxt pf sw m = Some L -> @parse_obj F Ftxt Cx Ctxt rf f_of_int L = vocab_obj sw m.
Proof. exact obj_roundtrip. Qed.
Print Assumptions C04_roundtrip_obj.

Theorem C04_roundtrip_off : forall (F Ftxt Cx Ctxt : Type) (pf : F -> Ftxt) (rf : Ftxt -> F) (f_of_int : Z -> F),
  (forall x, rf (pf x) = x) -> forall (m : mesh F Cx), off_ok m ->
  @parse_off F Ftxt Cx Ctxt rf f_of_int (print_off Ctxt pf m) = Some (vocab_off m).
Proof. exact off_roundtrip. Qed.
Print Assumptions C04_roundtrip_off.

Theorem C04_roundtrip_tet : forall (F Ftxt Cx Ctxt : Type) (pf : F -> Ftxt) (rf : Ftxt -> F) (f_of_int : Z -> F),
  (forall x, rf (pf x) = x) -> forall (m : mesh F Cx),
  @parse_tet F Ftxt Cx Ctxt rf f_of_int (print_tet Ctxt pf m) = Some (vocab_tet m).
Proof. exact tet_roundtrip. Qed.
Print Assumptions C04_roundtrip_tet.

Theorem C04_roundtrip_medit : forall (F Ftxt Cx Ctxt : Type) (pf : F -> Ftxt) (rf : Ftxt -> F) (f_of_int : Z -> F),
  (forall x, rf (pf x) = x) -> forall (m : mesh F Cx) L,
  @print_medit F Ftxt Cx Ctxt pf m = Some L -> @parse_medit F Ftxt Cx Ctxt rf f_of_int L = vocab_medit m.
Proof. exact medit_roundtrip. Qed.
Print Assumptions C04_roundtrip_medit.

(* geogram_ascii.  pc / rc: '{}'.format and complex() on complex values; f_is_zero x is x == 0.0, c_is_zero z is z == 0j.
   geo_ok m: attribute names are free of double quotes, are not the names the format reserves and are distinct on each
   container (nor 'corner_adjacent_facet' on face corners / 'adjacent_cell', 'opposite_cell' on cell facets, which mouette
   uses itself); arities are >= 1; values have the attribute's type; string values are not chunk headers.  Cells
   of any arity are covered (cell_ptr is written when some cell is not a tetrahedron; the cell adjacency is written and
   read back for tetrahedral meshes only). *)
Theorem C04_roundtrip_geogram : forall (F Ftxt Cx Ctxt : Type) (pf : F -> Ftxt) (rf : Ftxt -> F) (f_of_int : Z -> F)
    (pc : Cx -> Ctxt) (rc : Ctxt -> Cx) (cx_of_f : F -> Cx) (f_is_zero : F -> bool) (c_is_zero : Cx -> bool),
  (forall x, rf (pf x) = x) -> (forall c, rc (pc c) = c) -> forall (m : mesh F Cx), @geo_ok F Ftxt Cx Ctxt m ->
  @parse_geo F Ftxt Cx Ctxt rf f_of_int rc cx_of_f f_is_zero c_is_zero (@print_geo F Ftxt Cx Ctxt pf pc m)
  = Some (@vocab_geo F Cx f_is_zero c_is_zero m).
Proof. exact geo_roundtrip. Qed.
Print Assumptions C04_roundtrip_geogram.

(* every attribute comes back with its name, type and arity (they are fields of sparse_of a, see vocab_geo) and, read
   densely over the n items of its container, with its values; a scalar attribute does not distinguish a value that
   compares equal to the type's default from the default itself (-0.0 reads back as 0.0). *)
Theorem C04_attributes_geogram : forall (F Cx : Type) (f_of_int : Z -> F) (cx_of_f : F -> Cx)
    (f_is_zero : F -> bool) (c_is_zero : Cx -> bool) (a : attr F Cx) (n : nat),
  1 <= a_ar a -> length (a_vals a) = (n * Z.to_nat (a_ar a))%nat ->
  (a_ar a = 1 -> Forall (fun v => @not_default F Cx f_is_zero c_is_zero v = false -> v = @ty_default F Cx f_of_int cx_of_f (a_ty a)) (a_vals a)) ->
  @dense_of F Cx f_of_int cx_of_f (Z.of_nat n) (@sparse_of F Cx f_is_zero c_is_zero a) = a_vals a
  /\ s_name (@sparse_of F Cx f_is_zero c_is_zero a) = a_name a
  /\ s_ty (@sparse_of F Cx f_is_zero c_is_zero a) = a_ty a /\ s_ar (@sparse_of F Cx f_is_zero c_is_zero a) = a_ar a.
Proof. intros. split; [now apply geo_attr_dense | repeat split]. Qed.
Print Assumptions C04_attributes_geogram.

(* ---- interoperability with the reference codecs of Ref.v (written from the format descriptions, free-form token
   stream readers for OFF / tet / Medit): what mouette writes means the same to the reference reader, and what the
   reference writer writes loads correctly. *)
Theorem C04_interop_xyz : forall (F Ftxt Cx Ctxt : Type) (pf : F -> Ftxt) (rf : Ftxt -> F) (f_of_int : Z -> F),
  (forall x, rf (pf x) = x) -> forall (m : mesh F Cx),
  (forall L, @print_xyz F Ftxt Cx Ctxt pf m = Some L -> @ref_parse_xyz F Ftxt Cx Ctxt rf f_of_int L = Some (vocab_xyz m))
  /\ @parse_xyz F Ftxt Cx Ctxt rf f_of_int (@ref_print_xyz F Ftxt Cx Ctxt pf m) = Some (vocab_xyz m).
Proof. intros. split; [intros; eapply xyz_ref_reads; eassumption | now apply xyz_loads_ref]. Qed.
Print Assumptions C04_interop_xyz.

(* obj_ref_ok: vertex indices are >= 0 and faces have at least 3 vertices (what the OBJ grammar can say) *)
Theorem C04_interop_obj : forall (F Ftxt Cx Ctxt : Type) (pf : F -> Ftxt) (rf : Ftxt -> F) (f_of_int : Z -> F),
  (forall x, rf (pf x) = x) -> forall sw (m : mesh F Cx),
  (forall L el, obj_exported_edges sw m = Some el -> @obj_ref_ok F Cx el m -> @print_obj F Ftxt Cx Ctxt pf sw m = Some L ->
     @ref_parse_obj F Ftxt Cx Ctxt rf f_of_int L = Some (raw_of Cx (map (@v3 F) (mV m)) (map e2 el) (mF m) []))
  /\ @parse_obj F Ftxt Cx Ctxt rf f_of_int (@ref_print_obj F Ftxt Cx Ctxt pf m)
     = Some (raw_of Cx (map (@v3 F) (mV m)) (map (fun e => keyify2 (fst e) (snd e)) (mE m)) (mF m) []).
Proof. intros. split; [intros; eapply obj_ref_reads; eassumption | now apply obj_loads_ref]. Qed.
Print Assumptions C04_interop_obj.

Theorem C04_interop_off : forall (F Ftxt Cx Ctxt : Type) (pf : F -> Ftxt) (rf : Ftxt -> F) (f_of_int : Z -> F),
  (forall x, rf (pf x) = x) -> forall (m : mesh F Cx),
  @ref_parse_off F Ftxt Cx Ctxt rf f_of_int (concat (print_off Ctxt pf m)) = Some (vocab_off m)
  /\ (off_ok m -> @parse_off F Ftxt Cx Ctxt rf f_of_int (@ref_print_off F Ftxt Cx Ctxt pf m) = Some (vocab_off m)).
Proof. intros. split; [now apply off_ref_reads | now apply off_loads_ref]. Qed.
Print Assumptions C04_interop_off.

Theorem C04_interop_tet : forall (F Ftxt Cx Ctxt : Type) (pf : F -> Ftxt) (rf : Ftxt -> F) (f_of_int : Z -> F),
  (forall x, rf (pf x) = x) -> forall (m : mesh F Cx),
  @ref_parse_tet F Ftxt Cx Ctxt rf f_of_int (concat (print_tet Ctxt pf m)) = Some (vocab_tet m)
  /\ @parse_tet F Ftxt Cx Ctxt rf f_of_int (@ref_print_tet F Ftxt Cx Ctxt pf m) = Some (vocab_tet m).
Proof. intros. split; [now apply tet_ref_reads | now apply tet_loads_ref]. Qed.
Print Assumptions C04_interop_tet.

(* the reference writer emits every edge and the kinds Triangles, Quadrilaterals, Tetrahedra, Hexahedra in that order *)
Theorem C04_interop_medit : forall (F Ftxt Cx Ctxt : Type) (pf : F -> Ftxt) (rf : Ftxt -> F) (f_of_int : Z -> F),
  (forall x, rf (pf x) = x) -> forall (m : mesh F Cx),
  (forall L, @print_medit F Ftxt Cx Ctxt pf m = Some L ->
     option_map Some (@ref_parse_medit F Ftxt Cx Ctxt rf f_of_int (concat L)) = Some (vocab_medit m))
  /\ @parse_medit F Ftxt Cx Ctxt rf f_of_int (@ref_print_medit F Ftxt Cx Ctxt pf m)
     = Some (raw_of Cx (map (@v3 F) (mV m)) (map e2 (mE m))
               (filter (len_is 3) (mF m) ++ filter (len_is 4) (mF m)) (filter (len_is 4) (mC m) ++ filter (len_is 8) (mC m))).
Proof. intros F Ftxt Cx Ctxt pf rf f_of_int H m. split; [intros L HL; now apply (medit_ref_reads F Ftxt Cx Ctxt pf rf f_of_int H m L) | now apply medit_loads_ref]. Qed.
Print Assumptions C04_interop_medit.

(* ---- geogram_ascii read by an independent, count-driven reader (GeoRef.v: it reads the number of values the declared
   sizes announce and never looks for the next chunk header, as geogram does): it finds exactly the attribute sets and
   attributes mouette wrote, each attribute with all its values.  geo_sizes_ok: every attribute holds size * arity values.
   PARTIAL: the converse direction (files of an independent geogram writer, and a file written by geogram itself) is
   compared per run with the model's parser, not proved. *)
Theorem C04_interop_geogram_partial : forall (F Ftxt Cx Ctxt : Type) (pf : F -> Ftxt) (pc : Cx -> Ctxt) (m : mesh F Cx),
  @geo_sizes_ok F Cx m ->
  @ref_read_geo Ftxt Ctxt (@print_geo F Ftxt Cx Ctxt pf pc m) = Some (@items_of Ftxt Ctxt (tl (@geo_chunks F Ftxt Cx Ctxt pf pc m))).
Proof. exact geo_ref_reads. Qed.
Print Assumptions C04_interop_geogram_partial.

(* ---- binary STL (partial: triangle meshes; the importer is the third-party stl_reader, compared by the driver).
   to32 is struct.pack('f'): rounding to binary32.  Full statement wanted: load (save m) = soup of m for every mesh;
   missing: a model of stl_reader, and quads (written as two triangles, not claimed). *)
Theorem C04_roundtrip_stl_partial : forall (F Cx F32 : Type) (to32 : F -> option F32) (zero32 : F32) (m : mesh F Cx) S,
  Forall (fun f => zlen f = 3) (mF m) -> @soup32 F Cx F32 to32 m = Some S ->
  exists L, @print_stl F Cx F32 to32 zero32 m = Some L /\ @ref_parse_stl F32 L = Some S.
Proof. exact stl_roundtrip. Qed.
Print Assumptions C04_roundtrip_stl_partial.

(* ---- the loaded object has the class its content implies (load() = _instanciate_raw_mesh_data of the imported data, which
   prepares it: edges that are not valid - endpoints equal or out of range - are dropped; the decision chains and the
   validity test are regenerated from mesh.py / mesh_data.py) *)
Theorem C04_class_implied : forall (F Cx : Type) (r : raw F Cx),
  (forall e, In e (rE r) -> edge_valid (zlen (rV r)) e = true) ->
  class_of_loaded r = Some (if negb (isnil (rC r)) then "VolumeMesh" else if negb (isnil (rF r)) then "SurfaceMesh"
                            else if negb (isnil (rE r)) then "PolyLine" else "PointCloud")%string.
Proof. exact class_loaded. Qed.
Print Assumptions C04_class_implied.

(* ---- element kinds a format cannot express are absent from what its files give back (never turned into something
   else): together with the round trips above, parse_f (print_f m) has exactly these containers *)
Theorem C04_vocabulary : forall (F Cx : Type) (m : mesh F Cx) sw,
  (rE (vocab_xyz m) = [] /\ rF (vocab_xyz m) = [] /\ rC (vocab_xyz m) = [])
  /\ (forall r, vocab_obj sw m = Some r -> rC r = [])
  /\ (rE (vocab_off m) = [] /\ rC (vocab_off m) = [])
  /\ (rE (vocab_tet m) = [] /\ rF (vocab_tet m) = [])
  /\ (forall r, vocab_medit m = Some r ->
        Forall (fun f => zlen f = 3 \/ zlen f = 4) (rF r) /\ Forall (fun c => zlen c = 8 \/ zlen c = 4) (rC r)).
Proof. exact vocabulary. Qed.
Print Assumptions C04_vocabulary.

(* ---- REFUTED for the faithful model (known findings): legal files of independent writers that the importers misread *)
(* OBJ: -k is the k-th vertex from the end; mouette reads f -3 -2 -1 as the face (-4, -3, -2) *)
Theorem C04_obj_relative_indices_refuted :
  exists r, parse_fmt Fobj ex_obj_relative = Some r /\ rF r = [[-4; -3; -2]] /\ rF r <> [[0; 1; 2]].
Proof. exact obj_relative_indices_refuted. Qed.
Print Assumptions C04_obj_relative_indices_refuted.
(* Medit: `Vertices 1` on one line is read by the reference (free-form) reader, skipped by mouette *)
Theorem C04_medit_inline_count_refuted :
  exists r1 r2, ref_parse_fmt Fmedit ex_medit_inline = Some r1 /\ parse_fmt Fmedit ex_medit_inline = Some r2
                /\ rV r1 = [[0; 0; 0]] /\ rV r2 = [].
Proof. exact medit_inline_count_refuted. Qed.
Print Assumptions C04_medit_inline_count_refuted.
(* Medit: in a `Dimension 2` file the reference label 7 of the vertex (0, 0) is loaded as z = 7.0 *)
Theorem C04_medit_dimension2_refuted :
  exists r, parse_fmt Fmedit ex_medit_dim2 = Some r /\ rV r = [[0; 0; 4619567317775286272]].
Proof. exact medit_dimension2_refuted. Qed.
Print Assumptions C04_medit_dimension2_refuted.
