(* C20 - the priority queue of priority_queue.py: the GENERATED comparator / plumbing (Gen.v)
   instantiated in the generic heap theorems, and the statement over operation histories. *)
From Coq Require Import ZArith List Bool Arith Lia Permutation ZifyBool.
Import ListNotations.
Require Import MV.C20.Model MV.C20.Gen MV.C20.Run MV.C20.Proofs_Base MV.C20.Proofs_Heap.

(* ------------------------------------------------------------------ the generated comparator *)
Lemma item_lt_ok : lt_ok item_lt.
Proof.
  split; unfold item_lt.
  - intros a b H. lia.
  - intros a b c H1 H2. lia.
Qed.

Lemma item_lt_le (x y : item) : item_lt y x = false -> (fst x <= fst y)%Z.
Proof. unfold item_lt. lia. Qed.

(* ------------------------------------------------------------------ single operations *)
Definition pq_ok (d : list item) : Prop := heap_ok item_lt item_dummy d.

Lemma pq_init_ok : pq_ok pq_init.
Proof. unfold pq_init. apply heap_ok_nil. Qed.

Lemma pq_push_perm d x w : Permutation (pq_push d x w) ((w, x) :: d).
Proof. unfold pq_push. apply heappush_perm. Qed.

Lemma pq_push_ok d x w : pq_ok d -> pq_ok (pq_push d x w).
Proof. unfold pq_push. apply heappush_ok. exact item_lt_ok. Qed.

Lemma pq_pop_perm d it d' : pq_pop d = Some (it, d') -> Permutation d (it :: d').
Proof. unfold pq_pop, pq_get. apply heappop_perm. Qed.

Lemma pq_pop_ok d it d' : pq_ok d -> pq_pop d = Some (it, d') -> pq_ok d'.
Proof. unfold pq_pop, pq_get. apply heappop_ok. exact item_lt_ok. Qed.

Lemma pq_pop_min d it d' :
  pq_ok d -> pq_pop d = Some (it, d') -> forall y, In y d -> (fst it <= fst y)%Z.
Proof.
  unfold pq_pop, pq_get. intros H E y Hy. apply item_lt_le.
  exact (heappop_min _ _ _ item_lt_ok d it d' H E y Hy).
Qed.

Lemma pq_pop_none d : pq_pop d = None <-> d = [].
Proof. unfold pq_pop, pq_get. apply heappop_none. Qed.

Lemma pq_empty_spec d : pq_empty d = true <-> d = [].
Proof.
  unfold pq_empty. split.
  - destruct d as [|a t]; [reflexivity|]. cbn [length]. lia.
  - intros ->. reflexivity.
Qed.

Lemma pq_front_none d : pq_front d = None <-> d = [].
Proof. unfold pq_front. destruct d; simpl; split; intros; auto; discriminate. Qed.

Lemma pq_front_min d it :
  pq_ok d -> pq_front d = Some it -> In it d /\ forall y, In y d -> (fst it <= fst y)%Z.
Proof.
  unfold pq_front. intros H E. split; [eapply nth_error_In; exact E|].
  intros y Hy. apply item_lt_le.
  destruct (In_nth _ _ item_dummy Hy) as (i & Hi & <-).
  assert (E0 : it = nth 0 d item_dummy) by (destruct d; simpl in *; congruence).
  rewrite E0. apply (heap_ok_root _ _ _ item_lt_ok d H i Hi).
Qed.

(* front is the item the next pop hands out *)
Lemma pq_front_pop d it d' : pq_pop d = Some (it, d') -> pq_front d = Some it.
Proof.
  unfold pq_pop, pq_get, pq_front. intros E.
  destruct (heappop_some_head _ _ _ _ _ _ E) as [t ->]. reflexivity.
Qed.

(* ------------------------------------------------------------------ histories *)
(* state: the queue's data, and the items handed out so far (latest first) *)
Definition qapply (st : list item * list item) (o : qop) : list item * list item :=
  match o with
  | Push x w => (pq_push (fst st) x w, snd st)
  | Pop => match pq_pop (fst st) with
           | Some (it, d') => (d', it :: snd st)
           | None => st
           end
  | Empty | Front => st
  end.

Definition qreach (ops : list qop) : list item * list item := fold_left qapply ops (pq_init, []).

(* every item ever pushed, as (priority, payload) *)
Fixpoint pushed (ops : list qop) : list item :=
  match ops with
  | [] => []
  | Push x w :: t => (w, x) :: pushed t
  | _ :: t => pushed t
  end.

Lemma pushed_app a b : pushed (a ++ b) = pushed a ++ pushed b.
Proof.
  induction a as [|o t IH]; simpl; auto. destruct o; simpl; rewrite ?IH; auto.
Qed.

Lemma qreach_snoc ops o : qreach (ops ++ [o]) = qapply (qreach ops) o.
Proof. unfold qreach. rewrite fold_left_app. reflexivity. Qed.

(* pending ++ handed out = pushed, as multisets; and the data is always a heap *)
Lemma qreach_inv ops :
  pq_ok (fst (qreach ops)) /\
  Permutation (fst (qreach ops) ++ snd (qreach ops)) (pushed ops).
Proof.
  induction ops as [|o ops IH] using rev_ind.
  - split; [apply pq_init_ok|reflexivity].
  - rewrite qreach_snoc, pushed_app. destruct (qreach ops) as [d out]. simpl in IH.
    destruct IH as [IH1 IH2].
    destruct o as [x w| | |]; simpl; rewrite ?app_nil_r; auto.
    + split; [apply pq_push_ok; exact IH1|].
      etransitivity; [apply Permutation_app_tail; apply pq_push_perm|]. simpl.
      etransitivity; [|apply Permutation_cons_append]. apply perm_skip. exact IH2.
    + destruct (pq_pop d) as [[it d']|] eqn:E; simpl; [|auto].
      split; [eapply pq_pop_ok; eauto|].
      etransitivity; [|exact IH2].
      etransitivity; [symmetry; apply Permutation_middle|].
      change (Permutation ((it :: d') ++ out) (d ++ out)).
      apply Permutation_app_tail. symmetry. apply pq_pop_perm. exact E.
Qed.

Definition pq_history_statement : Prop :=
  forall ops : list qop,
    let d := fst (qreach ops) in
    let out := snd (qreach ops) in
    (* the pending items together with those handed out are exactly the pushed ones *)
    Permutation (d ++ out) (pushed ops) /\
    (* push adds exactly PriorityItem(x, w) *)
    (forall x w, Permutation (pq_push d x w) ((w, x) :: d)) /\
    (* pop/get hand out a pending item of minimum priority and remove exactly it *)
    (forall it d', pq_pop d = Some (it, d') ->
        Permutation d (it :: d') /\ (forall y, In y d -> (fst it <= fst y)%Z)) /\
    (forall it d', pq_get d = Some (it, d') ->
        Permutation d (it :: d') /\ (forall y, In y d -> (fst it <= fst y)%Z)) /\
    (* IndexError exactly on the empty queue; empty() is right *)
    (pq_pop d = None <-> d = []) /\
    (pq_empty d = true <-> d = []) /\
    (* front: a pending item of minimum priority, the one pop would hand out *)
    (pq_front d = None <-> d = []) /\
    (forall it, pq_front d = Some it -> In it d /\ forall y, In y d -> (fst it <= fst y)%Z) /\
    (forall it d', pq_pop d = Some (it, d') -> pq_front d = Some it).

Lemma pq_history : pq_history_statement.
Proof.
  intros ops d out. destruct (qreach_inv ops) as [H1 H2]. fold d in H1. fold d out in H2.
  split; [exact H2|].
  split; [intros; apply pq_push_perm|].
  split; [intros it d' E; split; [apply pq_pop_perm; exact E|exact (pq_pop_min d it d' H1 E)]|].
  split; [intros it d' E; split; [apply pq_pop_perm; exact E|exact (pq_pop_min d it d' H1 E)]|].
  split; [apply pq_pop_none|].
  split; [apply pq_empty_spec|].
  split; [apply pq_front_none|].
  split; [intros it E; apply pq_front_min; auto|].
  intros it d' E. eapply pq_front_pop; eauto.
Qed.

(* ------------------------------------------------------------------ examples (hypotheses satisfiable) *)
Definition ex_ops : list qop :=
  [Push 10 5; Push 11 (-3); Push 12 5; Push 13 0; Pop; Push 14 (-3); Push 15 1000000000;
   Push 16 (-1000000000); Pop; Empty; Front; Pop; Push 17 2]%Z.

Example ex_qreach :
  qreach ex_ops =
  ([(0, 13); (2, 17); (5, 12); (1000000000, 15); (5, 10)]%Z,
   [(-3, 14); (-1000000000, 16); (-3, 11)]%Z).
Proof. vm_compute. reflexivity. Qed.

Example ex_pop_some :
  pq_pop (fst (qreach ex_ops)) =
  Some ((0, 13)%Z, [(2, 17); (5, 10); (5, 12); (1000000000, 15)]%Z).
Proof. vm_compute. reflexivity. Qed.

Example ex_heap_ok_nontrivial : pq_ok (fst (qreach ex_ops)) /\ length (fst (qreach ex_ops)) = 5.
Proof. split; [apply qreach_inv|reflexivity]. Qed.
