From Coq Require Import ZArith List Bool Arith Lia.
Import ListNotations.
Require Import MV.C20.Model MV.C20.Gen MV.C20.Run.

Lemma index_of_app_notin x l : index_of x l = None -> index_of x (l ++ [x]) = Some (length l).
Proof.
  induction l as [|y t IH]; simpl.
  - rewrite Z.eqb_refl. reflexivity.
  - destruct (Z.eqb x y) eqn:E; [discriminate|].
    destruct (index_of x t); [discriminate|]. intros _. rewrite IH; reflexivity.
Qed.

Lemma mem_add s x : mem (add s x) x = true.
Proof.
  unfold add. destruct (mem s x) eqn:E; [exact E|].
  unfold mem in *. simpl. destruct (index_of x (elts s)) eqn:F; [discriminate|].
  rewrite index_of_app_notin by exact F. reflexivity.
Qed.
