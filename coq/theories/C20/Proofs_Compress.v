(* C20 - path compression is free: replacing the parent array of a reachable state by ANY array obtained through
   parent-to-grandparent shortcuts (path halving as in the code, path splitting, full compression: all are sequences
   of such steps) gives a well-formed state on which every query answers exactly the same. In particular find is
   idempotent on the partition, whatever compression variant it performs. *)
From Coq Require Import ZArith List Bool Arith Lia Permutation.
Import ListNotations.
Require Import MV.C20.Model MV.C20.Spec MV.C20.Proofs_Base MV.C20.Proofs_UF.

(* p' is reached from p by pointing, any number of times, some node to its grandparent *)
Inductive compress : list nat -> list nat -> Prop :=
| c_refl p : compress p p
| c_step p i p' : compress (upd p i (getp p (getp p i))) p' -> compress p p'.

(* the answer of a query, without the (compressed) state it also returns *)
Definition answer {A} (r : res (uf * A)) : option A :=
  match r with Ok (_, a) => Some a | _ => None end.

Lemma compress_forest n r d p p' : Forest n p r d -> compress p p' -> Forest n p' r d.
Proof.
  intros F C. induction C as [p|p i p' C IH]; [exact F|].
  apply IH. destruct (Nat.lt_ge_cases i n) as [Hi|Hi].
  - destruct (Nat.eq_dec (getp p i) i) as [E|E].
    + (* a root: nothing changes *)
      rewrite E, E. unfold getp in E. rewrite <- E at 2. rewrite upd_nth_same. exact F.
    + apply forest_halve; auto.
  - rewrite upd_ge; [exact F|]. rewrite (f_len _ _ _ _ F). exact Hi.
Qed.

Lemma with_par_inv s r d p' :
  Inv s r d -> Forest (length (elts s)) p' r d -> Inv (with_par s p') r d.
Proof.
  intros [SL ND F NC SZ NE NX IX] F'. unfold with_par. split; simpl; auto.
Qed.

Lemma compress_free_inv s r d p' :
  Inv s r d -> compress (par s) p' ->
  let s2 := with_par s p' in
  uf_wf s2 /\
  (forall x, answer (find s2 x) = answer (find s x)) /\
  (forall x y, answer (connected s2 x y) = answer (connected s x y)) /\
  (forall x y, same_comp s2 x y = same_comp s x y) /\
  (forall x, answer (component s2 x) = answer (component s x)) /\
  answer (roots s2) = answer (roots s) /\
  answer (components s2) = answer (components s) /\
  answer (mapping s2) = answer (mapping s) /\
  (forall i, i < length (elts s) -> root_of s2 i = root_of s i).
Proof.
  intros I C s2.
  assert (I2 : Inv s2 r d).
  { apply with_par_inv; [exact I|]. eapply compress_forest; [apply (i_forest _ _ _ I)|exact C]. }
  assert (EL : elts s2 = elts s) by reflexivity.
  assert (RZ : forall x, rootz s2 r x = rootz s r x) by reflexivity.
  split; [eapply Inv_wf; eauto|].
  split.
  { intros x. destruct (index_of x (elts s)) as [i|] eqn:E.
    - destruct (find_spec s r d x i I E) as (? & E1 & _).
      destruct (find_spec s2 r d x i I2 E) as (? & E2 & _). rewrite E1, E2. reflexivity.
    - rewrite (find_absent s r d x I E), (find_absent s2 r d x I2 E). reflexivity. }
  split.
  { intros x y.
    destruct (index_of x (elts s)) as [i|] eqn:Ex; [destruct (index_of y (elts s)) as [j|] eqn:Ey|].
    - destruct (connected_spec s r d x y i j I Ex Ey) as (? & E1 & _).
      destruct (connected_spec s2 r d x y i j I2 Ex Ey) as (? & E2 & _). rewrite E1, E2. reflexivity.
    - rewrite (connected_absent s r d x y I), (connected_absent s2 r d x y I2) by auto. reflexivity.
    - rewrite (connected_absent s r d x y I), (connected_absent s2 r d x y I2) by auto. reflexivity. }
  split.
  { intros x y. rewrite (same_comp_spec s2 r d x y I2), (same_comp_spec s r d x y I). reflexivity. }
  split.
  { intros x. destruct (index_of x (elts s)) as [i|] eqn:E.
    - destruct (component_spec s r d x i I E) as (? & E1 & _).
      destruct (component_spec s2 r d x i I2 E) as (? & E2 & _). rewrite E1, E2. reflexivity.
    - rewrite (component_absent s r d x I E), (component_absent s2 r d x I2 E). reflexivity. }
  split.
  { destruct (roots_spec s r d I) as (? & E1 & _). destruct (roots_spec s2 r d I2) as (? & E2 & _).
    rewrite E1, E2. reflexivity. }
  split.
  { destruct (components_spec s r d I) as (? & E1 & _). destruct (components_spec s2 r d I2) as (? & E2 & _).
    rewrite E1, E2. reflexivity. }
  split.
  { destruct (mapping_spec s r d I) as (? & E1 & _). destruct (mapping_spec s2 r d I2) as (? & E2 & _).
    rewrite E1, E2. reflexivity. }
  intros i Hi.
  destruct (root_of_inv s r d i I Hi) as (_ & _ & E1).
  destruct (root_of_inv s2 r d i I2 Hi) as (_ & _ & E2). congruence.
Qed.

Lemma uf_compression_free : forall (l : list Z) (h : list op) (p' : list nat),
  let s := reach_from l h in
  compress (par s) p' ->
  let s2 := with_par s p' in
  uf_wf s2 /\
  (forall x, answer (find s2 x) = answer (find s x)) /\
  (forall x y, answer (connected s2 x y) = answer (connected s x y)) /\
  (forall x y, same_comp s2 x y = same_comp s x y) /\
  (forall x, answer (component s2 x) = answer (component s x)) /\
  answer (roots s2) = answer (roots s) /\
  answer (components s2) = answer (components s) /\
  answer (mapping s2) = answer (mapping s) /\
  (forall i, i < length (elts s) -> root_of s2 i = root_of s i).
Proof.
  intros l h p' s C. subst s. revert C. rewrite reach_from_full. intros C.
  destruct (reach_inv (full l h)) as (r & d & I & _).
  exact (compress_free_inv _ r d p' I C).
Qed.

(* find performs such a compression: the state it returns is with_par of a compress-reachable array *)
Lemma find_loop_compress : forall k p i p' r0, find_loop k p i = Some (p', r0) -> compress p p'.
Proof.
  induction k as [|k IH]; intros p i p' r0 E; [discriminate|]. cbn [find_loop] in E.
  destruct (Nat.eqb i (getp p i)).
  - inversion E; subst. constructor.
  - apply (c_step p i). eapply IH; eauto.
Qed.

(* an example: full compression of the chain 3 -> 2 -> 0 built by three unions *)
Example ex_compress :
  let s := reach_from [] [Union 1 2; Union 3 4; Union 1 3]%Z in
  par s = [0; 0; 0; 2] /\ compress (par s) [0; 0; 0; 0] /\
  answer (components (with_par s [0; 0; 0; 0])) = answer (components s).
Proof.
  cbv zeta. split; [vm_compute; reflexivity|]. split.
  - apply (c_step _ 3). vm_compute. constructor.
  - vm_compute. reflexivity.
Qed.
