(* C20 - union-find: the structural invariant (ghost root function r and potential d), preserved by
   every operation of unionfind.py as modelled in Model.v. *)
From Coq Require Import ZArith List Bool Arith Lia Permutation.
Import ListNotations.
Require Import MV.C20.Model MV.C20.Spec MV.C20.Proofs_Base.

(* ------------------------------------------------------------------ getp / upd *)
Lemma getp_upd_eq p i v : i < length p -> getp (upd p i v) i = v.
Proof. intros H. unfold getp. apply nth_upd_eq; exact H. Qed.

Lemma getp_upd_neq p i j v : i <> j -> getp (upd p i v) j = getp p j.
Proof. intros H. unfold getp. apply nth_upd_neq; exact H. Qed.

Lemma getp_app1 p q i : i < length p -> getp (p ++ q) i = getp p i.
Proof. intros H. unfold getp. apply app_nth1; exact H. Qed.

Lemma getp_app_new p v : getp (p ++ [v]) (length p) = v.
Proof. unfold getp. rewrite app_nth2, Nat.sub_diag by lia. reflexivity. Qed.

(* ------------------------------------------------------------------ the parent forest *)
(* r: ghost root function; d: ghost potential, strictly decreasing along parent links *)
Record Forest (n : nat) (p : list nat) (r d : nat -> nat) : Prop := {
  f_len : length p = n;
  f_par_lt : forall i, i < n -> getp p i < n;
  f_r_lt : forall i, i < n -> r i < n;
  f_r_root : forall i, i < n -> getp p (r i) = r i;
  f_r_par : forall i, i < n -> r (getp p i) = r i;
  f_fix : forall i, i < n -> getp p i = i -> r i = i;
  f_d : forall i, i < n -> getp p i <> i -> d (getp p i) < d i
}.

Lemma forest_root_iff n p r d i : Forest n p r d -> i < n -> (getp p i = i <-> r i = i).
Proof.
  intros F Hi. split; [apply (f_fix _ _ _ _ F); exact Hi|].
  intros E. pose proof (f_r_root _ _ _ _ F i Hi) as H. rewrite E in H. exact H.
Qed.

Lemma forest_r_idem n p r d i : Forest n p r d -> i < n -> r (r i) = r i.
Proof.
  intros F Hi. apply (f_fix _ _ _ _ F); [apply (f_r_lt _ _ _ _ F); exact Hi|].
  apply (f_r_root _ _ _ _ F); exact Hi.
Qed.

(* path halving keeps the same r and d valid *)
Lemma forest_halve n p r d i :
  Forest n p r d -> i < n -> getp p i <> i ->
  Forest n (upd p i (getp p (getp p i))) r d.
Proof.
  intros [L PL RL RR RP FX D] Hi Hq.
  set (q := getp p i) in *. set (g := getp p q).
  assert (Hqn : q < n) by (apply PL; exact Hi).
  assert (Hgn : g < n) by (apply PL; exact Hqn).
  assert (Di : d q < d i) by (apply D; auto).
  assert (Dg : g <> q -> d g < d q) by (intros; apply D; auto).
  assert (Hgi : g <> i).
  { intros E. destruct (Nat.eq_dec g q) as [Egq|Egq]; [congruence|].
    specialize (Dg Egq). rewrite E in Dg. lia. }
  assert (G : forall j, getp (upd p i g) j = if Nat.eq_dec j i then g else getp p j).
  { intros j. destruct (Nat.eq_dec j i) as [->|Hne].
    - apply getp_upd_eq. lia.
    - apply getp_upd_neq. lia. }
  split.
  - rewrite upd_length; exact L.
  - intros j Hj. rewrite G. destruct (Nat.eq_dec j i); auto.
  - exact RL.
  - intros j Hj. rewrite G. destruct (Nat.eq_dec (r j) i) as [E|E]; [|apply RR; exact Hj].
    exfalso. apply Hq. unfold q. rewrite <- E. apply RR; exact Hj.
  - intros j Hj. rewrite G. destruct (Nat.eq_dec j i) as [->|E]; [|apply RP; exact Hj].
    unfold g. rewrite RP by exact Hqn. unfold q. apply RP; exact Hi.
  - intros j Hj. rewrite G. destruct (Nat.eq_dec j i) as [->|E]; [|apply FX; exact Hj].
    intros E. contradiction.
  - intros j Hj. rewrite G. destruct (Nat.eq_dec j i) as [->|E]; [|apply D; exact Hj].
    intros _. destruct (Nat.eq_dec g q) as [Egq|Egq]; [rewrite Egq; exact Di|].
    specialize (Dg Egq). lia.
Qed.

(* rank of i: how many indices have a smaller potential; bounds the remaining steps of find *)
Definition rank (d : nat -> nat) (n i : nat) : nat := cnt (fun j => d j <? d i) n.

Lemma rank_le d n i : rank d n i <= n.
Proof. apply cnt_le. Qed.

Lemma rank_lt d n i q : q < n -> d q < d i -> rank d n q < rank d n i.
Proof.
  intros Hq Hd. unfold rank. apply (cnt_strict _ _ n q); auto.
  - intros j _ H. apply Nat.ltb_lt in H. apply Nat.ltb_lt. lia.
  - apply Nat.ltb_ge. lia.
  - apply Nat.ltb_lt. exact Hd.
Qed.

Lemma find_loop_ok n r d : forall k p i,
  Forest n p r d -> i < n -> rank d n i < k ->
  exists p', find_loop k p i = Some (p', r i) /\ Forest n p' r d.
Proof.
  induction k as [|k IH]; intros p i F Hi Hk; [lia|].
  cbn [find_loop]. destruct (Nat.eqb i (getp p i)) eqn:E.
  - apply Nat.eqb_eq in E. exists p. split; [|exact F].
    rewrite (f_fix _ _ _ _ F i Hi) by auto. reflexivity.
  - apply Nat.eqb_neq in E.
    assert (Hq : getp p i <> i) by auto.
    assert (Hqn : getp p i < n) by (apply (f_par_lt _ _ _ _ F); exact Hi).
    destruct (IH (upd p i (getp p (getp p i))) (getp p i)) as (p' & E1 & F1).
    + apply forest_halve; auto.
    + exact Hqn.
    + pose proof (rank_lt d n i (getp p i) Hqn (f_d _ _ _ _ F i Hi Hq)). lia.
    + exists p'. split; [|exact F1]. rewrite E1. rewrite (f_r_par _ _ _ _ F i Hi). reflexivity.
Qed.

(* ------------------------------------------------------------------ the state invariant *)
Record Inv (s : uf) (r d : nat -> nat) : Prop := {
  i_siz_len : length (siz s) = length (elts s);
  i_nodup : NoDup (elts s);
  i_forest : Forest (length (elts s)) (par s) r d;
  i_ncomps : ncomps s = cnt (fun j => r j =? j) (length (elts s));
  i_siz : forall i, i < length (elts s) -> r i = i ->
                    nth i (siz s) 0 = cnt (fun j => r j =? i) (length (elts s));
  (* n_elts, _next and the dict _indx agree with _elts *)
  i_nelts : n_elts s = length (elts s);
  i_next : next s = length (elts s);
  i_indx : indx s = combine (elts s) (seq 0 (length (elts s)))
}.

Lemma lookup_ok s x :
  indx s = combine (elts s) (seq 0 (length (elts s))) -> lookup x (indx s) = index_of x (elts s).
Proof. intros ->. apply lookup_index. Qed.

(* s' differs from s in the parent array only *)
Definition same_but_par (s s' : uf) : Prop :=
  elts s' = elts s /\ siz s' = siz s /\ ncomps s' = ncomps s /\
  n_elts s' = n_elts s /\ next s' = next s /\ indx s' = indx s.

Lemma sbp_refl s : same_but_par s s.
Proof. repeat split. Qed.

Lemma sbp_trans s1 s2 s3 : same_but_par s1 s2 -> same_but_par s2 s3 -> same_but_par s1 s3.
Proof.
  unfold same_but_par. intros (A & B & C & D & E & F) (A' & B' & C' & D' & E' & F').
  repeat split; congruence.
Qed.

Lemma find_spec s r d x i :
  Inv s r d -> index_of x (elts s) = Some i ->
  exists s', find s x = Ok (s', r i) /\ same_but_par s s' /\ Inv s' r d.
Proof.
  intros [SL ND F NC SZ NE NX IX] E. unfold find. rewrite (lookup_ok s x IX), E.
  destruct (index_of_Some _ _ _ E) as [Hi _].
  destruct (find_loop_ok _ r d (S (length (par s))) (par s) i F Hi) as (p' & E1 & F1).
  { rewrite (f_len _ _ _ _ F). pose proof (rank_le d (length (elts s)) i). lia. }
  rewrite E1. eexists. split; [reflexivity|]. split; [repeat split|].
  unfold with_par. split; simpl; auto.
Qed.

Lemma find_absent s r d x : Inv s r d -> index_of x (elts s) = None -> find s x = ValueError.
Proof. intros I E. unfold find. rewrite (lookup_ok s x (i_indx _ _ _ I)), E. reflexivity. Qed.

Lemma connected_spec s r d x y i j :
  Inv s r d -> index_of x (elts s) = Some i -> index_of y (elts s) = Some j ->
  exists s', connected s x y = Ok (s', Nat.eqb (r i) (r j)) /\ same_but_par s s' /\ Inv s' r d.
Proof.
  intros I Ex Ey. unfold connected.
  destruct (find_spec s r d x i I Ex) as (s1 & E1 & B1 & I1). rewrite E1.
  assert (Ey1 : index_of y (elts s1) = Some j) by (destruct B1 as (-> & _); exact Ey).
  destruct (find_spec s1 r d y j I1 Ey1) as (s2 & E2 & B2 & I2). rewrite E2.
  exists s2. split; [reflexivity|]. split; [eapply sbp_trans; eauto|exact I2].
Qed.

Lemma connected_absent s r d x y :
  Inv s r d -> index_of x (elts s) = None \/ index_of y (elts s) = None ->
  connected s x y = ValueError.
Proof.
  intros I H. unfold connected.
  destruct (index_of x (elts s)) as [i|] eqn:Ex.
  - destruct H as [H|H]; [discriminate|].
    destruct (find_spec s r d x i I Ex) as (s1 & E1 & B1 & I1). rewrite E1.
    rewrite (find_absent s1 r d y I1); [reflexivity|]. destruct B1 as (-> & _); exact H.
  - rewrite (find_absent s r d x I) by exact Ex. reflexivity.
Qed.

(* index of an element (0 for absent ones, never used for those) and the root of an element *)
Definition idx (s : uf) (x : Z) : nat :=
  match index_of x (elts s) with Some i => i | None => 0 end.
Definition rootz (s : uf) (r : nat -> nat) (x : Z) : nat := r (idx s x).

Lemma rootz_sbp s s' r x : same_but_par s s' -> rootz s' r x = rootz s r x.
Proof. intros (E & _). unfold rootz, idx. rewrite E. reflexivity. Qed.

Lemma find_all_spec s r d l :
  Inv s r d -> (forall x, In x l -> In x (elts s)) ->
  exists s', find_all s l = Ok (s', map (rootz s r) l) /\ same_but_par s s' /\ Inv s' r d.
Proof.
  revert s. induction l as [|x t IH]; intros s I H.
  - exists s. split; [reflexivity|]. split; [apply sbp_refl|exact I].
  - cbn [find_all].
    destruct (proj1 (index_of_In x (elts s)) (H x (or_introl eq_refl))) as [i Ei].
    destruct (find_spec s r d x i I Ei) as (s1 & E1 & B1 & I1). rewrite E1.
    destruct (IH s1 I1) as (s2 & E2 & B2 & I2).
    { intros y Hy. destruct B1 as (-> & _). apply H. right; exact Hy. }
    rewrite E2. exists s2. split.
    + cbn [map]. f_equal. f_equal. f_equal.
      * unfold rootz, idx. rewrite Ei. reflexivity.
      * apply map_ext. intros y. apply rootz_sbp. exact B1.
    + split; [eapply sbp_trans; eauto|exact I2].
Qed.

(* ------------------------------------------------------------------ add *)
Ltac beq :=
  repeat match goal with
         | |- context [Nat.eqb ?x ?y] => destruct (Nat.eqb_spec x y)
         | H : context [Nat.eqb ?x ?y] |- _ => destruct (Nat.eqb_spec x y)
         end.

Lemma mem_index s r d x : Inv s r d -> (mem s x = true <-> exists i, index_of x (elts s) = Some i).
Proof.
  intros I. unfold mem. rewrite (lookup_ok s x (i_indx _ _ _ I)). destruct (index_of x (elts s)) as [i|]; split; intros H; eauto; try discriminate.
  destruct H; discriminate.
Qed.

Lemma mem_In s r d x : Inv s r d -> (mem s x = true <-> In x (elts s)).
Proof. intros I. rewrite (mem_index s r d x I). symmetry. apply index_of_In. Qed.

Lemma add_present s x : mem s x = true -> add s x = s.
Proof. intros H. unfold add. rewrite H. reflexivity. Qed.

Lemma add_absent s x :
  mem s x = false ->
  add s x = mkuf (elts s ++ [x]) (par s ++ [next s]) (siz s ++ [1]) (S (ncomps s))
                 (S (n_elts s)) (S (next s)) (indx s ++ [(x, next s)]).
Proof. intros H. unfold add. rewrite H. reflexivity. Qed.

Lemma add_inv_new s r d x :
  Inv s r d -> ~ In x (elts s) ->
  Inv (mkuf (elts s ++ [x]) (par s ++ [next s]) (siz s ++ [1]) (S (ncomps s))
            (S (n_elts s)) (S (next s)) (indx s ++ [(x, next s)]))
      (fun i => if i =? length (elts s) then length (elts s) else r i) d.
Proof.
  intros [SL ND F NC SZ NE NX IX] Hx. destruct F as [L PL RL RR RP FX D]. rewrite NX.
  remember (length (elts s)) as n eqn:Hn.
  assert (Ln : length (elts s ++ [x]) = S n) by (rewrite app_length; simpl; lia).
  assert (G : forall j, j < S n -> getp (par s ++ [n]) j = if j =? n then n else getp (par s) j).
  { intros j Hj. destruct (Nat.eqb_spec j n) as [->|Hne].
    - rewrite <- L. rewrite getp_app_new. reflexivity.
    - apply getp_app1. lia. }
  split; cbn [elts par siz ncomps n_elts next indx]; rewrite ?Ln.
  - rewrite !app_length. simpl. lia.
  - apply (Permutation_NoDup (Permutation_cons_append (elts s) x)). constructor; auto.
  - split.
    + rewrite app_length. simpl. lia.
    + intros j Hj. cbn beta. rewrite G by exact Hj. destruct (Nat.eqb_spec j n); [lia|].
      assert (getp (par s) j < n) by (apply PL; lia). lia.
    + intros j Hj. cbn beta. destruct (Nat.eqb_spec j n); [lia|]. assert (r j < n) by (apply RL; lia). lia.
    + intros j Hj. cbn beta. destruct (Nat.eqb_spec j n) as [->|Hne].
      * rewrite G by lia. rewrite Nat.eqb_refl. reflexivity.
      * assert (Hr : r j < n) by (apply RL; lia). rewrite G by lia.
        destruct (Nat.eqb_spec (r j) n); [lia|]. apply RR; lia.
    + intros j Hj. cbn beta. rewrite G by exact Hj. destruct (Nat.eqb_spec j n) as [->|Hne].
      * cbn iota. rewrite Nat.eqb_refl. reflexivity.
      * assert (Hq : getp (par s) j < n) by (apply PL; lia).
        destruct (Nat.eqb_spec (getp (par s) j) n); [lia|]. apply RP; lia.
    + intros j Hj. cbn beta. rewrite G by exact Hj. destruct (Nat.eqb_spec j n) as [->|Hne]; [auto|].
      apply FX; lia.
    + intros j Hj. cbn beta. rewrite G by exact Hj. destruct (Nat.eqb_spec j n) as [->|Hne]; [lia|].
      apply D; lia.
  - rewrite cnt_S, Nat.eqb_refl, Nat.eqb_refl, NC.
    rewrite (cnt_ext (fun j => (if j =? n then n else r j) =? j) (fun j => r j =? j)); [lia|].
    intros j Hj. destruct (Nat.eqb_spec j n); [lia|reflexivity].
  - intros i Hi Hr. cbn beta in Hr |- *. rewrite cnt_S, Nat.eqb_refl.
    destruct (Nat.eqb_spec i n) as [->|Hne].
    + rewrite app_nth2 by lia. rewrite SL, Nat.sub_diag, Nat.eqb_refl. simpl.
      rewrite cnt_false; [reflexivity|].
      intros j Hj. destruct (Nat.eqb_spec j n); [lia|].
      assert (r j < n) by (apply RL; lia). apply Nat.eqb_neq. lia.
    + rewrite app_nth1 by lia. rewrite SZ by (auto; lia).
      destruct (Nat.eqb_spec n i); [lia|]. rewrite Nat.add_0_r.
      apply cnt_ext. intros j Hj. destruct (Nat.eqb_spec j n); [lia|reflexivity].
  - lia.
  - reflexivity.
  - rewrite IX, seq_S. simpl. rewrite combine_app by (rewrite seq_length; symmetry; exact Hn). reflexivity.
Qed.

(* add, whether or not the element was there: the root function is extended, never changed *)
Lemma add_spec s r d x :
  Inv s r d ->
  exists r', Inv (add s x) r' d /\
             (forall i, i < length (elts s) -> r' i = r i) /\
             (mem s x = true -> elts (add s x) = elts s) /\
             (mem s x = false -> elts (add s x) = elts s ++ [x] /\ r' (length (elts s)) = length (elts s)).
Proof.
  intros I. destruct (mem s x) eqn:E.
  - exists r. rewrite add_present by exact E. split; [exact I|]. split; [auto|]. split; [auto|]. intros; discriminate.
  - exists (fun i => if i =? length (elts s) then length (elts s) else r i).
    rewrite add_absent by exact E. split; [|split; [|split]].
    + apply add_inv_new; auto. intros H. apply (mem_In s r d x I) in H. congruence.
    + intros i Hi. destruct (Nat.eqb_spec i (length (elts s))); [lia|reflexivity].
    + intros; discriminate.
    + intros _. split; [reflexivity|]. rewrite Nat.eqb_refl. reflexivity.
Qed.

(* ------------------------------------------------------------------ linking two roots *)
Lemma link_inv s r d a b :
  Inv s r d -> a < length (elts s) -> b < length (elts s) -> r a = a -> r b = b -> a <> b ->
  Inv (mkuf (elts s) (upd (par s) a b)
            (upd (siz s) b (nth b (siz s) 0 + nth a (siz s) 0)) (pred (ncomps s))
            (n_elts s) (next s) (indx s))
      (fun i => if r i =? a then b else r i)
      (fun i => if r i =? a then d i + d b + 1 else d i).
Proof.
  intros [SL ND F NC SZ NE NX IX] Ha Hb Ra Rb Hab.
  assert (Pb : getp (par s) b = b) by (apply (forest_root_iff _ _ _ _ _ F); auto).
  destruct F as [L PL RL RR RP FX D].
  remember (length (elts s)) as n eqn:Hn.
  assert (G : forall j, getp (upd (par s) a b) j = if j =? a then b else getp (par s) j).
  { intros j. destruct (Nat.eqb_spec j a) as [->|Hne].
    - apply getp_upd_eq. lia.
    - apply getp_upd_neq. lia. }
  split; cbn [elts par siz ncomps n_elts next indx]; rewrite <- ?Hn.
  - rewrite upd_length. exact SL.
  - exact ND.
  - split.
    + rewrite upd_length. exact L.
    + intros j Hj. rewrite G. destruct (j =? a); auto.
    + intros j Hj. destruct (r j =? a); auto.
    + intros j Hj. rewrite G. destruct (Nat.eqb_spec (r j) a) as [E|E].
      * destruct (Nat.eqb_spec b a); [lia|exact Pb].
      * destruct (Nat.eqb_spec (r j) a); [lia|]. apply RR; exact Hj.
    + intros j Hj. rewrite G. destruct (Nat.eqb_spec j a) as [->|E].
      * rewrite Rb, Ra, Nat.eqb_refl. destruct (Nat.eqb_spec b a); [lia|reflexivity].
      * rewrite RP by exact Hj. reflexivity.
    + intros j Hj. rewrite G. destruct (Nat.eqb_spec j a) as [->|E]; intros H; [lia|].
      rewrite (FX j Hj H). destruct (Nat.eqb_spec j a); [lia|reflexivity].
    + intros j Hj. rewrite G. destruct (Nat.eqb_spec j a) as [->|E]; intros H.
      * rewrite Rb, Ra, Nat.eqb_refl. destruct (Nat.eqb_spec b a); lia.
      * rewrite RP by exact Hj. specialize (D j Hj H). destruct (r j =? a); lia.
  - rewrite NC.
    rewrite (cnt_split (fun j => r j =? j) (fun j => (if r j =? a then b else r j) =? j) (Nat.eqb a) n).
    + rewrite cnt_eqb by exact Ha. lia.
    + intros j Hj. beq; subst; simpl; try reflexivity; try lia; congruence.
    + intros j Hj. beq; subst; simpl; try reflexivity; try lia; try congruence.
  - intros i Hi Hr.
    assert (Hi2 : r i = i /\ i <> a).
    { destruct (Nat.eqb_spec (r i) a) as [E|E]; [|split; [exact Hr|congruence]].
      subst i. rewrite Rb in E. lia. }
    destruct Hi2 as [Ri Hia].
    destruct (Nat.eq_dec i b) as [->|Hib].
    + rewrite nth_upd_eq by lia. rewrite (SZ b Hb Rb), (SZ a Ha Ra).
      symmetry. apply cnt_split.
      * intros j Hj. beq; subst; simpl; try reflexivity; try lia; congruence.
      * intros j Hj. beq; subst; simpl; try reflexivity; try lia; congruence.
    + rewrite nth_upd_neq by lia. rewrite (SZ i Hi Ri).
      apply cnt_ext. intros j Hj. beq; subst; simpl; try reflexivity; try lia; congruence.
  - exact NE.
  - exact NX.
  - exact IX.
Qed.

(* ------------------------------------------------------------------ union *)
Lemma union_spec s x y r0 d0 ix iy :
  let s0 := add (add s x) y in
  Inv s0 r0 d0 -> index_of x (elts s0) = Some ix -> index_of y (elts s0) = Some iy ->
  exists s' r' d',
    union s x y = Ok s' /\ Inv s' r' d' /\ elts s' = elts s0 /\
    forall i j, i < length (elts s0) -> j < length (elts s0) ->
      (r' i = r' j <-> r0 i = r0 j \/ (r0 i = r0 ix /\ r0 j = r0 iy) \/ (r0 i = r0 iy /\ r0 j = r0 ix)).
Proof.
  intros s0 I Ex Ey. unfold union. fold s0.
  destruct (find_spec s0 r0 d0 x ix I Ex) as (s1 & E1 & B1 & I1). rewrite E1.
  assert (Ey1 : index_of y (elts s1) = Some iy) by (destruct B1 as (-> & _); exact Ey).
  destruct (find_spec s1 r0 d0 y iy I1 Ey1) as (s2 & E2 & B2 & I2). rewrite E2.
  assert (B : same_but_par s0 s2) by (eapply sbp_trans; eauto).
  assert (El : elts s2 = elts s0) by (destruct B as (-> & _); reflexivity).
  destruct (index_of_Some _ _ _ Ex) as [Hix _]. destruct (index_of_Some _ _ _ Ey) as [Hiy _].
  pose proof (F2 := i_forest _ _ _ I2). rewrite El in F2.
  assert (Hxr : r0 ix < length (elts s0)) by (apply (f_r_lt _ _ _ _ F2); exact Hix).
  assert (Hyr : r0 iy < length (elts s0)) by (apply (f_r_lt _ _ _ _ F2); exact Hiy).
  assert (Rxr : r0 (r0 ix) = r0 ix) by (eapply forest_r_idem; eauto).
  assert (Ryr : r0 (r0 iy) = r0 iy) by (eapply forest_r_idem; eauto).
  destruct (Nat.eqb_spec (r0 ix) (r0 iy)) as [E|E].
  - exists s2, r0, d0. split; [reflexivity|]. split; [exact I2|]. split; [exact El|].
    intros i j _ _. split; [auto|]. intros [H|[[H1 H2]|[H1 H2]]]; congruence.
  - destruct (nth (r0 ix) (siz s2) 0 <? nth (r0 iy) (siz s2) 0).
    + do 3 eexists. split; [reflexivity|]. split.
      * apply (link_inv s2 r0 d0 (r0 ix) (r0 iy) I2); rewrite ?El; auto.
      * split; [exact El|]. intros i j _ _. cbn beta. beq; lia.
    + do 3 eexists. split; [reflexivity|]. split.
      * apply (link_inv s2 r0 d0 (r0 iy) (r0 ix) I2); rewrite ?El; auto.
      * split; [exact El|]. intros i j _ _. cbn beta. beq; lia.
Qed.

(* ------------------------------------------------------------------ refinement to the abstract spec *)

Lemma present_snoc h o x : present (h ++ [o]) x <-> present h x \/ In x (touched o).
Proof. unfold present. rewrite flat_map_app, in_app_iff. simpl. rewrite app_nil_r. tauto. Qed.

Lemma conn_present h x y : conn h x y -> present h x /\ present h y.
Proof.
  induction 1 as [x H|x y H|x y _ IH|x y z _ IH1 _ IH2]; try tauto.
  unfold present. rewrite !in_flat_map. split; exists (Union x y); simpl; auto.
Qed.

Lemma conn_mono h h' x y :
  (forall z, present h z -> present h' z) ->
  (forall a b, In (Union a b) h -> In (Union a b) h') ->
  conn h x y -> conn h' x y.
Proof.
  intros HP HU. induction 1 as [x H|x y H|x y _ IH|x y z _ IH1 _ IH2].
  - apply conn_refl; auto.
  - apply conn_union; auto.
  - apply conn_sym; auto.
  - eapply conn_trans; eauto.
Qed.

(* the partition carried by a state: same ghost root *)
Definition Rel (s : uf) (r : nat -> nat) (x y : Z) : Prop :=
  exists i j, index_of x (elts s) = Some i /\ index_of y (elts s) = Some j /\ r i = r j.

Lemma Rel_refl s r x : In x (elts s) -> Rel s r x x.
Proof. intros H. apply index_of_In in H as [i H]. exists i, i. auto. Qed.

Lemma Rel_sym s r x y : Rel s r x y -> Rel s r y x.
Proof. intros (i & j & A & B & C). exists j, i. auto. Qed.

Lemma Rel_trans s r x y z : Rel s r x y -> Rel s r y z -> Rel s r x z.
Proof.
  intros (i & j & A & B & C) (j' & k & A' & B' & C').
  assert (j = j') by congruence. subst j'. exists i, k. split; [auto|]. split; [auto|]. congruence.
Qed.

Definition Refines (h : list op) (s : uf) (r : nat -> nat) : Prop :=
  (forall x, In x (elts s) <-> present h x) /\ (forall x y, Rel s r x y <-> conn h x y).

Lemma index_add_old s a x i :
  index_of x (elts s) = Some i -> index_of x (elts (add s a)) = Some i.
Proof.
  intros H. unfold add. destruct (mem s a); [exact H|]. simpl. apply index_of_app_l. exact H.
Qed.

Lemma index_add_inv s a x i :
  index_of x (elts (add s a)) = Some i ->
  index_of x (elts s) = Some i \/
  (index_of x (elts s) = None /\ mem s a = false /\ x = a /\ i = length (elts s)).
Proof.
  unfold add. destruct (mem s a) eqn:E; [auto|]. simpl. intros H.
  destruct (index_of x (elts s)) as [k|] eqn:F.
  - left. rewrite (index_of_app_l _ _ [a] _ F) in H. exact H.
  - right. destruct (Z.eq_dec x a) as [->|Hne].
    + rewrite index_of_app_new in H by exact F. inversion H. auto.
    + rewrite index_of_app_other in H by auto. discriminate.
Qed.

Lemma step_add h s r d a :
  Inv s r d -> Refines h s r ->
  exists r', Inv (add s a) r' d /\ Refines (h ++ [Add a]) (add s a) r' /\
             (forall i, i < length (elts s) -> r' i = r i).
Proof.
  intros I [RP RC]. destruct (add_spec s r d a I) as (r' & I' & Hr & Hp & Ha).
  exists r'. split; [exact I'|]. split; [|exact Hr].
  assert (EP : forall x, In x (elts (add s a)) <-> present (h ++ [Add a]) x).
  { intros x. rewrite present_snoc. simpl. destruct (mem s a) eqn:E.
    - rewrite Hp by reflexivity. rewrite RP. split; [auto|].
      intros [H|[<-|[]]]; [exact H|]. apply RP. apply (mem_In s r d a I). exact E.
    - destruct Ha as [-> _]; [reflexivity|]. rewrite in_app_iff. simpl. rewrite RP. tauto. }
  assert (Mono : forall x y, conn h x y -> conn (h ++ [Add a]) x y).
  { intros x y. apply conn_mono.
    - intros z Hz. apply present_snoc. auto.
    - intros u v Hu. apply in_or_app. auto. }
  assert (Old : forall x y, Rel s r x y -> Rel (add s a) r' x y).
  { intros x y (i & j & A & B & C). exists i, j.
    destruct (index_of_Some _ _ _ A) as [Hi _]. destruct (index_of_Some _ _ _ B) as [Hj _].
    split; [apply index_add_old; exact A|]. split; [apply index_add_old; exact B|].
    rewrite !Hr by assumption. exact C. }
  split; [exact EP|]. intros x y. split.
  - intros (i & j & A & B & C).
    pose proof (F := i_forest _ _ _ I).
    apply index_add_inv in A. apply index_add_inv in B.
    destruct A as [A|(A & E & -> & ->)]; destruct B as [B|(B & E' & -> & ->)].
    + apply Mono. apply RC. exists i, j.
      destruct (index_of_Some _ _ _ A) as [Hi _]. destruct (index_of_Some _ _ _ B) as [Hj _].
      rewrite !Hr in C by assumption. auto.
    + exfalso. destruct (index_of_Some _ _ _ A) as [Hi _].
      destruct (Ha E') as [_ En]. rewrite En, Hr in C by exact Hi.
      pose proof (f_r_lt _ _ _ _ F i Hi). lia.
    + exfalso. destruct (index_of_Some _ _ _ B) as [Hj _].
      destruct (Ha E) as [_ En]. rewrite En, Hr in C by exact Hj.
      pose proof (f_r_lt _ _ _ _ F j Hj). lia.
    + apply conn_refl. apply present_snoc. right. simpl. auto.
  - induction 1 as [x H|x y H|x y _ IH|x y z _ IH1 _ IH2].
    + apply Rel_refl. apply EP. exact H.
    + apply in_app_or in H. destruct H as [H|[H|[]]]; [|discriminate].
      apply Old. apply RC. apply conn_union. exact H.
    + apply Rel_sym. exact IH.
    + eapply Rel_trans; eauto.
Qed.

Lemma step_union h s r d a b :
  Inv s r d -> Refines h s r ->
  exists s' r' d', union s a b = Ok s' /\ Inv s' r' d' /\ Refines (h ++ [Union a b]) s' r'.
Proof.
  intros I R.
  destruct (step_add h s r d a I R) as (r1 & I1 & R1 & _).
  destruct (step_add _ _ r1 d b I1 R1) as (r0 & I0 & [RP0 RC0] & _).
  set (h0 := (h ++ [Add a]) ++ [Add b]) in *. set (h' := h ++ [Union a b]).
  assert (PP : forall z, present h0 z <-> present h' z).
  { intros z. unfold h0, h'. rewrite !present_snoc. simpl. tauto. }
  assert (Mono : forall x y, conn h0 x y -> conn h' x y).
  { intros x y. apply conn_mono.
    - intros z. apply PP.
    - intros u v Hu. unfold h0 in Hu. unfold h'.
      apply in_app_or in Hu. destruct Hu as [Hu|[Hu|[]]]; [|discriminate].
      apply in_app_or in Hu. destruct Hu as [Hu|[Hu|[]]]; [|discriminate].
      apply in_or_app. auto. }
  assert (Pa : In a (elts (add (add s a) b))).
  { apply RP0. unfold h0. rewrite !present_snoc. simpl. tauto. }
  assert (Pb : In b (elts (add (add s a) b))).
  { apply RP0. unfold h0. rewrite !present_snoc. simpl. tauto. }
  apply index_of_In in Pa as [ia Ea]. apply index_of_In in Pb as [ib Eb].
  destruct (union_spec s a b r0 d ia ib I0 Ea Eb) as (s' & r' & d' & EU & I' & EL & CH).
  exists s', r', d'. split; [exact EU|]. split; [exact I'|].
  assert (EP : forall x, In x (elts s') <-> present h' x).
  { intros x. rewrite EL, RP0. apply PP. }
  assert (Cab : conn h' a b).
  { apply conn_union. unfold h'. apply in_or_app. right. simpl. auto. }
  split; [exact EP|]. intros x y. split.
  - intros (i & j & A & B & C). rewrite EL in A, B.
    destruct (index_of_Some _ _ _ A) as [Hi _]. destruct (index_of_Some _ _ _ B) as [Hj _].
    apply CH in C; [|exact Hi|exact Hj].
    destruct C as [C|[[C1 C2]|[C1 C2]]].
    + apply Mono. apply RC0. exists i, j. auto.
    + apply conn_trans with a; [apply Mono, RC0; exists i, ia; auto|].
      apply conn_trans with b; [exact Cab|]. apply Mono, RC0. exists ib, j. auto.
    + apply conn_trans with b; [apply Mono, RC0; exists i, ib; auto|].
      apply conn_trans with a; [apply conn_sym; exact Cab|]. apply Mono, RC0. exists ia, j. auto.
  - assert (Old : forall u v, Rel (add (add s a) b) r0 u v -> Rel s' r' u v).
    { intros u v (i & j & A & B & C). exists i, j. rewrite EL.
      destruct (index_of_Some _ _ _ A) as [Hi _]. destruct (index_of_Some _ _ _ B) as [Hj _].
      split; [exact A|]. split; [exact B|]. apply CH; auto. }
    induction 1 as [x H|x y H|x y _ IH|x y z _ IH1 _ IH2].
    + apply Rel_refl. apply EP. exact H.
    + unfold h' in H. apply in_app_or in H. destruct H as [H|[H|[]]].
      * apply Old. apply RC0. unfold h0. apply conn_union. apply in_or_app. left.
        apply in_or_app. left. exact H.
      * inversion H; subst. exists ia, ib. rewrite EL.
        destruct (index_of_Some _ _ _ Ea) as [Hi _]. destruct (index_of_Some _ _ _ Eb) as [Hj _].
        split; [exact Ea|]. split; [exact Eb|]. apply CH; auto.
    + apply Rel_sym. exact IH.
    + eapply Rel_trans; eauto.
Qed.

(* ------------------------------------------------------------------ the views *)
Lemma select_map_filter {A} (f : A -> bool) l : select l (map f l) = filter f l.
Proof. induction l as [|x t IH]; simpl; auto. destruct (f x); rewrite IH; reflexivity. Qed.

Lemma combine_map_r {A B} (f : A -> B) l : combine l (map f l) = map (fun x => (x, f x)) l.
Proof. induction l as [|x t IH]; simpl; auto. rewrite IH; reflexivity. Qed.

Lemma mem_false_index s r d x : Inv s r d -> index_of x (elts s) = None -> mem s x = false.
Proof. intros I H. unfold mem. rewrite (lookup_ok s x (i_indx _ _ _ I)), H. reflexivity. Qed.

Lemma mem_true_index s r d x i : Inv s r d -> index_of x (elts s) = Some i -> mem s x = true.
Proof. intros I H. unfold mem. rewrite (lookup_ok s x (i_indx _ _ _ I)), H. reflexivity. Qed.

Lemma find_all_elts s r d :
  Inv s r d ->
  exists s', find_all s (elts s) = Ok (s', map (rootz s r) (elts s)) /\ same_but_par s s' /\ Inv s' r d.
Proof. intros I. apply find_all_spec; auto. Qed.

Lemma component_spec s r d x i :
  Inv s r d -> index_of x (elts s) = Some i ->
  exists s', component s x = Ok (s', filter (fun y => r i =? rootz s r y) (elts s)) /\
             same_but_par s s' /\ Inv s' r d.
Proof.
  intros I E. unfold component. rewrite (mem_true_index s r d x i I E). cbn [negb].
  destruct (find_all_elts s r d I) as (s1 & E1 & B1 & I1). rewrite E1.
  assert (Ex1 : index_of x (elts s1) = Some i) by (destruct B1 as (-> & _); exact E).
  destruct (find_spec s1 r d x i I1 Ex1) as (s2 & E2 & B2 & I2). rewrite E2.
  assert (B : same_but_par s s2) by (eapply sbp_trans; eauto).
  exists s2. split; [|split; [exact B|exact I2]].
  destruct B as (-> & _). rewrite map_map, select_map_filter. reflexivity.
Qed.

Lemma component_absent s r d x : Inv s r d -> index_of x (elts s) = None -> component s x = ValueError.
Proof. intros I E. unfold component. rewrite (mem_false_index s r d x I E). reflexivity. Qed.

Definition root_list (s : uf) (r : nat -> nat) : list nat := nodup_nat (map (rootz s r) (elts s)).

Lemma roots_spec s r d :
  Inv s r d ->
  exists s', roots s = Ok (s', root_list s r) /\ same_but_par s s' /\ Inv s' r d.
Proof.
  intros I. unfold roots.
  destruct (find_all_elts s r d I) as (s1 & E1 & B1 & I1). rewrite E1.
  exists s1. auto.
Qed.

Lemma components_spec s r d :
  Inv s r d ->
  exists s', components s =
             Ok (s', map (fun rt => filter (fun y => rt =? rootz s r y) (elts s)) (root_list s r)) /\
             same_but_par s s' /\ Inv s' r d.
Proof.
  intros I. unfold components.
  destruct (roots_spec s r d I) as (s1 & E1 & B1 & I1). rewrite E1.
  destruct (find_all_elts s1 r d I1) as (s2 & E2 & B2 & I2). rewrite E2.
  assert (B : same_but_par s s2) by (eapply sbp_trans; eauto).
  exists s2. split; [|split; [exact B|exact I2]].
  f_equal. f_equal. apply map_ext. intros rt.
  destruct B2 as (-> & _). rewrite map_map, select_map_filter.
  destruct B1 as (El1 & _). rewrite El1.
  apply filter_ext. intros y. unfold rootz, idx. rewrite El1. reflexivity.
Qed.

Lemma mapping_spec s r d :
  Inv s r d ->
  exists s', mapping s =
             Ok (s', map (fun x => (x, filter (fun y => rootz s r x =? rootz s r y) (elts s))) (elts s)) /\
             same_but_par s s' /\ Inv s' r d.
Proof.
  intros I. unfold mapping.
  destruct (find_all_elts s r d I) as (s1 & E1 & B1 & I1). rewrite E1.
  exists s1. split; [|split; [exact B1|exact I1]].
  destruct B1 as (-> & _). rewrite combine_map_r, map_map. cbn [fst snd].
  f_equal. f_equal. apply map_ext. intros x.
  rewrite map_map, select_map_filter. reflexivity.
Qed.

(* every query leaves everything but the parent array alone, and keeps r and d *)
Lemma apply_query s r d o :
  Inv s r d -> is_query o -> same_but_par s (apply s o) /\ Inv (apply s o) r d.
Proof.
  intros I Q. destruct o as [a|a b|a|a b|a| | | | | |a|a]; cbn [apply is_query] in *;
    try contradiction; try (split; [apply sbp_refl|exact I]).
  - destruct (index_of a (elts s)) as [i|] eqn:E.
    + destruct (find_spec s r d a i I E) as (s' & E1 & B1 & I1). rewrite E1. auto.
    + rewrite (find_absent s r d a I) by exact E. split; [apply sbp_refl|exact I].
  - destruct (index_of a (elts s)) as [i|] eqn:Ea; [destruct (index_of b (elts s)) as [j|] eqn:Eb|].
    + destruct (connected_spec s r d a b i j I Ea Eb) as (s' & E1 & B1 & I1). rewrite E1. auto.
    + rewrite (connected_absent s r d a b I) by auto. split; [apply sbp_refl|exact I].
    + rewrite (connected_absent s r d a b I) by auto. split; [apply sbp_refl|exact I].
  - destruct (index_of a (elts s)) as [i|] eqn:E.
    + destruct (component_spec s r d a i I E) as (s' & E1 & B1 & I1). rewrite E1. auto.
    + rewrite (component_absent s r d a I) by exact E. split; [apply sbp_refl|exact I].
  - destruct (roots_spec s r d I) as (s' & E1 & B1 & I1). rewrite E1. auto.
  - destruct (components_spec s r d I) as (s' & E1 & B1 & I1). rewrite E1. auto.
  - destruct (mapping_spec s r d I) as (s' & E1 & B1 & I1). rewrite E1. auto.
Qed.

Lemma refines_query h s s' r o :
  Refines h s r -> same_but_par s s' -> is_query o -> Refines (h ++ [o]) s' r.
Proof.
  intros [RP RC] (El & _) Q.
  assert (T : touched o = []) by (destruct o; simpl in *; auto; contradiction).
  assert (PP : forall z, present (h ++ [o]) z <-> present h z).
  { intros z. rewrite present_snoc, T. simpl. tauto. }
  split.
  - intros x. rewrite El, RP, PP. tauto.
  - intros x y. unfold Rel. rewrite El. fold (Rel s r x y). rewrite RC. split.
    + apply conn_mono; [intros z; apply PP|]. intros a b H. apply in_or_app. auto.
    + apply conn_mono; [intros z; apply PP|]. intros a b H.
      apply in_app_or in H. destruct H as [H|[H|[]]]; [exact H|].
      subst o. simpl in Q. contradiction.
Qed.

Lemma reach_snoc h o : reach (h ++ [o]) = apply (reach h) o.
Proof. unfold reach. rewrite fold_left_app. reflexivity. Qed.

Lemma inv_empty : Inv uf_empty (fun i => i) (fun _ => 0).
Proof.
  split; simpl; auto; try constructor; simpl; auto; intros; lia.
Qed.

(* the main induction: every reachable state satisfies the invariant and refines the spec *)
Lemma reach_inv h : exists r d, Inv (reach h) r d /\ Refines h (reach h) r.
Proof.
  induction h as [|o h IH] using rev_ind.
  - exists (fun i => i), (fun _ => 0). split; [exact inv_empty|]. split.
    + intros x. unfold present. simpl. tauto.
    + intros x y. split.
      * intros (i & j & A & _). simpl in A. discriminate.
      * intros H. apply conn_present in H as [H _]. destruct H.
  - destruct IH as (r & d & I & R). rewrite reach_snoc.
    destruct o as [a|a b|a|a b|a| | | | | |a|a].
    + destruct (step_add h _ r d a I R) as (r' & I' & R' & _). exists r', d. auto.
    + destruct (step_union h _ r d a b I R) as (s' & r' & d' & E & I' & R').
      cbn [apply]. rewrite E. exists r', d'. auto.
    + exists r, d. destruct (apply_query _ r d (Find a) I) as [B I']; [exact Logic.I|]. split; [exact I'|]. eapply refines_query; eauto. exact Logic.I.
    + exists r, d. destruct (apply_query _ r d (Connected a b) I) as [B I']; [exact Logic.I|]. split; [exact I'|]. eapply refines_query; eauto. exact Logic.I.
    + exists r, d. destruct (apply_query _ r d (Component a) I) as [B I']; [exact Logic.I|]. split; [exact I'|]. eapply refines_query; eauto. exact Logic.I.
    + exists r, d. destruct (apply_query _ r d Roots I) as [B I']; [exact Logic.I|]. split; [exact I'|]. eapply refines_query; eauto. exact Logic.I.
    + exists r, d. destruct (apply_query _ r d Components I) as [B I']; [exact Logic.I|]. split; [exact I'|]. eapply refines_query; eauto. exact Logic.I.
    + exists r, d. destruct (apply_query _ r d Mapping I) as [B I']; [exact Logic.I|]. split; [exact I'|]. eapply refines_query; eauto. exact Logic.I.
    + exists r, d. destruct (apply_query _ r d Len I) as [B I']; [exact Logic.I|]. split; [exact I'|]. eapply refines_query; eauto. exact Logic.I.
    + exists r, d. destruct (apply_query _ r d NComps I) as [B I']; [exact Logic.I|]. split; [exact I'|]. eapply refines_query; eauto. exact Logic.I.
    + exists r, d. destruct (apply_query _ r d (Contains a) I) as [B I']; [exact Logic.I|]. split; [exact I'|]. eapply refines_query; eauto. exact Logic.I.
    + exists r, d. destruct (apply_query _ r d (GetItem a) I) as [B I']; [exact Logic.I|]. split; [exact I'|]. eapply refines_query; eauto. exact Logic.I.
Qed.

(* ------------------------------------------------------------------ theorem 1: invariant, totality *)
Lemma root_of_inv s r d i : Inv s r d -> i < length (elts s) ->
  exists p', find_loop (S (length (par s))) (par s) i = Some (p', r i) /\ root_of s i = r i.
Proof.
  intros I Hi. pose proof (F := i_forest _ _ _ I).
  destruct (find_loop_ok _ r d (S (length (par s))) (par s) i F Hi) as (p' & E & _).
  { rewrite (f_len _ _ _ _ F). pose proof (rank_le d (length (elts s)) i). lia. }
  exists p'. split; [exact E|]. unfold root_of. rewrite E. reflexivity.
Qed.

Lemma Inv_wf s r d : Inv s r d -> uf_wf s.
Proof.
  intros I. pose proof (F := i_forest _ _ _ I).
  assert (RO : forall i, i < length (elts s) -> root_of s i = r i).
  { intros i Hi. destruct (root_of_inv s r d i I Hi) as (_ & _ & E). exact E. }
  split.
  - apply (f_len _ _ _ _ F).
  - apply (i_siz_len _ _ _ I).
  - apply (i_nodup _ _ _ I).
  - apply (i_nelts _ _ _ I).
  - apply (i_next _ _ _ I).
  - apply (i_indx _ _ _ I).
  - intros x. apply lookup_ok. apply (i_indx _ _ _ I).
  - apply (f_par_lt _ _ _ _ F).
  - intros i Hi. destruct (root_of_inv s r d i I Hi) as (p' & E & E'). exists p'. rewrite E'. exact E.
  - intros i Hi. rewrite !RO by (auto; apply (f_par_lt _ _ _ _ F); exact Hi).
    split; [apply (f_r_lt _ _ _ _ F); exact Hi|].
    split; [apply (f_r_root _ _ _ _ F); exact Hi|apply (f_r_par _ _ _ _ F); exact Hi].
  - rewrite (i_ncomps _ _ _ I). apply cnt_ext. intros j Hj.
    pose proof (forest_root_iff _ _ _ _ j F Hj). beq; tauto.
  - intros i Hi Hp. rewrite (i_siz _ _ _ I i Hi) by (apply (f_fix _ _ _ _ F); auto).
    apply cnt_ext. intros j Hj. rewrite RO by exact Hj. reflexivity.
Qed.

Lemma not_In_index x l : ~ In x l -> index_of x l = None.
Proof. apply index_of_None. Qed.

Lemma reach_total h : uf_total (reach h).
Proof.
  destruct (reach_inv h) as (r & d & I & R). set (s := reach h) in *.
  split; [|split; [|split; [|split; [|split; [|split; [|split; [|split; [|split]]]]]]]].
  - intros x Hx. apply index_of_In in Hx as [i E].
    destruct (find_spec s r d x i I E) as (s' & E1 & _). eauto.
  - intros x Hx. apply (find_absent s r d x I). apply not_In_index. exact Hx.
  - intros x y. destruct (step_union h s r d x y I R) as (s' & _ & _ & E & _). eauto.
  - intros x y Hx Hy. apply index_of_In in Hx as [i Ex]. apply index_of_In in Hy as [j Ey].
    destruct (connected_spec s r d x y i j I Ex Ey) as (s' & E1 & _). eauto.
  - intros x y H. apply (connected_absent s r d x y I).
    destruct H as [H|H]; [left|right]; apply not_In_index; exact H.
  - intros x Hx. apply index_of_In in Hx as [i E].
    destruct (component_spec s r d x i I E) as (s' & E1 & _). eauto.
  - intros x Hx. apply (component_absent s r d x I). apply not_In_index. exact Hx.
  - destruct (roots_spec s r d I) as (s' & E1 & _). eauto.
  - destruct (components_spec s r d I) as (s' & E1 & _). eauto.
  - destruct (mapping_spec s r d I) as (s' & E1 & _). eauto.
Qed.

Lemma uf_invariant : forall h : list op, uf_wf (reach h) /\ uf_total (reach h).
Proof.
  intros h. split; [|apply reach_total].
  destruct (reach_inv h) as (r & d & I & _). eapply Inv_wf; eauto.
Qed.

(* ------------------------------------------------------------------ theorem 2: refinement *)
Lemma Rel_idx s r x y i j :
  index_of x (elts s) = Some i -> index_of y (elts s) = Some j -> (Rel s r x y <-> r i = r j).
Proof.
  intros Ex Ey. split.
  - intros (i' & j' & A & B & C). congruence.
  - intros C. exists i, j. auto.
Qed.

Lemma uf_refines : forall (h : list op) (x y : Z),
  let s := reach h in
  (mem s x = true <-> present h x) /\
  ((exists s', connected s x y = Ok (s', true)) <-> conn h x y) /\
  ((exists s', connected s x y = Ok (s', false)) <-> present h x /\ present h y /\ ~ conn h x y) /\
  (connected s x y = ValueError <-> ~ present h x \/ ~ present h y) /\
  (forall s' i, find s x = Ok (s', i) ->
      i < length (elts s) /\ conn h x (nth i (elts s) 0%Z) /\
      forall y s'' j, conn h x y -> find s' y = Ok (s'', j) -> j = i).
Proof.
  intros h x y s. destruct (reach_inv h) as (r & d & I & [RP RC]). fold s in I, RP, RC.
  pose proof (F := i_forest _ _ _ I).
  split; [rewrite (mem_In s r d x I); apply RP|].
  assert (FI : forall s' i, find s x = Ok (s', i) ->
      i < length (elts s) /\ conn h x (nth i (elts s) 0%Z) /\
      forall y s'' j, conn h x y -> find s' y = Ok (s'', j) -> j = i).
  { intros s' i0 E. destruct (index_of x (elts s)) as [i|] eqn:Ex.
    2:{ rewrite (find_absent s r d x I) in E by exact Ex. discriminate. }
    destruct (find_spec s r d x i I Ex) as (s1 & E1 & B1 & I1).
    rewrite E1 in E. inversion E; subst s' i0. clear E.
    destruct (index_of_Some _ _ _ Ex) as [Hi _].
    assert (Hr : r i < length (elts s)) by (apply (f_r_lt _ _ _ _ F); exact Hi).
    split; [exact Hr|]. split.
    - apply RC. exists i, (r i). split; [exact Ex|]. split.
      + apply index_of_nth; [apply (i_nodup _ _ _ I)|exact Hr].
      + symmetry. eapply forest_r_idem; eauto.
    - intros y0 s'' j C E. apply RC in C. destruct C as (i' & j' & A & B & C).
      assert (i' = i) by congruence. subst i'.
      assert (B' : index_of y0 (elts s1) = Some j') by (destruct B1 as (-> & _); exact B).
      destruct (find_spec s1 r d y0 j' I1 B') as (s2 & E2 & _). rewrite E2 in E.
      inversion E. congruence. }
  destruct (index_of x (elts s)) as [i|] eqn:Ex; [destruct (index_of y (elts s)) as [j|] eqn:Ey|].
  - destruct (connected_spec s r d x y i j I Ex Ey) as (s' & E & _).
    assert (Px : present h x) by (apply RP, index_of_In; eauto).
    assert (Py : present h y) by (apply RP, index_of_In; eauto).
    pose proof (RI := Rel_idx s r x y i j Ex Ey).
    rewrite E. split; [|split; [|split]].
    + rewrite <- RC, RI. split.
      * intros (s'' & H). inversion H. apply Nat.eqb_eq. auto.
      * intros H. exists s'. apply Nat.eqb_eq in H. rewrite H. reflexivity.
    + rewrite <- RC, RI. split.
      * intros (s'' & H). inversion H as [[H1 H2]]. apply Nat.eqb_neq in H2. auto.
      * intros (_ & _ & H). exists s'. apply Nat.eqb_neq in H. rewrite H. reflexivity.
    + split; [discriminate|tauto].
    + exact FI.
  - assert (Py : ~ present h y) by (rewrite <- RP; apply index_of_None; exact Ey).
    rewrite (connected_absent s r d x y I) by auto. split; [|split; [|split]].
    + split; [intros (s'' & H); discriminate|]. intros H. apply conn_present in H. tauto.
    + split; [intros (s'' & H); discriminate|]. tauto.
    + split; auto.
    + exact FI.
  - assert (Px : ~ present h x) by (rewrite <- RP; apply index_of_None; exact Ex).
    rewrite (connected_absent s r d x y I) by auto. split; [|split; [|split]].
    + split; [intros (s'' & H); discriminate|]. intros H. apply conn_present in H. tauto.
    + split; [intros (s'' & H); discriminate|]. tauto.
    + split; auto.
    + exact FI.
Qed.

(* ------------------------------------------------------------------ theorem 3: queries are pure *)
Lemma same_comp_spec s r d x y :
  Inv s r d ->
  same_comp s x y =
  match index_of x (elts s), index_of y (elts s) with
  | Some i, Some j => r i =? r j
  | _, _ => false
  end.
Proof.
  intros I. unfold same_comp.
  destruct (index_of x (elts s)) as [i|] eqn:Ex; [destruct (index_of y (elts s)) as [j|] eqn:Ey|].
  - destruct (connected_spec s r d x y i j I Ex Ey) as (s' & E & _). rewrite E. reflexivity.
  - rewrite (connected_absent s r d x y I) by auto. reflexivity.
  - rewrite (connected_absent s r d x y I) by auto. reflexivity.
Qed.

Lemma uf_queries_pure : forall (h : list op) (o : op),
  is_query o ->
  let s := reach h in
  let s' := apply s o in
  elts s' = elts s /\ siz s' = siz s /\ ncomps s' = ncomps s /\
  n_elts s' = n_elts s /\ next s' = next s /\ indx s' = indx s /\
  (forall i, i < length (elts s) -> root_of s' i = root_of s i) /\
  (forall x y, same_comp s' x y = same_comp s x y) /\
  (forall x y, conn (h ++ [o]) x y <-> conn h x y).
Proof.
  intros h o Q s s'. destruct (reach_inv h) as (r & d & I & R). fold s in I, R.
  destruct (apply_query s r d o I Q) as [B I']. fold s' in B, I'.
  pose proof (R' := refines_query h s s' r o R B Q).
  destruct B as (El & Es & En & Ee & Ex & Ei).
  split; [exact El|]. split; [exact Es|]. split; [exact En|].
  split; [exact Ee|]. split; [exact Ex|]. split; [exact Ei|]. split; [|split].
  - intros i Hi.
    destruct (root_of_inv s r d i I Hi) as (_ & _ & E1).
    destruct (root_of_inv s' r d i I') as (_ & _ & E2); [rewrite El; exact Hi|]. congruence.
  - intros x y. rewrite (same_comp_spec s' r d x y I'), (same_comp_spec s r d x y I), El. reflexivity.
  - intros x y. destruct R as [_ RC]. destruct R' as [_ RC'].
    rewrite <- RC, <- RC'. unfold Rel. rewrite El. tauto.
Qed.

(* ------------------------------------------------------------------ storage order, len, uf[i] *)
Lemma added_snoc h o : added (h ++ [o]) = fold_left ins (touched o) (added h).
Proof. unfold added. rewrite flat_map_app, fold_left_app. simpl. rewrite app_nil_r. reflexivity. Qed.

Lemma elts_add s r d a : Inv s r d -> elts (add s a) = ins (elts s) a.
Proof.
  intros I. unfold ins, add, mem. rewrite existsb_index, (lookup_ok s a (i_indx _ _ _ I)).
  destruct (index_of a (elts s)); reflexivity.
Qed.

Lemma In_add_self s r d a : Inv s r d -> In a (elts (add s a)).
Proof.
  intros I. destruct (mem s a) eqn:E.
  - rewrite add_present by exact E. apply (mem_In s r d a I). exact E.
  - rewrite add_absent by exact E. simpl. apply in_or_app. right. simpl. auto.
Qed.

Lemma In_add_mono s a x : In x (elts s) -> In x (elts (add s a)).
Proof. intros H. unfold add. destruct (mem s a); [exact H|]. simpl. apply in_or_app. auto. Qed.

Lemma union_elts s r d a b :
  Inv s r d -> exists s', union s a b = Ok s' /\ elts s' = ins (ins (elts s) a) b.
Proof.
  intros I. destruct (add_spec s r d a I) as (r1 & I1 & _).
  destruct (add_spec (add s a) r1 d b I1) as (r0 & I0 & _).
  assert (Pa : In a (elts (add (add s a) b))) by (apply In_add_mono; eapply In_add_self; eauto).
  assert (Pb : In b (elts (add (add s a) b))) by (eapply In_add_self; eauto).
  apply index_of_In in Pa as [ia Ea]. apply index_of_In in Pb as [ib Eb].
  destruct (union_spec s a b r0 d ia ib I0 Ea Eb) as (s' & _ & _ & EU & _ & EL & _).
  exists s'. split; [exact EU|].
  rewrite EL, (elts_add (add s a) r1 d b I1), (elts_add s r d a I). reflexivity.
Qed.

(* _elts lists the distinct elements in order of first insertion *)
Lemma reach_elts h : elts (reach h) = added h.
Proof.
  induction h as [|o h IH] using rev_ind; [reflexivity|].
  destruct (reach_inv h) as (r & d & I & _).
  rewrite reach_snoc, added_snoc, <- IH.
  destruct o as [a|a b|a|a b|a| | | | | |a|a]; cbn [touched fold_left].
  - apply (elts_add _ r d a I).
  - destruct (union_elts _ r d a b I) as (s' & E & EL). cbn [apply]. rewrite E. exact EL.
  - apply (apply_query _ r d (Find a) I Logic.I).
  - apply (apply_query _ r d (Connected a b) I Logic.I).
  - apply (apply_query _ r d (Component a) I Logic.I).
  - apply (apply_query _ r d Roots I Logic.I).
  - apply (apply_query _ r d Components I Logic.I).
  - apply (apply_query _ r d Mapping I Logic.I).
  - reflexivity.
  - reflexivity.
  - reflexivity.
  - reflexivity.
Qed.

Lemma getitem_spec s r d i :
  Inv s r d ->
  getitem s i = if ((i <? 0) || (Z.of_nat (length (elts s)) <=? i))%Z then None
                else Some (nth (Z.to_nat i) (elts s) 0%Z).
Proof.
  intros I. unfold getitem. rewrite (i_next _ _ _ I).
  destruct (i <? 0)%Z eqn:E1; [reflexivity|].
  destruct (Z.of_nat (length (elts s)) <=? i)%Z eqn:E2; [reflexivity|]. cbn [orb].
  apply nth_error_nth'. apply Z.ltb_ge in E1. apply Z.leb_gt in E2. lia.
Qed.

(* ------------------------------------------------------------------ theorem 4: the views *)
Lemma existsb_eqb_In x l : existsb (Nat.eqb x) l = true <-> In x l.
Proof.
  rewrite existsb_exists. split.
  - intros (y & H & E). apply Nat.eqb_eq in E. subst. exact H.
  - intros H. exists x. split; [exact H|apply Nat.eqb_refl].
Qed.

Lemma nodup_nat_In x l : In x (nodup_nat l) <-> In x l.
Proof.
  induction l as [|a t IH]; simpl; [tauto|].
  destruct (existsb (Nat.eqb a) t) eqn:E.
  - rewrite IH. split; [auto|]. intros [<-|H]; [|exact H]. apply existsb_eqb_In. exact E.
  - simpl. rewrite IH. tauto.
Qed.

Lemma nodup_nat_NoDup l : NoDup (nodup_nat l).
Proof.
  induction l as [|a t IH]; simpl; [constructor|].
  destruct (existsb (Nat.eqb a) t) eqn:E; [exact IH|].
  constructor; [|exact IH]. rewrite nodup_nat_In. intros H.
  apply existsb_eqb_In in H. congruence.
Qed.

Lemma NoDup_map_inj_on {A B} (f : A -> B) l :
  NoDup l -> (forall a b, In a l -> In b l -> f a = f b -> a = b) -> NoDup (map f l).
Proof.
  induction 1 as [|a t Hn ND IH]; intros Inj; simpl; constructor.
  - rewrite in_map_iff. intros (b & E & Hb). apply Hn.
    rewrite (Inj a b); simpl; auto.
  - apply IH. intros u v Hu Hv. apply Inj; simpl; auto.
Qed.

Lemma concat_classes {A} (f : A -> nat) (l : list A) (ks : list nat) :
  NoDup ks -> (forall x, In x l -> In (f x) ks) ->
  Permutation (concat (map (fun k => filter (fun y => k =? f y) l) ks)) l.
Proof.
  intros ND. induction l as [|x t IH]; intros H.
  - simpl. clear. induction ks as [|k ks IH]; simpl; auto.
  - assert (S1 : forall ks, NoDup ks -> In (f x) ks ->
      Permutation (concat (map (fun k => filter (fun y => k =? f y) (x :: t)) ks))
                  (x :: concat (map (fun k => filter (fun y => k =? f y) t) ks))).
    { clear. induction ks as [|k ks IHk]; intros ND Hin; [destruct Hin|].
      inversion ND as [|? ? Hk ND']; subst. cbn [map concat].
      assert (Hd : filter (fun y => k =? f y) (x :: t) =
                   if k =? f x then x :: filter (fun y => k =? f y) t
                   else filter (fun y => k =? f y) t) by reflexivity.
      rewrite Hd. clear Hd.
      destruct (Nat.eqb_spec k (f x)) as [E|E].
      - assert (M : map (fun k0 => filter (fun y => k0 =? f y) (x :: t)) ks =
                    map (fun k0 => filter (fun y => k0 =? f y) t) ks).
        { apply map_ext_in. intros k' Hk'. cbn [filter].
          destruct (Nat.eqb_spec k' (f x)); [|reflexivity]. exfalso. apply Hk. congruence. }
        rewrite M. reflexivity.
      - destruct Hin as [Hin|Hin]; [contradiction|].
        etransitivity; [apply Permutation_app_head; apply IHk; assumption|].
        symmetry. apply Permutation_middle. }
    etransitivity; [apply S1; [exact ND|apply H; simpl; auto]|].
    apply perm_skip. apply IH. intros y Hy. apply H. simpl; auto.
Qed.

Lemma rootz_In s r d x :
  Inv s r d -> In x (elts s) ->
  rootz s r x < length (elts s) /\ r (rootz s r x) = rootz s r x.
Proof.
  intros I Hx. pose proof (F := i_forest _ _ _ I). apply index_of_In in Hx as [i E].
  destruct (index_of_Some _ _ _ E) as [Hi _]. unfold rootz, idx. rewrite E.
  split; [apply (f_r_lt _ _ _ _ F); exact Hi|eapply forest_r_idem; eauto].
Qed.

Lemma rootz_nth s r d i :
  Inv s r d -> i < length (elts s) -> rootz s r (nth i (elts s) 0%Z) = r i.
Proof.
  intros I Hi. unfold rootz, idx. rewrite index_of_nth; [reflexivity|apply (i_nodup _ _ _ I)|exact Hi].
Qed.

Lemma Rel_rootz s r x y :
  Rel s r x y <-> In x (elts s) /\ In y (elts s) /\ rootz s r x = rootz s r y.
Proof.
  split.
  - intros (i & j & A & B & C). split; [apply index_of_In; eauto|]. split; [apply index_of_In; eauto|].
    unfold rootz, idx. rewrite A, B. exact C.
  - intros (Hx & Hy & C). apply index_of_In in Hx as [i A]. apply index_of_In in Hy as [j B].
    exists i, j. unfold rootz, idx in C. rewrite A, B in C. auto.
Qed.

Lemma root_list_In s r d rt :
  Inv s r d -> (In rt (root_list s r) <-> rt < length (elts s) /\ r rt = rt).
Proof.
  intros I. unfold root_list. rewrite nodup_nat_In, in_map_iff. split.
  - intros (x & <- & Hx). eapply rootz_In; eauto.
  - intros [H1 H2]. exists (nth rt (elts s) 0%Z). split.
    + rewrite (rootz_nth s r d) by auto. exact H2.
    + apply nth_In. exact H1.
Qed.

Lemma root_list_length s r d : Inv s r d -> length (root_list s r) = ncomps s.
Proof.
  intros I. rewrite (i_ncomps _ _ _ I). unfold cnt. apply Permutation_length.
  apply NoDup_Permutation.
  - apply nodup_nat_NoDup.
  - apply NoDup_filter. apply seq_NoDup.
  - intros rt. rewrite (root_list_In s r d rt I), cnt_in, Nat.eqb_eq. tauto.
Qed.

(* one representative element per root: a transversal of the partition *)
Lemma reps_props h s r d :
  Inv s r d -> Refines h s r ->
  let reps := map (fun rt => nth rt (elts s) 0%Z) (root_list s r) in
  length reps = ncomps s /\ NoDup reps /\ (forall e, In e reps -> present h e) /\
  (forall x, present h x -> exists e, In e reps /\ conn h x e) /\
  (forall e1 e2, In e1 reps -> In e2 reps -> conn h e1 e2 -> e1 = e2).
Proof.
  intros I [RP RC] reps. pose proof (F := i_forest _ _ _ I). pose proof (ND := i_nodup _ _ _ I).
  assert (RI : forall e, In e reps <-> exists rt, rt < length (elts s) /\ r rt = rt /\ e = nth rt (elts s) 0%Z).
  { intros e. unfold reps. rewrite in_map_iff. split.
    - intros (rt & <- & H). apply (root_list_In s r d rt I) in H. exists rt. tauto.
    - intros (rt & H1 & H2 & ->). exists rt. split; [reflexivity|]. apply (root_list_In s r d rt I). auto. }
  split; [unfold reps; rewrite map_length; apply (root_list_length s r d I)|].
  split.
  { unfold reps. apply NoDup_map_inj_on; [apply nodup_nat_NoDup|].
    intros a b Ha Hb E. apply (root_list_In s r d a I) in Ha. apply (root_list_In s r d b I) in Hb.
    apply (proj1 (NoDup_nth (elts s) 0%Z) ND a b); tauto. }
  split.
  { intros e He. apply RI in He as (rt & H1 & _ & ->). apply RP. apply nth_In. exact H1. }
  split.
  { intros x Hx. apply RP in Hx. destruct (rootz_In s r d x I Hx) as [H1 H2].
    exists (nth (rootz s r x) (elts s) 0%Z). split; [apply RI; eauto|].
    apply RC. apply Rel_rootz. split; [exact Hx|]. split; [apply nth_In; exact H1|].
    rewrite (rootz_nth s r d) by auto. symmetry. exact H2. }
  intros e1 e2 H1 H2 C. apply RI in H1 as (a & Ha1 & Ha2 & ->). apply RI in H2 as (b & Hb1 & Hb2 & ->).
  apply RC, Rel_rootz in C. destruct C as (_ & _ & C).
  rewrite !(rootz_nth s r d) in C by auto. congruence.
Qed.

Lemma class_filter h s r d x y k :
  Inv s r d -> Refines h s r -> In x (elts s) -> rootz s r x = k ->
  (In y (filter (fun z => k =? rootz s r z) (elts s)) <-> conn h x y).
Proof.
  intros I [RP RC] Hx <-. rewrite filter_In, Nat.eqb_eq, <- RC, Rel_rootz. tauto.
Qed.

Lemma uf_views : forall h : list op,
  let s := reach h in
  (NoDup (elts s) /\ forall x, In x (elts s) <-> present h x) /\
  (elts s = added h /\ n_elts s = length (added h) /\ next s = length (added h)) /\
  (forall i, getitem s i = if ((i <? 0) || (Z.of_nat (length (added h)) <=? i))%Z then None
                           else Some (nth (Z.to_nat i) (added h) 0%Z)) /\
  (forall x s' l, component s x = Ok (s', l) -> NoDup l /\ forall y, In y l <-> conn h x y) /\
  (forall s' cs, components s = Ok (s', cs) ->
     Permutation (concat cs) (elts s) /\ length cs = ncomps s /\ (forall c, In c cs -> c <> []) /\
     (forall x y, (exists c, In c cs /\ In x c /\ In y c) <-> conn h x y)) /\
  (forall s' rts, roots s = Ok (s', rts) ->
     NoDup rts /\ length rts = ncomps s /\
     (forall rt, In rt rts -> rt < length (elts s) /\ root_of s' rt = rt) /\
     let reps := map (fun rt => nth rt (elts s) 0%Z) rts in
     NoDup reps /\ (forall x, present h x -> exists e, In e reps /\ conn h x e) /\
     (forall e1 e2, In e1 reps -> In e2 reps -> conn h e1 e2 -> e1 = e2)) /\
  (forall s' m, mapping s = Ok (s', m) ->
     map fst m = elts s /\
     forall x c, In (x, c) m -> NoDup c /\ forall y, In y c <-> conn h x y) /\
  (exists reps, length reps = ncomps s /\ NoDup reps /\ (forall e, In e reps -> present h e) /\
     (forall x, present h x -> exists e, In e reps /\ conn h x e) /\
     (forall e1 e2, In e1 reps -> In e2 reps -> conn h e1 e2 -> e1 = e2)).
Proof.
  intros h s. destruct (reach_inv h) as (r & d & I & R). fold s in I, R.
  pose proof (RPC := R). destruct RPC as [RP RC].
  pose proof (ND := i_nodup _ _ _ I).
  destruct (reps_props h s r d I R) as (P1 & P2 & P3 & P4 & P5).
  split; [split; [exact ND|exact RP]|].
  assert (EA : elts s = added h) by apply reach_elts.
  split; [split; [exact EA|]; rewrite <- EA; split; [apply (i_nelts _ _ _ I)|apply (i_next _ _ _ I)]|].
  split; [intros i; rewrite <- EA; apply (getitem_spec s r d i I)|].
  split.
  { intros x s' l E. destruct (index_of x (elts s)) as [i|] eqn:Ex.
    2:{ rewrite (component_absent s r d x I) in E by exact Ex. discriminate. }
    destruct (component_spec s r d x i I Ex) as (s1 & E1 & _). rewrite E1 in E.
    inversion E; subst s' l. split; [apply NoDup_filter; exact ND|].
    intros y. apply (class_filter h s r d x y (r i) I R).
    - apply index_of_In; eauto.
    - unfold rootz, idx. rewrite Ex. reflexivity. }
  split.
  { intros s' cs E. destruct (components_spec s r d I) as (s1 & E1 & _). rewrite E1 in E.
    inversion E; subst s' cs. clear E. split; [|split; [|split]].
    - apply concat_classes; [apply nodup_nat_NoDup|].
      intros x Hx. unfold root_list. apply nodup_nat_In. apply in_map. exact Hx.
    - rewrite map_length. apply (root_list_length s r d I).
    - intros c Hc. apply in_map_iff in Hc as (rt & <- & Hrt).
      apply (root_list_In s r d rt I) in Hrt as [H1 H2].
      intros Hnil.
      assert (Hin : In (nth rt (elts s) 0%Z) (filter (fun y => rt =? rootz s r y) (elts s))).
      { apply filter_In. split; [apply nth_In; exact H1|].
        rewrite (rootz_nth s r d) by auto. apply Nat.eqb_eq. auto. }
      rewrite Hnil in Hin. destruct Hin.
    - intros x y. split.
      + intros (c & Hc & Hx & Hy). apply in_map_iff in Hc as (rt & <- & Hrt).
        apply filter_In in Hx as [Hx Ex]. apply Nat.eqb_eq in Ex.
        apply (class_filter h s r d x y rt I R Hx); auto.
      + intros C. pose proof (C' := C). apply RC, Rel_rootz in C' as (Hx & Hy & Exy).
        exists (filter (fun z => rootz s r x =? rootz s r z) (elts s)). split; [|split].
        * apply in_map_iff. exists (rootz s r x). split; [reflexivity|].
          unfold root_list. apply nodup_nat_In. apply in_map. exact Hx.
        * apply filter_In. split; [exact Hx|apply Nat.eqb_refl].
        * apply filter_In. split; [exact Hy|apply Nat.eqb_eq; exact Exy]. }
  split.
  { intros s' rts E. destruct (roots_spec s r d I) as (s1 & E1 & B1 & I1). rewrite E1 in E.
    inversion E; subst s' rts. clear E.
    split; [apply nodup_nat_NoDup|]. split; [apply (root_list_length s r d I)|]. split.
    - intros rt Hrt. apply (root_list_In s r d rt I) in Hrt as [H1 H2]. split; [exact H1|].
      destruct (root_of_inv s1 r d rt I1) as (_ & _ & E2).
      + destruct B1 as (-> & _). exact H1.
      + congruence.
    - cbv zeta. split; [exact P2|]. split; [exact P4|exact P5]. }
  split.
  { intros s' m E. destruct (mapping_spec s r d I) as (s1 & E1 & _). rewrite E1 in E.
    inversion E; subst s' m. clear E. split.
    - rewrite map_map. cbn [fst]. apply map_id.
    - intros x c Hin. apply in_map_iff in Hin as (x' & Hpair & Hx). inversion Hpair; subst x' c.
      split; [apply NoDup_filter; exact ND|].
      intros y. apply (class_filter h s r d x y _ I R Hx). reflexivity. }
  eexists. split; [exact P1|]. split; [exact P2|]. split; [exact P3|]. split; [exact P4|exact P5].
Qed.

(* ------------------------------------------------------------------ histories that start with UnionFind(l) *)
Lemma fold_add_apply l s : fold_left add l s = fold_left apply (map Add l) s.
Proof. revert s; induction l as [|x t IH]; intros s; simpl; auto. Qed.

Lemma reach_from_full l h : reach_from l h = reach (full l h).
Proof.
  unfold reach_from, reach, full, init_from. rewrite fold_left_app, fold_add_apply. reflexivity.
Qed.

Lemma reach_from_nil h : reach_from [] h = reach h.
Proof. reflexivity. Qed.

Lemma uf_invariant_from : forall (l : list Z) (h : list op),
  uf_wf (reach_from l h) /\ uf_total (reach_from l h).
Proof. intros l h. rewrite reach_from_full. apply uf_invariant. Qed.

Lemma uf_refines_from : forall (l : list Z) (h : list op) (x y : Z),
  let s := reach_from l h in
  let H := full l h in
  (mem s x = true <-> present H x) /\
  ((exists s', connected s x y = Ok (s', true)) <-> conn H x y) /\
  ((exists s', connected s x y = Ok (s', false)) <-> present H x /\ present H y /\ ~ conn H x y) /\
  (connected s x y = ValueError <-> ~ present H x \/ ~ present H y) /\
  (forall s' i, find s x = Ok (s', i) ->
      i < length (elts s) /\ conn H x (nth i (elts s) 0%Z) /\
      forall y s'' j, conn H x y -> find s' y = Ok (s'', j) -> j = i).
Proof. intros l h x y. cbv zeta. rewrite reach_from_full. apply (uf_refines (full l h) x y). Qed.

Lemma uf_queries_pure_from : forall (l : list Z) (h : list op) (o : op),
  is_query o ->
  let s := reach_from l h in
  let s' := apply s o in
  elts s' = elts s /\ siz s' = siz s /\ ncomps s' = ncomps s /\
  n_elts s' = n_elts s /\ next s' = next s /\ indx s' = indx s /\
  (forall i, i < length (elts s) -> root_of s' i = root_of s i) /\
  (forall x y, same_comp s' x y = same_comp s x y) /\
  (forall x y, conn (full l h ++ [o]) x y <-> conn (full l h) x y).
Proof. intros l h o Q. cbv zeta. rewrite reach_from_full. apply (uf_queries_pure (full l h) o Q). Qed.

Lemma uf_views_from : forall (l : list Z) (h : list op),
  let s := reach_from l h in
  let H := full l h in
  (NoDup (elts s) /\ forall x, In x (elts s) <-> present H x) /\
  (elts s = added H /\ n_elts s = length (added H) /\ next s = length (added H)) /\
  (forall i, getitem s i = if ((i <? 0) || (Z.of_nat (length (added H)) <=? i))%Z then None
                           else Some (nth (Z.to_nat i) (added H) 0%Z)) /\
  (forall x s' l, component s x = Ok (s', l) -> NoDup l /\ forall y, In y l <-> conn H x y) /\
  (forall s' cs, components s = Ok (s', cs) ->
     Permutation (concat cs) (elts s) /\ length cs = ncomps s /\ (forall c, In c cs -> c <> []) /\
     (forall x y, (exists c, In c cs /\ In x c /\ In y c) <-> conn H x y)) /\
  (forall s' rts, roots s = Ok (s', rts) ->
     NoDup rts /\ length rts = ncomps s /\
     (forall rt, In rt rts -> rt < length (elts s) /\ root_of s' rt = rt) /\
     let reps := map (fun rt => nth rt (elts s) 0%Z) rts in
     NoDup reps /\ (forall x, present H x -> exists e, In e reps /\ conn H x e) /\
     (forall e1 e2, In e1 reps -> In e2 reps -> conn H e1 e2 -> e1 = e2)) /\
  (forall s' m, mapping s = Ok (s', m) ->
     map fst m = elts s /\
     forall x c, In (x, c) m -> NoDup c /\ forall y, In y c <-> conn H x y) /\
  (exists reps, length reps = ncomps s /\ NoDup reps /\ (forall e, In e reps -> present H e) /\
     (forall x, present H x -> exists e, In e reps /\ conn H x e) /\
     (forall e1 e2, In e1 reps -> In e2 reps -> conn H e1 e2 -> e1 = e2)).
Proof. intros l h. cbv zeta. rewrite reach_from_full. apply (uf_views (full l h)). Qed.

(* the constructor's elements are present, duplicates collapse *)
Lemma present_full l h x : present (full l h) x <-> In x l \/ present h x.
Proof.
  unfold present, full. rewrite flat_map_app, in_app_iff.
  assert (E : flat_map touched (map Add l) = l).
  { induction l as [|a t IH]; simpl; [reflexivity|]. rewrite IH. reflexivity. }
  rewrite E. tauto.
Qed.

(* ------------------------------------------------------------------ examples: the hypotheses are satisfiable *)
Section Examples.
  Open Scope Z_scope.

  (* repeated add, self-union, union of absent elements, queries of absent elements, queries in between *)
  Definition ex_h : list op :=
    [Add 5; Add 7; Union 5 9; Add 5; Union 3 3; Find 9; Union 7 3; Connected 5 42; Union 9 5;
     Components; Union 11 12; Union 12 7; Roots].

  Example ex_reach :
    reach ex_h = mkuf [5; 7; 9; 3; 11; 12] [0; 4; 0; 4; 4; 4]%nat [2; 2; 1; 1; 4; 1]%nat 2 6 6
                      [(5, 0%nat); (7, 1%nat); (9, 2%nat); (3, 3%nat); (11, 4%nat); (12, 5%nat)].
  Proof. vm_compute. reflexivity. Qed.

  Example ex_wf : uf_wf (reach ex_h) /\ length (elts (reach ex_h)) = 6%nat.
  Proof. split; [apply uf_invariant|reflexivity]. Qed.

  Example ex_connected :
    (exists s', connected (reach ex_h) 11 3 = Ok (s', true)) /\
    (exists s', connected (reach ex_h) 5 7 = Ok (s', false)) /\
    connected (reach ex_h) 5 42 = ValueError.
  Proof. split; [|split]; [eexists; vm_compute; reflexivity|eexists; vm_compute; reflexivity|vm_compute; reflexivity]. Qed.

  (* a chain of unions: 11 ~ 12 ~ 7 ~ 3 *)
  Example ex_conn_chain : conn ex_h 11 3.
  Proof.
    apply conn_trans with 12; [apply conn_union; simpl; tauto|].
    apply conn_trans with 7; apply conn_union; simpl; tauto.
  Qed.

  (* and the theorem read backwards: no chain of unions joins 5 and 7 *)
  Example ex_not_conn : present ex_h 5 /\ present ex_h 7 /\ ~ conn ex_h 5 7.
  Proof. apply (uf_refines ex_h 5 7). eexists. vm_compute. reflexivity. Qed.

  Example ex_views :
    (exists s', component (reach ex_h) 3 = Ok (s', [7; 3; 11; 12])) /\
    (exists s', components (reach ex_h) = Ok (s', [[5; 9]; [7; 3; 11; 12]])) /\
    (exists s', roots (reach ex_h) = Ok (s', [0; 4]%nat)) /\
    (exists s', mapping (reach ex_h) =
                Ok (s', [(5, [5; 9]); (7, [7; 3; 11; 12]); (9, [5; 9]); (3, [7; 3; 11; 12]);
                         (11, [7; 3; 11; 12]); (12, [7; 3; 11; 12])])).
  Proof. repeat split; eexists; vm_compute; reflexivity. Qed.

  (* uf[i]: in range, negative (rejected, unlike Python lists), == len *)
  Example ex_getitem :
    added ex_h = [5; 7; 9; 3; 11; 12] /\ n_elts (reach ex_h) = 6%nat /\
    getitem (reach ex_h) 3 = Some 3 /\ getitem (reach ex_h) 0 = Some 5 /\
    getitem (reach ex_h) (-1) = None /\ getitem (reach ex_h) 6 = None.
  Proof. repeat split; vm_compute; reflexivity. Qed.

  (* the constructor on a container with duplicates: three elements, not six *)
  Example ex_constructor :
    let s := reach_from [4; 7; 4; 9; 7; 4] [Union 9 4] in
    elts s = [4; 7; 9] /\ n_elts s = 3%nat /\ ncomps s = 2%nat /\
    (exists s', components s = Ok (s', [[7]; [4; 9]])) /\ getitem s 3 = None.
  Proof.
    cbv zeta. split; [vm_compute; reflexivity|]. split; [vm_compute; reflexivity|].
    split; [vm_compute; reflexivity|]. split; [eexists; vm_compute; reflexivity|vm_compute; reflexivity].
  Qed.

  (* a query that does compress a path (so "queries never change the partition" is not vacuous) *)
  Definition ex_h2 : list op := [Union 1 2; Union 3 4; Union 1 3].

  Example ex_find_compresses :
    is_query (Find 4) /\
    par (reach ex_h2) = [0; 0; 0; 2]%nat /\ par (apply (reach ex_h2) (Find 4)) = [0; 0; 0; 0]%nat.
  Proof. split; [exact I|]. split; vm_compute; reflexivity. Qed.
End Examples.
