(* C20 - abstract specification of the union-find (no proofs): which elements are present after a
   history, the equivalence closure of its unions, and the well-formedness / totality predicates the
   theorems state about the executable model of Model.v. *)
From Coq Require Import ZArith List Bool Arith.
Import ListNotations.
Require Import MV.C20.Model.

(* elements an operation inserts (union adds absent elements first) *)
Definition touched (o : op) : list Z :=
  match o with Add x => [x] | Union x y => [x; y] | _ => [] end.

(* a history that begins with the constructor call UnionFind(l): the constructor adds each element of l *)
Definition full (l : list Z) (h : list op) : list op := map Add l ++ h.

(* present after history h: added by an Add or mentioned by a Union *)
Definition present (h : list op) (x : Z) : Prop := In x (flat_map touched h).

(* the least equivalence relation on the present elements containing every united pair *)
Inductive conn (h : list op) : Z -> Z -> Prop :=
| conn_refl x : present h x -> conn h x x
| conn_union x y : In (Union x y) h -> conn h x y
| conn_sym x y : conn h x y -> conn h y x
| conn_trans x y z : conn h x y -> conn h y z -> conn h x z.

(* the distinct elements in order of first insertion *)
Definition ins (acc : list Z) (x : Z) : list Z := if existsb (Z.eqb x) acc then acc else acc ++ [x].
Definition added (h : list op) : list Z := fold_left ins (flat_map touched h) [].

(* operations that are queries *)
Definition is_query (o : op) : Prop :=
  match o with Add _ | Union _ _ => False | _ => True end.

(* the root index reached from index i by the loop of `find` *)
Definition root_of (s : uf) (i : nat) : nat :=
  match find_loop (S (length (par s))) (par s) i with Some (_, r) => r | None => i end.

(* number of indices below n satisfying f *)
Definition count (f : nat -> bool) (n : nat) : nat := length (filter f (seq 0 n)).

(* structural well-formedness of a state *)
Record uf_wf (s : uf) : Prop := {
  wf_len_par : length (par s) = length (elts s);
  wf_len_siz : length (siz s) = length (elts s);
  wf_nodup : NoDup (elts s);
  (* n_elts, _next and the dict _indx are consistent with _elts *)
  wf_n_elts : n_elts s = length (elts s);
  wf_next : next s = length (elts s);
  wf_indx : indx s = combine (elts s) (seq 0 (length (elts s)));
  wf_lookup : forall x, lookup x (indx s) = index_of x (elts s);
  (* parents in range *)
  wf_par_lt : forall i, i < length (elts s) -> getp (par s) i < length (elts s);
  (* acyclic: the loop of find ends within its fuel, at a root of the same tree *)
  wf_fuel : forall i, i < length (elts s) ->
      exists p', find_loop (S (length (par s))) (par s) i = Some (p', root_of s i);
  wf_root : forall i, i < length (elts s) ->
      root_of s i < length (elts s) /\ getp (par s) (root_of s i) = root_of s i /\
      root_of s (getp (par s) i) = root_of s i;
  (* n_comps counts the roots *)
  wf_ncomps : ncomps s = count (fun i => getp (par s) i =? i) (length (elts s));
  (* _siz is the component size at every root *)
  wf_siz : forall i, i < length (elts s) -> getp (par s) i = i ->
      nth i (siz s) 0 = count (fun j => root_of s j =? i) (length (elts s))
}.

(* no operation runs out of fuel; ValueError exactly for absent elements *)
Definition uf_total (s : uf) : Prop :=
  (forall x, In x (elts s) -> exists s' i, find s x = Ok (s', i)) /\
  (forall x, ~ In x (elts s) -> find s x = ValueError) /\
  (forall x y, exists s', union s x y = Ok s') /\
  (forall x y, In x (elts s) -> In y (elts s) -> exists s' b, connected s x y = Ok (s', b)) /\
  (forall x y, ~ In x (elts s) \/ ~ In y (elts s) -> connected s x y = ValueError) /\
  (forall x, In x (elts s) -> exists s' l, component s x = Ok (s', l)) /\
  (forall x, ~ In x (elts s) -> component s x = ValueError) /\
  (exists s' l, roots s = Ok (s', l)) /\
  (exists s' l, components s = Ok (s', l)) /\
  (exists s' l, mapping s = Ok (s', l)).
