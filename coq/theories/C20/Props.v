(* C20 property theorems only: each closed by `exact <lemma>` with Print Assumptions beneath.
   Vocabulary: Model.v (executable model of unionfind.py / priority_queue.py + heapq), Gen.v (comparator and
   plumbing GENERATED from priority_queue.py), Spec.v (present, conn, uf_wf, uf_total, root_of, is_query),
   Proofs_Heap.v (lt_ok, heap_ok), Proofs_PQ.v (qreach, pushed). `reach_from l h` is the state after the constructor call
   UnionFind(l) (l ANY list of elements, duplicates allowed, [] for no argument / None) followed by ANY list of
   operations h; `full l h` = map Add l ++ h is that history as the abstract spec sees it (the constructor adds
   each element of l, so its elements are present and duplicates collapse). *)
From Coq Require Import ZArith List Bool Permutation.
Import ListNotations.
Require Import MV.C20.Model MV.C20.Gen MV.C20.Run MV.C20.Spec.
Require Import MV.C20.Proofs_Base MV.C20.Proofs_Heap MV.C20.Proofs_PQ MV.C20.Proofs_UF MV.C20.Proofs_Init MV.C20.Proofs_Check MV.C20.Proofs_Compress.

(* 1. structural invariant along every history: array lengths agree, elements distinct, parents in range,
      n_elts = _next = |_elts|, the dict _indx maps each element to its position (lookup = index_of), the parent
      forest is acyclic (find ends within its fuel at a root), n_comps = number of roots, _siz at a
      root = size of its tree; no operation runs out of fuel and ValueError is raised exactly for absent
      elements. *)
Theorem C20_uf_invariant : forall (l : list Z) (h : list op),
  uf_wf (reach_from l h) /\ uf_total (reach_from l h).
Proof. exact uf_invariant_from. Qed.
Print Assumptions C20_uf_invariant.

(* 2. refinement: `connected` answers True exactly when a chain of unions joins x and y (conn = least
      equivalence on the present elements containing the united pairs), False exactly when both are present
      and no chain joins them, ValueError exactly when one is absent; `x in uf` is presence; `find` returns
      the index of an element of x's class, the same index for every element of that class. *)
Theorem C20_uf_refines : forall (l : list Z) (h : list op) (x y : Z),
  let s := reach_from l h in
  let H := full l h in
  (mem s x = true <-> present H x) /\
  ((exists s', connected s x y = Ok (s', true)) <-> conn H x y) /\
  ((exists s', connected s x y = Ok (s', false)) <-> present H x /\ present H y /\ ~ conn H x y) /\
  (connected s x y = ValueError <-> ~ present H x \/ ~ present H y) /\
  (forall s' i, find s x = Ok (s', i) ->
      i < length (elts s) /\ conn H x (nth i (elts s) 0%Z) /\
      forall y s'' j, conn H x y -> find s' y = Ok (s'', j) -> j = i).
Proof. exact uf_refines_from. Qed.
Print Assumptions C20_uf_refines.

(* 3. queries (find, connected, component, roots, components, component_mapping, len, n_comps, in, uf[i])
      change nothing but the parent array (not n_elts, _next, _indx either), and not the partition it encodes. *)
Theorem C20_uf_queries_pure : forall (l : list Z) (h : list op) (o : op),
  is_query o ->
  let s := reach_from l h in
  let s' := apply s o in
  elts s' = elts s /\ siz s' = siz s /\ ncomps s' = ncomps s /\
  n_elts s' = n_elts s /\ next s' = next s /\ indx s' = indx s /\
  (forall i, i < length (elts s) -> root_of s' i = root_of s i) /\
  (forall x y, same_comp s' x y = same_comp s x y) /\
  (forall x y, conn (full l h ++ [o]) x y <-> conn (full l h) x y).
Proof. exact uf_queries_pure_from. Qed.
Print Assumptions C20_uf_queries_pure.

(* 4. all views describe that one partition: the stored elements are exactly the present ones, each once, in
      order of first insertion (`added h`); len(uf) = n_elts = _next = their number; uf[i] is the i-th of them
      for 0 <= i < len and IndexError otherwise (negative indices included);
      component(x) is x's class; components() lists every element exactly once, n_comps non-empty lists, two
      elements share a list iff connected; roots() has n_comps entries, one per class; component_mapping()
      maps every element to its class; n_comps is the number of classes (a transversal of that size exists). *)
Theorem C20_uf_views : forall (l : list Z) (h : list op),
  let s := reach_from l h in
  let H := full l h in
  (NoDup (elts s) /\ forall x, In x (elts s) <-> present H x) /\
  (elts s = added H /\ n_elts s = length (added H) /\ next s = length (added H)) /\
  (forall i, getitem s i = if ((i <? 0) || (Z.of_nat (length (added H)) <=? i))%Z then None
                           else Some (nth (Z.to_nat i) (added H) 0%Z)) /\
  (forall x s' l, component s x = Ok (s', l) -> NoDup l /\ forall y, In y l <-> conn H x y) /\
  (forall s' cs, components s = Ok (s', cs) ->
     Permutation (concat cs) (elts s) /\ length cs = ncomps s /\ (forall c, In c cs -> c <> []) /\
     (forall x y, (exists c, In c cs /\ In x c /\ In y c) <-> conn H x y)) /\
  (forall s' rts, roots s = Ok (s', rts) ->
     NoDup rts /\ length rts = ncomps s /\
     (forall rt, In rt rts -> rt < length (elts s) /\ root_of s' rt = rt) /\
     let reps := map (fun rt => nth rt (elts s) 0%Z) rts in
     NoDup reps /\ (forall x, present H x -> exists e, In e reps /\ conn H x e) /\
     (forall e1 e2, In e1 reps -> In e2 reps -> conn H e1 e2 -> e1 = e2)) /\
  (forall s' m, mapping s = Ok (s', m) ->
     map fst m = elts s /\
     forall x c, In (x, c) m -> NoDup c /\ forall y, In y c <-> conn H x y) /\
  (exists reps, length reps = ncomps s /\ NoDup reps /\ (forall e, In e reps -> present H e) /\
     (forall x, present H x -> exists e, In e reps /\ conn H x e) /\
     (forall e1 e2, In e1 reps -> In e2 reps -> conn H e1 e2 -> e1 = e2)).
Proof. exact uf_views_from. Qed.
Print Assumptions C20_uf_views.

(* 4b. `add` GENERATED from UnionFind.add by symbolic execution (Gen.v: uf_add) is the model's add, and
       the constructor GENERATED from UnionFind.__init__ (Gen.v: uf_new, uf_init_none, uf_init) is the model's:
       all seven fields start empty / zero, None stands for the empty container, and every element of the
       container goes through `add`; the elements of the constructor are present afterwards. *)
Theorem C20_uf_constructor :
  (uf_new = uf_empty /\ uf_init_none = [] /\
   (forall (s : uf) (x : Z), uf_add s x = add s x) /\
   forall l : list Z, uf_init l = init_from l /\ uf_init l = reach_from l []) /\
  (forall l h x, present (full l h) x <-> In x l \/ present h x).
Proof. exact (conj uf_constructor present_full). Qed.
Print Assumptions C20_uf_constructor.

(* 4c. path compression is free: replace the parent array of any reachable state by ANY array obtained through
       parent-to-grandparent shortcuts (path halving as in the code, path splitting, full compression are all
       sequences of such steps): the state is still well-formed and find / connected / component / roots /
       components / component_mapping answer exactly the same; the loop of `find` is such a compression. *)
Theorem C20_uf_compression_free :
  (forall (l : list Z) (h : list op) (p' : list nat),
     let s := reach_from l h in
     compress (par s) p' ->
     let s2 := with_par s p' in
     uf_wf s2 /\
     (forall x, answer (find s2 x) = answer (find s x)) /\
     (forall x y, answer (connected s2 x y) = answer (connected s x y)) /\
     (forall x y, same_comp s2 x y = same_comp s x y) /\
     (forall x, answer (component s2 x) = answer (component s x)) /\
     answer (roots s2) = answer (roots s) /\
     answer (components s2) = answer (components s) /\
     answer (mapping s2) = answer (mapping s) /\
     (forall i, i < length (elts s) -> root_of s2 i = root_of s i)) /\
  (forall k p i p' r0, find_loop k p i = Some (p', r0) -> compress p p').
Proof. exact (conj uf_compression_free find_loop_compress). Qed.
Print Assumptions C20_uf_compression_free.

(* 5. heapq, any comparator: push adds exactly the pushed item, pop removes exactly the item it hands out,
      and fails (IndexError) exactly on the empty heap. *)
Theorem C20_pq_permutation : forall (item : Type) (lt : item -> item -> bool) (dummy : item) (h : list item),
  (forall x, Permutation (heappush item lt dummy h x) (x :: h)) /\
  (forall x h', heappop item lt dummy h = Some (x, h') -> Permutation h (x :: h')) /\
  (heappop item lt dummy h = None <-> h = []).
Proof. exact heap_permutation. Qed.
Print Assumptions C20_pq_permutation.

(* 6. heapq, comparator a strict weak order (lt_ok: asymmetric, negation transitive): the heap order is
      established by [], preserved by push and pop, and pop hands out a minimum. *)
Theorem C20_pq_min : forall (item : Type) (lt : item -> item -> bool) (dummy : item),
  lt_ok lt ->
  heap_ok lt dummy [] /\
  (forall h x, heap_ok lt dummy h -> heap_ok lt dummy (heappush item lt dummy h x)) /\
  (forall h x h', heap_ok lt dummy h -> heappop item lt dummy h = Some (x, h') ->
     heap_ok lt dummy h' /\ forall y, In y h -> lt y x = false).
Proof. exact heap_min. Qed.
Print Assumptions C20_pq_min.

(* 7. the comparator GENERATED from PriorityItem.__lt__ is such an order, and it orders by priority. *)
Theorem C20_pq_comparator :
  lt_ok item_lt /\ forall x y : item, item_lt y x = false -> (fst x <= fst y)%Z.
Proof. exact (conj item_lt_ok item_lt_le). Qed.
Print Assumptions C20_pq_comparator.

(* 8. the queue of priority_queue.py (generated plumbing) over every history of push/pop/empty/front from the
      empty queue: pending ++ handed out is exactly the multiset of pushed PriorityItem(x, w); pop/get hand
      out a pending item of minimum priority and remove exactly it; IndexError and empty() exactly on the
      empty queue; front is the minimum item pop would hand out. *)
Theorem C20_pq_history : forall ops : list qop,
  let d := fst (qreach ops) in
  let out := snd (qreach ops) in
  Permutation (d ++ out) (pushed ops) /\
  (forall x w, Permutation (pq_push d x w) ((w, x) :: d)) /\
  (forall it d', pq_pop d = Some (it, d') ->
      Permutation d (it :: d') /\ (forall y, In y d -> (fst it <= fst y)%Z)) /\
  (forall it d', pq_get d = Some (it, d') ->
      Permutation d (it :: d') /\ (forall y, In y d -> (fst it <= fst y)%Z)) /\
  (pq_pop d = None <-> d = []) /\
  (pq_empty d = true <-> d = []) /\
  (pq_front d = None <-> d = []) /\
  (forall it, pq_front d = Some it -> In it d /\ forall y, In y d -> (fst it <= fst y)%Z) /\
  (forall it d', pq_pop d = Some (it, d') -> pq_front d = Some it).
Proof. exact pq_history. Qed.
Print Assumptions C20_pq_history.

(* 9. the queue checker evaluated by the correspondence batches (Run.check_pq, over the GENERATED comparator, push
      and emptiness test) accepts a history of observations exactly when it is a run of the multiset specification
      the property states: push adds the item; pop/get/front hand out ANY pending item of minimum priority, whatever
      the tie-break; pop removes exactly that item; "no item" exactly when nothing is pending; empty() says whether
      nothing is pending. *)
Theorem C20_pq_checker_exact :
  forall h : list (qop * qobs * list item), check_pq h = true <-> bag_run [] h.
Proof. exact pq_checker_exact. Qed.
Print Assumptions C20_pq_checker_exact.
