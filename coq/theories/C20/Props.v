(* C20 property theorems only: each closed by `exact <lemma>` with Print Assumptions beneath. *)
From Coq Require Import ZArith List Bool.
Require Import MV.C20.Model MV.C20.Gen MV.C20.Run MV.C20.Proofs.

Theorem C20_mem_add : forall s x, mem (add s x) x = true.
Proof. exact mem_add. Qed.
Print Assumptions C20_mem_add.
