(* C20 - the queue checker the correspondence batches evaluate (Run.check_pq) accepts a history of observations
   EXACTLY when it is a run of the multiset specification the property states: push adds the item, pop/get/front
   hand out ANY pending item of minimum priority (whatever the tie-break), pop removes exactly it, "no item" exactly
   on the empty queue, empty() says whether nothing is pending. *)
From Coq Require Import ZArith List Bool Arith Lia Permutation ZifyBool.
Import ListNotations.
Require Import MV.C20.Model MV.C20.Gen MV.C20.Run MV.C20.Proofs_Base MV.C20.Proofs_Heap MV.C20.Proofs_PQ.

(* ------------------------------------------------------------------ the multiset specification *)
Definition is_nil {A} (l : list A) : bool := match l with [] => true | _ => false end.

Definition minimum_of (it : Z * Z) (b : list (Z * Z)) : Prop :=
  In it b /\ forall y, In y b -> (fst it <= fst y)%Z.

(* one observed operation on the multiset b of pending (priority, payload) items *)
Inductive bag_step : list (Z * Z) -> qop -> qobs -> list (Z * Z) -> Prop :=
| bs_push b x p b' : Permutation b' ((p, x) :: b) -> bag_step b (Push x p) QNone b'
| bs_pop b x p b' : minimum_of (p, x) b -> Permutation b ((p, x) :: b') -> bag_step b Pop (QItem x p) b'
| bs_pop_none b : b = [] -> bag_step b Pop QIndexError b
| bs_empty b : bag_step b Empty (QBool (is_nil b)) b
| bs_front b x p : minimum_of (p, x) b -> bag_step b Front (QItem x p) b
| bs_front_none b : b = [] -> bag_step b Front QIndexError b.

Inductive bag_run : list (Z * Z) -> list (qop * qobs * list item) -> Prop :=
| br_nil b : bag_run b []
| br_cons b o w dat b' t : bag_step b o w b' -> bag_run b' t -> bag_run b ((o, w, dat) :: t).

(* ------------------------------------------------------------------ the checker's ingredients *)
Lemma item_eqb_eq (a b : item) : item_eqb a b = true <-> a = b.
Proof.
  unfold item_eqb. destruct a as [a1 a2], b as [b1 b2]. simpl.
  rewrite andb_true_iff, !Z.eqb_eq. split; [intros [-> ->]; reflexivity|intros H; inversion H; auto].
Qed.

Lemma is_min_pending_spec it d : is_min_pending it d = true <-> minimum_of it d.
Proof.
  unfold is_min_pending, minimum_of. rewrite andb_true_iff, existsb_exists, forallb_forall. split.
  - intros [(y & Hy & E) H]. apply item_eqb_eq in E. subst y. split; [exact Hy|].
    intros y Hy'. specialize (H y Hy'). apply negb_true_iff in H. apply item_lt_le. exact H.
  - intros [H1 H2]. split; [exists it; split; [exact H1|apply item_eqb_eq; reflexivity]|].
    intros y Hy. specialize (H2 y Hy). apply negb_true_iff. unfold item_lt. lia.
Qed.

Lemma remove_item_perm it d : In it d -> Permutation d (it :: remove_item it d).
Proof.
  induction d as [|y t IH]; intros H; [destruct H|]. simpl.
  destruct (item_eqb it y) eqn:E.
  - apply item_eqb_eq in E. subst. reflexivity.
  - destruct H as [H|H]; [subst; rewrite (proj2 (item_eqb_eq it it) eq_refl) in E; discriminate|].
    etransitivity; [apply perm_skip; apply IH; exact H|]. apply perm_swap.
Qed.

Lemma minimum_perm it a b : Permutation a b -> minimum_of it a -> minimum_of it b.
Proof.
  intros P [H1 H2]. split; [eapply Permutation_in; eauto|].
  intros y Hy. apply H2. eapply Permutation_in; [symmetry; exact P|exact Hy].
Qed.

Lemma is_nil_perm {A} (a b : list A) : Permutation a b -> is_nil a = is_nil b.
Proof.
  intros P. destruct a, b; auto.
  - apply Permutation_nil in P. discriminate.
  - symmetry in P. apply Permutation_nil in P. discriminate.
Qed.

Lemma pq_empty_is_nil d : pq_empty d = is_nil d.
Proof.
  destruct (pq_empty d) eqn:E.
  - apply pq_empty_spec in E. subst. reflexivity.
  - destruct d; [|reflexivity]. assert (H : pq_empty [] = true) by (apply pq_empty_spec; reflexivity).
    congruence.
Qed.

(* ------------------------------------------------------------------ soundness and completeness of the checker *)
Lemma qrun_free_sound : forall h d, qrun_free d h = true -> bag_run d h.
Proof.
  induction h as [|[[o w] dat] t IH]; intros d H; [constructor|].
  cbn [qrun_free] in H. destruct (qstep_free d o w) as [d' b] eqn:E.
  apply andb_true_iff in H as [Hb Ht]. subst b.
  apply br_cons with d'; [|apply IH; exact Ht].
  destruct o as [x p| | |]; cbn [qstep_free] in E.
  - destruct w; pose proof (f_equal fst E) as E1; pose proof (f_equal snd E) as E2; cbn [fst snd] in E1, E2; try discriminate. subst d'. constructor. apply pq_push_perm.
  - destruct w as [| |x p| |]; pose proof (f_equal fst E) as E1; pose proof (f_equal snd E) as E2; cbn [fst snd] in E1, E2; try discriminate; subst d'.
    + constructor. apply pq_empty_spec. exact E2.
    + apply is_min_pending_spec in E2. constructor; [exact E2|]. apply remove_item_perm. apply E2.
  - destruct w as [| | |b|]; pose proof (f_equal fst E) as E1; pose proof (f_equal snd E) as E2; cbn [fst snd] in E1, E2; try discriminate; subst d'.
    apply Bool.eqb_prop in E2. subst b. rewrite pq_empty_is_nil. constructor.
  - destruct w as [| |x p| |]; pose proof (f_equal fst E) as E1; pose proof (f_equal snd E) as E2; cbn [fst snd] in E1, E2; try discriminate; subst d'.
    + apply bs_front_none. apply pq_empty_spec. exact E2.
    + apply is_min_pending_spec in E2. constructor. exact E2.
Qed.

Lemma qrun_free_complete : forall b h, bag_run b h -> forall d, Permutation d b -> qrun_free d h = true.
Proof.
  induction 1 as [b|b o w dat b' t S R IH]; intros d P; [reflexivity|].
  cbn [qrun_free].
  assert (G : exists d', qstep_free d o w = (d', true) /\ Permutation d' b').
  { inversion S; subst; cbn [qstep_free].
    - eexists. split; [reflexivity|]. etransitivity; [apply pq_push_perm|].
      etransitivity; [apply perm_skip; exact P|]. symmetry. assumption.
    - assert (M : minimum_of (p, x) d) by (eapply minimum_perm; [symmetry; exact P|assumption]).
      eexists. split; [rewrite (proj2 (is_min_pending_spec _ _) M); reflexivity|].
      apply Permutation_cons_inv with (a := (p, x)).
      etransitivity; [symmetry; apply remove_item_perm; apply M|].
      etransitivity; [exact P|]. assumption.
    - symmetry in P. apply Permutation_nil in P. subst d. eexists. split; [|constructor].
      f_equal.
    - eexists. split; [|exact P].
      replace (pq_empty d) with (is_nil b') by (rewrite pq_empty_is_nil; symmetry; apply is_nil_perm; exact P).
      rewrite Bool.eqb_reflx. reflexivity.
    - assert (M : minimum_of (p, x) d) by (eapply minimum_perm; [symmetry; exact P|assumption]).
      eexists. split; [rewrite (proj2 (is_min_pending_spec _ _) M); reflexivity|exact P].
    - symmetry in P. apply Permutation_nil in P. subst d. eexists. split; [|constructor].
      f_equal. }
  destruct G as (d' & E & P'). rewrite E. simpl. apply IH. exact P'.
Qed.

Lemma pq_checker_exact : forall h : list (qop * qobs * list item), check_pq h = true <-> bag_run [] h.
Proof.
  intros h. unfold check_pq, pq_init. split.
  - apply qrun_free_sound.
  - intros H. eapply qrun_free_complete; [exact H|reflexivity].
Qed.

(* two different tie-breaks of the same pushes are both accepted; a non-minimum is not *)
Example ex_checker_ties :
  check_pq [(Push 1 5, QNone, []); (Push 2 5, QNone, []); (Pop, QItem 1 5, []); (Pop, QItem 2 5, []);
            (Pop, QIndexError, []); (Empty, QBool true, [])]%Z = true /\
  check_pq [(Push 1 5, QNone, []); (Push 2 5, QNone, []); (Pop, QItem 2 5, []); (Pop, QItem 1 5, [])]%Z = true /\
  check_pq [(Push 1 5, QNone, []); (Push 2 4, QNone, []); (Pop, QItem 1 5, [])]%Z = false.
Proof. repeat split; vm_compute; reflexivity. Qed.
