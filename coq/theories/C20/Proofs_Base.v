(* C20 - list / counting lemmas shared by the union-find and the heap proofs. *)
From Coq Require Import ZArith List Bool Arith Lia Permutation.
Import ListNotations.
Require Import MV.C20.Model.

(* ------------------------------------------------------------------ upd *)
Lemma upd_length {A} (l : list A) i v : length (upd l i v) = length l.
Proof. revert i; induction l as [|a t IH]; intros [|i]; simpl; auto. Qed.

Lemma nth_upd_eq {A} (l : list A) i v d : i < length l -> nth i (upd l i v) d = v.
Proof.
  revert i; induction l as [|a t IH]; intros [|i] H; simpl in *; try lia; auto.
  apply IH; lia.
Qed.

Lemma nth_upd_neq {A} (l : list A) i j v d : i <> j -> nth j (upd l i v) d = nth j l d.
Proof.
  revert i j; induction l as [|a t IH]; intros [|i] [|j] H; simpl; auto; try lia.
Qed.

Lemma upd_ge {A} (l : list A) i v : length l <= i -> upd l i v = l.
Proof.
  revert i; induction l as [|a t IH]; intros [|i] H; simpl in *; auto; try lia.
  f_equal. apply IH; lia.
Qed.

Lemma upd_nth_same {A} (l : list A) i d : upd l i (nth i l d) = l.
Proof.
  revert i; induction l as [|a t IH]; intros [|i]; simpl; auto. f_equal; apply IH.
Qed.

Lemma upd_perm {A} (l : list A) i x d :
  i < length l -> Permutation (nth i l d :: upd l i x) (x :: l).
Proof.
  revert i; induction l as [|a t IH]; intros [|i] H; simpl in *; try lia.
  - apply perm_swap.
  - etransitivity; [apply perm_swap|]. etransitivity; [|apply perm_swap].
    apply perm_skip. apply IH; lia.
Qed.

(* moving the value at j into slot i and writing x at j = writing x at i, up to order *)
Lemma upd_swap_perm {A} (l : list A) i j x d :
  i < length l -> j < length l -> i <> j ->
  Permutation (upd (upd l i (nth j l d)) j x) (upd l i x).
Proof.
  intros Hi Hj Hij.
  apply Permutation_cons_inv with (a := nth i l d).
  etransitivity; [|symmetry; apply upd_perm; exact Hi].
  apply Permutation_cons_inv with (a := nth j l d).
  etransitivity; [apply perm_swap|].
  etransitivity.
  { apply perm_skip.
    assert (E : nth j l d = nth j (upd l i (nth j l d)) d) by (rewrite nth_upd_neq; auto).
    rewrite E at 1. apply upd_perm. rewrite upd_length; exact Hj. }
  etransitivity; [apply perm_swap|].
  etransitivity; [apply perm_skip; apply upd_perm; exact Hi|].
  apply perm_swap.
Qed.

(* ------------------------------------------------------------------ counting indices below n *)
Definition cnt (f : nat -> bool) (n : nat) : nat := length (filter f (seq 0 n)).

Lemma cnt_0 f : cnt f 0 = 0.
Proof. reflexivity. Qed.

Lemma cnt_S f n : cnt f (S n) = cnt f n + (if f n then 1 else 0).
Proof.
  unfold cnt. rewrite seq_S, filter_app, app_length. simpl.
  destruct (f n); reflexivity.
Qed.

Lemma cnt_ext f g n : (forall j, j < n -> f j = g j) -> cnt f n = cnt g n.
Proof.
  induction n as [|n IH]; intros H; [reflexivity|].
  rewrite !cnt_S, IH, (H n) by auto; auto.
Qed.

Lemma cnt_le f n : cnt f n <= n.
Proof. induction n as [|n IH]; [rewrite cnt_0; lia|]. rewrite cnt_S. destruct (f n); lia. Qed.

Lemma cnt_mono f g n : (forall j, j < n -> f j = true -> g j = true) -> cnt f n <= cnt g n.
Proof.
  induction n as [|n IH]; intros H; [rewrite !cnt_0; lia|].
  rewrite !cnt_S. specialize (IH (fun j Hj => H j (Nat.lt_lt_succ_r _ _ Hj))).
  specialize (H n (Nat.lt_succ_diag_r n)).
  destruct (f n), (g n); lia.
Qed.

Lemma cnt_strict f g n a :
  (forall j, j < n -> f j = true -> g j = true) -> a < n -> f a = false -> g a = true ->
  cnt f n < cnt g n.
Proof.
  induction n as [|n IH]; intros H Ha Hf Hg; [lia|].
  rewrite !cnt_S.
  assert (Hm : forall j, j < n -> f j = true -> g j = true) by (intros; apply H; auto).
  destruct (Nat.eq_dec a n) as [->|Hne].
  - rewrite Hf, Hg. pose proof (cnt_mono f g n Hm). lia.
  - assert (cnt f n < cnt g n) by (apply IH; auto; lia).
    specialize (H n (Nat.lt_succ_diag_r n)).
    destruct (f n), (g n); lia.
Qed.

Lemma cnt_false f n : (forall j, j < n -> f j = false) -> cnt f n = 0.
Proof.
  induction n as [|n IH]; intros H; [reflexivity|].
  rewrite cnt_S, IH, H by auto; reflexivity.
Qed.

Lemma cnt_eqb a n : a < n -> cnt (Nat.eqb a) n = 1.
Proof.
  induction n as [|n IH]; intros H; [lia|]. rewrite cnt_S.
  destruct (Nat.eq_dec a n) as [->|Hne].
  - rewrite Nat.eqb_refl, cnt_false; [reflexivity|].
    intros j Hj. apply Nat.eqb_neq; lia.
  - rewrite IH by lia. apply Nat.eqb_neq in Hne. rewrite Hne; reflexivity.
Qed.

(* disjoint union *)
Lemma cnt_split f g h n :
  (forall j, j < n -> f j = g j || h j) -> (forall j, j < n -> g j = true -> h j = false) ->
  cnt f n = cnt g n + cnt h n.
Proof.
  induction n as [|n IH]; intros H D; [reflexivity|].
  rewrite !cnt_S, IH by auto. rewrite (H n) by auto.
  specialize (D n (Nat.lt_succ_diag_r n)).
  destruct (g n), (h n); simpl; lia.
Qed.

Lemma cnt_in f n j : In j (filter f (seq 0 n)) <-> j < n /\ f j = true.
Proof. rewrite filter_In, in_seq. intuition lia. Qed.

(* ------------------------------------------------------------------ index_of *)
Lemma index_of_Some x l i : index_of x l = Some i -> i < length l /\ nth i l 0%Z = x.
Proof.
  revert i; induction l as [|y t IH]; simpl; intros i H; [discriminate|].
  destruct (Z.eqb x y) eqn:E.
  - inversion H; subst. apply Z.eqb_eq in E. split; [lia|auto].
  - destruct (index_of x t) as [k|]; [|discriminate]. inversion H; subst.
    destruct (IH k eq_refl). split; [lia|auto].
Qed.

Lemma index_of_None x l : index_of x l = None <-> ~ In x l.
Proof.
  induction l as [|y t IH]; simpl; [intuition|].
  destruct (Z.eqb x y) eqn:E.
  - apply Z.eqb_eq in E. split; [discriminate|]. intros H; exfalso; apply H; auto.
  - apply Z.eqb_neq in E. destruct (index_of x t) eqn:F; simpl.
    + split; [discriminate|]. intros H. exfalso.
      destruct (in_dec Z.eq_dec x t) as [i|n0]; [apply H; right; exact i|].
      apply IH in n0. discriminate.
    + split; auto. intros _ [H|H]; [congruence|]. destruct IH as [IH1 _]. exact (IH1 eq_refl H).
Qed.

Lemma index_of_In x l : In x l <-> exists i, index_of x l = Some i.
Proof.
  split.
  - intros H. destruct (index_of x l) eqn:E; [eauto|]. apply index_of_None in E. contradiction.
  - intros [i H]. destruct (in_dec Z.eq_dec x l) as [|n]; auto.
    apply index_of_None in n. congruence.
Qed.

Lemma index_of_nth l i : NoDup l -> i < length l -> index_of (nth i l 0%Z) l = Some i.
Proof.
  revert i; induction l as [|y t IH]; intros i ND Hi; simpl in *; [lia|].
  inversion ND as [|? ? Hn ND']; subst.
  destruct i as [|i].
  - rewrite Z.eqb_refl; reflexivity.
  - destruct (Z.eqb (nth i t 0%Z) y) eqn:E.
    + apply Z.eqb_eq in E. exfalso. apply Hn. rewrite <- E. apply nth_In. lia.
    + rewrite IH by (auto; lia). reflexivity.
Qed.

Lemma index_of_app_l x l m i : index_of x l = Some i -> index_of x (l ++ m) = Some i.
Proof.
  revert i; induction l as [|y t IH]; simpl; intros i H; [discriminate|].
  destruct (Z.eqb x y); auto.
  destruct (index_of x t) as [k|]; [|discriminate]. rewrite (IH k eq_refl). exact H.
Qed.

Lemma index_of_app_new x l : index_of x l = None -> index_of x (l ++ [x]) = Some (length l).
Proof.
  induction l as [|y t IH]; simpl.
  - rewrite Z.eqb_refl. reflexivity.
  - destruct (Z.eqb x y) eqn:E; [discriminate|].
    destruct (index_of x t); [discriminate|]. intros _. rewrite IH; reflexivity.
Qed.

Lemma index_of_app_other x y l : x <> y -> index_of x l = None -> index_of x (l ++ [y]) = None.
Proof.
  intros Hxy. induction l as [|z t IH]; simpl.
  - apply Z.eqb_neq in Hxy. rewrite Hxy. reflexivity.
  - destruct (Z.eqb x z); [discriminate|].
    destruct (index_of x t); [discriminate|]. intros _. rewrite IH; reflexivity.
Qed.

(* ------------------------------------------------------------------ the dict _indx as an association list *)
Lemma combine_app {A B} (l1 l2 : list A) (m1 m2 : list B) :
  length l1 = length m1 -> combine (l1 ++ l2) (m1 ++ m2) = combine l1 m1 ++ combine l2 m2.
Proof.
  revert m1; induction l1 as [|a t IH]; intros [|b u] H; simpl in *; try discriminate; auto.
  f_equal. apply IH. lia.
Qed.

Lemma lookup_combine x l k :
  lookup x (combine l (seq k (length l))) = option_map (fun i => k + i) (index_of x l).
Proof.
  revert k; induction l as [|y t IH]; intros k; simpl; [reflexivity|].
  destruct (Z.eqb x y); simpl; [f_equal; lia|].
  rewrite IH. destruct (index_of x t); simpl; [f_equal; lia|reflexivity].
Qed.

Lemma lookup_index x l : lookup x (combine l (seq 0 (length l))) = index_of x l.
Proof. rewrite lookup_combine. destruct (index_of x l); reflexivity. Qed.

Lemma existsb_index x l : existsb (Z.eqb x) l = match index_of x l with Some _ => true | None => false end.
Proof.
  induction l as [|y t IH]; simpl; [reflexivity|].
  destruct (Z.eqb x y); simpl; [reflexivity|]. rewrite IH. destruct (index_of x t); reflexivity.
Qed.
