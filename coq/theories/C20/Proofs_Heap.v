(* C20 - the heapq algorithm of Model.v (Section Heap): multiset and heap-order theorems,
   generic in the comparator [lt]. *)
From Coq Require Import ZArith List Bool Arith Lia Permutation ZifyBool ZifyNat.
Import ListNotations.
Require Import MV.C20.Model MV.C20.Proofs_Base.
Ltac Zify.zify_post_hook ::= Z.to_euclidean_division_equations.

(* hypotheses on the comparator: a strict weak order, in the two clauses the proof uses *)
Record lt_ok {item : Type} (lt : item -> item -> bool) : Prop := {
  lt_asym : forall a b, lt a b = true -> lt b a = false;
  lt_negtrans : forall a b c, lt a b = false -> lt b c = false -> lt a c = false
}.

(* heap order: no entry is smaller than its parent *)
Definition heap_ok {item : Type} (lt : item -> item -> bool) (dummy : item) (h : list item) : Prop :=
  forall i, 0 < i < length h -> lt (nth i h dummy) (nth ((i - 1) / 2) h dummy) = false.

Section HeapProofs.
  Variable item : Type.
  Variable lt : item -> item -> bool.
  Variable dummy : item.

  Local Notation siftdown_loop := (siftdown_loop item lt dummy).
  Local Notation siftdown := (siftdown item lt dummy).
  Local Notation siftup_loop := (siftup_loop item lt dummy).
  Local Notation siftup := (siftup item lt dummy).
  Local Notation heappush := (heappush item lt dummy).
  Local Notation heappop := (heappop item lt dummy).
  Local Notation heap_ok := (heap_ok lt dummy).
  Local Notation "h [[ i ]]" := (nth i h dummy) (at level 9).

  Lemma div2_parent i : Nat.div2 (i - 1) = (i - 1) / 2.
  Proof. apply Nat.div2_div. Qed.

  (* ---------------------------------------------------------------- multiset part *)
  Lemma siftdown_loop_perm f h x pos :
    pos < length h -> Permutation (siftdown_loop f h x pos) (upd h pos x).
  Proof.
    revert h pos; induction f as [|f IH]; intros h pos Hp; cbn [Model.siftdown_loop].
    - reflexivity.
    - destruct (0 <? pos) eqn:E0; [|reflexivity].
      destruct (lt x _); [|reflexivity].
      apply Nat.ltb_lt in E0. unfold hget. rewrite div2_parent.
      assert (Hpp : (pos - 1) / 2 < pos) by lia.
      etransitivity; [apply IH; rewrite upd_length; lia|].
      apply upd_swap_perm; lia.
  Qed.

  Lemma siftdown_perm h pos : pos < length h -> Permutation (siftdown h pos) h.
  Proof.
    intros H. unfold Model.siftdown, hget.
    etransitivity; [apply siftdown_loop_perm; exact H|]. rewrite upd_nth_same. reflexivity.
  Qed.

  Lemma heappush_perm h x : Permutation (heappush h x) (x :: h).
  Proof.
    unfold Model.heappush.
    etransitivity; [apply siftdown_perm; rewrite app_length; simpl; lia|].
    symmetry. apply Permutation_cons_append.
  Qed.

  (* the hole moves from [pos] to [pos1]; whatever is written in the hole, same multiset *)
  Lemma siftup_loop_spec f h pos h1 pos1 :
    pos < length h -> siftup_loop f h pos = (h1, pos1) ->
    length h1 = length h /\ pos1 < length h /\
    forall v, Permutation (upd h1 pos1 v) (upd h pos v).
  Proof.
    revert h pos; induction f as [|f IH]; intros h pos Hp E; cbn [Model.siftup_loop] in E.
    - inversion E; subst. auto.
    - destruct (2 * pos + 1 <? length h) eqn:Ec; [|inversion E; subst; auto].
      apply Nat.ltb_lt in Ec.
      set (c := if (2 * pos + 1 + 1 <? length h) && negb (lt (hget item dummy h (2 * pos + 1)) (hget item dummy h (2 * pos + 1 + 1)))
                then 2 * pos + 1 + 1 else 2 * pos + 1) in *.
      assert (Hc : c < length h /\ c <> pos).
      { subst c. destruct (2 * pos + 1 + 1 <? length h) eqn:Er; simpl.
        - apply Nat.ltb_lt in Er. destruct (negb _); lia.
        - lia. }
      destruct Hc as [Hc1 Hc2].
      apply IH in E; [|rewrite upd_length; exact Hc1].
      rewrite upd_length in E. destruct E as (E1 & E2 & E3).
      split; [exact E1|]. split; [exact E2|].
      intros v. etransitivity; [apply E3|]. unfold hget.
      apply upd_swap_perm; lia.
  Qed.

  Lemma siftup_perm h : 0 < length h -> Permutation (siftup h) h.
  Proof.
    intros H. unfold Model.siftup.
    destruct (siftup_loop (length h) h 0) as [h1 pos] eqn:E.
    apply siftup_loop_spec in E; [|exact H]. destruct E as (E1 & E2 & E3).
    etransitivity; [apply siftdown_perm; rewrite upd_length; lia|].
    etransitivity; [apply E3|]. unfold hget. rewrite upd_nth_same. reflexivity.
  Qed.

  Lemma heappop_perm h x h' : heappop h = Some (x, h') -> Permutation h (x :: h').
  Proof.
    unfold Model.heappop. destruct (rev h) as [|lastelt rt] eqn:E; [discriminate|].
    assert (Eh : h = rev rt ++ [lastelt]).
    { rewrite <- (rev_involutive h), E. reflexivity. }
    destruct (rev rt) as [|first tl] eqn:Er.
    - intros H; inversion H; subst. reflexivity.
    - intros H; inversion H; subst. clear H. simpl.
      apply perm_skip.
      etransitivity; [|symmetry; apply siftup_perm; simpl; lia].
      symmetry. apply Permutation_cons_append.
  Qed.

  Lemma heappop_none h : heappop h = None <-> h = [].
  Proof.
    unfold Model.heappop. split.
    - destruct (rev h) as [|lastelt rt] eqn:E.
      + intros _. rewrite <- (rev_involutive h), E. reflexivity.
      + destruct (rev rt); discriminate.
    - intros ->. reflexivity.
  Qed.

  Lemma heappop_some_head h x h' : heappop h = Some (x, h') -> exists t, h = x :: t.
  Proof.
    unfold Model.heappop. destruct (rev h) as [|lastelt rt] eqn:E; [discriminate|].
    assert (Eh : h = rev rt ++ [lastelt]).
    { rewrite <- (rev_involutive h), E. reflexivity. }
    destruct (rev rt) as [|first tl] eqn:Er; intros H; inversion H; subst; simpl; eauto.
  Qed.

  (* ---------------------------------------------------------------- heap-order part *)
  Hypothesis Hlt : lt_ok lt.

  Lemma lt_irrefl a : lt a a = false.
  Proof. destruct (lt a a) eqn:E; auto. rewrite (lt_asym lt Hlt a a E) in E. discriminate. Qed.

  Lemma lt_trans a b c : lt a b = true -> lt b c = true -> lt a c = true.
  Proof.
    intros H1 H2. destruct (lt a c) eqn:E; auto.
    apply (lt_asym lt Hlt) in H2.
    rewrite (lt_negtrans lt Hlt a c b E H2) in H1. discriminate.
  Qed.

  Lemma heap_ok_nil : heap_ok [].
  Proof. intros i Hi. simpl in Hi. lia. Qed.

  (* the root is a minimum *)
  Lemma heap_ok_root h : heap_ok h -> forall i, i < length h -> lt h[[i]] h[[0]] = false.
  Proof.
    intros H i. induction i as [i IH] using lt_wf_ind. intros Hi.
    destruct (Nat.eq_dec i 0) as [->|Hn]; [apply lt_irrefl|].
    apply (lt_negtrans lt Hlt _ h[[(i - 1) / 2]]).
    - apply H. lia.
    - apply IH; lia.
  Qed.

  (* _siftdown invariant: hole at [pos] (holding a stale value), [x] waits to be written *)
  Record SD (h : list item) (pos : nat) (x : item) : Prop := {
    sd_a : forall i, 0 < i < length h -> i <> pos -> lt h[[i]] h[[(i - 1) / 2]] = false;
    sd_b : forall c, 0 < c < length h -> (c - 1) / 2 = pos -> lt h[[c]] x = false;
    sd_c : forall c, 0 < c < length h -> (c - 1) / 2 = pos -> 0 < pos ->
                     lt h[[c]] h[[(pos - 1) / 2]] = false
  }.

  Lemma SD_final h pos x :
    SD h pos x -> pos < length h -> (pos = 0 \/ lt x h[[(pos - 1) / 2]] = false) ->
    heap_ok (upd h pos x).
  Proof.
    intros [A B C] Hp Hx i Hi. rewrite upd_length in Hi.
    destruct (Nat.eq_dec i pos) as [->|Hne].
    - rewrite nth_upd_eq by exact Hp. rewrite nth_upd_neq by lia.
      destruct Hx as [->|Hx]; [lia|exact Hx].
    - rewrite (nth_upd_neq h pos i) by lia.
      destruct (Nat.eq_dec ((i - 1) / 2) pos) as [E|E].
      + rewrite E, nth_upd_eq by exact Hp. apply B; [lia|exact E].
      + rewrite nth_upd_neq by lia. apply A; [lia|exact Hne].
  Qed.

  Lemma SD_step h pos x :
    SD h pos x -> 0 < pos < length h -> lt x h[[(pos - 1) / 2]] = true ->
    SD (upd h pos h[[(pos - 1) / 2]]) ((pos - 1) / 2) x.
  Proof.
    intros [A B C] Hp Hx.
    set (pp := (pos - 1) / 2) in *. assert (Hpp : pp < pos) by (subst pp; lia).
    split.
    - intros i Hi Hne. rewrite upd_length in Hi.
      destruct (Nat.eq_dec i pos) as [->|Hip].
      + rewrite nth_upd_eq by lia. fold pp. rewrite nth_upd_neq by lia. apply lt_irrefl.
      + rewrite (nth_upd_neq h pos i) by lia.
        destruct (Nat.eq_dec ((i - 1) / 2) pos) as [E|E].
        * rewrite E, nth_upd_eq by lia. apply C; [lia|exact E|lia].
        * rewrite nth_upd_neq by lia. apply A; [lia|exact Hip].
    - intros c Hc Ec. rewrite upd_length in Hc.
      destruct (Nat.eq_dec c pos) as [->|Hcp].
      + rewrite nth_upd_eq by lia. apply (lt_asym lt Hlt). exact Hx.
      + rewrite nth_upd_neq by lia.
        destruct (lt h[[c]] x) eqn:E; auto.
        assert (T := lt_trans _ _ _ E Hx).
        rewrite <- Ec in T. rewrite A in T by lia. discriminate.
    - intros c Hc Ec Hpos. rewrite upd_length in Hc.
      rewrite (nth_upd_neq h pos ((pp - 1) / 2)) by lia.
      assert (G : lt h[[pp]] h[[(pp - 1) / 2]] = false) by (apply A; lia).
      destruct (Nat.eq_dec c pos) as [->|Hcp].
      + rewrite nth_upd_eq by lia. exact G.
      + rewrite nth_upd_neq by lia.
        apply (lt_negtrans lt Hlt _ h[[pp]]); [|exact G].
        rewrite <- Ec. apply A; lia.
  Qed.

  Lemma siftdown_loop_ok f h x pos :
    pos < f -> pos < length h -> SD h pos x -> heap_ok (siftdown_loop f h x pos).
  Proof.
    revert h pos; induction f as [|f IH]; intros h pos Hf Hp HS; [lia|].
    cbn [Model.siftdown_loop].
    destruct (0 <? pos) eqn:E0.
    - apply Nat.ltb_lt in E0. unfold hget. rewrite div2_parent.
      destruct (lt x h[[(pos - 1) / 2]]) eqn:Ex.
      + apply IH; [lia|rewrite upd_length; lia|].
        apply SD_step; auto.
      + apply SD_final; auto.
    - apply Nat.ltb_ge in E0. apply SD_final; auto. left; lia.
  Qed.

  Lemma heappush_ok h x : heap_ok h -> heap_ok (heappush h x).
  Proof.
    intros H. unfold Model.heappush, Model.siftdown.
    apply siftdown_loop_ok; [lia|rewrite app_length; simpl; lia|].
    split.
    - intros i Hi Hne. rewrite app_length in Hi; simpl in Hi.
      rewrite !app_nth1 by lia. apply H. lia.
    - intros c Hc Ec. rewrite app_length in Hc; simpl in Hc. lia.
    - intros c Hc Ec. rewrite app_length in Hc; simpl in Hc. lia.
  Qed.

  (* _siftup invariant: hole at [pos]; edges not touching the hole are in order, and the children of
     the hole are not smaller than the hole's parent *)
  Record SU (h : list item) (pos : nat) : Prop := {
    su_a : forall i, 0 < i < length h -> i <> pos -> (i - 1) / 2 <> pos ->
                     lt h[[i]] h[[(i - 1) / 2]] = false;
    su_c : forall c, 0 < c < length h -> (c - 1) / 2 = pos -> 0 < pos ->
                     lt h[[c]] h[[(pos - 1) / 2]] = false
  }.

  Lemma siftup_loop_ok f h pos h1 pos1 :
    pos < length h -> length h - pos <= f -> SU h pos -> siftup_loop f h pos = (h1, pos1) ->
    length h1 = length h /\ pos1 < length h /\ length h <= 2 * pos1 + 1 /\ SU h1 pos1.
  Proof.
    revert h pos; induction f as [|f IH]; intros h pos Hp Hf HS E; [lia|].
    cbn [Model.siftup_loop] in E.
    destruct (2 * pos + 1 <? length h) eqn:Ec.
    2:{ apply Nat.ltb_ge in Ec. inversion E; subst. auto. }
    apply Nat.ltb_lt in Ec. unfold hget in E.
    set (l := 2 * pos + 1) in *.
    set (c := if (l + 1 <? length h) && negb (lt h[[l]] h[[l + 1]]) then l + 1 else l) in *.
    assert (Hc : (c = l \/ c = l + 1) /\ c < length h /\
                 forall k, k < length h -> (k = l \/ k = l + 1) -> k <> c -> lt h[[k]] h[[c]] = false).
    { subst c. destruct (l + 1 <? length h) eqn:Er; simpl.
      - apply Nat.ltb_lt in Er. destruct (lt h[[l]] h[[l + 1]]) eqn:El; simpl.
        + split; [auto|]. split; [lia|]. intros k Hk [->| ->] Hkc; [lia|].
          apply (lt_asym lt Hlt); exact El.
        + split; [auto|]. split; [lia|]. intros k Hk [->| ->] Hkc; [exact El|lia].
      - apply Nat.ltb_ge in Er. split; [auto|]. split; [lia|]. intros k Hk [->| ->] Hkc; lia. }
    destruct Hc as (Hc0 & Hc1 & Hc2).
    destruct HS as [A C].
    apply IH in E.
    - rewrite upd_length in E. exact E.
    - rewrite upd_length; exact Hc1.
    - rewrite upd_length. lia.
    - split.
      + intros i Hi Hic Hpc. rewrite upd_length in Hi.
        destruct (Nat.eq_dec i pos) as [->|Hip].
        * rewrite nth_upd_eq by lia. rewrite nth_upd_neq by lia.
          apply C; lia.
        * rewrite (nth_upd_neq h pos i) by lia.
          destruct (Nat.eq_dec ((i - 1) / 2) pos) as [Ei|Ei].
          -- rewrite Ei, nth_upd_eq by lia. apply Hc2; [lia|lia|exact Hic].
          -- rewrite nth_upd_neq by lia. apply A; auto.
      + intros k Hk Ek Hcpos. rewrite upd_length in Hk.
        assert (Ecp : (c - 1) / 2 = pos) by lia.
        rewrite Ecp, nth_upd_eq by lia. rewrite nth_upd_neq by lia.
        rewrite <- Ek. apply A; lia.
  Qed.

  Lemma siftup_ok h :
    0 < length h -> (forall i, 0 < i < length h -> (i - 1) / 2 <> 0 -> lt h[[i]] h[[(i - 1) / 2]] = false) ->
    heap_ok (siftup h).
  Proof.
    intros Hl H. unfold Model.siftup.
    destruct (siftup_loop (length h) h 0) as [h1 pos] eqn:E.
    apply siftup_loop_ok in E; [|lia|lia|].
    - destruct E as (E1 & E2 & E3 & [A C]).
      unfold Model.siftdown.
      apply siftdown_loop_ok; [lia|rewrite upd_length; lia|].
      split.
      + intros i Hi Hne. rewrite upd_length in Hi.
        rewrite !nth_upd_neq by lia. apply A; lia.
      + intros c Hc Ec. rewrite upd_length in Hc. lia.
      + intros c Hc Ec. rewrite upd_length in Hc. lia.
    - split.
      + intros i Hi _ Hp. apply H; auto.
      + intros; lia.
  Qed.

  Lemma heappop_ok h x h' : heap_ok h -> heappop h = Some (x, h') -> heap_ok h'.
  Proof.
    intros H. unfold Model.heappop. destruct (rev h) as [|lastelt rt] eqn:E; [discriminate|].
    assert (Eh : h = rev rt ++ [lastelt]).
    { rewrite <- (rev_involutive h), E. reflexivity. }
    destruct (rev rt) as [|first tl] eqn:Er; intros G; injection G as <- <-.
    - apply heap_ok_nil.
    - apply siftup_ok; [simpl; lia|].
      cbn [upd]. intros i Hi Hp. simpl in Hi.
      assert (N : forall (a : item) t k, 0 < k -> nth k (a :: t) dummy = nth (k - 1) t dummy).
      { intros a t [|k] Hk; [lia|]. simpl. rewrite Nat.sub_0_r. reflexivity. }
      subst h. specialize (H i). rewrite app_length in H; cbn [length] in H.
      change ((first :: tl) ++ [lastelt]) with (first :: (tl ++ [lastelt])) in H.
      rewrite !N in H |- * by lia. rewrite !app_nth1 in H by lia. apply H. lia.
  Qed.

  Lemma heappop_min h x h' :
    heap_ok h -> heappop h = Some (x, h') -> forall y, In y h -> lt y x = false.
  Proof.
    intros H E y Hy. destruct (heappop_some_head _ _ _ E) as [t ->].
    destruct (In_nth _ _ dummy Hy) as (i & Hi & <-).
    apply (heap_ok_root _ H i Hi).
  Qed.
End HeapProofs.

(* ------------------------------------------------------------------ the two bundles Props.v states *)
Lemma heap_permutation :
  forall (item : Type) (lt : item -> item -> bool) (dummy : item) (h : list item),
  (forall x, Permutation (heappush item lt dummy h x) (x :: h)) /\
  (forall x h', heappop item lt dummy h = Some (x, h') -> Permutation h (x :: h')) /\
  (heappop item lt dummy h = None <-> h = []).
Proof.
  intros item lt dummy h. split; [apply heappush_perm|].
  split; [apply heappop_perm|apply heappop_none].
Qed.

Lemma heap_min :
  forall (item : Type) (lt : item -> item -> bool) (dummy : item),
  lt_ok lt ->
  heap_ok lt dummy [] /\
  (forall h x, heap_ok lt dummy h -> heap_ok lt dummy (heappush item lt dummy h x)) /\
  (forall h x h', heap_ok lt dummy h -> heappop item lt dummy h = Some (x, h') ->
     heap_ok lt dummy h' /\ forall y, In y h -> lt y x = false).
Proof.
  intros item lt dummy H. split; [apply heap_ok_nil|].
  split; [apply heappush_ok; exact H|].
  intros h x h' Hh E. split; [eapply heappop_ok; eauto|eapply heappop_min; eauto].
Qed.
