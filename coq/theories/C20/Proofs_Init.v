(* C20 - the constructor GENERATED from UnionFind.__init__ (Gen.v) is the model's [init_from]. *)
From Coq Require Import ZArith List Bool.
Import ListNotations.
Require Import MV.C20.Model MV.C20.Gen.

Lemma uf_constructor :
  uf_new = uf_empty /\ uf_init_none = [] /\
  forall l : list Z, uf_init l = init_from l /\ uf_init l = reach_from l [].
Proof. split; [reflexivity|]. split; [reflexivity|]. intros l. split; reflexivity. Qed.

Example ex_uf_init : n_elts (uf_init [4; 7; 4; 9; 7; 4]%Z) = 3 /\ n_elts (uf_init uf_init_none) = 0.
Proof. split; vm_compute; reflexivity. Qed.
