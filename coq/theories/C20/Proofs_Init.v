(* C20 - the `add` and the constructor GENERATED from unionfind.py (Gen.v) are the model's [add] / [init_from]. *)
From Coq Require Import ZArith List Bool Lia.
Import ListNotations.
Require Import MV.C20.Model MV.C20.Gen.

Lemma uf_add_eq : forall (s : uf) (x : Z), uf_add s x = add s x.
Proof.
  intros s x. unfold uf_add, uf_add_new, add. destruct (mem s x); [reflexivity|].
  f_equal; lia.
Qed.

Lemma uf_init_eq : forall l : list Z, uf_init l = init_from l.
Proof.
  intros l. unfold uf_init, init_from. change uf_new with uf_empty.
  generalize uf_empty. induction l as [|x t IH]; intros s; simpl; [reflexivity|].
  rewrite uf_add_eq. apply IH.
Qed.

Lemma uf_constructor :
  uf_new = uf_empty /\ uf_init_none = [] /\
  (forall (s : uf) (x : Z), uf_add s x = add s x) /\
  forall l : list Z, uf_init l = init_from l /\ uf_init l = reach_from l [].
Proof.
  split; [reflexivity|]. split; [reflexivity|]. split; [exact uf_add_eq|].
  intros l. split; [apply uf_init_eq|]. rewrite uf_init_eq. reflexivity.
Qed.

Example ex_uf_init : n_elts (uf_init [4; 7; 4; 9; 7; 4]%Z) = 3 /\ n_elts (uf_init uf_init_none) = 0.
Proof. split; vm_compute; reflexivity. Qed.
