(* C20 - history machine of the priority queue over the generated comparator/plumbing (Gen.v),
   and the boolean checkers the correspondence batches evaluate. No proofs. *)
From Coq Require Import ZArith List Bool Arith.
Import ListNotations.
Require Import MV.C20.Model MV.C20.Gen.

(* a union-find history: the constructor argument (None = no argument / None) and the operations with their
   observations; the initial state is the GENERATED constructor of Gen.v *)
Definition check_uf_case (c : option (list Z) * list (op * obs)) : bool :=
  run (uf_init (match fst c with Some l => l | None => uf_init_none end)) (snd c).

Definition item_eqb (a b : item) : bool := Z.eqb (fst a) (fst b) && Z.eqb (snd a) (snd b).

(* one queue operation: new data, and does the implementation's observation agree *)
Definition qstep (d : list item) (o : qop) (w : qobs) : list item * bool :=
  match o with
  | Push x p => (pq_push d x p, match w with QNone => true | _ => false end)
  | Pop =>
      match pq_pop d with
      | None => (d, match w with QIndexError => true | _ => false end)
      | Some ((p, x), d') => (d', match w with QItem x' p' => Z.eqb x x' && Z.eqb p p' | _ => false end)
      end
  | Empty => (d, match w with QBool b => Bool.eqb b (pq_empty d) | _ => false end)
  | Front =>
      match pq_front d with
      | None => (d, match w with QIndexError => true | _ => false end)
      | Some (p, x) => (d, match w with QItem x' p' => Z.eqb x x' && Z.eqb p p' | _ => false end)
      end
  end.

(* a history: operation, observation, and the queue's `data` list (as (priority, payload)) afterwards *)
Fixpoint qrun (d : list item) (h : list (qop * qobs * list item)) : bool :=
  match h with
  | [] => true
  | (o, w, dat) :: t =>
      let '(d', b) := qstep d o w in
      b && list_eqb item_eqb d' dat && qrun d' t
  end.

Definition check_pq_exact (h : list (qop * qobs * list item)) : bool := qrun pq_init h.

(* The checker the correspondence uses: only what the property states. The state is the list of pending items
   (pushed through the GENERATED pq_push); a pop / front may hand out ANY pending item that no pending item is
   smaller than (generated comparator) - tie-breaking and heap layout are free -; QIndexError stands for "no item
   handed out" (an exception of any class, or None), accepted exactly when nothing is pending; emptiness through the
   generated pq_empty. The third component (the queue's `data`) is ignored: the property does not constrain it. *)
Fixpoint remove_item (it : item) (d : list item) : list item :=
  match d with
  | [] => []
  | y :: t => if item_eqb it y then t else y :: remove_item it t
  end.

Definition is_min_pending (it : item) (d : list item) : bool :=
  existsb (item_eqb it) d && forallb (fun y => negb (item_lt y it)) d.

Definition qstep_free (d : list item) (o : qop) (w : qobs) : list item * bool :=
  match o with
  | Push x p => (pq_push d x p, match w with QNone => true | _ => false end)
  | Pop =>
      match w with
      | QItem x p => (remove_item (p, x) d, is_min_pending (p, x) d)
      | QIndexError => (d, pq_empty d)
      | _ => (d, false)
      end
  | Empty => (d, match w with QBool b => Bool.eqb b (pq_empty d) | _ => false end)
  | Front =>
      match w with
      | QItem x p => (d, is_min_pending (p, x) d)
      | QIndexError => (d, pq_empty d)
      | _ => (d, false)
      end
  end.

Fixpoint qrun_free (d : list item) (h : list (qop * qobs * list item)) : bool :=
  match h with
  | [] => true
  | (o, w, _) :: t => let '(d', b) := qstep_free d o w in b && qrun_free d' t
  end.

Definition check_pq (h : list (qop * qobs * list item)) : bool := qrun_free pq_init h.
