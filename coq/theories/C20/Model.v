(* C20 - executable model of mouette/utils/unionfind.py and mouette/utils/priority_queue.py
   (the latter including the algorithm of CPython's heapq that it delegates to).
   Executable definitions only: no proofs here, so the model still runs when a proof breaks. *)
From Coq Require Import ZArith List Bool Arith Lia.
Import ListNotations.

(* ------------------------------------------------------------------ union-find *)
(* Elements are arbitrary hashable Python objects; the structure only ever hashes and compares
   them, so the model takes them as codes in Z (the harness interns each distinct object). *)

(* _elts, _par, _siz, n_comps, n_elts, _next, _indx (the dict, as an insertion-ordered association list) *)
Record uf := mkuf { elts : list Z; par : list nat; siz : list nat; ncomps : nat;
                    n_elts : nat; next : nat; indx : list (Z * nat) }.

Definition uf_empty : uf := mkuf [] [] [] 0 0 0 [].

(* self._indx[x] / x in self._indx *)
Fixpoint lookup (x : Z) (m : list (Z * nat)) : option nat :=
  match m with
  | [] => None
  | (y, i) :: t => if Z.eqb x y then Some i else lookup x t
  end.

Fixpoint index_of (x : Z) (l : list Z) : option nat :=
  match l with
  | [] => None
  | y :: t => if Z.eqb x y then Some 0 else option_map S (index_of x t)
  end.

(* unionfind.py: __contains__ *)
Definition mem (s : uf) (x : Z) : bool :=
  match lookup x (indx s) with Some _ => true | None => false end.

(* unionfind.py: add *)
Definition add (s : uf) (x : Z) : uf :=
  if mem s x then s
  else mkuf (elts s ++ [x]) (par s ++ [next s]) (siz s ++ [1]) (S (ncomps s))
            (S (n_elts s)) (S (next s)) (indx s ++ [(x, next s)]).

Fixpoint upd {A} (l : list A) (i : nat) (v : A) : list A :=
  match l, i with
  | [], _ => []
  | _ :: t, 0 => v :: t
  | h :: t, S j => h :: upd t j v
  end.

(* self._par[i]; an out-of-range read cannot happen on reachable states (C20 invariant). *)
Definition getp (p : list nat) (i : nat) : nat := nth i p i.

Inductive res (A : Type) := Ok (a : A) | ValueError | OutOfFuel.
Arguments Ok {A} a. Arguments ValueError {A}. Arguments OutOfFuel {A}.

(* the while loop of `find` (path halving):  while p != par[p]: q = par[p]; par[p] = par[q]; p = q *)
Fixpoint find_loop (fuel : nat) (p : list nat) (i : nat) : option (list nat * nat) :=
  match fuel with
  | 0 => None
  | S f =>
      let q := getp p i in
      if Nat.eqb i q then Some (p, i)
      else find_loop f (upd p i (getp p q)) q
  end.

(* the state with another parent array *)
Definition with_par (s : uf) (p : list nat) : uf :=
  mkuf (elts s) p (siz s) (ncomps s) (n_elts s) (next s) (indx s).

Definition find (s : uf) (x : Z) : res (uf * nat) :=
  match lookup x (indx s) with
  | None => ValueError
  | Some i =>
      match find_loop (S (length (par s))) (par s) i with
      | None => OutOfFuel
      | Some (p', r) => Ok (with_par s p', r)
      end
  end.

Definition connected (s : uf) (x y : Z) : res (uf * bool) :=
  match find s x with
  | Ok (s1, rx) =>
      match find s1 y with
      | Ok (s2, ry) => Ok (s2, Nat.eqb rx ry)
      | ValueError => ValueError | OutOfFuel => OutOfFuel
      end
  | ValueError => ValueError | OutOfFuel => OutOfFuel
  end.

(* unionfind.py: union (adds absent elements first; union by size, ties keep x's root) *)
Definition union (s : uf) (x y : Z) : res uf :=
  let s0 := add (add s x) y in
  match find s0 x with
  | Ok (s1, xr) =>
      match find s1 y with
      | Ok (s2, yr) =>
          if Nat.eqb xr yr then Ok s2
          else
            let sx := nth xr (siz s2) 0 in
            let sy := nth yr (siz s2) 0 in
            if Nat.ltb sx sy
            then Ok (mkuf (elts s2) (upd (par s2) xr yr) (upd (siz s2) yr (sy + sx)) (pred (ncomps s2))
                          (n_elts s2) (next s2) (indx s2))
            else Ok (mkuf (elts s2) (upd (par s2) yr xr) (upd (siz s2) xr (sx + sy)) (pred (ncomps s2))
                          (n_elts s2) (next s2) (indx s2))
      | ValueError => ValueError | OutOfFuel => OutOfFuel
      end
  | ValueError => ValueError | OutOfFuel => OutOfFuel
  end.

(* [find] of every element in storage order, threading the (compressing) state: the common core of
   roots / components / component / component_mapping *)
Fixpoint find_all (s : uf) (l : list Z) : res (uf * list nat) :=
  match l with
  | [] => Ok (s, [])
  | x :: t =>
      match find s x with
      | Ok (s1, r) =>
          match find_all s1 t with
          | Ok (s2, rs) => Ok (s2, r :: rs)
          | ValueError => ValueError | OutOfFuel => OutOfFuel
          end
      | ValueError => ValueError | OutOfFuel => OutOfFuel
      end
  end.

Fixpoint nodup_nat (l : list nat) : list nat :=
  match l with
  | [] => []
  | x :: t => if existsb (Nat.eqb x) t then nodup_nat t else x :: nodup_nat t
  end.

(* roots(): the set of root indices *)
Definition roots (s : uf) : res (uf * list nat) :=
  match find_all s (elts s) with
  | Ok (s1, rs) => Ok (s1, nodup_nat rs)
  | ValueError => ValueError | OutOfFuel => OutOfFuel
  end.

Fixpoint select {A} (l : list A) (m : list bool) : list A :=
  match l, m with
  | x :: t, b :: u => if b then x :: select t u else select t u
  | _, _ => []
  end.

(* component(x): the set of elements whose root is x's root *)
Definition component (s : uf) (x : Z) : res (uf * list Z) :=
  if negb (mem s x) then ValueError else
  match find_all s (elts s) with
  | Ok (s1, rs) =>
      match find s1 x with
      | Ok (s2, r) => Ok (s2, select (elts s2) (map (Nat.eqb r) rs))
      | ValueError => ValueError | OutOfFuel => OutOfFuel
      end
  | ValueError => ValueError | OutOfFuel => OutOfFuel
  end.

(* components(): one list per root, elements in storage order *)
Definition components (s : uf) : res (uf * list (list Z)) :=
  match roots s with
  | Ok (s1, rts) =>
      match find_all s1 (elts s1) with
      | Ok (s2, rs) => Ok (s2, map (fun r => select (elts s2) (map (Nat.eqb r) rs)) rts)
      | ValueError => ValueError | OutOfFuel => OutOfFuel
      end
  | ValueError => ValueError | OutOfFuel => OutOfFuel
  end.

(* component_mapping(): element -> its component, listed in storage order *)
Definition mapping (s : uf) : res (uf * list (Z * list Z)) :=
  match find_all s (elts s) with
  | Ok (s1, rs) =>
      Ok (s1, map (fun xr => (fst xr, select (elts s1) (map (Nat.eqb (snd xr)) rs))) (combine (elts s1) rs))
  | ValueError => ValueError | OutOfFuel => OutOfFuel
  end.

(* unionfind.py: __getitem__ ; None models IndexError (raised by the explicit bounds test, which also
   rejects Python's negative indices, or - never on reachable states - by the list access itself) *)
Definition getitem (s : uf) (i : Z) : option Z :=
  if (Z.ltb i 0 || Z.leb (Z.of_nat (next s)) i)%bool then None
  else nth_error (elts s) (Z.to_nat i).

(* ------------------------------------------------------------------ history machine *)
Inductive op :=
| Add (x : Z) | Union (x y : Z) | Find (x : Z) | Connected (x y : Z) | Component (x : Z)
| Roots | Components | Mapping | Len | NComps | Contains (x : Z) | GetItem (i : Z).

(* what the implementation was seen to answer (canonicalised by the harness); OValueError / OIndexError stand for
   a refusal by an exception of ANY class (the class and message are not constrained by the property) *)
Inductive obs :=
| ONone                         (* returned None *)
| OValueError                   (* raised ValueError: element absent *)
| OIndexError                   (* raised IndexError: uf[i] out of bounds *)
| OOther                        (* raised anything else / ill-formed answer *)
| ONat (n : nat)
| OBool (b : bool)
| OElt (x : Z)                  (* find: the element stored at the returned root index *)
| OSet (l : list Z)             (* a set of elements, sorted by code *)
| OSets (l : list (list Z))     (* a family of sets, each sorted, family sorted *)
| OMap (l : list (Z * list Z)). (* element -> sorted component, sorted by element *)

(* sorting (insertion) for canonical comparison of sets *)
Fixpoint insert (x : Z) (l : list Z) : list Z :=
  match l with [] => [x] | y :: t => if Z.leb x y then x :: l else y :: insert x t end.
Definition sortz (l : list Z) : list Z := fold_right insert [] l.

Fixpoint list_eqb {A} (eqb : A -> A -> bool) (a b : list A) : bool :=
  match a, b with
  | [], [] => true
  | x :: s, y :: t => eqb x y && list_eqb eqb s t
  | _, _ => false
  end.
Definition zl_eqb := list_eqb Z.eqb.

Fixpoint lex_leb (a b : list Z) : bool :=
  match a, b with
  | [], _ => true
  | _ :: _, [] => false
  | x :: s, y :: t => if Z.ltb x y then true else if Z.eqb x y then lex_leb s t else false
  end.
Fixpoint insert_l (x : list Z) (l : list (list Z)) :=
  match l with [] => [x] | y :: t => if lex_leb x y then x :: l else y :: insert_l x t end.
Definition sortzl (l : list (list Z)) := fold_right insert_l [] l.

(* same_comp s x y: are x and y in one component, computed WITHOUT compression side effects on s *)
Definition same_comp (s : uf) (x y : Z) : bool :=
  match connected s x y with Ok (_, b) => b | _ => false end.

(* One step: new state, and whether the implementation's observation is the right answer.
   Comparison is through the relation the property fixes: `find` may return any representative of x's
   component (the harness reports the element stored at the returned index, and OOther if that index is
   not a fixed point of find), so a different but legitimate choice of representative - e.g. another
   linking policy - is not a disagreement. *)
Definition step (s : uf) (o : op) (w : obs) : res (uf * bool) :=
  match o with
  | Add x => Ok (add s x, match w with ONone => true | _ => false end)
  | Union x y =>
      match union s x y with
      | Ok s' => Ok (s', match w with ONone => true | _ => false end)
      | ValueError => ValueError | OutOfFuel => OutOfFuel
      end
  | Find x =>
      match find s x with
      | Ok (s', r) => Ok (s', match w with
                              | OElt e => same_comp s' e x && Nat.ltb r (length (elts s'))
                              | _ => false end)
      | ValueError => Ok (s, match w with OValueError => true | _ => false end)
      | OutOfFuel => OutOfFuel
      end
  | Connected x y =>
      match connected s x y with
      | Ok (s', b) => Ok (s', match w with OBool b' => Bool.eqb b b' | _ => false end)
      (* an absent element is joined to nothing: a refusal, or the answer False *)
      | ValueError => Ok (s, match w with OValueError => true | OBool false => true | _ => false end)
      | OutOfFuel => OutOfFuel
      end
  | Component x =>
      match component s x with
      | Ok (s', l) => Ok (s', match w with OSet l' => zl_eqb (sortz l) l' | _ => false end)
      | ValueError => Ok (s, match w with OValueError => true | OSet [] => true | _ => false end)
      | OutOfFuel => OutOfFuel
      end
  | Roots =>
      (* observed: the elements stored at the returned root indices *)
      match roots s with
      | Ok (s', rts) =>
          Ok (s', match w with
                  | OSet l' => Nat.eqb (length l') (length rts)
                               && forallb (fun e => existsb (fun r => same_comp s' e (nth r (elts s') (-1)%Z)) rts) l'
                               && forallb (fun r => existsb (fun e => same_comp s' e (nth r (elts s') (-1)%Z)) l') rts
                  | _ => false end)
      | ValueError => ValueError | OutOfFuel => OutOfFuel
      end
  | Components =>
      match components s with
      | Ok (s', cs) => Ok (s', match w with OSets l' => list_eqb zl_eqb (sortzl (map sortz cs)) l' | _ => false end)
      | ValueError => ValueError | OutOfFuel => OutOfFuel
      end
  | Mapping =>
      match mapping s with
      | Ok (s', m) =>
          Ok (s', match w with
                  | OMap l' => Nat.eqb (length l') (length m)
                               && forallb (fun xc => existsb (fun yc => Z.eqb (fst xc) (fst yc)
                                                                  && zl_eqb (sortz (snd xc)) (snd yc)) l') m
                  | _ => false end)
      | ValueError => ValueError | OutOfFuel => OutOfFuel
      end
  | Len => Ok (s, match w with ONat n => Nat.eqb n (n_elts s) | _ => false end)
  | NComps => Ok (s, match w with ONat n => Nat.eqb n (ncomps s) | _ => false end)
  | Contains x => Ok (s, match w with OBool b => Bool.eqb b (mem s x) | _ => false end)
  | GetItem i =>
      (* the numbering of the stored elements is not fixed by the property: any stored element is accepted for an
         index below len (one element per index is checked by the harness); a refusal where the code refuses;
         for a negative index also Python's convention *)
      Ok (s, match w with
             | OElt e' => mem s e' && Z.ltb i (Z.of_nat (n_elts s)) && Z.leb (- Z.of_nat (n_elts s)) i
             | OIndexError => match getitem s i with None => true | Some _ => false end
             | _ => false
             end)
  end.

(* run a whole history; true iff every observation agrees and no step errs *)
Fixpoint run (s : uf) (h : list (op * obs)) : bool :=
  match h with
  | [] => true
  | (o, w) :: t =>
      match step s o w with
      | Ok (s', b) => b && run s' t
      | _ => false
      end
  end.

Definition check_uf (h : list (op * obs)) : bool := run uf_empty h.

(* state after a list of mutating operations only (used by the theorems) *)
Definition apply (s : uf) (o : op) : uf :=
  match o with
  | Add x => add s x
  | Union x y => match union s x y with Ok s' => s' | _ => s end
  | Find x => match find s x with Ok (s', _) => s' | _ => s end
  | Connected x y => match connected s x y with Ok (s', _) => s' | _ => s end
  | Component x => match component s x with Ok (s', _) => s' | _ => s end
  | Roots => match roots s with Ok (s', _) => s' | _ => s end
  | Components => match components s with Ok (s', _) => s' | _ => s end
  | Mapping => match mapping s with Ok (s', _) => s' | _ => s end
  | Len | NComps | Contains _ | GetItem _ => s
  end.

Definition reach (h : list op) : uf := fold_left apply h uf_empty.

(* unionfind.py: __init__(elements): the empty structure, then `self.add(elt)` for each element of the
   container in iteration order (duplicates included; None stands for the empty container). Gen.v carries
   the constructor extracted from the source (uf_new, uf_init); Proofs_UF.v proves it equal to this one. *)
Definition init_from (l : list Z) : uf := fold_left add l uf_empty.

(* the state after a constructor call on the elements l followed by any list of operations *)
Definition reach_from (l : list Z) (h : list op) : uf := fold_left apply h (init_from l).

(* ------------------------------------------------------------------ priority queue *)
(* An item is (priority, payload). PriorityItem.__lt__ compares priorities only: Gen.v supplies the
   comparator extracted from the source; the heap algorithm is heapq's (Lib/heapq.py). *)
Section Heap.
  Variable item : Type.
  Variable lt : item -> item -> bool.     (* PriorityItem.__lt__ *)
  Variable dummy : item.

  Definition hget (h : list item) (i : nat) : item := nth i h dummy.

  (* _siftdown(heap, startpos=0, pos) with newitem held out *)
  Fixpoint siftdown_loop (fuel : nat) (h : list item) (newitem : item) (pos : nat) : list item :=
    match fuel with
    | 0 => upd h pos newitem
    | S f =>
        if Nat.ltb 0 pos then
          let parentpos := Nat.div2 (pos - 1) in
          let parent := hget h parentpos in
          if lt newitem parent then siftdown_loop f (upd h pos parent) newitem parentpos
          else upd h pos newitem
        else upd h pos newitem
    end.

  Definition siftdown (h : list item) (pos : nat) : list item :=
    siftdown_loop (S pos) h (hget h pos) pos.

  Definition heappush (h : list item) (x : item) : list item :=
    siftdown (h ++ [x]) (length h).

  (* _siftup(heap, 0): bubble the smaller child up until a leaf, then siftdown the held item *)
  Fixpoint siftup_loop (fuel : nat) (h : list item) (pos : nat) : list item * nat :=
    match fuel with
    | 0 => (h, pos)
    | S f =>
        let endpos := length h in
        let childpos := 2 * pos + 1 in
        if Nat.ltb childpos endpos then
          let rightpos := childpos + 1 in
          let c := if Nat.ltb rightpos endpos && negb (lt (hget h childpos) (hget h rightpos))
                   then rightpos else childpos in
          siftup_loop f (upd h pos (hget h c)) c
        else (h, pos)
    end.

  Definition siftup (h : list item) : list item :=
    let newitem := hget h 0 in
    let '(h1, pos) := siftup_loop (length h) h 0 in
    siftdown (upd h1 pos newitem) pos.

  (* heappop: None models IndexError on the empty heap *)
  Definition heappop (h : list item) : option (item * list item) :=
    match rev h with
    | [] => None
    | lastelt :: rt =>
        let h' := rev rt in
        match h' with
        | [] => Some (lastelt, [])
        | first :: _ => Some (first, siftup (upd h' 0 lastelt))
        end
    end.
End Heap.

Inductive qop := Push (x : Z) (w : Z) | Pop | Empty | Front.
Inductive qobs := QNone | QIndexError | QItem (x : Z) (w : Z) | QBool (b : bool) | QOther.
