(* C13 - executable model of mouette/mesh/subdivision.py (after the fix: commits), over the generated
   tuples / keys / formulas of Gen.v, plus the parts of RawMeshData.prepare() that the editing block's
   __exit__ runs and the sharing of containers between the raw data and the mesh object passed in.
   Executable definitions only: no proofs here, so the model still runs when a proof breaks. *)
From Coq Require Import ZArith List Bool.
Require Import MV.Lib.Base MV.C13.Defs MV.C13.Gen.
Import ListNotations.
Open Scope Z_scope.

Section Ops.
Context {P : Type} (O : pops P).
Notation raw := (raw P).

Definition pts_of (r : raw) (f : list Z) : res (list P) := mapM (getz (rv r)) f.

(* ------------------------------------------------------------------ polyline: split_edge *)
Definition split_edge (r : raw) (e : Z) : res raw :=
  '(A, B) <- getz (re r) e ;;
  let C := Zlen (rv r) in
  pA <- getz (rv r) A ;; pB <- getz (rv r) B ;;
  Ok (mkraw (rv r ++ [se_mid O pA pB]) (updz (re r) e (se_replace A B C) ++ se_append A B C) (rf r) (rc r)).

(* ------------------------------------------------------------------ surface: fan, quad split, triangulate *)
Definition fan_faces (f : list Z) (nf iV : Z) : list (list Z) :=
  map (fun k => fan_face f k nf iV) (zrange2 (fan_lo nf) (fan_hi nf)).

Definition split_face_as_fan (r : raw) (fid : Z) : res raw :=
  f <- getz (rf r) fid ;;
  ps <- pts_of r f ;;
  let nf := Zlen f in
  if nf =? 0 then Err ZeroDivision else
  if nf <? 2 then Err IndexError else
  let iV := Zlen (rv r) in
  Ok (mkraw (rv r ++ [fan_bary O ps nf])
            (re r ++ map (fun v => fan_edge v iV) f)
            (updz (rf r) fid (fan_replace f iV) ++ fan_faces f nf iV)
            (rc r)).

Definition triangulate_face (r : raw) (fid : Z) : res raw :=
  F <- getz (rf r) fid ;;
  match tf_branch (Zlen F) with
  | 0 => Ok r
  | 1 => match F with
         | [A; B; C; D] =>
             Ok (mkraw (rv r) (re r ++ tf_quad_edges A B C D)
                       (updz (rf r) fid (tf_quad_replace A B C D) ++ tf_quad_faces A B C D) (rc r))
         | _ => Err ValueError
         end
  | _ => split_face_as_fan r fid
  end.

(* `for f in self.mesh.id_faces` : the range is taken once, faces appended meanwhile are not visited *)
Definition triangulate (r : raw) : res raw :=
  foldM (fun r f => F <- getz (rf r) f ;; if tri_needs (Zlen F) then triangulate_face r f else Ok r)
        (zrange (Zlen (rf r))) r.

(* ------------------------------------------------------------------ the midpoint table `half` *)
Definition htab := list (edge * Z).
(* dict semantics: a later assignment to the same key wins *)
Fixpoint hfind (t : htab) (k : edge) : option Z :=
  match t with
  | [] => None
  | (k', v) :: t' => match hfind t' k with Some x => Some x | None => if edge_eqb k k' then Some v else None end
  end.
Definition hget (t : htab) (k : edge) : res Z := match hfind t k with Some v => Ok v | None => Err KeyError end.

Definition half_table (key : Z -> Z -> edge) (V : Z) (es : list edge) : htab :=
  combine (map (fun e => key (fst e) (snd e)) es) (map (fun i => V + i) (zrange (Zlen es))).

Definition edge_mids (mid : P -> P -> P) (r : raw) : res (list P) :=
  mapM (fun e => pA <- getz (rv r) (fst e) ;; pB <- getz (rv r) (snd e) ;; Ok (mid pA pB)) (re r).

(* ------------------------------------------------------------------ loop_subdivision: one refinement *)
Definition loop_face (t : htab) (F : list Z) : res (list (list Z) * list edge) :=
  match F with
  | [A; B; C] =>
      let '(k1, k2, k3) := loop_keys A B C in
      mAB <- hget t k1 ;; mBC <- hget t k2 ;; mCA <- hget t k3 ;;
      Ok (loop_tris A B C mAB mBC mCA, map keyE (loop_edges A B C mAB mBC mCA))
  | _ => Err ValueError
  end.

Definition loop_step (r : raw) : res raw :=
  ms <- edge_mids (loop_mid O) r ;;
  let t := half_table loop_key (Zlen (rv r)) (re r) in
  fe <- mapM (loop_face t) (rf r) ;;
  Ok (mkraw (rv r ++ ms) (dedupE [] (flat_map snd fe)) (flat_map fst fe) []).

Fixpoint iter_res {St} (n : nat) (f : St -> res St) (s : St) : res St :=
  match n with 0%nat => Ok s | Datatypes.S k => s' <- f s ;; iter_res k f s' end.

(* ------------------------------------------------------------------ subdivide_triangles_3quads *)
Definition q3_face (t : htab) (S : Z) (F : list Z) : res (list (list Z) * list edge) :=
  match F with
  | [A; B; C] =>
      let '(k1, k2, k3) := q3_keys A B C in
      mAB <- hget t k1 ;; mBC <- hget t k2 ;; mCA <- hget t k3 ;;
      Ok (q3_quads A B C mAB mBC mCA S, q3_spokes mAB mBC mCA S)
  | _ => Err ValueError
  end.

Definition q3_core (r : raw) : res raw :=
  let V := Zlen (rv r) in
  let E := Zlen (re r) in
  ms <- edge_mids (q3_mid O) r ;;
  let t := half_table q3_key V (re r) in
  let halves := flat_map (fun ei => q3_halves (fst (fst ei)) (snd (fst ei)) (V + snd ei)) (combine (re r) (zrange E)) in
  bs <- mapM (fun F => ps <- pts_of r F ;; Ok (q3_bary O ps)) (rf r) ;;
  fe <- mapM (fun Fi => q3_face t (V + E + snd Fi) (fst Fi)) (combine (rf r) (zrange (Zlen (rf r)))) ;;
  Ok (mkraw (rv r ++ ms ++ bs) (halves ++ flat_map snd fe) (flat_map fst fe) []).

(* ------------------------------------------------------------------ the editing block of a surface *)
Inductive sop := TriFace (f : Z) | Fan (f : Z) | Triangulate | Loop (n : Z) | Quads3 | Tri6 (r : Z).

(* cur = the raw data the editor works on; while it still shares its containers with the mesh passed in
   (det = false) every edit is an edit of that mesh's containers; loop_subdivision / 3quads replace the raw
   data by a fresh object and from then on the argument keeps what it had (arg). *)
Record sstate := mkss { cur : raw; arg : raw; det : bool }.

Definition in_place (s : sstate) (f : raw -> res raw) : res sstate :=
  r <- f (cur s) ;; Ok (mkss r (if det s then arg s else r) (det s)).
Definition replacing (s : sstate) (f : raw -> res raw) : res sstate :=
  r <- f (cur s) ;; Ok (mkss r (arg s) true).

Definition quads3 (s : sstate) : res sstate :=
  s1 <- in_place s triangulate ;; replacing s1 q3_core.

Definition tri6_step (s : sstate) : res sstate :=
  foldM (fun s c => if c =? 1 then quads3 s else if c =? 2 then in_place s triangulate else Err OtherError) t6_body s.

Definition sstep (s : sstate) (o : sop) : res sstate :=
  match o with
  | TriFace f => in_place s (fun r => triangulate_face r f)
  | Fan f => in_place s (fun r => split_face_as_fan r f)
  | Triangulate => in_place s triangulate
  | Loop n => s1 <- in_place s triangulate ;; iter_res (Z.to_nat (loop_iters n)) (fun s => replacing s loop_step) s1
  | Quads3 => quads3 s
  | Tri6 r => iter_res (Z.to_nat (t6_iters r)) tri6_step s
  end.

(* ------------------------------------------------------------------ RawMeshData.prepare() as run by __exit__ *)
(* _complete_edges_from_faces *)
Definition face_edges (f : list Z) : list edge := map keyE (dedges f).
Definition complete_edges (es : list edge) (fs : list (list Z)) : list edge :=
  match fs with
  | [] => es
  | _ => es ++ dedupE (map keyE es) (flat_map face_edges fs)
  end.
(* _prepare_edges *)
Definition edge_valid (N : Z) (e : edge) : bool :=
  negb (fst e =? snd e) && (0 <=? fst e) && (fst e <? N) && (0 <=? snd e) && (snd e <? N).
(* keep[ie]: the edge is valid and - when the source drops repeated declarations (pe_drop_repeated, generated) - its
   keyified pair was not kept before *)
Fixpoint keep_flags (N : Z) (seen : list edge) (es : list edge) : list bool :=
  match es with
  | [] => []
  | e :: t => let k := keyE e in
              let ok := edge_valid N e && negb (pe_drop_repeated && mem_edge k seen) in
              ok :: keep_flags N (if ok then k :: seen else seen) t
  end.
Definition prepare_edges (N : Z) (es : list edge) : list edge * bool :=
  let ks := keep_flags N [] es in
  if forallb (fun b => b) ks then (map keyE es, false)
  else (map keyE (map fst (filter snd (combine es ks))), true).      (* true: the container was rebuilt *)
(* _generate_face_corners / _generate_cell_corners: (vertex, face) pairs *)
Definition corners (fs : list (list Z)) : list (Z * Z) :=
  flat_map (fun Fi => map (fun v => (v, snd Fi)) (fst Fi)) (combine fs (zrange (Zlen fs))).
(* _complete_faces_from_cells (tetrahedra; convention: face i does not contain vertex i) *)
Definition tet_faces (c : list Z) : list (list Z) :=
  match c with
  | [v0; v1; v2; v3] => [[v1; v3; v2]; [v0; v2; v3]; [v3; v1; v0]; [v0; v1; v2]]
  | _ => []
  end.
Fixpoint dedupF (seen : list (list Z)) (l : list (list Z)) : list (list Z) :=
  match l with
  | [] => []
  | f :: t => if existsb (lz_eqb (sortz f)) seen then dedupF seen t else f :: dedupF (sortz f :: seen) t
  end.
Definition complete_faces (fs cs : list (list Z)) : list (list Z) :=
  match cs with
  | [] => fs
  | _ => fs ++ dedupF (map sortz fs) (flat_map tet_faces cs)
  end.

Record prepared := mkprep { pr : raw; pcorn : list (Z * Z); pccorn : list (Z * Z); rebuilt : bool }.
Definition prepare (r : raw) : prepared :=
  let fs := complete_faces (rf r) (rc r) in
  let es := complete_edges (re r) fs in
  let '(es', rb) := prepare_edges (Zlen (rv r)) es in
  mkprep (mkraw (rv r) es' fs (rc r)) (corners fs) (corners (rc r)) rb.

(* ------------------------------------------------------------------ the mesh object passed in, afterwards *)
(* What its public containers hold, and what its cached connectivity tables were computed from. *)
Record argobj := mkarg { aV : list P; aE : list edge; aF : list (list Z); aC : list (list Z);
                         aCorn : list (Z * Z); aCCorn : list (Z * Z) }.

Definition surf_enter (a : raw) : sstate := mkss a a false.

Record sresult := mksres { res_mesh : prepared; res_arg : argobj; res_det : bool }.

Definition surf_exit (s : sstate) : sresult :=
  let p := prepare (cur s) in
  let corners_cleared := existsb (Z.eqb 1) surf_enter_clears in
  let a :=
    if det s then
      (* the argument kept its (partly edited) containers; its corner container was emptied on entry *)
      mkarg (rv (arg s)) (re (arg s)) (rf (arg s)) (rc (arg s)) (if corners_cleared then [] else corners (rf (arg s))) []
    else
      (* same container objects as the result - except the edge container when prepare() rebuilt it *)
      mkarg (rv (pr p))
            (if rebuilt p then complete_edges (re (cur s)) (rf (pr p)) else re (pr p))
            (rf (pr p)) (rc (pr p)) (pcorn p) []
  in mksres p a (det s).

Definition run_surface (a : raw) (ops : list sop) : res sresult :=
  s <- foldM sstep ops (surf_enter a) ;; Ok (surf_exit s).

(* Do the connectivity answers of the argument object describe its own element lists afterwards?
   If its connectivity had been queried before the block, its tables (corner ids per vertex) were computed from the
   input faces and are read against its current corner container; otherwise they are computed on demand from its
   current corner container and faces. *)
Definition faces_eqb (a b : list (list Z)) : bool := list_eqb lz_eqb a b.
Definition corn_eqb (a b : list (Z * Z)) : bool := list_eqb edge_eqb a b.
Definition arg_conn_ok (queried : bool) (a0 : raw) (a : argobj) : bool :=
  if queried then faces_eqb (aF a) (rf a0) && (Zlen (aV a) =? Zlen (rv a0)) && corn_eqb (aCorn a) (corners (rf a0))
  else corn_eqb (aCorn a) (corners (aF a)).

(* ------------------------------------------------------------------ split_double_boundary_edges_triangles *)
Definition degrees (nV : Z) (es : list edge) : list Z :=
  map (fun v => Zlen (filter (fun e => fst e =? v) es) + Zlen (filter (fun e => snd e =? v) es)) (zrange nV).

(* first vertex of the face that decides: isolated -> exception, problem -> the face is listed *)
Fixpoint sd_face (deg : list Z) (f : list Z) : res bool :=
  match f with
  | [] => Ok false
  | v :: t => d <- getz deg v ;;
              if sd_isolated d then Err OtherError else if sd_problem d then Ok true else sd_face deg t
  end.

Definition sd_faces (r : raw) : res (list Z) :=
  let deg := degrees (Zlen (rv r)) (re r) in
  bs <- mapM (sd_face deg) (rf r) ;;
  Ok (map snd (filter fst (combine bs (zrange (Zlen (rf r)))))).

(* returns the argument object itself: its containers afterwards *)
Definition split_double (a : raw) : res (prepared * bool) :=
  pb <- sd_faces a ;;
  match pb with
  | [] => Ok (mkprep a (corners (rf a)) [] false, false)
  | _ => r <- run_surface a (map Fan pb) ;; Ok (res_mesh r, true)
  end.

(* ------------------------------------------------------------------ volume editing block *)
Inductive vop := CellFan (c : Z) | FaceCentre (f : Z).

Definition split_cell_as_fan (r : raw) (cid : Z) : res raw :=
  c <- getz (rc r) cid ;;
  if cf_skip (Zlen c) then Ok r else
  match c with
  | [A; B; C; D] =>
      pA <- getz (rv r) A ;; pB <- getz (rv r) B ;; pC <- getz (rv r) C ;; pD <- getz (rv r) D ;;
      let ib := Zlen (rv r) in
      Ok (mkraw (rv r ++ [cf_bary O pA pB pC pD]) (re r) (rf r)
                (updz (rc r) cid (cf_replace A B C D ib) ++ cf_cells A B C D ib))
  | _ => Err ValueError
  end.

(* connectivity.in_cell_face_index: first i with set(cell without its i-th vertex) = set(face) *)
Fixpoint remove_nth {A} (l : list A) (i : nat) : list A :=
  match l, i with
  | [], _ => []
  | _ :: t, 0%nat => t
  | h :: t, S j => h :: remove_nth t j
  end.
Definition in_cell_face_index (cell f : list Z) : option Z :=
  find (fun i => seteqz (remove_nth cell (Z.to_nat i)) f) (zrange (Zlen cell)).

Definition fc_new_cells (cell : list Z) (iF : option Z) (ic : Z) : res (list (list Z)) :=
  mapM (fun i => if i <? Zlen cell then Ok (fc_set cell i ic) else Err IndexError)
       (filter (fun i => match iF with Some j => negb (fc_skip_i i j) | None => true end) (zrange fc_range)).

Definition fc_cell (f : list Z) (ic : Z) (cells : list (list Z)) (c : Z) : res (list (list Z)) :=
  cell <- getz cells c ;;
  nc <- fc_new_cells cell (in_cell_face_index cell f) ic ;;
  k <- getz nc fc_keep ;;
  app <- mapM (getz nc) fc_app ;;
  Ok (updz cells c k ++ app).

Definition split_tet_from_face_center (r : raw) (fid : Z) : res raw :=
  f <- getz (rf r) fid ;;
  if fc_skip (Zlen f) then Ok r else
  match f with
  | [A; B; C] =>
      let ic := Zlen (rv r) in
      ps <- pts_of r f ;;
      let adj := filter (fun c => match getz (rc r) c with Ok cell => fc_adjacent f cell | Err _ => false end)
                        (zrange (Zlen (rc r))) in
      cells <- foldM (fc_cell f ic) adj (rc r) ;;
      Ok (mkraw (rv r ++ [fc_bary O ps]) (re r) (updz (rf r) fid (fc_replace A B C ic) ++ fc_faces A B C ic) cells)
  | _ => Err ValueError
  end.

Definition vstep (r : raw) (o : vop) : res raw :=
  match o with
  | CellFan c => split_cell_as_fan r c
  | FaceCentre f => split_tet_from_face_center r f
  end.

(* the volume block never replaces the raw data: the argument's containers are the result's *)
Definition run_volume (a : raw) (ops : list vop) : res prepared :=
  r <- foldM vstep ops a ;; Ok (prepare r).

End Ops.
