(* C13 - triangulate() as a whole loop preserves oriented manifoldness and leaves only triangles, under the guard that
   the diagonals along which the quads are cut are not joined yet and are pairwise different
   (cf. C13_triangulate_nonsimple_refuted for an input outside the guard). *)
From Coq Require Import ZArith List Bool Lia Permutation.
Require Import MV.Lib.Base MV.C13.Defs MV.C13.Gen MV.C13.Model MV.C13.Proofs_Base MV.C13.Proofs_Counts MV.C13.Proofs_Topo
               MV.C13.Proofs_Accept MV.C13.Proofs_Accept2 MV.C13.Proofs_Manifold MV.C13.Proofs_Manifold2.
Import ListNotations.
Open Scope Z_scope.

Section Tri.
Context {P : Type} (O : pops P).
Notation raw := (raw P).

(* the guard: every quad's cut B-D is absent from the surface (both ways), and two different quads have different cuts *)
Definition cuts_free (fs : list (list Z)) : Prop :=
  (forall i A B C D, getz fs i = Ok [A; B; C; D] -> ~ In (B, D) (dedges_all fs) /\ ~ In (D, B) (dedges_all fs)) /\
  (forall i j A B C D A' B' C' D', i <> j -> getz fs i = Ok [A; B; C; D] -> getz fs j = Ok [A'; B'; C'; D'] ->
     keyify2 B D <> keyify2 B' D').

Lemma getz_updz_app_other {A} (l : list A) k v ex i : 0 <= k -> i <> k -> 0 <= i < Zlen l -> getz (updz l k v ++ ex) i = getz l i.
Proof.
  intros Hk Hne Hi. unfold getz. destruct (i <? 0) eqn:E; [lia|]. unfold updz.
  rewrite nth_error_app1 by (rewrite upd_length; unfold Zlen in Hi; lia).
  rewrite nth_error_upd_neq by lia. reflexivity.
Qed.

(* state of the loop after the faces 0..k-1 have been visited *)
Record tri_state (r0 : raw) (n0 k : Z) (r : raw) : Prop := {
  ts_or : oriented_poly (nV r) (rf r);
  ts_nv : nV r0 <= nV r;
  ts_nf : n0 <= nF r;
  ts_same : forall i, k <= i < n0 -> getz (rf r) i = getz (rf r0) i;
  ts_tri : forall i F, getz (rf r) i = Ok F -> i < k \/ n0 <= i -> Zlen F = 3;
  ts_edges : forall e, In e (dedges_all (rf r)) ->
     In e (dedges_all (rf r0)) \/
     (exists j A B C D, j < k /\ getz (rf r0) j = Ok [A; B; C; D] /\ (e = (B, D) \/ e = (D, B))) \/
     nV r0 <= fst e \/ nV r0 <= snd e }.

Lemma tri_state_step (r0 : raw) k r :
  oriented_poly (nV r0) (rf r0) -> cuts_free (rf r0) ->
  0 <= k < nF r0 -> tri_state r0 (nF r0) k r ->
  exists r', tri_step O r k = Ok r' /\ tri_state r0 (nF r0) (k + 1) r'.
Proof.
  intros Hor0 [Hfree Hdist] Hk St. destruct St as [Hor Hnv Hnf Hsame Htri Hedges].
  unfold tri_step. assert (Hr : 0 <= k < nF r) by lia.
  destruct (getz_total (rf r) k Hr) as [F HF]. rewrite HF. cbn [bind].
  assert (HF0 : getz (rf r0) k = Ok F) by (rewrite <- Hsame; auto; lia).
  pose proof (getz_In _ _ _ HF) as HIn. destruct Hor as [Hnd Hf]. pose proof Hf as Hf'. rewrite Forall_forall in Hf.
  destruct (Hf F HIn) as [L [HnF HvF]].
  unfold tri_needs. destruct (Zlen F =? 3) eqn:E3; cbn [negb].
  - (* already a triangle *)
    exists r. split; auto. constructor; auto.
    + split; auto.
    + intros i Hi. apply Hsame. lia.
    + intros i G HG Hi. destruct (Z.eq_dec i k) as [->|Hne]; [rewrite HF in HG; inversion HG; subst; lia|]. apply (Htri i G HG). lia.
    + intros e He. destruct (Hedges e He) as [H|[[j [A [B [C [D [Hj H]]]]]]|H]]; auto. right. left. exists j, A, B, C, D. split; [lia|exact H].
  - unfold triangulate_face. rewrite HF. cbn [bind]. unfold tf_branch. destruct (Zlen F <? 4) eqn:E4; [lia|].
    destruct (Zlen F =? 4) eqn:E44.
    + (* a quad: its cut is free at this moment *)
      apply Z.eqb_eq in E44. destruct F as [|A [|B [|C [|D [|? ?]]]]]; try (unfold Zlen in E44; cbn [length] in E44; lia).
      destruct (Hfree k A B C D HF0) as [N1 N2].
      assert (VB : vert_ok (nV r0) B /\ vert_ok (nV r0) D).
      { destruct Hor0 as [_ Hf0]. rewrite Forall_forall in Hf0. destruct (Hf0 _ (getz_In _ _ _ HF0)) as [_ [_ Hv]].
        rewrite Forall_forall in Hv. split; apply Hv; cbn; auto. }
      destruct VB as [VB VD]. unfold vert_ok in VB, VD.
      assert (Nfree : forall p q, (p = B /\ q = D) \/ (p = D /\ q = B) -> ~ In (p, q) (dedges_all (rf r))).
      { intros p q Hpq Hin. destruct (Hedges _ Hin) as [H|[[j [A' [B' [C' [D' [Hj [Hq He]]]]]]]|H]].
        - destruct Hpq as [[-> ->]|[-> ->]]; contradiction.
        - apply (Hdist j k A' B' C' D' A B C D ltac:(lia) Hq HF0).
          destruct Hpq as [[-> ->]|[-> ->]]; destruct He as [E|E]; inversion E; subst; auto using keyify2_comm.
        - cbn [fst snd] in H. destruct Hpq as [[-> ->]|[-> ->]]; lia. }
      set (r' := mkraw (rv r) (re r ++ tf_quad_edges A B C D) (updz (rf r) k (tf_quad_replace A B C D) ++ tf_quad_faces A B C D) (rc r)).
      exists r'. split; [reflexivity|].
      assert (Hor' : oriented_poly (nV r') (rf r')).
      { apply (quad_split_oriented O r r' k A B C D HF).
        - unfold triangulate_face. rewrite HF. cbn [bind]. change (tf_branch (Zlen [A; B; C; D])) with 1. reflexivity.
        - apply Nfree. auto.
        - apply Nfree. auto.
        - split; auto. }
      assert (Hp : Permutation (dedges_all (rf r')) (dedges_all (rf r) ++ [(B, D); (D, B)])).
      { apply (rewrite_dedges (rf r) k [A; B; C; D] (tf_quad_replace A B C D) (tf_quad_faces A B C D) [(B, D); (D, B)] HF). apply quad_local. }
      constructor; auto.
      * unfold r', nF. cbn [rf]. rewrite Zlen_app, Zlen_updz. pose proof (Zlen_nonneg (tf_quad_faces A B C D)). unfold nF in *. lia.
      * intros i Hi. unfold r'. cbn [rf]. rewrite getz_updz_app_other by (unfold nF in *; lia). apply Hsame. lia.
      * intros i G HG Hi. unfold r' in HG. cbn [rf] in HG. apply getz_rewrite in HG; [|exact Hr].
        destruct HG as [[-> ->]|[[Hne HG]|[Hge HG]]]; [reflexivity|apply (Htri i G HG); lia|].
        cbn in HG. destruct HG as [<-|[]]. reflexivity.
      * intros e He. apply (Permutation_in _ Hp) in He. apply in_app_or in He as [He|He].
        -- destruct (Hedges e He) as [H|[[j [A' [B' [C' [D' [Hj H]]]]]]|H]]; auto. right. left. exists j, A', B', C', D'. split; [lia|exact H].
        -- right. left. exists k, A, B, C, D. split; [lia|]. split; auto. cbn in He. intuition.
    + (* a polygon with more than four sides: fanned around a new vertex *)
      assert (HWFfan : exists r', split_face_as_fan O r k = Ok r').
      { unfold split_face_as_fan. rewrite HF. cbn [bind].
        destruct (pts_of_total r F HvF) as [ps Hps]. rewrite Hps. cbn [bind].
        destruct (Zlen F =? 0) eqn:E0; [lia|]. destruct (Zlen F <? 2) eqn:E2; [lia|]. eauto. }
      destruct HWFfan as [r' Hfan]. exists r'. split; auto.
      pose proof (fan_oriented O r r' k Hfan (conj Hnd Hf')) as Hor'.
      destruct (fan_counts O r k r' F HF Hfan) as [Cv [_ Cf]].
      unfold split_face_as_fan in Hfan. rewrite HF in Hfan. cbn [bind] in Hfan. apply bind_Ok in Hfan as [ps [_ Hfan]].
      destruct (Zlen F =? 0) eqn:E0; [discriminate|]. destruct (Zlen F <? 2) eqn:E2; [discriminate|].
      assert (Hrf : rf r' = updz (rf r) k (fan_replace F (Zlen (rv r))) ++ fan_faces F (Zlen F) (Zlen (rv r))) by (inversion Hfan; reflexivity).
      assert (Hspec := fan_faces_spec F (Zlen (rv r)) ltac:(lia)).
      assert (Hnew3 : Forall (fun T => Zlen T = 3) (fan_replace F (Zlen (rv r)) :: fan_faces F (Zlen F) (Zlen (rv r)))).
      { rewrite Hspec. apply Forall_forall. intros T HT. apply in_map_iff in HT as [e [<- _]]. reflexivity. }
      inversion Hnew3 as [|? ? T0 Ts]; subst.
      assert (Hp : Permutation (dedges_all (rf r'))
                     (dedges_all (rf r) ++ map (fun e => (snd e, Zlen (rv r))) (dedges F) ++ map (fun e => (Zlen (rv r), fst e)) (dedges F))).
      { rewrite Hrf. apply (rewrite_dedges (rf r) k F _ _ _ HF). apply (fan_local F (Zlen (rv r))). lia. }
      constructor; auto.
      * lia.
      * lia.
      * intros i Hi. rewrite Hrf. rewrite getz_updz_app_other by (unfold nF in *; lia). apply Hsame. lia.
      * intros i G HG Hi. rewrite Hrf in HG. apply getz_rewrite in HG; [|exact Hr].
        destruct HG as [[-> ->]|[[Hne HG]|[Hge HG]]]; [exact T0|apply (Htri i G HG); lia|]. rewrite Forall_forall in Ts. auto.
      * intros e He. apply (Permutation_in _ Hp) in He. apply in_app_or in He as [He|He].
        -- destruct (Hedges e He) as [H|[[j [A' [B' [C' [D' [Hj H]]]]]]|H]]; auto. right. left. exists j, A', B', C', D'. split; [lia|exact H].
        -- right. right. unfold nV in *. apply in_app_or in He as [He|He]; apply in_map_iff in He as [x [<- _]]; cbn [fst snd]; lia.
Qed.

Lemma tri_state_fold (r0 : raw) (d : nat) k r :
  oriented_poly (nV r0) (rf r0) -> cuts_free (rf r0) ->
  0 <= k -> k + Z.of_nat d = nF r0 -> tri_state r0 (nF r0) k r ->
  exists r', foldM (tri_step O) (map Z.of_nat (seq (Z.to_nat k) d)) r = Ok r' /\ tri_state r0 (nF r0) (nF r0) r'.
Proof.
  intros Hor0 Hfree. revert k r. induction d as [|d IH]; intros k r Hk Hd St.
  - cbn. exists r. split; auto. replace (nF r0) with k at 2 by lia. exact St.
  - cbn [seq map foldM]. rewrite Z2Nat.id by lia.
    destruct (tri_state_step r0 k r Hor0 Hfree ltac:(lia) St) as [r1 [H1 St1]]. rewrite H1. cbn [bind].
    replace (S (Z.to_nat k)) with (Z.to_nat (k + 1)) by lia. apply IH; auto; lia.
Qed.

Theorem triangulate_oriented (r r' : raw) :
  triangulate O r = Ok r' -> oriented_poly (nV r) (rf r) -> cuts_free (rf r) ->
  oriented_tri (nV r') (rf r').
Proof.
  intros H Hor Hfree. unfold triangulate in H. fold (tri_step O) in H.
  destruct (tri_state_fold r (Z.to_nat (nF r)) 0 r Hor Hfree ltac:(lia)) as [r1 [H1 St]].
  - pose proof (Zlen_nonneg (rf r)). unfold nF. lia.
  - constructor; auto; try lia.
    + intros i F HG Hi. apply getz_Ok in HG as [HG _]. unfold nF in *. lia.
  - unfold zrange in H. change (seq 0 (Z.to_nat (Zlen (rf r)))) with (seq (Z.to_nat 0) (Z.to_nat (nF r))) in H.
    rewrite H1 in H. inversion H; subst r1. destruct St as [[Hnd Hf] _ _ _ Htri _]. split; auto.
    apply Forall_forall. intros F HF. rewrite Forall_forall in Hf. destruct (Hf F HF) as [_ [Hn Hv]]. split; auto.
    apply In_nth_error in HF as [n Hn']. apply (Htri (Z.of_nat n) F); [now apply getz_of_nat|lia].
Qed.

(* ------------------------------------------------------------------ subdivide_triangles_6, one round: 3 quads per triangle,
   then every quad cut along the diagonal joining its two edge midpoints *)
Definition quad_of_corner (m : edge -> Z) (S : Z) (c : Z * Z * Z) : list Z :=
  let '(P0, Q, R) := c in [Q; m (Q, R); S; m (P0, Q)].

Lemma q3_quads_kinds (m : edge -> Z) A B C S T :
  In T (q3_quads A B C (m (A, B)) (m (B, C)) (m (C, A)) S) ->
  exists c, In c (tri_corners [A; B; C]) /\ T = quad_of_corner m S c.
Proof.
  cbn. intros [<-|[<-|[<-|[]]]].
  - exists (C, A, B). cbn. auto.
  - exists (A, B, C). cbn. auto.
  - exists (B, C, A). cbn. auto.
Qed.

Lemma q3_core_faces (r r' : raw) :
  q3_core O r = Ok r' -> Forall (fun F => Zlen F = 3) (rf r) ->
  forall T, In T (rf r') -> exists F S c, In (F, S) (bary_ids r) /\ In c (tri_corners F) /\ T = quad_of_corner (q3_mid_of r) S c.
Proof.
  intros H Ht T HT. unfold q3_core in H. apply bind_Ok in H as [ms [_ H]]. apply bind_Ok in H as [bs [_ H]].
  apply bind_Ok in H as [fe [Hfe H]]. inversion H; subst r'; clear H. cbn [rf] in HT.
  apply in_flat_map in HT as [p [Hp HT]]. apply mapM_Forall2 in Hfe.
  destruct (Forall2_In_r _ _ _ _ Hfe Hp) as [[F i] [HFi HpF]]. cbn [fst snd] in HpF.
  pose proof (in_combine_l _ _ _ _ HFi) as HF. rewrite Forall_forall in Ht. destruct (tri_shape F (Ht F HF)) as [A [B [C ->]]].
  unfold q3_face, q3_keys in HpF.
  apply bind_Ok in HpF as [m1 [H1 HpF]]. apply bind_Ok in HpF as [m2 [H2 HpF]]. apply bind_Ok in HpF as [m3 [H3 HpF]].
  inversion HpF; subst p; clear HpF. cbn [fst] in HT.
  assert (E1 : q3_mid_of r (A, B) = m1) by (unfold q3_mid_of, mf; rewrite keyE_pair; apply (hget_hv _ _ _ H1)).
  assert (E2 : q3_mid_of r (B, C) = m2) by (unfold q3_mid_of, mf; rewrite keyE_pair; apply (hget_hv _ _ _ H2)).
  assert (E3 : q3_mid_of r (C, A) = m3) by (unfold q3_mid_of, mf; rewrite keyE_pair; apply (hget_hv _ _ _ H3)).
  rewrite <- E1, <- E2, <- E3 in HT. destruct (q3_quads_kinds _ _ _ _ _ _ HT) as [c [Hc ->]].
  exists [A; B; C], (Zlen (rv r) + Zlen (re r) + i), c. split; auto.
  unfold bary_ids. rewrite combine_map_r. apply in_map_iff. exists ([A; B; C], i). auto.
Qed.

Lemma NoDup_app_tail {A} (l l' : list A) : NoDup (l ++ l') -> NoDup l'.
Proof. induction l as [|a t IH]; cbn; auto. intros H. inversion H; auto. Qed.

Lemma shared_dedge (fs : list (list Z)) i j F G e :
  i <> j -> getz fs i = Ok F -> getz fs j = Ok G -> In e (dedges F) -> In e (dedges G) -> ~ NoDup (dedges_all fs).
Proof.
  intros Hne Hi Hj HF HG Hn. apply getz_Ok in Hi as [Hi0 Hi]. apply getz_Ok in Hj as [Hj0 Hj].
  assert (K : forall (l : list (list Z)) a b F G, (a < b)%nat -> nth_error l a = Some F -> nth_error l b = Some G ->
              In e (dedges F) -> In e (dedges G) -> ~ NoDup (dedges_all l)).
  { clear. induction l as [|H l IH]; intros a b F G Hab Ha Hb HF HG Hn; [destruct a; discriminate|].
    unfold dedges_all in Hn. cbn [flat_map] in Hn. destruct a as [|a].
    - cbn in Ha. inversion Ha; subst H. destruct b as [|b]; [lia|]. cbn in Hb. apply nth_error_In in Hb.
      assert (Hrest : In e (flat_map dedges l)) by (apply in_flat_map; eauto).
      clear -HF Hrest Hn. induction (dedges F) as [|x es IHes]; [contradiction|]. cbn in Hn. inversion Hn; subst.
      destruct HF as [->|HF]; [apply H1; apply in_or_app; auto|auto].
    - destruct b as [|b]; [lia|]. cbn in Ha, Hb. apply (IH a b F G); auto; [lia|]. apply NoDup_app_tail in Hn. exact Hn. }
  destruct (Z_lt_le_dec i j) as [L|L]; [apply (K fs (Z.to_nat i) (Z.to_nat j) F G); auto; lia|apply (K fs (Z.to_nat j) (Z.to_nat i) G F); auto; lia].
Qed.

Theorem q3_cuts_free (r r' : raw) :
  q3_core O r = Ok r' -> Forall (covered (re r)) (rf r) -> oriented_tri (nV r) (rf r) -> simple_tri (rf r) ->
  cuts_free (rf r').
Proof.
  intros H Hc Hor Hs. pose proof (q3_mid_of_ok r Hc) as Hm. set (m := q3_mid_of r) in *.
  pose proof (q3_core_oriented O r r' H Hc Hor) as [Hnd' _].
  pose proof (q3_core_dedges O r r' H m (bary_ids r) eq_refl eq_refl) as Hperm.
  assert (Ht : Forall (fun F => Zlen F = 3) (rf r)) by (destruct Hor as [_ Hf]; eapply Forall_impl; [|exact Hf]; intros F [L _]; exact L).
  (* a quad of the result: corner (P,Q,R) of an old face, its two midpoints lie in [nV, nV+nE) *)
  assert (Hquad : forall i a b c d, getz (rf r') i = Ok [a; b; c; d] ->
            exists P0 Q R, In (P0, Q, R) (all_corners (rf r)) /\ [a; b; c; d] = quad_of_corner m c (P0, Q, R)).
  { intros i a b c d Hq. destruct (q3_core_faces r r' H Ht _ (getz_In _ _ _ Hq)) as [F [S [[[P0 Q] R] [Hin [Hcor E]]]]].
    exists P0, Q, R. split; [unfold all_corners; apply in_flat_map; exists F; split; auto; unfold bary_ids in Hin; eapply in_combine_l; eauto|].
    rewrite E. cbn in E |- *. inversion E; subst. reflexivity. }
  assert (Hrange : forall e, In e (dedges_all (rf r)) -> nV r <= m e < nV r + nE r) by (apply (m_range r m Hm)).
  split.
  - intros i a b c d Hq. destruct (Hquad i a b c d Hq) as [P0 [Q [R [Hcor E]]]]. cbn in E. inversion E; subst.
    destruct (corner_facts r Hor _ _ _ Hcor) as [_ [_ [_ [I1 [I2 _]]]]]. pose proof (Hrange _ I1) as R1. pose proof (Hrange _ I2) as R2.
    assert (G : forall p q, nV r <= p < nV r + nE r -> nV r <= q < nV r + nE r -> ~ In (p, q) (dedges_all (rf r'))).
    { intros p q Hp Hq' Hin. apply (Permutation_in _ Hperm) in Hin. apply in_app_or in Hin as [Hin|Hin].
      - apply (halves_low r m Hor) in Hin. cbn [fst snd] in Hin. lia.
      - assert (Hsp : forall e, In e (flat_map (spokes m) (bary_ids r)) -> nV r + nE r <= snd e).
        { intros e He. apply in_flat_map in He as [[F S] [HinF He]].
          assert (HS : nV r + nE r <= S).
          { unfold bary_ids in HinF. apply in_combine_r in HinF. apply in_map_iff in HinF as [k [<- Hk]]. apply In_zrange in Hk. unfold nV, nE. lia. }
          unfold spokes in He. cbn [fst snd] in He. destruct F as [|x [|y [|z [|? ?]]]]; try contradiction.
          cbn in He. destruct He as [<-|[<-|[<-|[]]]]; cbn; lia. }
        apply in_app_or in Hin as [Hin|Hin].
        + apply Hsp in Hin. cbn in Hin. lia.
        + apply in_map_iff in Hin as [[u v] [E' Hin]]. apply Hsp in Hin. unfold swap in E'. cbn in E', Hin. inversion E'; subst. lia. }
    split; apply G; auto.
  - intros i j a b c d a' b' c' d' Hne Hq Hq' Ek.
    destruct (Hquad i a b c d Hq) as [P0 [Q [R [Hcor E]]]]. destruct (Hquad j a' b' c' d' Hq') as [P0' [Q' [R' [Hcor' E']]]].
    cbn in E, E'. inversion E; subst. inversion E'; subst. clear E E'.
    destruct (corner_facts r Hor _ _ _ Hcor) as [N1 [N2 [N3 [I1 [I2 I3]]]]]. destruct (corner_facts r Hor _ _ _ Hcor') as [N1' [N2' [N3' [I1' [I2' I3']]]]].
    assert (K : forall u v u' v', In (u, v) (dedges_all (rf r)) -> In (u', v') (dedges_all (rf r)) -> m (u, v) = m (u', v') ->
                (u = u' /\ v = v') \/ (u = v' /\ v = u')).
    { intros u v u' v' J1 J2 Em. pose proof (m_inj r m Hm _ _ J1 J2 Em) as Kk. rewrite !keyE_pair in Kk. now apply keyify2_eq in Kk. }
    apply keyify2_eq in Ek. destruct Ek as [[E1 E2]|[E1 E2]].
    + (* same two sides in the same roles: the same corner, hence the same quad at two positions *)
      destruct (K _ _ _ _ I2 I2' E1) as [[? ?]|[? ?]]; destruct (K _ _ _ _ I1 I1' E2) as [[? ?]|[? ?]]; subst; try congruence.
      apply (shared_dedge (rf r') i j _ _ (Q', m (Q', R')) Hne Hq Hq'); [cbn; auto|cbn; auto|exact Hnd'].
    + (* the two sides in exchanged roles: the other quad sits at the reversed corner *)
      destruct (K _ _ _ _ I2 I1' E1) as [[? ?]|[? ?]]; destruct (K _ _ _ _ I1 I2' E2) as [[? ?]|[? ?]]; subst; try congruence.
      apply (Hs _ _ _ Hcor). exact Hcor'.
Qed.

(* one round of subdivide_triangles_6 on an oriented simple triangle surface *)
Theorem tri6_step_oriented (s s' : @sstate P) :
  tri6_step O s = Ok s' ->
  WF (cur s) -> oriented_tri (nV (cur s)) (rf (cur s)) -> simple_tri (rf (cur s)) ->
  oriented_tri (nV (cur s')) (rf (cur s')).
Proof.
  unfold tri6_step, t6_body. cbn [foldM Z.eqb Pos.eqb]. intros H HW Hor Hs.
  apply bind_Ok in H as [s1 [H1 H]]. apply bind_Ok in H as [s2 [H2 H]]. inversion H; subst s2; clear H.
  unfold quads3 in H1. apply bind_Ok in H1 as [s0 [H0 H1]].
  unfold in_place in H0. rewrite (triangulate_tri_id O (cur s) (oriented_all_tri _ _ Hor)) in H0. cbn [bind] in H0.
  inversion H0; subst s0; clear H0. unfold replacing in H1. cbn [cur] in H1. apply bind_Ok in H1 as [r1 [Hq H1]].
  inversion H1; subst s1; clear H1. unfold in_place in H2. cbn [cur] in H2. apply bind_Ok in H2 as [r2 [Ht H2]].
  inversion H2; subst s'; clear H2. cbn [cur].
  destruct HW as [_ [_ Hc]].
  apply (triangulate_oriented r1 r2 Ht).
  - apply (q3_core_oriented O _ _ Hq Hc Hor).
  - apply (q3_cuts_free _ _ Hq Hc Hor Hs).
Qed.

End Tri.
