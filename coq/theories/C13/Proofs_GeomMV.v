(* C13 - geometry over an arbitrary field in which 2 and 3 are invertible (and n, for the fan of an n-gon):
   every new vertex is the stated midpoint / barycentre (GENERATED formulas), the pieces of a triangle are
   coplanar, co-oriented fixed fractions of it (vector area), vector area is additive for the quad split and for
   the fan of any polygon around any apex, signed volume is additive for the two tetrahedral splits. *)
From Coq Require Import ZArith List Bool Lia Field Permutation.
Require Import MV.Lib.Base MV.C13.Defs MV.C13.Geom MV.C13.Gen MV.C13.Model MV.C13.Proofs_Base MV.C13.Proofs_Counts MV.C13.Proofs_Topo
               MV.C13.Proofs_Accept MV.C13.Proofs_Accept2 MV.C13.Proofs_Manifold MV.C13.Proofs_Manifold2 MV.C13.Proofs_Pos MV.C13.Proofs_Vol MV.C13.Proofs_GeomV.
Import ListNotations.

Section Geometry.
Variable F : Type.
Variables (f0 f1 : F) (fadd fmul fsub : F -> F -> F) (fopp : F -> F) (fdiv : F -> F -> F) (finv : F -> F).
Hypothesis Fth : field_theory f0 f1 fadd fmul fsub fopp fdiv finv (@eq F).
Add Field Ffield : Fth.

Notation "0" := f0. Notation "1" := f1.
Infix "+" := fadd. Infix "*" := fmul. Infix "-" := fsub. Infix "/" := fdiv.
Notation vec := (vec F).
Notation fz := (fz F f0 f1 fadd fopp).
Notation FO := (fieldO F f0 f1 fadd fopp fdiv).
Notation vadd := (vadd F fadd).
Notation vsub := (vsub F fsub).
Notation vscale := (vscale F fmul).
Notation cross := (cross F fmul fsub).
Notation varea2 := (varea2 F f0 fadd fmul fsub).
Notation vol6 := (vol6 F fadd fmul fsub).
Notation vsum := (vsum F f0 fadd).

Notation two := (Geom.two F f1 fadd).
Notation three := (Geom.three F f1 fadd).
Notation four := (Geom.four F f1 fadd).
Hypothesis two_nz : two <> 0.
Hypothesis three_nz : three <> 0.

Lemma fz2 : fz 2 = 1 + (1 + 0). Proof. reflexivity. Qed.
Lemma fz3 : fz 3 = 1 + (1 + (1 + 0)). Proof. reflexivity. Qed.
Lemma fz4 : fz 4 = 1 + (1 + (1 + (1 + 0))). Proof. reflexivity. Qed.
Lemma two_nz' : 1 + (1 + 0) <> 0.
Proof. intros H. apply two_nz. unfold Geom.two. rewrite <- H. ring. Qed.
Lemma three_nz' : 1 + (1 + (1 + 0)) <> 0.
Proof. intros H. apply three_nz. unfold Geom.three. rewrite <- H. ring. Qed.
Lemma four_nz' : 1 + (1 + (1 + (1 + 0))) <> 0.
Proof.
  intros H. apply two_nz. unfold Geom.two.
  assert (E : (1 + 1) * (1 + 1) = 0) by (rewrite <- H; ring).
  transitivity ((1 + 1) * (1 + 1) / (1 + 1)); [field; exact two_nz|]. rewrite E. field. exact two_nz.
Qed.

Ltac nz := repeat split; try assumption;
  match goal with H : ?y <> 0 |- ?x <> 0 => solve [let E := fresh in intro E; apply H; transitivity x; [ring | exact E]] end.
Ltac vec_eq := unfold Geom.vadd, Geom.vsub, Geom.vscale, Geom.vdivz, Geom.cross, Geom.vx, Geom.vy, Geom.vz; cbn [fst snd];
               rewrite ?fz2, ?fz3, ?fz4;
               try match goal with |- (_, _, _) = (_, _, _) => f_equal; [f_equal|] end.



(* ------------------------------------------------------------------ total signed volume of the MODEL's output: cell fan *)
Notation rawF := (raw vec).
Definition posr (r : rawF) (v : Z) : vec := match getz (rv r) v with Ok p => p | Err _ => v0 F f0 end.
Definition fsum (l : list F) : F := fold_right fadd 0 l.
Definition total_volume (r : rawF) : F := fsum (map (Geom.vol_of F f0 fadd fmul fsub (posr r)) (rc r)).

Lemma fsum_app l l' : fsum (l ++ l') = fsum l + fsum l'.
Proof.
  induction l as [|x t IH]; cbn [app].
  - change (fsum []) with 0. ring.
  - change (fsum (x :: t ++ l')) with (x + fsum (t ++ l')). change (fsum (x :: t)) with (x + fsum t). rewrite IH. ring.
Qed.

Theorem cell_fan_total_volume (r r' : rawF) c A B C D :
  getz (rc r) c = Ok [A; B; C; D] -> split_cell_as_fan FO r c = Ok r' -> WFv r ->
  total_volume r' = total_volume r.
Proof.
  intros Hc H [Hcells _].
  destruct (cell_fan_vertices FO r r' c A B C D Hc H) as [pA [pB [pC [pD [HA [HB [HC [HD [Hv Hrc]]]]]]]]].
  unfold total_volume. rewrite Hrc. set (pos' := posr r'). set (pos := posr r).
  assert (Hold : forall v, vert_ok (nV r) v -> pos' v = pos v).
  { intros v Hvv. unfold pos', pos, posr. rewrite Hv. destruct (getz_total (rv r) v Hvv) as [p Hp]. now rewrite (getz_app_l _ _ _ _ Hp), Hp. }
  assert (Hcell : forall cell, In cell (rc r) -> Geom.vol_of F f0 fadd fmul fsub pos' cell = Geom.vol_of F f0 fadd fmul fsub pos cell).
  { intros cell Hin. rewrite Forall_forall in Hcells. destruct (Hcells cell Hin) as [_ Hvs]. unfold Geom.vol_of. f_equal.
    apply map_ext_in. intros v Hvin. rewrite Forall_forall in Hvs. apply Hold. auto. }
  destruct (updz_split (rc r) c [A; B; C; D] (cf_replace A B C D (nV r)) Hc) as [l1 [l2 [E1 E2]]]. rewrite E2, E1.
  rewrite !map_app, !fsum_app. cbn [map fsum fold_right].
  assert (Hl1 : map (Geom.vol_of F f0 fadd fmul fsub pos') l1 = map (Geom.vol_of F f0 fadd fmul fsub pos) l1).
  { apply map_ext_in. intros x Hx. apply Hcell. rewrite E1. apply in_or_app. auto. }
  assert (Hl2 : map (Geom.vol_of F f0 fadd fmul fsub pos') l2 = map (Geom.vol_of F f0 fadd fmul fsub pos) l2).
  { apply map_ext_in. intros x Hx. apply Hcell. rewrite E1. apply in_or_app. right. right. auto. }
  rewrite Hl1, Hl2.
  destruct (C13_cell_fan_volume F f0 f1 fadd fmul fsub fopp fdiv finv Fth two_nz pos' A B C D (nV r)) as [Hsum _].
  cbn zeta in Hsum. unfold cf_cells in Hsum |- *. cbn [map fold_right] in Hsum |- *.
  assert (Hpar : Geom.vol_of F f0 fadd fmul fsub pos' [A; B; C; D] = Geom.vol_of F f0 fadd fmul fsub pos [A; B; C; D]).
  { apply Hcell. eapply getz_In; eauto. }
  rewrite Hpar in Hsum. rewrite <- Hsum. unfold fsum. cbn [fold_right]. ring.
Qed.

End Geometry.
