(* C13 - geometry over an arbitrary field in which 2 and 3 are invertible (and n, for the fan of an n-gon):
   every new vertex is the stated midpoint / barycentre (GENERATED formulas), the pieces of a triangle are
   coplanar, co-oriented fixed fractions of it (vector area), vector area is additive for the quad split and for
   the fan of any polygon around any apex, signed volume is additive for the two tetrahedral splits. *)
From Coq Require Import ZArith List Bool Lia Field Permutation.
Require Import MV.Lib.Base MV.C13.Defs MV.C13.Geom MV.C13.Gen MV.C13.Model MV.C13.Proofs_Base MV.C13.Proofs_Counts MV.C13.Proofs_Topo
               MV.C13.Proofs_Accept MV.C13.Proofs_Accept2 MV.C13.Proofs_Manifold MV.C13.Proofs_Pos MV.C13.Proofs_Comp MV.C13.Proofs_Geom.
Import ListNotations.

Section Geometry.
Variable F : Type.
Variables (f0 f1 : F) (fadd fmul fsub : F -> F -> F) (fopp : F -> F) (fdiv : F -> F -> F) (finv : F -> F).
Hypothesis Fth : field_theory f0 f1 fadd fmul fsub fopp fdiv finv (@eq F).
Add Field Ffield : Fth.

Notation "0" := f0. Notation "1" := f1.
Infix "+" := fadd. Infix "*" := fmul. Infix "-" := fsub. Infix "/" := fdiv.
Notation vec := (vec F).
Notation fz := (fz F f0 f1 fadd fopp).
Notation FO := (fieldO F f0 f1 fadd fopp fdiv).
Notation vadd := (vadd F fadd).
Notation vsub := (vsub F fsub).
Notation vscale := (vscale F fmul).
Notation cross := (cross F fmul fsub).
Notation varea2 := (varea2 F f0 fadd fmul fsub).
Notation vol6 := (vol6 F fadd fmul fsub).
Notation vsum := (vsum F f0 fadd).

Notation two := (Geom.two F f1 fadd).
Notation three := (Geom.three F f1 fadd).
Notation four := (Geom.four F f1 fadd).
Hypothesis two_nz : two <> 0.
Hypothesis three_nz : three <> 0.

Lemma fz2 : fz 2 = 1 + (1 + 0). Proof. reflexivity. Qed.
Lemma fz3 : fz 3 = 1 + (1 + (1 + 0)). Proof. reflexivity. Qed.
Lemma fz4 : fz 4 = 1 + (1 + (1 + (1 + 0))). Proof. reflexivity. Qed.
Lemma two_nz' : 1 + (1 + 0) <> 0.
Proof. intros H. apply two_nz. unfold Geom.two. rewrite <- H. ring. Qed.
Lemma three_nz' : 1 + (1 + (1 + 0)) <> 0.
Proof. intros H. apply three_nz. unfold Geom.three. rewrite <- H. ring. Qed.
Lemma four_nz' : 1 + (1 + (1 + (1 + 0))) <> 0.
Proof.
  intros H. apply two_nz. unfold Geom.two.
  assert (E : (1 + 1) * (1 + 1) = 0) by (rewrite <- H; ring).
  transitivity ((1 + 1) * (1 + 1) / (1 + 1)); [field; exact two_nz|]. rewrite E. field. exact two_nz.
Qed.

Ltac nz := repeat split; try assumption;
  match goal with H : ?y <> 0 |- ?x <> 0 => solve [let E := fresh in intro E; apply H; transitivity x; [ring | exact E]] end.
Ltac vec_eq := unfold Geom.vadd, Geom.vsub, Geom.vscale, Geom.vdivz, Geom.cross, Geom.vx, Geom.vy, Geom.vz; cbn [fst snd];
               rewrite ?fz2, ?fz3, ?fz4;
               try match goal with |- (_, _, _) = (_, _, _) => f_equal; [f_equal|] end.


(* ------------------------------------------------------------------ total vector area of the MODEL's output *)
Notation rawF := (raw vec).
Definition posr (r : rawF) (v : Z) : vec := match getz (rv r) v with Ok p => p | Err _ => v0 F f0 end.
Definition total_area (r : rawF) : vec := vsum (map (Geom.area_of F f0 fadd fmul fsub (posr r)) (rf r)).

Lemma vadd_comm' (a b : vec) : vadd a b = vadd b a.
Proof. destruct a as [[? ?] ?], b as [[? ?] ?]. vec_eq; ring. Qed.
Lemma loop_mid_comm (a b : vec) : loop_mid FO a b = loop_mid FO b a.
Proof. unfold loop_mid. cbn [pdivz padd fieldO]. now rewrite vadd_comm'. Qed.

Lemma vsum_app' l l' : vsum (l ++ l') = vadd (vsum l) (vsum l').
Proof.
  induction l as [|x t IH]; cbn [app].
  - change (vsum []) with (v0 F f0). destruct (vsum l') as [[? ?] ?]. unfold v0. vec_eq; ring.
  - change (vsum (x :: t ++ l')) with (vadd x (vsum (t ++ l'))). change (vsum (x :: t)) with (vadd x (vsum t)). rewrite IH.
    destruct x as [[? ?] ?], (vsum t) as [[? ?] ?], (vsum l') as [[? ?] ?]. vec_eq; ring.
Qed.

Lemma quarters_sum (a t1 t2 t3 t4 : vec) :
  vscale four t1 = a -> vscale four t2 = a -> vscale four t3 = a -> vscale four t4 = a ->
  vsum [t1; t2; t3; t4] = a.
Proof.
  intros H1 H2 H3 H4. pose proof two_nz' as Hn. pose proof four_nz' as Hn4.
  assert (Hq : forall t : vec, vscale four t = a -> t = vscale (1 / four) a).
  { intros t <-. destruct t as [[x y] z]. unfold Geom.four. vec_eq; field; nz. }
  rewrite (Hq _ H1), (Hq _ H2), (Hq _ H3), (Hq _ H4). cbn [Geom.vsum fold_right].
  destruct a as [[x y] z]. unfold v0, Geom.four. vec_eq; field; nz.
Qed.

Lemma Forall2_nth {A B} (R : A -> B -> Prop) l l' i x :
  Forall2 R l l' -> nth_error l i = Some x -> exists y, nth_error l' i = Some y /\ R x y.
Proof. intros H. revert i. induction H; intros [|i] Hi; cbn in *; try discriminate; [inversion Hi; subst; eauto|eauto]. Qed.

Lemma posr_old (r : rawF) ms v : vert_ok (nV r) v -> posr (mkraw (rv r ++ ms) [] [] []) v = posr r v.
Proof.
  intros Hv. unfold posr. cbn [rv]. destruct (getz_total (rv r) v Hv) as [p Hp]. now rewrite (getz_app_l _ ms _ _ Hp), Hp.
Qed.

Theorem loop_step_total_area (r r' : rawF) :
  loop_step FO r = Ok r' -> WF r -> Forall (fun F0 => Zlen F0 = 3) (rf r) -> total_area r' = total_area r.
Proof.
  intros H [Hf [He Hc]] Ht.
  pose proof (loop_step_new_faces FO r r' H) as Hfaces.
  destruct (loop_step_vertices FO r r' H) as [ms [Hv Hms]].
  unfold total_area. rewrite Hfaces. unfold new_faces.
  set (pos' := posr r'). set (pos := posr r).
  assert (Hold : forall v, vert_ok (nV r) v -> pos' v = pos v).
  { intros v Hvv. unfold pos', pos, posr. rewrite Hv. destruct (getz_total (rv r) v Hvv) as [p Hp]. now rewrite (getz_app_l _ ms _ _ Hp), Hp. }
  (* position of the midpoint of a covered directed face edge *)
  assert (Hmid : forall F0 a b, In F0 (rf r) -> In (a, b) (dedges F0) -> vert_ok (nV r) a -> vert_ok (nV r) b ->
                 pos' (mid_of r (a, b)) = loop_mid FO (pos' a) (pos' b)).
  { intros F0 a b HF Hd Va Vb. rewrite Forall_forall in Hc.
    destruct (covered_key loop_key (Zlen (rv r)) (re r) F0 a b (fun x y => eq_refl) (Hc F0 HF) Hd) as [m [H1 [R [x [i [Hin [Hk Hm]]]]]]].
    assert (Em : mid_of r (a, b) = m) by (unfold mid_of, mf; rewrite keyE_pair; apply (hget_hv _ _ _ H1)).
    rewrite Em. destruct (combine_zrange_nth _ _ _ _ Hin) as [Hi Hn].
    destruct (Forall2_nth _ _ _ _ _ Hms Hn) as [p [Hp [pA [pB [HA [HB ->]]]]]].
    assert (Epos : pos' m = loop_mid FO pA pB).
    { unfold pos', posr. rewrite Hv. unfold getz. destruct (m <? 0) eqn:E; [unfold nV in R; pose proof (Zlen_nonneg (rv r)); lia|].
      replace (Z.to_nat m) with (length (rv r) + Z.to_nat i)%nat by (unfold Zlen in Hm; lia). now rewrite nth_error_app_offset, Hp. }
    rewrite Epos, (Hold a Va), (Hold b Vb). unfold pos, posr.
    destruct x as [u w]. rewrite keyE_pair in Hk. apply keyify2_eq in Hk. cbn [fst snd] in HA, HB.
    destruct Hk as [[-> ->]|[-> ->]]; rewrite HA, HB; [reflexivity|apply loop_mid_comm]. }
  clear Hfaces Hv Hms. rewrite Forall_forall in Hf, Ht.
  assert (G : forall fs, (forall F0, In F0 fs -> In F0 (rf r)) ->
            vsum (map (Geom.area_of F f0 fadd fmul fsub pos')
                      (flat_map (fun F0 => match F0 with
                                           | [A; B; C] => loop_tris A B C (mid_of r (A, B)) (mid_of r (B, C)) (mid_of r (C, A))
                                           | _ => [] end) fs))
            = vsum (map (Geom.area_of F f0 fadd fmul fsub pos) fs)).
  { induction fs as [|F0 fs IH]; intros Hin; [reflexivity|].
    assert (HF0 : In F0 (rf r)) by (apply Hin; left; reflexivity).
    destruct (tri_shape F0 (Ht F0 HF0)) as [A [B [C ->]]]. destruct (Hf _ HF0) as [_ HvF].
    cbn [flat_map map]. rewrite map_app, vsum_app'.
    change (vsum (Geom.area_of F f0 fadd fmul fsub pos [A; B; C] :: map (Geom.area_of F f0 fadd fmul fsub pos) fs))
      with (vadd (Geom.area_of F f0 fadd fmul fsub pos [A; B; C]) (vsum (map (Geom.area_of F f0 fadd fmul fsub pos) fs))).
    f_equal; [|apply IH; intros F1 H1; apply Hin; right; exact H1].
    inversion HvF as [|? ? VA Hv1]; subst. inversion Hv1 as [|? ? VB Hv2]; subst. inversion Hv2 as [|? ? VC _]; subst.
    pose proof (C13_loop_area F f0 f1 fadd fmul fsub fopp fdiv finv Fth two_nz pos' A B C _ _ _
                  (Hmid _ A B HF0 ltac:(cbn; auto) VA VB) (Hmid _ B C HF0 ltac:(cbn; auto) VB VC) (Hmid _ C A HF0 ltac:(cbn; auto) VC VA)) as Har.
    assert (Epar : Geom.area_of F f0 fadd fmul fsub pos' [A; B; C] = Geom.area_of F f0 fadd fmul fsub pos [A; B; C]).
    { unfold Geom.area_of. cbn [map]. now rewrite (Hold A VA), (Hold B VB), (Hold C VC). }
    rewrite Epar in Har. unfold loop_tris in Har |- *.
    inversion Har as [|? ? H1 Har1]; subst. inversion Har1 as [|? ? H2 Har2]; subst. inversion Har2 as [|? ? H3 Har3]; subst.
    inversion Har3 as [|? ? H4 _]; subst. cbn [map]. apply quarters_sum; assumption. }
  apply G. auto.
Qed.

End Geometry.
