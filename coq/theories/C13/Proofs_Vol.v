(* C13 - tetrahedral editing block: every history of cell / face-centre splits with existing ids succeeds
   (the second face split in one block used to consult adjacency tables computed on entry). *)
From Coq Require Import ZArith List Bool Lia.
Require Import MV.Lib.Base MV.C13.Defs MV.C13.Gen MV.C13.Model MV.C13.Proofs_Base MV.C13.Proofs_Counts MV.C13.Proofs_Accept.
Import ListNotations.
Open Scope Z_scope.

Section Vol.
Context {P : Type} (O : pops P).
Notation raw := (raw P).

Definition cell_ok (n : Z) (c : list Z) : Prop := Zlen c = 4 /\ Forall (vert_ok n) c.
Definition WFv (r : raw) : Prop :=
  Forall (cell_ok (nV r)) (rc r) /\ Forall (fun f => Forall (vert_ok (nV r)) f) (rf r).

Lemma cell_ok_mono n n' c : n <= n' -> cell_ok n c -> cell_ok n' c.
Proof. intros H [L Hv]. split; auto. eapply Forall_impl; [|exact Hv]. intros v. now apply vert_ok_mono. Qed.

Lemma Forall4 {A} (Q : A -> Prop) a b c d : Q a -> Q b -> Q c -> Q d -> Forall Q [a; b; c; d].
Proof. intros. repeat (apply Forall_cons || apply Forall_nil); auto. Qed.

Theorem cell_fan_accepts r c :
  WFv r -> 0 <= c < nC r -> exists r', split_cell_as_fan O r c = Ok r' /\ WFv r'.
Proof.
  intros [Hc Hf] Hr. unfold split_cell_as_fan.
  destruct (getz_total (rc r) c Hr) as [cell Hcell]. rewrite Hcell. cbn [bind].
  pose proof (getz_In _ _ _ Hcell) as HIn. rewrite Forall_forall in Hc. destruct (Hc cell HIn) as [L Hv].
  unfold cf_skip. rewrite L. cbn [Z.eqb Pos.eqb negb].
  destruct cell as [|A [|B [|C [|D [|? ?]]]]]; try (unfold Zlen in L; cbn [length] in L; lia).
  inversion Hv as [|? ? HA H1]; subst. inversion H1 as [|? ? HB H2]; subst.
  inversion H2 as [|? ? HC H3]; subst. inversion H3 as [|? ? HD _]; subst.
  destruct (getz_total (rv r) A HA) as [pA ->]. destruct (getz_total (rv r) B HB) as [pB ->].
  destruct (getz_total (rv r) C HC) as [pC ->]. destruct (getz_total (rv r) D HD) as [pD ->]. cbn [bind].
  eexists. split; [reflexivity|]. unfold WFv, nV. cbn [rv rc rf]. rewrite Zlen_app. change (Zlen [cf_bary O pA pB pC pD]) with 1.
  fold (nV r). pose proof (Zlen_nonneg (rv r)) as Hp. fold (nV r) in Hp.
  assert (Hn : vert_ok (nV r + 1) (nV r)) by (unfold vert_ok; lia).
  assert (M : forall v, vert_ok (nV r) v -> vert_ok (nV r + 1) v) by (intros v; apply vert_ok_mono; lia).
  split.
  - apply Forall_updz_app.
    + apply Forall_forall. intros x Hx. eapply cell_ok_mono; [|apply Hc; auto]. lia.
    + split; [reflexivity|]. unfold cf_replace. apply Forall4; auto.
    + unfold cf_cells. repeat (apply Forall_cons || apply Forall_nil); (split; [reflexivity|]); apply Forall4; auto.
  - eapply Forall_impl; [|exact Hf]. intros f Hvf. eapply Forall_impl; [|exact Hvf]. exact M.
Qed.

(* the three (or four) rewritten copies of a cell *)
Lemma fc_new_cells_ok n cell iF ic :
  cell_ok n cell -> vert_ok n ic ->
  exists nc, fc_new_cells cell iF ic = Ok nc /\ (3 <= length nc)%nat /\ Forall (cell_ok n) nc.
Proof.
  intros [L Hv] Hic. unfold fc_new_cells, fc_range.
  set (keep := fun i => match iF with Some j => negb (fc_skip_i i j) | None => true end).
  change (zrange 4) with [0; 1; 2; 3].
  assert (Hset : forall i, 0 <= i < 4 -> exists c', (if i <? Zlen cell then Ok (fc_set cell i ic) else Err IndexError) = Ok c' /\ cell_ok n c').
  { intros i Hi. rewrite L. destruct (i <? 4) eqn:E; [|lia]. eexists. split; [reflexivity|].
    unfold fc_set, cell_ok. rewrite Zlen_updz. split; auto. apply Forall_forall. intros x Hx.
    apply In_updz in Hx as [->|Hx]; auto. rewrite Forall_forall in Hv. auto. }
  destruct (Hset 0 ltac:(lia)) as [c0 [E0 K0]]. destruct (Hset 1 ltac:(lia)) as [c1 [E1 K1]].
  destruct (Hset 2 ltac:(lia)) as [c2 [E2 K2]]. destruct (Hset 3 ltac:(lia)) as [c3 [E3 K3]].
  assert (Hk : (keep 0 = false -> keep 1 = true /\ keep 2 = true /\ keep 3 = true) /\
               (keep 1 = false -> keep 0 = true /\ keep 2 = true /\ keep 3 = true) /\
               (keep 2 = false -> keep 0 = true /\ keep 1 = true /\ keep 3 = true) /\
               (keep 3 = false -> keep 0 = true /\ keep 1 = true /\ keep 2 = true)).
  { unfold keep, fc_skip_i. destruct iF as [j|]; [|split; [|split; [|split]]; discriminate].
    split; [|split; [|split]]; intros Hq; apply negb_false_iff, Z.eqb_eq in Hq; subst j; repeat split; reflexivity. }
  destruct Hk as [Hk0 [Hk1 [Hk2 Hk3]]].
  cbn [filter]. destruct (keep 0) eqn:F0, (keep 1) eqn:F1, (keep 2) eqn:F2, (keep 3) eqn:F3;
    try (destruct (Hk0 eq_refl) as [? [? ?]]; discriminate); try (destruct (Hk1 eq_refl) as [? [? ?]]; discriminate);
    try (destruct (Hk2 eq_refl) as [? [? ?]]; discriminate); try (destruct (Hk3 eq_refl) as [? [? ?]]; discriminate);
    cbn [mapM]; rewrite ?E0, ?E1, ?E2, ?E3; cbn [bind]; eexists; (split; [reflexivity|]);
    (split; [cbn; lia|repeat (apply Forall_cons || apply Forall_nil); auto]).
Qed.

Lemma getz_lt3 {A} (l : list A) i : (3 <= length l)%nat -> 0 <= i < 3 -> exists x, getz l i = Ok x /\ In x l.
Proof.
  intros L Hi. destruct (getz_total l i) as [x Hx]; [unfold Zlen; lia|]. exists x. split; auto. eapply getz_In; eauto.
Qed.

Lemma fc_cell_ok n f ic cells c :
  Forall (cell_ok n) cells -> vert_ok n ic -> 0 <= c < Zlen cells ->
  exists cells', fc_cell f ic cells c = Ok cells' /\ Forall (cell_ok n) cells' /\ Zlen cells <= Zlen cells'.
Proof.
  intros Hc Hic Hr. unfold fc_cell. destruct (getz_total cells c Hr) as [cell Hcell]. rewrite Hcell. cbn [bind].
  pose proof (getz_In _ _ _ Hcell) as HIn. rewrite Forall_forall in Hc.
  destruct (fc_new_cells_ok n cell (in_cell_face_index cell f) ic (Hc _ HIn) Hic) as [nc [Hnc [L Hok]]]. rewrite Hnc. cbn [bind].
  unfold fc_keep, fc_app. destruct (getz_lt3 nc 0 L ltac:(lia)) as [k [Hk Hkin]]. rewrite Hk. cbn [bind mapM].
  destruct (getz_lt3 nc 1 L ltac:(lia)) as [a1 [Ha1 Ha1in]]. destruct (getz_lt3 nc 2 L ltac:(lia)) as [a2 [Ha2 Ha2in]].
  rewrite Ha1, Ha2. cbn [bind]. eexists. split; [reflexivity|]. rewrite Forall_forall in Hok. split.
  - apply Forall_updz_app; [apply Forall_forall; auto|auto|repeat (apply Forall_cons || apply Forall_nil); auto].
  - rewrite Zlen_app, Zlen_updz. unfold Zlen. cbn [length]. lia.
Qed.

Lemma fc_fold_ok n f ic adj cells :
  Forall (cell_ok n) cells -> vert_ok n ic -> Forall (fun c => 0 <= c < Zlen cells) adj ->
  exists cells', foldM (fc_cell f ic) adj cells = Ok cells' /\ Forall (cell_ok n) cells'.
Proof.
  revert cells. induction adj as [|c t IH]; intros cells Hc Hic Hr; cbn [foldM]; [eauto|].
  inversion Hr as [|? ? Hc0 Ht]; subst.
  destruct (fc_cell_ok n f ic cells c Hc Hic Hc0) as [c1 [H1 [Hok Hlen]]]. rewrite H1. cbn [bind].
  apply IH; auto. eapply Forall_impl; [|exact Ht]. intros x. cbn. lia.
Qed.

Theorem face_centre_accepts r fid :
  WFv r -> 0 <= fid < nF r -> exists r', split_tet_from_face_center O r fid = Ok r' /\ WFv r'.
Proof.
  intros [Hc Hf] Hr. unfold split_tet_from_face_center.
  destruct (getz_total (rf r) fid Hr) as [f Hfa]. rewrite Hfa. cbn [bind].
  destruct (fc_skip (Zlen f)) eqn:Esk; [exists r; split; [reflexivity|split; auto]|].
  unfold fc_skip in Esk. apply negb_false_iff, Z.eqb_eq in Esk.
  destruct f as [|A [|B [|C [|? ?]]]]; try (unfold Zlen in Esk; cbn [length] in Esk; lia).
  pose proof (getz_In _ _ _ Hfa) as HIn. rewrite Forall_forall in Hf. pose proof (Hf _ HIn) as Hv.
  destruct (pts_of_total r [A; B; C] Hv) as [ps Hps]. rewrite Hps. cbn [bind].
  pose proof (Zlen_nonneg (rv r)) as Hp. fold (nV r) in Hp.
  assert (Hn : vert_ok (nV r + 1) (nV r)) by (unfold vert_ok; lia).
  assert (M : forall v, vert_ok (nV r) v -> vert_ok (nV r + 1) v) by (intros v; apply vert_ok_mono; lia).
  destruct (fc_fold_ok (nV r + 1) [A; B; C] (Zlen (rv r))
              (filter (fun c => match getz (rc r) c with Ok cell => fc_adjacent [A; B; C] cell | Err _ => false end) (zrange (Zlen (rc r))))
              (rc r)) as [cells [Hcells Hok]].
  - eapply Forall_impl; [|exact Hc]. intros x. apply cell_ok_mono. lia.
  - exact Hn.
  - apply Forall_forall. intros c Hcin. apply filter_In in Hcin as [Hcin _]. now apply In_zrange in Hcin.
  - rewrite Hcells. cbn [bind]. eexists. split; [reflexivity|].
    unfold WFv, nV. cbn [rv rc rf]. rewrite Zlen_app. change (Zlen [fc_bary O ps]) with 1. fold (nV r). split; [exact Hok|].
    inversion Hv as [|? ? HA H1]; subst. inversion H1 as [|? ? HB H2]; subst. inversion H2 as [|? ? HC _]; subst.
    apply Forall_updz_app.
    + apply Forall_forall. intros x Hx. eapply Forall_impl; [|apply Hf; auto]. exact M.
    + unfold fc_replace. repeat (apply Forall_cons || apply Forall_nil); auto.
    + unfold fc_faces. repeat (apply Forall_cons || apply Forall_nil); auto.
Qed.

Definition vop_valid (r : raw) (o : vop) : Prop :=
  match o with CellFan c => 0 <= c < nC r | FaceCentre f => 0 <= f < nF r end.

Theorem vstep_accepts r o : WFv r -> vop_valid r o -> exists r', vstep O r o = Ok r' /\ WFv r'.
Proof. intros HW Hv. destruct o; cbn in *; [apply cell_fan_accepts|apply face_centre_accepts]; auto. Qed.

Fixpoint vhist_valid (r : raw) (ops : list vop) : Prop :=
  match ops with
  | [] => True
  | o :: t => vop_valid r o /\ forall r', vstep O r o = Ok r' -> vhist_valid r' t
  end.

Theorem volume_history_accepts ops r :
  WFv r -> vhist_valid r ops -> exists p, run_volume O r ops = Ok p.
Proof.
  intros HW Hh. unfold run_volume.
  assert (H : exists r', foldM (vstep O) ops r = Ok r' /\ WFv r').
  { revert r HW Hh. induction ops as [|o t IH]; intros r HW Hh; cbn [foldM]; [eauto|].
    destruct Hh as [Hv Hn]. destruct (vstep_accepts r o HW Hv) as [r1 [H1 HW1]]. rewrite H1. cbn [bind]. apply IH; auto. }
  destruct H as [r' [H _]]. rewrite H. cbn. eauto.
Qed.

(* the data a VolumeMesh is built from is well-formed *)
Lemma dedupF_In_sub seen l f : In f (dedupF seen l) -> In f l.
Proof.
  revert seen. induction l as [|g t IH]; cbn; intros seen H; [contradiction|].
  destruct (existsb (lz_eqb (sortz g)) seen); [right; eauto|]. destruct H as [<-|H]; [left; auto|right; eauto].
Qed.

Theorem prepared_volume_WFv (V : list P) (C : list (list Z)) :
  Forall (cell_ok (Zlen V)) C -> WFv (pr (prepare (mkraw V [] [] C))).
Proof.
  intros HC. unfold prepare. cbn [rf rc re rv].
  destruct (prepare_edges (Zlen V) (complete_edges [] (complete_faces [] C))) as [es rb]. cbn [pr].
  unfold WFv, nV. cbn [rv rc rf]. split; [exact HC|].
  apply Forall_forall. intros f Hf. unfold complete_faces in Hf. destruct C as [|c0 C0]; [contradiction|].
  cbn [app map] in Hf. apply dedupF_In_sub in Hf. apply in_flat_map in Hf as [c [Hc Hf]].
  rewrite Forall_forall in HC. destruct (HC c Hc) as [L Hv].
  destruct c as [|v0 [|v1 [|v2 [|v3 [|? ?]]]]]; try (unfold Zlen in L; cbn [length] in L; lia).
  inversion Hv as [|? ? H0 Hv1]; subst. inversion Hv1 as [|? ? H1 Hv2]; subst.
  inversion Hv2 as [|? ? H2 Hv3]; subst. inversion Hv3 as [|? ? H3 _]; subst.
  cbn in Hf. destruct Hf as [<-|[<-|[<-|[<-|[]]]]]; repeat (apply Forall_cons || apply Forall_nil); auto.
Qed.

End Vol.
