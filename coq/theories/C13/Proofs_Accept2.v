(* C13 - acceptance, continued: the two refinements that replace the raw data (loop_subdivision, 3quads), every
   single editor operation, and every history of operations. *)
From Coq Require Import ZArith List Bool Lia Permutation.
Require Import MV.Lib.Base MV.C13.Defs MV.C13.Gen MV.C13.Model MV.C13.Proofs_Base MV.C13.Proofs_Counts MV.C13.Proofs_Topo
               MV.C13.Proofs_Accept.
Import ListNotations.
Open Scope Z_scope.

(* ------------------------------------------------------------------ the midpoint table *)
Lemma hfind_In t k v : hfind t k = Some v -> In (k, v) t.
Proof.
  induction t as [|[k' v'] t IH]; cbn; [discriminate|].
  destruct (hfind t k) eqn:E.
  - intros H. inversion H; subst. right. auto.
  - destruct (edge_eqb k k') eqn:Ek; [|discriminate]. intros H. inversion H; subst.
    apply edge_eqb_eq in Ek. subst. left. reflexivity.
Qed.
Lemma hfind_some t k : In k (map fst t) -> exists v, hfind t k = Some v.
Proof.
  induction t as [|[k' v'] t IH]; cbn; [contradiction|]. intros [<-|H].
  - destruct (hfind t k'); [eauto|]. assert (E : edge_eqb k' k' = true) by now apply edge_eqb_eq. rewrite E. eauto.
  - destruct (IH H) as [v Hv]. rewrite Hv. eauto.
Qed.

Lemma combine_map_both {A B C D} (f : A -> C) (g : B -> D) l z :
  combine (map f l) (map g z) = map (fun ab => (f (fst ab), g (snd ab))) (combine l z).
Proof. revert z. induction l as [|x t IH]; intros [|y z]; cbn; auto. now rewrite IH. Qed.

Lemma map_fst_combine {A B} (l : list A) (z : list B) : length l = length z -> map fst (combine l z) = l.
Proof. revert z. induction l as [|x t IH]; intros [|y z] H; cbn in *; try lia; auto. f_equal. apply IH. lia. Qed.

Lemma half_table_keys key V es : map fst (half_table key V es) = map (fun e => key (fst e) (snd e)) es.
Proof.
  unfold half_table. apply map_fst_combine. rewrite !map_length, zrange_length. unfold Zlen. lia.
Qed.

Lemma half_table_In key V es k m :
  In (k, m) (half_table key V es) ->
  exists e i, In (e, i) (combine es (zrange (Zlen es))) /\ k = key (fst e) (snd e) /\ m = V + i /\ 0 <= i < Zlen es.
Proof.
  unfold half_table. rewrite combine_map_both. intros H. apply in_map_iff in H as [[e i] [Heq Hin]].
  cbn [fst snd] in Heq. inversion Heq; subst. exists e, i. repeat split; auto.
  - apply in_combine_r in Hin. apply In_zrange in Hin. lia.
  - apply in_combine_r in Hin. apply In_zrange in Hin. lia.
Qed.

Lemma dedupE_In_sub seen l x : In x (dedupE seen l) -> In x l.
Proof.
  revert seen. induction l as [|e t IH]; cbn; intros seen H; [contradiction|].
  destruct (mem_edge e seen); [right; eauto|]. destruct H as [<-|H]; [left; auto|right; eauto].
Qed.
Lemma dedupE_In_sup seen l x : In x l -> In x seen \/ In x (dedupE seen l).
Proof.
  revert seen. induction l as [|e t IH]; cbn; intros seen H; [contradiction|].
  destruct H as [<-|H].
  - destruct (mem_edge e seen) eqn:E; [left; now apply mem_edge_In|right; left; reflexivity].
  - destruct (mem_edge e seen) eqn:E; [apply IH; auto|].
    destruct (IH (e :: seen) H) as [[<-|H1]|H1]; [right; left; reflexivity|left; auto|right; right; auto].
Qed.

Lemma dedupE_NoDup seen l : NoDup (dedupE seen l) /\ forall x, In x (dedupE seen l) -> ~ In x seen.
Proof.
  revert seen. induction l as [|e t IH]; intros seen; cbn; [split; [constructor|intros x []]|].
  destruct (mem_edge e seen) eqn:E; [apply IH|].
  destruct (IH (e :: seen)) as [H1 H2]. split.
  - constructor; auto. intros Hin. apply (H2 e Hin). left; reflexivity.
  - intros x [<-|Hx].
    + intros Hin. apply mem_edge_In in Hin. congruence.
    + intros Hin. apply (H2 x Hx). right; auto.
Qed.


(* prepare() leaves an edge list of valid, pairwise different (as keys) edges alone, whichever of the two source forms *)
Lemma keep_flags_all N es : forall seen,
  forallb (edge_valid N) es = true -> NoDup (map keyE es) -> (forall k, In k seen -> ~ In k (map keyE es)) ->
  forallb (fun b => b) (keep_flags N seen es) = true.
Proof.
  induction es as [|e t IH]; intros seen Hv Hnd Hseen; [reflexivity|].
  cbn [forallb map] in Hv, Hnd. apply andb_true_iff in Hv as [Hv1 Hv2]. inversion Hnd as [|? ? Hn Hnd']; subst.
  assert (Hm : mem_edge (keyE e) seen = false).
  { destruct (mem_edge (keyE e) seen) eqn:E; [|reflexivity]. exfalso. apply mem_edge_In in E. apply (Hseen _ E). left. reflexivity. }
  cbn [keep_flags]. rewrite Hv1, Hm, andb_false_r. cbn [negb andb forallb]. apply IH; auto.
  intros k [<-|Hk] Hin; [contradiction|]. apply (Hseen k Hk). right. exact Hin.
Qed.
Lemma prepare_edges_clean N es :
  forallb (edge_valid N) es = true -> NoDup (map keyE es) -> prepare_edges N es = (map keyE es, false).
Proof.
  intros Hv Hnd. unfold prepare_edges. cbv zeta. rewrite (keep_flags_all N es [] Hv Hnd); [reflexivity|]. intros k [].
Qed.

Section Accept2.
Context {P : Type} (O : pops P).
Notation raw := (raw P).

Lemma edge_mids_total (mid : P -> P -> P) (r : raw) :
  Forall (edge_ok (nV r)) (re r) -> exists ms, edge_mids mid r = Ok ms.
Proof.
  intros He. unfold edge_mids. apply mapM_total. intros e Hin. rewrite Forall_forall in He. destruct (He e Hin) as [Ha Hb].
  destruct (getz_total (rv r) (fst e) Ha) as [pA HA]. destruct (getz_total (rv r) (snd e) Hb) as [pB HB].
  rewrite HA, HB. cbn. eauto.
Qed.

Lemma tri_shape (F : list Z) : Zlen F = 3 -> exists A B C, F = [A; B; C].
Proof. destruct F as [|A [|B [|C [|? ?]]]]; unfold Zlen; cbn; intros H; try lia. eauto. Qed.

(* the key of a directed face edge is in the table when the edge list covers the face *)
Lemma covered_key (key : Z -> Z -> edge) V es F a b :
  (forall x y, key x y = keyify2 x y) -> covered es F -> In (a, b) (dedges F) ->
  exists m, hget (half_table key V es) (keyify2 a b) = Ok m /\ V <= m < V + Zlen es /\
            exists e i, In (e, i) (combine es (zrange (Zlen es))) /\ keyify2 a b = keyE e /\ m = V + i.
Proof.
  intros Hkey Hc Hd. pose proof (Hc _ Hd) as Hin. rewrite keyE_pair in Hin.
  assert (Hk : In (keyify2 a b) (map fst (half_table key V es))).
  { rewrite half_table_keys. rewrite (map_ext _ keyE); [exact Hin|]. intros e. apply Hkey. }
  destruct (hfind_some _ _ Hk) as [m Hm]. exists m. unfold hget. rewrite Hm. split; auto.
  apply hfind_In in Hm. apply half_table_In in Hm as [e [i [H1 [H2 [H3 H4]]]]]. split; [lia|].
  exists e, i. repeat split; auto. rewrite H2. apply Hkey.
Qed.

(* ------------------------------------------------------------------ loop_subdivision, one refinement *)
Lemma loop_tris_shape A B C m1 m2 m3 :
  Forall (fun T => Zlen T = 3 /\ Forall (fun v => In v [A; B; C; m1; m2; m3]) T) (loop_tris A B C m1 m2 m3).
Proof. unfold loop_tris. repeat (apply Forall_cons || apply Forall_nil); (split; [reflexivity|]); repeat (apply Forall_cons || apply Forall_nil); cbn; tauto. Qed.
Lemma loop_edges_shape A B C m1 m2 m3 :
  Forall (fun e => In (fst e) [A; B; C; m1; m2; m3] /\ In (snd e) [A; B; C; m1; m2; m3]) (loop_edges A B C m1 m2 m3).
Proof. unfold loop_edges. repeat (apply Forall_cons || apply Forall_nil); cbn; tauto. Qed.

Lemma in6_ok n A B C m1 m2 m3 v :
  vert_ok n A -> vert_ok n B -> vert_ok n C -> vert_ok n m1 -> vert_ok n m2 -> vert_ok n m3 ->
  In v [A; B; C; m1; m2; m3] -> vert_ok n v.
Proof. cbn. intuition; subst; auto. Qed.

Theorem loop_step_accepts r :
  WF r -> all_tri r -> exists r', loop_step O r = Ok r' /\ WF r' /\ all_tri r'.
Proof.
  intros [Hf [He Hc]] Ht. unfold loop_step.
  destruct (edge_mids_total (loop_mid O) r He) as [ms Hms]. rewrite Hms. cbn [bind].
  set (t := half_table loop_key (Zlen (rv r)) (re r)).
  (* what a face produces *)
  assert (Hface : forall F, In F (rf r) -> exists A B C m1 m2 m3,
             F = [A; B; C] /\ loop_face t F = Ok (loop_tris A B C m1 m2 m3, map keyE (loop_edges A B C m1 m2 m3)) /\
             vert_ok (nV r) A /\ vert_ok (nV r) B /\ vert_ok (nV r) C /\
             nV r <= m1 < nV r + nE r /\ nV r <= m2 < nV r + nE r /\ nV r <= m3 < nV r + nE r).
  { intros F HF. unfold all_tri in Ht. rewrite Forall_forall in Hf, Hc, Ht. destruct (tri_shape F (Ht F HF)) as [A [B [C ->]]].
    destruct (Hf _ HF) as [_ Hv]. inversion Hv as [|? ? HA Hv1]; subst. inversion Hv1 as [|? ? HB Hv2]; subst.
    inversion Hv2 as [|? ? HC _]; subst.
    pose proof (Hc _ HF) as HcF.
    destruct (covered_key loop_key (Zlen (rv r)) (re r) [A; B; C] A B (fun x y => eq_refl) HcF) as [m1 [H1 [R1 _]]]; [cbn; auto|].
    destruct (covered_key loop_key (Zlen (rv r)) (re r) [A; B; C] B C (fun x y => eq_refl) HcF) as [m2 [H2 [R2 _]]]; [cbn; auto|].
    destruct (covered_key loop_key (Zlen (rv r)) (re r) [A; B; C] C A (fun x y => eq_refl) HcF) as [m3 [H3 [R3 _]]]; [cbn; auto|].
    exists A, B, C, m1, m2, m3. split; [reflexivity|]. split.
    - unfold loop_face, loop_keys. fold t in H1, H2, H3. rewrite H1, H2, H3. reflexivity.
    - unfold nV, nE, vert_ok in *. repeat split; lia. }
  destruct (mapM_total (loop_face t) (rf r)) as [fe Hfe].
  { intros F HF. destruct (Hface F HF) as [A [B [C [m1 [m2 [m3 [_ [H _]]]]]]]]. eauto. }
  rewrite Hfe. cbn [bind]. eexists. split; [reflexivity|].
  pose proof (mapM_Forall2 _ _ _ Hfe) as H2.
  assert (Hp : forall p, In p fe -> exists A B C m1 m2 m3,
             p = (loop_tris A B C m1 m2 m3, map keyE (loop_edges A B C m1 m2 m3)) /\
             vert_ok (nV r + nE r) A /\ vert_ok (nV r + nE r) B /\ vert_ok (nV r + nE r) C /\
             vert_ok (nV r + nE r) m1 /\ vert_ok (nV r + nE r) m2 /\ vert_ok (nV r + nE r) m3).
  { intros p Hp. destruct (Forall2_In_r _ _ _ _ H2 Hp) as [F [HF HpF]].
    destruct (Hface F HF) as [A [B [C [m1 [m2 [m3 [-> [HL [HA [HB [HC [R1 [R2 R3]]]]]]]]]]]]].
    rewrite HL in HpF. inversion HpF; subst p. exists A, B, C, m1, m2, m3.
    pose proof (Zlen_nonneg (re r)). pose proof (Zlen_nonneg (rv r)). unfold nV, nE, vert_ok in *. repeat split; auto; lia. }
  assert (HnV : nV (mkraw (rv r ++ ms) (dedupE [] (flat_map snd fe)) (flat_map fst fe) []) = nV r + nE r).
  { unfold nV. cbn [rv]. rewrite Zlen_app, (edge_mids_length _ _ _ Hms). reflexivity. }
  split; [unfold WF; rewrite HnV; cbn [rf re]; split; [|split]|].
  - apply Forall_forall. intros T HT. apply in_flat_map in HT as [p [Hpin HT]].
    destruct (Hp p Hpin) as [A [B [C [m1 [m2 [m3 [-> [HA [HB [HC [H1 [H2' H3]]]]]]]]]]]]. cbn [fst] in HT.
    pose proof (loop_tris_shape A B C m1 m2 m3) as Hs. rewrite Forall_forall in Hs. destruct (Hs T HT) as [L Hv].
    split; [lia|]. eapply Forall_impl; [|exact Hv]. intros v. apply (in6_ok _ A B C m1 m2 m3); auto.
  - apply Forall_forall. intros e Hein. apply dedupE_In_sub in Hein. apply in_flat_map in Hein as [p [Hpin Hein]].
    destruct (Hp p Hpin) as [A [B [C [m1 [m2 [m3 [-> [HA [HB [HC [H1 [H2' H3]]]]]]]]]]]]. cbn [snd] in Hein.
    apply in_map_iff in Hein as [e0 [<- He0]]. apply keyE_ok.
    pose proof (loop_edges_shape A B C m1 m2 m3) as Hs. rewrite Forall_forall in Hs. destruct (Hs e0 He0) as [Ha Hb].
    split; apply (in6_ok _ A B C m1 m2 m3); auto.
  - apply Forall_forall. intros T HT. apply in_flat_map in HT as [p [Hpin HT]].
    destruct (Hp p Hpin) as [A [B [C [m1 [m2 [m3 [-> _]]]]]]]. cbn [fst] in HT.
    intros d Hd.
    assert (Hin : In (keyE d) (flat_map snd fe)).
    { apply in_flat_map. eexists. split; [exact Hpin|]. cbn [snd]. apply loop_edges_cover.
      unfold dedges_all. apply in_flat_map. exists T. auto. }
    destruct (dedupE_In_sup [] _ _ Hin) as [[]|Hin'].
    apply in_map_iff. exists (keyE d). split; [apply keyE_idem|exact Hin'].
  - unfold all_tri. cbn [rf]. apply Forall_forall. intros T HT. apply in_flat_map in HT as [p [Hpin HT]].
    destruct (Hp p Hpin) as [A [B [C [m1 [m2 [m3 [-> _]]]]]]]. cbn [fst] in HT.
    pose proof (loop_tris_shape A B C m1 m2 m3) as Hs. rewrite Forall_forall in Hs. destruct (Hs T HT) as [L _]. exact L.
Qed.

(* ------------------------------------------------------------------ subdivide_triangles_3quads (after its triangulation) *)
Lemma q3_quads_shape A B C m1 m2 m3 S :
  Forall (fun T => Zlen T = 4 /\ Forall (fun v => In v [A; B; C; m1; m2; m3; S]) T) (q3_quads A B C m1 m2 m3 S).
Proof. unfold q3_quads. repeat (apply Forall_cons || apply Forall_nil); (split; [reflexivity|]); repeat (apply Forall_cons || apply Forall_nil); cbn; tauto. Qed.
Lemma q3_spokes_shape m1 m2 m3 S :
  Forall (fun e => exists m, In m [m1; m2; m3] /\ e = keyify2 m S) (q3_spokes m1 m2 m3 S).
Proof. unfold q3_spokes. repeat (apply Forall_cons || apply Forall_nil); eexists; (split; [|reflexivity]); cbn; tauto. Qed.

(* the undirected sides of the three quads: two halves of each side of the triangle, and the three spokes *)
Lemma q3_cover A B C m1 m2 m3 S d :
  In d (dedges_all (q3_quads A B C m1 m2 m3 S)) ->
  In (keyE d) ([keyify2 A m1; keyify2 B m1; keyify2 B m2; keyify2 C m2; keyify2 C m3; keyify2 A m3] ++ q3_spokes m1 m2 m3 S).
Proof.
  cbn. intros H. repeat (destruct H as [<-|H]; [rewrite ?keyE_pair, ?(keyify2_comm S), ?(keyify2_comm m1 B), ?(keyify2_comm m2 C), ?(keyify2_comm m3 A),
      ?(keyify2_comm m3 C), ?(keyify2_comm m1 A), ?(keyify2_comm m2 B); tauto|]). contradiction.
Qed.

Lemma in7_ok n A B C m1 m2 m3 S v :
  vert_ok n A -> vert_ok n B -> vert_ok n C -> vert_ok n m1 -> vert_ok n m2 -> vert_ok n m3 -> vert_ok n S ->
  In v [A; B; C; m1; m2; m3; S] -> vert_ok n v.
Proof. cbn. intuition; subst; auto. Qed.

Definition q3_halves_all (r : raw) : list edge :=
  flat_map (fun ei => q3_halves (fst (fst ei)) (snd (fst ei)) (Zlen (rv r) + snd ei)) (combine (re r) (zrange (Zlen (re r)))).

(* both halves of a covered side are recorded *)
Lemma halves_recorded (r : raw) F a b :
  covered (re r) F -> In (a, b) (dedges F) ->
  exists m, hget (half_table q3_key (Zlen (rv r)) (re r)) (keyify2 a b) = Ok m /\ nV r <= m < nV r + nE r /\
            In (keyify2 a m) (q3_halves_all r) /\ In (keyify2 b m) (q3_halves_all r).
Proof.
  intros Hc Hd. destruct (covered_key q3_key (Zlen (rv r)) (re r) F a b (fun x y => eq_refl) Hc Hd) as [m [H1 [R [e [i [Hin [Hk Hm]]]]]]].
  exists m. split; auto. split; [exact R|].
  assert (Hh : forall x, In x (q3_halves (fst e) (snd e) (Zlen (rv r) + i)) -> In x (q3_halves_all r)).
  { intros x Hx. unfold q3_halves_all. apply in_flat_map. exists (e, i). split; auto. }
  unfold keyE in Hk. apply keyify2_eq in Hk. subst m.
  destruct Hk as [[-> ->]|[-> ->]]; split; apply Hh; unfold q3_halves; cbn; auto.
Qed.

Theorem q3_core_accepts r :
  WF r -> all_tri r -> exists r', q3_core O r = Ok r' /\ WF r'.
Proof.
  intros [Hf [He Hc]] Ht. unfold q3_core.
  destruct (edge_mids_total (q3_mid O) r He) as [ms Hms]. rewrite Hms. cbn [bind].
  destruct (mapM_total (fun F => ps <- pts_of r F ;; Ok (q3_bary O ps)) (rf r)) as [bs Hbs].
  { intros F HF. rewrite Forall_forall in Hf. destruct (Hf F HF) as [_ Hv]. destruct (pts_of_total r F Hv) as [ps Hps].
    rewrite Hps. cbn. eauto. }
  rewrite Hbs. cbn [bind].
  set (t := half_table q3_key (Zlen (rv r)) (re r)).
  set (V := Zlen (rv r)) in *. set (E := Zlen (re r)) in *.
  assert (HVE : nV r = V /\ nE r = E) by (split; reflexivity). destruct HVE as [HV HE].
  pose proof (Zlen_nonneg (rv r)) as HV0. pose proof (Zlen_nonneg (re r)) as HE0. fold V in HV0. fold E in HE0.
  assert (Hface : forall F i, In (F, i) (combine (rf r) (zrange (Zlen (rf r)))) -> exists A B C m1 m2 m3,
             F = [A; B; C] /\
             q3_face t (V + E + i) F = Ok (q3_quads A B C m1 m2 m3 (V + E + i), q3_spokes m1 m2 m3 (V + E + i)) /\
             vert_ok V A /\ vert_ok V B /\ vert_ok V C /\ V <= m1 < V + E /\ V <= m2 < V + E /\ V <= m3 < V + E /\
             0 <= i < nF r /\
             In (keyify2 A m1) (q3_halves_all r) /\ In (keyify2 B m1) (q3_halves_all r) /\
             In (keyify2 B m2) (q3_halves_all r) /\ In (keyify2 C m2) (q3_halves_all r) /\
             In (keyify2 C m3) (q3_halves_all r) /\ In (keyify2 A m3) (q3_halves_all r)).
  { intros F i Hin. pose proof (in_combine_l _ _ _ _ Hin) as HF. pose proof (in_combine_r _ _ _ _ Hin) as Hi. apply In_zrange in Hi.
    unfold all_tri in Ht. rewrite Forall_forall in Hf, Hc, Ht. destruct (tri_shape F (Ht F HF)) as [A [B [C ->]]].
    destruct (Hf _ HF) as [_ Hv]. inversion Hv as [|? ? HA Hv1]; subst. inversion Hv1 as [|? ? HB Hv2]; subst.
    inversion Hv2 as [|? ? HC _]; subst.
    pose proof (Hc _ HF) as HcF.
    destruct (halves_recorded r [A; B; C] A B HcF) as [m1 [H1 [R1 [Ha1 Hb1]]]]; [cbn; auto|].
    destruct (halves_recorded r [A; B; C] B C HcF) as [m2 [H2 [R2 [Ha2 Hb2]]]]; [cbn; auto|].
    destruct (halves_recorded r [A; B; C] C A HcF) as [m3 [H3 [R3 [Ha3 Hb3]]]]; [cbn; auto|].
    exists A, B, C, m1, m2, m3. split; [reflexivity|]. split.
    - unfold q3_face, q3_keys, t. fold V in H1, H2, H3. rewrite H1, H2, H3. reflexivity.
    - rewrite HV, HE in *. unfold nF, vert_ok in *. repeat split; auto; lia. }
  destruct (mapM_total (fun Fi => q3_face t (V + E + snd Fi) (fst Fi)) (combine (rf r) (zrange (Zlen (rf r))))) as [fe Hfe].
  { intros [F i] Hin. destruct (Hface F i Hin) as [A [B [C [m1 [m2 [m3 [_ [H _]]]]]]]]. cbn [fst snd]. eauto. }
  rewrite Hfe. cbn [bind]. eexists. split; [reflexivity|].
  pose proof (mapM_Forall2 _ _ _ Hfe) as H2.
  set (N := V + E + nF r).
  assert (Hp : forall p, In p fe -> exists A B C m1 m2 m3 S,
             p = (q3_quads A B C m1 m2 m3 S, q3_spokes m1 m2 m3 S) /\
             vert_ok N A /\ vert_ok N B /\ vert_ok N C /\ vert_ok N m1 /\ vert_ok N m2 /\ vert_ok N m3 /\ vert_ok N S /\
             In (keyify2 A m1) (q3_halves_all r) /\ In (keyify2 B m1) (q3_halves_all r) /\
             In (keyify2 B m2) (q3_halves_all r) /\ In (keyify2 C m2) (q3_halves_all r) /\
             In (keyify2 C m3) (q3_halves_all r) /\ In (keyify2 A m3) (q3_halves_all r)).
  { intros p Hp. destruct (Forall2_In_r _ _ _ _ H2 Hp) as [[F i] [HF HpF]]. cbn [fst snd] in HpF.
    destruct (Hface F i HF) as [A [B [C [m1 [m2 [m3 [-> [HL [HA [HB [HC [R1 [R2 [R3 [Ri Hh]]]]]]]]]]]]]]].
    rewrite HL in HpF. inversion HpF; subst p. exists A, B, C, m1, m2, m3, (V + E + i).
    pose proof (Zlen_nonneg (rf r)). unfold N, nF, vert_ok in *. repeat split; try tauto; lia. }
  assert (HnV : nV (mkraw (rv r ++ ms ++ bs) (q3_halves_all r ++ flat_map snd fe) (flat_map fst fe) []) = N).
  { unfold nV. cbn [rv]. rewrite !Zlen_app, (edge_mids_length _ _ _ Hms), (mapM_Zlen _ _ _ Hbs). unfold N, nE, nF. fold V E. lia. }
  change (flat_map (fun ei => q3_halves (fst (fst ei)) (snd (fst ei)) (V + snd ei)) (combine (re r) (zrange E))) with (q3_halves_all r).
  unfold WF. rewrite HnV. cbn [rf re]. split; [|split].
  - apply Forall_forall. intros T HT. apply in_flat_map in HT as [p [Hpin HT]].
    destruct (Hp p Hpin) as [A [B [C [m1 [m2 [m3 [S [-> [HA [HB [HC [H1 [H2' [H3 [HS _]]]]]]]]]]]]]]]. cbn [fst] in HT.
    pose proof (q3_quads_shape A B C m1 m2 m3 S) as Hs. rewrite Forall_forall in Hs. destruct (Hs T HT) as [L Hv].
    split; [lia|]. eapply Forall_impl; [|exact Hv]. intros v. apply (in7_ok _ A B C m1 m2 m3 S); auto.
  - apply Forall_app. split.
    + apply Forall_forall. intros x Hx. unfold q3_halves_all in Hx. apply in_flat_map in Hx as [[e i] [Hin Hx]].
      cbn [fst snd] in Hx. pose proof (in_combine_l _ _ _ _ Hin) as He0. pose proof (in_combine_r _ _ _ _ Hin) as Hi. apply In_zrange in Hi.
      rewrite Forall_forall in He. destruct (He e He0) as [Ha Hb]. rewrite HV in Ha, Hb.
      pose proof (Zlen_nonneg (rf r)). unfold nF in N.
      unfold q3_halves in Hx. cbn in Hx. destruct Hx as [<-|[<-|[]]]; apply keyify2_ok; unfold vert_ok, N, nF in *; fold V E in Hi |- *; lia.
    + apply Forall_forall. intros x Hx. apply in_flat_map in Hx as [p [Hpin Hx]].
      destruct (Hp p Hpin) as [A [B [C [m1 [m2 [m3 [S [-> [HA [HB [HC [H1 [H2' [H3 [HS _]]]]]]]]]]]]]]]. cbn [snd] in Hx.
      pose proof (q3_spokes_shape m1 m2 m3 S) as Hs. rewrite Forall_forall in Hs. destruct (Hs x Hx) as [m [Hm ->]].
      apply keyify2_ok; auto. cbn in Hm. intuition; subst; auto.
  - apply Forall_forall. intros T HT. apply in_flat_map in HT as [p [Hpin HT]].
    destruct (Hp p Hpin) as [A [B [C [m1 [m2 [m3 [S [-> [_ [_ [_ [_ [_ [_ [_ [G1 [G2 [G3 [G4 [G5 G6]]]]]]]]]]]]]]]]]]]]. cbn [fst] in HT.
    intros d Hd.
    assert (Hcov := q3_cover A B C m1 m2 m3 S d). 
    assert (Hd' : In d (dedges_all (q3_quads A B C m1 m2 m3 S))) by (unfold dedges_all; apply in_flat_map; exists T; auto).
    specialize (Hcov Hd'). apply in_app_or in Hcov as [Hcov|Hcov].
    + assert (Hin : In (keyE d) (q3_halves_all r)) by (cbn in Hcov; intuition; congruence).
      rewrite map_app. apply in_or_app. left. apply in_map_iff. exists (keyE d). split; [apply keyE_idem|exact Hin].
    + rewrite map_app. apply in_or_app. right. apply in_map_iff. exists (keyE d). split; [apply keyE_idem|].
      apply in_flat_map. eexists. split; [exact Hpin|exact Hcov].
Qed.

(* ------------------------------------------------------------------ every single operation, every history *)
Definition op_valid (r : raw) (o : sop) : Prop :=
  match o with
  | TriFace f | Fan f => 0 <= f < nF r
  | _ => True
  end.

Lemma in_place_cur (s : @sstate P) f r' : f (cur s) = Ok r' -> exists s', in_place s f = Ok s' /\ cur s' = r'.
Proof. intros H. unfold in_place. rewrite H. cbn. eauto. Qed.
Lemma replacing_cur (s : @sstate P) f r' : f (cur s) = Ok r' -> exists s', replacing s f = Ok s' /\ cur s' = r'.
Proof. intros H. unfold replacing. rewrite H. cbn. eauto. Qed.

Lemma loop_iter_accepts n (s : @sstate P) :
  WF (cur s) -> all_tri (cur s) ->
  exists s', iter_res n (fun s => replacing s (loop_step O)) s = Ok s' /\ WF (cur s') /\ all_tri (cur s').
Proof.
  revert s. induction n as [|n IH]; intros s HW HT; cbn [iter_res]; [eauto|].
  destruct (loop_step_accepts (cur s) HW HT) as [r1 [H1 [HW1 HT1]]].
  destruct (replacing_cur s _ _ H1) as [s1 [Hs1 Hc1]]. rewrite Hs1. cbn [bind]. apply IH; rewrite Hc1; auto.
Qed.

Lemma quads3_accepts (s : @sstate P) : WF (cur s) -> exists s', quads3 O s = Ok s' /\ WF (cur s').
Proof.
  intros HW. unfold quads3. destruct (triangulate_accepts O (cur s) HW) as [r1 [H1 [HW1 HT1]]].
  destruct (in_place_cur s _ _ H1) as [s1 [Hs1 Hc1]]. rewrite Hs1. cbn [bind].
  rewrite <- Hc1 in HW1, HT1. destruct (q3_core_accepts (cur s1) HW1 HT1) as [r2 [H2 HW2]].
  destruct (replacing_cur s1 _ _ H2) as [s2 [Hs2 Hc2]]. exists s2. rewrite Hc2. auto.
Qed.

Lemma tri6_step_accepts (s : @sstate P) : WF (cur s) -> exists s', tri6_step O s = Ok s' /\ WF (cur s').
Proof.
  intros HW. unfold tri6_step, t6_body. cbn [foldM Z.eqb Pos.eqb].
  destruct (quads3_accepts s HW) as [s1 [H1 HW1]]. rewrite H1. cbn [bind].
  destruct (triangulate_accepts O (cur s1) HW1) as [r2 [H2 [HW2 _]]].
  destruct (in_place_cur s1 _ _ H2) as [s2 [Hs2 Hc2]]. rewrite Hs2. cbn [bind]. exists s2. rewrite Hc2. auto.
Qed.

Lemma tri6_iter_accepts n (s : @sstate P) : WF (cur s) -> exists s', iter_res n (tri6_step O) s = Ok s' /\ WF (cur s').
Proof.
  revert s. induction n as [|n IH]; intros s HW; cbn [iter_res]; [eauto|].
  destruct (tri6_step_accepts s HW) as [s1 [H1 HW1]]. rewrite H1. cbn [bind]. auto.
Qed.

Theorem sstep_accepts (s : @sstate P) o :
  WF (cur s) -> op_valid (cur s) o -> exists s', sstep O s o = Ok s' /\ WF (cur s').
Proof.
  intros HW Hv. destruct o as [f|f| |n| |k]; cbn [sstep op_valid] in *.
  - destruct (triangulate_face_accepts O (cur s) f HW Hv) as [r1 [H1 [HW1 _]]].
    destruct (in_place_cur s (fun r => triangulate_face O r f) _ H1) as [s1 [Hs1 Hc1]]. exists s1. rewrite Hc1. auto.
  - destruct (fan_accepts O (cur s) f HW Hv) as [r1 [H1 [HW1 _]]].
    destruct (in_place_cur s (fun r => split_face_as_fan O r f) _ H1) as [s1 [Hs1 Hc1]]. exists s1. rewrite Hc1. auto.
  - destruct (triangulate_accepts O (cur s) HW) as [r1 [H1 [HW1 _]]].
    destruct (in_place_cur s _ _ H1) as [s1 [Hs1 Hc1]]. exists s1. rewrite Hc1. auto.
  - destruct (triangulate_accepts O (cur s) HW) as [r1 [H1 [HW1 HT1]]].
    destruct (in_place_cur s _ _ H1) as [s1 [Hs1 Hc1]]. rewrite Hs1. cbn [bind]. rewrite <- Hc1 in HW1, HT1.
    destruct (loop_iter_accepts (Z.to_nat (loop_iters n)) s1 HW1 HT1) as [s2 [H2 [HW2 _]]]. eauto.
  - apply quads3_accepts; auto.
  - apply tri6_iter_accepts; auto.
Qed.

(* a history is admissible when every face id it mentions exists at the time it is used *)
Fixpoint hist_valid (s : @sstate P) (ops : list sop) : Prop :=
  match ops with
  | [] => True
  | o :: t => op_valid (cur s) o /\ forall s', sstep O s o = Ok s' -> hist_valid s' t
  end.

Theorem history_accepts ops (s : @sstate P) :
  WF (cur s) -> hist_valid s ops -> exists s', foldM (sstep O) ops s = Ok s' /\ WF (cur s').
Proof.
  revert s. induction ops as [|o t IH]; intros s HW Hh; cbn [foldM]; [eauto|].
  destruct Hh as [Hv Hn]. destruct (sstep_accepts s o HW Hv) as [s1 [H1 HW1]]. rewrite H1. cbn [bind]. apply IH; auto.
Qed.

Corollary run_surface_accepts a ops :
  WF a -> hist_valid (surf_enter a) ops -> exists res, run_surface O a ops = Ok res.
Proof.
  intros HW Hh. unfold run_surface. destruct (history_accepts ops (surf_enter a) HW Hh) as [s' [H _]]. rewrite H. cbn. eauto.
Qed.


End Accept2.

(* ------------------------------------------------------------------ the mesh a SurfaceMesh is built from is well-formed *)
Section InputWF.
Context {P : Type}.

Definition input_ok (nv : Z) (F : list (list Z)) : Prop :=
  Forall (fun f => face_ok nv f /\ forall a b, In (a, b) (dedges f) -> a <> b) F.

Lemma keyE_valid n a b : vert_ok n a -> vert_ok n b -> a <> b -> edge_valid n (keyE (a, b)) = true.
Proof.
  intros Ha Hb Hab. rewrite keyE_pair. unfold edge_valid, vert_ok in *.
  destruct (keyify2_cases a b) as [-> | ->]; cbn [fst snd];
    repeat (apply andb_true_intro; split); try (apply Z.leb_le; lia); try (apply Z.ltb_lt; lia);
    apply negb_true_iff, Z.eqb_neq; lia.
Qed.

Theorem prepared_input_WF (V : list P) (F : list (list Z)) :
  input_ok (Zlen V) F -> WF (pr (prepare (mkraw V [] F []))).
Proof.
  intros Hin. unfold prepare. cbn [rf rc re rv complete_faces].
  set (es := complete_edges [] F).
  assert (Hes : forall e, In e es -> exists f a b, In f F /\ In (a, b) (dedges f) /\ e = keyE (a, b)).
  { intros e He. unfold es, complete_edges in He. destruct F as [|f0 F0]; [contradiction|]. cbn [app map] in He.
    apply dedupE_In_sub in He. apply in_flat_map in He as [f [Hf He]]. unfold face_edges in He.
    apply in_map_iff in He as [[a b] [<- Hd]]. exists f, a, b. auto. }
  assert (Hvalid : forallb (edge_valid (Zlen V)) es = true).
  { apply forallb_forall. intros e He. destruct (Hes e He) as [f [a [b [Hf [Hd ->]]]]].
    unfold input_ok in Hin. rewrite Forall_forall in Hin. destruct (Hin f Hf) as [[_ Hv] Hne].
    rewrite Forall_forall in Hv. apply dedges_In in Hd as Hab. destruct Hab as [Ha Hb]. apply keyE_valid; auto. }
  assert (Hnd : NoDup es).
  { unfold es, complete_edges. destruct F as [|f0 F0]; [constructor|]. cbn [app map]. apply dedupE_NoDup. }
  assert (Hid : map keyE es = es).
  { rewrite <- (map_id es) at 2. apply map_ext_in. intros e He. destruct (Hes e He) as [f [a [b [_ [_ ->]]]]]. apply keyE_idem. }
  rewrite (prepare_edges_clean _ _ Hvalid) by (rewrite Hid; exact Hnd). cbn [pr].
  unfold WF, nV. cbn [rv re rf]. unfold input_ok in Hin. split; [|split].
  - eapply Forall_impl; [|exact Hin]. intros f [H _]. exact H.
  - apply Forall_forall. intros e He. apply in_map_iff in He as [e0 [<- He0]].
    destruct (Hes e0 He0) as [f [a [b [Hf [Hd ->]]]]]. rewrite Forall_forall in Hin. destruct (Hin f Hf) as [[_ Hv] _].
    rewrite Forall_forall in Hv. apply dedges_In in Hd as [Ha Hb]. apply keyE_ok, keyE_ok. split; auto.
  - apply Forall_forall. intros f Hf d Hd. rewrite map_map.
    assert (He : In (keyE d) es).
    { unfold es, complete_edges. destruct F as [|f0 F0]; [contradiction|]. cbn [app map].
      destruct (dedupE_In_sup [] (flat_map face_edges (f0 :: F0)) (keyE d)) as [[]|H]; auto.
      apply in_flat_map. exists f. split; auto. unfold face_edges. apply in_map. exact Hd. }
    apply in_map_iff. exists (keyE d). split; auto. now rewrite !keyE_idem.
Qed.
End InputWF.
