(* C13 - aggregation of the proof files, Euler-characteristic corollaries of the counts, and the non-vacuity
   examples (concrete objects satisfying the hypotheses of the theorems exported in Props.v). *)
From Coq Require Import ZArith List Bool Lia Permutation QArith Qcanon.
Require Export MV.Lib.Base MV.C13.Defs MV.C13.Geom MV.C13.Gen MV.C13.Model MV.C13.Run.
Require Export MV.C13.Proofs_Base MV.C13.Proofs_Counts MV.C13.Proofs_Topo MV.C13.Proofs_Geom MV.C13.Proofs_GeomQ MV.C13.Proofs_GeomF MV.C13.Proofs_GeomV
               MV.C13.Proofs_Accept MV.C13.Proofs_Accept2 MV.C13.Proofs_Vol MV.C13.Proofs_Arg MV.C13.Proofs_Manifold MV.C13.Proofs_Manifold2 MV.C13.Proofs_Euler
               MV.C13.Proofs_Border MV.C13.Proofs_Comp MV.C13.Proofs_SD MV.C13.Proofs_Tri MV.C13.Proofs_VolTopo
               MV.C13.Proofs_Pos MV.C13.Proofs_GeomM MV.C13.Proofs_GeomMV MV.C13.Proofs_VolConf MV.C13.Proofs_VolConf2.
Import ListNotations.
Open Scope Z_scope.

Section Euler.
Context {P : Type} (O : pops P).
Definition chi2 (r : raw P) : Z := nV r - nE r + nF r.     (* surfaces *)
Definition chi1 (r : raw P) : Z := nV r - nE r.            (* polylines *)

Lemma euler_split_edge r e r' : split_edge O r e = Ok r' -> chi1 r' = chi1 r.
Proof. intros H. apply split_edge_counts in H as [H1 H2]. unfold chi1. lia. Qed.
Lemma euler_fan r f r' : split_face_as_fan O r f = Ok r' -> chi2 r' = chi2 r.
Proof.
  intros H. assert (exists F, getz (rf r) f = Ok F) as [F HF].
  { unfold split_face_as_fan in H. destruct (getz (rf r) f); [eauto|discriminate]. }
  destruct (fan_counts O r f r' F HF H) as [H1 [H2 H3]]. unfold chi2. lia.
Qed.
Lemma euler_triangulate_face r f r' : triangulate_face O r f = Ok r' -> chi2 r' = chi2 r.
Proof.
  intros H. assert (exists F, getz (rf r) f = Ok F) as [F HF].
  { unfold triangulate_face in H. destruct (getz (rf r) f); [eauto|discriminate]. }
  destruct (triangulate_face_counts O r f r' F HF H) as [H1 [H2 H3]]. unfold chi2.
  destruct (Z_lt_le_dec (Zlen F) 4) as [L|L]; [rewrite (H1 L); lia|].
  destruct (Z.eq_dec (Zlen F) 4) as [L4|L4]; [destruct (H2 L4) as [? [? ?]]; lia|].
  destruct (H3 ltac:(lia)) as [? [? ?]]. lia.
Qed.
Lemma euler_quads r r' : q3_core O r = Ok r' -> chi2 r' = chi2 r.
Proof. intros H. apply q3_core_counts in H as [H1 [H2 H3]]. unfold chi2. lia. Qed.
(* loop: V' = V + E and F' = 4F, so the Euler characteristic is preserved exactly when E' = 2E + 3F *)
Lemma euler_loop r r' : loop_step O r = Ok r' -> (chi2 r' = chi2 r <-> nE r' = 2 * nE r + 3 * nF r).
Proof. intros H. apply loop_step_counts in H as [H1 H2]. unfold chi2. lia. Qed.
Lemma euler_loop_full r r' :
  loop_step O r = Ok r' -> WF r -> oriented_tri (nV r) (rf r) -> simple_tri (rf r) -> exact_edges r -> chi2 r' = chi2 r.
Proof. intros H HW Ho Hs He. apply (proj2 (euler_loop r r' H)). now apply (loop_step_edge_count O r r' H HW Ho Hs He). Qed.
End Euler.

(* ------------------------------------------------------------------ non-vacuity: concrete objects meet the hypotheses *)
Definition ex_square_V : list pt := [(qz 0, qz 0, qz 0); (qz 4, qz 0, qz 0); (qz 4, qz 4, qz 0); (qz 0, qz 4, qz 0); (qz 2, qz 6, qz 0)].
Definition ex_square_F : list (list Z) := [[0; 1; 2; 3]; [3; 2; 4]].
Definition ex_square := input_surface ex_square_V ex_square_F.

Example ex_input_ok : input_ok (Zlen ex_square_V) ex_square_F.
Proof.
  change (Zlen ex_square_V) with 5. unfold input_ok, ex_square_F, face_ok, vert_ok, Zlen.
  repeat (apply Forall_cons || apply Forall_nil);
    (split; [split; [cbn; lia|repeat (apply Forall_cons || apply Forall_nil); lia]
            |intros a b H; cbn in H; repeat (destruct H as [H|H]; [inversion H; subst; lia|]); contradiction]).
Qed.
Example ex_WF : WF ex_square.
Proof. apply prepared_input_WF, ex_input_ok. Qed.
(* a quad and a triangle: loop_subdivision(1), 3quads, a fan of one of the quads, triangulate - all inside one block *)
Example ex_history_runs :
  exists r, run_surface QcO ex_square [Loop 1; Quads3; Fan 7; Triangulate] = Ok r /\ Zlen (rf (pr (res_mesh r))) = 74.
Proof. eexists. split; vm_compute; reflexivity. Qed.
Example ex_hist_valid : hist_valid QcO (surf_enter ex_square) [Triangulate; Fan 2; Loop 1].
Proof.
  cbn [hist_valid op_valid]. split; [exact I|]. intros s1 H1. vm_compute in H1. inversion H1; subst s1; clear H1. split.
  - vm_compute. split; congruence.
  - intros s2 H2. split; [exact I|]. intros s3 _. exact I.
Qed.
Example ex_loop_step_ok : exists r1 r2, triangulate QcO ex_square = Ok r1 /\ loop_step QcO r1 = Ok r2 /\ nF r2 = 12.
Proof. eexists. eexists. split; [vm_compute; reflexivity|]. split; vm_compute; reflexivity. Qed.
(* a closed surface (tetrahedron boundary): `closed` holds and loop/3quads apply *)
Definition ex_tet_F : list (list Z) := [[0; 1; 2]; [0; 3; 1]; [1; 3; 2]; [2; 3; 0]].
Example ex_closed : closed (dedges_all ex_tet_F).
Proof. unfold closed. vm_compute. perm_explicit. Qed.
(* a tetrahedral mesh of two cells: cell fan then two face-centre splits in one block *)
Definition ex_vol_V : list pt := [(qz 0, qz 0, qz 0); (qz 12, qz 0, qz 0); (qz 0, qz 12, qz 0); (qz 0, qz 0, qz 12); (qz 0, qz 0, qz (-12))].
Definition ex_vol_C : list (list Z) := [[0; 1; 2; 3]; [0; 2; 1; 4]].
Example ex_volume_runs :
  exists p, run_volume QcO (input_volume ex_vol_V ex_vol_C) [CellFan 0; FaceCentre 3; FaceCentre 8] = Ok p /\ Zlen (rc (pr p)) = 13.
Proof. eexists. split; vm_compute; reflexivity. Qed.
Example ex_WFv : WFv (input_volume ex_vol_V ex_vol_C).
Proof.
  apply prepared_volume_WFv. unfold ex_vol_C. repeat (apply Forall_cons || apply Forall_nil); (split; [reflexivity|]);
    repeat (apply Forall_cons || apply Forall_nil); unfold vert_ok; vm_compute; split; congruence.
Qed.
(* hypotheses of C13_topology_face_centre_conforming / C13_topology_volume_history_conforming: the two-cell mesh satisfies
   the invariant; its interior face 3 = [0;1;2] has two adjacent cells *)
Example ex_vol_inv : vol_inv (input_volume ex_vol_V ex_vol_C).
Proof.
  unfold input_volume. apply prepared_volume_inv.
  - unfold ex_vol_C. repeat (apply Forall_cons || apply Forall_nil); (split; [reflexivity|]);
      repeat (apply Forall_cons || apply Forall_nil); unfold vert_ok; vm_compute; split; congruence.
  - split; [unfold ex_vol_C; repeat constructor; cbn; intuition congruence|].
    intros t. apply cnt_le1. unfold ex_vol_C. repeat (apply FOP_cons || apply FOP_nil); repeat (apply Forall_cons || apply Forall_nil); vm_compute; reflexivity.
  - intros t. unfold uocc, sides_of, ex_vol_C. cbn [flat_map]. rewrite app_nil_r, filter_app, app_length.
    assert (D : forall c, In c [[0; 1; 2; 3]; [0; 2; 1; 4]] -> ForallOrdPairs (fun a b => seteqz a b = false) (tet_faces c)).
    { intros c [<-|[<-|[]]]; repeat (apply FOP_cons || apply FOP_nil); repeat (apply Forall_cons || apply Forall_nil); vm_compute; reflexivity. }
    pose proof (filter_le1 t _ (D [0; 1; 2; 3] ltac:(cbn; auto))). pose proof (filter_le1 t _ (D [0; 2; 1; 4] ltac:(cbn; auto))). lia.
Qed.
Example ex_face_centre_conforming :
  let r := input_volume ex_vol_V ex_vol_C in
  exists r', getz (rf r) 3 = Ok [0; 1; 2] /\ split_tet_from_face_center QcO r 3 = Ok r' /\ NoDup [0; 1; 2] /\ nC r' = 6.
Proof.
  cbv zeta. eexists. split; [vm_compute; reflexivity|]. split; [vm_compute; reflexivity|].
  split; [repeat constructor; cbn; intuition congruence|vm_compute; reflexivity].
Qed.
Example ex_volume_history_conforming :
  exists r', foldM (vstep QcO) [CellFan 0; FaceCentre 3; FaceCentre 8] (input_volume ex_vol_V ex_vol_C) = Ok r' /\ nC r' = 13.
Proof. eexists. split; vm_compute; reflexivity. Qed.
Example ex_cell_fan_untouched :
  let r := input_volume ex_vol_V ex_vol_C in
  exists r', getz (rc r) 0 = Ok [0; 1; 2; 3] /\ split_cell_as_fan QcO r 0 = Ok r' /\ getz (rc r') 1 = Ok [0; 2; 1; 4].
Proof. cbv zeta. eexists. split; [vm_compute; reflexivity|]. split; vm_compute; reflexivity. Qed.
(* face 0 = [1;3;2] lies in the first cell only: the second cell is left alone *)
Example ex_face_centre_untouched :
  let r := input_volume ex_vol_V ex_vol_C in
  exists r', getz (rf r) 0 = Ok [1; 3; 2] /\ split_tet_from_face_center QcO r 0 = Ok r' /\
             fc_adjacent [1; 3; 2] [0; 2; 1; 4] = false /\ getz (rc r') 1 = Ok [0; 2; 1; 4].
Proof. cbv zeta. eexists. split; [vm_compute; reflexivity|]. split; [vm_compute; reflexivity|]. split; vm_compute; reflexivity. Qed.
(* the field hypotheses of the geometry theorems hold for Qc *)
Example ex_field_Qc : two Qc (Q2Qc 1) Qcplus <> Q2Qc 0 /\ three Qc (Q2Qc 1) Qcplus <> Q2Qc 0.
Proof. split; intro H; vm_compute in H; discriminate. Qed.

(* the boundary of a tetrahedron is an oriented, simple triangle surface whose prepared edge list covers it *)
Definition ex_tet_V : list pt := [(qz 0, qz 0, qz 0); (qz 4, qz 0, qz 0); (qz 0, qz 4, qz 0); (qz 0, qz 0, qz 4)].
Definition ex_tet := input_surface ex_tet_V ex_tet_F.
Example ex_tet_oriented : oriented_tri (nV ex_tet) (rf ex_tet).
Proof.
  change (nV ex_tet) with 4. change (rf ex_tet) with ex_tet_F. unfold ex_tet_F. split.
  - cbn. repeat (apply NoDup_cons || apply NoDup_nil); cbn; intuition congruence.
  - repeat (apply Forall_cons || apply Forall_nil); (split; [reflexivity|split]);
      try (repeat (apply Forall_cons || apply Forall_nil); unfold vert_ok; lia);
      repeat (apply NoDup_cons || apply NoDup_nil); cbn; intuition congruence.
Qed.
Example ex_tet_simple : simple_tri (rf ex_tet).
Proof.
  change (rf ex_tet) with ex_tet_F. intros A B C H H'. cbn in H, H'.
  repeat (destruct H as [H|H]; [inversion H; subst; clear H; repeat (destruct H' as [H'|H']; [discriminate|]); contradiction|]).
  contradiction.
Qed.
Example ex_tet_input_ok : input_ok (Zlen ex_tet_V) ex_tet_F.
Proof.
  change (Zlen ex_tet_V) with 4. unfold input_ok, ex_tet_F, face_ok, vert_ok, Zlen.
  repeat (apply Forall_cons || apply Forall_nil);
    (split; [split; [cbn; lia|repeat (apply Forall_cons || apply Forall_nil); lia]
            |intros a b H; cbn in H; repeat (destruct H as [H|H]; [inversion H; subst; lia|]); contradiction]).
Qed.
Example ex_tet_WF : WF ex_tet.
Proof. apply prepared_input_WF, ex_tet_input_ok. Qed.
Example ex_tet_covered : Forall (covered (re ex_tet)) (rf ex_tet).
Proof. apply ex_tet_WF. Qed.
Example ex_tet_exact : exact_edges ex_tet.
Proof. apply prepared_input_exact, ex_tet_input_ok. Qed.
(* loop_subdivision(2) of the tetrahedron boundary: 4 -> 64 faces, 6 -> 96 edges, 4 -> 34 vertices, chi = 2 *)
Example ex_tet_loop2 : exists s', (sstep QcO (surf_enter ex_tet) (Loop 2) = Ok s') /\ nV (cur s') = 34 /\ nE (cur s') = 96 /\ nF (cur s') = 64.
Proof. eexists. split; [vm_compute; reflexivity|]. repeat split; vm_compute; reflexivity. Qed.
(* a polygonal surface for the in-place operations: the quad (0,1,2,3) with a triangle on its side 2-3; the cut 1-3 is free *)
Example ex_square_oriented : oriented_poly (nV ex_square) (rf ex_square).
Proof.
  change (nV ex_square) with 5. change (rf ex_square) with ex_square_F. unfold ex_square_F. split.
  - cbn. repeat (apply NoDup_cons || apply NoDup_nil); cbn; intuition congruence.
  - repeat (apply Forall_cons || apply Forall_nil); (split; [unfold Zlen; cbn; lia|split]);
      try (repeat (apply Forall_cons || apply Forall_nil); unfold vert_ok; lia);
      repeat (apply NoDup_cons || apply NoDup_nil); cbn; intuition congruence.
Qed.
Example ex_square_cut_free : ~ In (1, 3) (dedges_all (rf ex_square)) /\ ~ In (3, 1) (dedges_all (rf ex_square)).
Proof. change (rf ex_square) with ex_square_F. cbn. intuition congruence. Qed.

(* the guard of the whole-loop triangulate theorem holds for the quad-with-a-triangle example *)
Example ex_square_cuts_free : cuts_free (rf ex_square).
Proof.
  change (rf ex_square) with ex_square_F. unfold ex_square_F. split.
  - intros i A B C D H. apply getz_Ok in H as [Hi H]. unfold Zlen in Hi. cbn [length] in Hi.
    assert (i = 0 \/ i = 1) as [-> | ->] by lia; cbn in H; inversion H; subst. cbn. intuition congruence.
  - intros i j A B C D A' B' C' D' Hne H H'. apply getz_Ok in H as [Hi H]. apply getz_Ok in H' as [Hj H']. unfold Zlen in Hi, Hj. cbn [length] in Hi, Hj.
    assert (i = 0 \/ i = 1) as [-> | ->] by lia; assert (j = 0 \/ j = 1) as [-> | ->] by lia; cbn in H, H'; try lia; discriminate.
Qed.
(* the tetrahedron boundary has no border edge; the single triangle has three *)
Example ex_border : is_border (dedges_all w_tri_F) (0, 1) /\ forall e, ~ is_border (dedges_all ex_tet_F) e.
Proof.
  split.
  - split; [cbn; auto|]. unfold swap. cbn. intros H. repeat (destruct H as [H|H]; [discriminate|]). contradiction.
  - intros e [H Hn]. apply Hn. cbn in H. repeat (destruct H as [H|H]; [subst e; unfold swap; cbn; tauto|]). contradiction.
Qed.
