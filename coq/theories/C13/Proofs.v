(* C13 - proofs (aggregated) *)
From Coq Require Import ZArith List Bool Lia.
Require Import MV.Lib.Base MV.C13.Defs MV.C13.Gen MV.C13.Model.
Import ListNotations.
Open Scope Z_scope.

Lemma Zlen_app {A} (a b : list A) : Zlen (a ++ b) = Zlen a + Zlen b.
Proof. unfold Zlen. rewrite app_length. lia. Qed.
