(* C13 - split_cell_as_fan preserves conformity of the whole tetrahedral mesh: every triangle (as a vertex set) that was a
   side of k cells is afterwards a side of k cells (so border sides stay border, interior ones interior), and every new
   triangle is a side of exactly at most two of the new cells. *)
From Coq Require Import ZArith List Bool Lia Permutation.
Require Import MV.Lib.Base MV.C13.Defs MV.C13.Gen MV.C13.Model MV.C13.Proofs_Base MV.C13.Proofs_Counts MV.C13.Proofs_Accept
               MV.C13.Proofs_Vol MV.C13.Proofs_VolTopo.
Import ListNotations.
Open Scope Z_scope.

Lemma memz_In x l : memz x l = true <-> In x l.
Proof. unfold memz. rewrite existsb_exists. split; [intros [y [H E]]; apply Z.eqb_eq in E; now subst|intros H; exists x; split; auto; apply Z.eqb_refl]. Qed.
Lemma subsetz_spec a b : subsetz a b = true <-> forall x, In x a -> In x b.
Proof. unfold subsetz. rewrite forallb_forall. split; intros H x Hx; [apply memz_In|apply memz_In]; auto. Qed.
Lemma seteqz_spec a b : seteqz a b = true <-> forall x, In x a <-> In x b.
Proof.
  unfold seteqz. rewrite andb_true_iff, !subsetz_spec. split; [intros [H1 H2] x; split; auto|intros H; split; intros x Hx; apply H; auto].
Qed.

(* number of cell sides on the vertex set of t *)
Definition uocc (cells : list (list Z)) (t : list Z) : nat := length (filter (seteqz t) (sides_of cells)).
Definition conforming (cells : list (list Z)) : Prop := forall t, (uocc cells t <= 2)%nat.

Lemma filter_perm_length {A} (p : A -> bool) l l' : Permutation l l' -> length (filter p l) = length (filter p l').
Proof. induction 1; cbn; auto; try (destruct (p x); cbn; auto); try (destruct (p y), (p x); cbn; auto); congruence. Qed.

Lemma rewrite_flat_map {A B} (g : A -> list B) (fs : list A) k F T Ts X :
  getz fs k = Ok F -> Permutation (g T ++ flat_map g Ts) (g F ++ X) ->
  Permutation (flat_map g (updz fs k T ++ Ts)) (flat_map g fs ++ X).
Proof.
  intros H Hp. apply getz_Ok in H as [_ H]. apply nth_error_split in H as [l1 [l2 [-> L]]].
  assert (E : updz (l1 ++ F :: l2) k T = l1 ++ T :: l2).
  { unfold updz. rewrite <- L. clear. induction l1 as [|a t IH]; cbn; [reflexivity|]. now rewrite IH. }
  rewrite E, !flat_map_app. cbn [flat_map]. rewrite <- !app_assoc. apply Permutation_app_head.
  eapply Permutation_trans; [apply Permutation_app_head, Permutation_app_comm|]. rewrite app_assoc.
  eapply Permutation_trans; [apply Permutation_app_tail, Hp|]. rewrite <- !app_assoc. apply Permutation_app_head.
  apply Permutation_app_comm.
Qed.

(* at most one of pairwise different vertex sets equals a given one *)
Lemma filter_le1 t l : ForallOrdPairs (fun a b => seteqz a b = false) l -> (length (filter (seteqz t) l) <= 1)%nat.
Proof.
  induction 1 as [|a l Ha _ IH]; cbn; [lia|]. destruct (seteqz t a) eqn:E; [|exact IH]. cbn.
  assert (Hnone : filter (seteqz t) l = []).
  { clear IH. induction l as [|b l IHl]; [reflexivity|]. inversion Ha as [|? ? Hab Ha']; subst. cbn.
    destruct (seteqz t b) eqn:Eb; [|auto]. exfalso.
    assert (Hab' : seteqz a b = true).
    { apply seteqz_spec. intros x. rewrite <- (proj1 (seteqz_spec t a) E x). apply (proj1 (seteqz_spec t b) Eb x). }
    congruence. }
  rewrite Hnone. cbn. lia.
Qed.

Ltac diff3 :=
  match goal with |- seteqz [?x; ?y; ?z] [?u; ?v; ?w] = false =>
    let E := fresh "E" in let Hs := fresh "Hs" in
    destruct (seteqz [x; y; z] [u; v; w]) eqn:E;
      [exfalso; pose proof (proj1 (seteqz_spec _ _) E) as Hs;
       pose proof (proj1 (Hs x) ltac:(cbn; auto)); pose proof (proj1 (Hs y) ltac:(cbn; auto)); pose proof (proj1 (Hs z) ltac:(cbn; auto));
       cbn in *; lia
      |reflexivity]
  end.

Lemma cf_I_different A B C D ib :
  A <> B -> A <> C -> A <> D -> B <> C -> B <> D -> C <> D -> A < ib -> B < ib -> C < ib -> D < ib ->
  ForallOrdPairs (fun a b => seteqz a b = false) (cf_I A B C D ib) /\ ForallOrdPairs (fun a b => seteqz a b = false) (cf_I' A B C D ib).
Proof.
  intros. unfold cf_I, cf_I'. split; repeat (apply FOP_cons || apply FOP_nil); repeat (apply Forall_cons || apply Forall_nil); diff3.
Qed.

Section Conf.
Context {P : Type} (O : pops P).
Notation raw := (raw P).

Theorem cell_fan_conforming (r r' : raw) c A B C D :
  getz (rc r) c = Ok [A; B; C; D] -> split_cell_as_fan O r c = Ok r' -> WFv r -> NoDup [A; B; C; D] ->
  (forall t, ~ In (nV r) t -> uocc (rc r') t = uocc (rc r) t) /\
  (forall t, In (nV r) t -> (uocc (rc r') t <= 2)%nat) /\
  (conforming (rc r) -> conforming (rc r')).
Proof.
  intros Hc H [Hcells _] Hnd. pose proof (getz_In _ _ _ Hc) as HIn.
  assert (Hrc : rc r' = updz (rc r) c (cf_replace A B C D (nV r)) ++ cf_cells A B C D (nV r)).
  { unfold split_cell_as_fan in H. rewrite Hc in H. cbn [bind] in H. change (cf_skip (Zlen [A; B; C; D])) with false in H. cbn iota in H.
    apply bind_Ok in H as [pA [_ H]]. apply bind_Ok in H as [pB [_ H]]. apply bind_Ok in H as [pC [_ H]]. apply bind_Ok in H as [pD [_ H]].
    inversion H; reflexivity. }
  set (ib := nV r) in *. set (I := cf_I A B C D ib). set (I' := cf_I' A B C D ib).
  assert (HP : Permutation (sides_of (rc r')) (sides_of (rc r) ++ I ++ I')).
  { rewrite Hrc. unfold sides_of. apply (rewrite_flat_map tet_faces (rc r) c [A; B; C; D] _ _ _ Hc). apply cell_fan_sides_perm. }
  assert (Hold : forall s, In s (sides_of (rc r)) -> forall v, In v s -> v < ib).
  { intros s Hs v Hv. unfold sides_of in Hs. apply in_flat_map in Hs as [cell [Hcell Hs]]. rewrite Forall_forall in Hcells.
    destruct (Hcells cell Hcell) as [L Hvs]. destruct cell as [|a [|b [|c0 [|d [|? ?]]]]]; try (unfold Zlen in L; cbn [length] in L; lia).
    rewrite Forall_forall in Hvs. assert (Hv4 : In v [a; b; c0; d]) by (cbn in Hs; destruct Hs as [<-|[<-|[<-|[<-|[]]]]]; cbn in Hv |- *; tauto).
    specialize (Hvs v Hv4). unfold vert_ok, ib in *. lia. }
  assert (Hcnt : forall t, uocc (rc r') t = (uocc (rc r) t + length (filter (seteqz t) I) + length (filter (seteqz t) I'))%nat).
  { intros t. unfold uocc. rewrite (filter_perm_length _ _ _ HP), !filter_app, !app_length. lia. }
  assert (HinI : Forall (fun s => In ib s) I /\ Forall (fun s => In ib s) I').
  { unfold I, I', cf_I, cf_I'. split; repeat (apply Forall_cons || apply Forall_nil); cbn; tauto. }
  destruct HinI as [HinI HinI'].
  assert (Hzero : forall t l, Forall (fun s => In ib s) l -> ~ In ib t -> filter (seteqz t) l = []).
  { intros t l Hl Ht. induction Hl as [|s l Hs _ IH]; [reflexivity|]. cbn. destruct (seteqz t s) eqn:E; [|exact IH].
    exfalso. apply Ht. apply (proj1 (seteqz_spec t s) E). exact Hs. }
  assert (Hnew : forall t, In ib t -> (uocc (rc r') t <= 2)%nat).
  { intros t Ht. rewrite Hcnt.
    assert (Z0 : uocc (rc r) t = 0%nat).
    { unfold uocc. destruct (filter (seteqz t) (sides_of (rc r))) as [|s l] eqn:Ef; [reflexivity|]. exfalso.
      assert (Hs : In s (filter (seteqz t) (sides_of (rc r)))) by (rewrite Ef; left; reflexivity).
      apply filter_In in Hs as [Hs E]. pose proof (Hold s Hs ib (proj1 (proj1 (seteqz_spec t s) E ib) Ht)). lia. }
    rewrite Z0.
    inversion Hnd as [|? ? NA Hnd1]; subst. inversion Hnd1 as [|? ? NB Hnd2]; subst. inversion Hnd2 as [|? ? NC _]; subst. cbn in NA, NB, NC.
    assert (LA : A < ib /\ B < ib /\ C < ib /\ D < ib).
    { rewrite Forall_forall in Hcells. destruct (Hcells _ HIn) as [_ Hvs]. rewrite Forall_forall in Hvs. unfold vert_ok, ib in *.
      repeat split; apply Hvs; cbn; auto. }
    destruct LA as [LA [LB [LC LD]]].
    assert (HD : ForallOrdPairs (fun a b => seteqz a b = false) I /\ ForallOrdPairs (fun a b => seteqz a b = false) I').
    { apply cf_I_different; try lia; intros E; subst; tauto. }
    destruct HD as [D1 D2].
    pose proof (filter_le1 t I D1). pose proof (filter_le1 t I' D2). lia. }
  split; [|split; [exact Hnew|]].
  - intros t Ht. rewrite Hcnt, (Hzero t I HinI Ht), (Hzero t I' HinI' Ht). cbn. lia.
  - intros Hconf t. destruct (In_dec Z.eq_dec ib t) as [Hin|Hnin]; [apply Hnew; auto|].
    rewrite Hcnt, (Hzero t I HinI Hnin), (Hzero t I' HinI' Hnin). cbn. pose proof (Hconf t). lia.
Qed.

End Conf.
