(* C13 - where the vertices of the model's OUTPUT are: every operation keeps the old vertex list as a prefix (original
   vertices in place, same numbering) and appends, in a stated order, the midpoint of edge k / the barycentre of face j /
   of the cell - computed by the generated formulas from the old positions. *)
From Coq Require Import ZArith List Bool Lia.
Require Import MV.Lib.Base MV.C13.Defs MV.C13.Gen MV.C13.Model MV.C13.Proofs_Base MV.C13.Proofs_Counts.
Import ListNotations.
Open Scope Z_scope.

Lemma firstn_app_exact {A} (l l' : list A) : firstn (length l) (l ++ l') = l.
Proof. rewrite firstn_app, Nat.sub_diag, firstn_all. cbn. apply app_nil_r. Qed.
Lemma nth_error_app_offset {A} (l l' : list A) k : nth_error (l ++ l') (length l + k) = nth_error l' k.
Proof. rewrite nth_error_app2 by lia. f_equal. lia. Qed.

Lemma Forall2_impl' {A B} (R R' : A -> B -> Prop) l l' :
  (forall x y, R x y -> R' x y) -> Forall2 R l l' -> Forall2 R' l l'.
Proof. intros H. induction 1; constructor; auto. Qed.

Section Pos.
Context {P : Type} (O : pops P).
Notation raw := (raw P).

(* midpoint of a listed edge, from the old positions of its end points *)
Definition is_mid (mid : P -> P -> P) (r : raw) (e : edge) (p : P) : Prop :=
  exists pA pB, getz (rv r) (fst e) = Ok pA /\ getz (rv r) (snd e) = Ok pB /\ p = mid pA pB.
(* barycentre (formula bary) of a face / cell, from the old positions of its vertices *)
Definition is_bary (bary : list P -> P) (r : raw) (F : list Z) (p : P) : Prop :=
  exists ps, pts_of r F = Ok ps /\ p = bary ps.

Lemma edge_mids_spec mid (r : raw) ms : edge_mids mid r = Ok ms -> Forall2 (is_mid mid r) (re r) ms.
Proof.
  unfold edge_mids. intros H. apply mapM_Forall2 in H. eapply Forall2_impl'; [|exact H].
  intros e p Hp. apply bind_Ok in Hp as [pA [HA Hp]]. apply bind_Ok in Hp as [pB [HB Hp]]. inversion Hp; subst. exists pA, pB. auto.
Qed.

Theorem split_edge_vertices (r r' : raw) e :
  split_edge O r e = Ok r' ->
  exists x p, getz (re r) e = Ok x /\ is_mid (se_mid O) r x p /\ rv r' = rv r ++ [p].
Proof.
  unfold split_edge. intros H. apply bind_Ok in H as [[A B] [HE H]]. apply bind_Ok in H as [pA [HA H]]. apply bind_Ok in H as [pB [HB H]].
  inversion H; subst; clear H. exists (A, B), (se_mid O pA pB). split; auto. split; [exists pA, pB; auto|reflexivity].
Qed.

Theorem fan_vertices (r r' : raw) f :
  split_face_as_fan O r f = Ok r' ->
  exists F p, getz (rf r) f = Ok F /\ is_bary (fun ps => fan_bary O ps (Zlen F)) r F p /\ rv r' = rv r ++ [p].
Proof.
  unfold split_face_as_fan. intros H. apply bind_Ok in H as [F [HF H]]. apply bind_Ok in H as [ps [Hps H]].
  destruct (Zlen F =? 0); [discriminate|]. destruct (Zlen F <? 2); [discriminate|]. inversion H; subst; clear H.
  exists F, (fan_bary O ps (Zlen F)). split; auto. split; [exists ps; auto|reflexivity].
Qed.

Theorem quad_split_vertices (r r' : raw) f A B C D :
  getz (rf r) f = Ok [A; B; C; D] -> triangulate_face O r f = Ok r' -> rv r' = rv r.
Proof.
  intros HF H. unfold triangulate_face in H. rewrite HF in H. cbn [bind] in H.
  change (tf_branch (Zlen [A; B; C; D])) with 1 in H. cbn iota in H. inversion H; reflexivity.
Qed.

Theorem loop_step_vertices (r r' : raw) :
  loop_step O r = Ok r' -> exists ms, rv r' = rv r ++ ms /\ Forall2 (is_mid (loop_mid O) r) (re r) ms.
Proof.
  unfold loop_step. intros H. apply bind_Ok in H as [ms [Hms H]]. apply bind_Ok in H as [fe [_ H]]. inversion H; subst; clear H.
  exists ms. split; [reflexivity|]. now apply edge_mids_spec.
Qed.

Theorem q3_core_vertices (r r' : raw) :
  q3_core O r = Ok r' ->
  exists ms bs, rv r' = rv r ++ ms ++ bs /\ Forall2 (is_mid (q3_mid O) r) (re r) ms /\ Forall2 (is_bary (q3_bary O) r) (rf r) bs.
Proof.
  unfold q3_core. intros H. apply bind_Ok in H as [ms [Hms H]]. apply bind_Ok in H as [bs [Hbs H]]. apply bind_Ok in H as [fe [_ H]].
  inversion H; subst; clear H. exists ms, bs. split; [reflexivity|]. split; [now apply edge_mids_spec|].
  apply mapM_Forall2 in Hbs. eapply Forall2_impl'; [|exact Hbs]. intros F p Hp. apply bind_Ok in Hp as [ps [Hps Hp]]. inversion Hp; subst.
  exists ps. auto.
Qed.

Theorem cell_fan_vertices (r r' : raw) c A B C D :
  getz (rc r) c = Ok [A; B; C; D] -> split_cell_as_fan O r c = Ok r' ->
  exists pA pB pC pD, getz (rv r) A = Ok pA /\ getz (rv r) B = Ok pB /\ getz (rv r) C = Ok pC /\ getz (rv r) D = Ok pD /\
    rv r' = rv r ++ [cf_bary O pA pB pC pD] /\ rc r' = updz (rc r) c (cf_replace A B C D (nV r)) ++ cf_cells A B C D (nV r).
Proof.
  intros Hc H. unfold split_cell_as_fan in H. rewrite Hc in H. cbn [bind] in H.
  change (cf_skip (Zlen [A; B; C; D])) with false in H. cbn iota in H.
  apply bind_Ok in H as [pA [HA H]]. apply bind_Ok in H as [pB [HB H]]. apply bind_Ok in H as [pC [HC H]]. apply bind_Ok in H as [pD [HD H]].
  inversion H; subst; clear H. exists pA, pB, pC, pD. repeat split; auto.
Qed.

Theorem face_centre_vertices (r r' : raw) fid A B C :
  getz (rf r) fid = Ok [A; B; C] -> split_tet_from_face_center O r fid = Ok r' ->
  exists p, is_bary (fc_bary O) r [A; B; C] p /\ rv r' = rv r ++ [p].
Proof.
  intros Hf H. unfold split_tet_from_face_center in H. rewrite Hf in H. cbn [bind] in H.
  change (fc_skip (Zlen [A; B; C])) with false in H. cbn iota in H.
  apply bind_Ok in H as [ps [Hps H]]. apply bind_Ok in H as [cells [_ H]]. inversion H; subst; clear H.
  exists (fc_bary O ps). split; [exists ps; auto|reflexivity].
Qed.

(* consequences in index form *)
Corollary prefix_in_place (l ms : list P) : firstn (length l) (l ++ ms) = l /\ forall k, nth_error (l ++ ms) (length l + k) = nth_error ms k.
Proof. split; [apply firstn_app_exact|intros k; apply nth_error_app_offset]. Qed.

Corollary loop_step_vertex_k (r r' : raw) k e :
  loop_step O r = Ok r' -> nth_error (re r) k = Some e ->
  firstn (length (rv r)) (rv r') = rv r /\
  exists p, nth_error (rv r') (length (rv r) + k) = Some p /\ is_mid (loop_mid O) r e p.
Proof.
  intros H He. destruct (loop_step_vertices r r' H) as [ms [-> Hms]]. split; [apply firstn_app_exact|].
  rewrite nth_error_app_offset. clear H. revert k He. induction Hms as [|x p l l' Hxp _ IH]; intros [|k] He; cbn in *; try discriminate.
  - inversion He; subst. eauto.
  - eauto.
Qed.

End Pos.
