(* C13 - basic vocabulary of the subdivision model: results with explicit Python exceptions, point
   operations (abstract: the same definitions are executed over Qc and reasoned about over any field),
   raw mesh data, keyify, list helpers.  Executable definitions only, no proofs. *)
From Coq Require Import ZArith List Bool.
Require Import MV.Lib.Base.
Import ListNotations.
Open Scope Z_scope.

(* ------------------------------------------------------------------ results / exceptions *)
Inductive err := KeyError | IndexError | ValueError | ZeroDivision | OtherError.
Inductive res (A : Type) := Ok (a : A) | Err (e : err).
Arguments Ok {A} a. Arguments Err {A} e.

Definition bind {A B} (x : res A) (f : A -> res B) : res B :=
  match x with Ok a => f a | Err e => Err e end.
Notation "x <- e1 ;; e2" := (bind e1 (fun x => e2)) (at level 61, e1 at next level, right associativity).
Notation "' p <- e1 ;; e2" := (bind e1 (fun p => e2)) (at level 61, p pattern, e1 at next level, right associativity).

Fixpoint mapM {A B} (f : A -> res B) (l : list A) : res (list B) :=
  match l with
  | [] => Ok []
  | x :: t => y <- f x ;; ys <- mapM f t ;; Ok (y :: ys)
  end.

Fixpoint foldM {A S} (f : S -> A -> res S) (l : list A) (s : S) : res S :=
  match l with
  | [] => Ok s
  | x :: t => s' <- f s x ;; foldM f t s'
  end.

Definition err_eqb (a b : err) : bool :=
  match a, b with
  | KeyError, KeyError | IndexError, IndexError | ValueError, ValueError
  | ZeroDivision, ZeroDivision | OtherError, OtherError => true
  | _, _ => false
  end.

(* ------------------------------------------------------------------ lists indexed by Z *)
Definition Zlen {A} (l : list A) : Z := Z.of_nat (length l).

(* container[i] for 0 <= i; an index >= len raises IndexError. (Python also accepts -len <= i < 0;
   no documented input uses a negative id and the model reports IndexError for them.) *)
Definition getz {A} (l : list A) (i : Z) : res A :=
  if i <? 0 then Err IndexError
  else match nth_error l (Z.to_nat i) with Some x => Ok x | None => Err IndexError end.

Fixpoint upd {A} (l : list A) (i : nat) (v : A) : list A :=
  match l, i with
  | [], _ => []
  | _ :: t, O => v :: t
  | h :: t, S j => h :: upd t j v
  end.
Definition updz {A} (l : list A) (i : Z) (v : A) : list A := upd l (Z.to_nat i) v.

(* ------------------------------------------------------------------ keyify / edges *)
Notation edge := (Z * Z)%type (only parsing).
Definition keyify2 (a b : Z) : edge := if a <=? b then (a, b) else (b, a).
Definition keyE (e : edge) : edge := keyify2 (fst e) (snd e).
Definition edge_eqb (e f : edge) : bool := (fst e =? fst f) && (snd e =? snd f).
Definition mem_edge (e : edge) (l : list edge) : bool := existsb (edge_eqb e) l.

(* first occurrences, in order: list(dict.fromkeys(l)); a Python set holds the same elements in an order the
   model does not fix (results that passed through a set are compared as sets) *)
Fixpoint dedupE (seen : list edge) (l : list edge) : list edge :=
  match l with
  | [] => []
  | e :: t => if mem_edge e seen then dedupE seen t else e :: dedupE (e :: seen) t
  end.

(* sorted-tuple key of a face / of a cell side (keyify of a sequence): insertion sort on Z *)
Fixpoint insz (x : Z) (l : list Z) : list Z :=
  match l with
  | [] => [x]
  | y :: t => if x <=? y then x :: l else y :: insz x t
  end.
Definition sortz (l : list Z) : list Z := fold_right insz [] l.
Definition lz_eqb (a b : list Z) : bool := list_eqb Z.eqb a b.
Definition memz (x : Z) (l : list Z) : bool := existsb (Z.eqb x) l.
Definition subsetz (a b : list Z) : bool := forallb (fun x => memz x b) a.
Definition seteqz (a b : list Z) : bool := subsetz a b && subsetz b a.

(* ------------------------------------------------------------------ points *)
Record pops (P : Type) := { padd : P -> P -> P; pdivz : P -> Z -> P; pzero : P }.
Arguments padd {P}. Arguments pdivz {P}. Arguments pzero {P}.
(* Python's sum([p0, p1, ...]) = ((0 + p0) + p1) + ... *)
Definition psum {P} (O : pops P) (l : list P) : P := fold_left (padd O) l (pzero O).

(* ------------------------------------------------------------------ raw mesh data (the four element containers) *)
Record raw (P : Type) := mkraw { rv : list P; re : list edge; rf : list (list Z); rc : list (list Z) }.
Arguments mkraw {P}. Arguments rv {P}. Arguments re {P}. Arguments rf {P}. Arguments rc {P}.

(* directed edges (half-edges) of a face, of a face list *)
Definition dedges (f : list Z) : list edge :=
  match f with
  | [] => []
  | x :: t => combine f (t ++ [x])
  end.
Definition dedges_all (fs : list (list Z)) : list edge := flat_map dedges fs.
