(* C13 - the mesh object that was passed to the editing block, afterwards.
   Full statement (FALSE of the faithful model - known finding C13/input-object-half-updated):
     for every input a0, history ops and flag q (connectivity queried before or not),
       run_surface a0 ops = Ok r -> input_object_ok q a0 r.
   Refuted by two witnesses; proved under the guard that no operation replaced the raw data and the
   connectivity had not been queried before (then the object IS the result, container by container).
   Also: the recorded witness of the second known finding (a quad cut along a diagonal that is already
   joined by another face). *)
From Coq Require Import ZArith List Bool Lia QArith Qcanon.
Require Import MV.Lib.Base MV.C13.Defs MV.C13.Geom MV.C13.Gen MV.C13.Model MV.C13.Run MV.C13.Proofs_Base.
Import ListNotations.
Open Scope Z_scope.

Section Arg.
Context {P : Type} (O : pops P).

Definition arg_unchanged (a0 : raw P) (a : argobj) : Prop :=
  aV a = rv a0 /\ aE a = re a0 /\ aF a = rf a0 /\ aCorn a = corners (rf a0).
Definition arg_is_result (p : prepared) (a : @argobj P) : Prop :=
  aV a = rv (pr p) /\ aE a = re (pr p) /\ aF a = rf (pr p) /\ aCorn a = pcorn p.
(* the sentence of the property about the object passed in *)
Definition input_object_ok (q : bool) (a0 : raw P) (r : sresult) : Prop :=
  (arg_unchanged a0 (res_arg r) \/ arg_is_result (res_mesh r) (res_arg r)) /\ arg_conn_ok q a0 (res_arg r) = true.

(* operations that edit the shared containers in place and never replace the raw data *)
Definition in_place_op (o : sop) : Prop :=
  match o with
  | TriFace _ | Fan _ | Triangulate => True
  | Loop n => loop_iters n <= 0
  | Tri6 k => t6_iters k <= 0
  | Quads3 => False
  end.

Lemma in_place_det (s s' : @sstate P) f : in_place s f = Ok s' -> det s' = det s.
Proof. unfold in_place. intros H. apply bind_Ok in H as [r [_ H]]. inversion H; subst. reflexivity. Qed.

Lemma sstep_det s o s' : in_place_op o -> sstep O s o = Ok s' -> det s' = det s.
Proof.
  destruct o as [f|f| |n| |k]; cbn [in_place_op sstep]; intros Hop H; try contradiction.
  - eapply in_place_det; eauto.
  - eapply in_place_det; eauto.
  - eapply in_place_det; eauto.
  - apply bind_Ok in H as [s1 [H1 H]]. replace (Z.to_nat (loop_iters n)) with 0%nat in H by lia. cbn in H.
    inversion H; subst. eapply in_place_det; eauto.
  - replace (Z.to_nat (t6_iters k)) with 0%nat in H by lia. cbn in H. inversion H; subst. reflexivity.
Qed.

Lemma hist_det ops s s' : Forall in_place_op ops -> foldM (sstep O) ops s = Ok s' -> det s' = det s.
Proof.
  revert s. induction ops as [|o t IH]; intros s Hf H; cbn [foldM] in H; [inversion H; subst; reflexivity|].
  inversion Hf as [|? ? Ho Ht]; subst. apply bind_Ok in H as [s1 [H1 H]].
  rewrite (IH _ Ht H). eapply sstep_det; eauto.
Qed.

Lemma corn_eqb_refl l : corn_eqb l l = true.
Proof. unfold corn_eqb. apply list_eqb_spec; [|reflexivity]. intros x y. apply edge_eqb_eq. Qed.

Theorem input_object_partial a0 ops r :
  Forall in_place_op ops -> run_surface O a0 ops = Ok r -> rebuilt (res_mesh r) = false ->
  arg_is_result (res_mesh r) (res_arg r) /\ input_object_ok false a0 r.
Proof.
  intros Hops H Hrb. unfold run_surface in H. apply bind_Ok in H as [s [Hs H]]. inversion H; subst r; clear H.
  pose proof (hist_det _ _ _ Hops Hs) as Hd. cbn [surf_enter det] in Hd.
  unfold surf_exit in *. cbn [res_mesh res_arg] in *. rewrite Hd in *. rewrite Hrb.
  assert (E : arg_is_result (prepare (cur s))
                (mkarg (rv (pr (prepare (cur s)))) (re (pr (prepare (cur s)))) (rf (pr (prepare (cur s))))
                       (rc (pr (prepare (cur s)))) (pcorn (prepare (cur s))) [])).
  { repeat split. }
  split; [exact E|]. split; [right; exact E|].
  unfold arg_conn_ok. cbn [aCorn aF]. unfold prepare.
  destruct (prepare_edges _ _) as [es rb]. cbn [pcorn pr rf]. apply corn_eqb_refl.
Qed.

End Arg.

(* ------------------------------------------------------------------ witnesses, evaluated on the model instance the
   correspondence batches run (exact rational coordinates) *)
Definition w_tri_V : list pt := [(qz 0, qz 0, qz 0); (qz 2, qz 0, qz 0); (qz 0, qz 2, qz 0)].
Definition w_tri_F : list (list Z) := [[0; 1; 2]].

(* 1. a single triangle, loop_subdivision(1): the argument keeps 1 face and 3 edges but has no face corners left *)
Theorem input_object_refuted_loop :
  match run_surface QcO (input_surface w_tri_V w_tri_F) [Loop 1] with
  | Ok r => ~ input_object_ok false (input_surface w_tri_V w_tri_F) r
  | Err _ => False
  end.
Proof.
  destruct (run_surface QcO (input_surface w_tri_V w_tri_F) [Loop 1]) as [r|e] eqn:E; [|vm_compute in E; discriminate].
  assert (Hc : aCorn (res_arg r) = []) by (vm_compute in E; inversion E; subst r; reflexivity).
  assert (Hf : aF (res_arg r) = [[0; 1; 2]]) by (vm_compute in E; inversion E; subst r; reflexivity).
  assert (Hp : Zlen (pcorn (res_mesh r)) = 12) by (vm_compute in E; inversion E; subst r; reflexivity).
  intros [[[_ [_ [_ H]]]|[_ [_ [_ H]]]] _]; rewrite Hc in H.
  - vm_compute in H. discriminate.
  - rewrite <- H in Hp. vm_compute in Hp. discriminate.
Qed.

(* 2. connectivity queried, then one face fanned in place: the containers are the result's, the cached tables are not *)
Theorem input_object_refuted_stale :
  match run_surface QcO (input_surface w_tri_V w_tri_F) [Fan 0] with
  | Ok r => ~ input_object_ok true (input_surface w_tri_V w_tri_F) r
  | Err _ => False
  end.
Proof.
  destruct (run_surface QcO (input_surface w_tri_V w_tri_F) [Fan 0]) as [r|e] eqn:E; [|vm_compute in E; discriminate].
  assert (Hc : arg_conn_ok true (input_surface w_tri_V w_tri_F) (res_arg r) = false)
    by (vm_compute in E; inversion E; subst r; vm_compute; reflexivity).
  intros [_ H]. rewrite Hc in H. discriminate.
Qed.

(* ------------------------------------------------------------------ second known finding: a non-simple input.
   An octahedron two pairs of whose triangles were merged into quads that share two sides (vertex 0 has only
   two faces): every directed edge occurs once, but triangulate() cuts both quads along the same diagonal 1-5. *)
Fixpoint nodupb (l : list edge) : bool :=
  match l with
  | [] => true
  | e :: t => negb (mem_edge e t) && nodupb t
  end.
Definition w_oct_V : list pt :=
  [(qz (-1), qz 0, qz 0); (qz 0, qz 1, qz 0); (qz 0, qz 0, qz 1); (qz 0, qz 0, qz (-1)); (qz 1, qz 0, qz 0); (qz 0, qz (-1), qz 0)].
Definition w_oct_F : list (list Z) := [[5; 4; 2]; [3; 1; 4]; [4; 1; 2]; [4; 5; 3]; [2; 1; 0; 5]; [3; 5; 0; 1]].

Theorem triangulate_nonsimple_refuted :
  nodupb (dedges_all w_oct_F) = true /\
  match run_surface QcO (input_surface w_oct_V w_oct_F) [Triangulate] with
  | Ok r => nodupb (dedges_all (rf (pr (res_mesh r)))) = false
  | Err _ => False
  end.
Proof. split; vm_compute; reflexivity. Qed.

(* ------------------------------------------------------------------ third known finding: two triangles on the same three
   vertices (the closed 2-triangle sphere).  Every directed edge occurs once; after loop_subdivision(1) the interior
   edges of the two refinements coincide: directed edges twice, 9 edges instead of 2*3+3*2 = 12. *)
Definition w_pillow_V : list pt := [(qz 0, qz 0, qz 0); (qz 4, qz 0, qz 0); (qz 0, qz 4, qz 0)].
Definition w_pillow_F : list (list Z) := [[0; 1; 2]; [2; 1; 0]].

Theorem loop_same_vertex_triangles_refuted :
  nodupb (dedges_all w_pillow_F) = true /\
  match run_surface QcO (input_surface w_pillow_V w_pillow_F) [Loop 1] with
  | Ok r => nodupb (dedges_all (rf (pr (res_mesh r)))) = false /\
            Zlen (re (pr (res_mesh r))) = 9 /\ Zlen (rv (pr (res_mesh r))) - Zlen (re (pr (res_mesh r))) + Zlen (rf (pr (res_mesh r))) = 5
  | Err _ => False
  end.
Proof. split; vm_compute; repeat split; reflexivity. Qed.
