(* C13 - connected components are preserved by every surface rewrite: two old vertices are joined by an edge path
   in the refined surface iff they were joined before, and every vertex of the refined surface is joined to an old
   vertex (pi).  Hence the components of the two surfaces are in bijection. *)
From Coq Require Import ZArith List Bool Lia Permutation.
Require Import MV.Lib.Base MV.C13.Defs MV.C13.Gen MV.C13.Model MV.C13.Proofs_Base MV.C13.Proofs_Counts MV.C13.Proofs_Topo
               MV.C13.Proofs_Accept MV.C13.Proofs_Accept2 MV.C13.Proofs_Manifold MV.C13.Proofs_Manifold2 MV.C13.Proofs_Border.
Import ListNotations.
Open Scope Z_scope.

Lemma combine_zrange_nth {A} (l : list A) n x i : In (x, i) (combine l (zrange n)) -> 0 <= i /\ nth_error l (Z.to_nat i) = Some x.
Proof.
  unfold zrange. generalize (Z.to_nat n). intros k.
  assert (H : forall s, In (x, i) (combine l (map Z.of_nat (seq s k))) -> Z.of_nat s <= i /\ nth_error l (Z.to_nat i - s) = Some x).
  { revert k. induction l as [|a t IH]; intros k s Hin; [contradiction|]. destruct k as [|k]; [contradiction|]. cbn [seq map combine] in Hin.
    destruct Hin as [E|Hin].
    - inversion E; subst. split; [lia|]. rewrite Nat2Z.id, Nat.sub_diag. reflexivity.
    - destruct (IH k (S s) Hin) as [H1 H2]. split; [lia|]. replace (Z.to_nat i - s)%nat with (S (Z.to_nat i - S s)) by lia. exact H2. }
  intros Hin. destruct (H 0%nat Hin) as [H1 H2]. split; [lia|]. now rewrite Nat.sub_0_r in H2.
Qed.

Section Comp.
Context {P : Type} (O : pops P).
Notation raw := (raw P).

(* an old vertex of the component of a vertex of the refined surface: an end point of the edge a midpoint halves,
   the first vertex of the face a barycentre belongs to *)
Definition edge_end (r : raw) (i : Z) (d : Z) : Z := match nth_error (re r) (Z.to_nat i) with Some e => fst e | None => d end.
Definition face_head (r : raw) (j : Z) (d : Z) : Z := match nth_error (rf r) (Z.to_nat j) with Some (a :: _) => a | _ => d end.
Definition pi_ref (r : raw) (v : Z) : Z :=
  if v <? nV r then v
  else if v <? nV r + nE r then edge_end r (v - nV r) v
  else face_head r (v - nV r - nE r) v.

Lemma pi_old r v : vert_ok (nV r) v -> pi_ref r v = v.
Proof. unfold vert_ok, pi_ref. intros H. destruct (v <? nV r) eqn:E; [reflexivity|lia]. Qed.

(* the midpoint of a covered directed face edge is numbered after a listed edge with the same end points *)
Lemma mid_end (key : Z -> Z -> edge) (r : raw) a b F :
  (forall x y, key x y = keyify2 x y) -> covered (re r) F -> In (a, b) (dedges F) ->
  let m := mf (half_table key (Zlen (rv r)) (re r)) (a, b) in
  nV r <= m < nV r + nE r /\ (pi_ref r m = a \/ pi_ref r m = b).
Proof.
  intros Hkey Hc Hd. destruct (covered_key key (Zlen (rv r)) (re r) F a b Hkey Hc Hd) as [m [H1 [R [x [i [Hin [Hk Hm]]]]]]].
  cbn zeta. unfold mf. rewrite keyE_pair, (hget_hv _ _ _ H1). split; [exact R|].
  destruct (combine_zrange_nth _ _ _ _ Hin) as [Hi Hn]. unfold pi_ref, nV, nE.
  destruct (m <? Zlen (rv r)) eqn:E1; [lia|]. destruct (m <? Zlen (rv r) + Zlen (re r)) eqn:E2; [|lia].
  unfold edge_end. replace (m - Zlen (rv r)) with i by lia. rewrite Hn.
  destruct x as [u v]. rewrite keyE_pair in Hk. apply keyify2_eq in Hk. cbn [fst]. destruct Hk as [[? ?]|[? ?]]; subst; auto.
Qed.

Lemma tri_face_conn (r : raw) F A B C u v :
  In F (rf r) -> F = [A; B; C] -> In u [A; B; C] -> In v [A; B; C] -> conn (dedges_all (rf r)) u v.
Proof. intros HF -> Hu Hv. eapply face_conn_all; eauto. Qed.

(* ------------------------------------------------------------------ loop_subdivision, one refinement *)
Theorem loop_step_components (r r' : raw) :
  loop_step O r = Ok r' -> WF r -> oriented_tri (nV r) (rf r) ->
  (forall a b, vert_ok (nV r) a -> vert_ok (nV r) b -> (conn (dedges_all (rf r)) a b <-> conn (dedges_all (rf r')) a b)) /\
  (forall x, In x (dedges_all (rf r')) -> conn (dedges_all (rf r')) (fst x) (pi_ref r (fst x)) /\ vert_ok (nV r) (pi_ref r (fst x))).
Proof.
  intros H [_ [He Hc]] Hor. pose proof (mid_of_ok r Hc) as Hm. pose proof (loop_step_dedges O r r' H _ eq_refl) as Hp.
  set (D := dedges_all (rf r)) in *. set (N := dedges_all (rf r')) in *. set (m := mid_of r) in *.
  assert (Hmid : forall a b, In (a, b) D -> nV r <= m (a, b) < nV r + nE r /\ (pi_ref r (m (a, b)) = a \/ pi_ref r (m (a, b)) = b)).
  { intros a b Hd. unfold D, dedges_all in Hd. apply in_flat_map in Hd as [F [HF Hd]]. rewrite Forall_forall in Hc.
    apply (mid_end loop_key r a b F (fun x y => eq_refl) (Hc F HF) Hd). }
  assert (HN : forall y, In y N <-> In y (flat_map (hsplit m) D) \/ In y (flat_map (inner m) (rf r)) \/ In y (map swap (flat_map (inner m) (rf r)))).
  { intros y. split.
    - intros Hy. apply (Permutation_in _ Hp) in Hy. apply in_app_or in Hy as [Hy|Hy]; auto. apply in_app_or in Hy. tauto.
    - intros Hy. apply (Permutation_in _ (Permutation_sym Hp)). apply in_or_app. destruct Hy as [Hy|[Hy|Hy]]; auto; right; apply in_or_app; auto. }
  assert (Hhalf : forall a b, In (a, b) D -> In (a, m (a, b)) N /\ In (m (a, b), b) N).
  { intros a b Hd. split; apply HN; left; apply in_flat_map; exists (a, b); (split; [exact Hd|]); cbn; auto. }
  assert (Hinner : forall y, In y (flat_map (inner m) (rf r)) -> exists F A B C, In F (rf r) /\ In A F /\ In B F /\ In C F /\
                      In (A, B) D /\ In (B, C) D /\ y = (m (A, B), m (B, C))).
  { intros y Hy. rewrite (inner_all r m Hor) in Hy. apply in_map_iff in Hy as [[[A B] C] [<- Hcor]].
    destruct (corner_facts r Hor _ _ _ Hcor) as [_ [_ [_ [I1 [I2 _]]]]].
    destruct (corner_spec _ _ _ _ Hcor) as [F [HF Hcf]]. destruct Hor as [_ Hf]. rewrite Forall_forall in Hf.
    destruct (tri_corner_distinct _ F A B C (Hf F HF) Hcf) as [_ [_ [_ [_ [_ [_ [E1 [E2 _]]]]]]]].
    apply dedges_In in E1 as [HA HB]. apply dedges_In in E2 as [_ HC]. exists F, A, B, C. repeat split; auto. }
  assert (Hold : forall a b, In (a, b) D -> vert_ok (nV r) a /\ vert_ok (nV r) b).
  { intros a b Hd. destruct (D_edge r Hor a b Hd) as [_ [? ?]]. auto. }
  assert (Hpi_in : forall F a b, In F (rf r) -> In (a, b) (dedges F) -> In (pi_ref r (m (a, b))) F).
  { intros F a b HF Hd. assert (Hd' : In (a, b) D) by (unfold D, dedges_all; apply in_flat_map; eauto).
    destruct (Hmid a b Hd') as [_ [-> | ->]]; apply dedges_In in Hd; tauto. }
  split.
  - intros a b Va Vb. apply (components_transfer D N (pi_ref r) (vert_ok (nV r))); auto.
    + intros x y Hd. destruct (Hhalf x y Hd) as [H1 H2]. eapply conn_trans; apply conn_edge; left; eauto.
    + intros x y Hy. apply HN in Hy as [Hy|[Hy|Hy]].
      * apply in_flat_map in Hy as [[a0 b0] [Hd Hy]]. destruct (Hold a0 b0 Hd) as [Va0 Vb0]. destruct (Hmid a0 b0 Hd) as [_ Hpi].
        unfold hsplit in Hy. cbn [fst snd] in Hy. fold m in Hpi.
        pose proof (pi_old r a0 Va0) as Pa. pose proof (pi_old r b0 Vb0) as Pb.
        destruct Hy as [E|[E|[]]]; inversion E; subst; rewrite ?Pa, ?Pb;
          destruct Hpi as [Hpi|Hpi]; rewrite Hpi; try apply conn_refl; apply conn_edge; auto.
      * destruct (Hinner _ Hy) as [F [A [B [C [HF [HA [HB [HC [I1 [I2 E]]]]]]]]]]. inversion E; subst.
        unfold D, dedges_all in I1, I2. apply (face_conn_all (rf r) F); auto.
        -- destruct (Hmid A B) as [_ [-> | ->]]; auto; unfold D, dedges_all; auto.
        -- destruct (Hmid B C) as [_ [-> | ->]]; auto; unfold D, dedges_all; auto.
      * apply in_map_iff in Hy as [[p q] [E Hy]]. unfold swap in E. cbn [fst snd] in E. inversion E; subst.
        destruct (Hinner _ Hy) as [F [A [B [C [HF [HA [HB [HC [I1 [I2 E']]]]]]]]]]. inversion E'; subst.
        apply (face_conn_all (rf r) F); auto.
        -- destruct (Hmid B C) as [_ [-> | ->]]; auto.
        -- destruct (Hmid A B) as [_ [-> | ->]]; auto.
    + intros v. apply pi_old.
  - intros [x y] Hy. cbn [fst]. apply HN in Hy as [Hy|[Hy|Hy]].
    + apply in_flat_map in Hy as [[a0 b0] [Hd Hy]]. destruct (Hold a0 b0 Hd) as [Va0 Vb0]. destruct (Hmid a0 b0 Hd) as [_ Hpi]. fold m in Hpi.
      destruct (Hhalf a0 b0 Hd) as [H1 H2].
      unfold hsplit in Hy. cbn [fst snd] in Hy. destruct Hy as [E|[E|[]]]; inversion E; subst.
      * rewrite (pi_old r x Va0). split; [apply conn_refl|auto].
      * destruct Hpi as [-> | ->]; split; auto; apply conn_edge; auto.
    + destruct (Hinner _ Hy) as [F [A [B [C [HF [HA [HB [HC [I1 [I2 E]]]]]]]]]]. inversion E; subst.
      destruct (Hold A B I1) as [VA VB]. destruct (Hhalf A B I1) as [H1 H2]. destruct (Hmid A B I1) as [_ [-> | ->]]; split; auto; apply conn_edge; auto.
    + apply in_map_iff in Hy as [[p q] [E Hy]]. unfold swap in E. cbn [fst snd] in E. inversion E; subst.
      destruct (Hinner _ Hy) as [F [A [B [C [HF [HA [HB [HC [I1 [I2 E']]]]]]]]]]. inversion E'; subst.
      destruct (Hold B C I2) as [VB VC]. destruct (Hhalf B C I2) as [H1 H2]. destruct (Hmid B C I2) as [_ [-> | ->]]; split; auto; apply conn_edge; auto.
Qed.

(* ------------------------------------------------------------------ subdivide_triangles_3quads *)
Theorem q3_core_components (r r' : raw) :
  q3_core O r = Ok r' -> WF r -> oriented_tri (nV r) (rf r) ->
  (forall a b, vert_ok (nV r) a -> vert_ok (nV r) b -> (conn (dedges_all (rf r)) a b <-> conn (dedges_all (rf r')) a b)) /\
  (forall x, In x (dedges_all (rf r')) -> conn (dedges_all (rf r')) (fst x) (pi_ref r (fst x)) /\ vert_ok (nV r) (pi_ref r (fst x))).
Proof.
  intros H [_ [He Hc]] Hor. pose proof (q3_core_dedges O r r' H _ _ eq_refl eq_refl) as Hp.
  set (D := dedges_all (rf r)) in *. set (N := dedges_all (rf r')) in *. set (m := q3_mid_of r) in *.
  set (Sp := flat_map (spokes m) (bary_ids r)) in *.
  assert (Hmid : forall a b, In (a, b) D -> nV r <= m (a, b) < nV r + nE r /\ (pi_ref r (m (a, b)) = a \/ pi_ref r (m (a, b)) = b)).
  { intros a b Hd. unfold D, dedges_all in Hd. apply in_flat_map in Hd as [F [HF Hd]]. rewrite Forall_forall in Hc.
    apply (mid_end q3_key r a b F (fun x y => eq_refl) (Hc F HF) Hd). }
  assert (HN : forall y, In y N <-> In y (flat_map (hsplit m) D) \/ In y Sp \/ In y (map swap Sp)).
  { intros y. split.
    - intros Hy. apply (Permutation_in _ Hp) in Hy. apply in_app_or in Hy as [Hy|Hy]; auto. apply in_app_or in Hy. tauto.
    - intros Hy. apply (Permutation_in _ (Permutation_sym Hp)). apply in_or_app. destruct Hy as [Hy|[Hy|Hy]]; auto; right; apply in_or_app; auto. }
  assert (Hhalf : forall a b, In (a, b) D -> In (a, m (a, b)) N /\ In (m (a, b), b) N).
  { intros a b Hd. split; apply HN; left; apply in_flat_map; exists (a, b); (split; [exact Hd|]); cbn; auto. }
  assert (Hold : forall a b, In (a, b) D -> vert_ok (nV r) a /\ vert_ok (nV r) b).
  { intros a b Hd. destruct (D_edge r Hor a b Hd) as [_ [? ?]]. auto. }
  (* a spoke: midpoint of a side of face F to the barycentre S of F, whose representative is the first vertex of F *)
  assert (Hsp : forall y, In y Sp -> exists F S a b, In F (rf r) /\ In (a, b) (dedges F) /\ y = (m (a, b), S) /\
                  In (pi_ref r S) F /\ nV r + nE r <= S).
  { intros y Hy. unfold Sp in Hy. apply in_flat_map in Hy as [[F S] [Hin Hy]].
    unfold bary_ids in Hin. rewrite combine_map_r in Hin. apply in_map_iff in Hin as [[F0 j] [E Hin]]. cbn [fst snd] in E. inversion E; subst F0 S; clear E.
    pose proof (in_combine_l _ _ _ _ Hin) as HF. destruct (combine_zrange_nth _ _ _ _ Hin) as [Hj Hn].
    destruct Hor as [_ Hf]. rewrite Forall_forall in Hf. destruct (Hf F HF) as [L _]. destruct (tri_shape F L) as [A [B [C ->]]].
    assert (Hpi : pi_ref r (Zlen (rv r) + Zlen (re r) + j) = A).
    { unfold pi_ref, nV, nE. pose proof (Zlen_nonneg (re r)). destruct (_ <? Zlen (rv r)) eqn:E1; [lia|].
      destruct (_ <? Zlen (rv r) + Zlen (re r)) eqn:E2; [lia|]. unfold face_head.
      replace (Zlen (rv r) + Zlen (re r) + j - Zlen (rv r) - Zlen (re r)) with j by lia. now rewrite Hn. }
    cbn in Hy. destruct Hy as [<-|[<-|[<-|[]]]]; [exists [A; B; C], (Zlen (rv r) + Zlen (re r) + j), A, B
                                                |exists [A; B; C], (Zlen (rv r) + Zlen (re r) + j), B, C
                                                |exists [A; B; C], (Zlen (rv r) + Zlen (re r) + j), C, A];
      (split; [exact HF|split; [cbn; auto|split; [reflexivity|split; [rewrite Hpi; cbn; auto|unfold nV, nE; lia]]]]). }
  assert (Hspoke_conn : forall F a b S, In F (rf r) -> In (a, b) (dedges F) -> In (pi_ref r S) F -> conn D (pi_ref r (m (a, b))) (pi_ref r S)).
  { intros F a b S HF Hd HS. apply (face_conn_all (rf r) F); auto.
    assert (Hd' : In (a, b) D) by (unfold D, dedges_all; apply in_flat_map; eauto).
    destruct (Hmid a b Hd') as [_ [-> | ->]]; apply dedges_In in Hd; tauto. }
  split.
  - intros a b Va Vb. apply (components_transfer D N (pi_ref r) (vert_ok (nV r))); auto.
    + intros x y Hd. destruct (Hhalf x y Hd) as [H1 H2]. eapply conn_trans; apply conn_edge; left; eauto.
    + intros x y Hy. apply HN in Hy as [Hy|[Hy|Hy]].
      * apply in_flat_map in Hy as [[a0 b0] [Hd Hy]]. destruct (Hold a0 b0 Hd) as [Va0 Vb0]. destruct (Hmid a0 b0 Hd) as [_ Hpi].
        unfold hsplit in Hy. cbn [fst snd] in Hy.
        pose proof (pi_old r a0 Va0) as Pa. pose proof (pi_old r b0 Vb0) as Pb.
        destruct Hy as [E|[E|[]]]; inversion E; subst; rewrite ?Pa, ?Pb;
          destruct Hpi as [Hpi|Hpi]; rewrite Hpi; try apply conn_refl; apply conn_edge; auto.
      * destruct (Hsp _ Hy) as [F [S [a0 [b0 [HF [Hd [E [HS _]]]]]]]]. inversion E; subst. eapply Hspoke_conn; eauto.
      * apply in_map_iff in Hy as [[p q] [E Hy]]. unfold swap in E. cbn [fst snd] in E. inversion E; subst.
        destruct (Hsp _ Hy) as [F [S [a0 [b0 [HF [Hd [E' [HS _]]]]]]]]. inversion E'; subst. apply conn_sym. eapply Hspoke_conn; eauto.
    + intros v. apply pi_old.
  - assert (Hvert : forall F v, In F (rf r) -> In v F -> vert_ok (nV r) v).
    { intros F v HF Hv. destruct Hor as [_ Hf]. rewrite Forall_forall in Hf. destruct (Hf F HF) as [_ [_ Hvs]]. rewrite Forall_forall in Hvs. auto. }
    intros [x y] Hy. cbn [fst]. apply HN in Hy as [Hy|[Hy|Hy]].
    + apply in_flat_map in Hy as [[a0 b0] [Hd Hy]]. destruct (Hold a0 b0 Hd) as [Va0 Vb0]. destruct (Hmid a0 b0 Hd) as [_ Hpi].
      destruct (Hhalf a0 b0 Hd) as [H1 H2].
      unfold hsplit in Hy. cbn [fst snd] in Hy. destruct Hy as [E|[E|[]]]; inversion E; subst.
      * rewrite (pi_old r x Va0). split; [apply conn_refl|auto].
      * destruct Hpi as [-> | ->]; split; auto; apply conn_edge; auto.
    + destruct (Hsp _ Hy) as [F [S [a0 [b0 [HF [Hd [E [HS _]]]]]]]]. inversion E; subst.
      assert (Hd' : In (a0, b0) D) by (unfold D, dedges_all; apply in_flat_map; eauto).
      destruct (Hold a0 b0 Hd') as [VA VB]. destruct (Hhalf a0 b0 Hd') as [H1 H2]. destruct (Hmid a0 b0 Hd') as [_ [-> | ->]]; split; auto; apply conn_edge; auto.
    + apply in_map_iff in Hy as [[p q] [E Hy]]. unfold swap in E. cbn [fst snd] in E. inversion E; subst.
      destruct (Hsp _ Hy) as [F [S [a0 [b0 [HF [Hd [E' [HS _]]]]]]]]. inversion E'; subst.
      assert (Hd' : In (a0, b0) D) by (unfold D, dedges_all; apply in_flat_map; eauto).
      split; [|eapply Hvert; eauto].
      (* barycentre - midpoint - end point of the side - ... - first vertex of the face *)
      eapply conn_trans; [apply conn_edge; right; apply HN; right; left; exact Hy|].
      destruct (Hhalf a0 b0 Hd') as [H1 H2]. eapply conn_trans; [apply conn_edge; right; exact H1|].
      assert (G : conn D a0 (pi_ref r S)) by (apply (face_conn_all (rf r) F); auto; apply dedges_In in Hd; tauto).
      revert G. generalize (pi_ref r S). intros t G.
      clear - G Hhalf. induction G; [apply conn_refl|]. eapply conn_trans; [|exact IHG].
      destruct H as [H|H]; destruct (Hhalf _ _ H) as [K1 K2].
      * eapply conn_trans; apply conn_edge; left; eauto.
      * apply conn_sym. eapply conn_trans; apply conn_edge; left; eauto.
Qed.

(* ------------------------------------------------------------------ in-place rewrites *)
Theorem fan_components (r r' : raw) f F :
  getz (rf r) f = Ok F -> split_face_as_fan O r f = Ok r' -> oriented_poly (nV r) (rf r) ->
  let pi := fun v => if v =? nV r then hd 0 F else v in
  (forall a b, vert_ok (nV r) a -> vert_ok (nV r) b -> (conn (dedges_all (rf r)) a b <-> conn (dedges_all (rf r')) a b)) /\
  (forall x, In x (dedges_all (rf r')) -> conn (dedges_all (rf r')) (fst x) (pi (fst x)) /\ vert_ok (nV r) (pi (fst x))).
Proof.
  intros HF H Hor pi. unfold split_face_as_fan in H. rewrite HF in H. cbn [bind] in H.
  apply bind_Ok in H as [ps [_ H]].
  destruct (Zlen F =? 0) eqn:E0; [discriminate|]. destruct (Zlen F <? 2) eqn:E2; [discriminate|].
  inversion H; subst r'; clear H. cbn [rf]. set (V := Zlen (rv r)) in *. assert (HV : nV r = V) by reflexivity.
  pose proof (getz_In _ _ _ HF) as HIn.
  assert (Hp : Permutation (dedges_all (updz (rf r) f (fan_replace F V) ++ fan_faces F (Zlen F) V))
                 (dedges_all (rf r) ++ map (fun e => (snd e, V)) (dedges F) ++ map (fun e => (V, fst e)) (dedges F))).
  { apply (rewrite_dedges (rf r) f F (fan_replace F V) (fan_faces F (Zlen F) V)
             (map (fun e => (snd e, V)) (dedges F) ++ map (fun e => (V, fst e)) (dedges F)) HF). apply (fan_local F V). lia. }
  set (N := dedges_all (updz (rf r) f (fan_replace F V) ++ fan_faces F (Zlen F) V)) in *. set (D := dedges_all (rf r)) in *.
  assert (HN1 : forall y, In y N -> In y D \/ (exists b, In b F /\ y = (b, V)) \/ (exists a, In a F /\ y = (V, a))).
  { intros y Hy. apply (Permutation_in _ Hp) in Hy. apply in_app_or in Hy as [Hy|Hy]; auto. right.
    apply in_app_or in Hy as [Hy|Hy]; apply in_map_iff in Hy as [[a b] [<- Hab]]; apply dedges_In in Hab as [Ha Hb]; cbn; eauto. }
  assert (HND : forall y, In y D -> In y N).
  { intros y Hy. apply (Permutation_in _ (Permutation_sym Hp)). apply in_or_app. auto. }
  destruct F as [|f0 t]; [unfold Zlen in E0; cbn in E0; discriminate|]. cbn [hd] in pi.
  assert (Hspoke : In (f0, V) N).
  { apply (Permutation_in _ (Permutation_sym Hp)). apply in_or_app. right. apply in_or_app. left.
    assert (Hb' : In f0 (map snd (dedges (f0 :: t)))) by (rewrite map_snd_dedges; apply in_or_app; right; cbn; auto).
    apply in_map_iff in Hb' as [e [<- He]]. apply in_map_iff. exists e. auto. }
  assert (HvF : forall v, In v (f0 :: t) -> vert_ok (nV r) v).
  { intros v Hv. destruct Hor as [_ Hf]. rewrite Forall_forall in Hf. destruct (Hf _ HIn) as [_ [_ Hvs]]. rewrite Forall_forall in Hvs. auto. }
  assert (Hlow : forall y, In y D -> vert_ok (nV r) (fst y) /\ vert_ok (nV r) (snd y)) by (intros y Hy; apply (poly_vertex_range _ _ y Hor Hy)).
  assert (Hpi_old : forall v, vert_ok (nV r) v -> pi v = v).
  { intros v Hv. unfold pi, vert_ok in *. destruct (v =? nV r) eqn:E; [lia|reflexivity]. }
  assert (Hpi_V : pi V = f0) by (unfold pi; rewrite HV, Z.eqb_refl; reflexivity).
  split.
  - intros a b Va Vb. apply (components_transfer D N pi (vert_ok (nV r))); auto.
    + intros x y Hd. apply conn_edge. left. auto.
    + intros x y Hy. apply HN1 in Hy as [Hy|[[b0 [Hb E]]|[a0 [Ha E]]]].
      * destruct (Hlow _ Hy) as [L1 L2]. cbn [fst snd] in *. rewrite (Hpi_old x L1), (Hpi_old y L2). apply conn_edge. auto.
      * injection E as -> ->. rewrite Hpi_V, (Hpi_old b0 (HvF _ Hb)). apply (face_conn_all (rf r) (f0 :: t)); cbn; auto.
      * injection E as -> ->. rewrite Hpi_V, (Hpi_old a0 (HvF _ Ha)). apply (face_conn_all (rf r) (f0 :: t)); cbn; auto.
  - intros [x y] Hy. cbn [fst]. apply HN1 in Hy as [Hy|[[b0 [Hb E]]|[a0 [Ha E]]]].
    + destruct (Hlow _ Hy) as [L1 _]. cbn [fst] in L1. rewrite (Hpi_old x L1). split; [apply conn_refl|auto].
    + injection E as -> ->. rewrite (Hpi_old b0 (HvF _ Hb)). split; [apply conn_refl|auto].
    + injection E as -> ->. rewrite Hpi_V. split; [apply conn_edge; right; exact Hspoke|apply HvF; cbn; auto].
Qed.

Theorem quad_split_components (r r' : raw) f A B C D0 :
  getz (rf r) f = Ok [A; B; C; D0] -> triangulate_face O r f = Ok r' ->
  forall a b, conn (dedges_all (rf r)) a b <-> conn (dedges_all (rf r')) a b.
Proof.
  intros HF H a b. unfold triangulate_face in H. rewrite HF in H. cbn [bind] in H.
  change (tf_branch (Zlen [A; B; C; D0])) with 1 in H. cbn iota in H. inversion H; subst r'; clear H. cbn [rf].
  assert (Hp : Permutation (dedges_all (updz (rf r) f (tf_quad_replace A B C D0) ++ tf_quad_faces A B C D0))
                 (dedges_all (rf r) ++ [(B, D0); (D0, B)])).
  { apply (rewrite_dedges (rf r) f [A; B; C; D0] (tf_quad_replace A B C D0) (tf_quad_faces A B C D0) [(B, D0); (D0, B)] HF). apply quad_local. }
  pose proof (getz_In _ _ _ HF) as HIn.
  apply (components_transfer _ _ (fun v => v) (fun _ => True)); auto.
  - intros x y Hd. apply conn_edge. left. apply (Permutation_in _ (Permutation_sym Hp)). apply in_or_app. auto.
  - intros x y Hy. apply (Permutation_in _ Hp) in Hy. apply in_app_or in Hy as [Hy|Hy]; [apply conn_edge; auto|].
    cbn in Hy. destruct Hy as [E|[E|[]]]; injection E as <- <-; apply (face_conn_all (rf r) [A; B; C; D0]); cbn; auto.
Qed.

End Comp.
