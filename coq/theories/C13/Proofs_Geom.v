(* C13 - geometry over an arbitrary field in which 2 and 3 are invertible (and n, for the fan of an n-gon):
   every new vertex is the stated midpoint / barycentre (GENERATED formulas), the pieces of a triangle are
   coplanar, co-oriented fixed fractions of it (vector area), vector area is additive for the quad split and for
   the fan of any polygon around any apex, signed volume is additive for the two tetrahedral splits. *)
From Coq Require Import ZArith List Bool Lia Field Permutation.
Require Import MV.Lib.Base MV.C13.Defs MV.C13.Geom MV.C13.Gen MV.C13.Model MV.C13.Proofs_Base.
Import ListNotations.

Section Geometry.
Variable F : Type.
Variables (f0 f1 : F) (fadd fmul fsub : F -> F -> F) (fopp : F -> F) (fdiv : F -> F -> F) (finv : F -> F).
Hypothesis Fth : field_theory f0 f1 fadd fmul fsub fopp fdiv finv (@eq F).
Add Field Ffield : Fth.

Notation "0" := f0. Notation "1" := f1.
Infix "+" := fadd. Infix "*" := fmul. Infix "-" := fsub. Infix "/" := fdiv.
Notation vec := (vec F).
Notation fz := (fz F f0 f1 fadd fopp).
Notation FO := (fieldO F f0 f1 fadd fopp fdiv).
Notation vadd := (vadd F fadd).
Notation vsub := (vsub F fsub).
Notation vscale := (vscale F fmul).
Notation cross := (cross F fmul fsub).
Notation varea2 := (varea2 F f0 fadd fmul fsub).
Notation vol6 := (vol6 F fadd fmul fsub).
Notation vsum := (vsum F f0 fadd).

Notation two := (Geom.two F f1 fadd).
Notation three := (Geom.three F f1 fadd).
Notation four := (Geom.four F f1 fadd).
Hypothesis two_nz : two <> 0.
Hypothesis three_nz : three <> 0.

Lemma fz2 : fz 2 = 1 + (1 + 0). Proof. reflexivity. Qed.
Lemma fz3 : fz 3 = 1 + (1 + (1 + 0)). Proof. reflexivity. Qed.
Lemma fz4 : fz 4 = 1 + (1 + (1 + (1 + 0))). Proof. reflexivity. Qed.
Lemma two_nz' : 1 + (1 + 0) <> 0.
Proof. intros H. apply two_nz. unfold Geom.two. rewrite <- H. ring. Qed.
Lemma three_nz' : 1 + (1 + (1 + 0)) <> 0.
Proof. intros H. apply three_nz. unfold Geom.three. rewrite <- H. ring. Qed.
Lemma four_nz' : 1 + (1 + (1 + (1 + 0))) <> 0.
Proof.
  intros H. apply two_nz. unfold Geom.two.
  assert (E : (1 + 1) * (1 + 1) = 0) by (rewrite <- H; ring).
  transitivity ((1 + 1) * (1 + 1) / (1 + 1)); [field; exact two_nz|]. rewrite E. field. exact two_nz.
Qed.

Ltac nz := repeat split; try assumption;
  match goal with H : ?y <> 0 |- ?x <> 0 => solve [let E := fresh in intro E; apply H; transitivity x; [ring | exact E]] end.
Ltac vec_eq := unfold Geom.vadd, Geom.vsub, Geom.vscale, Geom.vdivz, Geom.cross, Geom.vx, Geom.vy, Geom.vz; cbn [fst snd];
               rewrite ?fz2, ?fz3, ?fz4;
               try match goal with |- (_, _, _) = (_, _, _) => f_equal; [f_equal|] end.

(* ------------------------------------------------------------------ new vertices are the stated centres *)
Lemma mid_is_midpoint (a b : vec) m :
  m = pdivz FO (padd FO a b) 2 -> vadd m m = vadd a b.
Proof.
  intros ->. destruct a as [[ax ay] az], b as [[bx by_] bz]. cbn [pdivz padd fieldO].
  pose proof two_nz'. vec_eq; field; nz.
Qed.

Theorem C13_midpoints (a b : vec) :
  let m1 := se_mid FO a b in let m2 := loop_mid FO a b in let m3 := q3_mid FO a b in
  vadd m1 m1 = vadd a b /\ vadd m2 m2 = vadd a b /\ vadd m3 m3 = vadd a b.
Proof. cbn zeta. repeat split; apply mid_is_midpoint; reflexivity. Qed.

(* sum([...]) starts from 0 *)
Lemma psum3 (a b c : vec) : psum FO [a; b; c] = vadd (vadd (vadd (v0 F f0) a) b) c.
Proof. reflexivity. Qed.

Theorem C13_barycentres3 (a b c : vec) :
  let g := q3_bary FO [a; b; c] in let g' := fc_bary FO [a; b; c] in let g'' := fan_bary FO [a; b; c] 3 in
  vadd (vadd g g) g = vadd (vadd a b) c /\ g' = g /\ g'' = g.
Proof.
  cbn zeta. repeat split; try reflexivity.
  destruct a as [[ax ay] az], b as [[bx by_] bz], c as [[cx cy] cz].
  unfold q3_bary. rewrite psum3. cbn [pdivz fieldO]. pose proof three_nz'.
  unfold v0. vec_eq; field; nz.
Qed.

Theorem C13_barycentre4 (a b c d : vec) :
  let g := cf_bary FO a b c d in vadd (vadd g g) (vadd g g) = vadd (vadd a b) (vadd c d).
Proof.
  cbn zeta. destruct a as [[ax ay] az], b as [[bx by_] bz], c as [[cx cy] cz], d as [[dx dy] dz].
  unfold cf_bary. cbn [pdivz padd fieldO]. pose proof four_nz'.
  vec_eq; field; nz.
Qed.

(* barycentre of any polygon: n * g = sum of the vertices (when n is invertible) *)
Theorem C13_barycentre_n (ps : list vec) (n : Z) :
  fz n <> 0 -> vscale (fz n) (fan_bary FO ps n) = psum FO ps.
Proof.
  intros Hn. unfold fan_bary. cbn [pdivz fieldO]. destruct (psum FO ps) as [[x y] z].
  vec_eq; field; nz.
Qed.

(* ------------------------------------------------------------------ vector area *)
Lemma varea2_tri (a b c : vec) : varea2 [a; b; c] = vadd (cross a b) (vadd (cross b c) (vadd (cross c a) (v0 F f0))).
Proof. reflexivity. Qed.
Lemma varea2_quad (a b c d : vec) :
  varea2 [a; b; c; d] = vadd (cross a b) (vadd (cross b c) (vadd (cross c d) (vadd (cross d a) (v0 F f0)))).
Proof. reflexivity. Qed.

Section WithPositions.
(* positions of the vertex indices that occur in a rewrite *)
Variable pos : Z -> vec.
Notation area_of := (Geom.area_of F f0 fadd fmul fsub pos).

(* triangulate_face on a quad: the two triangles add up to the quad (any four points) *)
Theorem C13_quad_split_area A B C D :
  vadd (area_of (tf_quad_replace A B C D)) (vsum (map area_of (tf_quad_faces A B C D))) = area_of [A; B; C; D].
Proof.
  unfold Geom.area_of. cbn [map tf_quad_replace tf_quad_faces Geom.vsum fold_right]. rewrite !varea2_tri, varea2_quad.
  destruct (pos A) as [[ax ay] az], (pos B) as [[bx by_] bz], (pos C) as [[cx cy] cz], (pos D) as [[dx dy] dz].
  unfold v0. vec_eq; ring.
Qed.

(* loop_subdivision: each of the four triangles has a quarter of the vector area of its parent:
   same plane, same orientation, areas add up *)
Theorem C13_loop_area A B C mAB mBC mCA :
  pos mAB = loop_mid FO (pos A) (pos B) -> pos mBC = loop_mid FO (pos B) (pos C) -> pos mCA = loop_mid FO (pos C) (pos A) ->
  Forall (fun t => vscale four (area_of t) = area_of [A; B; C]) (loop_tris A B C mAB mBC mCA).
Proof.
  intros H1 H2 H3. unfold loop_tris. pose proof two_nz'.
  repeat (apply Forall_cons || apply Forall_nil); unfold Geom.area_of; cbn [map]; rewrite ?H1, ?H2, ?H3; unfold loop_mid;
    cbn [pdivz padd fieldO]; rewrite !varea2_tri;
    destruct (pos A) as [[ax ay] az], (pos B) as [[bx by_] bz], (pos C) as [[cx cy] cz];
    unfold Geom.four, v0; vec_eq; field; nz.
Qed.

End WithPositions.

(* fan of ANY polygon around ANY apex: the vector areas of the triangles add up to the polygon's *)
Lemma vadd_comm (a b : vec) : vadd a b = vadd b a.
Proof. destruct a as [[? ?] ?], b as [[? ?] ?]. vec_eq; ring. Qed.
Lemma vadd_assoc (a b c : vec) : vadd a (vadd b c) = vadd (vadd a b) c.
Proof. destruct a as [[? ?] ?], b as [[? ?] ?], c as [[? ?] ?]. vec_eq; ring. Qed.
Lemma vadd_0_r (a : vec) : vadd a (v0 F f0) = a.
Proof. destruct a as [[? ?] ?]. unfold v0. vec_eq; ring. Qed.
Lemma vsum_app l l' : vsum (l ++ l') = vadd (vsum l) (vsum l').
Proof.
  induction l as [|x t IH]; cbn [app Geom.vsum fold_right].
  - rewrite vadd_comm, vadd_0_r. reflexivity.
  - fold (vsum (t ++ l')). fold (vsum t). rewrite IH. apply vadd_assoc.
Qed.
Lemma vsum_map_add {A} (g h : A -> vec) l : vsum (map (fun x => vadd (g x) (h x)) l) = vadd (vsum (map g l)) (vsum (map h l)).
Proof.
  induction l as [|x t IH]; cbn [map Geom.vsum fold_right].
  - now rewrite vadd_0_r.
  - fold (vsum (map (fun x => vadd (g x) (h x)) t)). fold (vsum (map g t)). fold (vsum (map h t)). rewrite IH.
    destruct (g x) as [[? ?] ?], (h x) as [[? ?] ?], (vsum (map g t)) as [[? ?] ?], (vsum (map h t)) as [[? ?] ?]. vec_eq; ring.
Qed.
Lemma cross_sum_l (g : vec) l : vsum (map (fun b => cross b g) l) = cross (vsum l) g.
Proof.
  induction l as [|x t IH]; cbn [map Geom.vsum fold_right].
  - destruct g as [[? ?] ?]. unfold v0. vec_eq; ring.
  - fold (vsum (map (fun b => cross b g) t)). fold (vsum t). rewrite IH.
    destruct x as [[? ?] ?], g as [[? ?] ?], (vsum t) as [[? ?] ?]. vec_eq; ring.
Qed.
Lemma cross_sum_r (g : vec) l : vsum (map (fun a => cross g a) l) = cross g (vsum l).
Proof.
  induction l as [|x t IH]; cbn [map Geom.vsum fold_right].
  - destruct g as [[? ?] ?]. unfold v0. vec_eq; ring.
  - fold (vsum (map (fun a => cross g a) t)). fold (vsum t). rewrite IH.
    destruct x as [[? ?] ?], g as [[? ?] ?], (vsum t) as [[? ?] ?]. vec_eq; ring.
Qed.
Lemma cross_anti (a b : vec) : vadd (cross a b) (cross b a) = v0 F f0.
Proof. destruct a as [[? ?] ?], b as [[? ?] ?]. unfold v0. vec_eq; ring. Qed.

Lemma cyc_fst {A} (l : list A) : map fst (cyc l) = l.
Proof.
  destruct l as [|x t]; [reflexivity|]. unfold cyc.
  assert (H : forall (l1 l2 : list A), length l1 = length l2 -> map fst (combine l1 l2) = l1).
  { induction l1 as [|a l1 IH]; intros [|b l2] L; cbn in *; try lia; auto. f_equal. apply IH. lia. }
  apply H. rewrite app_length. cbn. lia.
Qed.
Lemma cyc_snd {A} (x : A) t : map snd (cyc (x :: t)) = t ++ [x].
Proof.
  unfold cyc.
  assert (H : forall (l1 l2 : list A), length l1 = length l2 -> map snd (combine l1 l2) = l2).
  { induction l1 as [|a l1 IH]; intros [|b l2] L; cbn in *; try lia; auto. f_equal. apply IH. lia. }
  apply H. rewrite app_length. cbn. lia.
Qed.

Theorem C13_fan_area_any (pl : list vec) (g : vec) :
  vsum (map (fun ab => varea2 [fst ab; snd ab; g]) (cyc pl)) = varea2 pl.
Proof.
  rewrite (map_ext _ (fun ab => vadd (cross (fst ab) (snd ab)) (vadd (cross (snd ab) g) (cross g (fst ab))))).
  2:{ intros [a b]. rewrite varea2_tri. cbn [fst snd]. now rewrite vadd_0_r. }
  rewrite vsum_map_add. unfold Geom.varea2.
  rewrite vsum_map_add.
  rewrite <- (map_map snd (fun b => cross b g)), <- (map_map fst (fun a => cross g a)).
  rewrite cross_sum_l, cross_sum_r, cyc_fst.
  destruct pl as [|x t].
  - cbn. unfold v0. vec_eq; ring.
  - rewrite cyc_snd, vsum_app. cbn [Geom.vsum fold_right]. fold (vsum t).
    replace (vadd (vsum t) (vadd x (v0 F f0))) with (vadd x (vsum t)) by (rewrite vadd_0_r; apply vadd_comm).
    rewrite cross_anti. apply vadd_0_r.
Qed.

End Geometry.
