(* C13 - loop_subdivision preserves the half-edge criterion of an oriented manifold: if every directed edge of the
   (triangulated) surface occurs once, faces have three distinct in-range vertices, the edge list covers the faces,
   and no two faces run through the same corner in opposite directions (no two triangles on the same three
   vertices), then the same holds for the refined surface.  Also: the refined edge count 2E + 3F, hence the Euler
   characteristic. *)
From Coq Require Import ZArith List Bool Lia Permutation.
Require Import MV.Lib.Base MV.C13.Defs MV.C13.Gen MV.C13.Model MV.C13.Proofs_Base MV.C13.Proofs_Counts MV.C13.Proofs_Topo
               MV.C13.Proofs_Accept MV.C13.Proofs_Accept2.
Import ListNotations.
Open Scope Z_scope.

(* ------------------------------------------------------------------ NoDup toolbox *)
Lemma NoDup_app_intro {A} (l l' : list A) :
  NoDup l -> NoDup l' -> (forall x, In x l -> ~ In x l') -> NoDup (l ++ l').
Proof.
  induction l as [|a t IH]; cbn; intros H1 H2 Hd; [exact H2|]. inversion H1; subst. constructor.
  - intros Hin. apply in_app_or in Hin as [Hin|Hin]; [contradiction|]. apply (Hd a); auto.
  - apply IH; auto.
Qed.

Lemma NoDup_flat_map_intro {A B} (g : A -> list B) l :
  NoDup l -> (forall x, In x l -> NoDup (g x)) ->
  (forall x y z, In x l -> In y l -> In z (g x) -> In z (g y) -> x = y) -> NoDup (flat_map g l).
Proof.
  induction l as [|a t IH]; cbn; intros Hn Hg Hd; [constructor|]. inversion Hn; subst.
  apply NoDup_app_intro.
  - apply Hg. auto.
  - apply IH; auto. intros x y z Hx Hy. apply Hd; auto.
  - intros z Hz Hin. apply in_flat_map in Hin as [y [Hy Hzy]].
    assert (a = y) by (apply (Hd a y z); auto). subst. contradiction.
Qed.

Lemma NoDup_map_intro {A B} (g : A -> B) l :
  NoDup l -> (forall x y, In x l -> In y l -> g x = g y -> x = y) -> NoDup (map g l).
Proof.
  induction l as [|a t IH]; cbn; intros Hn Hg; [constructor|]. inversion Hn; subst. constructor.
  - intros Hin. apply in_map_iff in Hin as [y [Hy Hin]]. assert (y = a) by (apply Hg; auto). subst. contradiction.
  - apply IH; auto.
Qed.

Lemma combine_zrange_fun {A} (l : list A) n x y i : In (x, i) (combine l (zrange n)) -> In (y, i) (combine l (zrange n)) -> x = y.
Proof.
  unfold zrange. generalize (Z.to_nat n). intros k. generalize 0%nat as s. revert k.
  induction l as [|a t IH]; intros k s; [contradiction|]. destruct k as [|k]; [contradiction|]. cbn [seq map combine].
  intros [H1|H1] [H2|H2].
  - congruence.
  - inversion H1; subst. apply in_combine_r in H2. apply in_map_iff in H2 as [j [Hj Hin]]. apply in_seq in Hin. lia.
  - inversion H2; subst. apply in_combine_r in H1. apply in_map_iff in H1 as [j [Hj Hin]]. apply in_seq in Hin. lia.
  - eapply IH; eauto.
Qed.

(* ------------------------------------------------------------------ triangles, corners *)
Definition tri_corners (F : list Z) : list (Z * Z * Z) :=
  match F with [A; B; C] => [(A, B, C); (B, C, A); (C, A, B)] | _ => [] end.
Definition all_corners (fs : list (list Z)) : list (Z * Z * Z) := flat_map tri_corners fs.

(* oriented triangle surface on vertices 0..n-1: every directed edge once, faces on three distinct vertices in range *)
Definition oriented_tri (n : Z) (fs : list (list Z)) : Prop :=
  NoDup (dedges_all fs) /\ Forall (fun F => Zlen F = 3 /\ NoDup F /\ Forall (vert_ok n) F) fs.
(* no corner is run through in both directions (two distinct triangles never have the same three vertices) *)
Definition simple_tri (fs : list (list Z)) : Prop :=
  forall A B C, In (A, B, C) (all_corners fs) -> ~ In (C, B, A) (all_corners fs).

Lemma corner_edges fs : Forall (fun F => Zlen F = 3) fs -> map (fun c => (fst (fst c), snd (fst c))) (all_corners fs) = dedges_all fs.
Proof.
  induction 1 as [|F t HF _ IH]; [reflexivity|]. unfold all_corners, dedges_all in *. cbn [flat_map]. rewrite map_app, IH. f_equal.
  destruct (tri_shape F HF) as [A [B [C ->]]]. reflexivity.
Qed.

Lemma corner_spec fs A B C :
  In (A, B, C) (all_corners fs) -> exists F, In F fs /\ In (A, B, C) (tri_corners F).
Proof. unfold all_corners. intros H. apply in_flat_map in H. exact H. Qed.

Lemma tri_corner_distinct n F A B C :
  Zlen F = 3 /\ NoDup F /\ Forall (vert_ok n) F -> In (A, B, C) (tri_corners F) ->
  A <> B /\ B <> C /\ C <> A /\ vert_ok n A /\ vert_ok n B /\ vert_ok n C /\
  In (A, B) (dedges F) /\ In (B, C) (dedges F) /\ In (C, A) (dedges F).
Proof.
  intros [L [Hn Hv]] Hin. destruct (tri_shape F L) as [X [Y [Z ->]]].
  inversion Hn as [|? ? HX Hn1]; subst. inversion Hn1 as [|? ? HY Hn2]; subst. cbn in HX, HY.
  inversion Hv as [|? ? VX Hv1]; subst. inversion Hv1 as [|? ? VY Hv2]; subst. inversion Hv2 as [|? ? VZ _]; subst.
  cbn in Hin. destruct Hin as [E|[E|[E|[]]]]; inversion E; subst;
    (split; [|split; [|split; [|split; [|split; [|split; [|split; [|split]]]]]]]); try assumption; try (cbn; tauto);
    intros Heq; subst; tauto.
Qed.

Section LoopManifold.
Context {P : Type} (O : pops P).
Notation raw := (raw P).

(* ------------------------------------------------------------------ properties of the midpoint numbering *)
Record mids_ok (r : raw) (m : edge -> Z) : Prop := {
  m_range : forall e, In e (dedges_all (rf r)) -> nV r <= m e < nV r + nE r;
  m_inj : forall e e', In e (dedges_all (rf r)) -> In e' (dedges_all (rf r)) -> m e = m e' -> keyE e = keyE e';
  m_sym : forall e, m (swap e) = m e }.

Lemma mid_of_ok r : Forall (covered (re r)) (rf r) -> mids_ok r (mid_of r).
Proof.
  intros Hc.
  assert (Hk : forall e, In e (dedges_all (rf r)) ->
             exists x i, In (x, i) (combine (re r) (zrange (Zlen (re r)))) /\ keyE e = keyE x /\ mid_of r e = Zlen (rv r) + i /\
                         nV r <= mid_of r e < nV r + nE r).
  { intros [a b] He. unfold dedges_all in He. apply in_flat_map in He as [F [HF Hd]].
    rewrite Forall_forall in Hc.
    destruct (covered_key loop_key (Zlen (rv r)) (re r) F a b (fun x y => eq_refl) (Hc F HF) Hd) as [m [H1 [R [x [i [Hin [Hk Hm]]]]]]].
    exists x, i. unfold mid_of, mf. rewrite keyE_pair. rewrite (hget_hv _ _ _ H1). repeat split; auto; unfold nV, nE; lia. }
  constructor.
  - intros e He. destruct (Hk e He) as [x [i [_ [_ [_ R]]]]]. exact R.
  - intros e e' He He' Hm. destruct (Hk e He) as [x [i [Hin [Hke [Hme _]]]]]. destruct (Hk e' He') as [x' [i' [Hin' [Hke' [Hme' _]]]]].
    assert (i = i') by lia. subst i'. rewrite (combine_zrange_fun _ _ _ _ _ Hin Hin') in Hke. congruence.
  - apply mid_of_sym.
Qed.

(* ------------------------------------------------------------------ the three groups of directed edges of the refinement *)
Variable r : raw.
Variable m : edge -> Z.
Hypothesis Hm : mids_ok r m.
Hypothesis Hor : oriented_tri (nV r) (rf r).
Hypothesis Hsimple : simple_tri (rf r).

Let D := dedges_all (rf r).

Lemma D_edge a b : In (a, b) D -> a <> b /\ vert_ok (nV r) a /\ vert_ok (nV r) b.
Proof.
  intros H. unfold D, dedges_all in H. apply in_flat_map in H as [F [HF Hd]].
  destruct Hor as [_ Hf]. rewrite Forall_forall in Hf. destruct (Hf F HF) as [L [Hn Hv]].
  destruct (tri_shape F L) as [X [Y [Z ->]]].
  inversion Hn as [|? ? HX Hn1]; subst. inversion Hn1 as [|? ? HY Hn2]; subst. cbn in HX, HY.
  inversion Hv as [|? ? VX Hv1]; subst. inversion Hv1 as [|? ? VY Hv2]; subst. inversion Hv2 as [|? ? VZ _]; subst.
  cbn in Hd. destruct Hd as [E|[E|[E|[]]]]; inversion E; subst; (split; [|split]); try assumption; intros Heq; subst; tauto.
Qed.

Lemma key_same_start a b b' : a <> b -> a <> b' -> keyE (a, b) = keyE (a, b') -> b = b'.
Proof. rewrite !keyE_pair. intros H1 H2 H. apply keyify2_eq in H. destruct H as [[_ H]|[H H']]; congruence. Qed.
Lemma key_same_end a a' b : a <> b -> a' <> b -> keyE (a, b) = keyE (a', b) -> a = a'.
Proof. rewrite !keyE_pair. intros H1 H2 H. apply keyify2_eq in H. destruct H as [[H _]|[H H']]; congruence. Qed.

Lemma halves_NoDup : NoDup (flat_map (hsplit m) D).
Proof.
  apply NoDup_flat_map_intro.
  - destruct Hor as [H _]. exact H.
  - intros [a b] He. destruct (D_edge a b He) as [Hab [Va Vb]]. pose proof (m_range r m Hm _ He) as R.
    unfold hsplit. cbn [fst snd]. constructor; [|constructor; [intros []|constructor]].
    intros [E|[]]. inversion E. unfold vert_ok in Va. lia.
  - intros [a b] [a' b'] z He He' Hz Hz'. destruct (D_edge a b He) as [Hab [Va Vb]]. destruct (D_edge a' b' He') as [Hab' [Va' Vb']].
    pose proof (m_range r m Hm _ He) as R. pose proof (m_range r m Hm _ He') as R'. unfold vert_ok in *.
    unfold hsplit in Hz, Hz'. cbn [fst snd] in Hz, Hz'.
    destruct Hz as [<-|[<-|[]]]; destruct Hz' as [E|[E|[]]]; inversion E; subst; try lia.
    + assert (K := m_inj r m Hm _ _ He He' (eq_sym H1)). apply key_same_start in K; auto. congruence.
    + assert (K := m_inj r m Hm _ _ He He' (eq_sym H0)). apply key_same_end in K; auto. congruence.
Qed.

Definition corner_edge (c : Z * Z * Z) : edge := (m (fst (fst c), snd (fst c)), m (snd (fst c), snd c)).

Lemma inner_corners F : Zlen F = 3 -> inner m F = map corner_edge (tri_corners F).
Proof. intros L. destruct (tri_shape F L) as [A [B [C ->]]]. reflexivity. Qed.

Lemma all_tri_len : Forall (fun F => Zlen F = 3) (rf r).
Proof. destruct Hor as [_ H]. eapply Forall_impl; [|exact H]. intros F [L _]. exact L. Qed.

Lemma inner_all : flat_map (inner m) (rf r) = map corner_edge (all_corners (rf r)).
Proof.
  unfold all_corners. pose proof all_tri_len as H. revert H. generalize (rf r). intros l H.
  induction H as [|F t HF _ IH]; [reflexivity|].
  cbn [flat_map]. rewrite map_app, <- IH, (inner_corners F HF). reflexivity.
Qed.

Lemma corner_facts A B C :
  In (A, B, C) (all_corners (rf r)) ->
  A <> B /\ B <> C /\ C <> A /\ In (A, B) D /\ In (B, C) D /\ In (C, A) D.
Proof.
  intros H. destruct (corner_spec _ _ _ _ H) as [F [HF Hc]]. destruct Hor as [_ Hf]. rewrite Forall_forall in Hf.
  destruct (tri_corner_distinct _ F A B C (Hf F HF) Hc) as [H1 [H2 [H3 [_ [_ [_ [E1 [E2 E3]]]]]]]].
  repeat split; auto; unfold D, dedges_all; apply in_flat_map; exists F; auto.
Qed.

Lemma corners_NoDup : NoDup (all_corners (rf r)).
Proof.
  apply (NoDup_map_inv (fun c => (fst (fst c), snd (fst c)))). rewrite corner_edges by apply all_tri_len. destruct Hor as [H _]. exact H.
Qed.

(* a corner is determined by its first directed edge *)
Lemma corner_by_first A B C C' : In (A, B, C) (all_corners (rf r)) -> In (A, B, C') (all_corners (rf r)) -> C = C'.
Proof.
  intros H H'. pose proof corners_NoDup as Hn.
  assert (Hm' : NoDup (map (fun c => (fst (fst c), snd (fst c))) (all_corners (rf r)))).
  { rewrite corner_edges by apply all_tri_len. destruct Hor as [Hd _]. exact Hd. }
  clear -H H' Hm'. induction (all_corners (rf r)) as [|c t IH]; [contradiction|]. cbn in Hm'.
  inversion Hm' as [|? ? Hnotin Hnd]; subst.
  destruct H as [->|H], H' as [E|H'].
  - inversion E; auto.
  - exfalso. apply Hnotin. apply in_map_iff. exists (A, B, C'). auto.
  - subst c. exfalso. apply Hnotin. apply in_map_iff. exists (A, B, C). auto.
  - auto.
Qed.

Lemma corner_edge_inj c c' :
  In c (all_corners (rf r)) -> In c' (all_corners (rf r)) -> corner_edge c = corner_edge c' -> c = c'.
Proof.
  destruct c as [[A B] C], c' as [[A' B'] C']. intros H H' E. unfold corner_edge in E. cbn [fst snd] in E. inversion E as [[E1 E2]].
  destruct (corner_facts _ _ _ H) as [N1 [N2 [N3 [I1 [I2 I3]]]]]. destruct (corner_facts _ _ _ H') as [N1' [N2' [N3' [I1' [I2' I3']]]]].
  pose proof (m_inj r m Hm _ _ I1 I1' E1) as K1. pose proof (m_inj r m Hm _ _ I2 I2' E2) as K2.
  rewrite !keyE_pair in K1, K2. apply keyify2_eq in K1, K2.
  destruct K1 as [[-> ->]|[-> ->]]; destruct K2 as [[Hb ->]|[Hb Hc]]; congruence.
Qed.

Lemma inner_NoDup : NoDup (flat_map (inner m) (rf r)).
Proof. rewrite inner_all. apply NoDup_map_intro; [apply corners_NoDup|apply corner_edge_inj]. Qed.

Lemma inner_range e : In e (flat_map (inner m) (rf r)) -> nV r <= fst e /\ nV r <= snd e.
Proof.
  rewrite inner_all. intros H. apply in_map_iff in H as [[[A B] C] [<- Hc]].
  destruct (corner_facts _ _ _ Hc) as [_ [_ [_ [I1 [I2 _]]]]]. unfold corner_edge. cbn [fst snd].
  pose proof (m_range r m Hm _ I1). pose proof (m_range r m Hm _ I2). lia.
Qed.

Lemma halves_low e : In e (flat_map (hsplit m) D) -> fst e < nV r \/ snd e < nV r.
Proof.
  intros H. apply in_flat_map in H as [[a b] [He Hz]]. destruct (D_edge a b He) as [_ [Va Vb]]. unfold vert_ok in *.
  unfold hsplit in Hz. cbn [fst snd] in Hz. destruct Hz as [<-|[<-|[]]]; cbn [fst snd]; lia.
Qed.

Lemma inner_not_swapped e : In e (flat_map (inner m) (rf r)) -> ~ In e (map swap (flat_map (inner m) (rf r))).
Proof.
  rewrite inner_all. intros H Hs. apply in_map_iff in H as [[[A B] C] [<- Hc]].
  apply in_map_iff in Hs as [e' [Es He']]. apply in_map_iff in He' as [[[A' B'] C'] [<- Hc']].
  unfold corner_edge, swap in Es. cbn [fst snd] in Es. inversion Es as [[E1 E2]].
  destruct (corner_facts _ _ _ Hc) as [N1 [N2 [N3 [I1 [I2 I3]]]]]. destruct (corner_facts _ _ _ Hc') as [N1' [N2' [N3' [I1' [I2' I3']]]]].
  pose proof (m_inj r m Hm _ _ I2' I1 E1) as K1. pose proof (m_inj r m Hm _ _ I1' I2 E2) as K2.
  rewrite !keyE_pair in K1, K2. apply keyify2_eq in K1, K2.
  destruct K1 as [[Ha Hb]|[Ha Hb]]; destruct K2 as [[Hc1 Hd]|[Hc1 Hd]]; subst; try congruence.
  apply (Hsimple _ _ _ Hc). exact Hc'.
Qed.

Theorem loop_new_dedges_NoDup :
  NoDup (flat_map (hsplit m) D ++ flat_map (inner m) (rf r) ++ map swap (flat_map (inner m) (rf r))).
Proof.
  apply NoDup_app_intro; [apply halves_NoDup| |].
  - apply NoDup_app_intro; [apply inner_NoDup| |apply inner_not_swapped].
    apply NoDup_map_intro; [apply inner_NoDup|]. intros x y _ _ E. rewrite <- (swap_swap x), <- (swap_swap y). now rewrite E.
  - intros e He Hin. apply halves_low in He. apply in_app_or in Hin as [Hin|Hin].
    + apply inner_range in Hin. lia.
    + apply in_map_iff in Hin as [e' [<- Hin]]. apply inner_range in Hin. unfold swap in He. cbn [fst snd] in He. lia.
Qed.

(* ------------------------------------------------------------------ the refined surface is simple again *)
(* the two kinds of new triangles, named by a corner (P,Q,R) of an old face: its centre triangle, and the triangle
   cut off at the vertex Q *)
Definition centre_tri (c : Z * Z * Z) : list Z :=
  let '(P0, Q, R) := c in [m (P0, Q); m (Q, R); m (R, P0)].
Definition corner_tri (c : Z * Z * Z) : list Z :=
  let '(P0, Q, R) := c in [Q; m (Q, R); m (P0, Q)].

Lemma loop_tris_kinds A B C T :
  In T (loop_tris A B C (m (A, B)) (m (B, C)) (m (C, A))) ->
  exists c, In c (tri_corners [A; B; C]) /\ (T = centre_tri c \/ T = corner_tri c).
Proof.
  cbn. intros [<-|[<-|[<-|[<-|[]]]]].
  - exists (A, B, C). cbn. auto.
  - exists (C, A, B). cbn. auto.
  - exists (A, B, C). cbn. auto.
  - exists (B, C, A). cbn. auto.
Qed.

Definition new_faces : list (list Z) :=
  flat_map (fun F => match F with [A; B; C] => loop_tris A B C (m (A, B)) (m (B, C)) (m (C, A)) | _ => [] end) (rf r).

Lemma new_face_kind T : In T new_faces -> exists c, In c (all_corners (rf r)) /\ (T = centre_tri c \/ T = corner_tri c).
Proof.
  unfold new_faces. intros H. apply in_flat_map in H as [F [HF HT]].
  pose proof all_tri_len as Hl. rewrite Forall_forall in Hl. destruct (tri_shape F (Hl F HF)) as [A [B [C ->]]].
  destruct (loop_tris_kinds A B C T HT) as [c [Hc Hk]]. exists c. split; auto.
  unfold all_corners. apply in_flat_map. eauto.
Qed.

(* rotating a corner of an old face gives a corner of the same face *)
Lemma corner_rot A B C : In (A, B, C) (all_corners (rf r)) -> In (B, C, A) (all_corners (rf r)) /\ In (C, A, B) (all_corners (rf r)).
Proof.
  intros H. destruct (corner_spec _ _ _ _ H) as [F [HF Hc]].
  pose proof all_tri_len as Hl. rewrite Forall_forall in Hl. destruct (tri_shape F (Hl F HF)) as [X [Y [Z ->]]].
  split; unfold all_corners; apply in_flat_map; exists [X; Y; Z]; (split; [exact HF|]);
    cbn in Hc |- *; destruct Hc as [E|[E|[E|[]]]]; inversion E; subst; auto.
Qed.

Lemma inner_In c : In c (all_corners (rf r)) -> In (corner_edge c) (flat_map (inner m) (rf r)).
Proof. intros H. rewrite inner_all. now apply in_map. Qed.

(* directed edges of a centre triangle are interior edges *)
Lemma centre_dedges c e : In c (all_corners (rf r)) -> In e (dedges (centre_tri c)) -> In e (flat_map (inner m) (rf r)).
Proof.
  destruct c as [[P0 Q] R]. intros Hc He. destruct (corner_rot _ _ _ Hc) as [H1 H2].
  cbn in He. destruct He as [<-|[<-|[<-|[]]]].
  - apply (inner_In (P0, Q, R)); auto.
  - apply (inner_In (Q, R, P0)); auto.
  - apply (inner_In (R, P0, Q)); auto.
Qed.

Lemma mid_high a b : In (a, b) D -> nV r <= m (a, b).
Proof. intros H. pose proof (m_range r m Hm _ H). lia. Qed.

Theorem loop_new_simple : simple_tri new_faces.
Proof.
  intros X Y Z H H'. destruct (corner_spec _ _ _ _ H) as [T [HT Hc]]. destruct (corner_spec _ _ _ _ H') as [T' [HT' Hc']].
  destruct (new_face_kind T HT) as [[[P0 Q] R] [Hk [->| ->]]]; destruct (new_face_kind T' HT') as [[[P0' Q'] R'] [Hk' [->| ->]]].
  - (* centre, centre: X->Y is interior in one and Y->X in the other *)
    assert (E1 : In (X, Y) (dedges (centre_tri (P0, Q, R)))) by (cbn in Hc |- *; destruct Hc as [E|[E|[E|[]]]]; inversion E; subst; auto).
    assert (E2 : In (Y, X) (dedges (centre_tri (P0', Q', R')))) by (cbn in Hc' |- *; destruct Hc' as [E|[E|[E|[]]]]; inversion E; subst; auto).
    apply centre_dedges in E1; auto. apply centre_dedges in E2; auto.
    apply (inner_not_swapped _ E1). apply in_map_iff. exists (Y, X). auto.
  - (* centre, corner: the corner triangle has an old vertex, the centre triangle has none *)
    destruct (corner_facts _ _ _ Hk) as [_ [_ [_ [I1 [I2 I3]]]]]. destruct (corner_facts _ _ _ Hk') as [_ [_ [_ [I1' [I2' I3']]]]].
    pose proof (mid_high _ _ I1). pose proof (mid_high _ _ I2). pose proof (mid_high _ _ I3).
    destruct (D_edge _ _ I2') as [_ [VQ _]]. unfold vert_ok in VQ.
    cbn in Hc, Hc'. destruct Hc as [E|[E|[E|[]]]]; inversion E; subst; destruct Hc' as [E'|[E'|[E'|[]]]]; inversion E'; subst; lia.
  - destruct (corner_facts _ _ _ Hk) as [_ [_ [_ [I1 [I2 I3]]]]]. destruct (corner_facts _ _ _ Hk') as [_ [_ [_ [I1' [I2' I3']]]]].
    pose proof (mid_high _ _ I1'). pose proof (mid_high _ _ I2'). pose proof (mid_high _ _ I3').
    destruct (D_edge _ _ I2) as [_ [VQ _]]. unfold vert_ok in VQ.
    cbn in Hc, Hc'. destruct Hc as [E|[E|[E|[]]]]; inversion E; subst; destruct Hc' as [E'|[E'|[E'|[]]]]; inversion E'; subst; lia.
  - (* corner, corner: the midpoint-midpoint edge of one would be the reverse of that of the other *)
    destruct (corner_facts _ _ _ Hk) as [_ [_ [_ [I1 [I2 I3]]]]]. destruct (corner_facts _ _ _ Hk') as [_ [_ [_ [I1' [I2' I3']]]]].
    pose proof (mid_high _ _ I1). pose proof (mid_high _ _ I2). pose proof (mid_high _ _ I1'). pose proof (mid_high _ _ I2').
    destruct (D_edge _ _ I2) as [_ [VQ _]]. destruct (D_edge _ _ I2') as [_ [VQ' _]]. unfold vert_ok in VQ, VQ'.
    assert (J : In (m (P0, Q), m (Q, R)) (flat_map (inner m) (rf r))) by (apply (inner_In (P0, Q, R)); auto).
    assert (J' : In (m (P0', Q'), m (Q', R')) (flat_map (inner m) (rf r))) by (apply (inner_In (P0', Q', R')); auto).
    assert (Esw : (m (P0, Q), m (Q, R)) = (m (Q', R'), m (P0', Q'))).
    { cbn in Hc, Hc'. destruct Hc as [E|[E|[E|[]]]]; inversion E; subst; destruct Hc' as [E'|[E'|[E'|[]]]]; inversion E'; subst;
        first [lia | congruence]. }
    apply (inner_not_swapped _ J). apply in_map_iff. exists (m (P0', Q'), m (Q', R')). split; [unfold swap; cbn [fst snd]; congruence|exact J'].
Qed.

End LoopManifold.

(* ------------------------------------------------------------------ one refinement of loop_subdivision on the model *)
Section LoopStep.
Context {P : Type} (O : pops P).
Notation raw := (raw P).

(* what the refinement writes for each face *)
Lemma loop_step_faces r r' :
  loop_step O r = Ok r' -> Forall (fun F => Zlen F = 3) (rf r) ->
  forall T, In T (rf r') -> exists A B C, In [A; B; C] (rf r) /\
     In T (loop_tris A B C (mid_of r (A, B)) (mid_of r (B, C)) (mid_of r (C, A))).
Proof.
  unfold loop_step. intros H Ht T HT. apply bind_Ok in H as [ms [_ H]]. apply bind_Ok in H as [fe [Hfe H]].
  inversion H; subst r'; clear H. cbn [rf] in HT. apply in_flat_map in HT as [p [Hp HT]].
  apply mapM_Forall2 in Hfe. destruct (Forall2_In_r _ _ _ _ Hfe Hp) as [F [HF HpF]].
  rewrite Forall_forall in Ht. destruct (tri_shape F (Ht F HF)) as [A [B [C ->]]]. exists A, B, C. split; auto.
  unfold loop_face, loop_keys in HpF.
  apply bind_Ok in HpF as [m1 [H1 HpF]]. apply bind_Ok in HpF as [m2 [H2 HpF]]. apply bind_Ok in HpF as [m3 [H3 HpF]].
  inversion HpF; subst p; clear HpF. cbn [fst] in HT.
  unfold mid_of, mf. rewrite !keyE_pair. rewrite (hget_hv _ _ _ H1), (hget_hv _ _ _ H2), (hget_hv _ _ _ H3). exact HT.
Qed.

Lemma loop_tris_distinct n n' A B C m1 m2 m3 :
  vert_ok n A -> vert_ok n B -> vert_ok n C -> n <= m1 < n' -> n <= m2 < n' -> n <= m3 < n' ->
  m1 <> m2 -> m2 <> m3 -> m3 <> m1 ->
  Forall (fun T => Zlen T = 3 /\ NoDup T /\ Forall (vert_ok n') T) (loop_tris A B C m1 m2 m3).
Proof.
  unfold vert_ok. intros. unfold loop_tris.
  repeat (apply Forall_cons || apply Forall_nil); (split; [reflexivity|split]);
    try (repeat (apply Forall_cons || apply Forall_nil); lia);
    repeat (apply NoDup_cons || apply NoDup_nil); cbn; intuition lia.
Qed.

Theorem loop_step_oriented r r' :
  loop_step O r = Ok r' ->
  Forall (covered (re r)) (rf r) -> oriented_tri (nV r) (rf r) -> simple_tri (rf r) ->
  oriented_tri (nV r') (rf r').
Proof.
  intros H Hc Hor Hs. pose proof (mid_of_ok r Hc) as Hm.
  destruct (loop_step_counts O r r' H) as [HnV _].
  split.
  - eapply Permutation_NoDup; [apply Permutation_sym; apply (loop_step_dedges O r r' H _ eq_refl)|].
    apply (loop_new_dedges_NoDup r (mid_of r) Hm Hor Hs).
  - apply Forall_forall. intros T HT.
    assert (Ht : Forall (fun F => Zlen F = 3) (rf r)) by (destruct Hor as [_ Hf]; eapply Forall_impl; [|exact Hf]; intros F [L _]; exact L).
    destruct (loop_step_faces r r' H Ht T HT) as [A [B [C [HF HTin]]]].
    destruct Hor as [Hnd Hf]. rewrite Forall_forall in Hf. pose proof (Hf _ HF) as HFok.
    assert (Hcor : In (A, B, C) (tri_corners [A; B; C])) by (cbn; auto).
    destruct (tri_corner_distinct _ _ _ _ _ HFok Hcor) as [N1 [N2 [N3 [VA [VB [VC [E1 [E2 E3]]]]]]]].
    assert (D1 : In (A, B) (dedges_all (rf r))) by (unfold dedges_all; apply in_flat_map; eexists; eauto).
    assert (D2 : In (B, C) (dedges_all (rf r))) by (unfold dedges_all; apply in_flat_map; eexists; eauto).
    assert (D3 : In (C, A) (dedges_all (rf r))) by (unfold dedges_all; apply in_flat_map; eexists; eauto).
    pose proof (m_range r _ Hm _ D1) as R1. pose proof (m_range r _ Hm _ D2) as R2. pose proof (m_range r _ Hm _ D3) as R3.
    assert (K : forall a b c d, In (a, b) (dedges_all (rf r)) -> In (c, d) (dedges_all (rf r)) ->
                mid_of r (a, b) = mid_of r (c, d) -> (a = c /\ b = d) \/ (a = d /\ b = c)).
    { intros a b c d I1 I2 E. pose proof (m_inj r _ Hm _ _ I1 I2 E) as K. rewrite !keyE_pair in K. now apply keyify2_eq in K. }
    pose proof (loop_tris_distinct (nV r) (nV r') A B C (mid_of r (A, B)) (mid_of r (B, C)) (mid_of r (C, A)) VA VB VC) as Hd. rewrite HnV in Hd.
    rewrite Forall_forall in Hd. rewrite HnV. apply Hd; auto.
    + intros E. destruct (K _ _ _ _ D1 D2 E) as [[? ?]|[? ?]]; congruence.
    + intros E. destruct (K _ _ _ _ D2 D3 E) as [[? ?]|[? ?]]; congruence.
    + intros E. destruct (K _ _ _ _ D3 D1 E) as [[? ?]|[? ?]]; congruence.
Qed.

(* ------------------------------------------------------------------ simple again, iteration, the whole operation *)
Lemma loop_step_new_faces r r' :
  loop_step O r = Ok r' -> rf r' = new_faces r (mid_of r).
Proof.
  unfold loop_step. intros H. apply bind_Ok in H as [ms [_ H]]. apply bind_Ok in H as [fe [Hfe H]].
  inversion H; subst r'; clear H. cbn [rf]. apply mapM_Forall2 in Hfe. unfold new_faces.
  induction Hfe as [|F p l l' HFp _ IH]; [reflexivity|]. cbn [flat_map]. rewrite IH. f_equal.
  unfold loop_face in HFp. destruct F as [|A [|B [|C [|? ?]]]]; try discriminate. unfold loop_keys in HFp.
  apply bind_Ok in HFp as [m1 [H1 HFp]]. apply bind_Ok in HFp as [m2 [H2 HFp]]. apply bind_Ok in HFp as [m3 [H3 HFp]].
  inversion HFp; subst p. cbn [fst]. unfold mid_of, mf. rewrite !keyE_pair.
  now rewrite (hget_hv _ _ _ H1), (hget_hv _ _ _ H2), (hget_hv _ _ _ H3).
Qed.

Theorem loop_step_simple r r' :
  loop_step O r = Ok r' ->
  Forall (covered (re r)) (rf r) -> oriented_tri (nV r) (rf r) -> simple_tri (rf r) -> simple_tri (rf r').
Proof.
  intros H Hc Hor Hs. rewrite (loop_step_new_faces r r' H). apply loop_new_simple; auto. now apply mid_of_ok.
Qed.

Lemma oriented_all_tri n (r : raw) : oriented_tri n (rf r) -> all_tri r.
Proof. intros [_ H]. unfold all_tri. eapply Forall_impl; [|exact H]. intros F [L _]. exact L. Qed.

Theorem loop_iter_manifold n : forall r r',
  iter_res n (loop_step O) r = Ok r' ->
  WF r -> oriented_tri (nV r) (rf r) -> simple_tri (rf r) ->
  WF r' /\ oriented_tri (nV r') (rf r') /\ simple_tri (rf r').
Proof.
  induction n as [|n IH]; intros r r' H HW Hor Hs; cbn [iter_res] in H.
  - inversion H; subst. auto.
  - apply bind_Ok in H as [r1 [H1 H]].
    destruct (loop_step_accepts O r HW (oriented_all_tri _ _ Hor)) as [r1' [H1' [HW1 _]]].
    rewrite H1 in H1'. inversion H1'; subst r1'. destruct HW as [_ [_ Hc]].
    apply (IH r1 r' H HW1).
    + eapply loop_step_oriented; eauto.
    + eapply loop_step_simple; eauto.
Qed.

(* on a triangle surface the preliminary triangulate() changes nothing *)
Lemma triangulate_tri_id (r : raw) : all_tri r -> triangulate O r = Ok r.
Proof.
  intros Ht. unfold triangulate.
  assert (H : forall l, (forall i, In i l -> 0 <= i < Zlen (rf r)) ->
             foldM (fun r0 f => F <- getz (rf r0) f ;; if tri_needs (Zlen F) then triangulate_face O r0 f else Ok r0) l r = Ok r).
  { induction l as [|i l IH]; intros Hl; cbn [foldM]; [reflexivity|].
    destruct (getz_total (rf r) i (Hl i (or_introl eq_refl))) as [F HF]. rewrite HF. cbn [bind].
    unfold all_tri in Ht. rewrite Forall_forall in Ht. rewrite (Ht F (getz_In _ _ _ HF)). cbn. apply IH. intros j Hj. apply Hl. now right. }
  apply H. intros i Hi. now apply In_zrange in Hi.
Qed.

Lemma iter_replacing n (s s' : @sstate P) :
  iter_res n (fun s => replacing s (loop_step O)) s = Ok s' -> iter_res n (loop_step O) (cur s) = Ok (cur s').
Proof.
  revert s. induction n as [|n IH]; intros s H; cbn [iter_res] in *; [inversion H; subst; reflexivity|].
  apply bind_Ok in H as [s1 [H1 H]]. unfold replacing in H1. apply bind_Ok in H1 as [r1 [Hr1 H1]]. inversion H1; subst s1; clear H1.
  rewrite Hr1. cbn [bind]. apply (IH _ H).
Qed.

(* loop_subdivision(n) as a whole, on an oriented simple triangle surface *)
Theorem loop_operation_manifold (s s' : @sstate P) n :
  sstep O s (Loop n) = Ok s' ->
  WF (cur s) -> oriented_tri (nV (cur s)) (rf (cur s)) -> simple_tri (rf (cur s)) ->
  WF (cur s') /\ oriented_tri (nV (cur s')) (rf (cur s')) /\ simple_tri (rf (cur s')).
Proof.
  cbn [sstep]. intros H HW Hor Hs. apply bind_Ok in H as [s1 [H1 H]].
  unfold in_place in H1. rewrite (triangulate_tri_id (cur s) (oriented_all_tri _ _ Hor)) in H1. cbn [bind] in H1.
  inversion H1; subst s1; clear H1. apply iter_replacing in H. cbn [cur] in H.
  apply (loop_iter_manifold _ _ _ H); auto.
Qed.

End LoopStep.
