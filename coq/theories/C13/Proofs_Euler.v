(* C13 - the edge count of one refinement of loop_subdivision: E' = 2E + 3F (hence V' - E' + F' = V - E + F),
   for an oriented simple triangle surface whose edge list is exactly the set of its face edges. *)
From Coq Require Import ZArith List Bool Lia Permutation.
Require Import MV.Lib.Base MV.C13.Defs MV.C13.Gen MV.C13.Model MV.C13.Proofs_Base MV.C13.Proofs_Counts MV.C13.Proofs_Topo
               MV.C13.Proofs_Accept MV.C13.Proofs_Accept2 MV.C13.Proofs_Manifold.
Import ListNotations.
Open Scope Z_scope.

Lemma same_elements_length (l R : list edge) :
  NoDup R -> (forall x, In x l <-> In x R) -> length (dedupE [] l) = length R.
Proof.
  intros HR Hiff. apply Permutation_length. apply NoDup_Permutation; auto.
  - apply dedupE_NoDup.
  - intros x. split.
    + intros H. apply Hiff. eapply dedupE_In_sub; eauto.
    + intros H. apply Hiff in H. destruct (dedupE_In_sup [] l x H) as [[]|H']; auto.
Qed.

Lemma NoDup_map_inj {A B} (g : A -> B) l x y : NoDup (map g l) -> In x l -> In y l -> g x = g y -> x = y.
Proof.
  induction l as [|a t IH]; cbn; [contradiction|]. intros Hn Hx Hy E. inversion Hn as [|? ? Hnot Hn']; subst.
  destruct Hx as [->|Hx], Hy as [->|Hy]; auto.
  - exfalso. apply Hnot. rewrite E. now apply in_map.
  - exfalso. apply Hnot. rewrite <- E. now apply in_map.
Qed.

Lemma Forall2_In_l {A B} (R : A -> B -> Prop) l l' x : Forall2 R l l' -> In x l -> exists y, In y l' /\ R x y.
Proof. induction 1; cbn; [contradiction|]. intros [<-|H1]; [eauto|]. destruct (IHForall2 H1) as [y' [? ?]]; eauto. Qed.

Lemma keyE_eq_cases x y : keyE x = keyE y -> x = y \/ x = swap y.
Proof.
  destruct x as [a b], y as [c d]. rewrite !keyE_pair. intros H. apply keyify2_eq in H.
  destruct H as [[-> ->]|[-> ->]]; [left|right]; reflexivity.
Qed.

Lemma keyify2_low a m0 : a <= m0 -> keyify2 a m0 = (a, m0).
Proof. intros H. unfold keyify2. destruct (a <=? m0) eqn:E; [reflexivity|lia]. Qed.

Section LoopEuler.
Context {P : Type} (O : pops P).
Notation raw := (raw P).

(* the edge list is exactly the set of undirected face edges, each once, none degenerate *)
Definition exact_edges (r : raw) : Prop :=
  NoDup (map keyE (re r)) /\
  forall e, In e (re r) -> fst e <> snd e /\ exists d, In d (dedges_all (rf r)) /\ keyE e = keyE d.

(* the nine undirected edges the refinement records for a face, as a set *)
Lemma loop_edges_set A B C m1 m2 m3 x :
  In x (map keyE (loop_edges A B C m1 m2 m3)) <->
  In x [keyify2 A m1; keyify2 B m1; keyify2 B m2; keyify2 C m2; keyify2 C m3; keyify2 A m3;
        keyE (m1, m2); keyE (m2, m3); keyE (m3, m1)].
Proof.
  unfold loop_edges. cbn [map In]. rewrite !keyE_pair.
  rewrite (keyify2_comm m1 B), (keyify2_comm m2 C), (keyify2_comm m3 A). tauto.
Qed.

Variable r r' : raw.
Hypothesis Hstep : loop_step O r = Ok r'.
Hypothesis HWF : WF r.
Hypothesis Hor : oriented_tri (nV r) (rf r).
Hypothesis Hsimple : simple_tri (rf r).
Hypothesis Hex : exact_edges r.

Let m := mid_of r.
Let D := dedges_all (rf r).
Let I := flat_map (inner m) (rf r).

Lemma Hcov : Forall (covered (re r)) (rf r).
Proof. destruct HWF as [_ [_ H]]. exact H. Qed.
Lemma Hm : mids_ok r m.
Proof. apply mid_of_ok, Hcov. Qed.

Lemma m_key e e' : keyE e = keyE e' -> m e = m e'.
Proof. intros H. unfold m, mid_of, mf. now rewrite H. Qed.

Definition halves_of (e : edge) : list edge := [keyify2 (fst e) (m e); keyify2 (snd e) (m e)].
Definition R : list edge := flat_map halves_of (re r) ++ map keyE I.

(* listed edge <-> directed face edge with the same key *)
Lemma listed_face_edge e : In e (re r) -> exists a b, In (a, b) D /\ keyE e = keyE (a, b) /\ fst e <> snd e /\
   ((fst e = a /\ snd e = b) \/ (fst e = b /\ snd e = a)).
Proof.
  intros He. destruct Hex as [_ H]. destruct (H e He) as [Hne [[a b] [Hd Hk]]]. exists a, b. repeat split; auto.
  destruct e as [x y]. rewrite !keyE_pair in Hk. apply keyify2_eq in Hk. cbn [fst snd]. tauto.
Qed.

Lemma face_edge_listed a b : In (a, b) D -> exists e, In e (re r) /\ keyE e = keyE (a, b).
Proof.
  intros Hd. unfold D, dedges_all in Hd. apply in_flat_map in Hd as [F [HF Hd]].
  pose proof Hcov as Hc. rewrite Forall_forall in Hc. pose proof (Hc F HF _ Hd) as Hin.
  apply in_map_iff in Hin as [e [He Hin]]. eauto.
Qed.

Lemma R_length : Zlen R = 2 * nE r + 3 * nF r.
Proof.
  unfold R. rewrite Zlen_app, Zlen_map. unfold Zlen. rewrite (flat_map_const_length halves_of (re r) 2) by (intros; reflexivity).
  unfold I. rewrite (flat_map_const_length (inner m) (rf r) 3).
  - unfold nE, nF, Zlen. lia.
  - intros F HF. destruct Hor as [_ Hf]. rewrite Forall_forall in Hf. destruct (Hf F HF) as [L _].
    destruct (tri_shape F L) as [A [B [C ->]]]. reflexivity.
Qed.

Lemma I_high e : In e I -> nV r <= fst e /\ nV r <= snd e.
Proof. apply (inner_range r m Hm Hor). Qed.

Lemma R_NoDup : NoDup R.
Proof.
  unfold R. apply NoDup_app_intro.
  - apply NoDup_flat_map_intro.
    + destruct Hex as [H _]. eapply NoDup_map_inv; eauto.
    + intros e He. destruct (listed_face_edge e He) as [a [b [Hd [Hk [Hne Hor']]]]].
      destruct (D_edge r Hor a b Hd) as [_ [Va Vb]]. pose proof (m_range r m Hm _ Hd) as Rm. rewrite <- (m_key _ _ Hk) in Rm.
      unfold vert_ok in *. unfold halves_of.
      assert (fst e < nV r /\ snd e < nV r) as [L1 L2] by (destruct Hor' as [[-> ->]|[-> ->]]; lia).
      rewrite !keyify2_low by lia. constructor; [|constructor; [intros []|constructor]]. intros [E|[]]. inversion E. congruence.
    + intros e e' z He He' Hz Hz'.
      destruct (listed_face_edge e He) as [a [b [Hd [Hk [Hne Hor1]]]]]. destruct (listed_face_edge e' He') as [a' [b' [Hd' [Hk' [Hne' Hor2]]]]].
      destruct (D_edge r Hor a b Hd) as [_ [Va Vb]]. destruct (D_edge r Hor a' b' Hd') as [_ [Va' Vb']].
      pose proof (m_range r m Hm _ Hd) as Rm. rewrite <- (m_key _ _ Hk) in Rm.
      pose proof (m_range r m Hm _ Hd') as Rm'. rewrite <- (m_key _ _ Hk') in Rm'. unfold vert_ok in *.
      assert (fst e < nV r /\ snd e < nV r) as [L1 L2] by (destruct Hor1 as [[-> ->]|[-> ->]]; lia).
      assert (fst e' < nV r /\ snd e' < nV r) as [L1' L2'] by (destruct Hor2 as [[-> ->]|[-> ->]]; lia).
      unfold halves_of in Hz, Hz'. rewrite !keyify2_low in Hz, Hz' by lia.
      assert (Em : m e = m e') by (destruct Hz as [<-|[<-|[]]]; destruct Hz' as [E|[E|[]]]; inversion E; auto).
      assert (Kd : keyE (a, b) = keyE (a', b')).
      { apply (m_inj r m Hm); auto. rewrite <- (m_key _ _ Hk), <- (m_key _ _ Hk'). exact Em. }
      destruct Hex as [Hnd _]. apply (NoDup_map_inj keyE (re r)); auto. congruence.
  - apply NoDup_map_intro; [apply (inner_NoDup r m Hm Hor)|].
    intros x y Hx Hy E. destruct (keyE_eq_cases _ _ E) as [->| ->]; auto.
    exfalso. apply (inner_not_swapped r m Hm Hor Hsimple _ Hy). rewrite <- (swap_swap y) at 1. apply in_map. exact Hx.
  - intros z Hz Hz'. apply in_flat_map in Hz as [e [He Hz]]. apply in_map_iff in Hz' as [i [<- Hi]].
    destruct (listed_face_edge e He) as [a [b [Hd [Hk [Hne Hor1]]]]]. destruct (D_edge r Hor a b Hd) as [_ [Va Vb]].
    pose proof (m_range r m Hm _ Hd) as Rm. rewrite <- (m_key _ _ Hk) in Rm. unfold vert_ok in *.
    assert (fst e < nV r /\ snd e < nV r) as [L1 L2] by (destruct Hor1 as [[-> ->]|[-> ->]]; lia).
    unfold halves_of in Hz. rewrite !keyify2_low in Hz by lia. destruct (I_high i Hi) as [Hi1 Hi2].
    destruct i as [p q]. rewrite keyE_pair in Hz. cbn [fst snd] in *.
    destruct (keyify2_cases p q) as [E|E]; rewrite E in Hz; destruct Hz as [Hz|[Hz|[]]]; inversion Hz; lia.
Qed.

(* the edges the refinement records are exactly R *)
Lemma recorded_iff x (fe : list (list (list Z) * list edge)) :
  Forall2 (fun F p => loop_face (half_table loop_key (Zlen (rv r)) (re r)) F = Ok p) (rf r) fe ->
  (In x (flat_map snd fe) <-> In x R).
Proof.
  intros H2.
  assert (Hp : forall F p, In F (rf r) -> loop_face (half_table loop_key (Zlen (rv r)) (re r)) F = Ok p ->
            exists A B C, F = [A; B; C] /\ snd p = map keyE (loop_edges A B C (m (A, B)) (m (B, C)) (m (C, A)))).
  { intros F p HF Hl. destruct Hor as [_ Hf]. rewrite Forall_forall in Hf. destruct (Hf F HF) as [L _].
    destruct (tri_shape F L) as [A [B [C ->]]]. exists A, B, C. split; auto.
    unfold loop_face, loop_keys in Hl.
    apply bind_Ok in Hl as [m1 [H1 Hl]]. apply bind_Ok in Hl as [m2' [H2' Hl]]. apply bind_Ok in Hl as [m3 [H3 Hl]].
    inversion Hl; subst p. cbn [snd]. unfold m, mid_of, mf. rewrite !keyE_pair.
    now rewrite (hget_hv _ _ _ H1), (hget_hv _ _ _ H2'), (hget_hv _ _ _ H3). }
  assert (Hface : forall A B C, In [A; B; C] (rf r) -> In (A, B) D /\ In (B, C) D /\ In (C, A) D /\ In (A, B, C) (all_corners (rf r)) /\
                  In (B, C, A) (all_corners (rf r)) /\ In (C, A, B) (all_corners (rf r))).
  { intros A B C HF. repeat split; try (unfold D, dedges_all; apply in_flat_map; exists [A; B; C]; split; [exact HF|cbn; auto]);
      unfold all_corners; apply in_flat_map; exists [A; B; C]; (split; [exact HF|cbn; auto]). }
  split.
  - intros Hx. apply in_flat_map in Hx as [p [Hpin Hx]]. destruct (Forall2_In_r _ _ _ _ H2 Hpin) as [F [HF Hl]].
    destruct (Hp F p HF Hl) as [A [B [C [-> Hs]]]]. rewrite Hs in Hx. apply loop_edges_set in Hx.
    destruct (Hface A B C HF) as [D1 [D2 [D3 [C1 [C2 C3]]]]].
    unfold R. apply in_or_app.
    assert (Hhalf : forall a b, In (a, b) D -> In (keyify2 a (m (a, b))) (flat_map halves_of (re r)) /\
                                             In (keyify2 b (m (a, b))) (flat_map halves_of (re r))).
    { intros a b Hd. destruct (face_edge_listed a b Hd) as [e [He Hk]]. rewrite <- (m_key _ _ Hk).
      destruct e as [u v]. rewrite !keyE_pair in Hk. apply keyify2_eq in Hk.
      split; apply in_flat_map; exists (u, v); (split; [exact He|]); unfold halves_of; cbn [fst snd];
        destruct Hk as [[-> ->]|[-> ->]]; cbn; auto. }
    cbn [In] in Hx. destruct Hx as [<-|[<-|[<-|[<-|[<-|[<-|[<-|[<-|[<-|[]]]]]]]]]].
    + left. apply (Hhalf A B D1).
    + left. apply (Hhalf A B D1).
    + left. apply (Hhalf B C D2).
    + left. apply (Hhalf B C D2).
    + left. apply (Hhalf C A D3).
    + left. apply (Hhalf C A D3).
    + right. apply in_map. apply (inner_In r m Hor (A, B, C)); auto.
    + right. apply in_map. apply (inner_In r m Hor (B, C, A)); auto.
    + right. apply in_map. apply (inner_In r m Hor (C, A, B)); auto.
  - intros Hx. unfold R in Hx. apply in_app_or in Hx as [Hx|Hx].
    + apply in_flat_map in Hx as [e [He Hx]]. destruct (listed_face_edge e He) as [a [b [Hd [Hk [Hne Hor1]]]]].
      unfold D, dedges_all in Hd. apply in_flat_map in Hd as [F [HF Hd]]. destruct (Forall2_In_l _ _ _ _ H2 HF) as [p [Hpin Hl]].
      destruct (Hp F p HF Hl) as [A [B [C [-> Hs]]]].
      apply in_flat_map. exists p. split; auto. rewrite Hs. apply loop_edges_set.
      unfold halves_of in Hx. rewrite (m_key _ _ Hk) in Hx. destruct e as [u v]. cbn [fst snd] in *.
      cbn in Hd. destruct Hd as [E|[E|[E|[]]]]; inversion E; subst a b; clear E;
        destruct Hor1 as [[Eu Ev]|[Eu Ev]]; subst u v; cbn [In] in Hx |- *; destruct Hx as [<-|[<-|[]]]; tauto.
    + apply in_map_iff in Hx as [i [<- Hi]]. unfold I in Hi. rewrite (inner_all r m Hor) in Hi.
      apply in_map_iff in Hi as [[[A B] C] [<- Hc]]. destruct (corner_spec _ _ _ _ Hc) as [F [HF Hcf]].
      destruct (Forall2_In_l _ _ _ _ H2 HF) as [p [Hpin Hl]]. destruct (Hp F p HF Hl) as [A' [B' [C' [-> Hs]]]].
      apply in_flat_map. exists p. split; auto. rewrite Hs. apply loop_edges_set. unfold corner_edge. cbn [fst snd].
      cbn in Hcf. destruct Hcf as [E|[E|[E|[]]]]; inversion E; subst; cbn [In]; tauto.
Qed.

Theorem loop_step_edge_count : nE r' = 2 * nE r + 3 * nF r.
Proof.
  pose proof Hstep as H. unfold loop_step in H. apply bind_Ok in H as [ms [_ H]]. apply bind_Ok in H as [fe [Hfe H]].
  inversion H; subst r'; clear H. unfold nE at 1. cbn [re]. apply mapM_Forall2 in Hfe.
  rewrite <- R_length. unfold Zlen. f_equal. apply same_elements_length; [apply R_NoDup|].
  intros x. apply recorded_iff. exact Hfe.
Qed.

End LoopEuler.

(* the edge list that mesh construction builds from the faces is exact *)
Section InputExact.
Context {P : Type}.

Theorem prepared_input_exact (V : list P) (F : list (list Z)) :
  input_ok (Zlen V) F -> exact_edges (pr (prepare (mkraw V [] F []))).
Proof.
  intros Hin. unfold prepare. cbn [rf rc re rv complete_faces].
  set (es := complete_edges [] F).
  assert (Hes : forall e, In e es -> exists f a b, In f F /\ In (a, b) (dedges f) /\ e = keyE (a, b)).
  { intros e He. unfold es, complete_edges in He. destruct F as [|f0 F0]; [contradiction|]. cbn [app map] in He.
    apply dedupE_In_sub in He. apply in_flat_map in He as [f [Hf He]]. unfold face_edges in He.
    apply in_map_iff in He as [[a b] [<- Hd]]. exists f, a, b. auto. }
  assert (Hnd : NoDup es).
  { unfold es, complete_edges. destruct F as [|f0 F0]; [constructor|]. cbn [app map]. apply dedupE_NoDup. }
  assert (Hvalid : forallb (edge_valid (Zlen V)) es = true).
  { apply forallb_forall. intros e He. destruct (Hes e He) as [f [a [b [Hf [Hd ->]]]]].
    unfold input_ok in Hin. rewrite Forall_forall in Hin. destruct (Hin f Hf) as [[_ Hv] Hne].
    rewrite Forall_forall in Hv. apply dedges_In in Hd as Hab. destruct Hab as [Ha Hb]. apply keyE_valid; auto. }
  assert (Hid : map keyE es = es).
  { rewrite <- (map_id es) at 2. apply map_ext_in. intros e He. destruct (Hes e He) as [f [a [b [_ [_ ->]]]]]. apply keyE_idem. }
  rewrite (prepare_edges_clean _ _ Hvalid) by (rewrite Hid; exact Hnd). cbn [pr]. unfold exact_edges. cbn [re rf].
  split.
  - rewrite map_map. rewrite (map_ext_in _ keyE) by (intros e _; apply keyE_idem). now rewrite Hid.
  - intros e He. rewrite Hid in He. destruct (Hes e He) as [f [a [b [Hf [Hd ->]]]]].
    unfold input_ok in Hin. rewrite Forall_forall in Hin. destruct (Hin f Hf) as [_ Hne]. split.
    + rewrite keyE_pair. destruct (keyify2_cases a b) as [-> | ->]; cbn [fst snd]; [apply Hne; auto|intro E; symmetry in E; revert E; apply Hne; auto].
    + exists (a, b). split; [unfold dedges_all; apply in_flat_map; eauto|apply keyE_idem].
Qed.
End InputExact.
