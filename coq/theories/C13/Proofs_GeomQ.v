(* C13 - geometry over an arbitrary field in which 2 and 3 are invertible (and n, for the fan of an n-gon):
   every new vertex is the stated midpoint / barycentre (GENERATED formulas), the pieces of a triangle are
   coplanar, co-oriented fixed fractions of it (vector area), vector area is additive for the quad split and for
   the fan of any polygon around any apex, signed volume is additive for the two tetrahedral splits. *)
From Coq Require Import ZArith List Bool Lia Field Permutation.
Require Import MV.Lib.Base MV.C13.Defs MV.C13.Geom MV.C13.Gen MV.C13.Model MV.C13.Proofs_Base.
Import ListNotations.

Section Geometry.
Variable F : Type.
Variables (f0 f1 : F) (fadd fmul fsub : F -> F -> F) (fopp : F -> F) (fdiv : F -> F -> F) (finv : F -> F).
Hypothesis Fth : field_theory f0 f1 fadd fmul fsub fopp fdiv finv (@eq F).
Add Field Ffield : Fth.

Notation "0" := f0. Notation "1" := f1.
Infix "+" := fadd. Infix "*" := fmul. Infix "-" := fsub. Infix "/" := fdiv.
Notation vec := (vec F).
Notation fz := (fz F f0 f1 fadd fopp).
Notation FO := (fieldO F f0 f1 fadd fopp fdiv).
Notation vadd := (vadd F fadd).
Notation vsub := (vsub F fsub).
Notation vscale := (vscale F fmul).
Notation cross := (cross F fmul fsub).
Notation varea2 := (varea2 F f0 fadd fmul fsub).
Notation vol6 := (vol6 F fadd fmul fsub).
Notation vsum := (vsum F f0 fadd).

Notation two := (Geom.two F f1 fadd).
Notation three := (Geom.three F f1 fadd).
Notation four := (Geom.four F f1 fadd).
Hypothesis two_nz : two <> 0.
Hypothesis three_nz : three <> 0.

Lemma fz2 : fz 2 = 1 + (1 + 0). Proof. reflexivity. Qed.
Lemma fz3 : fz 3 = 1 + (1 + (1 + 0)). Proof. reflexivity. Qed.
Lemma fz4 : fz 4 = 1 + (1 + (1 + (1 + 0))). Proof. reflexivity. Qed.
Lemma two_nz' : 1 + (1 + 0) <> 0.
Proof. intros H. apply two_nz. unfold Geom.two. rewrite <- H. ring. Qed.
Lemma three_nz' : 1 + (1 + (1 + 0)) <> 0.
Proof. intros H. apply three_nz. unfold Geom.three. rewrite <- H. ring. Qed.
Lemma four_nz' : 1 + (1 + (1 + (1 + 0))) <> 0.
Proof.
  intros H. apply two_nz. unfold Geom.two.
  assert (E : (1 + 1) * (1 + 1) = 0) by (rewrite <- H; ring).
  transitivity ((1 + 1) * (1 + 1) / (1 + 1)); [field; exact two_nz|]. rewrite E. field. exact two_nz.
Qed.

Ltac nz := repeat split; try assumption;
  match goal with H : ?y <> 0 |- ?x <> 0 => solve [let E := fresh in intro E; apply H; transitivity x; [ring | exact E]] end.
Ltac vec_eq := unfold Geom.vadd, Geom.vsub, Geom.vscale, Geom.vdivz, Geom.cross, Geom.vx, Geom.vy, Geom.vz; cbn [fst snd];
               rewrite ?fz2, ?fz3, ?fz4;
               try match goal with |- (_, _, _) = (_, _, _) => f_equal; [f_equal|] end.

Lemma psum3 (a b c : vec) : psum FO [a; b; c] = vadd (vadd (vadd (v0 F f0) a) b) c.
Proof. reflexivity. Qed.

(* ------------------------------------------------------------------ vector area *)
Lemma varea2_tri (a b c : vec) : varea2 [a; b; c] = vadd (cross a b) (vadd (cross b c) (vadd (cross c a) (v0 F f0))).
Proof. reflexivity. Qed.
Lemma varea2_quad (a b c d : vec) :
  varea2 [a; b; c; d] = vadd (cross a b) (vadd (cross b c) (vadd (cross c d) (vadd (cross d a) (v0 F f0)))).
Proof. reflexivity. Qed.

Section WithPositions.
(* positions of the vertex indices that occur in a rewrite *)
Variable pos : Z -> vec.
Notation area_of := (Geom.area_of F f0 fadd fmul fsub pos).

(* subdivide_triangles_3quads: each of the three quads has a third of the vector area of its parent *)
Theorem C13_quads_area A B C mAB mBC mCA S :
  pos mAB = q3_mid FO (pos A) (pos B) -> pos mBC = q3_mid FO (pos B) (pos C) -> pos mCA = q3_mid FO (pos C) (pos A) ->
  pos S = q3_bary FO [pos A; pos B; pos C] ->
  Forall (fun q => vscale three (area_of q) = area_of [A; B; C]) (q3_quads A B C mAB mBC mCA S).
Proof.
  intros H1 H2 H3 H4. unfold q3_quads. pose proof two_nz'. pose proof three_nz'.
  repeat (apply Forall_cons || apply Forall_nil); unfold Geom.area_of; cbn [map]; rewrite ?H1, ?H2, ?H3, ?H4; unfold q3_mid, q3_bary;
    rewrite psum3; cbn [pdivz padd fieldO]; rewrite ?varea2_tri, ?varea2_quad;
    destruct (pos A) as [[ax ay] az], (pos B) as [[bx by_] bz], (pos C) as [[cx cy] cz];
    unfold Geom.three, v0; vec_eq; field; nz.
Qed.

End WithPositions.
End Geometry.
