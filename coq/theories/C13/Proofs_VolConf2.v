(* C13 - split_tet_from_face_center, the whole loop over the adjacent cells, on the model's output:
   every side of the mesh other than the split one keeps exactly its owners (border sides stay border, interior ones
   interior), the split side loses one owner per adjacent cell, every new side contains the new vertex, and a conforming
   mesh of proper tetrahedra (four different vertices, no two cells on the same four vertices) stays conforming. *)
From Coq Require Import ZArith List Bool Lia Permutation.
Require Import MV.Lib.Base MV.C13.Defs MV.C13.Gen MV.C13.Model MV.C13.Proofs_Base MV.C13.Proofs_Counts MV.C13.Proofs_Accept
               MV.C13.Proofs_Vol MV.C13.Proofs_VolTopo MV.C13.Proofs_VolConf.
Import ListNotations.
Open Scope Z_scope.

Definition cnt (l : list (list Z)) (t : list Z) : nat := length (filter (seteqz t) l).
Definition different (a b : list Z) : Prop := seteqz a b = false.

Lemma cnt_app l l' t : cnt (l ++ l') t = (cnt l t + cnt l' t)%nat.
Proof. unfold cnt. now rewrite filter_app, app_length. Qed.
Lemma cnt_perm l l' t : Permutation l l' -> cnt l t = cnt l' t.
Proof. apply filter_perm_length. Qed.
Lemma cnt_le1 t l : ForallOrdPairs different l -> (cnt l t <= 1)%nat.
Proof. apply filter_le1. Qed.
Lemma cnt_zero_all (Q : list Z -> Prop) t l :
  Forall Q l -> (forall s, Q s -> seteqz t s = true -> False) -> cnt l t = 0%nat.
Proof.
  intros Hl Hq. unfold cnt. induction Hl as [|s l Hs _ IH]; [reflexivity|]. cbn. destruct (seteqz t s) eqn:E; [|exact IH].
  exfalso. eapply Hq; eauto.
Qed.
Lemma cnt_pos t l : (0 < cnt l t)%nat -> exists s, In s l /\ seteqz t s = true.
Proof.
  unfold cnt. destruct (filter (seteqz t) l) as [|s l'] eqn:E; cbn; [lia|]. intros _.
  assert (H : In s (filter (seteqz t) l)) by (rewrite E; left; reflexivity). apply filter_In in H. exists s. exact H.
Qed.
Lemma seteqz_sym a b : seteqz a b = seteqz b a.
Proof. unfold seteqz. apply andb_comm. Qed.
Lemma seteqz_In a b x : seteqz a b = true -> In x a -> In x b.
Proof. intros E. apply (proj1 (seteqz_spec a b) E x). Qed.
Lemma seteqz_In' a b x : seteqz a b = true -> In x b -> In x a.
Proof. intros E. apply (proj1 (seteqz_spec a b) E x). Qed.

Lemma diff3_l x y z u v w :
  (x <> u /\ x <> v /\ x <> w) \/ (y <> u /\ y <> v /\ y <> w) \/ (z <> u /\ z <> v /\ z <> w) ->
  different [x; y; z] [u; v; w].
Proof.
  intros H. unfold different. destruct (seteqz [x; y; z] [u; v; w]) eqn:E; [exfalso|reflexivity].
  pose proof (seteqz_In _ _ x E ltac:(cbn; auto)) as Hx. pose proof (seteqz_In _ _ y E ltac:(cbn; auto)) as Hy.
  pose proof (seteqz_In _ _ z E ltac:(cbn; auto)) as Hz. cbn in Hx, Hy, Hz. lia.
Qed.

Lemma diff4_r x1 x2 x3 x4 u1 u2 u3 u4 :
  (u1 <> x1 /\ u1 <> x2 /\ u1 <> x3 /\ u1 <> x4) \/ (u2 <> x1 /\ u2 <> x2 /\ u2 <> x3 /\ u2 <> x4) \/
  (u3 <> x1 /\ u3 <> x2 /\ u3 <> x3 /\ u3 <> x4) \/ (u4 <> x1 /\ u4 <> x2 /\ u4 <> x3 /\ u4 <> x4) ->
  different [x1; x2; x3; x4] [u1; u2; u3; u4].
Proof.
  intros H. unfold different. destruct (seteqz [x1; x2; x3; x4] [u1; u2; u3; u4]) eqn:E; [exfalso|reflexivity].
  pose proof (seteqz_In' _ _ u1 E ltac:(cbn; auto)) as H1. pose proof (seteqz_In' _ _ u2 E ltac:(cbn; auto)) as H2.
  pose proof (seteqz_In' _ _ u3 E ltac:(cbn; auto)) as H3. pose proof (seteqz_In' _ _ u4 E ltac:(cbn; auto)) as H4.
  cbn in H1, H2, H3, H4. lia.
Qed.

Lemma seteqz_refl a : seteqz a a = true.
Proof. apply seteqz_spec. tauto. Qed.
Lemma cnt_in t l b : In b l -> seteqz t b = true -> (1 <= cnt l t)%nat.
Proof.
  unfold cnt. intros Hb E. assert (H : In b (filter (seteqz t) l)) by (apply filter_In; auto).
  destruct (filter (seteqz t) l); [contradiction|cbn; lia].
Qed.
Lemma cnt_cons t x l : cnt (x :: l) t = ((if seteqz t x then 1 else 0) + cnt l t)%nat.
Proof. unfold cnt. cbn. destruct (seteqz t x); reflexivity. Qed.
Lemma cnt_two t (l : list (list Z)) : forall i j a b, i <> j -> nth_error l i = Some a -> nth_error l j = Some b ->
  seteqz t a = true -> seteqz t b = true -> (2 <= cnt l t)%nat.
Proof.
  induction l as [|x l IH]; intros [|i] [|j] a b Hne Hi Hj Ea Eb; cbn in Hi, Hj; try discriminate; try congruence; rewrite cnt_cons.
  - inversion Hi; subst x. rewrite Ea. pose proof (cnt_in t l b (nth_error_In _ _ Hj) Eb). lia.
  - inversion Hj; subst x. rewrite Eb. pose proof (cnt_in t l a (nth_error_In _ _ Hi) Ea). lia.
  - assert (Hne' : i <> j) by congruence. pose proof (IH i j a b Hne' Hi Hj Ea Eb). lia.
Qed.

Lemma updz_perm {A} (L : list A) c cell T Ts : getz L c = Ok cell -> Permutation ((updz L c T ++ Ts) ++ [cell]) (L ++ T :: Ts).
Proof.
  intros H. apply getz_Ok in H as [_ H]. apply nth_error_split in H as [l1 [l2 [-> Hl]]].
  assert (E : updz (l1 ++ cell :: l2) c T = l1 ++ T :: l2).
  { unfold updz. rewrite <- Hl. clear. induction l1 as [|a t IH]; cbn; [reflexivity|]. now rewrite IH. }
  rewrite E, <- !app_assoc. apply Permutation_app_head. cbn [app].
  eapply Permutation_trans; [|apply (Permutation_middle (cell :: l2) Ts T)]. cbn [app]. apply perm_skip.
  rewrite app_assoc. apply Permutation_sym, Permutation_cons_append.
Qed.

Lemma rewrite_flat_map2 {A B} (g : A -> list B) (fs : list A) k F T Ts X Y :
  getz fs k = Ok F -> Permutation (g T ++ flat_map g Ts ++ Y) (g F ++ X) ->
  Permutation (flat_map g (updz fs k T ++ Ts) ++ Y) (flat_map g fs ++ X).
Proof.
  intros H Hp. apply getz_Ok in H as [_ H]. apply nth_error_split in H as [l1 [l2 [-> L]]].
  assert (E : updz (l1 ++ F :: l2) k T = l1 ++ T :: l2).
  { unfold updz. rewrite <- L. clear. induction l1 as [|a t IH]; cbn; [reflexivity|]. now rewrite IH. }
  rewrite E, !flat_map_app. cbn [flat_map]. rewrite <- !app_assoc. apply Permutation_app_head.
  eapply Permutation_trans; [apply Permutation_app_head, Permutation_app_comm|]. rewrite <- !app_assoc.
  change (Permutation (g T ++ flat_map g Ts ++ Y ++ flat_map g l2) (g F ++ flat_map g l2 ++ X)).
  rewrite !app_assoc. rewrite <- (app_assoc (g T)).
  eapply Permutation_trans; [apply Permutation_app_tail, Hp|]. rewrite <- !app_assoc. apply Permutation_app_head.
  apply Permutation_app_comm.
Qed.

Lemma getz_updz_app_other' {A} (l : list A) k v ex i : 0 <= k -> i <> k -> 0 <= i < Zlen l -> getz (updz l k v ++ ex) i = getz l i.
Proof.
  intros Hk Hne Hi. unfold getz. destruct (i <? 0) eqn:E; [lia|]. unfold updz.
  rewrite nth_error_app1 by (rewrite upd_length; unfold Zlen in Hi; lia).
  rewrite nth_error_upd_neq by lia. reflexivity.
Qed.

(* ------------------------------------------------------------------ one adjacent cell *)
(* the sides N that the pieces of one adjacent cell add: d is the apex of the cell over the face f *)
Definition newsides_ok (ic : Z) (f cell : list Z) (N : list (list Z)) : Prop :=
  exists d, d <> ic /\ ~ In d f /\ (forall v, In v cell <-> v = d \/ In v f) /\
    Forall (fun s => In ic s /\ incl s (ic :: cell)) N /\
    (forall t, (cnt N t <= 2)%nat) /\
    (forall t, ~ In d t -> (cnt N t <= 1)%nat).

Lemma newsides_build ic f cell d Pc I I' :
  d <> ic -> ~ In d f -> (forall v, In v cell <-> v = d \/ In v f) ->
  Forall (fun s => In ic s /\ incl s (ic :: cell)) (Pc ++ I ++ I') ->
  ForallOrdPairs different (Pc ++ I) -> ForallOrdPairs different I' -> ForallOrdPairs different Pc ->
  Forall (fun s => In d s) (I ++ I') ->
  newsides_ok ic f cell (Pc ++ I ++ I').
Proof.
  intros H1 H2 H3 H4 D1 D2 D3 Hd. exists d. repeat match goal with |- _ /\ _ => split end; auto.
  - intros t. rewrite app_assoc, cnt_app. pose proof (cnt_le1 t _ D1). pose proof (cnt_le1 t _ D2). lia.
  - intros t Ht. rewrite cnt_app. pose proof (cnt_le1 t _ D3).
    rewrite (cnt_zero_all (fun s => In d s) t (I ++ I') Hd); [lia|]. intros s Hs E. apply Ht. eapply seteqz_In'; eauto.
Qed.

(* the three cells that replace one adjacent cell *)
Definition newcells_ok (ic : Z) (f cell : list Z) (NC : list (list Z)) : Prop :=
  exists d, d <> ic /\ ~ In d f /\ (forall v, In v cell <-> v = d \/ In v f) /\
    Forall (fun s => In ic s /\ In d s /\ incl s (ic :: cell) /\ NoDup s) NC /\
    (forall t, (cnt NC t <= 1)%nat).

Lemma newcells_build ic f cell d NC :
  d <> ic -> ~ In d f -> (forall v, In v cell <-> v = d \/ In v f) ->
  Forall (fun s => In ic s /\ In d s /\ incl s (ic :: cell) /\ NoDup s) NC -> ForallOrdPairs different NC ->
  newcells_ok ic f cell NC.
Proof. intros H1 H2 H3 H4 D. exists d. repeat match goal with |- _ /\ _ => split end; auto. intros t. apply cnt_le1, D. Qed.

Ltac fin4 := repeat (apply Forall_cons || apply Forall_nil);
  (split; [cbn; tauto|split; [cbn; tauto|split; [intros ? ?; cbn in *; tauto|repeat (apply NoDup_cons || apply NoDup_nil); cbn; lia]]]).
Ltac fop4 := repeat (apply FOP_cons || apply FOP_nil); repeat (apply Forall_cons || apply Forall_nil); apply diff4_r; lia.

Lemma tet_faces4 v0 v1 v2 v3 : tet_faces [v0; v1; v2; v3] = [[v1; v3; v2]; [v0; v2; v3]; [v3; v1; v0]; [v0; v1; v2]].
Proof. reflexivity. Qed.

Ltac fin2 := repeat (apply Forall_cons || apply Forall_nil); (split; [cbn; tauto|intros ? ?; cbn in *; tauto]).
Ltac find := repeat (apply Forall_cons || apply Forall_nil); cbn; tauto.
Ltac fop := repeat (apply FOP_cons || apply FOP_nil); repeat (apply Forall_cons || apply Forall_nil); apply diff3_l; lia.

(* some vertex of a cell that contains the three different vertices of f is missing from f, and the others are f *)
Lemma removed_vertex v0 v1 v2 v3 f :
  NoDup [v0; v1; v2; v3] -> NoDup f -> length f = 3%nat -> incl f [v0; v1; v2; v3] ->
  exists i, In i (zrange 4) /\ seteqz (remove_nth [v0; v1; v2; v3] (Z.to_nat i)) f = true.
Proof.
  intros Hc Hf Lf Hin.
  assert (Hsome : ~ incl [v0; v1; v2; v3] f).
  { intros Hi. pose proof (NoDup_incl_length Hc Hi) as HL. cbn in HL. lia. }
  assert (K : forall i rest d, In i (zrange 4) -> remove_nth [v0; v1; v2; v3] (Z.to_nat i) = rest -> length rest = 3%nat ->
              (forall x, In x [v0; v1; v2; v3] -> x = d \/ In x rest) -> ~ In d f ->
              exists i, In i (zrange 4) /\ seteqz (remove_nth [v0; v1; v2; v3] (Z.to_nat i)) f = true).
  { intros i rest d Hi Hr Lr Hsplit Hd. exists i. split; auto. rewrite Hr. apply seteqz_spec.
    assert (I1 : incl f rest).
    { intros x Hx. destruct (Hsplit x (Hin x Hx)) as [->|]; [contradiction|auto]. }
    intros x. split; [|apply I1]. apply (NoDup_length_incl Hf); [lia|exact I1]. }
  destruct (In_dec Z.eq_dec v0 f) as [H0|H0].
  2:{ apply (K 0 [v1; v2; v3] v0); [apply In_zrange; lia|reflexivity|reflexivity|cbn; intuition|exact H0]. }
  destruct (In_dec Z.eq_dec v1 f) as [H1|H1].
  2:{ apply (K 1 [v0; v2; v3] v1); [apply In_zrange; lia|reflexivity|reflexivity|cbn; intuition|exact H1]. }
  destruct (In_dec Z.eq_dec v2 f) as [H2|H2].
  2:{ apply (K 2 [v0; v1; v3] v2); [apply In_zrange; lia|reflexivity|reflexivity|cbn; intuition|exact H2]. }
  destruct (In_dec Z.eq_dec v3 f) as [H3|H3].
  2:{ apply (K 3 [v0; v1; v2] v3); [apply In_zrange; lia|reflexivity|reflexivity|cbn; intuition|exact H3]. }
  exfalso. apply Hsome. intros x [<-|[<-|[<-|[<-|[]]]]]; auto.
Qed.

Lemma fc_cell_sides ic f v0 v1 v2 v3 :
  NoDup [v0; v1; v2; v3] -> v0 < ic -> v1 < ic -> v2 < ic -> v3 < ic ->
  NoDup f -> length f = 3%nat -> incl f [v0; v1; v2; v3] ->
  exists j nc0 nc1 nc2 split N,
    in_cell_face_index [v0; v1; v2; v3] f = Some j /\
    fc_new_cells [v0; v1; v2; v3] (Some j) ic = Ok [nc0; nc1; nc2] /\
    seteqz split f = true /\
    Permutation (tet_faces nc0 ++ (tet_faces nc1 ++ tet_faces nc2 ++ []) ++ [split]) (tet_faces [v0; v1; v2; v3] ++ N) /\
    newsides_ok ic f [v0; v1; v2; v3] N /\ newcells_ok ic f [v0; v1; v2; v3] [nc0; nc1; nc2].
Proof.
  intros Hc L0 L1 L2 L3 Hf Lf Hin.
  assert (Hne : v0 <> v1 /\ v0 <> v2 /\ v0 <> v3 /\ v1 <> v2 /\ v1 <> v3 /\ v2 <> v3).
  { inversion Hc as [|? ? N0 Hc1]; subst. inversion Hc1 as [|? ? N1 Hc2]; subst. inversion Hc2 as [|? ? N2 _]; subst.
    cbn in N0, N1, N2. repeat split; intros E; subst; tauto. }
  destruct Hne as [n01 [n02 [n03 [n12 [n13 n23]]]]].
  destruct (removed_vertex v0 v1 v2 v3 f Hc Hf Lf Hin) as [i0 [Hi0 Ei0]].
  destruct (in_cell_face_index [v0; v1; v2; v3] f) as [j|] eqn:Ej.
  2:{ exfalso. unfold in_cell_face_index in Ej. change (Zlen [v0; v1; v2; v3]) with 4 in Ej.
      pose proof (find_none _ _ Ej i0 Hi0) as Hn. cbv beta in Hn. congruence. }
  unfold in_cell_face_index in Ej. change (Zlen [v0; v1; v2; v3]) with 4 in Ej. apply find_some in Ej as [Hj Ej].
  apply In_zrange in Hj.
  assert (Hset : forall x, In x (remove_nth [v0; v1; v2; v3] (Z.to_nat j)) <-> In x f) by (apply seteqz_spec; exact Ej).
  assert (iF : j = 0 \/ j = 1 \/ j = 2 \/ j = 3) by lia.
  exists j. destruct iF as [-> | [-> | [-> | ->]]].
  - change (remove_nth [v0; v1; v2; v3] (Z.to_nat 0)) with [v1; v2; v3] in *.
    exists [v0; ic; v2; v3], [v0; v1; ic; v3], [v0; v1; v2; ic], [v1; v3; v2],
      ([[v1; v3; ic]; [ic; v3; v2]; [v1; ic; v2]] ++ [[v3; ic; v0]; [v0; ic; v2]; [v0; v1; ic]] ++ [[v0; ic; v3]; [v0; v2; ic]; [ic; v1; v0]]).
    split; [reflexivity|]. split; [reflexivity|].
    split; [apply seteqz_spec; intros x; rewrite <- Hset; cbn; tauto|].
    split; [rewrite !tet_faces4; cbn [app]; perm_explicit|].
    split; [apply (newsides_build ic f _ v0); try lia|apply (newcells_build ic f _ v0); try lia].
    + intros Hd. apply Hset in Hd. cbn in Hd. lia.
    + intros v. rewrite <- Hset. cbn. intuition.
    + fin2.
    + fop.
    + fop.
    + fop.
    + find.
    + intros Hd. apply Hset in Hd. cbn in Hd. lia.
    + intros v. rewrite <- Hset. cbn. intuition.
    + fin4.
    + fop4.
  - change (remove_nth [v0; v1; v2; v3] (Z.to_nat 1)) with [v0; v2; v3] in *.
    exists [ic; v1; v2; v3], [v0; v1; ic; v3], [v0; v1; v2; ic], [v0; v2; v3],
      ([[v0; v2; ic]; [ic; v2; v3]; [v0; ic; v3]] ++ [[v3; v1; ic]; [ic; v1; v2]; [v0; v1; ic]] ++ [[v1; v3; ic]; [v1; ic; v2]; [ic; v1; v0]]).
    split; [reflexivity|]. split; [reflexivity|].
    split; [apply seteqz_spec; intros x; rewrite <- Hset; cbn; tauto|].
    split; [rewrite !tet_faces4; cbn [app]; perm_explicit|].
    split; [apply (newsides_build ic f _ v1); try lia|apply (newcells_build ic f _ v1); try lia].
    + intros Hd. apply Hset in Hd. cbn in Hd. lia.
    + intros v. rewrite <- Hset. cbn. intuition.
    + fin2.
    + fop.
    + fop.
    + fop.
    + find.
    + intros Hd. apply Hset in Hd. cbn in Hd. lia.
    + intros v. rewrite <- Hset. cbn. intuition.
    + fin4.
    + fop4.
  - change (remove_nth [v0; v1; v2; v3] (Z.to_nat 2)) with [v0; v1; v3] in *.
    exists [ic; v1; v2; v3], [v0; ic; v2; v3], [v0; v1; v2; ic], [v3; v1; v0],
      ([[v3; v1; ic]; [ic; v1; v0]; [v3; ic; v0]] ++ [[ic; v2; v3]; [ic; v1; v2]; [v0; ic; v2]] ++ [[ic; v3; v2]; [v1; ic; v2]; [v0; v2; ic]]).
    split; [reflexivity|]. split; [reflexivity|].
    split; [apply seteqz_spec; intros x; rewrite <- Hset; cbn; tauto|].
    split; [rewrite !tet_faces4; cbn [app]; perm_explicit|].
    split; [apply (newsides_build ic f _ v2); try lia|apply (newcells_build ic f _ v2); try lia].
    + intros Hd. apply Hset in Hd. cbn in Hd. lia.
    + intros v. rewrite <- Hset. cbn. intuition.
    + fin2.
    + fop.
    + fop.
    + fop.
    + find.
    + intros Hd. apply Hset in Hd. cbn in Hd. lia.
    + intros v. rewrite <- Hset. cbn. intuition.
    + fin4.
    + fop4.
  - change (remove_nth [v0; v1; v2; v3] (Z.to_nat 3)) with [v0; v1; v2] in *.
    exists [ic; v1; v2; v3], [v0; ic; v2; v3], [v0; v1; ic; v3], [v0; v1; v2],
      ([[v0; v1; ic]; [ic; v1; v2]; [v0; ic; v2]] ++ [[ic; v2; v3]; [v3; v1; ic]; [v3; ic; v0]] ++ [[ic; v3; v2]; [v1; v3; ic]; [v0; ic; v3]]).
    split; [reflexivity|]. split; [reflexivity|].
    split; [apply seteqz_spec; intros x; rewrite <- Hset; cbn; tauto|].
    split; [rewrite !tet_faces4; cbn [app]; perm_explicit|].
    split; [apply (newsides_build ic f _ v3); try lia|apply (newcells_build ic f _ v3); try lia].
    + intros Hd. apply Hset in Hd. cbn in Hd. lia.
    + intros v. rewrite <- Hset. cbn. intuition.
    + fin2.
    + fop.
    + fop.
    + fop.
    + find.
    + intros Hd. apply Hset in Hd. cbn in Hd. lia.
    + intros v. rewrite <- Hset. cbn. intuition.
    + fin4.
    + fop4.
Qed.

(* ------------------------------------------------------------------ the loop over the adjacent cells *)
Definition adj_ok (ic : Z) (f : list Z) (L : list (list Z)) (c : Z) : Prop :=
  exists v0 v1 v2 v3, getz L c = Ok [v0; v1; v2; v3] /\ NoDup [v0; v1; v2; v3] /\
                      v0 < ic /\ v1 < ic /\ v2 < ic /\ v3 < ic /\ incl f [v0; v1; v2; v3].

Lemma fc_cell_step ic f L c : NoDup f -> length f = 3%nat -> adj_ok ic f L c ->
  exists cell nc0 nc1 nc2 split N, getz L c = Ok cell /\
    fc_cell f ic L c = Ok (updz L c nc0 ++ [nc1; nc2]) /\
    seteqz split f = true /\
    Permutation (sides_of (updz L c nc0 ++ [nc1; nc2]) ++ [split]) (sides_of L ++ N) /\ newsides_ok ic f cell N /\
    newcells_ok ic f cell [nc0; nc1; nc2].
Proof.
  intros Hf Lf [v0 [v1 [v2 [v3 [Hg [Hc [L0 [L1 [L2 [L3 Hin]]]]]]]]]].
  destruct (fc_cell_sides ic f v0 v1 v2 v3 Hc L0 L1 L2 L3 Hf Lf Hin) as [j [nc0 [nc1 [nc2 [split [N [Ej [Hnc [Es [Hp [Hn Hn2]]]]]]]]]]].
  exists [v0; v1; v2; v3], nc0, nc1, nc2, split, N. split; [exact Hg|]. split.
  - unfold fc_cell. rewrite Hg. cbn [bind]. rewrite Ej, Hnc. cbn [bind]. reflexivity.
  - split; [exact Es|]. split; [|split; [exact Hn|exact Hn2]]. unfold sides_of.
    apply (rewrite_flat_map2 tet_faces L c [v0; v1; v2; v3] nc0 [nc1; nc2] N [split] Hg). cbn [flat_map]. exact Hp.
Qed.

Lemma fc_fold ic f : NoDup f -> length f = 3%nat -> forall idxs L, NoDup idxs -> Forall (adj_ok ic f L) idxs ->
  exists L' splits Ns, foldM (fc_cell f ic) idxs L = Ok L' /\ length splits = length idxs /\
    Forall (fun s => seteqz s f = true) splits /\
    Forall2 (fun c N => exists cell, getz L c = Ok cell /\ newsides_ok ic f cell N) idxs Ns /\
    Permutation (sides_of L' ++ splits) (sides_of L ++ concat Ns) /\
    exists olds NCs, Forall2 (fun c NC => exists cell, getz L c = Ok cell /\ newcells_ok ic f cell NC) idxs NCs /\
                     Permutation (L' ++ olds) (L ++ concat NCs).
Proof.
  intros Hf Lf. induction idxs as [|c idxs IH]; intros L Hnd Hall.
  - exists L, [], []. cbn [foldM concat length]. split; [reflexivity|]. split; [reflexivity|]. split; [constructor|]. split; [constructor|].
    split; [apply Permutation_refl|]. exists [], []. split; [constructor|]. apply Permutation_refl.
  - inversion Hnd as [|? ? Hc Hnd']; subst. inversion Hall as [|? ? Hadj Hall']; subst.
    destruct (fc_cell_step ic f L c Hf Lf Hadj) as [cell [nc0 [nc1 [nc2 [split [N [Hg [Hstep [Es [Hp [Hn Hn2]]]]]]]]]]].
    set (L1 := updz L c nc0 ++ [nc1; nc2]) in *.
    assert (Hsame : forall i, In i idxs -> getz L1 i = getz L i).
    { intros i Hi. rewrite Forall_forall in Hall'. destruct (Hall' i Hi) as [a [b [c0 [d [Hgi _]]]]]. apply getz_Ok in Hgi as [Hi0 _].
      apply getz_Ok in Hg as [Hc0 _]. unfold L1. apply getz_updz_app_other'; [lia| |lia]. intros ->. contradiction. }
    assert (Hall1 : Forall (adj_ok ic f L1) idxs).
    { apply Forall_forall. intros i Hi. rewrite Forall_forall in Hall'. destruct (Hall' i Hi) as [a [b [c0 [d [Hgi Hr]]]]].
      exists a, b, c0, d. rewrite (Hsame i Hi). auto. }
    destruct (IH L1 Hnd' Hall1) as [L' [splits [Ns [Hfold [Hlen [Hsp [HF2 [HP [olds [NCs [HF3 HP3]]]]]]]]]]].
    exists L', (split :: splits), (N :: Ns). split; [cbn [foldM]; rewrite Hstep; cbn [bind]; exact Hfold|].
    split; [cbn; lia|]. split; [constructor; auto|]. split; [|split].
    + constructor; [exists cell; auto|].
      clear -HF2 Hsame. induction HF2 as [|i N' idxs Ns [cell' [Hg' Hn']] _ IH2]; constructor.
      * exists cell'. rewrite <- (Hsame i (or_introl eq_refl)). auto.
      * apply IH2. intros j Hj. apply Hsame. right. exact Hj.
    + cbn [concat].
      eapply Permutation_trans; [apply Permutation_app_head; apply (Permutation_cons_append splits split)|].
      rewrite app_assoc. eapply Permutation_trans; [apply Permutation_app_tail, HP|].
      rewrite <- app_assoc. eapply Permutation_trans; [apply Permutation_app_head, Permutation_app_comm|].
      rewrite app_assoc. eapply Permutation_trans; [apply Permutation_app_tail, Hp|].
      rewrite <- !app_assoc. apply Permutation_refl.
    + exists (cell :: olds), ([nc0; nc1; nc2] :: NCs). split.
      * constructor; [exists cell; auto|].
        clear -HF3 Hsame. induction HF3 as [|i N' idxs NCs [cell' [Hg' Hn']] _ IH2]; constructor.
        -- exists cell'. rewrite <- (Hsame i (or_introl eq_refl)). auto.
        -- apply IH2. intros j Hj. apply Hsame. right. exact Hj.
      * cbn [concat].
        eapply Permutation_trans; [apply Permutation_app_head; apply (Permutation_cons_append olds cell)|].
        rewrite app_assoc. eapply Permutation_trans; [apply Permutation_app_tail, HP3|].
        rewrite <- app_assoc. eapply Permutation_trans; [apply Permutation_app_head, Permutation_app_comm|].
        rewrite app_assoc. eapply Permutation_trans; [apply Permutation_app_tail; apply (updz_perm L c cell nc0 [nc1; nc2] Hg)|].
        rewrite <- !app_assoc. apply Permutation_refl.
Qed.

(* proper tetrahedra: four different vertices each, no two cells on the same four vertices *)
Definition proper_cells (L : list (list Z)) : Prop :=
  Forall (@NoDup Z) L /\ forall t, (cnt L t <= 1)%nat.

(* what the pieces of one adjacent cell contribute (sides: K = 2, K' = 1; cells: K = 1, K' = 0) *)
Definition piece_ok (L : list (list Z)) (ic : Z) (f : list Z) (K K' : nat) (c : Z) (N : list (list Z)) : Prop :=
  exists cell d, getz L c = Ok cell /\ d <> ic /\ ~ In d f /\ (forall v, In v cell <-> v = d \/ In v f) /\
    Forall (fun s => incl s (ic :: cell)) N /\ (forall t, (cnt N t <= K)%nat) /\ (forall t, ~ In d t -> (cnt N t <= K')%nat).

Lemma Forall2_imp {A B} (R1 R2 : A -> B -> Prop) l l' : (forall a b, R1 a b -> R2 a b) -> Forall2 R1 l l' -> Forall2 R2 l l'.
Proof. intros H. induction 1; constructor; auto. Qed.

Lemma pieces_bound L ic f K K' adj Ns :
  (2 * K' <= K)%nat -> (forall t, (cnt L t <= 1)%nat) -> NoDup adj -> (length adj <= 2)%nat ->
  Forall2 (piece_ok L ic f K K') adj Ns -> forall t, (cnt (concat Ns) t <= K)%nat.
Proof.
  intros HK Hsimple Hnd Hfew HF2 t.
  destruct HF2 as [|c1 N1 adj1 Ns1 [cell1 [d1 [Hg1 [Hd1ic [Hd1f [Hcell1 [HN1 [Hle1 Hone1]]]]]]]] HF2]; [cbn; lia|].
  destruct HF2 as [|c2 N2 adj2 Ns2 [cell2 [d2 [Hg2 [Hd2ic [Hd2f [Hcell2 [HN2 [Hle2 Hone2]]]]]]]] HF2].
  { cbn [concat]. rewrite app_nil_r. apply Hle1. }
  destruct HF2 as [|? ? ? ? _ _]; [|cbn in Hfew; lia].
  cbn [concat]. rewrite app_nil_r, cnt_app.
  assert (Hne12 : c1 <> c2) by (inversion Hnd as [|? ? Hn _]; subst; cbn in Hn; intros ->; tauto).
  assert (Hd12 : d1 <> d2).
  { intros ->. assert (E : seteqz cell1 cell2 = true) by (apply seteqz_spec; intros x; rewrite Hcell1, Hcell2; tauto).
    apply getz_Ok in Hg1 as [R1 Hg1]. apply getz_Ok in Hg2 as [R2 Hg2].
    assert (Hn : Z.to_nat c1 <> Z.to_nat c2) by lia.
    pose proof (cnt_two cell1 L _ _ _ _ Hn Hg1 Hg2 (seteqz_refl cell1) E). pose proof (Hsimple cell1). lia. }
  assert (Hcross : forall d N cell' d', (forall v, In v cell' <-> v = d' \/ In v f) -> d <> d' -> d <> ic -> ~ In d f ->
            Forall (fun s => incl s (ic :: cell')) N -> In d t -> cnt N t = 0%nat).
  { intros d N cell' d' Hcell' Hdd Hdic Hdf HN Hdt. apply (cnt_zero_all (fun s => incl s (ic :: cell'))); auto.
    intros s Hincl E. pose proof (Hincl d (seteqz_In _ _ d E Hdt)) as Hin. cbn in Hin. destruct Hin as [Hin|Hin]; [congruence|].
    apply Hcell' in Hin. tauto. }
  destruct (In_dec Z.eq_dec d1 t) as [T1|T1].
  { rewrite (Hcross d1 N2 cell2 d2 Hcell2 Hd12 Hd1ic Hd1f HN2 T1). pose proof (Hle1 t). lia. }
  destruct (In_dec Z.eq_dec d2 t) as [T2|T2].
  { rewrite (Hcross d2 N1 cell1 d1 Hcell1 (fun e => Hd12 (eq_sym e)) Hd2ic Hd2f HN1 T2). pose proof (Hle2 t). lia. }
  pose proof (Hone1 t T1). pose proof (Hone2 t T2). lia.
Qed.

Section Conf2.
Context {P : Type} (O : pops P).
Notation raw := (raw P).

Theorem face_centre_conforming (r r' : raw) fid A B C :
  getz (rf r) fid = Ok [A; B; C] -> split_tet_from_face_center O r fid = Ok r' -> WFv r -> NoDup [A; B; C] ->
  Forall (@NoDup Z) (rc r) ->
  (forall t, ~ In (nV r) t -> seteqz t [A; B; C] = false -> uocc (rc r') t = uocc (rc r) t) /\
  (forall t, (0 < uocc (rc r') t)%nat -> (0 < uocc (rc r) t)%nat \/ In (nV r) t) /\
  (forall t, ~ In (nV r) t -> (uocc (rc r') t <= uocc (rc r) t)%nat) /\
  (conforming (rc r) -> proper_cells (rc r) -> conforming (rc r') /\ proper_cells (rc r')).
Proof.
  intros Hfa H [Hcells Hfaces] Hnd Hcnd. set (f := [A; B; C]) in *. set (ic := nV r) in *.
  set (adj := filter (fun c => match getz (rc r) c with Ok cell => fc_adjacent f cell | Err _ => false end) (zrange (Zlen (rc r)))) in *.
  assert (Hf_lt : forall x, In x f -> x < ic).
  { rewrite Forall_forall in Hfaces. pose proof (Hfaces _ (getz_In _ _ _ Hfa)) as Hv. rewrite Forall_forall in Hv.
    intros x Hx. specialize (Hv x Hx). unfold vert_ok, ic in *. lia. }
  assert (Hadj : Forall (adj_ok ic f (rc r)) adj).
  { apply Forall_forall. intros c Hc. apply filter_In in Hc as [_ Hc]. destruct (getz (rc r) c) as [cell|] eqn:Eg; [|discriminate].
    pose proof (getz_In _ _ _ Eg) as HIn. rewrite Forall_forall in Hcells, Hcnd. destruct (Hcells _ HIn) as [L4 Hv]. pose proof (Hcnd _ HIn) as Hn.
    destruct cell as [|v0 [|v1 [|v2 [|v3 [|? ?]]]]]; try (unfold Zlen in L4; cbn [length] in L4; lia).
    exists v0, v1, v2, v3. rewrite Forall_forall in Hv. unfold vert_ok in Hv.
    split; [exact Eg|]. split; [exact Hn|].
    repeat match goal with |- _ /\ _ => split end; try (apply Hv; cbn; tauto).
    unfold fc_adjacent in Hc. intros x Hx. apply (proj1 (subsetz_spec _ _) Hc x Hx). }
  assert (Hndadj : NoDup adj) by (apply NoDup_filter, NoDup_zrange).
  destruct (fc_fold ic f Hnd eq_refl adj (rc r) Hndadj Hadj) as [L' [splits [Ns [Hfold [Hlen [Hsp [HF2 [HP [olds [NCs [HF3 HP3]]]]]]]]]]].
  assert (Hrc : rc r' = L').
  { unfold split_tet_from_face_center in H. rewrite Hfa in H. cbn [bind] in H. change (fc_skip (Zlen [A; B; C])) with false in H. cbn iota in H.
    apply bind_Ok in H as [ps [_ H]]. assert (Hfold' := Hfold). unfold adj, f, ic, nV in Hfold'. unfold f in H. rewrite Hfold' in H.
    cbn [bind] in H. inversion H. reflexivity. }
  rewrite Hrc. clear Hrc H Hfold Hadj. clearbody adj.
  assert (Hcnt : forall t, (uocc L' t + cnt splits t = uocc (rc r) t + cnt (concat Ns) t)%nat).
  { intros t. change (uocc L' t) with (cnt (sides_of L') t). change (uocc (rc r) t) with (cnt (sides_of (rc r)) t).
    rewrite <- !cnt_app. apply cnt_perm, HP. }
  assert (Hnew_ic : Forall (fun s => In ic s) (concat Ns)).
  { clear -HF2. induction HF2 as [|c N adj Ns [cell [_ [d [_ [_ [_ [HN _]]]]]]] _ IH]; cbn [concat]; [constructor|].
    apply Forall_app. split; [|exact IH]. eapply Forall_impl; [|exact HN]. cbn. tauto. }
  assert (Hz_new : forall t, ~ In ic t -> cnt (concat Ns) t = 0%nat).
  { intros t Ht. apply (cnt_zero_all (fun s => In ic s)); auto. intros s Hs E. apply Ht. eapply seteqz_In'; eauto. }
  assert (Hz_sp : forall t, seteqz t f = false -> cnt splits t = 0%nat).
  { intros t Ht. apply (cnt_zero_all (fun s => seteqz s f = true)); auto. intros s Hs E.
    assert (Et : seteqz t f = true).
    { apply seteqz_spec. intros x. rewrite (proj1 (seteqz_spec _ _) E x). apply (proj1 (seteqz_spec _ _) Hs x). }
    congruence. }
  assert (Hcell_lt : forall cell, In cell (rc r) -> forall v, In v cell -> v < ic).
  { intros cell Hcell v Hv. rewrite Forall_forall in Hcells. destruct (Hcells cell Hcell) as [_ Hvs]. rewrite Forall_forall in Hvs.
    specialize (Hvs v Hv). unfold vert_ok, ic in *. lia. }
  assert (Hold : forall s, In s (sides_of (rc r)) -> forall v, In v s -> v < ic).
  { intros s Hs v Hv. unfold sides_of in Hs. apply in_flat_map in Hs as [cell [Hcell Hs]]. rewrite Forall_forall in Hcells.
    destruct (Hcells cell Hcell) as [L Hvs]. destruct cell as [|a [|b [|c0 [|d [|? ?]]]]]; try (unfold Zlen in L; cbn [length] in L; lia).
    apply (Hcell_lt _ Hcell). cbn in Hs; destruct Hs as [<-|[<-|[<-|[<-|[]]]]]; cbn in Hv |- *; tauto. }
  assert (Hz_old : forall t, In ic t -> uocc (rc r) t = 0%nat).
  { intros t Ht. apply (cnt_zero_all (fun s => forall v, In v s -> v < ic)).
    - apply Forall_forall. exact Hold.
    - intros s Hs E. pose proof (Hs ic (seteqz_In _ _ ic E Ht)). lia. }
  split; [|split; [|split]].
  - intros t Ht Hne. pose proof (Hcnt t) as Hc. rewrite (Hz_new t Ht), (Hz_sp t Hne) in Hc. lia.
  - intros t Hpos. destruct (In_dec Z.eq_dec ic t) as [Hi|Hi]; [right; exact Hi|left].
    pose proof (Hcnt t) as Hc. rewrite (Hz_new t Hi) in Hc. lia.
  - intros t Ht. pose proof (Hcnt t) as Hc. rewrite (Hz_new t Ht) in Hc. lia.
  - intros Hconf [_ Hsimple].
    (* at most two adjacent cells *)
    assert (Hfew : (length adj <= 2)%nat).
    { pose proof (Hcnt f) as Hc. assert (Hnf : ~ In ic f) by (intros Hx; apply Hf_lt in Hx; lia).
      rewrite (Hz_new f Hnf) in Hc.
      assert (Hall : cnt splits f = length splits).
      { clear -Hsp. unfold cnt. induction Hsp as [|s l Hs _ IH]; [reflexivity|]. cbn. rewrite seteqz_sym, Hs. cbn. now rewrite IH. }
      pose proof (Hconf f). lia. }
    split.
    + intros t. destruct (In_dec Z.eq_dec ic t) as [Hi|Hi].
      2:{ pose proof (Hcnt t) as Hc. rewrite (Hz_new t Hi) in Hc. pose proof (Hconf t). lia. }
      pose proof (Hcnt t) as Hc. rewrite (Hz_old t Hi) in Hc.
      assert (Hbound : (cnt (concat Ns) t <= 2)%nat); [|lia].
      apply (pieces_bound (rc r) ic f 2 1 adj Ns); auto.
      eapply Forall2_imp; [|exact HF2]. intros c N [cell [Hg [d [K1 [K2 [K3 [K4 [K5 K6]]]]]]]]. exists cell, d.
      repeat match goal with |- _ /\ _ => split end; auto. eapply Forall_impl; [|exact K4]. cbn. tauto.
    + assert (HF3' : Forall2 (piece_ok (rc r) ic f 1 0) adj NCs).
      { eapply Forall2_imp; [|exact HF3]. intros c N [cell [Hg [d [K1 [K2 [K3 [K4 K5]]]]]]]. exists cell, d.
        repeat match goal with |- _ /\ _ => split end; auto.
        - eapply Forall_impl; [|exact K4]. cbn. tauto.
        - intros t Ht. rewrite (cnt_zero_all (fun s => In d s) t N); [lia| |].
          + eapply Forall_impl; [|exact K4]. cbn. tauto.
          + intros s Hs E. apply Ht. eapply seteqz_In'; eauto. }
      assert (Hnc_ic : Forall (fun s => In ic s /\ NoDup s) (concat NCs)).
      { clear -HF3. induction HF3 as [|c N adj NCs [cell [_ [d [_ [_ [_ [HN _]]]]]]] _ IH]; cbn [concat]; [constructor|].
        apply Forall_app. split; [|exact IH]. eapply Forall_impl; [|exact HN]. cbn. tauto. }
      split.
      * assert (HA : Forall (@NoDup Z) (L' ++ olds)).
        { apply Forall_forall. intros x Hx. apply (Permutation_in _ HP3) in Hx. apply in_app_or in Hx as [Hx|Hx].
          - rewrite Forall_forall in Hcnd. auto.
          - rewrite Forall_forall in Hnc_ic. apply Hnc_ic. exact Hx. }
        apply Forall_app in HA. tauto.
      * intros t. assert (Hc : (cnt L' t + cnt olds t = cnt (rc r) t + cnt (concat NCs) t)%nat) by (rewrite <- !cnt_app; apply cnt_perm, HP3).
        destruct (In_dec Z.eq_dec ic t) as [Hi|Hi].
        -- assert (Z0 : cnt (rc r) t = 0%nat).
           { apply (cnt_zero_all (fun s => forall v, In v s -> v < ic)).
             - apply Forall_forall. exact Hcell_lt.
             - intros s Hs E. pose proof (Hs ic (seteqz_In _ _ ic E Hi)). lia. }
           pose proof (pieces_bound (rc r) ic f 1 0 adj NCs ltac:(lia) Hsimple Hndadj Hfew HF3' t). lia.
        -- assert (Z0 : cnt (concat NCs) t = 0%nat).
           { apply (cnt_zero_all (fun s => In ic s /\ NoDup s)); auto. intros s [Hs _] E. apply Hi. eapply seteqz_In'; eauto. }
           pose proof (Hsimple t). lia.
Qed.

End Conf2.

(* ------------------------------------------------------------------ every history of a volume editing block *)
Section Chain.
Context {P : Type} (O : pops P).
Notation raw := (raw P).

Theorem cell_fan_proper (r r' : raw) c A B C D :
  getz (rc r) c = Ok [A; B; C; D] -> split_cell_as_fan O r c = Ok r' -> WFv r -> proper_cells (rc r) -> proper_cells (rc r').
Proof.
  intros Hc H [Hcells _] [Hcnd Hsimple]. pose proof (getz_In _ _ _ Hc) as HIn.
  assert (Hrc : rc r' = updz (rc r) c (cf_replace A B C D (nV r)) ++ cf_cells A B C D (nV r)).
  { unfold split_cell_as_fan in H. rewrite Hc in H. cbn [bind] in H. change (cf_skip (Zlen [A; B; C; D])) with false in H. cbn iota in H.
    apply bind_Ok in H as [pA [_ H]]. apply bind_Ok in H as [pB [_ H]]. apply bind_Ok in H as [pC [_ H]]. apply bind_Ok in H as [pD [_ H]].
    inversion H; reflexivity. }
  set (ib := nV r) in *.
  assert (Hcell_lt : forall cell, In cell (rc r) -> forall v, In v cell -> v < ib).
  { intros cell Hcell v Hv. rewrite Forall_forall in Hcells. destruct (Hcells cell Hcell) as [_ Hvs]. rewrite Forall_forall in Hvs.
    specialize (Hvs v Hv). unfold vert_ok, ib in *. lia. }
  assert (LA : A < ib /\ B < ib /\ C < ib /\ D < ib) by (repeat split; apply (Hcell_lt _ HIn); cbn; auto).
  destruct LA as [LA [LB [LC LD]]].
  rewrite Forall_forall in Hcnd. pose proof (Hcnd _ HIn) as Hnd.
  assert (Hne : A <> B /\ A <> C /\ A <> D /\ B <> C /\ B <> D /\ C <> D).
  { inversion Hnd as [|? ? N0 Hc1]; subst. inversion Hc1 as [|? ? N1 Hc2]; subst. inversion Hc2 as [|? ? N2 _]; subst.
    cbn in N0, N1, N2. repeat split; intros E; subst; tauto. }
  destruct Hne as [n01 [n02 [n03 [n12 [n13 n23]]]]].
  set (NC := [[ib; B; C; D]; [A; ib; C; D]; [A; B; ib; D]; [A; B; C; ib]]).
  assert (HP : Permutation (rc r' ++ [[A; B; C; D]]) (rc r ++ NC)).
  { rewrite Hrc. apply (updz_perm (rc r) c [A; B; C; D] [ib; B; C; D] [[A; ib; C; D]; [A; B; ib; D]; [A; B; C; ib]] Hc). }
  assert (HNC : Forall (fun s => In ib s /\ NoDup s) NC).
  { unfold NC. repeat (apply Forall_cons || apply Forall_nil); (split; [cbn; tauto|repeat (apply NoDup_cons || apply NoDup_nil); cbn; lia]). }
  assert (HD : ForallOrdPairs different NC) by (unfold NC; fop4).
  split.
  - assert (HA : Forall (@NoDup Z) (rc r' ++ [[A; B; C; D]])).
    { apply Forall_forall. intros x Hx. apply (Permutation_in _ HP) in Hx. apply in_app_or in Hx as [Hx|Hx]; [auto|].
      rewrite Forall_forall in HNC. apply HNC. exact Hx. }
    apply Forall_app in HA. tauto.
  - intros t. assert (Hcn : (cnt (rc r') t + cnt [[A; B; C; D]] t = cnt (rc r) t + cnt NC t)%nat) by (rewrite <- !cnt_app; apply cnt_perm, HP).
    destruct (In_dec Z.eq_dec ib t) as [Hi|Hi].
    + assert (Z0 : cnt (rc r) t = 0%nat).
      { apply (cnt_zero_all (fun s => forall v, In v s -> v < ib)).
        - apply Forall_forall. exact Hcell_lt.
        - intros s Hs E. pose proof (Hs ib (seteqz_In _ _ ib E Hi)). lia. }
      pose proof (cnt_le1 t NC HD). lia.
    + assert (Z0 : cnt NC t = 0%nat).
      { apply (cnt_zero_all (fun s => In ib s /\ NoDup s)); auto. intros s [Hs _] E. apply Hi. eapply seteqz_In'; eauto. }
      pose proof (Hsimple t). lia.
Qed.

(* the invariant of a tetrahedral mesh under edition: in-range proper cells, faces on different vertices, conforming *)
Definition vol_inv (r : raw) : Prop :=
  WFv r /\ Forall (@NoDup Z) (rf r) /\ proper_cells (rc r) /\ conforming (rc r).

Theorem vstep_conforming (r r' : raw) o : vstep O r o = Ok r' -> vol_inv r -> vol_inv r'.
Proof.
  intros H [HW [Hfn [Hp Hc]]]. destruct o as [c|fid]; cbn [vstep] in H.
  - destruct (getz (rc r) c) as [cell|e] eqn:Eg; [|unfold split_cell_as_fan in H; rewrite Eg in H; discriminate].
    assert (Hr : 0 <= c < nC r) by (apply getz_Ok in Eg; unfold nC; tauto).
    destruct (cell_fan_accepts O r c HW Hr) as [r1 [H1 HW1]]. rewrite H in H1. inversion H1; subst r1.
    pose proof (getz_In _ _ _ Eg) as HIn. destruct HW as [Hcells Hfaces]. pose proof Hcells as Hcells'. rewrite Forall_forall in Hcells'.
    destruct (Hcells' _ HIn) as [L4 _].
    destruct cell as [|A [|B [|C [|D [|? ?]]]]]; try (unfold Zlen in L4; cbn [length] in L4; lia).
    destruct (cell_fan_counts O r c r' _ Eg L4 H) as [_ [_ [Hrf _]]].
    assert (Hnd : NoDup [A; B; C; D]) by (destruct Hp as [Hcnd _]; rewrite Forall_forall in Hcnd; auto).
    split; [exact HW1|]. split; [rewrite Hrf; exact Hfn|]. split.
    + apply (cell_fan_proper r r' c A B C D Eg H (conj Hcells Hfaces) Hp).
    + apply (cell_fan_conforming O r r' c A B C D Eg H (conj Hcells Hfaces) Hnd). exact Hc.
  - destruct (getz (rf r) fid) as [f|e] eqn:Eg; [|unfold split_tet_from_face_center in H; rewrite Eg in H; discriminate].
    assert (Hr : 0 <= fid < nF r) by (apply getz_Ok in Eg; unfold nF; tauto).
    destruct (face_centre_accepts O r fid HW Hr) as [r1 [H1 HW1]]. rewrite H in H1. inversion H1; subst r1.
    destruct (fc_skip (Zlen f)) eqn:Esk.
    { unfold split_tet_from_face_center in H. rewrite Eg in H. cbn [bind] in H. rewrite Esk in H. inversion H; subst r'.
      split; [exact HW|]. split; [exact Hfn|]. split; [exact Hp|exact Hc]. }
    unfold fc_skip in Esk. apply negb_false_iff, Z.eqb_eq in Esk.
    destruct f as [|A [|B [|C [|? ?]]]]; try (unfold Zlen in Esk; cbn [length] in Esk; lia).
    pose proof (getz_In _ _ _ Eg) as HIn.
    assert (Hnd : NoDup [A; B; C]) by (rewrite Forall_forall in Hfn; auto).
    destruct (face_centre_conforming O r r' fid A B C Eg H HW Hnd (proj1 Hp)) as [_ [_ [_ Hk]]].
    destruct (Hk Hc Hp) as [Hc' Hp'].
    split; [exact HW1|]. split; [|split; auto].
    assert (Hrf : rf r' = updz (rf r) fid (fc_replace A B C (nV r)) ++ fc_faces A B C (nV r)).
    { unfold split_tet_from_face_center in H. rewrite Eg in H. cbn [bind] in H. change (fc_skip (Zlen [A; B; C])) with false in H. cbn iota in H.
      apply bind_Ok in H as [ps [_ H]]. apply bind_Ok in H as [cells [_ H]]. inversion H. reflexivity. }
    rewrite Hrf. destruct HW as [_ Hfaces]. rewrite Forall_forall in Hfaces. pose proof (Hfaces _ HIn) as Hv. rewrite Forall_forall in Hv.
    assert (LA : A < nV r /\ B < nV r /\ C < nV r) by (unfold vert_ok in Hv; repeat split; apply Hv; cbn; auto).
    assert (Hne : A <> B /\ A <> C /\ B <> C).
    { inversion Hnd as [|? ? N0 Hc1]; subst. inversion Hc1 as [|? ? N1 _]; subst. cbn in N0, N1. repeat split; intros E; subst; tauto. }
    apply Forall_updz_app; [exact Hfn| |]; unfold fc_replace, fc_faces; repeat (apply Forall_cons || apply Forall_nil);
      repeat (apply NoDup_cons || apply NoDup_nil); cbn; lia.
Qed.

(* every sequence of splits inside one editing block keeps a conforming mesh of proper tetrahedra conforming *)
Theorem volume_history_conforming ops (r r' : raw) : foldM (vstep O) ops r = Ok r' -> vol_inv r -> vol_inv r'.
Proof.
  revert r. induction ops as [|o t IH]; intros r H Hi; cbn [foldM] in H; [inversion H; subst; exact Hi|].
  apply bind_Ok in H as [r1 [H1 H]]. apply (IH r1 H). apply (vstep_conforming r r1 o H1 Hi).
Qed.

(* a documented input (cells given, faces completed by prepare()) satisfies the invariant *)
Theorem prepared_volume_inv (V : list P) (C : list (list Z)) :
  Forall (cell_ok (Zlen V)) C -> proper_cells C -> conforming C -> vol_inv (pr (prepare (mkraw V [] [] C))).
Proof.
  intros HC Hp Hc. pose proof (prepared_volume_WFv V C HC) as HW. revert HW. unfold prepare. cbn [rf rc re rv].
  destruct (prepare_edges (Zlen V) (complete_edges [] (complete_faces [] C))) as [es rb]. cbn [pr]. intros HW.
  split; [exact HW|]. cbn [rf rc]. split; [|split; auto].
  apply Forall_forall. intros f Hf. unfold complete_faces in Hf. destruct C as [|c0 C0]; [contradiction|].
  cbn [app map] in Hf. apply dedupF_In_sub in Hf. apply in_flat_map in Hf as [c [Hcin Hf]].
  destruct Hp as [Hnd _]. rewrite Forall_forall in Hnd, HC. pose proof (Hnd c Hcin) as Hn. destruct (HC c Hcin) as [L _].
  destruct c as [|v0 [|v1 [|v2 [|v3 [|? ?]]]]]; try (unfold Zlen in L; cbn [length] in L; lia).
  assert (Hne : v0 <> v1 /\ v0 <> v2 /\ v0 <> v3 /\ v1 <> v2 /\ v1 <> v3 /\ v2 <> v3).
  { inversion Hn as [|? ? N0 Hc1]; subst. inversion Hc1 as [|? ? N1 Hc2]; subst. inversion Hc2 as [|? ? N2 _]; subst.
    cbn in N0, N1, N2. repeat split; intros E; subst; tauto. }
  cbn in Hf. destruct Hf as [<-|[<-|[<-|[<-|[]]]]]; repeat (apply NoDup_cons || apply NoDup_nil); cbn; lia.
Qed.

End Chain.

(* ------------------------------------------------------------------ what the tetrahedral splits do NOT touch *)
Lemma fc_cell_shape f ic L c L1 : fc_cell f ic L c = Ok L1 -> exists k app, L1 = updz L c k ++ app /\ 0 <= c < Zlen L.
Proof.
  unfold fc_cell. intros H. apply bind_Ok in H as [cell [Hg H]]. apply bind_Ok in H as [nc [_ H]]. apply bind_Ok in H as [k [_ H]].
  apply bind_Ok in H as [app [_ H]]. inversion H. exists k, app. split; [reflexivity|]. apply getz_Ok in Hg. tauto.
Qed.

Lemma fc_fold_untouched f ic idxs : forall L L' i, foldM (fc_cell f ic) idxs L = Ok L' -> ~ In i idxs -> 0 <= i < Zlen L ->
  getz L' i = getz L i.
Proof.
  induction idxs as [|c idxs IH]; intros L L' i H Hi Hr; cbn [foldM] in H; [inversion H; reflexivity|].
  apply bind_Ok in H as [L1 [H1 H]]. destruct (fc_cell_shape _ _ _ _ _ H1) as [k [app [-> Hc]]].
  rewrite (IH _ _ i H).
  - apply getz_updz_app_other'; [lia| |exact Hr]. intros ->. apply Hi. left. reflexivity.
  - intros Hin. apply Hi. right. exact Hin.
  - rewrite Zlen_app, Zlen_updz. pose proof (Zlen_nonneg app). lia.
Qed.

Section Untouched.
Context {P : Type} (O : pops P).
Notation raw := (raw P).

Theorem face_centre_untouched (r r' : raw) fid A B C :
  getz (rf r) fid = Ok [A; B; C] -> split_tet_from_face_center O r fid = Ok r' ->
  (forall i cell, getz (rc r) i = Ok cell -> fc_adjacent [A; B; C] cell = false -> getz (rc r') i = Ok cell) /\
  (forall j, 0 <= j < nF r -> j <> fid -> getz (rf r') j = getz (rf r) j) /\
  re r' = re r.
Proof.
  intros Hfa H. unfold split_tet_from_face_center in H. rewrite Hfa in H. cbn [bind] in H.
  change (fc_skip (Zlen [A; B; C])) with false in H. cbn iota in H.
  apply bind_Ok in H as [ps [_ H]]. apply bind_Ok in H as [cells [Hfold H]]. inversion H; subst r'; clear H. cbn [rc rf re].
  split; [|split; [|reflexivity]].
  - intros i cell Hg Hna. rewrite <- Hg. apply (fc_fold_untouched _ _ _ _ _ i Hfold).
    + intros Hin. apply filter_In in Hin as [_ Hin]. rewrite Hg in Hin. congruence.
    + apply getz_Ok in Hg. tauto.
  - intros j Hj Hne. apply getz_updz_app_other'; [apply getz_Ok in Hfa; lia|exact Hne|exact Hj].
Qed.

Theorem cell_fan_untouched (r r' : raw) c A B C D :
  getz (rc r) c = Ok [A; B; C; D] -> split_cell_as_fan O r c = Ok r' ->
  (forall i, 0 <= i < nC r -> i <> c -> getz (rc r') i = getz (rc r) i) /\ rf r' = rf r /\ re r' = re r.
Proof.
  intros Hc H. unfold split_cell_as_fan in H. rewrite Hc in H. cbn [bind] in H. change (cf_skip (Zlen [A; B; C; D])) with false in H. cbn iota in H.
  apply bind_Ok in H as [pA [_ H]]. apply bind_Ok in H as [pB [_ H]]. apply bind_Ok in H as [pC [_ H]]. apply bind_Ok in H as [pD [_ H]].
  inversion H; subst r'; clear H. cbn [rc rf re]. split; [|split; reflexivity].
  intros i Hi Hne. apply getz_updz_app_other'; [apply getz_Ok in Hc; lia|exact Hne|exact Hi].
Qed.

End Untouched.
