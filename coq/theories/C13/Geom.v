(* C13 - coordinates over an arbitrary field: the point operations the model is executed with (over Qc) and
   reasoned about (over any field), vector area of a polygon, signed volume of a tetrahedron.  No proofs. *)
From Coq Require Import ZArith List.
Require Import MV.Lib.Base MV.C13.Defs.
Import ListNotations.

Section FieldOps.
Variable F : Type.
Variables (f0 f1 : F) (fadd fmul fsub : F -> F -> F) (fopp : F -> F) (fdiv : F -> F -> F).

Fixpoint fnat (n : nat) : F := match n with O => f0 | S k => fadd f1 (fnat k) end.
Definition fz (z : Z) : F :=
  match z with Z0 => f0 | Zpos p => fnat (Pos.to_nat p) | Zneg p => fopp (fnat (Pos.to_nat p)) end.

Definition vec := (F * F * F)%type.
Definition vx (p : vec) := fst (fst p).
Definition vy (p : vec) := snd (fst p).
Definition vz (p : vec) := snd p.
Definition vadd (a b : vec) : vec := (fadd (vx a) (vx b), fadd (vy a) (vy b), fadd (vz a) (vz b)).
Definition vsub (a b : vec) : vec := (fsub (vx a) (vx b), fsub (vy a) (vy b), fsub (vz a) (vz b)).
Definition vscale (c : F) (a : vec) : vec := (fmul c (vx a), fmul c (vy a), fmul c (vz a)).
Definition vdivz (a : vec) (n : Z) : vec := (fdiv (vx a) (fz n), fdiv (vy a) (fz n), fdiv (vz a) (fz n)).
Definition v0 : vec := (f0, f0, f0).
Definition fieldO : pops vec := {| padd := vadd; pdivz := vdivz; pzero := v0 |}.

Definition cross (a b : vec) : vec :=
  (fsub (fmul (vy a) (vz b)) (fmul (vz a) (vy b)),
   fsub (fmul (vz a) (vx b)) (fmul (vx a) (vz b)),
   fsub (fmul (vx a) (vy b)) (fmul (vy a) (vx b))).
Definition dot (a b : vec) : F := fadd (fadd (fmul (vx a) (vx b)) (fmul (vy a) (vy b))) (fmul (vz a) (vz b)).

Definition vsum (l : list vec) : vec := fold_right vadd v0 l.
(* consecutive pairs of a cyclic sequence *)
Definition cyc {A} (l : list A) : list (A * A) := match l with [] => [] | x :: t => combine l (t ++ [x]) end.
(* twice the vector area of the polygon p0 p1 ... p(n-1): sum of p_i x p_(i+1) *)
Definition varea2 (pl : list vec) : vec := vsum (map (fun ab => cross (fst ab) (snd ab)) (cyc pl)).
(* six times the signed volume of the tetrahedron a b c d *)
Definition vol6 (a b c d : vec) : F := dot (vsub b a) (cross (vsub c a) (vsub d a)).
Definition vol6l (pl : list vec) : F := match pl with [a; b; c; d] => vol6 a b c d | _ => f0 end.

(* small integers of the field, and areas / volumes of index lists under a position map *)
Definition two : F := fadd f1 f1.
Definition three : F := fadd f1 (fadd f1 f1).
Definition four : F := fadd f1 (fadd f1 (fadd f1 f1)).
Definition area_of (pos : Z -> vec) (f : list Z) : vec := varea2 (map pos f).
Definition vol_of (pos : Z -> vec) (c : list Z) : F := vol6l (map pos c).
End FieldOps.
