(* C13 - basic lemmas: Z-indexed lists, the result monad, keyify, a permutation tactic. *)
From Coq Require Import ZArith List Bool Lia Permutation.
Require Import MV.Lib.Base MV.C13.Defs.
Import ListNotations.
Open Scope Z_scope.

(* ------------------------------------------------------------------ Zlen *)
Lemma Zlen_app {A} (a b : list A) : Zlen (a ++ b) = Zlen a + Zlen b.
Proof. unfold Zlen. rewrite app_length. lia. Qed.
Lemma Zlen_cons {A} (x : A) l : Zlen (x :: l) = Zlen l + 1.
Proof. unfold Zlen. cbn [length]. lia. Qed.
Lemma Zlen_nil {A} : Zlen (@nil A) = 0.
Proof. reflexivity. Qed.
Lemma Zlen_map {A B} (f : A -> B) l : Zlen (map f l) = Zlen l.
Proof. unfold Zlen. now rewrite map_length. Qed.
Lemma Zlen_nonneg {A} (l : list A) : 0 <= Zlen l.
Proof. unfold Zlen. lia. Qed.
Lemma Zlen_zrange n : 0 <= n -> Zlen (zrange n) = n.
Proof. intros H. unfold Zlen. rewrite zrange_length. lia. Qed.

Lemma upd_length {A} (l : list A) i v : length (upd l i v) = length l.
Proof. revert i. induction l as [|h t IH]; intros [|i]; cbn; auto. Qed.
Lemma Zlen_updz {A} (l : list A) i v : Zlen (updz l i v) = Zlen l.
Proof. unfold Zlen, updz. now rewrite upd_length. Qed.

Lemma In_upd {A} (l : list A) i v x : In x (upd l i v) -> x = v \/ In x l.
Proof.
  revert i. induction l as [|h t IH]; intros [|i]; cbn; intros H; auto.
  - destruct H as [H|H]; auto.
  - destruct H as [H|H]; auto. apply IH in H. tauto.
Qed.
Lemma In_updz {A} (l : list A) i v x : In x (updz l i v) -> x = v \/ In x l.
Proof. apply In_upd. Qed.

(* ------------------------------------------------------------------ getz *)
Lemma getz_Ok {A} (l : list A) i x : getz l i = Ok x -> 0 <= i < Zlen l /\ nth_error l (Z.to_nat i) = Some x.
Proof.
  unfold getz. destruct (i <? 0) eqn:E; [discriminate|].
  destruct (nth_error l (Z.to_nat i)) eqn:N; [|discriminate].
  intros H. inversion H; subst. split; auto.
  assert (Z.to_nat i < length l)%nat by (apply nth_error_Some; congruence).
  unfold Zlen. lia.
Qed.
Lemma getz_In {A} (l : list A) i x : getz l i = Ok x -> In x l.
Proof. intros H. apply getz_Ok in H as [_ H]. eapply nth_error_In; eauto. Qed.
Lemma getz_total {A} (l : list A) i : 0 <= i < Zlen l -> exists x, getz l i = Ok x.
Proof.
  intros H. unfold getz. destruct (i <? 0) eqn:E; [lia|].
  destruct (nth_error l (Z.to_nat i)) eqn:N; [eauto|].
  apply nth_error_None in N. unfold Zlen in H. lia.
Qed.

Lemma getz_of_nat {A} (l : list A) n x : nth_error l n = Some x -> getz l (Z.of_nat n) = Ok x.
Proof.
  intros H. unfold getz. assert (E : (Z.of_nat n <? 0) = false) by (apply Z.ltb_ge; lia).
  rewrite E, Nat2Z.id, H. reflexivity.
Qed.

(* ------------------------------------------------------------------ the result monad *)
Lemma bind_Ok {A B} (x : res A) (f : A -> res B) b : bind x f = Ok b -> exists a, x = Ok a /\ f a = Ok b.
Proof. destruct x; cbn; [eauto|discriminate]. Qed.

Ltac inv_bind H :=
  repeat match type of H with
  | bind ?x ?f = Ok ?b => let a := fresh "a" in let Ha := fresh "Ha" in
      apply bind_Ok in H as [a [Ha H]]
  end.

Lemma mapM_length {A B} (f : A -> res B) l l' : mapM f l = Ok l' -> length l' = length l.
Proof.
  revert l'. induction l as [|x t IH]; cbn; intros l' H.
  - inversion H; reflexivity.
  - apply bind_Ok in H as [y [Hy H]]. apply bind_Ok in H as [ys [Hys H]]. inversion H; subst. cbn. f_equal. auto.
Qed.
Lemma mapM_Zlen {A B} (f : A -> res B) l l' : mapM f l = Ok l' -> Zlen l' = Zlen l.
Proof. intros H. unfold Zlen. now rewrite (mapM_length _ _ _ H). Qed.

Lemma mapM_Forall2 {A B} (f : A -> res B) l l' : mapM f l = Ok l' -> Forall2 (fun x y => f x = Ok y) l l'.
Proof.
  revert l'. induction l as [|x t IH]; cbn; intros l' H.
  - inversion H; constructor.
  - apply bind_Ok in H as [y [Hy H]]. apply bind_Ok in H as [ys [Hys H]]. inversion H; subst. constructor; auto.
Qed.

Lemma mapM_total {A B} (f : A -> res B) l : (forall x, In x l -> exists y, f x = Ok y) -> exists l', mapM f l = Ok l'.
Proof.
  induction l as [|x t IH]; cbn; intros H; [eauto|].
  destruct (H x) as [y Hy]; auto. rewrite Hy. cbn.
  destruct IH as [ys Hys]; [intros; apply H; auto|]. rewrite Hys. cbn. eauto.
Qed.

Lemma mapM_app {A B} (f : A -> res B) l1 l2 r :
  mapM f (l1 ++ l2) = Ok r -> exists r1 r2, mapM f l1 = Ok r1 /\ mapM f l2 = Ok r2 /\ r = r1 ++ r2.
Proof.
  revert r. induction l1 as [|x t IH]; cbn; intros r H.
  - exists [], r. auto.
  - apply bind_Ok in H as [y [Hy H]]. apply bind_Ok in H as [ys [Hys H]]. inversion H; subst.
    destruct (IH _ Hys) as [r1 [r2 [H1 [H2 ->]]]]. rewrite Hy, H1. cbn. exists (y :: r1), r2. auto.
Qed.

(* ------------------------------------------------------------------ keyify *)
Lemma keyify2_comm a b : keyify2 a b = keyify2 b a.
Proof. unfold keyify2. destruct (a <=? b) eqn:E1, (b <=? a) eqn:E2; try reflexivity; f_equal; lia. Qed.
Lemma keyE_swap a b : keyE (a, b) = keyE (b, a).
Proof. unfold keyE. cbn. apply keyify2_comm. Qed.
Lemma keyify2_cases a b : keyify2 a b = (a, b) \/ keyify2 a b = (b, a).
Proof. unfold keyify2. destruct (a <=? b); auto. Qed.
Lemma keyify2_eq a b c d : keyify2 a b = keyify2 c d -> (a = c /\ b = d) \/ (a = d /\ b = c).
Proof.
  unfold keyify2. destruct (a <=? b) eqn:E1, (c <=? d) eqn:E2; intros H; inversion H; subst; auto.
Qed.
Lemma keyE_idem e : keyE (keyE e) = keyE e.
Proof.
  destruct e as [a b]. unfold keyE, keyify2. cbn.
  destruct (a <=? b) eqn:E; cbn; [now rewrite E|].
  destruct (b <=? a) eqn:E2; [reflexivity|lia].
Qed.
Lemma keyE_pair a b : keyE (a, b) = keyify2 a b.
Proof. reflexivity. Qed.
Lemma keyE_keyify2 a b : keyE (keyify2 a b) = keyify2 a b.
Proof. rewrite <- (keyE_pair a b). apply keyE_idem. Qed.
Lemma edge_eqb_eq e f : edge_eqb e f = true <-> e = f.
Proof.
  destruct e, f. unfold edge_eqb. cbn. rewrite andb_true_iff, !Z.eqb_eq. split; [intros [-> ->]; auto|intros H; inversion H; auto].
Qed.
Lemma mem_edge_In e l : mem_edge e l = true <-> In e l.
Proof.
  unfold mem_edge. rewrite existsb_exists. split.
  - intros [x [Hx He]]. apply edge_eqb_eq in He. now subst.
  - intros H. exists e. split; auto. now apply edge_eqb_eq.
Qed.

(* ------------------------------------------------------------------ permutations of explicit lists *)
(* Permutation (x :: l) r  when x occurs syntactically in the explicit list r *)
Ltac perm_explicit :=
  cbn [app];
  repeat match goal with
  | |- Permutation [] [] => apply perm_nil
  | |- @Permutation ?T (?x :: ?l) ?r =>
      let rec find pre r' :=
        lazymatch r' with
        | x :: ?t => constr:((pre, t))
        | ?y :: ?t => let pre' := constr:(pre ++ [y]) in find pre' t
        end in
      let p := find (@nil T) r in
      lazymatch p with
      | (?pre, ?t) => let pre' := eval cbn [app] in pre in
                       change r with (pre' ++ x :: t); apply Permutation_cons_app; cbn [app]
      end
  end.

Lemma Permutation_flat_map_ext {A B} (f g : A -> list B) l :
  (forall x, In x l -> Permutation (f x) (g x)) -> Permutation (flat_map f l) (flat_map g l).
Proof.
  induction l as [|x t IH]; cbn; intros H; [constructor|].
  apply Permutation_app; [apply H; auto|apply IH; intros; apply H; auto].
Qed.

Lemma Permutation_flat_map_app {A B} (f g : A -> list B) l :
  Permutation (flat_map (fun x => f x ++ g x) l) (flat_map f l ++ flat_map g l).
Proof.
  induction l as [|x t IH]; cbn; [constructor|].
  rewrite <- !app_assoc. apply Permutation_app_head.
  eapply Permutation_trans; [apply Permutation_app_head, IH|].
  apply Permutation_app_swap_app.
Qed.
