(* C13 - split_double_boundary_edges_triangles: which faces are split.  When the function does not raise, the faces
   it fans are exactly (in increasing order) the faces having a vertex that lies on exactly two edges, and the result
   is the editing block that fans those faces. *)
From Coq Require Import ZArith List Bool Lia.
Require Import MV.Lib.Base MV.C13.Defs MV.C13.Gen MV.C13.Model MV.C13.Proofs_Base.
Import ListNotations.
Open Scope Z_scope.

Section SD.
Context {P : Type} (O : pops P).
Notation raw := (raw P).

Definition has_degree2_vertex (deg : list Z) (F : list Z) : Prop := exists v, In v F /\ getz deg v = Ok 2.

Lemma sd_face_spec deg F b : sd_face deg F = Ok b -> (b = true <-> has_degree2_vertex deg F).
Proof.
  revert b. induction F as [|v t IH]; cbn [sd_face]; intros b H.
  - inversion H; subst. split; [discriminate|intros [v [[] _]]].
  - apply bind_Ok in H as [d [Hd H]]. unfold sd_isolated, sd_problem in H.
    destruct (d <? 2) eqn:E1; [discriminate|]. destruct (d =? 2) eqn:E2.
    + inversion H; subst. apply Z.eqb_eq in E2. subst d. split; auto. intros _. exists v. split; [left; auto|exact Hd].
    + apply IH in H. rewrite H. split.
      * intros [w [Hw Hg]]. exists w. split; [right; auto|exact Hg].
      * intros [w [[<-|Hw] Hg]]; [rewrite Hd in Hg; inversion Hg; subst; lia|exists w; auto].
Qed.

Lemma filter_combine_spec (bs : list bool) n i :
  length bs = Z.to_nat n ->
  (In i (map snd (filter fst (combine bs (zrange n)))) <-> nth_error bs (Z.to_nat i) = Some true /\ 0 <= i).
Proof.
  intros L. split.
  - intros H. apply in_map_iff in H as [[b j] [E H]]. cbn in E. subst j. apply filter_In in H as [H Hb]. cbn in Hb. subst b.
    assert (G : forall (l : list bool) k s, In (true, i) (combine l (map Z.of_nat (seq s k))) -> Z.of_nat s <= i /\ nth_error l (Z.to_nat i - s) = Some true).
    { induction l as [|a l IH]; intros k s Hin; [contradiction|]. destruct k as [|k]; [contradiction|]. cbn [seq map combine] in Hin.
      destruct Hin as [E|Hin].
      - inversion E; subst. split; [lia|]. rewrite Nat2Z.id, Nat.sub_diag. reflexivity.
      - destruct (IH k (S s) Hin) as [H1 H2]. split; [lia|]. replace (Z.to_nat i - s)%nat with (S (Z.to_nat i - S s)) by lia. exact H2. }
    unfold zrange in H. destruct (G _ _ _ H) as [G1 G2]. rewrite Nat.sub_0_r in G2. split; [exact G2|lia].
  - intros [H Hi]. apply in_map_iff. exists (true, i). split; auto. apply filter_In. split; auto.
    assert (G : forall (l : list bool) k s j, length l = k -> nth_error l j = Some true -> In (true, Z.of_nat (s + j)) (combine l (map Z.of_nat (seq s k)))).
    { induction l as [|a l IH]; intros k s j Lk Hn; [destruct j; discriminate|]. destruct k as [|k]; [discriminate|]. cbn [seq map combine].
      destruct j as [|j]; cbn in Hn.
      - inversion Hn; subst. left. f_equal. lia.
      - right. replace (s + S j)%nat with (S s + j)%nat by lia. apply IH; auto; cbn in Lk; lia. }
    unfold zrange. specialize (G bs (Z.to_nat n) 0%nat (Z.to_nat i) L H). cbn [plus] in G. now rewrite Z2Nat.id in G by lia.
Qed.

Theorem sd_faces_spec (r : raw) pb :
  sd_faces r = Ok pb ->
  forall i, In i pb <-> exists F, getz (rf r) i = Ok F /\ has_degree2_vertex (degrees (Zlen (rv r)) (re r)) F.
Proof.
  unfold sd_faces. intros H i. apply bind_Ok in H as [bs [Hbs H]]. inversion H; subst pb; clear H.
  pose proof (mapM_length _ _ _ Hbs) as L. apply mapM_Forall2 in Hbs.
  rewrite filter_combine_spec by (unfold Zlen; lia). split.
  - intros [Hn Hi]. assert (Hlt : (Z.to_nat i < length (rf r))%nat) by (rewrite <- L; apply nth_error_Some; congruence).
    destruct (nth_error (rf r) (Z.to_nat i)) as [F|] eqn:EF; [|apply nth_error_None in EF; lia].
    exists F. split; [unfold getz; destruct (i <? 0) eqn:E; [lia|]; now rewrite EF|].
    assert (G : sd_face (degrees (Zlen (rv r)) (re r)) F = Ok true).
    { clear -Hbs EF Hn. revert EF Hn. generalize (Z.to_nat i). induction Hbs; intros j EF Hn; [destruct j; discriminate|].
      destruct j as [|j]; cbn in *; [inversion EF; inversion Hn; subst; auto|eauto]. }
    apply (sd_face_spec _ _ _ G). reflexivity.
  - intros [F [HF Hd]]. apply getz_Ok in HF as [Hi HF]. split; [|lia].
    clear -Hbs HF Hd. revert HF. generalize (Z.to_nat i). induction Hbs; intros j HF; [destruct j; discriminate|].
    destruct j as [|j]; cbn in *; [|eauto]. inversion HF; subst. f_equal. apply (proj2 (sd_face_spec _ _ _ H)). exact Hd.
Qed.

(* the function is the editing block that fans the selected faces, in increasing order (or returns its argument) *)
Theorem split_double_spec (a : raw) p ch :
  split_double O a = Ok (p, ch) ->
  exists pb, sd_faces a = Ok pb /\
    ((pb = [] /\ ch = false /\ pr p = a) \/
     (pb <> [] /\ ch = true /\ exists res, run_surface O a (map Fan pb) = Ok res /\ p = res_mesh res)).
Proof.
  unfold split_double. intros H. apply bind_Ok in H as [pb [Hpb H]]. exists pb. split; auto.
  destruct pb as [|i t].
  - inversion H; subst. left. auto.
  - right. apply bind_Ok in H as [res [Hres H]]. inversion H; subst. split; [discriminate|]. split; auto. exists res. auto.
Qed.

End SD.
