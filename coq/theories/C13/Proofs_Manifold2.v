(* C13 - oriented manifoldness is preserved by subdivide_triangles_3quads (after its triangulation), by the fan of a
   face around a new vertex, and by the split of a quad whose cut diagonal is not joined yet. *)
From Coq Require Import ZArith List Bool Lia Permutation.
Require Import MV.Lib.Base MV.C13.Defs MV.C13.Gen MV.C13.Model MV.C13.Proofs_Base MV.C13.Proofs_Counts MV.C13.Proofs_Topo
               MV.C13.Proofs_Accept MV.C13.Proofs_Accept2 MV.C13.Proofs_Manifold.
Import ListNotations.
Open Scope Z_scope.

(* oriented polygonal surface on vertices 0..n-1 *)
Definition oriented_poly (n : Z) (fs : list (list Z)) : Prop :=
  NoDup (dedges_all fs) /\ Forall (fun F => 3 <= Zlen F /\ NoDup F /\ Forall (vert_ok n) F) fs.

Lemma oriented_tri_poly n fs : oriented_tri n fs -> oriented_poly n fs.
Proof. intros [H1 H2]. split; auto. eapply Forall_impl; [|exact H2]. intros F [L H]. split; auto. lia. Qed.

Section Quads.
Context {P : Type} (O : pops P).
Notation raw := (raw P).

Lemma q3_mid_of_ok (r : raw) : Forall (covered (re r)) (rf r) -> mids_ok r (q3_mid_of r).
Proof.
  intros Hc.
  assert (Hk : forall e, In e (dedges_all (rf r)) ->
             exists x i, In (x, i) (combine (re r) (zrange (Zlen (re r)))) /\ keyE e = keyE x /\ q3_mid_of r e = Zlen (rv r) + i /\
                         nV r <= q3_mid_of r e < nV r + nE r).
  { intros [a b] He. unfold dedges_all in He. apply in_flat_map in He as [F [HF Hd]].
    rewrite Forall_forall in Hc.
    destruct (covered_key q3_key (Zlen (rv r)) (re r) F a b (fun x y => eq_refl) (Hc F HF) Hd) as [m [H1 [R [x [i [Hin [Hk Hm]]]]]]].
    exists x, i. unfold q3_mid_of, mf. rewrite keyE_pair. rewrite (hget_hv _ _ _ H1). repeat split; auto; unfold nV, nE; lia. }
  constructor.
  - intros e He. destruct (Hk e He) as [x [i [_ [_ [_ R]]]]]. exact R.
  - intros e e' He He' Hm. destruct (Hk e He) as [x [i [Hin [Hke [Hme _]]]]]. destruct (Hk e' He') as [x' [i' [Hin' [Hke' [Hme' _]]]]].
    assert (i = i') by lia. subst i'. rewrite (combine_zrange_fun _ _ _ _ _ Hin Hin') in Hke. congruence.
  - apply q3_mid_of_sym.
Qed.

Lemma q3_quads_distinct n n' A B C m1 m2 m3 S :
  vert_ok n A -> vert_ok n B -> vert_ok n C -> n <= m1 < n' -> n <= m2 < n' -> n <= m3 < n' -> n' <= S ->
  m1 <> m2 -> m2 <> m3 -> m3 <> m1 -> forall n'', S < n'' ->
  Forall (fun T => 3 <= Zlen T /\ NoDup T /\ Forall (vert_ok n'') T) (q3_quads A B C m1 m2 m3 S).
Proof.
  unfold vert_ok. intros. unfold q3_quads.
  repeat (apply Forall_cons || apply Forall_nil); (split; [unfold Zlen; cbn; lia|split]);
    try (repeat (apply Forall_cons || apply Forall_nil); lia);
    repeat (apply NoDup_cons || apply NoDup_nil); cbn; intuition lia.
Qed.

Theorem q3_core_oriented (r r' : raw) :
  q3_core O r = Ok r' ->
  Forall (covered (re r)) (rf r) -> oriented_tri (nV r) (rf r) ->
  oriented_poly (nV r') (rf r').
Proof.
  intros H Hc Hor. pose proof (q3_mid_of_ok r Hc) as Hm. set (m := q3_mid_of r) in *.
  destruct (q3_core_counts O r r' H) as [HnV _].
  pose proof (q3_core_dedges O r r' H m (bary_ids r) eq_refl eq_refl) as Hperm.
  assert (Ht : Forall (fun F => Zlen F = 3) (rf r)) by (destruct Hor as [_ Hf]; eapply Forall_impl; [|exact Hf]; intros F [L _]; exact L).
  (* every (face, barycentre id) pair *)
  assert (HFS : forall F S, In (F, S) (bary_ids r) -> In F (rf r) /\ nV r + nE r <= S < nV r + nE r + nF r).
  { intros F S Hin. unfold bary_ids in Hin. split; [eapply in_combine_l; eauto|].
    apply in_combine_r in Hin. apply in_map_iff in Hin as [i [<- Hi]]. apply In_zrange in Hi. unfold nV, nE, nF. lia. }
  assert (HFSfun : forall F F' S, In (F, S) (bary_ids r) -> In (F', S) (bary_ids r) -> F = F').
  { intros F F' S H1 H2. unfold bary_ids in *. rewrite combine_map_r in H1, H2.
    apply in_map_iff in H1 as [[F1 i1] [E1 H1]]. apply in_map_iff in H2 as [[F2 i2] [E2 H2]]. cbn [fst snd] in *.
    inversion E1; subst. inversion E2; subst. assert (i1 = i2) by lia. subst. eapply combine_zrange_fun; eauto. }
  assert (Hface : forall F, In F (rf r) -> exists A B C, F = [A; B; C] /\ A <> B /\ B <> C /\ C <> A /\
             vert_ok (nV r) A /\ vert_ok (nV r) B /\ vert_ok (nV r) C /\
             In (A, B) (dedges_all (rf r)) /\ In (B, C) (dedges_all (rf r)) /\ In (C, A) (dedges_all (rf r))).
  { intros F HF. destruct Hor as [_ Hf]. rewrite Forall_forall in Hf. pose proof (Hf F HF) as HFok.
    rewrite Forall_forall in Ht. destruct (tri_shape F (Ht F HF)) as [A [B [C ->]]]. exists A, B, C. split; auto.
    assert (Hcor : In (A, B, C) (tri_corners [A; B; C])) by (cbn; auto).
    destruct (tri_corner_distinct _ _ _ _ _ HFok Hcor) as [N1 [N2 [N3 [VA [VB [VC [E1 [E2 E3]]]]]]]].
    repeat match goal with |- _ /\ _ => split end; try assumption; unfold dedges_all; apply in_flat_map; eexists; eauto. }
  assert (K : forall a b c d, In (a, b) (dedges_all (rf r)) -> In (c, d) (dedges_all (rf r)) ->
              m (a, b) = m (c, d) -> (a = c /\ b = d) \/ (a = d /\ b = c)).
  { intros a b c d I1 I2 E. pose proof (m_inj r _ Hm _ _ I1 I2 E) as K. rewrite !keyE_pair in K. now apply keyify2_eq in K. }
  set (Sp := flat_map (spokes m) (bary_ids r)) in *.
  assert (HSp : forall e, In e Sp -> exists F S A B C, In (F, S) (bary_ids r) /\ F = [A; B; C] /\
                 (e = (m (A, B), S) \/ e = (m (B, C), S) \/ e = (m (C, A), S))).
  { intros e He. unfold Sp in He. apply in_flat_map in He as [[F S] [Hin He]]. destruct (HFS F S Hin) as [HF _].
    destruct (Hface F HF) as [A [B [C [-> _]]]]. exists [A; B; C], S, A, B, C. split; auto. split; auto.
    cbn in He. intuition. }
  split.
  - eapply Permutation_NoDup; [apply Permutation_sym, Hperm|].
    apply NoDup_app_intro; [apply (halves_NoDup r m Hm Hor)| |].
    + apply NoDup_app_intro.
      * (* spokes are pairwise distinct *)
        unfold Sp. apply NoDup_flat_map_intro.
        -- unfold bary_ids. rewrite combine_map_r. apply NoDup_map_intro.
           ++ assert (Hz : NoDup (zrange (Zlen (rf r)))) by apply NoDup_zrange.
              revert Hz. generalize (zrange (Zlen (rf r))). generalize (rf r). induction l as [|x t IH]; intros [|i z] Hz; cbn; try constructor.
              ** intros Hin. apply in_combine_r in Hin. inversion Hz; contradiction.
              ** apply IH. now inversion Hz.
           ++ intros [F1 i1] [F2 i2] H1 H2 E. cbn [fst snd] in E. inversion E; subst. assert (i1 = i2) by lia. subst.
              f_equal.
        -- intros [F S] Hin. destruct (HFS F S Hin) as [HF _]. destruct (Hface F HF) as [A [B [C [-> [N1 [N2 [N3 [_ [_ [_ [I1 [I2 I3]]]]]]]]]]]].
           cbn. repeat (apply NoDup_cons || apply NoDup_nil); cbn; try tauto.
           ++ intros [E|[E|[]]]; inversion E as [E']; [destruct (K _ _ _ _ I1 I2 (eq_sym E')) as [[? ?]|[? ?]]|destruct (K _ _ _ _ I1 I3 (eq_sym E')) as [[? ?]|[? ?]]]; congruence.
           ++ intros [E|[]]. inversion E as [E']. destruct (K _ _ _ _ I2 I3 (eq_sym E')) as [[? ?]|[? ?]]; congruence.
        -- intros [F S] [F' S'] z H1 H2 Hz Hz'. destruct (HFS F S H1) as [HF _]. destruct (HFS F' S' H2) as [HF' _].
           destruct (Hface F HF) as [A [B [C [-> _]]]]. destruct (Hface F' HF') as [A' [B' [C' [-> _]]]].
           cbn in Hz, Hz'. assert (S = S') by (intuition; subst; congruence). subst S'. f_equal. eapply HFSfun; eauto.
      * apply NoDup_map_intro.
        -- unfold Sp. apply NoDup_flat_map_intro.
           ++ unfold bary_ids. rewrite combine_map_r. apply NoDup_map_intro.
              ** assert (Hz : NoDup (zrange (Zlen (rf r)))) by apply NoDup_zrange.
                 revert Hz. generalize (zrange (Zlen (rf r))). generalize (rf r). induction l as [|x t IH]; intros [|i z] Hz; cbn; try constructor.
                 --- intros Hin. apply in_combine_r in Hin. inversion Hz; contradiction.
                 --- apply IH. now inversion Hz.
              ** intros [F1 i1] [F2 i2] H1 H2 E. cbn [fst snd] in E. inversion E; subst. assert (i1 = i2) by lia. subst. f_equal.
           ++ intros [F S] Hin. destruct (HFS F S Hin) as [HF _]. destruct (Hface F HF) as [A [B [C [-> [N1 [N2 [N3 [_ [_ [_ [I1 [I2 I3]]]]]]]]]]]].
              cbn. repeat (apply NoDup_cons || apply NoDup_nil); cbn; try tauto.
              ** intros [E|[E|[]]]; inversion E as [E']; [destruct (K _ _ _ _ I1 I2 (eq_sym E')) as [[? ?]|[? ?]]|destruct (K _ _ _ _ I1 I3 (eq_sym E')) as [[? ?]|[? ?]]]; congruence.
              ** intros [E|[]]. inversion E as [E']. destruct (K _ _ _ _ I2 I3 (eq_sym E')) as [[? ?]|[? ?]]; congruence.
           ++ intros [F S] [F' S'] z H1 H2 Hz Hz'. destruct (HFS F S H1) as [HF _]. destruct (HFS F' S' H2) as [HF' _].
              destruct (Hface F HF) as [A [B [C [-> _]]]]. destruct (Hface F' HF') as [A' [B' [C' [-> _]]]].
              cbn in Hz, Hz'. assert (S = S') by (intuition; subst; congruence). subst S'. f_equal. eapply HFSfun; eauto.
        -- intros x y _ _ E. rewrite <- (swap_swap x), <- (swap_swap y). now rewrite E.
      * (* a spoke is never the reverse of a spoke: its head is a barycentre, its tail a midpoint *)
        intros e He Hs. apply in_map_iff in Hs as [e' [Ee He']]. subst e.
        destruct (HSp _ He) as [F [S [A [B [C [Hin [-> Hcase]]]]]]]. destruct (HSp e' He') as [F' [S' [A' [B' [C' [Hin' [-> Hcase']]]]]]].
        destruct (HFS _ _ Hin) as [HF RS]. destruct (HFS _ _ Hin') as [HF' RS'].
        destruct (Hface _ HF) as [? [? [? [E0 [_ [_ [_ [_ [_ [_ [I1 [I2 I3]]]]]]]]]]]]. inversion E0; subst.
        pose proof (m_range r _ Hm _ I1). pose proof (m_range r _ Hm _ I2). pose proof (m_range r _ Hm _ I3).
        unfold swap in Hcase. destruct e' as [ex ey]. cbn [fst snd] in Hcase.
        destruct Hcase' as [E|[E|E]]; inversion E; subst; destruct Hcase as [E'|[E'|E']]; inversion E'; subst; lia.
    + (* halves have an old end point, spokes do not *)
      intros e He Hin. apply (halves_low r m Hor) in He. apply in_app_or in Hin as [Hin|Hin].
      * destruct (HSp e Hin) as [F [S [A [B [C [Hin' [-> Hcase]]]]]]]. destruct (HFS _ _ Hin') as [HF RS].
        destruct (Hface _ HF) as [? [? [? [E0 [_ [_ [_ [_ [_ [_ [I1 [I2 I3]]]]]]]]]]]]. inversion E0; subst.
        pose proof (m_range r _ Hm _ I1). pose proof (m_range r _ Hm _ I2). pose proof (m_range r _ Hm _ I3).
        destruct Hcase as [ -> | [ -> | -> ] ]; cbn [fst snd] in He; lia.
      * apply in_map_iff in Hin as [e' [Ee Hin]]. subst e.
        destruct (HSp e' Hin) as [F [S [A [B [C [Hin' [-> Hcase]]]]]]]. destruct (HFS _ _ Hin') as [HF RS].
        destruct (Hface _ HF) as [? [? [? [E0 [_ [_ [_ [_ [_ [_ [I1 [I2 I3]]]]]]]]]]]]. inversion E0; subst.
        pose proof (m_range r _ Hm _ I1). pose proof (m_range r _ Hm _ I2). pose proof (m_range r _ Hm _ I3).
        destruct Hcase as [ -> | [ -> | -> ] ]; unfold swap in He; cbn [fst snd] in He; lia.
  - (* the quads themselves *)
    apply Forall_forall. intros T HT.
    assert (HTq : exists F S A B C, In (F, S) (bary_ids r) /\ F = [A; B; C] /\ In T (q3_quads A B C (m (A, B)) (m (B, C)) (m (C, A)) S)).
    { clear - H HT Ht. unfold q3_core in H. apply bind_Ok in H as [ms [_ H]]. apply bind_Ok in H as [bs [_ H]].
      apply bind_Ok in H as [fe [Hfe H]]. inversion H; subst r'; clear H. cbn [rf] in HT.
      apply in_flat_map in HT as [p [Hp HT]]. apply mapM_Forall2 in Hfe.
      destruct (Forall2_In_r _ _ _ _ Hfe Hp) as [[F i] [HFi HpF]]. cbn [fst snd] in HpF.
      pose proof (in_combine_l _ _ _ _ HFi) as HF. rewrite Forall_forall in Ht. destruct (tri_shape F (Ht F HF)) as [A [B [C ->]]].
      exists [A; B; C], (Zlen (rv r) + Zlen (re r) + i), A, B, C. split.
      - unfold bary_ids. rewrite combine_map_r. apply in_map_iff. exists ([A; B; C], i). auto.
      - split; auto. unfold q3_face, q3_keys in HpF.
        apply bind_Ok in HpF as [m1 [H1 HpF]]. apply bind_Ok in HpF as [m2 [H2 HpF]]. apply bind_Ok in HpF as [m3 [H3 HpF]].
        inversion HpF; subst p; clear HpF. cbn [fst] in HT. unfold m, q3_mid_of, mf. rewrite !keyE_pair.
        now rewrite (hget_hv _ _ _ H1), (hget_hv _ _ _ H2), (hget_hv _ _ _ H3). }
    destruct HTq as [F [S [A [B [C [Hin [-> HTin]]]]]]]. destruct (HFS _ _ Hin) as [HF RS].
    destruct (Hface _ HF) as [A1 [B1 [C1 [E0 [N1 [N2 [N3 [VA [VB [VC [I1 [I2 I3]]]]]]]]]]]]. injection E0 as -> -> ->.
    pose proof (m_range r _ Hm _ I1) as R1. pose proof (m_range r _ Hm _ I2) as R2. pose proof (m_range r _ Hm _ I3) as R3.
    pose proof (q3_quads_distinct (nV r) (nV r + nE r) A1 B1 C1 (m (A1, B1)) (m (B1, C1)) (m (C1, A1)) S VA VB VC R1 R2 R3 ltac:(lia)) as Hd.
    assert (Hall : Forall (fun T => 3 <= Zlen T /\ NoDup T /\ Forall (vert_ok (nV r')) T)
                          (q3_quads A1 B1 C1 (m (A1, B1)) (m (B1, C1)) (m (C1, A1)) S)).
    { apply Hd.
      - intros E. destruct (K _ _ _ _ I1 I2 E) as [[? ?]|[? ?]]; congruence.
      - intros E. destruct (K _ _ _ _ I2 I3 E) as [[? ?]|[? ?]]; congruence.
      - intros E. destruct (K _ _ _ _ I3 I1 E) as [[? ?]|[? ?]]; congruence.
      - rewrite HnV. lia. }
    rewrite Forall_forall in Hall. apply Hall. exact HTin.
Qed.

End Quads.

(* ------------------------------------------------------------------ in-place rewrites of one face *)
Lemma upd_app_mid {A} (l1 : list A) x l2 v : upd (l1 ++ x :: l2) (length l1) v = l1 ++ v :: l2.
Proof. induction l1 as [|a t IH]; cbn; [reflexivity|]. now rewrite IH. Qed.

Lemma updz_split {A} (fs : list A) k F T :
  getz fs k = Ok F -> exists l1 l2, fs = l1 ++ F :: l2 /\ updz fs k T = l1 ++ T :: l2.
Proof.
  intros H. apply getz_Ok in H as [_ H]. apply nth_error_split in H as [l1 [l2 [-> L]]].
  exists l1, l2. split; auto. unfold updz. rewrite <- L. apply upd_app_mid.
Qed.

Lemma rewrite_dedges fs k F T Ts X :
  getz fs k = Ok F -> Permutation (dedges T ++ dedges_all Ts) (dedges F ++ X) ->
  Permutation (dedges_all (updz fs k T ++ Ts)) (dedges_all fs ++ X).
Proof.
  intros H Hp. destruct (updz_split fs k F T H) as [l1 [l2 [-> ->]]].
  unfold dedges_all in *. rewrite !flat_map_app. cbn [flat_map]. rewrite <- !app_assoc.
  apply Permutation_app_head.
  eapply Permutation_trans; [apply Permutation_app_head, Permutation_app_comm|]. rewrite app_assoc.
  eapply Permutation_trans; [apply Permutation_app_tail, Hp|]. rewrite <- !app_assoc. apply Permutation_app_head.
  apply Permutation_app_comm.
Qed.

(* consecutive vertices of a face without repeated vertices are distinct *)
Lemma dedges_distinct F a b : 2 <= Zlen F -> NoDup F -> In (a, b) (dedges F) -> a <> b.
Proof.
  intros L Hn Hin. rewrite dedges_index in Hin. apply in_map_iff in Hin as [k [E Hk]]. apply In_zrange in Hk.
  inversion E; subst. unfold znth. destruct (k <? 0) eqn:E1; [lia|].
  assert (Hm : 0 <= (k + 1) mod Zlen F < Zlen F) by (apply Z.mod_pos_bound; lia).
  destruct ((k + 1) mod Zlen F <? 0) eqn:E2; [lia|]. intros Heq.
  rewrite NoDup_nth in Hn. apply Hn in Heq; unfold Zlen in *; try lia.
  assert (Hk' : k = (k + 1) mod Z.of_nat (length F)) by lia.
  destruct (Z_lt_le_dec (k + 1) (Z.of_nat (length F))) as [Hlt|Hge].
  - rewrite Z.mod_small in Hk' by lia. lia.
  - assert (k + 1 = Z.of_nat (length F)) by lia. rewrite H, Z.mod_same in Hk' by lia. lia.
Qed.

Lemma dedges_ends F a b : In (a, b) (dedges F) -> In a F /\ In b F.
Proof. apply dedges_In. Qed.

Lemma map_snd_dedges x t : map snd (dedges (x :: t)) = t ++ [x].
Proof.
  unfold dedges. assert (H : forall (l1 l2 : list Z), length l1 = length l2 -> map snd (combine l1 l2) = l2).
  { induction l1 as [|a l1 IH]; intros [|b l2] L; cbn in *; try lia; auto. f_equal. apply IH. lia. }
  apply H. rewrite app_length. cbn. lia.
Qed.
Lemma map_fst_dedges F : map fst (dedges F) = F.
Proof.
  destruct F as [|x t]; [reflexivity|]. unfold dedges.
  assert (H : forall (l1 l2 : list Z), length l1 = length l2 -> map fst (combine l1 l2) = l1).
  { induction l1 as [|a l1 IH]; intros [|b l2] L; cbn in *; try lia; auto. f_equal. apply IH. lia. }
  apply H. rewrite app_length. cbn. lia.
Qed.

Section InPlace.
Context {P : Type} (O : pops P).
Notation raw := (raw P).

Lemma poly_vertex_range n fs e : oriented_poly n fs -> In e (dedges_all fs) -> vert_ok n (fst e) /\ vert_ok n (snd e).
Proof.
  intros [_ Hf] He. unfold dedges_all in He. apply in_flat_map in He as [F [HF Hd]]. destruct e as [a b].
  rewrite Forall_forall in Hf. destruct (Hf F HF) as [_ [_ Hv]]. rewrite Forall_forall in Hv.
  apply dedges_In in Hd as [Ha Hb]. cbn. auto.
Qed.

Theorem fan_oriented (r r' : raw) f :
  split_face_as_fan O r f = Ok r' -> oriented_poly (nV r) (rf r) -> oriented_poly (nV r') (rf r').
Proof.
  intros H Hor. pose proof H as H0. unfold split_face_as_fan in H.
  apply bind_Ok in H as [F [HF H]]. apply bind_Ok in H as [ps [_ H]].
  destruct (Zlen F =? 0) eqn:E0; [discriminate|]. destruct (Zlen F <? 2) eqn:E2; [discriminate|].
  inversion H; subst r'; clear H. unfold nV. cbn [rv rf]. rewrite Zlen_app. change (Zlen [fan_bary O ps (Zlen F)]) with 1.
  fold (nV r). set (V := Zlen (rv r)). assert (HV : nV r = V) by reflexivity.
  pose proof (getz_In _ _ _ HF) as HIn. destruct Hor as [Hnd Hf]. pose proof Hf as Hf0. rewrite Forall_forall in Hf.
  destruct (Hf F HIn) as [L [HnF HvF]]. rewrite Forall_forall in HvF.
  assert (Hloc := fan_local F V ltac:(lia)).
  split.
  - eapply Permutation_NoDup.
    { apply Permutation_sym.
      apply (rewrite_dedges (rf r) f F (fan_replace F V) (fan_faces F (Zlen F) V)
               (map (fun e => (snd e, V)) (dedges F) ++ map (fun e => (V, fst e)) (dedges F)) HF).
      exact Hloc. }
    apply NoDup_app_intro; [exact Hnd| |].
    + apply NoDup_app_intro.
      * rewrite <- (map_map snd (fun b => (b, V))). apply NoDup_map_intro; [|intros x y _ _ E; congruence].
        destruct F as [|x t]; [constructor|]. rewrite map_snd_dedges. apply (Permutation_NoDup (l := x :: t)); auto.
        apply Permutation_cons_append.
      * rewrite <- (map_map fst (fun a => (V, a))). apply NoDup_map_intro; [|intros x y _ _ E; congruence].
        now rewrite map_fst_dedges.
      * intros e He He'. apply in_map_iff in He as [[a b] [<- Hab]]. apply in_map_iff in He' as [[a' b'] [E Hab']].
        cbn [fst snd] in E. inversion E; subst. apply dedges_In in Hab as [_ Hb]. specialize (HvF _ Hb). unfold vert_ok in HvF. lia.
    + intros e He Hin. destruct (poly_vertex_range _ _ e (conj Hnd Hf0) He) as [Va Vb]. unfold vert_ok in *. rewrite HV in *.
      apply in_app_or in Hin as [Hin|Hin]; apply in_map_iff in Hin as [[a b] [<- _]]; cbn [fst snd] in *; lia.
  - assert (Hspec := fan_faces_spec F V ltac:(lia)).
    assert (Hnew : Forall (fun T => 3 <= Zlen T /\ NoDup T /\ Forall (vert_ok (V + 1)) T)
                          (fan_replace F V :: fan_faces F (Zlen F) V)).
    { rewrite Hspec. apply Forall_forall. intros T HT. apply in_map_iff in HT as [[a b] [<- Hab]]. cbn [fst snd].
      pose proof (dedges_distinct F a b ltac:(lia) HnF Hab) as Nab. apply dedges_In in Hab as [Ha Hb].
      pose proof (HvF _ Ha) as Va. pose proof (HvF _ Hb) as Vb. unfold vert_ok in *. rewrite HV in *.
      split; [unfold Zlen; cbn; lia|]. split.
      - repeat (apply NoDup_cons || apply NoDup_nil); cbn; intuition lia.
      - repeat (apply Forall_cons || apply Forall_nil); lia. }
    inversion Hnew as [|? ? HT0 HTs]; subst. apply Forall_updz_app; auto.
    eapply Forall_impl; [|exact Hf0]. intros G [LG [NG VG]]. split; auto. split; auto.
    eapply Forall_impl; [|exact VG]. intros v. apply vert_ok_mono. rewrite HV. lia.
Qed.

(* triangulate_face on a quad (A,B,C,D) whose cut B-D is not joined yet *)
Theorem quad_split_oriented (r r' : raw) f A B C D :
  getz (rf r) f = Ok [A; B; C; D] -> triangulate_face O r f = Ok r' ->
  ~ In (B, D) (dedges_all (rf r)) -> ~ In (D, B) (dedges_all (rf r)) ->
  oriented_poly (nV r) (rf r) -> oriented_poly (nV r') (rf r').
Proof.
  intros HF H N1 N2 Hor. unfold triangulate_face in H. rewrite HF in H. cbn [bind] in H.
  change (tf_branch (Zlen [A; B; C; D])) with 1 in H. cbn iota in H. inversion H; subst r'; clear H.
  unfold nV. cbn [rv rf]. fold (nV r).
  pose proof (getz_In _ _ _ HF) as HIn. destruct Hor as [Hnd Hf]. pose proof Hf as Hf0. rewrite Forall_forall in Hf.
  destruct (Hf _ HIn) as [L [HnF HvF]].
  inversion HnF as [|? ? NA HnF1]; subst. inversion HnF1 as [|? ? NB HnF2]; subst. inversion HnF2 as [|? ? NC HnF3]; subst.
  cbn in NA, NB, NC.
  inversion HvF as [|? ? VA Hv1]; subst. inversion Hv1 as [|? ? VB Hv2]; subst. inversion Hv2 as [|? ? VC Hv3]; subst.
  inversion Hv3 as [|? ? VD _]; subst.
  split.
  - eapply Permutation_NoDup.
    { apply Permutation_sym.
      apply (rewrite_dedges (rf r) f [A; B; C; D] (tf_quad_replace A B C D) (tf_quad_faces A B C D) [(B, D); (D, B)] HF).
      apply quad_local. }
    apply NoDup_app_intro; [exact Hnd| |].
    + repeat (apply NoDup_cons || apply NoDup_nil); cbn; [|tauto]. intros [E|[]]. inversion E. tauto.
    + intros e He [<-|[<-|[]]]; contradiction.
  - apply Forall_updz_app; auto.
    + unfold tf_quad_replace. split; [unfold Zlen; cbn; lia|]. split.
      * repeat (apply NoDup_cons || apply NoDup_nil); cbn; tauto.
      * repeat (apply Forall_cons || apply Forall_nil); auto.
    + unfold tf_quad_faces. apply Forall_cons; [|apply Forall_nil]. split; [unfold Zlen; cbn; lia|]. split.
      * repeat (apply NoDup_cons || apply NoDup_nil); cbn; tauto.
      * repeat (apply Forall_cons || apply Forall_nil); auto.
Qed.

End InPlace.
