(* C13 - orientation / manifoldness bookkeeping on directed edges (half-edges).
   Local: the directed edges of the pieces that replace a face are the directed edges of the face (or their two
   halves) plus interior directed edges that come in opposite pairs - proved on the GENERATED tuples.
   Global: the same for a whole refinement step of the model; closedness is preserved; for loop_subdivision the
   half-edge criterion of an oriented manifold (every directed edge at most once) is preserved. *)
From Coq Require Import ZArith List Bool Lia Permutation.
Require Import MV.Lib.Base MV.C13.Defs MV.C13.Gen MV.C13.Model MV.C13.Proofs_Base.
Import ListNotations.
Open Scope Z_scope.

Definition swap (e : edge) : edge := (snd e, fst e).
Lemma swap_swap e : swap (swap e) = e.
Proof. destruct e; reflexivity. Qed.

(* a face list is closed when its directed edges pair off with their opposites *)
Definition closed (L : list edge) : Prop := Permutation L (map swap L).

(* value of the midpoint table (0 when absent; absent keys make the operation fail before the value is used) *)
Definition hv (t : htab) (k : edge) : Z := match hfind t k with Some v => v | None => 0 end.
Lemma hget_hv t k v : hget t k = Ok v -> hv t k = v.
Proof. unfold hget, hv. destruct (hfind t k); intros H; inversion H; auto. Qed.

(* the two halves of a directed edge, through the midpoint m e *)
Definition hsplit (m : edge -> Z) (e : edge) : list edge := [(fst e, m e); (m e, snd e)].
(* interior directed edges of the refinement of a triangle: one per corner, joining the midpoints of its two sides *)
Definition inner (m : edge -> Z) (f : list Z) : list edge :=
  match f with
  | [A; B; C] => [(m (A, B), m (B, C)); (m (B, C), m (C, A)); (m (C, A), m (A, B))]
  | _ => []
  end.

Section Local.
(* ------------------------------------------------------------------ local lemmas on the generated tuples *)

(* triangulate_face, quad: the two triangles carry the quad's directed edges plus the diagonal both ways *)
Lemma quad_local A B C D :
  Permutation (dedges (tf_quad_replace A B C D) ++ dedges_all (tf_quad_faces A B C D))
              (dedges [A; B; C; D] ++ [(B, D); (D, B)]).
Proof. cbn. perm_explicit. Qed.

(* loop_subdivision: 4 triangles *)
Lemma loop_local A B C mAB mBC mCA :
  Permutation (dedges_all (loop_tris A B C mAB mBC mCA))
              ([(A, mAB); (mAB, B); (B, mBC); (mBC, C); (C, mCA); (mCA, A)]
               ++ [(mAB, mBC); (mBC, mCA); (mCA, mAB)] ++ [(mBC, mAB); (mCA, mBC); (mAB, mCA)]).
Proof. cbn. perm_explicit. Qed.

(* subdivide_triangles_3quads: 3 quads around the barycentre S *)
Lemma q3_local A B C mAB mBC mCA S :
  Permutation (dedges_all (q3_quads A B C mAB mBC mCA S))
              ([(A, mAB); (mAB, B); (B, mBC); (mBC, C); (C, mCA); (mCA, A)]
               ++ [(mAB, S); (mBC, S); (mCA, S)] ++ [(S, mAB); (S, mBC); (S, mCA)]).
Proof. cbn. perm_explicit. Qed.

(* split_tet_from_face_center: the three triangles that replace the split face carry its directed edges plus the
   three spokes to the centre, both ways (same orientation as the face) *)
Lemma fc_local A B C ic :
  Permutation (dedges (fc_replace A B C ic) ++ dedges_all (fc_faces A B C ic))
              (dedges [A; B; C] ++ [(A, ic); (B, ic); (C, ic)] ++ [(ic, A); (ic, B); (ic, C)]).
Proof. cbn. perm_explicit. Qed.

(* split_edge: the split edge (A,B) is replaced by (A,C) and (B,C) is appended *)
Lemma split_edge_local A B C : se_replace A B C :: se_append A B C = [keyify2 A C; keyify2 B C].
Proof. reflexivity. Qed.

(* the undirected edges the two operations record are exactly the undirected versions of those directed edges *)
Lemma loop_edges_cover A B C mAB mBC mCA e :
  In e (dedges_all (loop_tris A B C mAB mBC mCA)) -> In (keyE e) (map keyE (loop_edges A B C mAB mBC mCA)).
Proof.
  cbn. intros H. repeat (destruct H as [<-|H]; [rewrite ?(keyE_swap mCA A), ?(keyE_swap mAB B), ?(keyE_swap mBC C),
     ?(keyE_swap mAB mCA), ?(keyE_swap mBC mAB), ?(keyE_swap mCA mBC); tauto|]). contradiction.
Qed.

End Local.

(* ------------------------------------------------------------------ fan of a polygon around a new vertex *)
Lemma dedges_cons2 a b t : dedges (a :: b :: t) = (a, b) :: combine (b :: t) (t ++ [a]).
Proof. reflexivity. Qed.

(* directed edges as index pairs: dedges f = [(f[k], f[(k+1) mod n]) | k < n] *)
Lemma dedges_index f : dedges f = map (fun k => (znth f k 0, znth f ((k + 1) mod Zlen f) 0)) (zrange (Zlen f)).
Proof.
  destruct f as [|x t]; [reflexivity|].
  change (dedges (x :: t)) with (combine (x :: t) (t ++ [x])).
  apply nth_ext with (d := (0, 0)) (d' := (0, 0)).
  - rewrite combine_length. rewrite app_length. rewrite map_length. rewrite zrange_length. unfold Zlen. cbn [length]. lia.
  - intros n Hn. rewrite combine_length, app_length in Hn. cbn [length] in Hn.
    assert (Hn' : (n < S (length t))%nat) by lia.
    rewrite combine_nth by (rewrite app_length; cbn [length]; lia).
    set (g := fun k => (znth (x :: t) k 0, znth (x :: t) ((k + 1) mod Zlen (x :: t)) 0)).
    unfold zrange. rewrite map_map.
    rewrite (nth_indep _ (0, 0) (g (Z.of_nat 0))) by (rewrite map_length, seq_length; unfold Zlen; cbn [length]; lia).
    rewrite (map_nth (fun k => g (Z.of_nat k))). rewrite seq_nth by (unfold Zlen; cbn [length]; lia). cbn [plus].
    unfold g, znth. destruct (Z.of_nat n <? 0) eqn:E; [lia|]. rewrite Nat2Z.id. f_equal.
    unfold Zlen. cbn [length]. destruct (Nat.eq_dec (S n) (S (length t))) as [Heq|Hne].
    + replace ((Z.of_nat n + 1) mod Z.of_nat (S (length t))) with 0.
      2:{ replace (Z.of_nat n + 1) with (Z.of_nat (S (length t))) by lia. now rewrite Z.mod_same by lia. }
      cbn. injection Heq as Heq. subst n. rewrite app_nth2 by lia. now rewrite Nat.sub_diag.
    + rewrite Z.mod_small by lia. destruct ((Z.of_nat n + 1 <? 0)) eqn:E2; [lia|].
      replace (Z.to_nat (Z.of_nat n + 1)) with (S n) by lia. cbn [nth]. rewrite app_nth1 by lia. reflexivity.
Qed.

(* the fan: first triangle replaces the face, the others are appended *)
Lemma fan_faces_spec f iV :
  2 <= Zlen f ->
  fan_replace f iV :: fan_faces f (Zlen f) iV = map (fun e => [fst e; snd e; iV]) (dedges f).
Proof.
  intros L. rewrite dedges_index. unfold fan_faces, fan_lo, fan_hi.
  assert (Hz : zrange (Zlen f) = 0 :: zrange2 1 (Zlen f)).
  { apply nth_ext with (d := 0) (d' := 0).
    - cbn [length]. unfold zrange2. rewrite map_length, !zrange_length. lia.
    - intros n Hn. rewrite zrange_length in Hn. destruct n as [|n].
      + unfold zrange. destruct (Z.to_nat (Zlen f)) eqn:E; [lia|]. reflexivity.
      + cbn [nth]. unfold zrange2, zrange. rewrite map_map.
        rewrite (nth_indep _ 0 (Z.of_nat 0)) by (rewrite map_length, seq_length; lia).
        rewrite map_nth, seq_nth by lia.
        rewrite (nth_indep _ 0 ((fun x => 1 + Z.of_nat x) 0%nat)) by (rewrite map_length, seq_length; lia).
        rewrite (map_nth (fun x => 1 + Z.of_nat x)), seq_nth by lia. lia. }
  rewrite Hz. cbn [map]. f_equal.
  - unfold fan_replace. cbn [fst snd]. rewrite Z.mod_small by lia. reflexivity.
  - rewrite map_map. apply map_ext. intros k. reflexivity.
Qed.

Lemma flat_map_single {A B} (g : A -> B) l : flat_map (fun x => [g x]) l = map g l.
Proof. induction l as [|x t IH]; cbn; [reflexivity|]. now rewrite IH. Qed.

Lemma flat_map_3 {A B} (g1 g2 g3 : A -> B) l :
  Permutation (flat_map (fun x => [g1 x; g2 x; g3 x]) l) (map g1 l ++ map g2 l ++ map g3 l).
Proof.
  change (fun x => [g1 x; g2 x; g3 x]) with (fun x => [g1 x] ++ ([g2 x] ++ [g3 x])).
  eapply Permutation_trans; [apply Permutation_flat_map_app|]. rewrite flat_map_single. apply Permutation_app_head.
  eapply Permutation_trans; [apply Permutation_flat_map_app|]. now rewrite !flat_map_single.
Qed.

(* directed edges of the fan = those of the face, plus a spoke from every end point to iV and one back to every start point *)
Lemma fan_local f iV :
  2 <= Zlen f ->
  Permutation (dedges_all (fan_replace f iV :: fan_faces f (Zlen f) iV))
              (dedges f ++ map (fun e => (snd e, iV)) (dedges f) ++ map (fun e => (iV, fst e)) (dedges f)).
Proof.
  intros L. rewrite fan_faces_spec by assumption. unfold dedges_all. rewrite flat_map_concat_map, map_map, <- flat_map_concat_map.
  cbn [dedges combine app].
  eapply Permutation_trans; [apply (flat_map_3 (fun e => (fst e, snd e)) (fun e => (snd e, iV)) (fun e => (iV, fst e)))|].
  apply Permutation_app_tail. rewrite (map_ext _ (fun e => e)) by (intros [a b]; reflexivity). now rewrite map_id.
Qed.

(* ------------------------------------------------------------------ global: one refinement of loop_subdivision *)
Section LoopGlobal.
Context {P : Type} (O : pops P).

Definition mf (t : htab) (e : edge) : Z := hv t (keyE e).
Definition mid_of (r : raw P) : edge -> Z := mf (half_table loop_key (Zlen (rv r)) (re r)).

Lemma loop_face_perm t F p :
  loop_face t F = Ok p ->
  Permutation (dedges_all (fst p)) (flat_map (hsplit (mf t)) (dedges F) ++ inner (mf t) F ++ map swap (inner (mf t) F)).
Proof.
  unfold loop_face. destruct F as [|A [|B [|C [|? ?]]]]; try discriminate.
  unfold loop_keys. intros H.
  apply bind_Ok in H as [m1 [H1 H]]. apply bind_Ok in H as [m2 [H2 H]]. apply bind_Ok in H as [m3 [H3 H]].
  inversion H; subst p; clear H. cbn [fst].
  apply hget_hv in H1, H2, H3. set (m := mf t).
  assert (E1 : m (A, B) = m1) by exact H1. assert (E2 : m (B, C) = m2) by exact H2. assert (E3 : m (C, A) = m3) by exact H3.
  eapply Permutation_trans; [apply loop_local|].
  cbn [dedges combine app flat_map hsplit fst snd inner map swap]. rewrite E1, E2, E3. reflexivity.
Qed.

Lemma dedges_all_app a b : dedges_all (a ++ b) = dedges_all a ++ dedges_all b.
Proof. unfold dedges_all. apply flat_map_app. Qed.

Lemma flat_map_flat_map {A B C} (f : B -> list C) (g : A -> list B) l :
  flat_map f (flat_map g l) = flat_map (fun x => flat_map f (g x)) l.
Proof. induction l as [|x t IH]; cbn; [reflexivity|]. now rewrite flat_map_app, IH. Qed.

Lemma Forall2_flat_perm {A B C} (R : A -> B -> Prop) (f : B -> list C) (g : A -> list C) l l' :
  Forall2 R l l' -> (forall x y, R x y -> Permutation (f y) (g x)) -> Permutation (flat_map f l') (flat_map g l).
Proof. induction 1; cbn; intros H1; [constructor|]. apply Permutation_app; auto. Qed.

Lemma map_swap_flat_map {A} (g : A -> list edge) L : map swap (flat_map g L) = flat_map (fun e => map swap (g e)) L.
Proof. rewrite flat_map_concat_map, concat_map, map_map, <- flat_map_concat_map. reflexivity. Qed.

Theorem loop_step_dedges r r' :
  loop_step O r = Ok r' ->
  forall m, m = mid_of r ->
  Permutation (dedges_all (rf r'))
              (flat_map (hsplit m) (dedges_all (rf r)) ++ flat_map (inner m) (rf r) ++ map swap (flat_map (inner m) (rf r))).
Proof.
  unfold loop_step. intros H. apply bind_Ok in H as [ms [_ H]]. apply bind_Ok in H as [fe [Hfe H]].
  inversion H; subst r'; clear H. cbn [rf]. intros m ->.
  apply mapM_Forall2 in Hfe. set (m := mid_of r).
  eapply Permutation_trans.
  { unfold dedges_all. rewrite flat_map_flat_map.
    apply (Forall2_flat_perm _ _ (fun F => flat_map (hsplit m) (dedges F) ++ inner m F ++ map swap (inner m F)) _ _ Hfe).
    intros F p HF. apply (loop_face_perm _ _ _ HF). }
  eapply Permutation_trans; [apply Permutation_flat_map_app|].
  unfold dedges_all. rewrite flat_map_flat_map. apply Permutation_app_head.
  eapply Permutation_trans; [apply Permutation_flat_map_app|]. apply Permutation_app_head.
  rewrite map_swap_flat_map. reflexivity.
Qed.

(* closedness is preserved: the halves of opposite directed edges are opposite *)
Lemma hsplit_swap (m : edge -> Z) e : (forall e, m (swap e) = m e) -> Permutation (hsplit m (swap e)) (map swap (hsplit m e)).
Proof. intros Hm. unfold hsplit. rewrite Hm. destruct e as [a b]. cbn. apply perm_swap. Qed.

Lemma mid_of_sym r e : mid_of r (swap e) = mid_of r e.
Proof. unfold mid_of, mf. destruct e as [a b]. unfold swap. cbn [fst snd]. now rewrite keyE_swap. Qed.

Theorem loop_step_closed r r' :
  loop_step O r = Ok r' -> closed (dedges_all (rf r)) -> closed (dedges_all (rf r')).
Proof.
  intros H Hc. pose proof (loop_step_dedges _ _ H _ eq_refl) as Hp. unfold closed in *.
  set (m := mid_of r) in *. set (I := flat_map (inner m) (rf r)) in *. set (L := dedges_all (rf r)) in *.
  eapply Permutation_trans; [exact Hp|].
  eapply Permutation_trans; [|apply Permutation_map, Permutation_sym, Hp].
  rewrite !map_app, map_map. rewrite (map_ext (fun x => swap (swap x)) (fun x => x)) by apply swap_swap. rewrite map_id.
  apply Permutation_app.
  - rewrite map_swap_flat_map.
    eapply Permutation_trans; [apply (Permutation_flat_map (hsplit m)), Hc|].
    rewrite flat_map_concat_map, map_map, <- flat_map_concat_map.
    apply Permutation_flat_map_ext. intros e _. apply hsplit_swap. intros e'. apply mid_of_sym.
  - apply Permutation_app_comm.
Qed.

End LoopGlobal.

(* ------------------------------------------------------------------ global: subdivide_triangles_3quads *)
Section QuadsGlobal.
Context {P : Type} (O : pops P).

Definition q3_mid_of (r : raw P) : edge -> Z := mf (half_table q3_key (Zlen (rv r)) (re r)).

(* spokes from the three midpoints of a face to its barycentre S *)
Definition spokes (m : edge -> Z) (Fi : list Z * Z) : list edge :=
  match fst Fi with
  | [A; B; C] => [(m (A, B), snd Fi); (m (B, C), snd Fi); (m (C, A), snd Fi)]
  | _ => []
  end.

Lemma q3_face_perm t S F p :
  q3_face t S F = Ok p ->
  Permutation (dedges_all (fst p)) (flat_map (hsplit (mf t)) (dedges F) ++ spokes (mf t) (F, S) ++ map swap (spokes (mf t) (F, S))).
Proof.
  unfold q3_face. destruct F as [|A [|B [|C [|? ?]]]]; try discriminate.
  unfold q3_keys. intros H.
  apply bind_Ok in H as [m1 [H1 H]]. apply bind_Ok in H as [m2 [H2 H]]. apply bind_Ok in H as [m3 [H3 H]].
  inversion H; subst p; clear H. cbn [fst].
  apply hget_hv in H1, H2, H3. set (m := mf t).
  assert (E1 : m (A, B) = m1) by exact H1. assert (E2 : m (B, C) = m2) by exact H2. assert (E3 : m (C, A) = m3) by exact H3.
  eapply Permutation_trans; [apply q3_local|].
  cbn [dedges combine app flat_map hsplit fst snd spokes map swap]. rewrite E1, E2, E3. reflexivity.
Qed.

Lemma combine_map_r {A B C} (g : B -> C) (l : list A) (z : list B) :
  combine l (map g z) = map (fun ab => (fst ab, g (snd ab))) (combine l z).
Proof. revert z. induction l as [|x t IH]; intros [|y z]; cbn; auto. now rewrite IH. Qed.
Lemma Forall2_map_l {A B C} (R : B -> C -> Prop) (h : A -> B) l l' :
  Forall2 (fun x y => R (h x) y) l l' -> Forall2 R (map h l) l'.
Proof. induction 1; cbn; constructor; auto. Qed.
Lemma Forall2_impl {A B} (R R' : A -> B -> Prop) l l' :
  (forall x y, R x y -> R' x y) -> Forall2 R l l' -> Forall2 R' l l'.
Proof. intros H. induction 1; constructor; auto. Qed.

Definition bary_ids (r : raw P) : list (list Z * Z) :=
  combine (rf r) (map (fun i => Zlen (rv r) + Zlen (re r) + i) (zrange (Zlen (rf r)))).

Theorem q3_core_dedges r r' :
  q3_core O r = Ok r' ->
  forall m FS, m = q3_mid_of r -> FS = bary_ids r ->
  Permutation (dedges_all (rf r'))
              (flat_map (hsplit m) (dedges_all (rf r)) ++ flat_map (spokes m) FS ++ map swap (flat_map (spokes m) FS)).
Proof.
  unfold q3_core. intros H. apply bind_Ok in H as [ms [_ H]]. apply bind_Ok in H as [bs [_ H]].
  apply bind_Ok in H as [fe [Hfe H]]. inversion H; subst r'; clear H. cbn [rf]. intros m FS -> ->.
  set (m := q3_mid_of r). set (FS := bary_ids r). unfold bary_ids in FS.
  apply mapM_Forall2 in Hfe.
  assert (HFS : Forall2 (fun FS p => q3_face (half_table q3_key (Zlen (rv r)) (re r)) (snd FS) (fst FS) = Ok p) FS fe).
  { unfold FS. rewrite combine_map_r. apply Forall2_map_l. eapply Forall2_impl; [|exact Hfe].
    intros [F i] p Hp. exact Hp. }
  eapply Permutation_trans.
  { unfold dedges_all. rewrite flat_map_flat_map.
    apply (Forall2_flat_perm _ _ (fun FS => flat_map (hsplit m) (dedges (fst FS)) ++ spokes m FS ++ map swap (spokes m FS)) _ _ HFS).
    intros [F S] p HF. cbn [fst snd] in HF. apply (q3_face_perm _ _ _ _ HF). }
  eapply Permutation_trans; [apply Permutation_flat_map_app|].
  apply Permutation_app.
  - unfold dedges_all. rewrite flat_map_flat_map.
    assert (Hfst : map fst FS = rf r).
    { unfold FS. rewrite combine_map_r, map_map. cbn [fst].
      assert (L : length (rf r) = length (zrange (Zlen (rf r)))) by (rewrite zrange_length; unfold Zlen; lia).
      revert L. generalize (zrange (Zlen (rf r))). generalize (rf r).
      induction l as [|x t IH]; intros [|y z] L; cbn in *; try lia; auto. f_equal. apply IH. lia. }
    rewrite <- Hfst. rewrite (flat_map_concat_map _ (map fst FS)), map_map, <- flat_map_concat_map. reflexivity.
  - eapply Permutation_trans; [apply Permutation_flat_map_app|]. apply Permutation_app_head.
    rewrite map_swap_flat_map. reflexivity.
Qed.

Lemma q3_mid_of_sym r e : q3_mid_of r (swap e) = q3_mid_of r e.
Proof. unfold q3_mid_of, mf. destruct e as [a b]. unfold swap. cbn [fst snd]. now rewrite keyE_swap. Qed.

Theorem q3_core_closed r r' :
  q3_core O r = Ok r' -> closed (dedges_all (rf r)) -> closed (dedges_all (rf r')).
Proof.
  intros H Hc. pose proof (q3_core_dedges _ _ H _ _ eq_refl eq_refl) as Hp. unfold closed in *.
  set (m := q3_mid_of r) in *.
  set (I := flat_map (spokes m) _) in *. set (L := dedges_all (rf r)) in *.
  eapply Permutation_trans; [exact Hp|].
  eapply Permutation_trans; [|apply Permutation_map, Permutation_sym, Hp].
  rewrite !map_app, map_map. rewrite (map_ext (fun x => swap (swap x)) (fun x => x)) by apply swap_swap. rewrite map_id.
  apply Permutation_app.
  - rewrite map_swap_flat_map.
    eapply Permutation_trans; [apply (Permutation_flat_map (hsplit m)), Hc|].
    rewrite flat_map_concat_map, map_map, <- flat_map_concat_map.
    apply Permutation_flat_map_ext. intros e _. apply hsplit_swap. intros e'. apply q3_mid_of_sym.
  - apply Permutation_app_comm.
Qed.

End QuadsGlobal.
