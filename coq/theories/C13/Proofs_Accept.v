(* C13 - every editor operation succeeds on every well-formed surface whose edge list covers its faces, and
   re-establishes that invariant: hence every HISTORY of operations inside one editing block succeeds.
   (This is what the missing diagonal edge of triangulate_face and the empty edge list of 3quads used to break.) *)
From Coq Require Import ZArith List Bool Lia Permutation.
Require Import MV.Lib.Base MV.C13.Defs MV.C13.Gen MV.C13.Model MV.C13.Proofs_Base MV.C13.Proofs_Counts MV.C13.Proofs_Topo.
Import ListNotations.
Open Scope Z_scope.

Section Accept.
Context {P : Type} (O : pops P).
Notation raw := (raw P).

Definition vert_ok (n : Z) (v : Z) : Prop := 0 <= v < n.
Definition face_ok (n : Z) (F : list Z) : Prop := 3 <= Zlen F /\ Forall (vert_ok n) F.
Definition edge_ok (n : Z) (e : edge) : Prop := vert_ok n (fst e) /\ vert_ok n (snd e).
Definition covered (es : list edge) (F : list Z) : Prop := forall d, In d (dedges F) -> In (keyE d) (map keyE es).

(* well-formed raw surface data: what SurfaceMesh construction (prepare) establishes for a surface *)
Definition WF (r : raw) : Prop :=
  Forall (face_ok (nV r)) (rf r) /\ Forall (edge_ok (nV r)) (re r) /\ Forall (covered (re r)) (rf r).
Definition all_tri (r : raw) : Prop := Forall (fun F => Zlen F = 3) (rf r).

(* ------------------------------------------------------------------ small facts *)
Lemma vert_ok_mono n n' v : n <= n' -> vert_ok n v -> vert_ok n' v.
Proof. unfold vert_ok. lia. Qed.
Lemma face_ok_mono n n' F : n <= n' -> face_ok n F -> face_ok n' F.
Proof. intros H [L Hv]. split; auto. eapply Forall_impl; [|exact Hv]. intros v. now apply vert_ok_mono. Qed.
Lemma edge_ok_mono n n' e : n <= n' -> edge_ok n e -> edge_ok n' e.
Proof. intros H [A B]. split; eapply vert_ok_mono; eauto. Qed.
Lemma covered_mono es es' F : (forall k, In k (map keyE es) -> In k (map keyE es')) -> covered es F -> covered es' F.
Proof. intros H C d Hd. auto. Qed.
Lemma covered_app es ex F : covered es F -> covered (es ++ ex) F.
Proof. apply covered_mono. intros k Hk. rewrite map_app. apply in_or_app. auto. Qed.

Lemma keyify2_ok n a b : vert_ok n a -> vert_ok n b -> edge_ok n (keyify2 a b).
Proof. intros Ha Hb. destruct (keyify2_cases a b) as [-> | ->]; split; auto. Qed.
Lemma keyE_ok n e : edge_ok n e -> edge_ok n (keyE e).
Proof. intros [A B]. now apply keyify2_ok. Qed.

Lemma dedges_In f a b : In (a, b) (dedges f) -> In a f /\ In b f.
Proof.
  destruct f as [|x t]; [contradiction|]. unfold dedges. intros H. split.
  - eapply in_combine_l; eauto.
  - apply in_combine_r in H. apply in_app_or in H as [H|[E|[]]]; [right; auto|subst b; left; auto].
Qed.

Lemma znth_ok n f k : 0 < n -> Forall (vert_ok n) f -> vert_ok n (znth f k 0).
Proof.
  intros Hn Hf. unfold znth. destruct (k <? 0); [unfold vert_ok; lia|].
  destruct (nth_in_or_default (Z.to_nat k) f 0) as [H| ->]; [|unfold vert_ok; lia].
  rewrite Forall_forall in Hf. auto.
Qed.

Lemma getz_app_l {A} (l l' : list A) i x : getz l i = Ok x -> getz (l ++ l') i = Ok x.
Proof.
  intros H. pose proof (getz_Ok _ _ _ H) as [Hi Hn]. unfold getz. destruct (i <? 0) eqn:Ei0; [lia|].
  rewrite nth_error_app1 by (unfold Zlen in Hi; lia). now rewrite Hn.
Qed.

Lemma nth_error_upd_eq {A} (l : list A) i v : (i < length l)%nat -> nth_error (upd l i v) i = Some v.
Proof. revert i. induction l as [|h t IH]; intros [|i] H; cbn in *; try lia; auto. apply IH. lia. Qed.
Lemma nth_error_upd_neq {A} (l : list A) i j v : i <> j -> nth_error (upd l i v) j = nth_error l j.
Proof. revert i j. induction l as [|h t IH]; intros [|i] [|j] H; cbn; auto; try congruence. Qed.

(* what a face list looks like after an in-place rewrite of face k: faces[k] := T; faces += Ts *)
Lemma getz_rewrite (fs : list (list Z)) k T Ts i F :
  0 <= k < Zlen fs -> getz (updz fs k T ++ Ts) i = Ok F ->
  (i = k /\ F = T) \/ (i <> k /\ getz fs i = Ok F) \/ (Zlen fs <= i /\ In F Ts).
Proof.
  intros Hk H. pose proof (getz_Ok _ _ _ H) as [Hi Hn]. unfold updz in *.
  destruct (Z.eq_dec i k) as [->|Hne].
  - left. split; auto. rewrite nth_error_app1 in Hn by (rewrite upd_length; unfold Zlen in Hk; lia).
    rewrite nth_error_upd_eq in Hn by (unfold Zlen in Hk; lia). congruence.
  - right. destruct (Z_lt_le_dec i (Zlen fs)) as [Hlt|Hge].
    + left. split; auto. rewrite nth_error_app1 in Hn by (rewrite upd_length; unfold Zlen in Hlt; lia).
      rewrite nth_error_upd_neq in Hn by lia. unfold getz. destruct (i <? 0) eqn:Ei0; [lia|]. now rewrite Hn.
    + right. split; auto. rewrite nth_error_app2 in Hn by (rewrite upd_length; unfold Zlen in Hge; lia).
      eapply nth_error_In; eauto.
Qed.

Lemma Forall_updz_app {A} (Q : A -> Prop) (l : list A) k v ex :
  Forall Q l -> Q v -> Forall Q ex -> Forall Q (updz l k v ++ ex).
Proof.
  intros Hl Hv Hex. apply Forall_app. split; auto. rewrite Forall_forall in *. intros x Hx.
  apply In_updz in Hx as [->|Hx]; auto.
Qed.

(* ------------------------------------------------------------------ split_face_as_fan *)
Lemma pts_of_total (r : raw) f : Forall (vert_ok (nV r)) f -> exists ps, pts_of r f = Ok ps.
Proof.
  intros H. unfold pts_of. apply mapM_total. intros v Hv. rewrite Forall_forall in H. apply getz_total. apply H; auto.
Qed.

Definition tri_rewrite (r r' : raw) (k : Z) : Prop :=
  exists T Ts, rf r' = updz (rf r) k T ++ Ts /\ Zlen T = 3 /\ Forall (fun F => Zlen F = 3) Ts.

Lemma fan_accepts r f :
  WF r -> 0 <= f < nF r ->
  exists r', split_face_as_fan O r f = Ok r' /\ WF r' /\ tri_rewrite r r' f.
Proof.
  intros [Hf [He Hc]] Hr. unfold split_face_as_fan.
  destruct (getz_total (rf r) f Hr) as [F HF]. rewrite HF. cbn [bind].
  pose proof (getz_In _ _ _ HF) as HIn.
  rewrite Forall_forall in Hf. destruct (Hf F HIn) as [L HvF].
  destruct (pts_of_total r F HvF) as [ps Hps]. rewrite Hps. cbn [bind].
  destruct (Zlen F =? 0) eqn:E0; [lia|]. destruct (Zlen F <? 2) eqn:E2; [lia|].
  eexists. split; [reflexivity|].
  assert (Hspec := fan_faces_spec F (Zlen (rv r)) ltac:(lia)).
  assert (Hnew : Forall (fun T => exists a b, In (a, b) (dedges F) /\ T = [a; b; Zlen (rv r)])
                        (fan_replace F (Zlen (rv r)) :: fan_faces F (Zlen F) (Zlen (rv r)))).
  { rewrite Hspec. apply Forall_forall. intros T HT. apply in_map_iff in HT as [[a b] [<- HT]]. exists a, b. auto. }
  inversion Hnew as [|T0 Ts0 HT0 HTs]; subst T0 Ts0.
  set (V := Zlen (rv r)) in *.
  assert (HV : nV r = V) by reflexivity.
  assert (Hpos : 0 <= V) by apply Zlen_nonneg.
  assert (okT : forall T, (exists a b, In (a, b) (dedges F) /\ T = [a; b; V]) -> face_ok (V + 1) T /\ Zlen T = 3).
  { intros T [a [b [Hab ->]]]. apply dedges_In in Hab as [Ha Hb]. rewrite Forall_forall in HvF.
    split; [|reflexivity]. split; [unfold Zlen; cbn; lia|].
    apply Forall_cons; [|apply Forall_cons; [|apply Forall_cons; [|apply Forall_nil]]].
    - eapply vert_ok_mono; [|apply HvF; eassumption]. rewrite HV. lia.
    - eapply vert_ok_mono; [|apply HvF; eassumption]. rewrite HV. lia.
    - unfold vert_ok. lia. }
  split; [|exists (fan_replace F V), (fan_faces F (Zlen F) V); split; [reflexivity|split]].
  - unfold WF, nV. cbn [rv re rf]. rewrite Zlen_app. change (Zlen [fan_bary O ps (Zlen F)]) with 1. fold V.
    split; [|split].
    + apply Forall_updz_app.
      * apply Forall_forall. intros G HG. eapply face_ok_mono; [|apply Hf; auto]. rewrite HV. lia.
      * apply okT, HT0.
      * eapply Forall_impl; [|exact HTs]. intros T HT. apply okT, HT.
    + apply Forall_app. split.
      * eapply Forall_impl; [|exact He]. intros e. apply edge_ok_mono. rewrite HV. lia.
      * apply Forall_forall. intros e Hin. apply in_map_iff in Hin as [v [<- Hv]]. unfold fan_edge.
        rewrite Forall_forall in HvF. apply keyify2_ok; [eapply vert_ok_mono; [|apply HvF; auto]; rewrite HV; lia|unfold vert_ok; lia].
    + assert (covT : forall T, (exists a b, In (a, b) (dedges F) /\ T = [a; b; V]) ->
                     covered (re r ++ map (fun v => fan_edge v V) F) T).
      { intros T [a [b [Hab ->]]] d Hd. rewrite map_app. apply in_or_app.
        rewrite Forall_forall in Hc. cbn in Hd. destruct Hd as [ <- | [ <- | [ <- | [] ] ] ].
        - left. apply (Hc F HIn). exact Hab.
        - right. apply dedges_In in Hab as [_ Hb]. rewrite map_map. apply in_map_iff. exists b. split; auto.
          unfold fan_edge. now rewrite keyE_keyify2.
        - right. apply dedges_In in Hab as [Ha _]. rewrite map_map. apply in_map_iff. exists a. split; auto.
          unfold fan_edge. rewrite keyE_keyify2, keyE_pair. apply keyify2_comm. }
      apply Forall_updz_app.
      * eapply Forall_impl; [|exact Hc]. intros G. apply covered_app.
      * apply covT, HT0.
      * eapply Forall_impl; [|exact HTs]. intros T HT. apply covT, HT.
  - apply okT, HT0.
  - eapply Forall_impl; [|exact HTs]. intros T HT. apply okT, HT.
Qed.

(* ------------------------------------------------------------------ triangulate_face *)
Lemma triangulate_face_accepts r f :
  WF r -> 0 <= f < nF r ->
  exists r', triangulate_face O r f = Ok r' /\ WF r' /\
             ((exists F, getz (rf r) f = Ok F /\ Zlen F = 3 /\ r' = r) \/ tri_rewrite r r' f).
Proof.
  intros HWF Hr. pose proof HWF as [Hf [He Hc]]. unfold triangulate_face.
  destruct (getz_total (rf r) f Hr) as [F HF]. rewrite HF. cbn [bind].
  pose proof (getz_In _ _ _ HF) as HIn.
  rewrite Forall_forall in Hf. destruct (Hf F HIn) as [L HvF].
  unfold tf_branch. destruct (Zlen F <? 4) eqn:E4.
  - exists r. split; auto. split; auto. left. exists F. repeat split; auto. lia.
  - destruct (Zlen F =? 4) eqn:E44.
    + apply Z.eqb_eq in E44. destruct F as [|A [|B [|C [|D [|? ?]]]]]; try (unfold Zlen in E44; cbn [length] in E44; lia).
      eexists. split; [reflexivity|].
      inversion HvF as [|? ? HA H1]; subst. inversion H1 as [|? ? HB H2]; subst.
      inversion H2 as [|? ? HC H3]; subst. inversion H3 as [|? ? HD _]; subst.
      rewrite Forall_forall in Hc. pose proof (Hc _ HIn) as HcF.
      split.
      * unfold WF, nV. cbn [rv re rf]. fold (nV r). split; [|split].
        -- apply Forall_updz_app; [apply Forall_forall; auto| |].
           ++ split; [unfold Zlen; cbn; lia|repeat (apply Forall_cons || apply Forall_nil); auto].
           ++ apply Forall_cons; [|apply Forall_nil]. split; [unfold Zlen; cbn; lia|repeat (apply Forall_cons || apply Forall_nil); auto].
        -- apply Forall_app. split; auto. apply Forall_cons; [|apply Forall_nil]. apply keyify2_ok; auto.
        -- apply Forall_updz_app.
           ++ apply Forall_forall. intros G HG. apply covered_app. auto.
           ++ intros d Hd. rewrite map_app. apply in_or_app. cbn in Hd. destruct Hd as [ <- | [ <- | [ <- | [] ] ] ].
              ** left. apply HcF. cbn. auto.
              ** right. cbn. left. now rewrite keyE_keyify2.
              ** left. apply HcF. cbn. auto.
           ++ apply Forall_cons; [|apply Forall_nil]. intros d Hd. rewrite map_app. apply in_or_app. cbn in Hd. destruct Hd as [ <- | [ <- | [ <- | [] ] ] ].
              ** left. apply HcF. cbn. auto.
              ** left. apply HcF. cbn. auto.
              ** right. cbn. left. rewrite keyE_keyify2, keyE_pair. apply keyify2_comm.
      * right. exists (tf_quad_replace A B C D), (tf_quad_faces A B C D). split; [reflexivity|]. split; [reflexivity|]. apply Forall_cons; [reflexivity|apply Forall_nil].
    + destruct (fan_accepts r f HWF Hr) as [r' [H1 [H2 H3]]]. exists r'. auto.
Qed.

(* ------------------------------------------------------------------ triangulate: all faces become triangles *)
Definition tri_step (r : raw) (f : Z) : res raw :=
  F <- getz (rf r) f ;; if tri_needs (Zlen F) then triangulate_face O r f else Ok r.

(* faces at positions < k or >= n0 are triangles *)
Definition tri_inv (n0 k : Z) (r : raw) : Prop :=
  WF r /\ n0 <= nF r /\ forall i F, getz (rf r) i = Ok F -> i < k \/ n0 <= i -> Zlen F = 3.

Lemma tri_step_inv n0 k r :
  0 <= k < n0 -> tri_inv n0 k r -> exists r', tri_step r k = Ok r' /\ tri_inv n0 (k + 1) r'.
Proof.
  intros Hk [HWF [Hn Htri]]. unfold tri_step.
  assert (Hr : 0 <= k < nF r) by lia.
  destruct (getz_total (rf r) k Hr) as [F HF]. rewrite HF. cbn [bind].
  unfold tri_needs. destruct (Zlen F =? 3) eqn:E3; cbn [negb].
  - exists r. split; auto. split; auto. split; auto. intros i G HG Hi.
    destruct (Z.eq_dec i k) as [->|Hne]; [rewrite HF in HG; inversion HG; subst; lia|]. apply (Htri i G HG). lia.
  - destruct (triangulate_face_accepts r k HWF Hr) as [r' [H1 [H2 H3]]]. exists r'. split; auto.
    destruct H3 as [[F' [HF' [L3 ->]]]|[T [Ts [Hrf [LT LTs]]]]].
    + rewrite HF in HF'. inversion HF'; subst. lia.
    + split; auto. unfold nF in *. rewrite Hrf, Zlen_app, Zlen_updz. split; [pose proof (Zlen_nonneg Ts); lia|].
      intros i G HG Hi. apply getz_rewrite in HG; [|exact Hr].
      destruct HG as [[-> ->]|[[Hne HG]|[Hge HG]]]; auto.
      * apply (Htri i G HG). lia.
      * rewrite Forall_forall in LTs. auto.
Qed.

Lemma tri_fold_inv n0 (d : nat) k r :
  0 <= k -> k + Z.of_nat d = n0 -> tri_inv n0 k r ->
  exists r', foldM tri_step (map Z.of_nat (seq (Z.to_nat k) d)) r = Ok r' /\ tri_inv n0 n0 r'.
Proof.
  revert k r. induction d as [|d IH]; intros k r Hk Hd Hinv.
  - cbn. exists r. split; auto. replace n0 with k at 2 by lia. exact Hinv.
  - cbn [seq map foldM]. rewrite Z2Nat.id by lia.
    destruct (tri_step_inv n0 k r ltac:(lia) Hinv) as [r1 [H1 Hinv1]]. rewrite H1. cbn [bind].
    replace (S (Z.to_nat k)) with (Z.to_nat (k + 1)) by lia. apply IH; auto; lia.
Qed.

Theorem triangulate_accepts r :
  WF r -> exists r', triangulate O r = Ok r' /\ WF r' /\ all_tri r'.
Proof.
  intros HWF. unfold triangulate. fold tri_step.
  destruct (tri_fold_inv (nF r) (Z.to_nat (nF r)) 0 r) as [r' [H1 [H2 [_ H3]]]].
  - lia.
  - pose proof (Zlen_nonneg (rf r)). unfold nF. lia.
  - split; auto. split; [lia|]. intros i F HG Hi. apply getz_Ok in HG as [HG _]. unfold nF in *. lia.
  - exists r'. split; [exact H1|]. split; auto. unfold all_tri. apply Forall_forall. intros F HF.
    apply In_nth_error in HF as [n Hn]. apply (H3 (Z.of_nat n) F).
    + now apply getz_of_nat.
    + lia.
Qed.

End Accept.
