(* C13 - element counts of every operation (documented deltas), stated on the model's containers. *)
From Coq Require Import ZArith List Bool Lia.
Require Import MV.Lib.Base MV.C13.Defs MV.C13.Gen MV.C13.Model MV.C13.Proofs_Base.
Import ListNotations.
Open Scope Z_scope.

Section Counts.
Context {P : Type} (O : pops P).

Definition nV (r : raw P) := Zlen (rv r).
Definition nE (r : raw P) := Zlen (re r).
Definition nF (r : raw P) := Zlen (rf r).
Definition nC (r : raw P) := Zlen (rc r).

(* ------------------------------------------------------------------ split_edge: +1 vertex, +1 edge *)
Lemma split_edge_counts r e r' :
  split_edge O r e = Ok r' -> nV r' = nV r + 1 /\ nE r' = nE r + 1.
Proof.
  unfold split_edge. intros H. apply bind_Ok in H as [[A B] [_ H]].
  apply bind_Ok in H as [pA [_ H]]. apply bind_Ok in H as [pB [_ H]]. inversion H; subst; clear H.
  unfold nV, nE. cbn [rv re]. rewrite !Zlen_app, Zlen_updz. split; reflexivity.
Qed.

(* ------------------------------------------------------------------ fan of an n-gon: +1, +n, +(n-1) *)
Lemma zrange2_length a b : a <= b -> Zlen (zrange2 a b) = b - a.
Proof. intros H. unfold zrange2. rewrite Zlen_map, Zlen_zrange; lia. Qed.

Lemma fan_counts r f r' F :
  getz (rf r) f = Ok F -> split_face_as_fan O r f = Ok r' ->
  nV r' = nV r + 1 /\ nE r' = nE r + Zlen F /\ nF r' = nF r + (Zlen F - 1).
Proof.
  unfold split_face_as_fan. intros HF H. rewrite HF in H. cbn [bind] in H.
  apply bind_Ok in H as [ps [_ H]].
  destruct (Zlen F =? 0) eqn:E0; [discriminate|]. destruct (Zlen F <? 2) eqn:E2; [discriminate|].
  inversion H; subst; clear H. unfold nV, nE, nF. cbn [rv re rf].
  rewrite !Zlen_app, Zlen_updz, Zlen_map. unfold fan_faces. rewrite Zlen_map, zrange2_length.
  - unfold fan_lo, fan_hi. repeat split; try reflexivity.
  - unfold fan_lo, fan_hi. lia.
Qed.

(* ------------------------------------------------------------------ triangulate_face *)
Lemma triangulate_face_counts r f r' F :
  getz (rf r) f = Ok F -> triangulate_face O r f = Ok r' ->
  (Zlen F < 4 -> r' = r) /\
  (Zlen F = 4 -> nV r' = nV r /\ nE r' = nE r + 1 /\ nF r' = nF r + 1) /\
  (4 < Zlen F -> nV r' = nV r + 1 /\ nE r' = nE r + Zlen F /\ nF r' = nF r + (Zlen F - 1)).
Proof.
  unfold triangulate_face. intros HF H. rewrite HF in H. cbn [bind] in H. unfold tf_branch in H.
  destruct (Zlen F <? 4) eqn:E4.
  - inversion H; subst. repeat split; intros; try lia; reflexivity.
  - destruct (Zlen F =? 4) eqn:E44.
    + destruct F as [|A [|B [|C [|D [|? ?]]]]]; try discriminate. inversion H; subst; clear H.
      repeat split; intros; try lia; unfold nV, nE, nF; cbn [rv re rf];
        rewrite ?Zlen_app, ?Zlen_updz; reflexivity.
    + repeat split; intros; try lia; eapply fan_counts in H; eauto; intuition.
Qed.

(* ------------------------------------------------------------------ loop_subdivision, one refinement: V+E vertices, 4F faces *)
Lemma edge_mids_length mid r ms : edge_mids mid r = Ok ms -> Zlen ms = nE r.
Proof. unfold edge_mids. intros H. apply mapM_Zlen in H. exact H. Qed.

Lemma flat_map_const_length {A B} (f : A -> list B) l k :
  (forall x, In x l -> length (f x) = k) -> length (flat_map f l) = (k * length l)%nat.
Proof.
  induction l as [|x t IH]; cbn; intros H; [lia|].
  rewrite app_length, H, IH by auto. lia.
Qed.

Lemma loop_face_shape t F p : loop_face t F = Ok p -> length (fst p) = 4%nat.
Proof.
  unfold loop_face. destruct F as [|A [|B [|C [|? ?]]]]; try discriminate.
  destruct (loop_keys A B C) as [[k1 k2] k3]. intros H.
  apply bind_Ok in H as [m1 [_ H]]. apply bind_Ok in H as [m2 [_ H]]. apply bind_Ok in H as [m3 [_ H]].
  inversion H; subst. reflexivity.
Qed.

Lemma loop_step_counts r r' :
  loop_step O r = Ok r' -> nV r' = nV r + nE r /\ nF r' = 4 * nF r.
Proof.
  unfold loop_step. intros H. apply bind_Ok in H as [ms [Hms H]]. apply bind_Ok in H as [fe [Hfe H]].
  inversion H; subst; clear H. unfold nV, nF. cbn [rv rf]. rewrite Zlen_app, (edge_mids_length _ _ _ Hms). split; [reflexivity|].
  unfold Zlen. rewrite (flat_map_const_length fst fe 4).
  - rewrite (mapM_length _ _ _ Hfe). lia.
  - intros p Hp. apply mapM_Forall2 in Hfe.
    assert (exists F, loop_face (half_table loop_key (Zlen (rv r)) (re r)) F = Ok p) as [F HF].
    { clear -Hfe Hp. induction Hfe; [contradiction|]. destruct Hp as [<-|Hp]; eauto. }
    eapply loop_face_shape; eauto.
Qed.

(* ------------------------------------------------------------------ subdivide_triangles_3quads (after its triangulation):
   V+E+F vertices, 2E+3F edges, 3F faces *)
Lemma q3_face_shape t S F p : q3_face t S F = Ok p -> length (fst p) = 3%nat /\ length (snd p) = 3%nat.
Proof.
  unfold q3_face. destruct F as [|A [|B [|C [|? ?]]]]; try discriminate.
  destruct (q3_keys A B C) as [[k1 k2] k3]. intros H.
  apply bind_Ok in H as [m1 [_ H]]. apply bind_Ok in H as [m2 [_ H]]. apply bind_Ok in H as [m3 [_ H]].
  inversion H; subst. split; reflexivity.
Qed.

Lemma Forall2_In_r {A B} (R : A -> B -> Prop) l l' y : Forall2 R l l' -> In y l' -> exists x, In x l /\ R x y.
Proof. induction 1; cbn; [contradiction|]. intros [<-|H1]; [eauto|]. destruct (IHForall2 H1) as [x' [? ?]]; eauto. Qed.

Lemma q3_core_counts r r' :
  q3_core O r = Ok r' ->
  nV r' = nV r + nE r + nF r /\ nE r' = 2 * nE r + 3 * nF r /\ nF r' = 3 * nF r.
Proof.
  unfold q3_core. intros H. apply bind_Ok in H as [ms [Hms H]]. apply bind_Ok in H as [bs [Hbs H]].
  apply bind_Ok in H as [fe [Hfe H]]. inversion H; subst; clear H. unfold nV, nE, nF. cbn [rv re rf].
  assert (Lfe : length fe = length (rf r)).
  { rewrite (mapM_length _ _ _ Hfe), combine_length, zrange_length. unfold Zlen. lia. }
  assert (Sh : forall p, In p fe -> length (fst p) = 3%nat /\ length (snd p) = 3%nat).
  { intros p Hp. apply mapM_Forall2 in Hfe. destruct (Forall2_In_r _ _ _ _ Hfe Hp) as [x [_ Hx]]. eapply q3_face_shape; eauto. }
  repeat split.
  - rewrite !Zlen_app, (edge_mids_length _ _ _ Hms), (mapM_Zlen _ _ _ Hbs). unfold nE. lia.
  - rewrite Zlen_app. unfold Zlen. rewrite (flat_map_const_length _ _ 2), (flat_map_const_length snd fe 3).
    + rewrite combine_length, zrange_length, Lfe. lia.
    + intros p Hp. apply Sh; auto.
    + intros [[a b] i] _. reflexivity.
  - unfold Zlen. rewrite (flat_map_const_length fst fe 3), Lfe; [lia|]. intros p Hp. apply Sh; auto.
Qed.

(* ------------------------------------------------------------------ tetrahedra *)
Lemma cell_fan_counts r c r' cell :
  getz (rc r) c = Ok cell -> Zlen cell = 4 -> split_cell_as_fan O r c = Ok r' ->
  nV r' = nV r + 1 /\ nC r' = nC r + 3 /\ rf r' = rf r /\ re r' = re r.
Proof.
  unfold split_cell_as_fan. intros Hc L H. rewrite Hc in H. cbn [bind] in H.
  unfold cf_skip in H. rewrite L in H. cbn in H.
  destruct cell as [|A [|B [|C [|D [|? ?]]]]]; try discriminate.
  apply bind_Ok in H as [pA [_ H]]. apply bind_Ok in H as [pB [_ H]].
  apply bind_Ok in H as [pC [_ H]]. apply bind_Ok in H as [pD [_ H]]. inversion H; subst; clear H.
  unfold nV, nC. cbn [rv rc rf re]. rewrite !Zlen_app, Zlen_updz. repeat split; reflexivity.
Qed.

Lemma fc_cell_length f ic cells c cells' : fc_cell f ic cells c = Ok cells' -> Zlen cells' = Zlen cells + 2.
Proof.
  unfold fc_cell. intros H. apply bind_Ok in H as [cell [_ H]]. apply bind_Ok in H as [nc [_ H]].
  apply bind_Ok in H as [k [_ H]]. apply bind_Ok in H as [app [Happ H]]. inversion H; subst; clear H.
  rewrite Zlen_app, Zlen_updz, (mapM_Zlen _ _ _ Happ). reflexivity.
Qed.

Lemma foldM_fc_length f ic adj cells cells' :
  foldM (fc_cell f ic) adj cells = Ok cells' -> Zlen cells' = Zlen cells + 2 * Zlen adj.
Proof.
  revert cells. induction adj as [|c t IH]; cbn [foldM]; intros cells H.
  - inversion H; subst. unfold Zlen. cbn [length]. lia.
  - apply bind_Ok in H as [c1 [H1 H]]. apply fc_cell_length in H1. apply IH in H. rewrite Zlen_cons. lia.
Qed.

Definition adjacent_cells (r : raw P) (f : list Z) : list Z :=
  filter (fun c => match getz (rc r) c with Ok cell => fc_adjacent f cell | Err _ => false end) (zrange (Zlen (rc r))).

Lemma face_centre_counts r fid r' f :
  getz (rf r) fid = Ok f -> Zlen f = 3 -> split_tet_from_face_center O r fid = Ok r' ->
  nV r' = nV r + 1 /\ nF r' = nF r + 2 /\ nC r' = nC r + 2 * Zlen (adjacent_cells r f) /\ re r' = re r.
Proof.
  unfold split_tet_from_face_center. intros Hf L H. rewrite Hf in H. cbn [bind] in H.
  unfold fc_skip in H. rewrite L in H. cbn in H.
  destruct f as [|A [|B [|C [|? ?]]]]; try discriminate.
  apply bind_Ok in H as [ps [_ H]]. apply bind_Ok in H as [cells [Hc H]]. inversion H; subst; clear H.
  unfold nV, nF, nC. cbn [rv rf rc re]. rewrite !Zlen_app, Zlen_updz.
  apply foldM_fc_length in Hc. repeat split; try reflexivity. exact Hc.
Qed.

End Counts.
