(* C13 - border and connected components.
   Border: a directed edge is a border edge when its opposite is absent.  For the two refinements the border edges
   of the refined surface are exactly the two halves of the border edges of the surface (so a border cycle of k edges
   becomes the cycle of its 2k halves, in the same order); for the in-place rewrites (fan, quad split) the border
   edges are unchanged.
   Components: two old vertices are joined by an edge path afterwards iff they were before, and every new vertex is
   joined to an old one - so the components are in bijection. *)
From Coq Require Import ZArith List Bool Lia Permutation.
Require Import MV.Lib.Base MV.C13.Defs MV.C13.Gen MV.C13.Model MV.C13.Proofs_Base MV.C13.Proofs_Counts MV.C13.Proofs_Topo
               MV.C13.Proofs_Accept MV.C13.Proofs_Accept2 MV.C13.Proofs_Manifold MV.C13.Proofs_Manifold2.
Import ListNotations.
Open Scope Z_scope.

Definition is_border (L : list edge) (x : edge) : Prop := In x L /\ ~ In (swap x) L.

(* ------------------------------------------------------------------ edge-path connectivity *)
Inductive conn (L : list edge) : Z -> Z -> Prop :=
| conn_refl a : conn L a a
| conn_step a b c : In (a, b) L \/ In (b, a) L -> conn L b c -> conn L a c.

Lemma conn_trans L a b c : conn L a b -> conn L b c -> conn L a c.
Proof. induction 1; auto. intros H1. eapply conn_step; eauto. Qed.
Lemma conn_edge L a b : In (a, b) L \/ In (b, a) L -> conn L a b.
Proof. intros H. eapply conn_step; [exact H|apply conn_refl]. Qed.
Lemma conn_sym L a b : conn L a b -> conn L b a.
Proof. induction 1; [apply conn_refl|]. eapply conn_trans; [exact IHconn|]. apply conn_edge. tauto. Qed.
Lemma conn_incl L L' a b : (forall x, In x L -> In x L') -> conn L a b -> conn L' a b.
Proof. intros H. induction 1; [apply conn_refl|]. eapply conn_step; [|exact IHconn]. destruct H0; auto. Qed.

(* components of D and N correspond: pi sends every vertex of N to an old vertex of its component *)
Lemma components_transfer (D N : list edge) (pi : Z -> Z) (old : Z -> Prop) :
  (forall a b, In (a, b) D -> conn N a b) ->
  (forall x y, In (x, y) N -> conn D (pi x) (pi y)) ->
  (forall a, old a -> pi a = a) ->
  forall a b, old a -> old b -> (conn D a b <-> conn N a b).
Proof.
  intros H1 H2 H3 a b Ha Hb. split.
  - clear Ha Hb. induction 1; [apply conn_refl|]. eapply conn_trans; [|exact IHconn].
    destruct H as [H|H]; [apply H1; auto|apply conn_sym, H1; auto].
  - intros H. assert (G : conn D (pi a) (pi b)).
    { clear Ha Hb. induction H; [apply conn_refl|]. eapply conn_trans; [|exact IHconn].
      destruct H as [H|H]; [apply H2; auto|apply conn_sym, H2; auto]. }
    now rewrite (H3 a Ha), (H3 b Hb) in G.
Qed.

(* the vertices of one face are joined along its sides *)
Lemma face_conn F u v : In u F -> In v F -> conn (dedges F) u v.
Proof.
  assert (H : forall k, (k < length F)%nat -> conn (dedges F) (nth 0 F 0) (nth k F 0)).
  { induction k as [|k IH]; intros Hk; [apply conn_refl|]. eapply conn_trans; [apply IH; lia|]. apply conn_edge. left.
    rewrite dedges_index. apply in_map_iff. exists (Z.of_nat k). split; [|apply In_zrange; unfold Zlen; lia].
    unfold znth. destruct (Z.of_nat k <? 0) eqn:E; [lia|]. rewrite Nat2Z.id. f_equal.
    rewrite Z.mod_small by (unfold Zlen; lia). destruct (Z.of_nat k + 1 <? 0) eqn:E2; [lia|].
    f_equal. lia. }
  intros Hu Hv. apply (In_nth _ _ 0) in Hu as [i [Hi <-]]. apply (In_nth _ _ 0) in Hv as [j [Hj <-]].
  eapply conn_trans; [apply conn_sym, H; auto|apply H; auto].
Qed.

Lemma face_conn_all fs F u v : In F fs -> In u F -> In v F -> conn (dedges_all fs) u v.
Proof.
  intros HF Hu Hv. eapply conn_incl; [|apply (face_conn F u v Hu Hv)].
  intros x Hx. unfold dedges_all. apply in_flat_map. eauto.
Qed.

(* ------------------------------------------------------------------ refinements: N = halves ++ J ++ swap J *)
Section Refined.
Context {P : Type}.
Variable r : raw P.
Variable m : edge -> Z.
Hypothesis Hm : mids_ok r m.
Hypothesis Hor : oriented_tri (nV r) (rf r).
Variables (N J : list edge).
Hypothesis Hperm : Permutation N (flat_map (hsplit m) (dedges_all (rf r)) ++ J ++ map swap J).
Hypothesis HJ : forall x, In x J -> nV r <= fst x /\ nV r <= snd x.

Let D := dedges_all (rf r).
Let S := flat_map (hsplit m) D.

Lemma N_cases x : In x N <-> In x S \/ In x J \/ In x (map swap J).
Proof.
  split.
  - intros H. apply (Permutation_in _ Hperm) in H. apply in_app_or in H as [H|H]; auto. apply in_app_or in H. tauto.
  - intros H. apply (Permutation_in _ (Permutation_sym Hperm)). apply in_or_app. destruct H as [H|[H|H]]; auto; right; apply in_or_app; auto.
Qed.

Lemma half_swap_in a b : In (a, b) D -> In (b, a) D -> forall x, In x (hsplit m (a, b)) -> In (swap x) S.
Proof.
  intros _ Hba x Hx. apply in_flat_map. exists (b, a). split; auto.
  assert (E : m (b, a) = m (a, b)) by (apply (m_sym r m Hm (a, b))).
  unfold hsplit in *. cbn [fst snd] in *. rewrite E. destruct Hx as [<-|[<-|[]]]; cbn; auto.
Qed.

Theorem border_refined x : is_border N x <-> exists e, is_border D e /\ In x (hsplit m e).
Proof.
  split.
  - intros [Hx Hn]. apply N_cases in Hx as [Hx|[Hx|Hx]].
    + apply in_flat_map in Hx as [[a b] [He Hx]]. exists (a, b). split; auto. split; auto.
      intros Hs. apply Hn. apply N_cases. left. apply (half_swap_in a b He Hs x Hx).
    + exfalso. apply Hn. apply N_cases. right. right. now apply in_map.
    + exfalso. apply Hn. apply N_cases. right. left. apply in_map_iff in Hx as [j [<- Hj]]. now rewrite swap_swap.
  - intros [[a b] [[He Hne] Hx]]. split; [apply N_cases; left; apply in_flat_map; eauto|].
    destruct (D_edge r Hor a b He) as [Nab [Va Vb]]. pose proof (m_range r m Hm _ He) as Rm. unfold vert_ok in *.
    intros Hs. apply N_cases in Hs as [Hs|[Hs|Hs]].
    + apply in_flat_map in Hs as [[a' b'] [He' Hs]]. destruct (D_edge r Hor a' b' He') as [Nab' [Va' Vb']].
      pose proof (m_range r m Hm _ He') as Rm'. unfold vert_ok in *. apply Hne.
      assert (K : m (a, b) = m (a', b') -> (a = a' /\ b = b') \/ (a = b' /\ b = a')).
      { intros E. pose proof (m_inj r m Hm _ _ He He' E) as K. rewrite !keyE_pair in K. now apply keyify2_eq in K. }
      unfold hsplit in Hx, Hs. cbn [fst snd] in Hx, Hs. unfold swap in *.
      destruct Hx as [<-|[<-|[]]]; cbn [fst snd] in Hs; destruct Hs as [E|[E|[]]]; inversion E; subst; try lia.
      * destruct (K (eq_sym H0)) as [[? ?]|[? ?]]; subst; [congruence|exact He'].
      * destruct (K (eq_sym H1)) as [[? ?]|[? ?]]; subst; [congruence|exact He'].
    + destruct (HJ _ Hs) as [H1 H2]. unfold hsplit, swap in *. cbn [fst snd] in *. destruct Hx as [<-|[<-|[]]]; cbn [fst snd] in *; lia.
    + apply in_map_iff in Hs as [j [Ej Hj]]. destruct (HJ _ Hj) as [H1 H2]. destruct j as [p q].
      unfold hsplit, swap in *. cbn [fst snd] in *. destruct Hx as [<-|[<-|[]]]; inversion Ej; subst; lia.
Qed.

End Refined.

(* ------------------------------------------------------------------ loop_subdivision / 3quads on the model *)
Section Steps.
Context {P : Type} (O : pops P).
Notation raw := (raw P).

Theorem loop_step_border (r r' : raw) x :
  loop_step O r = Ok r' -> Forall (covered (re r)) (rf r) -> oriented_tri (nV r) (rf r) ->
  (is_border (dedges_all (rf r')) x <-> exists e, is_border (dedges_all (rf r)) e /\ In x (hsplit (mid_of r) e)).
Proof.
  intros H Hc Hor. pose proof (mid_of_ok r Hc) as Hm.
  apply (border_refined r (mid_of r) Hm Hor _ (flat_map (inner (mid_of r)) (rf r))).
  - apply (loop_step_dedges O r r' H _ eq_refl).
  - apply (inner_range r (mid_of r) Hm Hor).
Qed.

Lemma spokes_high (r : raw) e :
  mids_ok r (q3_mid_of r) -> oriented_tri (nV r) (rf r) ->
  In e (flat_map (spokes (q3_mid_of r)) (bary_ids r)) -> nV r <= fst e /\ nV r <= snd e.
Proof.
  intros Hm Hor He. apply in_flat_map in He as [[F S] [Hin He]].
  assert (HF : In F (rf r)) by (unfold bary_ids in Hin; eapply in_combine_l; eauto).
  assert (HS : nV r + nE r <= S).
  { unfold bary_ids in Hin. apply in_combine_r in Hin. apply in_map_iff in Hin as [i [<- Hi]]. apply In_zrange in Hi. unfold nV, nE. lia. }
  destruct Hor as [Hnd Hf]. pose proof Hf as Hf0. rewrite Forall_forall in Hf. destruct (Hf F HF) as [L _].
  destruct (tri_shape F L) as [A [B [C ->]]].
  assert (I : forall a b, In (a, b) (dedges [A; B; C]) -> nV r <= q3_mid_of r (a, b)).
  { intros a b Hd. assert (Hd' : In (a, b) (dedges_all (rf r))) by (unfold dedges_all; apply in_flat_map; eauto).
    pose proof (m_range r _ Hm _ Hd'). lia. }
  pose proof (Zlen_nonneg (re r)). unfold nE in HS.
  cbn in He. destruct He as [<-|[<-|[<-|[]]]]; cbn [fst snd]; (split; [apply I; cbn; auto|lia]).
Qed.

Theorem q3_core_border (r r' : raw) x :
  q3_core O r = Ok r' -> Forall (covered (re r)) (rf r) -> oriented_tri (nV r) (rf r) ->
  (is_border (dedges_all (rf r')) x <-> exists e, is_border (dedges_all (rf r)) e /\ In x (hsplit (q3_mid_of r) e)).
Proof.
  intros H Hc Hor. pose proof (q3_mid_of_ok r Hc) as Hm.
  apply (border_refined r (q3_mid_of r) Hm Hor _ (flat_map (spokes (q3_mid_of r)) (bary_ids r))).
  - apply (q3_core_dedges O r r' H _ _ eq_refl eq_refl).
  - intros e He. apply (spokes_high r e Hm Hor He).
Qed.

(* in-place rewrites keep the border *)
Theorem fan_border (r r' : raw) f x :
  split_face_as_fan O r f = Ok r' -> oriented_poly (nV r) (rf r) ->
  (is_border (dedges_all (rf r')) x <-> is_border (dedges_all (rf r)) x).
Proof.
  intros H Hor. unfold split_face_as_fan in H.
  apply bind_Ok in H as [F [HF H]]. apply bind_Ok in H as [ps [_ H]].
  destruct (Zlen F =? 0) eqn:E0; [discriminate|]. destruct (Zlen F <? 2) eqn:E2; [discriminate|].
  inversion H; subst r'; clear H. cbn [rf]. set (V := Zlen (rv r)).
  pose proof (getz_In _ _ _ HF) as HIn.
  assert (Hp : Permutation (dedges_all (updz (rf r) f (fan_replace F V) ++ fan_faces F (Zlen F) V))
                 (dedges_all (rf r) ++ map (fun e => (snd e, V)) (dedges F) ++ map (fun e => (V, fst e)) (dedges F))).
  { apply (rewrite_dedges (rf r) f F (fan_replace F V) (fan_faces F (Zlen F) V)
             (map (fun e => (snd e, V)) (dedges F) ++ map (fun e => (V, fst e)) (dedges F)) HF). apply (fan_local F V). lia. }
  set (N := dedges_all (updz (rf r) f (fan_replace F V) ++ fan_faces F (Zlen F) V)) in *. set (D := dedges_all (rf r)) in *.
  assert (HN : forall y, In y N <-> In y D \/ (exists b, In b F /\ y = (b, V)) \/ (exists a, In a F /\ y = (V, a))).
  { intros y. split.
    - intros Hy. apply (Permutation_in _ Hp) in Hy. apply in_app_or in Hy as [Hy|Hy]; auto. right.
      apply in_app_or in Hy as [Hy|Hy]; apply in_map_iff in Hy as [[a b] [<- Hab]]; apply dedges_In in Hab as [Ha Hb]; cbn; eauto.
    - intros Hy. apply (Permutation_in _ (Permutation_sym Hp)). apply in_or_app. destruct Hy as [Hy|[[b [Hb ->]]|[a [Ha ->]]]]; auto; right; apply in_or_app.
      + left. assert (Hb' : In b (map snd (dedges F))).
        { destruct F as [|x0 t]; [contradiction|]. rewrite map_snd_dedges. apply in_or_app. destruct Hb as [<-|Hb]; [right; cbn; auto|left; auto]. }
        apply in_map_iff in Hb' as [e [<- He]]. apply in_map_iff. exists e. auto.
      + right. assert (Ha' : In a (map fst (dedges F))) by now rewrite map_fst_dedges.
        apply in_map_iff in Ha' as [e [<- He]]. apply in_map_iff. exists e. auto. }
  assert (Hlow : forall y, In y D -> fst y < V /\ snd y < V).
  { intros y Hy. destruct (poly_vertex_range _ _ y Hor Hy) as [H1 H2]. unfold vert_ok, nV in *. fold V in H1, H2. lia. }
  assert (HFlow : forall b, In b F -> b < V).
  { intros b Hb. destruct Hor as [_ Hf]. rewrite Forall_forall in Hf. destruct (Hf F HIn) as [_ [_ Hv]]. rewrite Forall_forall in Hv.
    specialize (Hv b Hb). unfold vert_ok, nV in Hv. fold V in Hv. lia. }
  unfold is_border. split.
  - intros [Hx Hn]. apply HN in Hx as [Hx|[[b [Hb ->]]|[a [Ha ->]]]].
    + split; auto. intros Hs. apply Hn. apply HN. auto.
    + exfalso. apply Hn. apply HN. right. right. exists b. auto.
    + exfalso. apply Hn. apply HN. right. left. exists a. auto.
  - intros [Hx Hn]. split; [apply HN; auto|]. intros Hs. apply HN in Hs as [Hs|[[b [Hb E]]|[a [Ha E]]]]; auto;
      destruct (Hlow x Hx) as [L1 L2]; destruct x as [p q]; unfold swap in E; cbn [fst snd] in *; inversion E; subst; lia.
Qed.

Theorem quad_split_border (r r' : raw) f A B C D0 x :
  getz (rf r) f = Ok [A; B; C; D0] -> triangulate_face O r f = Ok r' ->
  ~ In (B, D0) (dedges_all (rf r)) -> ~ In (D0, B) (dedges_all (rf r)) ->
  (is_border (dedges_all (rf r')) x <-> is_border (dedges_all (rf r)) x).
Proof.
  intros HF H N1 N2. unfold triangulate_face in H. rewrite HF in H. cbn [bind] in H.
  change (tf_branch (Zlen [A; B; C; D0])) with 1 in H. cbn iota in H. inversion H; subst r'; clear H. cbn [rf].
  assert (Hp : Permutation (dedges_all (updz (rf r) f (tf_quad_replace A B C D0) ++ tf_quad_faces A B C D0))
                 (dedges_all (rf r) ++ [(B, D0); (D0, B)])).
  { apply (rewrite_dedges (rf r) f [A; B; C; D0] (tf_quad_replace A B C D0) (tf_quad_faces A B C D0) [(B, D0); (D0, B)] HF). apply quad_local. }
  set (N := dedges_all (updz (rf r) f (tf_quad_replace A B C D0) ++ tf_quad_faces A B C D0)) in *. set (D := dedges_all (rf r)) in *.
  assert (HN : forall y, In y N <-> In y D \/ y = (B, D0) \/ y = (D0, B)).
  { intros y. split.
    - intros Hy. apply (Permutation_in _ Hp) in Hy. apply in_app_or in Hy as [Hy|Hy]; auto. cbn in Hy. intuition.
    - intros Hy. apply (Permutation_in _ (Permutation_sym Hp)). apply in_or_app. cbn. intuition. }
  unfold is_border. split.
  - intros [Hx Hn]. apply HN in Hx as [Hx|[->| ->]].
    + split; auto. intros Hs. apply Hn. apply HN. auto.
    + exfalso. apply Hn. apply HN. right. right. reflexivity.
    + exfalso. apply Hn. apply HN. right. left. reflexivity.
  - intros [Hx Hn]. split; [apply HN; auto|]. intros Hs. apply HN in Hs as [Hs|[E|E]]; auto;
      destruct x as [p q]; unfold swap in E; cbn [fst snd] in E; inversion E; subst; contradiction.
Qed.

End Steps.
