(* C13 - tetrahedral splits, oriented sides.  With the side table of RawMeshData (side i of a tetrahedron omits its
   vertex i), the sides of the tetrahedra that replace a cell are: the old sides (the split side replaced by its three
   sub-triangles around the centre), plus interior sides that come in pairs of opposite orientation - so every old
   side keeps its single owner among the pieces and every new interior triangle lies in exactly two pieces. *)
From Coq Require Import ZArith List Bool Lia Permutation.
Require Import MV.Lib.Base MV.C13.Defs MV.C13.Gen MV.C13.Model MV.C13.Proofs_Base.
Import ListNotations.
Open Scope Z_scope.

(* t' is t with the opposite orientation (up to rotation) *)
Definition opposite (t t' : list Z) : Prop :=
  match t with
  | [a; b; c] => t' = [c; b; a] \/ t' = [b; a; c] \/ t' = [a; c; b]
  | _ => False
  end.
(* t' is t up to rotation *)
Definition rotated (t t' : list Z) : Prop :=
  match t with
  | [a; b; c] => t' = [a; b; c] \/ t' = [b; c; a] \/ t' = [c; a; b]
  | _ => False
  end.

Definition sides_of (cells : list (list Z)) : list (list Z) := flat_map tet_faces cells.

Ltac f2 := repeat (apply Forall2_cons || apply Forall2_nil); cbn;
           first [left; reflexivity | right; left; reflexivity | right; right; reflexivity].
Ltac fin := repeat (apply Forall_cons || apply Forall_nil); cbn; tauto.

(* split_cell_as_fan *)
Theorem cell_fan_sides A B C D ib :
  exists I I', Permutation (sides_of (cf_replace A B C D ib :: cf_cells A B C D ib)) (tet_faces [A; B; C; D] ++ I ++ I') /\
               Forall2 opposite I I' /\ length I = 6%nat /\ Forall (fun t => In ib t) I.
Proof.
  exists [[ib; C; D]; [D; B; ib]; [ib; B; C]; [D; ib; A]; [A; ib; C]; [A; B; ib]],
         [[ib; D; C]; [B; D; ib]; [B; ib; C]; [A; ib; D]; [A; C; ib]; [ib; B; A]].
  split; [cbn; perm_explicit|]. split; [f2|]. split; [reflexivity|fin].
Qed.

(* the same with the interior sides named *)
Definition cf_I (A B C D ib : Z) : list (list Z) := [[ib; C; D]; [D; B; ib]; [ib; B; C]; [D; ib; A]; [A; ib; C]; [A; B; ib]].
Definition cf_I' (A B C D ib : Z) : list (list Z) := [[ib; D; C]; [B; D; ib]; [B; ib; C]; [A; ib; D]; [A; C; ib]; [ib; B; A]].
Lemma cell_fan_sides_perm A B C D ib :
  Permutation (sides_of (cf_replace A B C D ib :: cf_cells A B C D ib)) (tet_faces [A; B; C; D] ++ cf_I A B C D ib ++ cf_I' A B C D ib).
Proof. unfold cf_I, cf_I'. cbn. perm_explicit. Qed.

(* split_tet_from_face_center: the cell [v0;v1;v2;v3] whose side number iF is split at ic *)
Theorem face_centre_sides v0 v1 v2 v3 ic iF cells :
  0 <= iF < 4 -> fc_new_cells [v0; v1; v2; v3] (Some iF) ic = Ok cells ->
  let old := tet_faces [v0; v1; v2; v3] in
  let split := nth (Z.to_nat iF) old [] in
  exists kept pieces I I',
    Permutation old (split :: kept) /\
    Permutation (sides_of cells) (kept ++ pieces ++ I ++ I') /\
    Forall2 opposite I I' /\ length I = 3%nat /\ Forall (fun t => In ic t) I /\
    Forall2 rotated (map (fun e => [fst e; snd e; ic]) (dedges split)) pieces.
Proof.
  intros HiF H. assert (iF = 0 \/ iF = 1 \/ iF = 2 \/ iF = 3) as [-> | [-> | [-> | ->]]] by lia;
    cbv in H; inversion H; subst cells; clear H; cbn zeta.
  - exists [[v0; v2; v3]; [v3; v1; v0]; [v0; v1; v2]], [[v1; v3; ic]; [ic; v3; v2]; [v1; ic; v2]],
           [[v3; ic; v0]; [v0; ic; v2]; [v0; v1; ic]], [[v0; ic; v3]; [v0; v2; ic]; [ic; v1; v0]].
    cbv. split; [perm_explicit|]. split; [perm_explicit|]. split; [f2|]. split; [reflexivity|]. split; [fin|f2].
  - exists [[v1; v3; v2]; [v3; v1; v0]; [v0; v1; v2]], [[v0; v2; ic]; [ic; v2; v3]; [v0; ic; v3]],
           [[v3; v1; ic]; [ic; v1; v2]; [v0; v1; ic]], [[v1; v3; ic]; [v1; ic; v2]; [ic; v1; v0]].
    cbv. split; [perm_explicit|]. split; [perm_explicit|]. split; [f2|]. split; [reflexivity|]. split; [fin|f2].
  - exists [[v1; v3; v2]; [v0; v2; v3]; [v0; v1; v2]], [[v3; v1; ic]; [ic; v1; v0]; [v3; ic; v0]],
           [[ic; v2; v3]; [ic; v1; v2]; [v0; ic; v2]], [[ic; v3; v2]; [v1; ic; v2]; [v0; v2; ic]].
    cbv. split; [perm_explicit|]. split; [perm_explicit|]. split; [f2|]. split; [reflexivity|]. split; [fin|f2].
  - exists [[v1; v3; v2]; [v0; v2; v3]; [v3; v1; v0]], [[v0; v1; ic]; [ic; v1; v2]; [v0; ic; v2]],
           [[ic; v2; v3]; [v3; v1; ic]; [v3; ic; v0]], [[ic; v3; v2]; [v1; v3; ic]; [v0; ic; v3]].
    cbv. split; [perm_explicit|]. split; [perm_explicit|]. split; [f2|]. split; [reflexivity|]. split; [fin|f2].
Qed.
