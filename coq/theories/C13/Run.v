(* C13 - the model instantiated with exact rational coordinates (Qc) and the boolean checkers that the
   correspondence batches evaluate: "the model's result is the implementation's result" (element lists
   exactly; vertices created after a pass through a Python set up to the renumbering sigma that the harness
   proposes and Coq checks; edge lists that passed through a set as sets).  No proofs. *)
From Coq Require Import ZArith List Bool QArith Qcanon Sorting.Mergesort Orders.
Require Import MV.Lib.Base MV.C13.Defs MV.C13.Geom MV.C13.Gen MV.C13.Model.
Import ListNotations.
Open Scope Z_scope.

(* ------------------------------------------------------------------ points over Qc *)
Definition pt := vec Qc.
Definition qz (n : Z) : Qc := Q2Qc (inject_Z n).
Definition mkq (n : Z) (d : positive) : Qc := Q2Qc (n # d).
(* the generic field instance of Geom.v at Qc: division by n is division by 1+1+...+1 *)
Definition QcO : pops pt := fieldO Qc (Q2Qc 0) (Q2Qc 1) Qcplus Qcopp Qcdiv.
Definition qc_eqb (a b : Qc) : bool := Qeq_bool (this a) (this b).
Definition pt_eqb (a b : pt) : bool :=
  let '(x, y, z) := a in let '(x', y', z') := b in qc_eqb x x' && qc_eqb y y' && qc_eqb z z'.

(* ------------------------------------------------------------------ comparisons *)
Module ZOrd <: TotalLeBool.
  Definition t := Z.
  Definition leb := Z.leb.
  Theorem leb_total : forall a b, leb a b = true \/ leb b a = true.
  Proof. intros a b. unfold leb. destruct (Z.leb_spec a b); [now left | right; apply Z.leb_le; apply Z.lt_le_incl; assumption]. Qed.
End ZOrd.
Module ZSort := Sort ZOrd.

Definition ecode (e : edge) : Z := fst e * 1048576 + snd e.
Definition edges_same_set (a b : list edge) : bool :=
  lz_eqb (ZSort.sort (map ecode a)) (ZSort.sort (map ecode b)).
Definition edges_eqb (a b : list edge) : bool := list_eqb edge_eqb a b.
Definition pts_eqb (a b : list pt) : bool := list_eqb pt_eqb a b.

(* sigma = [] is the identity *)
Definition sg (sigma : list Z) (i : Z) : Z := match sigma with [] => i | _ => znth sigma i (-1) end.
Definition sigma_ok (sigma : list Z) (n fixed : Z) : bool :=
  match sigma with
  | [] => true
  | _ => (Zlen sigma =? n) && lz_eqb (ZSort.sort sigma) (zrange n)
         && forallb (fun i => znth sigma i (-1) =? i) (zrange fixed)
  end.
Definition map_edge (sigma : list Z) (e : edge) : edge := keyify2 (sg sigma (fst e)) (sg sigma (snd e)).

(* candidate renumbering: model vertex i -> the implementation vertex with the same coordinates *)
Fixpoint index_of_pt (p : pt) (l : list pt) (i : Z) : Z :=
  match l with
  | [] => -1
  | q :: t => if pt_eqb p q then i else index_of_pt p t (i + 1)
  end.
(* a vertex that sits at its own index keeps it (two vertices may share coordinates: the midpoints of an edge declared
   twice); the candidate is only a candidate - sigma_ok / verts_match / the face and edge comparisons decide *)
Definition find_sigma (mv iv : list pt) : list Z :=
  map (fun ip => match nth_error iv (Z.to_nat (fst ip)) with
                 | Some q => if pt_eqb (snd ip) q then fst ip else index_of_pt (snd ip) iv 0
                 | None => index_of_pt (snd ip) iv 0
                 end) (combine (zrange (Zlen mv)) mv).

(* model vertices (in model numbering) against implementation vertices (in its numbering) *)
Definition verts_match (sigma : list Z) (mv iv : list pt) : bool :=
  match sigma with
  | [] => pts_eqb mv iv
  | _ => (Zlen mv =? Zlen iv) &&
         forallb (fun ip => match nth_error iv (Z.to_nat (sg sigma (fst ip))) with
                            | Some q => pt_eqb (snd ip) q | None => false end)
                 (combine (zrange (Zlen mv)) mv)
  end.

(* ------------------------------------------------------------------ surface editing block *)
Record sobs := mksobs {
  oV : list pt; oE : list edge; oF : list (list Z); oCorn : list (Z * Z);        (* result mesh *)
  oaV : list pt; oaE : list edge; oaF : list (list Z); oaCorn : list (Z * Z);    (* the mesh passed in, afterwards *)
  oaconn : bool }.                            (* did its connectivity answers describe its own element lists? *)

Definition input_surface (V : list pt) (F : list (list Z)) : raw pt := pr (prepare (mkraw V [] F [])).

(* did the edge list pass through a Python set (loop_subdivision with at least one refinement)? then the order of
   the edge list, and the numbering of vertices created from it afterwards, are not fixed by the source *)
Definition through_set (o : sop) : bool := match o with Loop n => 0 <? loop_iters n | _ => false end.

Definition check_surface_ok (V : list pt) (F : list (list Z)) (q : bool) (ops : list sop) (o : sobs) : bool :=
  match run_surface QcO (input_surface V F) ops with
  | Err _ => false
  | Ok r =>
      let m := pr (res_mesh r) in
      let a := res_arg r in
      let loose := existsb through_set ops in
      let s := if loose then find_sigma (rv m) (oV o) else [] in
      sigma_ok s (Zlen (rv m)) (if res_det r then Zlen (aV a) else Zlen (rv m))
      && verts_match s (rv m) (oV o)
      && faces_eqb (map (map (sg s)) (rf m)) (oF o)
      && (if loose then edges_same_set (map (map_edge s) (re m)) (oE o)
          else edges_eqb (map (map_edge s) (re m)) (oE o))
      && corn_eqb (map (fun c => (sg s (fst c), snd c)) (pcorn (res_mesh r))) (oCorn o)
      && pts_eqb (aV a) (oaV o) && edges_eqb (aE a) (oaE o) && faces_eqb (aF a) (oaF o)
      && corn_eqb (aCorn a) (oaCorn o)
      && Bool.eqb (arg_conn_ok q (input_surface V F) a) (oaconn o)
  end.

(* SErrThen e o: the last operation of the block raised e, the caller caught it; o is what the block and the argument
   hold afterwards: __exit__ ran, so it is the finished result of the operations before the failing one *)
Inductive sout := SErr (e : err) | SOk (o : sobs) | SErrThen (e : err) (o : sobs).
(* which exception class the refusal uses is free: the observed class e is carried for information only *)
Definition raises (V : list pt) (F : list (list Z)) (ops : list sop) (e : err) : bool :=
  match run_surface QcO (input_surface V F) ops with Err _ => true | Ok _ => false end.
Definition check_surface (c : list pt * list (list Z) * bool * list sop * sout) : bool :=
  let '(V, F, q, ops, out) := c in
  match out with
  | SOk o => check_surface_ok V F q ops o
  | SErr e => raises V F ops e
  | SErrThen e o => raises V F ops e && check_surface_ok V F q (removelast ops) o
  end.

(* ------------------------------------------------------------------ split_double_boundary_edges_triangles *)
Definition check_split_double (c : list pt * list (list Z) * option (list pt * list edge * list (list Z) * list (Z * Z))) : bool :=
  let '(V, F, out) := c in
  match split_double QcO (input_surface V F), out with
  | Ok (p, _), Some (V', E', F', Cn') =>
      pts_eqb (rv (pr p)) V' && edges_eqb (re (pr p)) E' && faces_eqb (rf (pr p)) F' && corn_eqb (pcorn p) Cn'
  | Err _, None => true
  | _, _ => false
  end.

(* ------------------------------------------------------------------ polyline *)
(* raised = the last split raised (caught by the caller); the observed polyline is then the one after the earlier splits *)
Definition check_polyline (c : list pt * list edge * list Z * bool * option (list pt * list edge)) : bool :=
  let '(V, E, es, raised, out) := c in
  let r0 := pr (prepare (mkraw V E [] [])) in
  let same r o := match o with Some (V', E') => pts_eqb (rv r) V' && edges_eqb (re r) E' | None => true end in
  if raised then
    match foldM (split_edge QcO) es r0, foldM (split_edge QcO) (removelast es) r0 with
    | Err _, Ok r => same r out
    | _, _ => false
    end
  else
    match foldM (split_edge QcO) es r0, out with
    | Ok r, Some _ => same r out
    | _, _ => false
    end.

(* ------------------------------------------------------------------ volume editing block *)
Record vobs := mkvobs { vV : list pt; vE : list edge; vF : list (list Z); vC : list (list Z);
                        vCorn : list (Z * Z); vCCorn : list (Z * Z) }.
Definition input_volume (V : list pt) (C : list (list Z)) : raw pt := pr (prepare (mkraw V [] [] C)).
Definition vobs_eqb (p : @prepared pt) (o : vobs) : bool :=
  pts_eqb (rv (pr p)) (vV o) && edges_eqb (re (pr p)) (vE o) && faces_eqb (rf (pr p)) (vF o)
  && faces_eqb (rc (pr p)) (vC o) && corn_eqb (pcorn p) (vCorn o) && corn_eqb (pccorn p) (vCCorn o).
(* raised = the last operation raised (caught by the caller): __exit__ still finished the mesh of the earlier operations *)
Definition check_volume (c : list pt * list (list Z) * list vop * bool * option vobs) : bool :=
  let '(V, C, ops, raised, out) := c in
  if raised then
    match run_volume QcO (input_volume V C) ops, run_volume QcO (input_volume V C) (removelast ops) with
    | Err _, Ok p => match out with Some o => vobs_eqb p o | None => true end
    | _, _ => false
    end
  else
    match run_volume QcO (input_volume V C) ops, out with
    | Ok p, Some o => vobs_eqb p o
    | _, _ => false
    end.
