(* C13 property theorems only: each closed by `exact <lemma>` with Print Assumptions beneath.
   P, O : any point type with any point operations (the combinatorial statements do not depend on coordinates);
   F ... : any field (Leibniz equality) in which the stated small integers are invertible. *)
From Coq Require Import ZArith List Bool Permutation Field_theory.
Require Import MV.C13.Proofs.
Import ListNotations.
Open Scope Z_scope.

(* ================================================================== counts (documented deltas) *)
Theorem C13_counts_split_edge : forall (P : Type) (O : pops P) (r : raw P) (e : Z) (r' : raw P),
  split_edge O r e = Ok r' -> nV r' = nV r + 1 /\ nE r' = nE r + 1.
Proof. exact @split_edge_counts. Qed.
Print Assumptions C13_counts_split_edge.

Theorem C13_counts_fan : forall (P : Type) (O : pops P) (r : raw P) (f : Z) (r' : raw P) (F : list Z),
  getz (rf r) f = Ok F -> split_face_as_fan O r f = Ok r' ->
  nV r' = nV r + 1 /\ nE r' = nE r + Zlen F /\ nF r' = nF r + (Zlen F - 1).
Proof. exact @fan_counts. Qed.
Print Assumptions C13_counts_fan.

Theorem C13_counts_triangulate_face : forall (P : Type) (O : pops P) (r : raw P) (f : Z) (r' : raw P) (F : list Z),
  getz (rf r) f = Ok F -> triangulate_face O r f = Ok r' ->
  (Zlen F < 4 -> r' = r) /\
  (Zlen F = 4 -> nV r' = nV r /\ nE r' = nE r + 1 /\ nF r' = nF r + 1) /\
  (4 < Zlen F -> nV r' = nV r + 1 /\ nE r' = nE r + Zlen F /\ nF r' = nF r + (Zlen F - 1)).
Proof. exact @triangulate_face_counts. Qed.
Print Assumptions C13_counts_triangulate_face.

Theorem C13_counts_loop : forall (P : Type) (O : pops P) (r r' : raw P),
  loop_step O r = Ok r' -> nV r' = nV r + nE r /\ nF r' = 4 * nF r.
Proof. exact @loop_step_counts. Qed.
Print Assumptions C13_counts_loop.

Theorem C13_counts_3quads : forall (P : Type) (O : pops P) (r r' : raw P),
  q3_core O r = Ok r' -> nV r' = nV r + nE r + nF r /\ nE r' = 2 * nE r + 3 * nF r /\ nF r' = 3 * nF r.
Proof. exact @q3_core_counts. Qed.
Print Assumptions C13_counts_3quads.

Theorem C13_counts_cell_fan : forall (P : Type) (O : pops P) (r : raw P) (c : Z) (r' : raw P) (cell : list Z),
  getz (rc r) c = Ok cell -> Zlen cell = 4 -> split_cell_as_fan O r c = Ok r' ->
  nV r' = nV r + 1 /\ nC r' = nC r + 3 /\ rf r' = rf r /\ re r' = re r.
Proof. exact @cell_fan_counts. Qed.
Print Assumptions C13_counts_cell_fan.

Theorem C13_counts_face_centre : forall (P : Type) (O : pops P) (r : raw P) (fid : Z) (r' : raw P) (f : list Z),
  getz (rf r) fid = Ok f -> Zlen f = 3 -> split_tet_from_face_center O r fid = Ok r' ->
  nV r' = nV r + 1 /\ nF r' = nF r + 2 /\ nC r' = nC r + 2 * Zlen (adjacent_cells r f) /\ re r' = re r.
Proof. exact @face_centre_counts. Qed.
Print Assumptions C13_counts_face_centre.

(* Euler characteristic V - E + F (V - E for polylines) from the counts *)
Theorem C13_euler_split_edge : forall (P : Type) (O : pops P) (r : raw P) (e : Z) (r' : raw P),
  split_edge O r e = Ok r' -> chi1 r' = chi1 r.
Proof. exact @euler_split_edge. Qed.
Print Assumptions C13_euler_split_edge.

Theorem C13_euler_triangulate_face : forall (P : Type) (O : pops P) (r : raw P) (f : Z) (r' : raw P),
  triangulate_face O r f = Ok r' -> chi2 r' = chi2 r.
Proof. exact @euler_triangulate_face. Qed.
Print Assumptions C13_euler_triangulate_face.

Theorem C13_euler_fan : forall (P : Type) (O : pops P) (r : raw P) (f : Z) (r' : raw P),
  split_face_as_fan O r f = Ok r' -> chi2 r' = chi2 r.
Proof. exact @euler_fan. Qed.
Print Assumptions C13_euler_fan.

Theorem C13_euler_3quads : forall (P : Type) (O : pops P) (r r' : raw P),
  q3_core O r = Ok r' -> chi2 r' = chi2 r.
Proof. exact @euler_quads. Qed.
Print Assumptions C13_euler_3quads.

(* ================================================================== topology: directed-edge bookkeeping *)
Theorem C13_topology_quad_local : forall A B C D : Z,
  Permutation (dedges (tf_quad_replace A B C D) ++ dedges_all (tf_quad_faces A B C D))
              (dedges [A; B; C; D] ++ [(B, D); (D, B)]).
Proof. exact quad_local. Qed.
Print Assumptions C13_topology_quad_local.

Theorem C13_topology_loop_local : forall A B C mAB mBC mCA : Z,
  Permutation (dedges_all (loop_tris A B C mAB mBC mCA))
              ([(A, mAB); (mAB, B); (B, mBC); (mBC, C); (C, mCA); (mCA, A)]
               ++ [(mAB, mBC); (mBC, mCA); (mCA, mAB)] ++ [(mBC, mAB); (mCA, mBC); (mAB, mCA)]).
Proof. exact loop_local. Qed.
Print Assumptions C13_topology_loop_local.

Theorem C13_topology_3quads_local : forall A B C mAB mBC mCA S : Z,
  Permutation (dedges_all (q3_quads A B C mAB mBC mCA S))
              ([(A, mAB); (mAB, B); (B, mBC); (mBC, C); (C, mCA); (mCA, A)]
               ++ [(mAB, S); (mBC, S); (mCA, S)] ++ [(S, mAB); (S, mBC); (S, mCA)]).
Proof. exact q3_local. Qed.
Print Assumptions C13_topology_3quads_local.

Theorem C13_topology_fan_local : forall (f : list Z) (iV : Z),
  2 <= Zlen f ->
  Permutation (dedges_all (fan_replace f iV :: fan_faces f (Zlen f) iV))
              (dedges f ++ map (fun e => (snd e, iV)) (dedges f) ++ map (fun e => (iV, fst e)) (dedges f)).
Proof. exact fan_local. Qed.
Print Assumptions C13_topology_fan_local.

Theorem C13_topology_face_centre_local : forall A B C ic : Z,
  Permutation (dedges (fc_replace A B C ic) ++ dedges_all (fc_faces A B C ic))
              (dedges [A; B; C] ++ [(A, ic); (B, ic); (C, ic)] ++ [(ic, A); (ic, B); (ic, C)]).
Proof. exact fc_local. Qed.
Print Assumptions C13_topology_face_centre_local.

Theorem C13_topology_split_edge_local : forall A B C : Z,
  se_replace A B C :: se_append A B C = [keyify2 A C; keyify2 B C].
Proof. exact split_edge_local. Qed.
Print Assumptions C13_topology_split_edge_local.

Theorem C13_topology_loop_global : forall (P : Type) (O : pops P) (r r' : raw P),
  loop_step O r = Ok r' -> forall m, m = mid_of r ->
  Permutation (dedges_all (rf r'))
              (flat_map (hsplit m) (dedges_all (rf r)) ++ flat_map (inner m) (rf r) ++ map swap (flat_map (inner m) (rf r))).
Proof. exact @loop_step_dedges. Qed.
Print Assumptions C13_topology_loop_global.

Theorem C13_topology_3quads_global : forall (P : Type) (O : pops P) (r r' : raw P),
  q3_core O r = Ok r' -> forall m FS, m = q3_mid_of r -> FS = bary_ids r ->
  Permutation (dedges_all (rf r'))
              (flat_map (hsplit m) (dedges_all (rf r)) ++ flat_map (spokes m) FS ++ map swap (flat_map (spokes m) FS)).
Proof. exact @q3_core_dedges. Qed.
Print Assumptions C13_topology_3quads_global.

Theorem C13_topology_loop_closed : forall (P : Type) (O : pops P) (r r' : raw P),
  loop_step O r = Ok r' -> closed (dedges_all (rf r)) -> closed (dedges_all (rf r')).
Proof. exact @loop_step_closed. Qed.
Print Assumptions C13_topology_loop_closed.

Theorem C13_topology_3quads_closed : forall (P : Type) (O : pops P) (r r' : raw P),
  q3_core O r = Ok r' -> closed (dedges_all (rf r)) -> closed (dedges_all (rf r')).
Proof. exact @q3_core_closed. Qed.
Print Assumptions C13_topology_3quads_closed.

(* ------------------------------------------------------------------ oriented manifoldness (every directed edge once,
   faces on distinct in-range vertices) is preserved.
   The loop / tri6 theorems named _partial carry the guard `simple_tri` (no two triangles on the same three vertices): it is
   NOT in the property's quantifier; without it the statement is false, see C13_loop_same_vertex_triangles_refuted. *)
Theorem C13_topology_loop_manifold_partial : forall (P : Type) (O : pops P) (r r' : raw P),
  loop_step O r = Ok r' ->
  Forall (covered (re r)) (rf r) -> oriented_tri (nV r) (rf r) -> simple_tri (rf r) ->
  oriented_tri (nV r') (rf r').
Proof. exact @loop_step_oriented. Qed.
Print Assumptions C13_topology_loop_manifold_partial.

Theorem C13_topology_loop_simple_partial : forall (P : Type) (O : pops P) (r r' : raw P),
  loop_step O r = Ok r' ->
  Forall (covered (re r)) (rf r) -> oriented_tri (nV r) (rf r) -> simple_tri (rf r) -> simple_tri (rf r').
Proof. exact @loop_step_simple. Qed.
Print Assumptions C13_topology_loop_simple_partial.

(* loop_subdivision(n) as a whole, any n, on an oriented simple triangle surface *)
Theorem C13_topology_loop_operation_partial : forall (P : Type) (O : pops P) (s s' : sstate) (n : Z),
  sstep O s (Loop n) = Ok s' ->
  WF (cur s) -> oriented_tri (nV (cur s)) (rf (cur s)) -> simple_tri (rf (cur s)) ->
  WF (cur s') /\ oriented_tri (nV (cur s')) (rf (cur s')) /\ simple_tri (rf (cur s')).
Proof. exact @loop_operation_manifold. Qed.
Print Assumptions C13_topology_loop_operation_partial.

Theorem C13_topology_3quads_manifold : forall (P : Type) (O : pops P) (r r' : raw P),
  q3_core O r = Ok r' ->
  Forall (covered (re r)) (rf r) -> oriented_tri (nV r) (rf r) -> oriented_poly (nV r') (rf r').
Proof. exact @q3_core_oriented. Qed.
Print Assumptions C13_topology_3quads_manifold.

Theorem C13_topology_fan_manifold : forall (P : Type) (O : pops P) (r r' : raw P) (f : Z),
  split_face_as_fan O r f = Ok r' -> oriented_poly (nV r) (rf r) -> oriented_poly (nV r') (rf r').
Proof. exact @fan_oriented. Qed.
Print Assumptions C13_topology_fan_manifold.

(* guard: the diagonal B-D along which the quad is cut is not joined yet (see C13_triangulate_nonsimple_refuted) *)
Theorem C13_topology_quad_split_manifold_partial : forall (P : Type) (O : pops P) (r r' : raw P) (f A B C D : Z),
  getz (rf r) f = Ok [A; B; C; D] -> triangulate_face O r f = Ok r' ->
  ~ In (B, D) (dedges_all (rf r)) -> ~ In (D, B) (dedges_all (rf r)) ->
  oriented_poly (nV r) (rf r) -> oriented_poly (nV r') (rf r').
Proof. exact @quad_split_oriented. Qed.
Print Assumptions C13_topology_quad_split_manifold_partial.

(* the refined edge count of loop_subdivision, hence its Euler characteristic *)
Theorem C13_counts_loop_edges_partial : forall (P : Type) (O : pops P) (r r' : raw P),
  loop_step O r = Ok r' -> WF r -> oriented_tri (nV r) (rf r) -> simple_tri (rf r) -> exact_edges r ->
  nE r' = 2 * nE r + 3 * nF r.
Proof. exact @loop_step_edge_count. Qed.
Print Assumptions C13_counts_loop_edges_partial.

Theorem C13_euler_loop_partial : forall (P : Type) (O : pops P) (r r' : raw P),
  loop_step O r = Ok r' -> WF r -> oriented_tri (nV r) (rf r) -> simple_tri (rf r) -> exact_edges r ->
  chi2 r' = chi2 r.
Proof. exact @euler_loop_full. Qed.
Print Assumptions C13_euler_loop_partial.

Theorem C13_accepts_prepared_surface_exact : forall (P : Type) (V : list P) (F : list (list Z)),
  input_ok (Zlen V) F -> exact_edges (pr (prepare (mkraw V [] F []))).
Proof. exact @prepared_input_exact. Qed.
Print Assumptions C13_accepts_prepared_surface_exact.

(* ------------------------------------------------------------------ border edges and connected components *)
(* border edges of the refined surface = the two halves of the border edges: a border cycle becomes the cycle of its halves *)
Theorem C13_border_loop : forall (P : Type) (O : pops P) (r r' : raw P) (x : Z * Z),
  loop_step O r = Ok r' -> Forall (covered (re r)) (rf r) -> oriented_tri (nV r) (rf r) ->
  (is_border (dedges_all (rf r')) x <-> exists e, is_border (dedges_all (rf r)) e /\ In x (hsplit (mid_of r) e)).
Proof. exact @loop_step_border. Qed.
Print Assumptions C13_border_loop.

Theorem C13_border_3quads : forall (P : Type) (O : pops P) (r r' : raw P) (x : Z * Z),
  q3_core O r = Ok r' -> Forall (covered (re r)) (rf r) -> oriented_tri (nV r) (rf r) ->
  (is_border (dedges_all (rf r')) x <-> exists e, is_border (dedges_all (rf r)) e /\ In x (hsplit (q3_mid_of r) e)).
Proof. exact @q3_core_border. Qed.
Print Assumptions C13_border_3quads.

Theorem C13_border_fan : forall (P : Type) (O : pops P) (r r' : raw P) (f : Z) (x : Z * Z),
  split_face_as_fan O r f = Ok r' -> oriented_poly (nV r) (rf r) ->
  (is_border (dedges_all (rf r')) x <-> is_border (dedges_all (rf r)) x).
Proof. exact @fan_border. Qed.
Print Assumptions C13_border_fan.

Theorem C13_border_quad_split_partial : forall (P : Type) (O : pops P) (r r' : raw P) (f A B C D0 : Z) (x : Z * Z),
  getz (rf r) f = Ok [A; B; C; D0] -> triangulate_face O r f = Ok r' ->
  ~ In (B, D0) (dedges_all (rf r)) -> ~ In (D0, B) (dedges_all (rf r)) ->
  (is_border (dedges_all (rf r')) x <-> is_border (dedges_all (rf r)) x).
Proof. exact @quad_split_border. Qed.
Print Assumptions C13_border_quad_split_partial.

(* two old vertices are joined by an edge path afterwards iff they were before; every vertex of the refined surface is
   joined to an old vertex: the components are in bijection *)
Theorem C13_components_loop : forall (P : Type) (O : pops P) (r r' : raw P),
  loop_step O r = Ok r' -> WF r -> oriented_tri (nV r) (rf r) ->
  (forall a b, vert_ok (nV r) a -> vert_ok (nV r) b -> (conn (dedges_all (rf r)) a b <-> conn (dedges_all (rf r')) a b)) /\
  (forall x, In x (dedges_all (rf r')) -> conn (dedges_all (rf r')) (fst x) (pi_ref r (fst x)) /\ vert_ok (nV r) (pi_ref r (fst x))).
Proof. exact @loop_step_components. Qed.
Print Assumptions C13_components_loop.

Theorem C13_components_3quads : forall (P : Type) (O : pops P) (r r' : raw P),
  q3_core O r = Ok r' -> WF r -> oriented_tri (nV r) (rf r) ->
  (forall a b, vert_ok (nV r) a -> vert_ok (nV r) b -> (conn (dedges_all (rf r)) a b <-> conn (dedges_all (rf r')) a b)) /\
  (forall x, In x (dedges_all (rf r')) -> conn (dedges_all (rf r')) (fst x) (pi_ref r (fst x)) /\ vert_ok (nV r) (pi_ref r (fst x))).
Proof. exact @q3_core_components. Qed.
Print Assumptions C13_components_3quads.

Theorem C13_components_fan : forall (P : Type) (O : pops P) (r r' : raw P) (f : Z) (F : list Z),
  getz (rf r) f = Ok F -> split_face_as_fan O r f = Ok r' -> oriented_poly (nV r) (rf r) ->
  let pi := fun v => if v =? nV r then hd 0 F else v in
  (forall a b, vert_ok (nV r) a -> vert_ok (nV r) b -> (conn (dedges_all (rf r)) a b <-> conn (dedges_all (rf r')) a b)) /\
  (forall x, In x (dedges_all (rf r')) -> conn (dedges_all (rf r')) (fst x) (pi (fst x)) /\ vert_ok (nV r) (pi (fst x))).
Proof. exact @fan_components. Qed.
Print Assumptions C13_components_fan.

Theorem C13_components_quad_split : forall (P : Type) (O : pops P) (r r' : raw P) (f A B C D0 : Z),
  getz (rf r) f = Ok [A; B; C; D0] -> triangulate_face O r f = Ok r' ->
  forall a b, conn (dedges_all (rf r)) a b <-> conn (dedges_all (rf r')) a b.
Proof. exact @quad_split_components. Qed.
Print Assumptions C13_components_quad_split.

(* ------------------------------------------------------------------ whole loops *)
(* guard (cuts_free): no quad's cut B-D is joined yet, and different quads have different cuts *)
Theorem C13_topology_triangulate_manifold_partial : forall (P : Type) (O : pops P) (r r' : raw P),
  triangulate O r = Ok r' -> oriented_poly (nV r) (rf r) -> cuts_free (rf r) -> oriented_tri (nV r') (rf r').
Proof. exact @triangulate_oriented. Qed.
Print Assumptions C13_topology_triangulate_manifold_partial.

(* one round of subdivide_triangles_6 (3 quads, then every quad cut): the guard is discharged *)
Theorem C13_topology_tri6_round_manifold_partial : forall (P : Type) (O : pops P) (s s' : sstate),
  tri6_step O s = Ok s' ->
  WF (cur s) -> oriented_tri (nV (cur s)) (rf (cur s)) -> simple_tri (rf (cur s)) ->
  oriented_tri (nV (cur s')) (rf (cur s')).
Proof. exact @tri6_step_oriented. Qed.
Print Assumptions C13_topology_tri6_round_manifold_partial.

(* ------------------------------------------------------------------ split_double_boundary_edges_triangles *)
Theorem C13_split_double_selection : forall (P : Type) (r : raw P) (pb : list Z),
  sd_faces r = Ok pb ->
  forall i, In i pb <-> exists F, getz (rf r) i = Ok F /\ has_degree2_vertex (degrees (Zlen (rv r)) (re r)) F.
Proof. exact @sd_faces_spec. Qed.
Print Assumptions C13_split_double_selection.

Theorem C13_split_double_block : forall (P : Type) (O : pops P) (a : raw P) (p : prepared) (ch : bool),
  split_double O a = Ok (p, ch) ->
  exists pb, sd_faces a = Ok pb /\
    ((pb = [] /\ ch = false /\ pr p = a) \/
     (pb <> [] /\ ch = true /\ exists res, run_surface O a (map Fan pb) = Ok res /\ p = res_mesh res)).
Proof. exact @split_double_spec. Qed.
Print Assumptions C13_split_double_block.

(* ------------------------------------------------------------------ tetrahedral splits: oriented sides of the pieces *)
Theorem C13_topology_cell_fan_sides : forall A B C D ib : Z,
  exists I I', Permutation (sides_of (cf_replace A B C D ib :: cf_cells A B C D ib)) (tet_faces [A; B; C; D] ++ I ++ I') /\
               Forall2 opposite I I' /\ length I = 6%nat /\ Forall (fun t => In ib t) I.
Proof. exact cell_fan_sides. Qed.
Print Assumptions C13_topology_cell_fan_sides.

Theorem C13_topology_face_centre_sides : forall (v0 v1 v2 v3 ic iF : Z) (cells : list (list Z)),
  0 <= iF < 4 -> fc_new_cells [v0; v1; v2; v3] (Some iF) ic = Ok cells ->
  let old := tet_faces [v0; v1; v2; v3] in
  let split := nth (Z.to_nat iF) old [] in
  exists kept pieces I I',
    Permutation old (split :: kept) /\
    Permutation (sides_of cells) (kept ++ pieces ++ I ++ I') /\
    Forall2 opposite I I' /\ length I = 3%nat /\ Forall (fun t => In ic t) I /\
    Forall2 rotated (map (fun e => [fst e; snd e; ic]) (dedges split)) pieces.
Proof. exact face_centre_sides. Qed.
Print Assumptions C13_topology_face_centre_sides.

(* ================================================================== geometry over any field *)
Theorem C13_geometry_midpoints :
  forall (F : Type) (f0 f1 : F) (fadd fmul fsub : F -> F -> F) (fopp : F -> F) (fdiv : F -> F -> F) (finv : F -> F),
  field_theory f0 f1 fadd fmul fsub fopp fdiv finv eq -> two F f1 fadd <> f0 ->
  forall a b : vec F,
  let m1 := se_mid (fieldO F f0 f1 fadd fopp fdiv) a b in
  let m2 := loop_mid (fieldO F f0 f1 fadd fopp fdiv) a b in
  let m3 := q3_mid (fieldO F f0 f1 fadd fopp fdiv) a b in
  vadd F fadd m1 m1 = vadd F fadd a b /\ vadd F fadd m2 m2 = vadd F fadd a b /\ vadd F fadd m3 m3 = vadd F fadd a b.
Proof. exact C13_midpoints. Qed.
Print Assumptions C13_geometry_midpoints.

Theorem C13_geometry_barycentres3 :
  forall (F : Type) (f0 f1 : F) (fadd fmul fsub : F -> F -> F) (fopp : F -> F) (fdiv : F -> F -> F) (finv : F -> F),
  field_theory f0 f1 fadd fmul fsub fopp fdiv finv eq -> three F f1 fadd <> f0 ->
  forall a b c : vec F,
  let g := q3_bary (fieldO F f0 f1 fadd fopp fdiv) [a; b; c] in
  let g' := fc_bary (fieldO F f0 f1 fadd fopp fdiv) [a; b; c] in
  let g'' := fan_bary (fieldO F f0 f1 fadd fopp fdiv) [a; b; c] 3 in
  vadd F fadd (vadd F fadd g g) g = vadd F fadd (vadd F fadd a b) c /\ g' = g /\ g'' = g.
Proof. exact C13_barycentres3. Qed.
Print Assumptions C13_geometry_barycentres3.

Theorem C13_geometry_barycentre4 :
  forall (F : Type) (f0 f1 : F) (fadd fmul fsub : F -> F -> F) (fopp : F -> F) (fdiv : F -> F -> F) (finv : F -> F),
  field_theory f0 f1 fadd fmul fsub fopp fdiv finv eq -> two F f1 fadd <> f0 ->
  forall a b c d : vec F,
  let g := cf_bary (fieldO F f0 f1 fadd fopp fdiv) a b c d in
  vadd F fadd (vadd F fadd g g) (vadd F fadd g g) = vadd F fadd (vadd F fadd a b) (vadd F fadd c d).
Proof. exact C13_barycentre4. Qed.
Print Assumptions C13_geometry_barycentre4.

Theorem C13_geometry_barycentre_n :
  forall (F : Type) (f0 f1 : F) (fadd fmul fsub : F -> F -> F) (fopp : F -> F) (fdiv : F -> F -> F) (finv : F -> F),
  field_theory f0 f1 fadd fmul fsub fopp fdiv finv eq ->
  forall (ps : list (vec F)) (n : Z), fz F f0 f1 fadd fopp n <> f0 ->
  vscale F fmul (fz F f0 f1 fadd fopp n) (fan_bary (fieldO F f0 f1 fadd fopp fdiv) ps n) = psum (fieldO F f0 f1 fadd fopp fdiv) ps.
Proof. exact C13_barycentre_n. Qed.
Print Assumptions C13_geometry_barycentre_n.

Theorem C13_geometry_quad_split_area :
  forall (F : Type) (f0 f1 : F) (fadd fmul fsub : F -> F -> F) (fopp : F -> F) (fdiv : F -> F -> F) (finv : F -> F),
  field_theory f0 f1 fadd fmul fsub fopp fdiv finv eq ->
  forall (pos : Z -> vec F) (A B C D : Z),
  vadd F fadd (area_of F f0 fadd fmul fsub pos (tf_quad_replace A B C D))
       (vsum F f0 fadd (map (area_of F f0 fadd fmul fsub pos) (tf_quad_faces A B C D))) =
  area_of F f0 fadd fmul fsub pos [A; B; C; D].
Proof. exact C13_quad_split_area. Qed.
Print Assumptions C13_geometry_quad_split_area.

Theorem C13_geometry_loop_area :
  forall (F : Type) (f0 f1 : F) (fadd fmul fsub : F -> F -> F) (fopp : F -> F) (fdiv : F -> F -> F) (finv : F -> F),
  field_theory f0 f1 fadd fmul fsub fopp fdiv finv eq -> two F f1 fadd <> f0 ->
  forall (pos : Z -> vec F) (A B C mAB mBC mCA : Z),
  pos mAB = loop_mid (fieldO F f0 f1 fadd fopp fdiv) (pos A) (pos B) ->
  pos mBC = loop_mid (fieldO F f0 f1 fadd fopp fdiv) (pos B) (pos C) ->
  pos mCA = loop_mid (fieldO F f0 f1 fadd fopp fdiv) (pos C) (pos A) ->
  Forall (fun t => vscale F fmul (four F f1 fadd) (area_of F f0 fadd fmul fsub pos t) = area_of F f0 fadd fmul fsub pos [A; B; C])
         (loop_tris A B C mAB mBC mCA).
Proof. exact C13_loop_area. Qed.
Print Assumptions C13_geometry_loop_area.

Theorem C13_geometry_3quads_area :
  forall (F : Type) (f0 f1 : F) (fadd fmul fsub : F -> F -> F) (fopp : F -> F) (fdiv : F -> F -> F) (finv : F -> F),
  field_theory f0 f1 fadd fmul fsub fopp fdiv finv eq -> two F f1 fadd <> f0 -> three F f1 fadd <> f0 ->
  forall (pos : Z -> vec F) (A B C mAB mBC mCA S : Z),
  pos mAB = q3_mid (fieldO F f0 f1 fadd fopp fdiv) (pos A) (pos B) ->
  pos mBC = q3_mid (fieldO F f0 f1 fadd fopp fdiv) (pos B) (pos C) ->
  pos mCA = q3_mid (fieldO F f0 f1 fadd fopp fdiv) (pos C) (pos A) ->
  pos S = q3_bary (fieldO F f0 f1 fadd fopp fdiv) [pos A; pos B; pos C] ->
  Forall (fun q => vscale F fmul (three F f1 fadd) (area_of F f0 fadd fmul fsub pos q) = area_of F f0 fadd fmul fsub pos [A; B; C])
         (q3_quads A B C mAB mBC mCA S).
Proof. exact C13_quads_area. Qed.
Print Assumptions C13_geometry_3quads_area.

Theorem C13_geometry_fan3_area :
  forall (F : Type) (f0 f1 : F) (fadd fmul fsub : F -> F -> F) (fopp : F -> F) (fdiv : F -> F -> F) (finv : F -> F),
  field_theory f0 f1 fadd fmul fsub fopp fdiv finv eq -> three F f1 fadd <> f0 ->
  forall (pos : Z -> vec F) (A B C iV : Z),
  pos iV = fan_bary (fieldO F f0 f1 fadd fopp fdiv) [pos A; pos B; pos C] 3 ->
  Forall (fun t => vscale F fmul (three F f1 fadd) (area_of F f0 fadd fmul fsub pos t) = area_of F f0 fadd fmul fsub pos [A; B; C])
         (fan_replace [A; B; C] iV :: fan_faces [A; B; C] 3 iV).
Proof. exact C13_fan3_area. Qed.
Print Assumptions C13_geometry_fan3_area.

Theorem C13_geometry_fan_area_any :
  forall (F : Type) (f0 f1 : F) (fadd fmul fsub : F -> F -> F) (fopp : F -> F) (fdiv : F -> F -> F) (finv : F -> F),
  field_theory f0 f1 fadd fmul fsub fopp fdiv finv eq ->
  forall (pl : list (vec F)) (g : vec F),
  vsum F f0 fadd (map (fun ab => varea2 F f0 fadd fmul fsub [fst ab; snd ab; g]) (cyc pl)) = varea2 F f0 fadd fmul fsub pl.
Proof. exact C13_fan_area_any. Qed.
Print Assumptions C13_geometry_fan_area_any.

Theorem C13_geometry_cell_fan_volume :
  forall (F : Type) (f0 f1 : F) (fadd fmul fsub : F -> F -> F) (fopp : F -> F) (fdiv : F -> F -> F) (finv : F -> F),
  field_theory f0 f1 fadd fmul fsub fopp fdiv finv eq -> two F f1 fadd <> f0 ->
  forall (pos : Z -> vec F) (A B C D ib : Z),
  let cells := cf_replace A B C D ib :: cf_cells A B C D ib in
  fold_right fadd f0 (map (vol_of F f0 fadd fmul fsub pos) cells) = vol_of F f0 fadd fmul fsub pos [A; B; C; D] /\
  (pos ib = cf_bary (fieldO F f0 f1 fadd fopp fdiv) (pos A) (pos B) (pos C) (pos D) ->
   Forall (fun c => fmul (four F f1 fadd) (vol_of F f0 fadd fmul fsub pos c) = vol_of F f0 fadd fmul fsub pos [A; B; C; D]) cells).
Proof. exact C13_cell_fan_volume. Qed.
Print Assumptions C13_geometry_cell_fan_volume.

Theorem C13_geometry_face_centre_volume :
  forall (F : Type) (f0 f1 : F) (fadd fmul fsub : F -> F -> F) (fopp : F -> F) (fdiv : F -> F -> F) (finv : F -> F),
  field_theory f0 f1 fadd fmul fsub fopp fdiv finv eq -> three F f1 fadd <> f0 ->
  forall (pos : Z -> vec F) (v0 v1 v2 v3 ic iF : Z),
  0 <= iF < 4 ->
  pos ic = fc_bary (fieldO F f0 f1 fadd fopp fdiv) (map pos (remove_nth [v0; v1; v2; v3] (Z.to_nat iF))) ->
  forall cells, fc_new_cells [v0; v1; v2; v3] (Some iF) ic = Ok cells ->
  length cells = 3%nat /\
  Forall (fun c => fmul (three F f1 fadd) (vol_of F f0 fadd fmul fsub pos c) = vol_of F f0 fadd fmul fsub pos [v0; v1; v2; v3]) cells.
Proof. exact C13_face_centre_volume. Qed.
Print Assumptions C13_geometry_face_centre_volume.

(* ================================================================== vertices of the model's output *)
(* original vertices in place (prefix), each new vertex is the generated centre formula applied to the old positions of the
   element it refines, at the stated index *)
Theorem C13_vertices_split_edge : forall (P : Type) (O : pops P) (r r' : raw P) (e : Z),
  split_edge O r e = Ok r' -> exists x p, getz (re r) e = Ok x /\ is_mid (se_mid O) r x p /\ rv r' = rv r ++ [p].
Proof. exact @split_edge_vertices. Qed.
Print Assumptions C13_vertices_split_edge.

Theorem C13_vertices_fan : forall (P : Type) (O : pops P) (r r' : raw P) (f : Z),
  split_face_as_fan O r f = Ok r' ->
  exists F p, getz (rf r) f = Ok F /\ is_bary (fun ps => fan_bary O ps (Zlen F)) r F p /\ rv r' = rv r ++ [p].
Proof. exact @fan_vertices. Qed.
Print Assumptions C13_vertices_fan.

Theorem C13_vertices_quad_split : forall (P : Type) (O : pops P) (r r' : raw P) (f A B C D : Z),
  getz (rf r) f = Ok [A; B; C; D] -> triangulate_face O r f = Ok r' -> rv r' = rv r.
Proof. exact @quad_split_vertices. Qed.
Print Assumptions C13_vertices_quad_split.

Theorem C13_vertices_loop : forall (P : Type) (O : pops P) (r r' : raw P),
  loop_step O r = Ok r' -> exists ms, rv r' = rv r ++ ms /\ Forall2 (is_mid (loop_mid O) r) (re r) ms.
Proof. exact @loop_step_vertices. Qed.
Print Assumptions C13_vertices_loop.

Theorem C13_vertices_loop_index : forall (P : Type) (O : pops P) (r r' : raw P) (k : nat) (e : Z * Z),
  loop_step O r = Ok r' -> nth_error (re r) k = Some e ->
  firstn (length (rv r)) (rv r') = rv r /\
  exists p, nth_error (rv r') (length (rv r) + k) = Some p /\ is_mid (loop_mid O) r e p.
Proof. exact @loop_step_vertex_k. Qed.
Print Assumptions C13_vertices_loop_index.

Theorem C13_vertices_3quads : forall (P : Type) (O : pops P) (r r' : raw P),
  q3_core O r = Ok r' ->
  exists ms bs, rv r' = rv r ++ ms ++ bs /\ Forall2 (is_mid (q3_mid O) r) (re r) ms /\ Forall2 (is_bary (q3_bary O) r) (rf r) bs.
Proof. exact @q3_core_vertices. Qed.
Print Assumptions C13_vertices_3quads.

Theorem C13_vertices_cell_fan : forall (P : Type) (O : pops P) (r r' : raw P) (c A B C D : Z),
  getz (rc r) c = Ok [A; B; C; D] -> split_cell_as_fan O r c = Ok r' ->
  exists pA pB pC pD, getz (rv r) A = Ok pA /\ getz (rv r) B = Ok pB /\ getz (rv r) C = Ok pC /\ getz (rv r) D = Ok pD /\
    rv r' = rv r ++ [cf_bary O pA pB pC pD] /\ rc r' = updz (rc r) c (cf_replace A B C D (nV r)) ++ cf_cells A B C D (nV r).
Proof. exact @cell_fan_vertices. Qed.
Print Assumptions C13_vertices_cell_fan.

Theorem C13_vertices_face_centre : forall (P : Type) (O : pops P) (r r' : raw P) (fid A B C : Z),
  getz (rf r) fid = Ok [A; B; C] -> split_tet_from_face_center O r fid = Ok r' ->
  exists p, is_bary (fc_bary O) r [A; B; C] p /\ rv r' = rv r ++ [p].
Proof. exact @face_centre_vertices. Qed.
Print Assumptions C13_vertices_face_centre.

(* total vector area / signed volume of the MODEL's output (hypotheses of the per-piece theorems discharged) *)
Theorem C13_geometry_loop_total_area :
  forall (F : Type) (f0 f1 : F) (fadd fmul fsub : F -> F -> F) (fopp : F -> F) (fdiv : F -> F -> F) (finv : F -> F),
  field_theory f0 f1 fadd fmul fsub fopp fdiv finv eq -> two F f1 fadd <> f0 ->
  forall r r' : raw (vec F),
  loop_step (fieldO F f0 f1 fadd fopp fdiv) r = Ok r' -> WF r -> Forall (fun F0 => Zlen F0 = 3) (rf r) ->
  Proofs_GeomM.total_area F f0 fadd fmul fsub r' = Proofs_GeomM.total_area F f0 fadd fmul fsub r.
Proof. exact Proofs_GeomM.loop_step_total_area. Qed.
Print Assumptions C13_geometry_loop_total_area.

Theorem C13_geometry_cell_fan_total_volume :
  forall (F : Type) (f0 f1 : F) (fadd fmul fsub : F -> F -> F) (fopp : F -> F) (fdiv : F -> F -> F) (finv : F -> F),
  field_theory f0 f1 fadd fmul fsub fopp fdiv finv eq -> two F f1 fadd <> f0 ->
  forall (r r' : raw (vec F)) (c A B C D : Z),
  getz (rc r) c = Ok [A; B; C; D] -> split_cell_as_fan (fieldO F f0 f1 fadd fopp fdiv) r c = Ok r' -> WFv r ->
  total_volume F f0 fadd fmul fsub r' = total_volume F f0 fadd fmul fsub r.
Proof. exact cell_fan_total_volume. Qed.
Print Assumptions C13_geometry_cell_fan_total_volume.

(* split_cell_as_fan preserves conformity of the whole mesh (triangles as vertex sets) *)
Theorem C13_topology_cell_fan_conforming : forall (P : Type) (O : pops P) (r r' : raw P) (c A B C D : Z),
  getz (rc r) c = Ok [A; B; C; D] -> split_cell_as_fan O r c = Ok r' -> WFv r -> NoDup [A; B; C; D] ->
  (forall t, ~ In (nV r) t -> uocc (rc r') t = uocc (rc r) t) /\
  (forall t, In (nV r) t -> (uocc (rc r') t <= 2)%nat) /\
  (conforming (rc r) -> conforming (rc r')).
Proof. exact @cell_fan_conforming. Qed.
Print Assumptions C13_topology_cell_fan_conforming.

(* split_tet_from_face_center, the whole loop over the adjacent cells, on the model's output: every side other than the
   split one keeps exactly its owners (border stays border, interior stays interior), nothing appears on old vertices,
   and a conforming mesh of proper tetrahedra (four different vertices, no two cells on the same four vertices) stays so *)
Theorem C13_topology_face_centre_conforming : forall (P : Type) (O : pops P) (r r' : raw P) (fid A B C : Z),
  getz (rf r) fid = Ok [A; B; C] -> split_tet_from_face_center O r fid = Ok r' -> WFv r -> NoDup [A; B; C] ->
  Forall (@NoDup Z) (rc r) ->
  (forall t, ~ In (nV r) t -> seteqz t [A; B; C] = false -> uocc (rc r') t = uocc (rc r) t) /\
  (forall t, (0 < uocc (rc r') t)%nat -> (0 < uocc (rc r) t)%nat \/ In (nV r) t) /\
  (forall t, ~ In (nV r) t -> (uocc (rc r') t <= uocc (rc r) t)%nat) /\
  (conforming (rc r) -> proper_cells (rc r) -> conforming (rc r') /\ proper_cells (rc r')).
Proof. exact @face_centre_conforming. Qed.
Print Assumptions C13_topology_face_centre_conforming.

Theorem C13_topology_cell_fan_proper : forall (P : Type) (O : pops P) (r r' : raw P) (c A B C D : Z),
  getz (rc r) c = Ok [A; B; C; D] -> split_cell_as_fan O r c = Ok r' -> WFv r -> proper_cells (rc r) -> proper_cells (rc r').
Proof. exact @cell_fan_proper. Qed.
Print Assumptions C13_topology_cell_fan_proper.

(* vol_inv: in-range cells of four vertices, faces and cells on different vertices, no two cells on the same four vertices,
   every triangle a side of at most two cells.  It holds for every documented input and is kept by every operation, hence
   by every sequence of operations inside one editing block - no guard on the operations or their order. *)
Theorem C13_accepts_prepared_volume_conforming : forall (P : Type) (V : list P) (C : list (list Z)),
  Forall (cell_ok (Zlen V)) C -> proper_cells C -> conforming C -> vol_inv (pr (prepare (mkraw V [] [] C))).
Proof. exact @prepared_volume_inv. Qed.
Print Assumptions C13_accepts_prepared_volume_conforming.

Theorem C13_topology_volume_step_conforming : forall (P : Type) (O : pops P) (r r' : raw P) (o : vop),
  vstep O r o = Ok r' -> vol_inv r -> vol_inv r'.
Proof. exact @vstep_conforming. Qed.
Print Assumptions C13_topology_volume_step_conforming.

Theorem C13_topology_volume_history_conforming : forall (P : Type) (O : pops P) (ops : list vop) (r r' : raw P),
  foldM (vstep O) ops r = Ok r' -> vol_inv r -> vol_inv r'.
Proof. exact @volume_history_conforming. Qed.
Print Assumptions C13_topology_volume_history_conforming.

(* what the tetrahedral splits do NOT touch: the cells that do not contain the split face (resp. the other cells), the
   other faces, the edge list *)
Theorem C13_topology_face_centre_untouched : forall (P : Type) (O : pops P) (r r' : raw P) (fid A B C : Z),
  getz (rf r) fid = Ok [A; B; C] -> split_tet_from_face_center O r fid = Ok r' ->
  (forall i cell, getz (rc r) i = Ok cell -> fc_adjacent [A; B; C] cell = false -> getz (rc r') i = Ok cell) /\
  (forall j, 0 <= j < nF r -> j <> fid -> getz (rf r') j = getz (rf r) j) /\
  re r' = re r.
Proof. exact @face_centre_untouched. Qed.
Print Assumptions C13_topology_face_centre_untouched.

Theorem C13_topology_cell_fan_untouched : forall (P : Type) (O : pops P) (r r' : raw P) (c A B C D : Z),
  getz (rc r) c = Ok [A; B; C; D] -> split_cell_as_fan O r c = Ok r' ->
  (forall i, 0 <= i < nC r -> i <> c -> getz (rc r') i = getz (rc r) i) /\ rf r' = rf r /\ re r' = re r.
Proof. exact @cell_fan_untouched. Qed.
Print Assumptions C13_topology_cell_fan_untouched.

(* ================================================================== acceptance of every documented input / history *)
Theorem C13_accepts_prepared_surface : forall (P : Type) (V : list P) (F : list (list Z)),
  input_ok (Zlen V) F -> WF (pr (prepare (mkraw V [] F []))).
Proof. exact @prepared_input_WF. Qed.
Print Assumptions C13_accepts_prepared_surface.

Theorem C13_accepts_operation : forall (P : Type) (O : pops P) (s : sstate) (o : sop),
  WF (cur s) -> op_valid (cur s) o -> exists s', sstep O s o = Ok s' /\ WF (cur s').
Proof. exact @sstep_accepts. Qed.
Print Assumptions C13_accepts_operation.

Theorem C13_accepts_history : forall (P : Type) (O : pops P) (a : raw P) (ops : list sop),
  WF a -> hist_valid O (surf_enter a) ops -> exists res, run_surface O a ops = Ok res.
Proof. exact @run_surface_accepts. Qed.
Print Assumptions C13_accepts_history.

Theorem C13_accepts_prepared_volume : forall (P : Type) (V : list P) (C : list (list Z)),
  Forall (cell_ok (Zlen V)) C -> WFv (pr (prepare (mkraw V [] [] C))).
Proof. exact @prepared_volume_WFv. Qed.
Print Assumptions C13_accepts_prepared_volume.

Theorem C13_accepts_volume_history : forall (P : Type) (O : pops P) (ops : list vop) (r : raw P),
  WFv r -> vhist_valid O r ops -> exists p, run_volume O r ops = Ok p.
Proof. exact @volume_history_accepts. Qed.
Print Assumptions C13_accepts_volume_history.

(* ================================================================== the mesh object passed in *)
(* full statement:  forall q a0 ops r, run_surface O a0 ops = Ok r -> input_object_ok q a0 r   -- FALSE, see the two witnesses *)
Theorem C13_input_object_partial : forall (P : Type) (O : pops P) (a0 : raw P) (ops : list sop) (r : sresult),
  Forall in_place_op ops -> run_surface O a0 ops = Ok r -> rebuilt (res_mesh r) = false ->
  arg_is_result (res_mesh r) (res_arg r) /\ input_object_ok false a0 r.
Proof. exact @input_object_partial. Qed.
Print Assumptions C13_input_object_partial.

Theorem C13_input_object_refuted :
  match run_surface QcO (input_surface w_tri_V w_tri_F) [Loop 1] with
  | Ok r => ~ input_object_ok false (input_surface w_tri_V w_tri_F) r
  | Err _ => False
  end.
Proof. exact input_object_refuted_loop. Qed.
Print Assumptions C13_input_object_refuted.

Theorem C13_input_object_stale_refuted :
  match run_surface QcO (input_surface w_tri_V w_tri_F) [Fan 0] with
  | Ok r => ~ input_object_ok true (input_surface w_tri_V w_tri_F) r
  | Err _ => False
  end.
Proof. exact input_object_refuted_stale. Qed.
Print Assumptions C13_input_object_stale_refuted.

(* a manifold input outside the simple ones: triangulate() makes it non-manifold *)
Theorem C13_triangulate_nonsimple_refuted :
  nodupb (dedges_all w_oct_F) = true /\
  match run_surface QcO (input_surface w_oct_V w_oct_F) [Triangulate] with
  | Ok r => nodupb (dedges_all (rf (pr (res_mesh r)))) = false
  | Err _ => False
  end.
Proof. exact triangulate_nonsimple_refuted. Qed.
Print Assumptions C13_triangulate_nonsimple_refuted.

(* two triangles on the same three vertices: loop_subdivision makes the surface non-manifold (E' = 9, not 12; chi 5) *)
Theorem C13_loop_same_vertex_triangles_refuted :
  nodupb (dedges_all w_pillow_F) = true /\
  match run_surface QcO (input_surface w_pillow_V w_pillow_F) [Loop 1] with
  | Ok r => nodupb (dedges_all (rf (pr (res_mesh r)))) = false /\
            Zlen (re (pr (res_mesh r))) = 9 /\ Zlen (rv (pr (res_mesh r))) - Zlen (re (pr (res_mesh r))) + Zlen (rf (pr (res_mesh r))) = 5
  | Err _ => False
  end.
Proof. exact loop_same_vertex_triangles_refuted. Qed.
Print Assumptions C13_loop_same_vertex_triangles_refuted.
