(* C13 property theorems only: each closed by `exact <lemma>` with Print Assumptions beneath. *)
From Coq Require Import ZArith List Bool.
Require Import MV.Lib.Base MV.C13.Defs MV.C13.Gen MV.C13.Model MV.C13.Proofs.

Theorem C13_tmp : forall A (a b : list A), Zlen (a ++ b) = (Zlen a + Zlen b)%Z.
Proof. exact @Zlen_app. Qed.
Print Assumptions C13_tmp.
