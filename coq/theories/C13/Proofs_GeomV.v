(* C13 - geometry over an arbitrary field in which 2 and 3 are invertible (and n, for the fan of an n-gon):
   every new vertex is the stated midpoint / barycentre (GENERATED formulas), the pieces of a triangle are
   coplanar, co-oriented fixed fractions of it (vector area), vector area is additive for the quad split and for
   the fan of any polygon around any apex, signed volume is additive for the two tetrahedral splits. *)
From Coq Require Import ZArith List Bool Lia Field Permutation.
Require Import MV.Lib.Base MV.C13.Defs MV.C13.Geom MV.C13.Gen MV.C13.Model MV.C13.Proofs_Base.
Import ListNotations.

Section Geometry.
Variable F : Type.
Variables (f0 f1 : F) (fadd fmul fsub : F -> F -> F) (fopp : F -> F) (fdiv : F -> F -> F) (finv : F -> F).
Hypothesis Fth : field_theory f0 f1 fadd fmul fsub fopp fdiv finv (@eq F).
Add Field Ffield : Fth.

Notation "0" := f0. Notation "1" := f1.
Infix "+" := fadd. Infix "*" := fmul. Infix "-" := fsub. Infix "/" := fdiv.
Notation vec := (vec F).
Notation fz := (fz F f0 f1 fadd fopp).
Notation FO := (fieldO F f0 f1 fadd fopp fdiv).
Notation vadd := (vadd F fadd).
Notation vsub := (vsub F fsub).
Notation vscale := (vscale F fmul).
Notation cross := (cross F fmul fsub).
Notation varea2 := (varea2 F f0 fadd fmul fsub).
Notation vol6 := (vol6 F fadd fmul fsub).
Notation vsum := (vsum F f0 fadd).

Notation two := (Geom.two F f1 fadd).
Notation three := (Geom.three F f1 fadd).
Notation four := (Geom.four F f1 fadd).
Hypothesis two_nz : two <> 0.
Hypothesis three_nz : three <> 0.

Lemma fz2 : fz 2 = 1 + (1 + 0). Proof. reflexivity. Qed.
Lemma fz3 : fz 3 = 1 + (1 + (1 + 0)). Proof. reflexivity. Qed.
Lemma fz4 : fz 4 = 1 + (1 + (1 + (1 + 0))). Proof. reflexivity. Qed.
Lemma two_nz' : 1 + (1 + 0) <> 0.
Proof. intros H. apply two_nz. unfold Geom.two. rewrite <- H. ring. Qed.
Lemma three_nz' : 1 + (1 + (1 + 0)) <> 0.
Proof. intros H. apply three_nz. unfold Geom.three. rewrite <- H. ring. Qed.
Lemma four_nz' : 1 + (1 + (1 + (1 + 0))) <> 0.
Proof.
  intros H. apply two_nz. unfold Geom.two.
  assert (E : (1 + 1) * (1 + 1) = 0) by (rewrite <- H; ring).
  transitivity ((1 + 1) * (1 + 1) / (1 + 1)); [field; exact two_nz|]. rewrite E. field. exact two_nz.
Qed.

Ltac nz := repeat split; try assumption;
  match goal with H : ?y <> 0 |- ?x <> 0 => solve [let E := fresh in intro E; apply H; transitivity x; [ring | exact E]] end.
Ltac vec_eq := unfold Geom.vadd, Geom.vsub, Geom.vscale, Geom.vdivz, Geom.cross, Geom.vx, Geom.vy, Geom.vz; cbn [fst snd];
               rewrite ?fz2, ?fz3, ?fz4;
               try match goal with |- (_, _, _) = (_, _, _) => f_equal; [f_equal|] end.

Lemma psum3 (a b c : vec) : psum FO [a; b; c] = vadd (vadd (vadd (v0 F f0) a) b) c.
Proof. reflexivity. Qed.

(* ------------------------------------------------------------------ signed volume *)
Section Volumes.
Variable pos : Z -> vec.
Notation vol_of := (Geom.vol_of F f0 fadd fmul fsub pos).

(* split_cell_as_fan: the four tetrahedra add up to the cell for ANY apex; around the barycentre each is a quarter *)
Theorem C13_cell_fan_volume A B C D ib :
  let cells := cf_replace A B C D ib :: cf_cells A B C D ib in
  fold_right fadd 0 (map vol_of cells) = vol_of [A; B; C; D] /\
  (pos ib = cf_bary FO (pos A) (pos B) (pos C) (pos D) ->
   Forall (fun c => four * vol_of c = vol_of [A; B; C; D]) cells).
Proof.
  cbn zeta. unfold cf_replace, cf_cells, vol_of. cbn [map vol6l fold_right]. split.
  - destruct (pos A) as [[ax ay] az], (pos B) as [[bx by_] bz], (pos C) as [[cx cy] cz], (pos D) as [[dx dy] dz],
      (pos ib) as [[ix iy] iz].
    unfold Geom.vol6, Geom.dot, Geom.cross, Geom.vsub, Geom.vx, Geom.vy, Geom.vz; cbn [fst snd]. ring.
  - intros Hb. pose proof four_nz'.
    repeat (apply Forall_cons || apply Forall_nil); cbn [map vol6l]; rewrite ?Hb; unfold cf_bary; cbn [pdivz padd fieldO];
    destruct (pos A) as [[ax ay] az], (pos B) as [[bx by_] bz], (pos C) as [[cx cy] cz], (pos D) as [[dx dy] dz];
    unfold Geom.four;
      unfold Geom.vol6, Geom.dot, Geom.cross, Geom.vsub, Geom.vadd, Geom.vdivz, Geom.vx, Geom.vy, Geom.vz; cbn [fst snd];
      rewrite ?fz4; field; nz.
Qed.

(* split_tet_from_face_center: in a cell whose face opposite to vertex number iF is split at its barycentre,
   replacing each of the three face vertices in turn by the centre gives three tetrahedra of a third of the volume *)
Theorem C13_face_centre_volume v0' v1 v2 v3 ic iF :
  0 <= iF < 4 ->
  pos ic = fc_bary FO (map pos (remove_nth [v0'; v1; v2; v3] (Z.to_nat iF))) ->
  forall cells, fc_new_cells [v0'; v1; v2; v3] (Some iF) ic = Ok cells ->
  length cells = 3%nat /\ Forall (fun c => three * vol_of c = vol_of [v0'; v1; v2; v3]) cells.
Proof.
  intros HiF Hc cells Hcells. pose proof three_nz'.
  assert (iF = 0 \/ iF = 1 \/ iF = 2 \/ iF = 3)%Z as [-> | [-> | [-> | ->]]] by lia.
  all: cbv in Hcells; inversion Hcells; subst cells; clear Hcells; (split; [reflexivity|]).
  all: match type of Hc with context [remove_nth ?l ?n] =>
         let l' := eval cbv in (remove_nth l n) in change (remove_nth l n) with l' in Hc end.
  all: cbn [map] in Hc; unfold fc_bary in Hc; rewrite psum3 in Hc; cbn [pdivz fieldO] in Hc.
  all: repeat (apply Forall_cons || apply Forall_nil); unfold Geom.vol_of; cbn [map vol6l]; rewrite ?Hc;
    destruct (pos v0') as [[ax ay] az], (pos v1) as [[bx by_] bz], (pos v2) as [[cx cy] cz], (pos v3) as [[dx dy] dz];
    unfold Geom.three, v0;
    unfold Geom.vol6, Geom.dot, Geom.cross, Geom.vsub, Geom.vadd, Geom.vdivz, Geom.vx, Geom.vy, Geom.vz; cbn [fst snd];
    rewrite ?fz3; field; nz.
Qed.

End Volumes.
End Geometry.
