(* C14 - unit_triangle(nu, nv): all nu, nv >= 2 (the source as repaired: row j holds min(j+1, nu) vertices and the
   faces are indexed with those row lengths).  Proved for all parameters: vertex count, indices in range, every
   vertex used, simple faces, no directed edge repeated.  Border loop, Euler characteristic and connectedness
   of this generator are established by the sound run-time checker on every tested parameter pair only. *)
From Coq Require Import ZArith List Bool Lia ZifyBool.
Import ListNotations.
Require Import MV.Lib.Base MV.C14.Model MV.C14.Gen MV.C14.ProofsLib.
Open Scope Z_scope.

(* index of the first vertex of row j *)
Definition roff (nu j : Z) : Z := let m := Z.min j nu in (m * (m + 1)) / 2 + (j - m) * nu.
Definition rlen (nu j : Z) : Z := Z.min (j + 1) nu.

Lemma tri_succ m : 0 <= m -> ((m + 1) * (m + 1 + 1)) / 2 = (m * (m + 1)) / 2 + (m + 1).
Proof.
  intros H. replace ((m + 1) * (m + 1 + 1)) with (m * (m + 1) + (m + 1) * 2) by ring.
  rewrite Z.div_add by lia. reflexivity.
Qed.

Lemma roff_succ nu j : 0 <= j -> 1 <= nu -> roff nu (j + 1) = roff nu j + rlen nu j.
Proof.
  intros Hj Hn. unfold roff, rlen. cbv zeta.
  destruct (Z_lt_le_dec j nu) as [L|L].
  - rewrite (Z.min_l j nu), (Z.min_l (j + 1) nu) by lia. rewrite tri_succ by lia. lia.
  - rewrite (Z.min_r j nu), (Z.min_r (j + 1) nu) by lia. lia.
Qed.
Lemma roff_0 nu : 1 <= nu -> roff nu 0 = 0.
Proof. intros. unfold roff. cbv zeta. rewrite Z.min_l by lia. reflexivity. Qed.
Lemma rlen_pos nu j : 0 <= j -> 1 <= nu -> 1 <= rlen nu j <= nu.
Proof. unfold rlen. lia. Qed.

Lemma roff_mono nu a b : 1 <= nu -> 0 <= a <= b -> roff nu a <= roff nu b.
Proof.
  intros Hn [Ha Hab]. replace b with (a + (b - a)) by lia.
  assert (Hd : 0 <= b - a) by lia. revert Hd. generalize (b - a). intros d Hd.
  pattern d. apply natlike_ind; [rewrite Z.add_0_r; lia | | exact Hd].
  intros x Hx IH. unfold Z.succ. rewrite Z.add_assoc, roff_succ by lia.
  pose proof (rlen_pos nu (a + x) ltac:(lia) Hn). lia.
Qed.
Lemma roff_nonneg nu j : 1 <= nu -> 0 <= j -> 0 <= roff nu j.
Proof. intros. rewrite <- (roff_0 nu) by lia. apply roff_mono; lia. Qed.

(* a vertex id determines its row and column *)
Lemma roff_inj nu j i j' i' : 1 <= nu -> 0 <= j -> 0 <= j' -> 0 <= i < rlen nu j -> 0 <= i' < rlen nu j' ->
  roff nu j + i = roff nu j' + i' -> j = j' /\ i = i'.
Proof.
  intros Hn Hj Hj' Hi Hi' E.
  destruct (Z.lt_trichotomy j j') as [L|[->|L]].
  - pose proof (roff_mono nu (j + 1) j' Hn ltac:(lia)). rewrite roff_succ in H by lia. lia.
  - lia.
  - pose proof (roff_mono nu (j' + 1) j Hn ltac:(lia)). rewrite roff_succ in H by lia. lia.
Qed.

(* ------------------------------------------------------------------ the loop nests in terms of roff *)
Definition tricell (nu j i : Z) : list (list Z) :=
  let kpt := roff nu j + i in let knx := roff nu (j + 1) + i in
  (if (i <? j) && (i <? nu - 1) then [[kpt; knx + 1; kpt + 1]] else [])
  ++ (if i <? nu - 1 then [[kpt; knx; knx + 1]] else []).

Lemma tri_faces_In nu nv u f : 2 <= nu -> 2 <= nv ->
  In f (unit_triangle_faces nu nv u) <->
  exists j i, 0 <= j < nv - 1 /\ 0 <= i < rlen nu j /\ In f (tricell nu j i).
Proof.
  intros Hu Hv. unfold unit_triangle_faces. rewrite in_flat_map. split.
  - intros [j [Hj H]]. apply In_zrange in Hj. apply in_flat_map in H as [i [Hi H]].
    apply In_ztake_while_zrange in Hi.
    2:{ intros a b Hab Hb. destruct (j =? nv - 1); [rewrite orb_true_r in Hb; discriminate|].
        rewrite orb_false_r in *. lia. }
    destruct Hi as [Hi Hp]. exists j, i. unfold rlen.
    assert (j <> nv - 1 /\ i <= j) by (destruct (j =? nv - 1) eqn:E; [rewrite orb_true_r in Hp; discriminate | rewrite orb_false_r in Hp; lia]).
    split; [lia|]. split; [lia|]. exact H.
  - intros [j [i [Hj [Hi H]]]]. unfold rlen in Hi. exists j. split; [apply In_zrange; lia|].
    apply in_flat_map. exists i. split; [|exact H].
    apply In_ztake_while_zrange.
    + intros a b Hab Hb. destruct (j =? nv - 1); [rewrite orb_true_r in Hb; discriminate|].
      rewrite orb_false_r in *. lia.
    + split; [lia|]. replace (j =? nv - 1) with false by lia. rewrite orb_false_r. lia.
Qed.

Lemma tri_dedge_In nu nv u e : 2 <= nu -> 2 <= nv ->
  In e (dedges (unit_triangle_faces nu nv u)) <->
  exists j i, 0 <= j < nv - 1 /\ 0 <= i < rlen nu j /\ In e (dedges (tricell nu j i)).
Proof.
  intros Hu Hv. rewrite In_dedges. split.
  - intros [f [Hf He]]. apply tri_faces_In in Hf as [j [i [Hj [Hi Hf]]]]; try lia. exists j, i.
    split; auto. split; auto. apply In_dedges. exists f. auto.
  - intros [j [i [Hj [Hi He]]]]. apply In_dedges in He as [f [Hf He]]. exists f. split; auto.
    apply tri_faces_In; try lia. exists j, i. auto.
Qed.

(* number of vertices: the rows 0..nv-1 *)
Lemma tri_row_eq nu j : 0 <= j -> 1 <= nu ->
  ztake_while (fun i => negb (j <? i)) (zrange nu) = zrange (rlen nu j).
Proof.
  intros Hj Hn. unfold rlen. apply ztake_while_zrange_prefix; try lia.
Qed.
Lemma tri_nverts nu nv u : 1 <= nu -> 0 <= nv -> unit_triangle_nverts nu nv u = roff nu nv.
Proof.
  intros Hu Hv. unfold unit_triangle_nverts, unit_triangle_vsites.
  rewrite zlen_flat_map_zrange.
  pattern nv. apply natlike_ind; [ | | exact Hv].
  - rewrite zsum_0, roff_0 by lia. reflexivity.
  - intros x Hx IH. unfold Z.succ. rewrite zsum_succ, IH, roff_succ by lia. f_equal.
    rewrite tri_row_eq by lia. rewrite (zlen_flat_map_const _ _ 1) by (intros; reflexivity).
    pose proof (rlen_pos nu x Hx Hu). rewrite zlen_zrange by lia. lia.
Qed.
(* for nu >= nv the rows are all full: nv (nv + 1) / 2 vertices *)
Lemma tri_nverts_full nu nv u : 1 <= nv <= nu -> unit_triangle_nverts nu nv u = (nv * (nv + 1)) / 2.
Proof.
  intros H. rewrite tri_nverts by lia. unfold roff. cbv zeta. rewrite Z.min_l by lia. lia.
Qed.

Ltac tri_facts nu j :=
  pose proof (roff_succ nu j ltac:(lia) ltac:(lia));
  pose proof (roff_succ nu (j + 1) ltac:(lia) ltac:(lia));
  pose proof (roff_nonneg nu j ltac:(lia) ltac:(lia));
  unfold rlen in *.

Lemma tri_in_range nu nv u : 2 <= nu -> 2 <= nv ->
  in_range (unit_triangle_nverts nu nv u) (unit_triangle_faces nu nv u).
Proof.
  intros Hu Hv. rewrite tri_nverts by lia. apply Forall_forall. intros f Hf. apply Forall_forall. intros v Hv'.
  apply tri_faces_In in Hf as [j [i [Hj [Hi Hf]]]]; try lia.
  pose proof (roff_mono nu (j + 2) nv ltac:(lia) ltac:(lia)) as Hm.
  replace (j + 2) with (j + 1 + 1) in Hm by lia. tri_facts nu j.
  unfold tricell in Hf. cbv zeta in Hf. apply in_app_iff in Hf as [Hf|Hf].
  - destruct ((i <? j) && (i <? nu - 1)) eqn:C; [|destruct Hf]. lsimpl_in Hf. split_or Hf. subst f.
    lsimpl_in Hv'. split_or Hv'; subst v; lia.
  - destruct (i <? nu - 1) eqn:C; [|destruct Hf]. lsimpl_in Hf. split_or Hf. subst f.
    lsimpl_in Hv'. split_or Hv'; subst v; lia.
Qed.

Lemma tri_faces_simple nu nv u : 2 <= nu -> 2 <= nv -> faces_simple (unit_triangle_faces nu nv u).
Proof.
  intros Hu Hv. apply Forall_forall. intros f Hf.
  apply tri_faces_In in Hf as [j [i [Hj [Hi Hf]]]]; try lia. tri_facts nu j.
  unfold tricell in Hf. cbv zeta in Hf. apply in_app_iff in Hf as [Hf|Hf].
  - destruct ((i <? j) && (i <? nu - 1)) eqn:C; [|destruct Hf]. lsimpl_in Hf. split_or Hf. subst f.
    split; [simpl; lia|]. repeat constructor; lsimpl; lia.
  - destruct (i <? nu - 1) eqn:C; [|destruct Hf]. lsimpl_in Hf. split_or Hf. subst f.
    split; [simpl; lia|]. repeat constructor; lsimpl; lia.
Qed.

(* every vertex (row r, column c) is a corner of a face *)
Lemma tri_all_used nu nv u : 2 <= nu -> 2 <= nv ->
  all_used (unit_triangle_nverts nu nv u) (unit_triangle_faces nu nv u).
Proof.
  intros Hu Hv. rewrite tri_nverts by lia. intros v Hv'.
  (* find the row of v: the largest r with roff r <= v *)
  assert (Hrow : exists r c, 0 <= r < nv /\ 0 <= c < rlen nu r /\ v = roff nu r + c).
  { assert (G : forall n, 0 <= n -> forall w, 0 <= w < roff nu n -> exists r c, 0 <= r < n /\ 0 <= c < rlen nu r /\ w = roff nu r + c).
    { intros n Hn. pattern n. apply natlike_ind; [ | | exact Hn].
      - intros w Hw. rewrite roff_0 in Hw by lia. lia.
      - intros x Hx IH w Hw. unfold Z.succ in *. rewrite roff_succ in Hw by lia.
        destruct (Z_lt_le_dec w (roff nu x)) as [L|L].
        + destruct (IH w ltac:(lia)) as [r [c [Hr [Hc E]]]]. exists r, c. split; [lia|]. auto.
        + exists x, (w - roff nu x). split; [lia|]. split; [lia|]. lia. }
    apply (G nv); lia. }
  destruct Hrow as [r [c [Hr [Hc Ev]]]]. unfold rlen in Hc.
  assert (IN : forall j i f, 0 <= j < nv - 1 -> 0 <= i < Z.min (j + 1) nu -> In f (tricell nu j i) -> In f (unit_triangle_faces nu nv u)).
  { intros j i f Hj Hi Hf. apply tri_faces_In; try lia. exists j, i. unfold rlen. auto. }
  destruct (Z_lt_le_dec r (nv - 1)) as [Lr|Lr].
  - (* a row that has a row below *)
    destruct (Z_lt_le_dec c (nu - 1)) as [Lc|Lc].
    + (* first corner of the lower triangle of cell (r, c) *)
      exists [roff nu r + c; roff nu (r + 1) + c; roff nu (r + 1) + c + 1]. split; [|left; lia].
      apply (IN r c); [lia|lia|]. unfold tricell. cbv zeta. apply in_app_iff. right.
      replace (c <? nu - 1) with true by lia. left. reflexivity.
    + (* last column c = nu - 1 (only in cut rows, r >= nu - 1 >= 1): third corner of the upper triangle of cell (r, c-1) *)
      assert (c = nu - 1) by lia. subst c.
      exists [roff nu r + (nu - 2); roff nu (r + 1) + (nu - 2) + 1; roff nu r + (nu - 2) + 1]. split; [|right; right; left; lia].
      apply (IN r (nu - 2)); [lia|lia|]. unfold tricell. cbv zeta. apply in_app_iff. left.
      replace ((nu - 2 <? r) && (nu - 2 <? nu - 1)) with true by lia. left. reflexivity.
  - (* the last row: corners of the lower triangles of the row above *)
    assert (r = nv - 1) by lia. subst r.
    pose proof (roff_succ nu (nv - 2) ltac:(lia) ltac:(lia)) as RS. replace (nv - 2 + 1) with (nv - 1) in RS by lia.
    unfold rlen in RS.
    destruct (Z.eq_dec c 0) as [->|C0].
    + exists [roff nu (nv - 2) + 0; roff nu (nv - 2 + 1) + 0; roff nu (nv - 2 + 1) + 0 + 1]. split.
      * apply (IN (nv - 2) 0); [lia|lia|]. unfold tricell. cbv zeta. apply in_app_iff. right.
        replace (0 <? nu - 1) with true by lia. left. reflexivity.
      * right. left. replace (nv - 2 + 1) with (nv - 1) by lia. lia.
    + exists [roff nu (nv - 2) + (c - 1); roff nu (nv - 2 + 1) + (c - 1); roff nu (nv - 2 + 1) + (c - 1) + 1]. split.
      * apply (IN (nv - 2) (c - 1)); [lia|lia|]. unfold tricell. cbv zeta. apply in_app_iff. right.
        replace (c - 1 <? nu - 1) with true by lia. left. reflexivity.
      * right. right. left. replace (nv - 2 + 1) with (nv - 1) by lia. lia.
Qed.

(* ------------------------------------------------------------------ oriented manifold *)
Lemma tricell_edges_inj nu j i j' i' e : 2 <= nu -> 0 <= j -> 0 <= j' -> 0 <= i < rlen nu j -> 0 <= i' < rlen nu j' ->
  In e (dedges (tricell nu j i)) -> In e (dedges (tricell nu j' i')) -> j = j' /\ i = i'.
Proof.
  intros Hu Hj Hj' Hi Hi' H H'.
  pose proof (roff_succ nu j ltac:(lia) ltac:(lia)) as S1.
  pose proof (roff_succ nu (j + 1) ltac:(lia) ltac:(lia)) as S2.
  pose proof (roff_succ nu j' ltac:(lia) ltac:(lia)) as S1'.
  pose proof (roff_succ nu (j' + 1) ltac:(lia) ltac:(lia)) as S2'.
  assert (M : (j + 2 <= j' -> roff nu (j + 1 + 1) <= roff nu j') /\ (j' + 2 <= j -> roff nu (j' + 1 + 1) <= roff nu j)).
  { split; intros; apply roff_mono; lia. }
  destruct M as [M1 M2].
  assert (C : j + 2 <= j' \/ j' = j + 1 \/ j' = j \/ j = j' + 1 \/ j' + 2 <= j) by lia.
  unfold rlen in *. unfold tricell in H, H'. cbv zeta in H, H'. rewrite dedges_app in H, H'.
  destruct ((i <? j) && (i <? nu - 1)) eqn:C1, (i <? nu - 1) eqn:C2,
           ((i' <? j') && (i' <? nu - 1)) eqn:C1', (i' <? nu - 1) eqn:C2';
    lsimpl_in H; lsimpl_in H'; split_or H; subst e; split_or H'; pinj H';
    destruct C as [C|[C|[C|[C|C]]]]; try (specialize (M1 C)); try (specialize (M2 C)); subst; lia.
Qed.

Lemma tricell_edges_NoDup nu j i : 2 <= nu -> 0 <= j -> 0 <= i < rlen nu j -> NoDup (dedges (tricell nu j i)).
Proof.
  intros Hu Hj Hi.
  pose proof (roff_succ nu j ltac:(lia) ltac:(lia)) as S1. unfold rlen in *.
  unfold tricell. cbv zeta. rewrite dedges_app.
  destruct ((i <? j) && (i <? nu - 1)) eqn:C1, (i <? nu - 1) eqn:C2; lsimpl;
    repeat constructor; lsimpl; intros H; split_or H; pinj H; lia.
Qed.

Lemma tri_dedges_eq nu nv u : 2 <= nu -> 2 <= nv ->
  dedges (unit_triangle_faces nu nv u) =
  flat_map (fun j => flat_map (fun i => dedges (tricell nu j i))
              (ztake_while (fun i => negb ((j <? i) || (j =? nv - 1))) (zrange nu))) (zrange nv).
Proof.
  intros. unfold unit_triangle_faces. rewrite dedges_flat_map. apply flat_map_ext_in. intros j _.
  rewrite dedges_flat_map. reflexivity.
Qed.

Lemma NoDup_ztake_while p l : NoDup l -> NoDup (ztake_while p l).
Proof.
  induction l as [|a l IH]; intros H; simpl; [constructor|]. inversion H; subst.
  destruct (p a); [|constructor]. constructor; auto.
  intros Hin. apply H2. clear -Hin. induction l as [|b l IHl]; simpl in *; [destruct Hin|].
  destruct (p b); [|destruct Hin]. destruct Hin as [->|Hin]; [left; auto | right; auto].
Qed.

Lemma tri_oriented_manifold nu nv u : 2 <= nu -> 2 <= nv -> oriented_manifold (unit_triangle_faces nu nv u).
Proof.
  intros Hu Hv. unfold oriented_manifold. rewrite tri_dedges_eq by lia.
  assert (Dom : forall j i, 0 <= j < nv -> In i (ztake_while (fun i => negb ((j <? i) || (j =? nv - 1))) (zrange nu)) ->
                0 <= i < rlen nu j /\ j < nv - 1).
  { intros j i Hj Hi. apply In_ztake_while_zrange in Hi.
    2:{ intros a b Hab Hb. destruct (j =? nv - 1); [rewrite orb_true_r in Hb; discriminate|]. rewrite orb_false_r in *. lia. }
    destruct Hi as [Hi Hp]. unfold rlen.
    destruct (j =? nv - 1) eqn:E; [rewrite orb_true_r in Hp; discriminate | rewrite orb_false_r in Hp; lia]. }
  apply NoDup_flat_map; [apply NoDup_zrange | |].
  - intros j Hj. apply In_zrange in Hj. apply NoDup_flat_map; [apply NoDup_ztake_while, NoDup_zrange | |].
    + intros i Hi. destruct (Dom j i Hj Hi). apply tricell_edges_NoDup; lia.
    + intros i i' e Hi Hi' Hne H H'. destruct (Dom j i Hj Hi), (Dom j i' Hj Hi').
      destruct (tricell_edges_inj nu j i j i' e); auto; lia.
  - intros j j' e Hj Hj' Hne H H'. apply In_zrange in Hj, Hj'.
    apply in_flat_map in H as [i [Hi H]]. apply in_flat_map in H' as [i' [Hi' H']].
    destruct (Dom j i Hj Hi), (Dom j' i' Hj' Hi').
    destruct (tricell_edges_inj nu j i j' i' e); auto; lia.
Qed.

(* ------------------------------------------------------------------ connected: every vertex but the first has a smaller neighbour *)
Lemma tri_connected nu nv u : 2 <= nu -> 2 <= nv ->
  connected (unit_triangle_nverts nu nv u) (unit_triangle_faces nu nv u).
Proof.
  intros Hu Hv. rewrite tri_nverts by lia. apply connected_by_descent. intros v Hv'. unfold adjacent.
  assert (Hrow : exists r c, 0 <= r < nv /\ 0 <= c < rlen nu r /\ v = roff nu r + c).
  { assert (G : forall n, 0 <= n -> forall w, 0 <= w < roff nu n -> exists r c, 0 <= r < n /\ 0 <= c < rlen nu r /\ w = roff nu r + c).
    { intros n Hn. pattern n. apply natlike_ind; [ | | exact Hn].
      - intros w Hw. rewrite roff_0 in Hw by lia. lia.
      - intros x Hx IH w Hw. unfold Z.succ in *. rewrite roff_succ in Hw by lia.
        destruct (Z_lt_le_dec w (roff nu x)) as [L|L].
        + destruct (IH w ltac:(lia)) as [r [c [Hr [Hc E]]]]. exists r, c. split; [lia|]. auto.
        + exists x, (w - roff nu x). split; [lia|]. split; [lia|]. lia. }
    apply (G nv); lia. }
  destruct Hrow as [r [c [Hr [Hc Ev]]]]. unfold rlen in Hc.
  assert (IN : forall j i e, 0 <= j < nv - 1 -> 0 <= i < Z.min (j + 1) nu -> In e (dedges (tricell nu j i)) ->
                In e (dedges (unit_triangle_faces nu nv u))).
  { intros j i e Hj Hi He. apply tri_dedge_In; try lia. exists j, i. unfold rlen. auto. }
  destruct (Z.eq_dec c 0) as [->|C0].
  - (* first vertex of row r > 0: joined to the first vertex of the row above by the lower triangle of cell (r-1, 0) *)
    assert (0 < r) by (destruct (Z.eq_dec r 0) as [->|]; [rewrite roff_0 in Ev by lia; lia | lia]).
    exists (roff nu (r - 1) + 0). pose proof (roff_succ nu (r - 1) ltac:(lia) ltac:(lia)) as RS.
    replace (r - 1 + 1) with r in RS by lia. unfold rlen in RS. split; [pose proof (roff_nonneg nu (r - 1) ltac:(lia) ltac:(lia)); lia|].
    left. apply (IN (r - 1) 0); [lia|lia|]. unfold tricell. cbv zeta. rewrite dedges_app. apply in_app_iff. right.
    replace (0 <? nu - 1) with true by lia. replace (r - 1 + 1) with r by lia. lsimpl. left. f_equal; lia.
  - (* c > 0: joined to its left neighbour *)
    exists (v - 1). pose proof (roff_nonneg nu r ltac:(lia) ltac:(lia)). split; [lia|].
    destruct (Z_lt_le_dec r (nv - 1)) as [Lr|Lr].
    + (* upper triangle of cell (r, c-1): edge (kpt + 1, kpt) *)
      right. apply (IN r (c - 1)); [lia|lia|]. unfold tricell. cbv zeta. rewrite dedges_app. apply in_app_iff. left.
      replace ((c - 1 <? r) && (c - 1 <? nu - 1)) with true by lia. lsimpl. right. right. left. f_equal; lia.
    + (* last row: lower triangle of cell (r-1, c-1): edge (knx, knx + 1) *)
      assert (r = nv - 1) by lia. subst r.
      left. apply (IN (nv - 2) (c - 1)); [lia|lia|]. unfold tricell. cbv zeta. rewrite dedges_app. apply in_app_iff. right.
      replace (c - 1 <? nu - 1) with true by lia. replace (nv - 2 + 1) with (nv - 1) by lia. lsimpl. right. left. f_equal; lia.
Qed.

(* ------------------------------------------------------------------ vertex umbrellas *)
Require Import MV.C14.ProofsFan.

Lemma tri_links nu nv u v n p : 2 <= nu -> 2 <= nv ->
  In (n, p) (links (unit_triangle_faces nu nv u) v) <->
  exists j i, 0 <= j < nv - 1 /\ 0 <= i < rlen nu j /\
    let kpt := roff nu j + i in let knx := roff nu (j + 1) + i in
    ((i < j /\ i < nu - 1) /\ ((v = kpt /\ n = knx + 1 /\ p = kpt + 1) \/ (v = knx + 1 /\ n = kpt + 1 /\ p = kpt) \/ (v = kpt + 1 /\ n = kpt /\ p = knx + 1)))
    \/ (i < nu - 1 /\ ((v = kpt /\ n = knx /\ p = knx + 1) \/ (v = knx /\ n = knx + 1 /\ p = kpt) \/ (v = knx + 1 /\ n = kpt /\ p = knx))).
Proof.
  intros Hu Hv. rewrite links_In. split.
  - intros [f [Hf H]]. apply tri_faces_In in Hf as [j [i [Hj [Hi Hf]]]]; try lia. exists j, i. split; auto. split; auto.
    cbv zeta. unfold tricell in Hf. cbv zeta in Hf. apply in_app_iff in Hf as [Hf|Hf].
    + destruct ((i <? j) && (i <? nu - 1)) eqn:C; [|destruct Hf]. destruct Hf as [<-|[]]. left. split; [lia|].
      apply tri_corner. exact H.
    + destruct (i <? nu - 1) eqn:C; [|destruct Hf]. destruct Hf as [<-|[]]. right. split; [lia|].
      apply tri_corner. exact H.
  - intros [j [i [Hj [Hi H]]]]. cbv zeta in H. destruct H as [[C H]|[C H]].
    + exists [roff nu j + i; roff nu (j + 1) + i + 1; roff nu j + i + 1]. split; [|apply tri_corner; exact H].
      apply tri_faces_In; try lia. exists j, i. split; auto. split; auto. unfold tricell. cbv zeta. apply in_app_iff. left.
      replace ((i <? j) && (i <? nu - 1)) with true by lia. left. reflexivity.
    + exists [roff nu j + i; roff nu (j + 1) + i; roff nu (j + 1) + i + 1]. split; [|apply tri_corner; exact H].
      apply tri_faces_In; try lia. exists j, i. split; auto. split; auto. unfold tricell. cbv zeta. apply in_app_iff. right.
      replace (i <? nu - 1) with true by lia. left. reflexivity.
Qed.

(* the (up to) six corners at vertex (r, c), in rotational order *)
Definition tid (nu r c : Z) : Z := roff nu r + c.
Definition tE1 nu nv r c := if (r <? nv - 1) && (c <? r) && (c <? nu - 1) then [(tid nu (r + 1) (c + 1), tid nu r (c + 1))] else [].
Definition tE2 nu (nv : Z) r c := if (c <? r) && (c <? nu - 1) then [(tid nu r (c + 1), tid nu (r - 1) c)] else [].
Definition tE3 nu (nv : Z) r c := if (0 <? c) && (c <? r) then [(tid nu (r - 1) c, tid nu (r - 1) (c - 1))] else [].
Definition tE4 nu (nv : Z) (r : Z) c := if 0 <? c then [(tid nu (r - 1) (c - 1), tid nu r (c - 1))] else [].
Definition tE5 nu nv r c := if (r <? nv - 1) && (0 <? c) then [(tid nu r (c - 1), tid nu (r + 1) c)] else [].
Definition tE6 nu nv r c := if (r <? nv - 1) && (c <? nu - 1) then [(tid nu (r + 1) c, tid nu (r + 1) (c + 1))] else [].

Lemma tri_links_cells nu nv u r c x : 2 <= nu -> 2 <= nv -> 0 <= r < nv -> 0 <= c < rlen nu r ->
  In x (links (unit_triangle_faces nu nv u) (tid nu r c)) <->
  In x (tE1 nu nv r c ++ tE2 nu nv r c ++ tE3 nu nv r c ++ tE4 nu nv r c ++ tE5 nu nv r c ++ tE6 nu nv r c).
Proof.
  intros Hu Hv Hr Hc. destruct x as [n p]. rewrite tri_links by lia. rewrite !in_app_iff. unfold tid. split.
  - intros [j [i [Hj [Hi H]]]]. cbv zeta in H. unfold rlen in *.
    pose proof (roff_succ nu j ltac:(lia) ltac:(lia)) as S1. unfold rlen in S1.
    destruct H as [[C H]|[C H]]; split_or H; destruct H as [E [-> ->]].
    + (* A(j,i) first corner: (r,c) = (j,i) *)
      apply roff_inj in E; unfold rlen; try lia. destruct E as [-> ->]. left. unfold tE1.
      replace ((j <? nv - 1) && (i <? j) && (i <? nu - 1)) with true by lia. left. unfold tid. f_equal; lia.
    + (* A(j,i) second corner: (r,c) = (j+1,i+1) *)
      replace (roff nu (j + 1) + i + 1) with (roff nu (j + 1) + (i + 1)) in E by lia.
      apply roff_inj in E; unfold rlen; try lia. destruct E as [-> ->]. right. right. left. unfold tE3.
      replace ((0 <? i + 1) && (i + 1 <? j + 1)) with true by lia. left. unfold tid.
      replace (j + 1 - 1) with j by lia. replace (i + 1 - 1) with i by lia. f_equal; lia.
    + (* A(j,i) third corner: (r,c) = (j,i+1) *)
      replace (roff nu j + i + 1) with (roff nu j + (i + 1)) in E by lia.
      apply roff_inj in E; unfold rlen; try lia. destruct E as [-> ->]. right. right. right. right. left. unfold tE5.
      replace ((j <? nv - 1) && (0 <? i + 1)) with true by lia. left. unfold tid.
      replace (i + 1 - 1) with i by lia. f_equal; lia.
    + (* B(j,i) first corner *)
      apply roff_inj in E; unfold rlen; try lia. destruct E as [-> ->]. right. right. right. right. right. unfold tE6.
      replace ((j <? nv - 1) && (i <? nu - 1)) with true by lia. left. unfold tid. f_equal; lia.
    + (* B(j,i) second corner: (r,c) = (j+1,i) *)
      apply roff_inj in E; unfold rlen; try lia. destruct E as [-> ->]. right. left. unfold tE2.
      replace ((i <? j + 1) && (i <? nu - 1)) with true by lia. left. unfold tid.
      replace (j + 1 - 1) with j by lia. f_equal; lia.
    + (* B(j,i) third corner: (r,c) = (j+1,i+1) *)
      replace (roff nu (j + 1) + i + 1) with (roff nu (j + 1) + (i + 1)) in E by lia.
      apply roff_inj in E; unfold rlen; try lia. destruct E as [-> ->]. right. right. right. left. unfold tE4.
      replace (0 <? i + 1) with true by lia. left. unfold tid.
      replace (j + 1 - 1) with j by lia. replace (i + 1 - 1) with i by lia. f_equal; lia.
  - unfold tE1, tE2, tE3, tE4, tE5, tE6, tid, rlen in *. intros H. cbv zeta.
    destruct H as [H|[H|[H|[H|[H|H]]]]].
    + destruct ((r <? nv - 1) && (c <? r) && (c <? nu - 1)) eqn:C; [|destruct H]. destruct H as [H|[]]. pinj H. subst.
      exists r, c. split; [lia|]. split; [lia|]. left. split; [lia|]. left. lia.
    + destruct ((c <? r) && (c <? nu - 1)) eqn:C; [|destruct H]. destruct H as [H|[]]. pinj H. subst.
      exists (r - 1), c. split; [lia|]. split; [lia|]. right. split; [lia|]. replace (r - 1 + 1) with r by lia. right. left. lia.
    + destruct ((0 <? c) && (c <? r)) eqn:C; [|destruct H]. destruct H as [H|[]]. pinj H. subst.
      exists (r - 1), (c - 1). split; [lia|]. split; [lia|]. left. split; [lia|]. replace (r - 1 + 1) with r by lia. right. left. lia.
    + destruct (0 <? c) eqn:C; [|destruct H]. destruct H as [H|[]]. pinj H. subst.
      exists (r - 1), (c - 1). split; [lia|]. split; [lia|]. right. split; [lia|]. replace (r - 1 + 1) with r by lia. right. right. lia.
    + destruct ((r <? nv - 1) && (0 <? c)) eqn:C; [|destruct H]. destruct H as [H|[]]. pinj H. subst.
      exists r, (c - 1). split; [lia|]. split; [lia|]. left. split; [lia|]. right. right. lia.
    + destruct ((r <? nv - 1) && (c <? nu - 1)) eqn:C; [|destruct H]. destruct H as [H|[]]. pinj H. subst.
      exists r, c. split; [lia|]. split; [lia|]. right. split; [lia|]. left. lia.
Qed.

Definition tri_ring nu nv r c : list (Z * Z) :=
  if 0 <? c then
    (if (r <? nv - 1) && (c <? r) && (c <? nu - 1)
     then tE1 nu nv r c ++ tE2 nu nv r c ++ tE3 nu nv r c ++ tE4 nu nv r c ++ tE5 nu nv r c ++ tE6 nu nv r c
     else tE2 nu nv r c ++ tE3 nu nv r c ++ tE4 nu nv r c ++ tE5 nu nv r c ++ tE6 nu nv r c)
  else tE6 nu nv r c ++ tE1 nu nv r c ++ tE2 nu nv r c.

Lemma tri_vertex_manifold nu nv u : 2 <= nu -> 2 <= nv ->
  vertex_manifold (unit_triangle_nverts nu nv u) (unit_triangle_faces nu nv u).
Proof.
  intros Hu Hv. rewrite tri_nverts by lia. intros v Hv'.
  assert (Hrow : exists r c, 0 <= r < nv /\ 0 <= c < rlen nu r /\ v = tid nu r c).
  { assert (G : forall n, 0 <= n -> forall w, 0 <= w < roff nu n -> exists r c, 0 <= r < n /\ 0 <= c < rlen nu r /\ w = roff nu r + c).
    { intros n Hn. pattern n. apply natlike_ind; [ | | exact Hn].
      - intros w Hw. rewrite roff_0 in Hw by lia. lia.
      - intros x Hx IH w Hw. unfold Z.succ in *. rewrite roff_succ in Hw by lia.
        destruct (Z_lt_le_dec w (roff nu x)) as [L|L].
        + destruct (IH w ltac:(lia)) as [r [c [Hr [Hc E]]]]. exists r, c. split; [lia|]. auto.
        + exists x, (w - roff nu x). split; [lia|]. split; [lia|]. lia. }
    apply (G nv); lia. }
  destruct Hrow as [r [c [Hr [Hc ->]]]].
  apply (one_fan_intro _ _ (tri_ring nu nv r c)); [apply tri_oriented_manifold; auto | | |].
  - (* no corner twice: the `next` vertices are pairwise distinct *)
    pose proof (roff_succ nu r ltac:(lia) ltac:(lia)) as S1.
    assert (S0 : 1 <= r -> roff nu r = roff nu (r - 1) + rlen nu (r - 1))
      by (intros; replace r with (r - 1 + 1) at 1 by lia; apply roff_succ; lia).
    unfold tri_ring, tE1, tE2, tE3, tE4, tE5, tE6, tid, rlen in *.
    destruct (0 <? c) eqn:C0, (r <? nv - 1) eqn:Ca, (c <? r) eqn:Cd, (c <? nu - 1) eqn:Ce; cbn [andb app];
      try (specialize (S0 ltac:(lia)));
      repeat constructor; cbn [In]; intros Hin; split_or Hin; pinj Hin; lia.
  - intros x. rewrite tri_links_cells by lia. unfold tri_ring, tE1, tE2, tE3, tE4, tE5, tE6.
    destruct (0 <? c) eqn:C0, (r <? nv - 1) eqn:Ca, (c <? r) eqn:Cd, (c <? nu - 1) eqn:Ce; cbn [andb];
      rewrite !in_app_iff; cbn [In]; tauto.
  - pose proof (roff_succ nu r ltac:(lia) ltac:(lia)) as S1.
    unfold tri_ring, tE1, tE2, tE3, tE4, tE5, tE6, tid, rlen in *.
    destruct (0 <? c) eqn:C0, (r <? nv - 1) eqn:Ca, (c <? r) eqn:Cd, (c <? nu - 1) eqn:Ce; cbn [andb app chained fst snd];
      repeat split; try lia.
Qed.

(* ------------------------------------------------------------------ number of faces *)
Lemma zsum_indicator m n : 0 <= m -> 0 <= n -> zsum (fun i => if i <? m then 1 else 0) n = Z.min m n.
Proof.
  intros Hm Hn. pattern n. apply natlike_ind; [ | | exact Hn].
  - rewrite zsum_0. lia.
  - intros x Hx IH. unfold Z.succ. rewrite zsum_succ, IH by lia. destruct (x <? m) eqn:E; lia.
Qed.
Lemma zsum_add f g n : zsum (fun i => f i + g i) n = zsum f n + zsum g n.
Proof.
  destruct (Z_lt_le_dec n 0) as [L|L].
  - unfold zsum. replace (Z.to_nat n) with O by lia. reflexivity.
  - pattern n. apply natlike_ind; [reflexivity | | exact L].
    intros x Hx IH. unfold Z.succ. rewrite !zsum_succ, IH by lia. lia.
Qed.

Definition tri_nfaces (nu nv : Z) : Z := zsum (fun j => Z.min j (nu - 1) + Z.min (j + 1) (nu - 1)) (nv - 1).

Lemma tri_row_faces nu nv j : 2 <= nu -> 0 <= j < nv - 1 ->
  zlen (flat_map (fun i => tricell nu j i) (ztake_while (fun i => negb ((j <? i) || (j =? nv - 1))) (zrange nu))) =
  Z.min j (nu - 1) + Z.min (j + 1) (nu - 1).
Proof.
  intros Hu Hj.
  rewrite (ztake_while_zrange_prefix _ nu (rlen nu j)); unfold rlen; try lia.
  rewrite zlen_flat_map_zrange.
  rewrite (zsum_ext _ (fun i => (if i <? Z.min j (nu - 1) then 1 else 0) + (if i <? nu - 1 then 1 else 0))).
  - rewrite zsum_add, !zsum_indicator by lia. lia.
  - intros i Hi. unfold tricell. cbv zeta. rewrite zlen_app.
    destruct ((i <? j) && (i <? nu - 1)) eqn:C1, (i <? nu - 1) eqn:C2, (i <? Z.min j (nu - 1)) eqn:C3; try lia; reflexivity.
Qed.

Lemma tri_nfaces_eq nu nv u : 2 <= nu -> 2 <= nv -> zlen (unit_triangle_faces nu nv u) = tri_nfaces nu nv.
Proof.
  intros Hu Hv. unfold unit_triangle_faces.
  change (zlen (flat_map (fun j => flat_map (fun i => tricell nu j i)
              (ztake_while (fun i => negb ((j <? i) || (j =? nv - 1))) (zrange nu))) (zrange nv)) = tri_nfaces nu nv).
  rewrite zlen_flat_map_zrange. replace nv with (nv - 1 + 1) at 1 by lia. rewrite zsum_succ by lia.
  unfold tri_nfaces.
  rewrite (zsum_ext _ (fun j => Z.min j (nu - 1) + Z.min (j + 1) (nu - 1)) (nv - 1)) by (intros j Hj; apply tri_row_faces; lia).
  (* the last row produces no face *)
  replace (ztake_while (fun i => negb ((nv - 1 <? i) || (nv - 1 =? nv - 1))) (zrange nu)) with (@nil Z).
  - cbn [flat_map]. change (zlen (@nil (list Z))) with 0. lia.
  - symmetry. rewrite (zrange_cons nu) by lia. cbn [ztake_while]. rewrite Z.eqb_refl, orb_true_r. reflexivity.
Qed.

(* 2 V - F - (border length) = 2, i.e. Euler characteristic 1 once the border length is known *)
Lemma tri_count_identity nu nv : 2 <= nu -> 1 <= nv ->
  2 * roff nu nv - tri_nfaces nu nv - (2 * (nv - 1) + (Z.min nv nu - 1)) = 2.
Proof.
  intros Hu Hv. replace nv with (nv - 1 + 1) by lia. assert (H0 : 0 <= nv - 1) by lia. revert H0. generalize (nv - 1). clear nv Hv.
  intros n Hn. pattern n. apply natlike_ind; [ | | exact Hn].
  - unfold tri_nfaces. replace (0 + 1 - 1) with 0 by lia. rewrite zsum_0. rewrite roff_succ, roff_0 by lia. unfold rlen. lia.
  - intros x Hx IH. unfold Z.succ. unfold tri_nfaces in *.
    replace (x + 1 + 1 - 1) with (x + 1) by lia. replace (x + 1 - 1) with x in IH by lia.
    rewrite zsum_succ by lia. rewrite (roff_succ nu (x + 1)) by lia. unfold rlen. lia.
Qed.

(* ------------------------------------------------------------------ the border is one cycle: left side down, bottom row, right side up *)
Lemma tid_inj nu r c r' c' : 1 <= nu -> 0 <= r -> 0 <= r' -> 0 <= c < rlen nu r -> 0 <= c' < rlen nu r' ->
  tid nu r c = tid nu r' c' -> r = r' /\ c = c'.
Proof. unfold tid. intros. apply (roff_inj nu); auto. Qed.

Lemma tricell_edges nu j i e : In e (dedges (tricell nu j i)) ->
  (i < j /\ i < nu - 1 /\ (e = (tid nu j i, tid nu (j + 1) (i + 1)) \/ e = (tid nu (j + 1) (i + 1), tid nu j (i + 1)) \/ e = (tid nu j (i + 1), tid nu j i)))
  \/ (i < nu - 1 /\ (e = (tid nu j i, tid nu (j + 1) i) \/ e = (tid nu (j + 1) i, tid nu (j + 1) (i + 1)) \/ e = (tid nu (j + 1) (i + 1), tid nu j i))).
Proof.
  unfold tricell, tid. cbv zeta. rewrite dedges_app, in_app_iff. intros [H|H].
  - destruct ((i <? j) && (i <? nu - 1)) eqn:C; [|destruct H]. left. split; [lia|]. split; [lia|].
    lsimpl_in H. split_or H; subst e; [left | right; left | right; right]; f_equal; lia.
  - destruct (i <? nu - 1) eqn:C; [|destruct H]. right. split; [lia|].
    lsimpl_in H. split_or H; subst e; [left | right; left | right; right]; f_equal; lia.
Qed.

Lemma tricell_has_A nu j i : i < j -> i < nu - 1 ->
  In (tid nu j i, tid nu (j + 1) (i + 1)) (dedges (tricell nu j i)) /\
  In (tid nu (j + 1) (i + 1), tid nu j (i + 1)) (dedges (tricell nu j i)) /\
  In (tid nu j (i + 1), tid nu j i) (dedges (tricell nu j i)).
Proof.
  intros H1 H2. unfold tricell, tid. cbv zeta. rewrite dedges_app.
  replace ((i <? j) && (i <? nu - 1)) with true by lia. repeat split; apply in_app_iff; left; lsimpl;
    [left | right; left | right; right; left]; f_equal; lia.
Qed.
Lemma tricell_has_B nu j i : i < nu - 1 ->
  In (tid nu j i, tid nu (j + 1) i) (dedges (tricell nu j i)) /\
  In (tid nu (j + 1) i, tid nu (j + 1) (i + 1)) (dedges (tricell nu j i)) /\
  In (tid nu (j + 1) (i + 1), tid nu j i) (dedges (tricell nu j i)).
Proof.
  intros H2. unfold tricell, tid. cbv zeta. rewrite dedges_app.
  replace (i <? nu - 1) with true by lia. repeat split; apply in_app_iff; right; lsimpl;
    [left | right; left | right; right; left]; f_equal; lia.
Qed.

Inductive tperim (nu nv : Z) : Z * Z -> Prop :=
| tp_left : forall s, 0 <= s < nv - 1 -> tperim nu nv (tid nu s 0, tid nu (s + 1) 0)
| tp_bottom : forall s, 0 <= s < Z.min nv nu - 1 -> tperim nu nv (tid nu (nv - 1) s, tid nu (nv - 1) (s + 1))
| tp_up : forall r, 0 <= r < nv - 1 -> tperim nu nv (tid nu (r + 1) (Z.min (r + 1) (nu - 1)), tid nu r (Z.min r (nu - 1))).

Lemma tri_edge_twin_or_perim nu nv u e : 2 <= nu -> 2 <= nv ->
  In e (dedges (unit_triangle_faces nu nv u)) ->
  In (swap e) (dedges (unit_triangle_faces nu nv u)) \/ tperim nu nv e.
Proof.
  intros Hu Hv H. apply tri_dedge_In in H as [j [i [Hj [Hi H]]]]; try lia. unfold rlen in Hi.
  assert (IN : forall j' i' x, 0 <= j' < nv - 1 -> 0 <= i' < Z.min (j' + 1) nu -> In x (dedges (tricell nu j' i')) ->
                In x (dedges (unit_triangle_faces nu nv u))).
  { intros j' i' x Hj' Hi' Hx. apply tri_dedge_In; try lia. exists j', i'. unfold rlen. auto. }
  apply tricell_edges in H. destruct H as [[C1 [C2 H]]|[C2 H]]; destruct H as [-> | [-> | ->]]; unfold swap; cbn [fst snd].
  - (* A1: twin is the diagonal of the lower triangle of the same cell *)
    left. apply (IN j i); [lia|lia|]. apply tricell_has_B; lia.
  - (* A2 (j+1,i+1) -> (j,i+1): twin is the left side of cell (j, i+1), unless that column is the cut one *)
    destruct (Z_lt_le_dec (i + 1) (nu - 1)) as [L|L].
    + left. apply (IN j (i + 1)); [lia|lia|]. apply tricell_has_B; lia.
    + right. replace (i + 1) with (Z.min (j + 1) (nu - 1)) at 1 by lia. replace (i + 1) with (Z.min j (nu - 1)) by lia.
      apply tp_up. lia.
  - (* A3: twin is the bottom side of the cell above *)
    left. apply (IN (j - 1) i); [lia|lia|]. pose proof (tricell_has_B nu (j - 1) i ltac:(lia)) as T.
    replace (j - 1 + 1) with j in T by lia. apply T.
  - (* B1 (j,i) -> (j+1,i): twin is in cell (j, i-1), unless i = 0 *)
    destruct (Z.eq_dec i 0) as [->|I0].
    + right. apply tp_left. lia.
    + left. apply (IN j (i - 1)); [lia|lia|]. pose proof (tricell_has_A nu j (i - 1) ltac:(lia) ltac:(lia)) as T.
      replace (i - 1 + 1) with i in T by lia. apply T.
  - (* B2 (j+1,i) -> (j+1,i+1): twin is in the cell below, unless this is the last row *)
    destruct (Z.eq_dec (j + 1) (nv - 1)) as [E|NE].
    + right. rewrite E. apply tp_bottom. lia.
    + left. apply (IN (j + 1) i); [lia|lia|]. apply tricell_has_A; lia.
  - (* B3 (j+1,i+1) -> (j,i): twin is the upper triangle of the same cell, unless i = j (hypotenuse) *)
    destruct (Z.eq_dec i j) as [->|NE].
    + right. replace (j + 1) with (Z.min (j + 1) (nu - 1)) at 2 by lia. replace j with (Z.min j (nu - 1)) at 4 by lia.
      apply tp_up. lia.
    + left. apply (IN j i); [lia|lia|]. apply tricell_has_A; lia.
Qed.

Lemma tperim_is_border nu nv u e : 2 <= nu -> 2 <= nv -> tperim nu nv e ->
  is_border (unit_triangle_faces nu nv u) e.
Proof.
  intros Hu Hv H.
  assert (IN : forall j' i' x, 0 <= j' < nv - 1 -> 0 <= i' < Z.min (j' + 1) nu -> In x (dedges (tricell nu j' i')) ->
                In x (dedges (unit_triangle_faces nu nv u))).
  { intros j' i' x Hj' Hi' Hx. apply tri_dedge_In; try lia. exists j', i'. unfold rlen. auto. }
  split.
  - destruct H as [s Hs|s Hs|r Hr].
    + apply (IN s 0); [lia|lia|]. apply tricell_has_B; lia.
    + apply (IN (nv - 2) s); [lia|lia|]. pose proof (tricell_has_B nu (nv - 2) s ltac:(lia)) as T.
      replace (nv - 2 + 1) with (nv - 1) in T by lia. apply T.
    + destruct (Z_lt_le_dec (r + 1) nu) as [L|L].
      * (* on the hypotenuse: (r+1,r+1) -> (r,r) closes the lower triangle of cell (r,r) *)
        rewrite (Z.min_l (r + 1)), (Z.min_l r) by lia. apply (IN r r); [lia|lia|]. apply tricell_has_B; lia.
      * (* on the cut column: (r+1,nu-1) -> (r,nu-1) is a side of the upper triangle of cell (r,nu-2) *)
        rewrite (Z.min_r (r + 1)), (Z.min_r r) by lia. apply (IN r (nu - 2)); [lia|lia|].
        pose proof (tricell_has_A nu r (nu - 2) ltac:(lia) ltac:(lia)) as T. replace (nu - 2 + 1) with (nu - 1) in T by lia. apply T.
  - intros Hin. apply tri_dedge_In in Hin as [j [i [Hj [Hi Hin]]]]; try lia. unfold rlen in Hi.
    apply tricell_edges in Hin.
    assert (TI : forall a b a' b', 0 <= a -> 0 <= a' -> 0 <= b < Z.min (a + 1) nu -> 0 <= b' < Z.min (a' + 1) nu ->
                 tid nu a b = tid nu a' b' -> a = a' /\ b = b').
    { intros. apply (tid_inj nu); unfold rlen; auto; lia. }
    destruct H as [s Hs|s Hs|r Hr]; unfold swap in Hin; cbn [fst snd] in Hin;
      destruct Hin as [[C1 [C2 Hin]]|[C2 Hin]]; destruct Hin as [Hin|[Hin|Hin]]; pinj Hin;
      apply TI in E; try lia; apply TI in E0; try lia.
Qed.

Definition tpos (nu nv t : Z) : Z :=
  let w := Z.min nv nu in
  if t <? nv - 1 then tid nu t 0
  else if t <? nv - 1 + (w - 1) then tid nu (nv - 1) (t - (nv - 1))
  else let r := nv - 1 - (t - (nv - 1) - (w - 1)) in tid nu r (Z.min r (nu - 1)).
Definition tper (nu nv : Z) : Z := 2 * (nv - 1) + (Z.min nv nu - 1).

Lemma tpos_edge nu nv t : 2 <= nu -> 2 <= nv -> 0 <= t < tper nu nv ->
  tperim nu nv (tpos nu nv t, tpos nu nv ((t + 1) mod tper nu nv)).
Proof.
  intros Hu Hv Ht. unfold tper in *.
  destruct (mod_succ_cases t _ Ht) as [[E L]|[E L]]; rewrite E; unfold tpos; cbv zeta.
  - destruct (t <? nv - 1) eqn:C1.
    + destruct (t + 1 <? nv - 1) eqn:C2; [apply tp_left; lia|].
      replace (t + 1 <? nv - 1 + (Z.min nv nu - 1)) with true by lia.
      replace (t + 1 - (nv - 1)) with 0 by lia. replace (nv - 1) with (t + 1) at 1 by lia. apply tp_left. lia.
    + replace (t + 1 <? nv - 1) with false by lia. destruct (t <? nv - 1 + (Z.min nv nu - 1)) eqn:C2.
      * destruct (t + 1 <? nv - 1 + (Z.min nv nu - 1)) eqn:C3.
        -- replace (t + 1 - (nv - 1)) with (t - (nv - 1) + 1) by lia. apply tp_bottom. lia.
        -- replace (nv - 1 - (t + 1 - (nv - 1) - (Z.min nv nu - 1))) with (nv - 1) by lia.
           replace (Z.min (nv - 1) (nu - 1)) with (t - (nv - 1) + 1) by lia. apply tp_bottom. lia.
      * replace (t + 1 <? nv - 1 + (Z.min nv nu - 1)) with false by lia.
        set (r := nv - 1 - (t + 1 - (nv - 1) - (Z.min nv nu - 1))).
        replace (nv - 1 - (t - (nv - 1) - (Z.min nv nu - 1))) with (r + 1) by (subst r; lia).
        apply tp_up. subst r. lia.
  - (* the last edge returns to vertex 0 *)
    replace (t <? nv - 1) with false by lia. replace (t <? nv - 1 + (Z.min nv nu - 1)) with false by lia.
    replace (0 <? nv - 1) with true by lia.
    replace (nv - 1 - (t - (nv - 1) - (Z.min nv nu - 1))) with (0 + 1) by lia.
    replace (tid nu 0 0) with (tid nu 0 (Z.min 0 (nu - 1))) by (f_equal; lia). apply tp_up. lia.
Qed.

Lemma tperim_fst_inj nu nv e1 e2 : 2 <= nu -> 2 <= nv -> tperim nu nv e1 -> tperim nu nv e2 -> fst e1 = fst e2 -> e1 = e2.
Proof.
  intros Hu Hv H1 H2.
  assert (TI : forall a b a' b', 0 <= a -> 0 <= a' -> 0 <= b < Z.min (a + 1) nu -> 0 <= b' < Z.min (a' + 1) nu ->
               tid nu a b = tid nu a' b' -> a = a' /\ b = b').
  { intros. apply (tid_inj nu); unfold rlen; auto; lia. }
  destruct H1 as [s Hs|s Hs|r Hr], H2 as [s' Hs'|s' Hs'|r' Hr']; cbn [fst]; intros E; apply TI in E; try lia;
    destruct E as [E1 E2]; try (exfalso; lia); try (replace s' with s by lia; reflexivity);
    try (replace r' with r by lia; reflexivity).
Qed.

Lemma tpos_inj nu nv s t : 2 <= nu -> 2 <= nv -> 0 <= s < tper nu nv -> 0 <= t < tper nu nv ->
  tpos nu nv s = tpos nu nv t -> s = t.
Proof.
  intros Hu Hv Hs Ht. unfold tper in *. unfold tpos. cbv zeta.
  assert (TI : forall a b a' b', 0 <= a -> 0 <= a' -> 0 <= b < Z.min (a + 1) nu -> 0 <= b' < Z.min (a' + 1) nu ->
               tid nu a b = tid nu a' b' -> a = a' /\ b = b').
  { intros. apply (tid_inj nu); unfold rlen; auto; lia. }
  destruct (s <? nv - 1) eqn:A1; [|destruct (s <? nv - 1 + (Z.min nv nu - 1)) eqn:A2];
  (destruct (t <? nv - 1) eqn:B1; [|destruct (t <? nv - 1 + (Z.min nv nu - 1)) eqn:B2]);
  intros E; apply TI in E; lia.
Qed.

Lemma tperim_has_pos nu nv e : 2 <= nu -> 2 <= nv -> tperim nu nv e ->
  exists t, 0 <= t < tper nu nv /\ e = (tpos nu nv t, tpos nu nv ((t + 1) mod tper nu nv)).
Proof.
  intros Hu Hv H.
  assert (P : forall t, 0 <= t < tper nu nv -> fst e = tpos nu nv t ->
              e = (tpos nu nv t, tpos nu nv ((t + 1) mod tper nu nv))).
  { intros t Ht Hf. apply (tperim_fst_inj nu nv); auto. apply tpos_edge; auto. }
  destruct H as [s Hs|s Hs|r Hr]; unfold tper in *.
  - exists s. split; [lia|]. apply P; [lia|]. unfold tpos. cbv zeta. cbn [fst]. replace (s <? nv - 1) with true by lia. reflexivity.
  - exists (nv - 1 + s). split; [lia|]. apply P; [lia|]. unfold tpos. cbv zeta. cbn [fst].
    replace (nv - 1 + s <? nv - 1) with false by lia. replace (nv - 1 + s <? nv - 1 + (Z.min nv nu - 1)) with true by lia.
    f_equal. lia.
  - exists (nv - 1 + (Z.min nv nu - 1) + (nv - 2 - r)). split; [lia|]. apply P; [lia|]. unfold tpos. cbv zeta. cbn [fst].
    replace (nv - 1 + (Z.min nv nu - 1) + (nv - 2 - r) <? nv - 1) with false by lia.
    replace (nv - 1 + (Z.min nv nu - 1) + (nv - 2 - r) <? nv - 1 + (Z.min nv nu - 1)) with false by lia.
    replace (nv - 1 - (nv - 1 + (Z.min nv nu - 1) + (nv - 2 - r) - (nv - 1) - (Z.min nv nu - 1))) with (r + 1) by lia. reflexivity.
Qed.

Definition tri_border_cycle (nu nv : Z) : list Z := map (tpos nu nv) (zrange (tper nu nv)).

Lemma tri_border nu nv u : 2 <= nu -> 2 <= nv ->
  border_is_cycle (unit_triangle_faces nu nv u) (tri_border_cycle nu nv).
Proof.
  intros Hu Hv. apply border_cycle_by_positions.
  - unfold tper; lia.
  - intros a b Ha Hb E. apply (tpos_inj nu nv); auto.
  - intros k Hk. apply tperim_is_border; auto. apply tpos_edge; auto.
  - intros e He. destruct (tri_edge_twin_or_perim nu nv u e Hu Hv He) as [H|H]; [left; auto|right].
    apply tperim_has_pos; auto.
Qed.

Lemma tri_euler nu nv u : 2 <= nu -> 2 <= nv ->
  euler (unit_triangle_nverts nu nv u) (unit_triangle_faces nu nv u) = 1.
Proof.
  intros Hu Hv. unfold euler.
  pose proof (euler_formula _ (tri_oriented_manifold nu nv u Hu Hv) (tri_faces_simple nu nv u Hu Hv)) as HE.
  rewrite (border_length _ _ (tri_oriented_manifold nu nv u Hu Hv) (tri_border nu nv u Hu Hv)) in HE.
  2:{ unfold tri_border_cycle. rewrite map_length, zrange_length. unfold tper. lia. }
  unfold tri_border_cycle in HE. rewrite zlen_map, zlen_zrange in HE by (unfold tper; lia).
  rewrite (zlen_dedges_const _ 3) in HE.
  2:{ intros f Hf. apply tri_faces_In in Hf as [j [i [_ [_ Hf]]]]; try lia.
      unfold tricell in Hf. cbv zeta in Hf. apply in_app_iff in Hf as [Hf|Hf];
        [destruct ((i <? j) && (i <? nu - 1)) | destruct (i <? nu - 1)]; cbn [In] in Hf; split_or Hf; subst f; reflexivity. }
  rewrite tri_nverts by lia. rewrite tri_nfaces_eq in * by lia.
  pose proof (tri_count_identity nu nv ltac:(lia) ltac:(lia)). unfold tper in HE. lia.
Qed.
