(* C14 - unit_triangle(nu, nv): all nu, nv >= 2 (the source as repaired: row j holds min(j+1, nu) vertices and the
   faces are indexed with those row lengths).  Proved for all parameters: vertex count, indices in range, every
   vertex used, simple faces, no directed edge repeated.  Border loop, Euler characteristic and connectedness
   of this generator are established by the sound run-time checker on every tested parameter pair only. *)
From Coq Require Import ZArith List Bool Lia ZifyBool.
Import ListNotations.
Require Import MV.Lib.Base MV.C14.Model MV.C14.Gen MV.C14.ProofsLib.
Open Scope Z_scope.

(* index of the first vertex of row j *)
Definition roff (nu j : Z) : Z := let m := Z.min j nu in (m * (m + 1)) / 2 + (j - m) * nu.
Definition rlen (nu j : Z) : Z := Z.min (j + 1) nu.

Lemma tri_succ m : 0 <= m -> ((m + 1) * (m + 1 + 1)) / 2 = (m * (m + 1)) / 2 + (m + 1).
Proof.
  intros H. replace ((m + 1) * (m + 1 + 1)) with (m * (m + 1) + (m + 1) * 2) by ring.
  rewrite Z.div_add by lia. reflexivity.
Qed.

Lemma roff_succ nu j : 0 <= j -> 1 <= nu -> roff nu (j + 1) = roff nu j + rlen nu j.
Proof.
  intros Hj Hn. unfold roff, rlen. cbv zeta.
  destruct (Z_lt_le_dec j nu) as [L|L].
  - rewrite (Z.min_l j nu), (Z.min_l (j + 1) nu) by lia. rewrite tri_succ by lia. lia.
  - rewrite (Z.min_r j nu), (Z.min_r (j + 1) nu) by lia. lia.
Qed.
Lemma roff_0 nu : 1 <= nu -> roff nu 0 = 0.
Proof. intros. unfold roff. cbv zeta. rewrite Z.min_l by lia. reflexivity. Qed.
Lemma rlen_pos nu j : 0 <= j -> 1 <= nu -> 1 <= rlen nu j <= nu.
Proof. unfold rlen. lia. Qed.

Lemma roff_mono nu a b : 1 <= nu -> 0 <= a <= b -> roff nu a <= roff nu b.
Proof.
  intros Hn [Ha Hab]. replace b with (a + (b - a)) by lia.
  assert (Hd : 0 <= b - a) by lia. revert Hd. generalize (b - a). intros d Hd.
  pattern d. apply natlike_ind; [rewrite Z.add_0_r; lia | | exact Hd].
  intros x Hx IH. unfold Z.succ. rewrite Z.add_assoc, roff_succ by lia.
  pose proof (rlen_pos nu (a + x) ltac:(lia) Hn). lia.
Qed.
Lemma roff_nonneg nu j : 1 <= nu -> 0 <= j -> 0 <= roff nu j.
Proof. intros. rewrite <- (roff_0 nu) by lia. apply roff_mono; lia. Qed.

(* a vertex id determines its row and column *)
Lemma roff_inj nu j i j' i' : 1 <= nu -> 0 <= j -> 0 <= j' -> 0 <= i < rlen nu j -> 0 <= i' < rlen nu j' ->
  roff nu j + i = roff nu j' + i' -> j = j' /\ i = i'.
Proof.
  intros Hn Hj Hj' Hi Hi' E.
  destruct (Z.lt_trichotomy j j') as [L|[->|L]].
  - pose proof (roff_mono nu (j + 1) j' Hn ltac:(lia)). rewrite roff_succ in H by lia. lia.
  - lia.
  - pose proof (roff_mono nu (j' + 1) j Hn ltac:(lia)). rewrite roff_succ in H by lia. lia.
Qed.

(* ------------------------------------------------------------------ the loop nests in terms of roff *)
Definition tricell (nu j i : Z) : list (list Z) :=
  let kpt := roff nu j + i in let knx := roff nu (j + 1) + i in
  (if (i <? j) && (i <? nu - 1) then [[kpt; knx + 1; kpt + 1]] else [])
  ++ (if i <? nu - 1 then [[kpt; knx; knx + 1]] else []).

Lemma tri_faces_In nu nv u f : 2 <= nu -> 2 <= nv ->
  In f (unit_triangle_faces nu nv u) <->
  exists j i, 0 <= j < nv - 1 /\ 0 <= i < rlen nu j /\ In f (tricell nu j i).
Proof.
  intros Hu Hv. unfold unit_triangle_faces. rewrite in_flat_map. split.
  - intros [j [Hj H]]. apply In_zrange in Hj. apply in_flat_map in H as [i [Hi H]].
    apply In_ztake_while_zrange in Hi.
    2:{ intros a b Hab Hb. destruct (j =? nv - 1); [rewrite orb_true_r in Hb; discriminate|].
        rewrite orb_false_r in *. lia. }
    destruct Hi as [Hi Hp]. exists j, i. unfold rlen.
    assert (j <> nv - 1 /\ i <= j) by (destruct (j =? nv - 1) eqn:E; [rewrite orb_true_r in Hp; discriminate | rewrite orb_false_r in Hp; lia]).
    split; [lia|]. split; [lia|]. exact H.
  - intros [j [i [Hj [Hi H]]]]. unfold rlen in Hi. exists j. split; [apply In_zrange; lia|].
    apply in_flat_map. exists i. split; [|exact H].
    apply In_ztake_while_zrange.
    + intros a b Hab Hb. destruct (j =? nv - 1); [rewrite orb_true_r in Hb; discriminate|].
      rewrite orb_false_r in *. lia.
    + split; [lia|]. replace (j =? nv - 1) with false by lia. rewrite orb_false_r. lia.
Qed.

Lemma tri_dedge_In nu nv u e : 2 <= nu -> 2 <= nv ->
  In e (dedges (unit_triangle_faces nu nv u)) <->
  exists j i, 0 <= j < nv - 1 /\ 0 <= i < rlen nu j /\ In e (dedges (tricell nu j i)).
Proof.
  intros Hu Hv. rewrite In_dedges. split.
  - intros [f [Hf He]]. apply tri_faces_In in Hf as [j [i [Hj [Hi Hf]]]]; try lia. exists j, i.
    split; auto. split; auto. apply In_dedges. exists f. auto.
  - intros [j [i [Hj [Hi He]]]]. apply In_dedges in He as [f [Hf He]]. exists f. split; auto.
    apply tri_faces_In; try lia. exists j, i. auto.
Qed.

(* number of vertices: the rows 0..nv-1 *)
Lemma tri_row_eq nu j : 0 <= j -> 1 <= nu ->
  ztake_while (fun i => negb (j <? i)) (zrange nu) = zrange (rlen nu j).
Proof.
  intros Hj Hn. unfold rlen. apply ztake_while_zrange_prefix; try lia.
Qed.
Lemma tri_nverts nu nv u : 1 <= nu -> 0 <= nv -> unit_triangle_nverts nu nv u = roff nu nv.
Proof.
  intros Hu Hv. unfold unit_triangle_nverts, unit_triangle_vsites.
  rewrite zlen_flat_map_zrange.
  pattern nv. apply natlike_ind; [ | | exact Hv].
  - rewrite zsum_0, roff_0 by lia. reflexivity.
  - intros x Hx IH. unfold Z.succ. rewrite zsum_succ, IH, roff_succ by lia. f_equal.
    rewrite tri_row_eq by lia. rewrite (zlen_flat_map_const _ _ 1) by (intros; reflexivity).
    pose proof (rlen_pos nu x Hx Hu). rewrite zlen_zrange by lia. lia.
Qed.
(* for nu >= nv the rows are all full: nv (nv + 1) / 2 vertices *)
Lemma tri_nverts_full nu nv u : 1 <= nv <= nu -> unit_triangle_nverts nu nv u = (nv * (nv + 1)) / 2.
Proof.
  intros H. rewrite tri_nverts by lia. unfold roff. cbv zeta. rewrite Z.min_l by lia. lia.
Qed.

Ltac tri_facts nu j :=
  pose proof (roff_succ nu j ltac:(lia) ltac:(lia));
  pose proof (roff_succ nu (j + 1) ltac:(lia) ltac:(lia));
  pose proof (roff_nonneg nu j ltac:(lia) ltac:(lia));
  unfold rlen in *.

Lemma tri_in_range nu nv u : 2 <= nu -> 2 <= nv ->
  in_range (unit_triangle_nverts nu nv u) (unit_triangle_faces nu nv u).
Proof.
  intros Hu Hv. rewrite tri_nverts by lia. apply Forall_forall. intros f Hf. apply Forall_forall. intros v Hv'.
  apply tri_faces_In in Hf as [j [i [Hj [Hi Hf]]]]; try lia.
  pose proof (roff_mono nu (j + 2) nv ltac:(lia) ltac:(lia)) as Hm.
  replace (j + 2) with (j + 1 + 1) in Hm by lia. tri_facts nu j.
  unfold tricell in Hf. cbv zeta in Hf. apply in_app_iff in Hf as [Hf|Hf].
  - destruct ((i <? j) && (i <? nu - 1)) eqn:C; [|destruct Hf]. lsimpl_in Hf. split_or Hf. subst f.
    lsimpl_in Hv'. split_or Hv'; subst v; lia.
  - destruct (i <? nu - 1) eqn:C; [|destruct Hf]. lsimpl_in Hf. split_or Hf. subst f.
    lsimpl_in Hv'. split_or Hv'; subst v; lia.
Qed.

Lemma tri_faces_simple nu nv u : 2 <= nu -> 2 <= nv -> faces_simple (unit_triangle_faces nu nv u).
Proof.
  intros Hu Hv. apply Forall_forall. intros f Hf.
  apply tri_faces_In in Hf as [j [i [Hj [Hi Hf]]]]; try lia. tri_facts nu j.
  unfold tricell in Hf. cbv zeta in Hf. apply in_app_iff in Hf as [Hf|Hf].
  - destruct ((i <? j) && (i <? nu - 1)) eqn:C; [|destruct Hf]. lsimpl_in Hf. split_or Hf. subst f.
    split; [simpl; lia|]. repeat constructor; lsimpl; lia.
  - destruct (i <? nu - 1) eqn:C; [|destruct Hf]. lsimpl_in Hf. split_or Hf. subst f.
    split; [simpl; lia|]. repeat constructor; lsimpl; lia.
Qed.

(* every vertex (row r, column c) is a corner of a face *)
Lemma tri_all_used nu nv u : 2 <= nu -> 2 <= nv ->
  all_used (unit_triangle_nverts nu nv u) (unit_triangle_faces nu nv u).
Proof.
  intros Hu Hv. rewrite tri_nverts by lia. intros v Hv'.
  (* find the row of v: the largest r with roff r <= v *)
  assert (Hrow : exists r c, 0 <= r < nv /\ 0 <= c < rlen nu r /\ v = roff nu r + c).
  { assert (G : forall n, 0 <= n -> forall w, 0 <= w < roff nu n -> exists r c, 0 <= r < n /\ 0 <= c < rlen nu r /\ w = roff nu r + c).
    { intros n Hn. pattern n. apply natlike_ind; [ | | exact Hn].
      - intros w Hw. rewrite roff_0 in Hw by lia. lia.
      - intros x Hx IH w Hw. unfold Z.succ in *. rewrite roff_succ in Hw by lia.
        destruct (Z_lt_le_dec w (roff nu x)) as [L|L].
        + destruct (IH w ltac:(lia)) as [r [c [Hr [Hc E]]]]. exists r, c. split; [lia|]. auto.
        + exists x, (w - roff nu x). split; [lia|]. split; [lia|]. lia. }
    apply (G nv); lia. }
  destruct Hrow as [r [c [Hr [Hc Ev]]]]. unfold rlen in Hc.
  assert (IN : forall j i f, 0 <= j < nv - 1 -> 0 <= i < Z.min (j + 1) nu -> In f (tricell nu j i) -> In f (unit_triangle_faces nu nv u)).
  { intros j i f Hj Hi Hf. apply tri_faces_In; try lia. exists j, i. unfold rlen. auto. }
  destruct (Z_lt_le_dec r (nv - 1)) as [Lr|Lr].
  - (* a row that has a row below *)
    destruct (Z_lt_le_dec c (nu - 1)) as [Lc|Lc].
    + (* first corner of the lower triangle of cell (r, c) *)
      exists [roff nu r + c; roff nu (r + 1) + c; roff nu (r + 1) + c + 1]. split; [|left; lia].
      apply (IN r c); [lia|lia|]. unfold tricell. cbv zeta. apply in_app_iff. right.
      replace (c <? nu - 1) with true by lia. left. reflexivity.
    + (* last column c = nu - 1 (only in cut rows, r >= nu - 1 >= 1): third corner of the upper triangle of cell (r, c-1) *)
      assert (c = nu - 1) by lia. subst c.
      exists [roff nu r + (nu - 2); roff nu (r + 1) + (nu - 2) + 1; roff nu r + (nu - 2) + 1]. split; [|right; right; left; lia].
      apply (IN r (nu - 2)); [lia|lia|]. unfold tricell. cbv zeta. apply in_app_iff. left.
      replace ((nu - 2 <? r) && (nu - 2 <? nu - 1)) with true by lia. left. reflexivity.
  - (* the last row: corners of the lower triangles of the row above *)
    assert (r = nv - 1) by lia. subst r.
    pose proof (roff_succ nu (nv - 2) ltac:(lia) ltac:(lia)) as RS. replace (nv - 2 + 1) with (nv - 1) in RS by lia.
    unfold rlen in RS.
    destruct (Z.eq_dec c 0) as [->|C0].
    + exists [roff nu (nv - 2) + 0; roff nu (nv - 2 + 1) + 0; roff nu (nv - 2 + 1) + 0 + 1]. split.
      * apply (IN (nv - 2) 0); [lia|lia|]. unfold tricell. cbv zeta. apply in_app_iff. right.
        replace (0 <? nu - 1) with true by lia. left. reflexivity.
      * right. left. replace (nv - 2 + 1) with (nv - 1) by lia. lia.
    + exists [roff nu (nv - 2) + (c - 1); roff nu (nv - 2 + 1) + (c - 1); roff nu (nv - 2 + 1) + (c - 1) + 1]. split.
      * apply (IN (nv - 2) (c - 1)); [lia|lia|]. unfold tricell. cbv zeta. apply in_app_iff. right.
        replace (c - 1 <? nu - 1) with true by lia. left. reflexivity.
      * right. right. left. replace (nv - 2 + 1) with (nv - 1) by lia. lia.
Qed.

(* ------------------------------------------------------------------ oriented manifold *)
Lemma tricell_edges_inj nu j i j' i' e : 2 <= nu -> 0 <= j -> 0 <= j' -> 0 <= i < rlen nu j -> 0 <= i' < rlen nu j' ->
  In e (dedges (tricell nu j i)) -> In e (dedges (tricell nu j' i')) -> j = j' /\ i = i'.
Proof.
  intros Hu Hj Hj' Hi Hi' H H'.
  pose proof (roff_succ nu j ltac:(lia) ltac:(lia)) as S1.
  pose proof (roff_succ nu (j + 1) ltac:(lia) ltac:(lia)) as S2.
  pose proof (roff_succ nu j' ltac:(lia) ltac:(lia)) as S1'.
  pose proof (roff_succ nu (j' + 1) ltac:(lia) ltac:(lia)) as S2'.
  assert (M : (j + 2 <= j' -> roff nu (j + 1 + 1) <= roff nu j') /\ (j' + 2 <= j -> roff nu (j' + 1 + 1) <= roff nu j)).
  { split; intros; apply roff_mono; lia. }
  destruct M as [M1 M2].
  assert (C : j + 2 <= j' \/ j' = j + 1 \/ j' = j \/ j = j' + 1 \/ j' + 2 <= j) by lia.
  unfold rlen in *. unfold tricell in H, H'. cbv zeta in H, H'. rewrite dedges_app in H, H'.
  destruct ((i <? j) && (i <? nu - 1)) eqn:C1, (i <? nu - 1) eqn:C2,
           ((i' <? j') && (i' <? nu - 1)) eqn:C1', (i' <? nu - 1) eqn:C2';
    lsimpl_in H; lsimpl_in H'; split_or H; subst e; split_or H'; pinj H';
    destruct C as [C|[C|[C|[C|C]]]]; try (specialize (M1 C)); try (specialize (M2 C)); subst; lia.
Qed.

Lemma tricell_edges_NoDup nu j i : 2 <= nu -> 0 <= j -> 0 <= i < rlen nu j -> NoDup (dedges (tricell nu j i)).
Proof.
  intros Hu Hj Hi.
  pose proof (roff_succ nu j ltac:(lia) ltac:(lia)) as S1. unfold rlen in *.
  unfold tricell. cbv zeta. rewrite dedges_app.
  destruct ((i <? j) && (i <? nu - 1)) eqn:C1, (i <? nu - 1) eqn:C2; lsimpl;
    repeat constructor; lsimpl; intros H; split_or H; pinj H; lia.
Qed.

Lemma tri_dedges_eq nu nv u : 2 <= nu -> 2 <= nv ->
  dedges (unit_triangle_faces nu nv u) =
  flat_map (fun j => flat_map (fun i => dedges (tricell nu j i))
              (ztake_while (fun i => negb ((j <? i) || (j =? nv - 1))) (zrange nu))) (zrange nv).
Proof.
  intros. unfold unit_triangle_faces. rewrite dedges_flat_map. apply flat_map_ext_in. intros j _.
  rewrite dedges_flat_map. reflexivity.
Qed.

Lemma NoDup_ztake_while p l : NoDup l -> NoDup (ztake_while p l).
Proof.
  induction l as [|a l IH]; intros H; simpl; [constructor|]. inversion H; subst.
  destruct (p a); [|constructor]. constructor; auto.
  intros Hin. apply H2. clear -Hin. induction l as [|b l IHl]; simpl in *; [destruct Hin|].
  destruct (p b); [|destruct Hin]. destruct Hin as [->|Hin]; [left; auto | right; auto].
Qed.

Lemma tri_oriented_manifold nu nv u : 2 <= nu -> 2 <= nv -> oriented_manifold (unit_triangle_faces nu nv u).
Proof.
  intros Hu Hv. unfold oriented_manifold. rewrite tri_dedges_eq by lia.
  assert (Dom : forall j i, 0 <= j < nv -> In i (ztake_while (fun i => negb ((j <? i) || (j =? nv - 1))) (zrange nu)) ->
                0 <= i < rlen nu j /\ j < nv - 1).
  { intros j i Hj Hi. apply In_ztake_while_zrange in Hi.
    2:{ intros a b Hab Hb. destruct (j =? nv - 1); [rewrite orb_true_r in Hb; discriminate|]. rewrite orb_false_r in *. lia. }
    destruct Hi as [Hi Hp]. unfold rlen.
    destruct (j =? nv - 1) eqn:E; [rewrite orb_true_r in Hp; discriminate | rewrite orb_false_r in Hp; lia]. }
  apply NoDup_flat_map; [apply NoDup_zrange | |].
  - intros j Hj. apply In_zrange in Hj. apply NoDup_flat_map; [apply NoDup_ztake_while, NoDup_zrange | |].
    + intros i Hi. destruct (Dom j i Hj Hi). apply tricell_edges_NoDup; lia.
    + intros i i' e Hi Hi' Hne H H'. destruct (Dom j i Hj Hi), (Dom j i' Hj Hi').
      destruct (tricell_edges_inj nu j i j i' e); auto; lia.
  - intros j j' e Hj Hj' Hne H H'. apply In_zrange in Hj, Hj'.
    apply in_flat_map in H as [i [Hi H]]. apply in_flat_map in H' as [i' [Hi' H']].
    destruct (Dom j i Hj Hi), (Dom j' i' Hj' Hi').
    destruct (tricell_edges_inj nu j i j' i' e); auto; lia.
Qed.

(* ------------------------------------------------------------------ connected: every vertex but the first has a smaller neighbour *)
Lemma tri_connected nu nv u : 2 <= nu -> 2 <= nv ->
  connected (unit_triangle_nverts nu nv u) (unit_triangle_faces nu nv u).
Proof.
  intros Hu Hv. rewrite tri_nverts by lia. apply connected_by_descent. intros v Hv'. unfold adjacent.
  assert (Hrow : exists r c, 0 <= r < nv /\ 0 <= c < rlen nu r /\ v = roff nu r + c).
  { assert (G : forall n, 0 <= n -> forall w, 0 <= w < roff nu n -> exists r c, 0 <= r < n /\ 0 <= c < rlen nu r /\ w = roff nu r + c).
    { intros n Hn. pattern n. apply natlike_ind; [ | | exact Hn].
      - intros w Hw. rewrite roff_0 in Hw by lia. lia.
      - intros x Hx IH w Hw. unfold Z.succ in *. rewrite roff_succ in Hw by lia.
        destruct (Z_lt_le_dec w (roff nu x)) as [L|L].
        + destruct (IH w ltac:(lia)) as [r [c [Hr [Hc E]]]]. exists r, c. split; [lia|]. auto.
        + exists x, (w - roff nu x). split; [lia|]. split; [lia|]. lia. }
    apply (G nv); lia. }
  destruct Hrow as [r [c [Hr [Hc Ev]]]]. unfold rlen in Hc.
  assert (IN : forall j i e, 0 <= j < nv - 1 -> 0 <= i < Z.min (j + 1) nu -> In e (dedges (tricell nu j i)) ->
                In e (dedges (unit_triangle_faces nu nv u))).
  { intros j i e Hj Hi He. apply tri_dedge_In; try lia. exists j, i. unfold rlen. auto. }
  destruct (Z.eq_dec c 0) as [->|C0].
  - (* first vertex of row r > 0: joined to the first vertex of the row above by the lower triangle of cell (r-1, 0) *)
    assert (0 < r) by (destruct (Z.eq_dec r 0) as [->|]; [rewrite roff_0 in Ev by lia; lia | lia]).
    exists (roff nu (r - 1) + 0). pose proof (roff_succ nu (r - 1) ltac:(lia) ltac:(lia)) as RS.
    replace (r - 1 + 1) with r in RS by lia. unfold rlen in RS. split; [pose proof (roff_nonneg nu (r - 1) ltac:(lia) ltac:(lia)); lia|].
    left. apply (IN (r - 1) 0); [lia|lia|]. unfold tricell. cbv zeta. rewrite dedges_app. apply in_app_iff. right.
    replace (0 <? nu - 1) with true by lia. replace (r - 1 + 1) with r by lia. lsimpl. left. f_equal; lia.
  - (* c > 0: joined to its left neighbour *)
    exists (v - 1). pose proof (roff_nonneg nu r ltac:(lia) ltac:(lia)). split; [lia|].
    destruct (Z_lt_le_dec r (nv - 1)) as [Lr|Lr].
    + (* upper triangle of cell (r, c-1): edge (kpt + 1, kpt) *)
      right. apply (IN r (c - 1)); [lia|lia|]. unfold tricell. cbv zeta. rewrite dedges_app. apply in_app_iff. left.
      replace ((c - 1 <? r) && (c - 1 <? nu - 1)) with true by lia. lsimpl. right. right. left. f_equal; lia.
    + (* last row: lower triangle of cell (r-1, c-1): edge (knx, knx + 1) *)
      assert (r = nv - 1) by lia. subst r.
      left. apply (IN (nv - 2) (c - 1)); [lia|lia|]. unfold tricell. cbv zeta. rewrite dedges_app. apply in_app_iff. right.
      replace (c - 1 <? nu - 1) with true by lia. replace (nv - 2 + 1) with (nv - 1) by lia. lsimpl. right. left. f_equal; lia.
Qed.
