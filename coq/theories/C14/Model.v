(* C14 - procedural generators: the hand-written part of the executable model (no proofs here).

   The generators themselves (index arithmetic, tables, coordinates, call plumbing) are GENERATED from
   /repo's current source into Gen.v on every run; this file only provides
   - the vocabulary Gen.v is written in (zlen, ztake_while, the bare operation record `ops`, vectors,
     linspace, and the hand model of Vec.normalized / Vec.norm that `cylinder` calls; geometry.rotate_around_axis and
     geometry.rotate_2d are GENERATED from mouette/geometry/rotations.py into Gen.v under the names geom_rotate_around_axis, geom_rotate_2d);
   - the combinatorial notions the property speaks about (directed edges, border, Euler characteristic,
     connectedness, vertex umbrellas) together with executable boolean checkers;
   - the hand model of SurfaceMesh.connectivity.vertex_to_faces that dual_mesh consumes. *)
From Coq Require Import ZArith List Bool Permutation.
Import ListNotations.
Require Import MV.Lib.Base.
Open Scope Z_scope.
Set Implicit Arguments.

(* ------------------------------------------------------------------ vocabulary of Gen.v *)
Definition zlen {A} (l : list A) : Z := Z.of_nat (length l).
Arguments zlen : simpl never.

(* `for i in range(n): if c(i): break; ...`  iterates over the longest prefix on which c is false *)
Fixpoint ztake_while (p : Z -> bool) (l : list Z) : list Z :=
  match l with
  | [] => []
  | x :: t => if p x then x :: ztake_while p t else []
  end.

(* `flag = False; while not flag: body` : run the body until it raises the flag (None: out of fuel) *)
Fixpoint do_while {S : Type} (step : S -> S * bool) (fuel : nat) (s : S) : option S :=
  match fuel with
  | O => None
  | S k => let (s', stop) := step s in if stop then Some s' else do_while step k s'
  end.

(* numbers: a bare record of operations, no laws.  Instantiated with R for the theorems and with
   binary64 floats for the correspondence. *)
Record ops (T : Type) : Type := mkops {
  oofZ : Z -> T;
  oadd : T -> T -> T;
  osub : T -> T -> T;
  omul : T -> T -> T;
  odiv : T -> T -> T;
  oopp : T -> T;
  ocos : T -> T;
  osin : T -> T;
  osqrt : T -> T;
  opi : T;
  oltb : T -> T -> bool
}.
Arguments mkops {T}.

Definition vec (T : Type) : Type := (T * T * T)%type.
Definition vx {T} (v : vec T) : T := fst (fst v).
Definition vy {T} (v : vec T) : T := snd (fst v).
Definition vz {T} (v : vec T) : T := snd v.

Section Vec.
  Variable T : Type.
  Variable O : ops T.
  Definition vadd (a b : vec T) : vec T := (oadd O (vx a) (vx b), oadd O (vy a) (vy b), oadd O (vz a) (vz b)).
  Definition vsub (a b : vec T) : vec T := (osub O (vx a) (vx b), osub O (vy a) (vy b), osub O (vz a) (vz b)).
  Definition vscale (s : T) (a : vec T) : vec T := (omul O s (vx a), omul O s (vy a), omul O s (vz a)).
  Definition vdivs (a : vec T) (s : T) : vec T := (odiv O (vx a) s, odiv O (vy a) s, odiv O (vz a) s).
  Definition vdot (a b : vec T) : T :=
    oadd O (oadd O (omul O (vx a) (vx b)) (omul O (vy a) (vy b))) (omul O (vz a) (vz b)).
  Definition vnorm (a : vec T) : T := osqrt O (vdot a a).
  (* Vec.normalized (l2) *)
  Definition vnormalized (a : vec T) : vec T := vdivs a (vnorm a).
  (* `for P in (P1, P2)`: the k-th element of the tuple *)
  Definition vsel (k : Z) (l : list (vec T)) : vec T :=
    nth (Z.to_nat k) l (oofZ O 0, oofZ O 0, oofZ O 0).
  (* min / max / |x| < e  through the comparison *)
  Definition omin (a b : T) : T := if oltb O a b then a else b.
  Definition omax (a b : T) : T := if oltb O a b then b else a.
  Definition oabs_lt (x e : T) : bool := oltb O x e && oltb O (oopp O e) x.
  (* a loop with one carried vector: the successive states *)
  Fixpoint vscan (f : vec T -> Z -> vec T) (s : vec T) (l : list Z) : list (vec T) :=
    match l with
    | [] => []
    | i :: t => let s' := f s i in s' :: vscan f s' t
    end.
  (* `M.vertices[k] = p` after the loops *)
  Fixpoint vset_nat (k : nat) (p : vec T) (l : list (vec T)) : list (vec T) :=
    match l with
    | [] => []
    | x :: t => match k with 0%nat => p :: t | S k' => x :: vset_nat k' p t end
    end.
  Definition vset (k : Z) (p : vec T) (l : list (vec T)) : list (vec T) := vset_nat (Z.to_nat k) p l.
  (* np.linspace(a, b, n)[i] = a + i * ((b - a) / (n - 1)) *)
  Definition linspace (a b : T) (n i : Z) : T :=
    oadd O a (omul O (oofZ O i) (odiv O (osub O b a) (oofZ O (n - 1)))).
End Vec.

(* ------------------------------------------------------------------ combinatorics of a face list *)
Notation dedge := (Z * Z)%type (only parsing).

(* directed edges (f_k, f_{k+1 mod n}) of one face, in order *)
Definition fedges (f : list Z) : list dedge :=
  match f with
  | [] => []
  | a :: t => combine f (t ++ [a])
  end.
Definition dedges (F : list (list Z)) : list dedge := flat_map fedges F.

Definition dedge_eqb (a b : dedge) : bool := (fst a =? fst b) && (snd a =? snd b).
Definition swap (e : dedge) : dedge := (snd e, fst e).
Definition dmem (e : dedge) (l : list dedge) : bool := existsb (dedge_eqb e) l.
Definition zmem (x : Z) (l : list Z) : bool := existsb (Z.eqb x) l.

Fixpoint nodupb {A} (eqb : A -> A -> bool) (l : list A) : bool :=
  match l with
  | [] => true
  | x :: t => negb (existsb (eqb x) t) && nodupb eqb t
  end.

(* -- the notions of the property, as propositions *)
Definition in_range (V : Z) (F : list (list Z)) : Prop := Forall (Forall (fun v => 0 <= v < V)) F.
Definition all_used (V : Z) (F : list (list Z)) : Prop := forall v, 0 <= v < V -> exists f, In f F /\ In v f.
(* every face is a simple polygon with at least three corners *)
Definition faces_simple (F : list (list Z)) : Prop := Forall (fun f => (3 <= length f)%nat /\ NoDup f) F.
(* no directed edge occurs twice: at most two faces per edge, and they traverse it in opposite directions
   (edge-manifold and consistently oriented); it also excludes two faces that are rotations of each other *)
Definition oriented_manifold (F : list (list Z)) : Prop := NoDup (dedges F).
Definition closed (F : list (list Z)) : Prop := forall a b, In (a, b) (dedges F) -> In (b, a) (dedges F).
Definition is_border (F : list (list Z)) (e : dedge) : Prop := In e (dedges F) /\ ~ In (swap e) (dedges F).
Definition border (F : list (list Z)) : list dedge :=
  filter (fun e => negb (dmem (swap e) (dedges F))) (dedges F).
(* the border is exactly one cycle  b0 -> b1 -> ... -> b(k-1) -> b0  through distinct vertices *)
Definition cyc_pairs (l : list Z) : list dedge := fedges l.
Definition border_is_cycle (F : list (list Z)) (c : list Z) : Prop :=
  NoDup c /\ forall e, is_border F e <-> In e (cyc_pairs c).
(* several border loops: the cycles are pairwise disjoint and together carry exactly the border edges *)
Definition border_is_cycles (F : list (list Z)) (cs : list (list Z)) : Prop :=
  NoDup (concat cs) /\ forall e, is_border F e <-> exists c, In c cs /\ In e (cyc_pairs c).
(* undirected edges: one representative per unordered pair *)
Definition norm_edge (e : dedge) : dedge := if fst e <=? snd e then e else swap e.
Fixpoint dnodup (l : list dedge) : list dedge :=
  match l with
  | [] => []
  | x :: t => if dmem x t then dnodup t else x :: dnodup t
  end.
Definition uedges (F : list (list Z)) : list dedge := dnodup (map norm_edge (dedges F)).
Definition nedges (F : list (list Z)) : Z := zlen (uedges F).
Definition euler (V : Z) (F : list (list Z)) : Z := V - nedges F + zlen F.
(* the 1-skeleton is connected (with all_used: the mesh is) *)
Definition adjacent (F : list (list Z)) (a b : Z) : Prop := In (a, b) (dedges F) \/ In (b, a) (dedges F).
Inductive linked (F : list (list Z)) : Z -> Z -> Prop :=
| linked_refl : forall a, linked F a a
| linked_step : forall a b c, linked F a b -> adjacent F b c -> linked F a c.
Definition connected (V : Z) (F : list (list Z)) : Prop := forall v, 0 <= v < V -> linked F 0 v.

(* no repeated face, up to rotation of the corner list *)
Fixpoint rotations_aux (n : nat) (f : list Z) : list (list Z) :=
  match n with
  | O => []
  | S k => f :: rotations_aux k (match f with [] => [] | a :: t => t ++ [a] end)
  end.
Definition rotations (f : list Z) : list (list Z) := rotations_aux (length f) f.
Definition same_face (f g : list Z) : Prop := In g (rotations f).
Definition no_repeated_face (F : list (list Z)) : Prop :=
  forall i j f g, nth_error F i = Some f -> nth_error F j = Some g -> same_face f g -> i = j.

(* -- executable checkers (used on every correspondence case and, with their soundness lemmas, for the
      constant-table solids) *)
Definition in_rangeb (V : Z) (F : list (list Z)) : bool :=
  forallb (forallb (fun v => (0 <=? v) && (v <? V))) F.
Definition all_usedb (V : Z) (F : list (list Z)) : bool :=
  forallb (fun v => existsb (zmem v) F) (zrange V).
Definition faces_simpleb (F : list (list Z)) : bool :=
  forallb (fun f => (3 <=? zlen f) && nodupb Z.eqb f) F.
Definition oriented_manifoldb (F : list (list Z)) : bool := nodupb dedge_eqb (dedges F).
Definition closedb (F : list (list Z)) : bool :=
  let D := dedges F in forallb (fun e => dmem (swap e) D) D.

(* follow  next(e) = the border edge starting where e ends ; the border is one cycle iff the walk from
   the first border edge returns after visiting all of them *)
Fixpoint walk_border (B : list dedge) (fuel : nat) (start cur : dedge) (acc : list Z) : option (list Z) :=
  match fuel with
  | O => None
  | S k =>
      match find (fun e => fst e =? snd cur) B with
      | None => None
      | Some e => if dedge_eqb e start then Some (rev acc) else walk_border B k start e (fst e :: acc)
      end
  end.
Definition border_cycle (F : list (list Z)) : option (list Z) :=
  match border F with
  | [] => Some []
  | e :: _ => walk_border (border F) (length (border F)) e e [fst e]
  end.
(* all border loops: repeatedly walk the cycle through the first remaining border edge (untrusted), and a
   checker for the result that is sound for border_is_cycles *)
Fixpoint extract_cycles (B : list dedge) (fuel : nat) : option (list (list Z)) :=
  match fuel with
  | O => match B with [] => Some [] | _ => None end
  | S k =>
      match B with
      | [] => Some []
      | e :: _ =>
          match walk_border B (length B) e e [fst e] with
          | None => None
          | Some c =>
              let B' := filter (fun x => negb (dmem x (cyc_pairs c))) B in
              if (length B' <? length B)%nat
              then match extract_cycles B' k with Some cs => Some (c :: cs) | None => None end
              else None
          end
      end
  end.
Definition border_cycles (F : list (list Z)) : option (list (list Z)) :=
  extract_cycles (border F) (length (border F)).
Definition borders_chk (F : list (list Z)) (cs : list (list Z)) : bool :=
  let D := dedges F in let P := flat_map cyc_pairs cs in
  nodupb Z.eqb (concat cs)
  && forallb (fun e => dmem e D && negb (dmem (swap e) D)) P
  && forallb (fun e => dmem (swap e) D || dmem e P) D.
Definition border_loops (F : list (list Z)) : option Z :=
  match border_cycles F with
  | Some cs => if borders_chk F cs then Some (zlen cs) else None
  | None => None
  end.

(* connectedness by saturation from vertex 0 *)
Fixpoint reach (D : list dedge) (fuel : nat) (seen : list Z) : list Z :=
  match fuel with
  | O => seen
  | S k =>
      let new := flat_map (fun e =>
                   (if zmem (fst e) seen && negb (zmem (snd e) seen) then [snd e] else []) ++
                   (if zmem (snd e) seen && negb (zmem (fst e) seen) then [fst e] else [])) D in
      match new with
      | [] => seen
      | _ => reach D k (seen ++ fold_right (fun x acc => if zmem x acc then acc else x :: acc) [] new)
      end
  end.
Definition connectedb (V : Z) (F : list (list Z)) : bool :=
  (V <=? 0) || (let r := reach (dedges F) (Z.to_nat V) [0] in forallb (fun v => zmem v r) (zrange V)).

(* vertex umbrellas.  links F v lists, for every corner of a face at v, the pair (next vertex, previous
   vertex).  The corners form ONE fan when they can be ordered so that each corner's `previous` is the
   following corner's `next` (the two corners share the edge from v to that vertex). *)
Fixpoint corners_at (v : Z) (f : list (Z * Z)) : list (Z * Z) :=
  (* f = fedges of a face, cyclically: for consecutive (p,v),(v,n) record (n,p) *)
  match f with
  | (p, x) :: (((y, n) :: _) as t) => (if (x =? v) && (y =? v) then [(n, p)] else []) ++ corners_at v t
  | _ => []
  end.
Definition face_corners_at (v : Z) (f : list Z) : list (Z * Z) :=
  match fedges f with
  | [] => []
  | e :: t => corners_at v ((e :: t) ++ [e])
  end.
Definition links (F : list (list Z)) (v : Z) : list (Z * Z) := flat_map (face_corners_at v) F.
Fixpoint chained (r : list (Z * Z)) : Prop :=
  match r with
  | a :: ((b :: _) as t) => snd a = fst b /\ chained t
  | _ => True
  end.
Definition one_fan (F : list (list Z)) (v : Z) : Prop :=
  exists r, Permutation r (links F v) /\ chained r.
Definition vertex_manifold (V : Z) (F : list (list Z)) : Prop := forall v, 0 <= v < V -> one_fan F v.

Fixpoint chainedb (r : list (Z * Z)) : bool :=
  match r with
  | a :: ((b :: _) as t) => (snd a =? fst b) && chainedb t
  | _ => true
  end.
(* an ordering of the links, found by walking (untrusted), then checked *)
Fixpoint order_links (L : list (Z * Z)) (fuel : nat) (cur : Z * Z) : list (Z * Z) :=
  match fuel with
  | O => [cur]
  | S k => match find (fun l => fst l =? snd cur) L with
           | Some l => cur :: order_links L k l
           | None => [cur]
           end
  end.
Definition fan_order (F : list (list Z)) (v : Z) : list (Z * Z) :=
  let L := links F v in
  match L with
  | [] => []
  | l0 :: _ =>
      let start := match find (fun l => negb (existsb (fun m => snd m =? fst l) L)) L with Some l => l | None => l0 end in
      firstn (length L) (order_links L (length L) start)
  end.
Definition same_setb (a b : list (Z * Z)) : bool :=
  nodupb dedge_eqb a && nodupb dedge_eqb b && forallb (fun x => dmem x b) a && forallb (fun x => dmem x a) b.
Definition one_fanb (F : list (list Z)) (v : Z) : bool :=
  let r := fan_order F v in same_setb r (links F v) && chainedb r.
Definition vertex_manifoldb (V : Z) (F : list (list Z)) : bool := forallb (one_fanb F) (zrange V).

Fixpoint face_eqb (a b : list Z) : bool :=
  match a, b with
  | [], [] => true
  | x :: s, y :: t => (x =? y) && face_eqb s t
  | _, _ => false
  end.
Definition faces_eqb (a b : list (list Z)) : bool := list_eqb face_eqb a b.
Definition rev_rotations (f : list Z) : list (list Z) := rotations f ++ rotations (rev f).
(* no two faces equal up to rotation or reversal *)
Fixpoint no_repeatb (F : list (list Z)) : bool :=
  match F with
  | [] => true
  | f :: t => negb (existsb (fun g => existsb (face_eqb g) (rev_rotations f)) t) && no_repeatb t
  end.

(* everything the property asks of the combinatorics of a surface, as one record of observations *)
Record topo := mktopo {
  t_in_range : bool; t_all_used : bool; t_simple : bool; t_no_repeat : bool; t_oriented_manifold : bool;
  t_vertex_manifold : bool; t_connected : bool; t_closed : bool; t_border_loops : option Z; t_euler : Z }.
Definition topo_of (V : Z) (F : list (list Z)) : topo :=
  mktopo (in_rangeb V F) (all_usedb V F) (faces_simpleb F) (no_repeatb F) (oriented_manifoldb F)
         (vertex_manifoldb V F) (connectedb V F) (closedb F) (border_loops F) (euler V F).
Definition valid_surface (t : topo) : bool :=
  t_in_range t && t_all_used t && t_simple t && t_no_repeat t && t_oriented_manifold t && t_vertex_manifold t
  && t_connected t.
Definition is_sphere (t : topo) : bool := valid_surface t && t_closed t && (t_euler t =? 2).
Definition is_torus (t : topo) : bool := valid_surface t && t_closed t && (t_euler t =? 0).
Definition is_disk (t : topo) : bool :=
  valid_surface t && negb (t_closed t) && (t_euler t =? 1) && match t_border_loops t with Some 1 => true | _ => false end.
Definition is_annulus (t : topo) : bool :=
  valid_surface t && negb (t_closed t) && (t_euler t =? 0) && match t_border_loops t with Some 2 => true | _ => false end.

(* ------------------------------------------------------------------ dual_mesh: hand model of
   SurfaceMesh.connectivity.vertex_to_faces (the sorted ring of faces around a vertex, surface.py
   _sort_vertex_neighborhoods): starting from a face whose incoming edge (prev -> v) has no twin if
   there is one (else the first face containing v), repeatedly cross the outgoing edge v -> next. *)
Definition next_in (f : list Z) (v : Z) : option Z :=
  match find (fun e => fst e =? v) (fedges f) with Some e => Some (snd e) | None => None end.
Definition prev_in (f : list Z) (v : Z) : option Z :=
  match find (fun e => snd e =? v) (fedges f) with Some e => Some (fst e) | None => None end.
Fixpoint find_index {A} (p : A -> bool) (l : list A) (k : Z) : option Z :=
  match l with
  | [] => None
  | x :: t => if p x then Some k else find_index p t (k + 1)
  end.
Definition face_with_edge (F : list (list Z)) (e : dedge) : option Z :=
  find_index (fun f => dmem e (fedges f)) F 0.
Fixpoint ring_walk (F : list (list Z)) (v : Z) (fuel : nat) (start cur : Z) (acc : list Z) : list Z :=
  match fuel with
  | O => rev acc
  | S k =>
      match next_in (znth F cur []) v with
      | None => rev acc
      | Some n =>
          match face_with_edge F (n, v) with
          | None => rev acc
          | Some g => if g =? start then rev acc else ring_walk F v k start g (g :: acc)
          end
      end
  end.
Definition v2f_ring (F : list (list Z)) (v : Z) : list Z :=
  let containing := filter (fun k => zmem v (znth F k [])) (zrange (zlen F)) in
  match containing with
  | [] => []
  | k0 :: _ =>
      let start :=
        match find (fun k => match prev_in (znth F k []) v with
                             | Some p => negb (dmem (v, p) (dedges F))
                             | None => false end) containing with
        | Some k => k
        | None => k0
        end in
      ring_walk F v (length F) start start [start]
  end.

(* equality of two cyclic sequences *)
Definition cyc_eqb (a b : list Z) : bool := existsb (face_eqb b) (rotations a) || (match a, b with [], [] => true | _, _ => false end).
