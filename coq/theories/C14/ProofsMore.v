(* C14 - round 7: clauses of the property statement that were only tested so far.
   1. flat_ring: closed form of the rim (vertex i+1 is at angle i*ang on the unit circle, ang = (2 pi - clamped defect)/N),
      hence every triangle has the apex angle ang and one cover of N triangles leaves exactly the requested defect.
   2. unit_triangle: number of faces for ALL admissible resolutions (equal or not), all faces are triangles.
   3. sphere_uv: the n_lat rings are at n_lat distinct latitudes strictly between the poles. *)
From Coq Require Import ZArith List Bool Reals Lra Lia.
Import ListNotations.
Require Import MV.Lib.Base MV.C14.Model MV.C14.Gen MV.C14.ProofsLib MV.C14.ProofsCoords MV.C14.ProofsTri MV.C14.ProofsBisect.
Open Scope R_scope.

(* ------------------------------------------------------------------ 1. flat_ring *)
Definition flat_defect (d : R) : R := ring_defect_clamp Rops d.
Definition flat_ang (N : Z) (d : R) : R := (2 * PI - flat_defect d) / IZR N.
Definition flat_rot (a : R) (v : vec R) : vec R := let v1 := geom_rotate_2d Rops v a in (vx v1, vy v1, 0).

Lemma iter_succ_r {A} (f : A -> A) n x : Nat.iter (S n) f x = Nat.iter n f (f x).
Proof. induction n as [|n IH]; [reflexivity|]. change (f (Nat.iter (S n) f x) = f (Nat.iter n f (f x))). f_equal. exact IH. Qed.

Lemma vscan_nth_const (f : vec R -> vec R) l : forall s n d, (n < List.length l)%nat ->
  nth n (vscan (fun v _ => f v) s l) d = Nat.iter (S n) f s.
Proof.
  induction l as [|i l IH]; intros s n d Hn; [inversion Hn|]. cbn [vscan]. destruct n; [reflexivity|].
  cbn [nth]. rewrite IH by (cbn [List.length] in Hn; lia). symmetry. apply iter_succ_r.
Qed.

Lemma flat_rot_iter a n : Nat.iter n (flat_rot a) (1, 0, 0) = (cos (INR n * a), sin (INR n * a), 0).
Proof.
  induction n as [|n IH].
  - cbn [Nat.iter nat_rect INR]. rewrite Rmult_0_l, cos_0, sin_0. reflexivity.
  - change (Nat.iter (S n) (flat_rot a) (1, 0, 0)) with (flat_rot a (Nat.iter n (flat_rot a) (1, 0, 0))).
    rewrite IH, S_INR, Rmult_plus_distr_r, Rmult_1_l, cos_plus, sin_plus.
    unfold flat_rot, geom_rotate_2d, vx, vy. cbv zeta. cbn [fst snd ocos osin osub oadd omul Rops].
    repeat match goal with |- (_, _) = (_, _) => apply f_equal2 end; try reflexivity; ring.
Qed.

Lemma flat_ring_coords_eq N d k :
  flat_ring_coords Rops N d k = (0, 0, 0) :: (1, 0, 0) :: vscan (fun v _ => flat_rot (flat_ang N d) v) (1, 0, 0) (zrange (N * k)).
Proof. reflexivity. Qed.

Lemma flat_ring_closed_form N d k i : (0 <= i <= N * k)%Z ->
  nth (Z.to_nat (i + 1)) (flat_ring_coords Rops N d k) (0, 0, 0) = (cos (IZR i * flat_ang N d), sin (IZR i * flat_ang N d), 0).
Proof.
  intros Hi. rewrite flat_ring_coords_eq.
  destruct (Z.eq_dec i 0) as [->|Hne].
  - cbn [Z.add Z.to_nat Pos.to_nat Pos.iter_op nth]. rewrite Rmult_0_l, cos_0, sin_0. reflexivity.
  - replace (Z.to_nat (i + 1)) with (S (S (Z.to_nat (i - 1)))) by lia. cbn [nth].
    rewrite vscan_nth_const by (rewrite zrange_length; lia).
    replace (S (Z.to_nat (i - 1))) with (Z.to_nat i) by lia.
    rewrite flat_rot_iter, INR_IZR_INZ, Z2Nat.id by lia. reflexivity.
Qed.

Lemma flat_defect_range d : 0 <= flat_defect d <= 2 * PI - 1 / 100.
Proof. exact (ring_clamp d). Qed.
Lemma flat_defect_id d : 0 <= d < 2 * PI - 1 / 100 -> flat_defect d = d.
Proof.
  intros H. unfold flat_defect, ring_defect_clamp, omax, omin. cbv zeta. cbn [oltb osub omul odiv oofZ opi Rops].
  destruct (Rlt_dec d (2 * PI - 1 / 100)); [|lra]. destruct (Rlt_dec d 0); lra.
Qed.

(* every triangle (0, i+1, i+2): apex at the origin, the two rim vectors are unit vectors making the angle ang, counter-clockwise;
   N such angles make 2 pi - defect, and 0 < ang <= 2 pi / N *)
Lemma flat_ring_apex_angle N d k : (1 <= N)%Z ->
  let X := flat_ring_coords Rops N d k in
  nth 0 X (1, 1, 1) = (0, 0, 0) /\
  (forall f, In f (flat_ring_faces N k) -> exists i, (0 <= i < N * k)%Z /\ f = [0; i + 1; i + 2]%Z /\
     let p := nth (Z.to_nat (i + 1)) X (0, 0, 0) in let q := nth (Z.to_nat (i + 2)) X (0, 0, 0) in
     on_unit_circle p /\ on_unit_circle q /\
     vx p * vx q + vy p * vy q = cos (flat_ang N d) /\ vx p * vy q - vy p * vx q = sin (flat_ang N d)) /\
  IZR N * flat_ang N d = 2 * PI - flat_defect d /\ 0 < flat_ang N d <= 2 * PI / IZR N.
Proof.
  intros HN X. assert (HN' : 1 <= IZR N) by (apply IZR_le; lia).
  split; [reflexivity|]. split; [|split].
  - intros f Hf. unfold flat_ring_faces in Hf. apply in_flat_map in Hf as [i [Hi Hf]]. apply In_zrange in Hi.
    destruct Hf as [<-|[]]. exists i. split; [lia|]. split; [reflexivity|]. cbv zeta. subst X.
    rewrite (flat_ring_closed_form N d k i) by lia.
    replace (i + 2)%Z with ((i + 1) + 1)%Z by lia. rewrite (flat_ring_closed_form N d k (i + 1)) by lia.
    set (a := IZR i * flat_ang N d). set (b := IZR (i + 1) * flat_ang N d).
    assert (Hab : flat_ang N d = b - a) by (subst a b; rewrite plus_IZR; ring).
    unfold on_unit_circle, vx, vy, vz. cbn [fst snd]. rewrite Hab at 1 2. rewrite cos_minus, sin_minus.
    pose proof (cs2 a). pose proof (cs2 b). repeat split; try lra; ring.
  - unfold flat_ang. field. lra.
  - pose proof (flat_defect_range d) as Hd. pose proof PI_RGT_0. unfold flat_ang. split.
    + apply Rdiv_lt_0_compat; lra.
    + unfold Rdiv. apply Rmult_le_compat_r; [|lra]. left. apply Rinv_0_lt_compat. lra.
Qed.

(* ------------------------------------------------------------------ 2. unit_triangle: number of faces, all parameters *)
Open Scope Z_scope.
Lemma tri_nfaces_closed nu nv u : 2 <= nu -> 2 <= nv ->
  zlen (unit_triangle_faces nu nv u) = 2 * roff nu nv - 2 * (nv - 1) - (Z.min nv nu - 1) - 2.
Proof. intros Hu Hv. rewrite tri_nfaces_eq by lia. pose proof (tri_count_identity nu nv ltac:(lia) ltac:(lia)). lia. Qed.

Lemma tri_nfaces_full nu nv u : 2 <= nv <= nu -> zlen (unit_triangle_faces nu nv u) = (nv - 1) * (nv - 1).
Proof.
  intros H. rewrite tri_nfaces_closed by lia.
  pose proof (tri_nverts nu nv u ltac:(lia) ltac:(lia)) as H1. rewrite (tri_nverts_full nu nv u) in H1 by lia. rewrite <- H1.
  assert (H2 : 2 * ((nv * (nv + 1)) / 2) = nv * (nv + 1)).
  { destruct (Z.Even_or_Odd nv) as [[q Hq]|[q Hq]]; subst nv.
    - replace (2 * q * (2 * q + 1)) with (q * (2 * q + 1) * 2) by ring. rewrite Z.div_mul by lia. ring.
    - replace ((2 * q + 1) * (2 * q + 1 + 1)) with ((2 * q + 1) * (q + 1) * 2) by ring. rewrite Z.div_mul by lia. ring. }
  rewrite H2. lia.
Qed.

Lemma tri_all_triangles nu nv u : 2 <= nu -> 2 <= nv -> Forall (fun f : list Z => zlen f = 3) (unit_triangle_faces nu nv u).
Proof.
  intros Hu Hv. apply Forall_forall. intros f Hf. apply tri_faces_In in Hf as [j [i [_ [_ Hf]]]]; try lia.
  unfold tricell in Hf. cbv zeta in Hf. apply in_app_iff in Hf as [Hf|Hf];
    [destruct ((i <? j) && (i <? nu - 1)) | destruct (i <? nu - 1)]; cbn [In] in Hf; split_or Hf; subst f; reflexivity.
Qed.

(* ------------------------------------------------------------------ 3. sphere_uv: n_lat honoured - the rings of vertices are at n_lat
   distinct latitudes strictly between the poles (the pristine code before fix c78cbcf put two rings on one latitude) *)
Open Scope R_scope.
Definition sph_phi (n i : Z) : R := PI * IZR (i + 1) / IZR (n + 1).
Definition sph_theta (L j : Z) : R := 2 * PI * IZR j / IZR L.
Definition sph_pt (n L : Z) (center : vec R) (radius : R) (i j : Z) : vec R :=
  vadd Rops center (vscale Rops radius (sin (sph_phi n i) * cos (sph_theta L j), sin (sph_phi n i) * sin (sph_theta L j), cos (sph_phi n i))).

Lemma flat_map_single {A B} (f : A -> B) l : flat_map (fun x => [f x]) l = map f l.
Proof. induction l as [|a l IH]; [reflexivity|]. cbn [flat_map map app]. rewrite IH. reflexivity. Qed.

Lemma sphere_uv_rows n L center radius :
  sphere_uv_coords Rops n L center radius =
    vadd Rops center (vscale Rops radius (0, 0, 1)) ::
    flat_map (fun i => map (sph_pt n L center radius i) (zrange L)) (zrange n) ++
    [vadd Rops center (vscale Rops radius (0, 0, -1))].
Proof.
  unfold sphere_uv_coords. cbv zeta. cbn [app]. apply (f_equal2 cons); [reflexivity|]. apply (f_equal2 (@app _)); [|reflexivity].
  apply flat_map_ext. intros i. rewrite <- flat_map_single. reflexivity.
Qed.

Lemma sph_pt_z n L center radius i j : vz (sph_pt n L center radius i j) = vz center + radius * cos (sph_phi n i).
Proof. destruct center as [[cx cy] cz]. reflexivity. Qed.

Lemma sph_phi_lt n a b : (0 <= n)%Z -> (a < b)%Z -> sph_phi n a < sph_phi n b.
Proof.
  intros Hn Hab. unfold sph_phi, Rdiv. assert (0 < IZR (n + 1)) by (apply IZR_lt; lia).
  apply Rmult_lt_compat_r; [apply Rinv_0_lt_compat; lra|]. apply Rmult_lt_compat_l; [exact PI_RGT_0|]. apply IZR_lt. lia.
Qed.
Lemma sph_phi_ends n : (0 <= n)%Z -> sph_phi n (-1) = 0 /\ sph_phi n n = PI.
Proof.
  intros Hn. assert (IZR (n + 1) <> 0) by (apply not_0_IZR; lia). unfold sph_phi. split.
  - replace (-1 + 1)%Z with 0%Z by lia. unfold Rdiv. ring.
  - field. exact H.
Qed.

Lemma sphere_uv_latitudes n : (1 <= n)%Z ->
  (forall i, (0 <= i < n)%Z -> -1 < cos (sph_phi n i) < 1) /\
  (forall i i', (0 <= i < i')%Z -> (i' < n)%Z -> cos (sph_phi n i') < cos (sph_phi n i)).
Proof.
  intros Hn. destruct (sph_phi_ends n ltac:(lia)) as [E0 E1].
  assert (Hr : forall i, (-1 <= i <= n)%Z -> 0 <= sph_phi n i <= PI).
  { intros i Hi. split.
    - destruct (Z.eq_dec i (-1)) as [->|]; [lra|]. rewrite <- E0. left. apply sph_phi_lt; lia.
    - destruct (Z.eq_dec i n) as [->|]; [lra|]. rewrite <- E1. left. apply sph_phi_lt; lia. }
  split.
  - intros i Hi. pose proof (Hr i ltac:(lia)) as Hb. split.
    + rewrite <- cos_PI. rewrite <- E1 at 1. apply cos_decreasing_1; try (apply Hr; lia). apply sph_phi_lt; lia.
    + rewrite <- cos_0. rewrite <- E0 at 1. apply cos_decreasing_1; try (apply Hr; lia). apply sph_phi_lt; lia.
  - intros i i' Hi Hi'. apply cos_decreasing_1; try (apply Hr; lia). apply sph_phi_lt; lia.
Qed.

(* ------------------------------------------------------------------ 4. the GENERATED helpers of mouette/geometry/rotations.py *)
Lemma rot2d_spec (a b z : R) : geom_rotate_2d Rops (cos a, sin a, z) b = (cos (a + b), sin (a + b), 0).
Proof.
  unfold geom_rotate_2d, vx, vy. cbv zeta. cbn [fst snd ocos osin osub oadd omul oofZ Rops]. rewrite cos_plus, sin_plus.
  repeat match goal with |- (_, _) = (_, _) => apply f_equal2 end; try reflexivity; ring.
Qed.

(* ------------------------------------------------------------------ 5. ring: all the triangles are congruent at the apex.
   The bisection (C14_ring_apex_defect) measures the apex angle on vertices 1, 2 only; with the apex on the axis at height h
   every triangle (0, a, b) of the ring has |p - apex|^2 = |q - apex|^2 = 1 + h^2 and (p - apex).(q - apex) = cos(2 pi/N) + h^2,
   so its apex angle is the measured one and the N*n_cover of them add up to n_cover * (2 pi - defect). *)
Definition ring_pt (N i : Z) : vec R := (cos (IZR (2 * i) * PI / IZR N), sin (IZR (2 * i) * PI / IZR N), 0).

Lemma nth_zrange n j d : (j < Z.to_nat n)%nat -> nth j (zrange n) d = Z.of_nat j.
Proof.
  intros H. unfold zrange. rewrite (nth_indep _ d (Z.of_nat 0)) by (rewrite map_length, seq_length; exact H).
  rewrite map_nth, seq_nth by exact H. reflexivity.
Qed.
Lemma nth_zrange2 a b j d : (j < Z.to_nat (b - a))%nat -> nth j (zrange2 a b) d = (a + Z.of_nat j)%Z.
Proof.
  intros H. unfold zrange2. rewrite (nth_indep _ d ((fun i => (a + i)%Z) 0%Z)) by (rewrite map_length, zrange_length; exact H).
  rewrite map_nth, nth_zrange by exact H. reflexivity.
Qed.

Lemma ring_coords_eq N d o k apex :
  ring_coords Rops N d o k apex =
    apex :: (1, 0, 0) :: map (ring_pt N) (zrange2 1 (N * k)) ++ (if o then [(1, 0, 0)] else []).
Proof.
  unfold ring_coords. cbn [app]. unfold vset. cbn [Z.to_nat vset_nat]. rewrite flat_map_single. reflexivity.
Qed.

Lemma ring_pt_0 N : ring_pt N 0 = (1, 0, 0).
Proof. unfold ring_pt. replace (IZR (2 * 0) * PI / IZR N) with 0 by (cbn; unfold Rdiv; ring). rewrite cos_0, sin_0. reflexivity. Qed.

Lemma ring_vertex N d o k apex i : (0 <= i < N * k)%Z ->
  nth (Z.to_nat (i + 1)) (ring_coords Rops N d o k apex) (0, 0, 0) = ring_pt N i.
Proof.
  intros Hi. rewrite ring_coords_eq. destruct (Z.eq_dec i 0) as [->|Hne].
  - cbn [Z.add Z.to_nat Pos.to_nat Pos.iter_op nth]. symmetry. apply ring_pt_0.
  - replace (Z.to_nat (i + 1)) with (S (S (Z.to_nat (i - 1)))) by lia. cbn [nth].
    rewrite app_nth1 by (rewrite map_length; unfold zrange2; rewrite map_length, zrange_length; lia).
    rewrite (nth_indep _ (0, 0, 0) (ring_pt N 0)) by (rewrite map_length; unfold zrange2; rewrite map_length, zrange_length; lia).
    rewrite map_nth, nth_zrange2 by lia. f_equal. lia.
Qed.

Lemma ring_vertex_last N d k apex : (1 <= N * k)%Z ->
  nth (Z.to_nat (N * k + 1)) (ring_coords Rops N d true k apex) (0, 0, 0) = (1, 0, 0).
Proof.
  intros H. rewrite ring_coords_eq. replace (Z.to_nat (N * k + 1)) with (S (S (Z.to_nat (N * k - 1)))) by lia. cbn [nth].
  rewrite app_nth2 by (rewrite map_length; unfold zrange2; rewrite map_length, zrange_length; lia).
  rewrite map_length. unfold zrange2. rewrite map_length, zrange_length.
  replace (Z.to_nat (N * k - 1) - Z.to_nat (N * k - 1))%nat with 0%nat by lia. reflexivity.
Qed.

(* the last rim point is one step before a whole number of turns *)
Lemma ring_pt_last N k : (1 <= N)%Z -> (1 <= k)%Z ->
  cos (IZR (2 * (N * k - 1)) * PI / IZR N) = cos (2 * PI / IZR N) /\ sin (IZR (2 * (N * k - 1)) * PI / IZR N) = - sin (2 * PI / IZR N).
Proof.
  intros HN Hk. assert (HN0 : IZR N <> 0) by (apply not_0_IZR; lia).
  replace (IZR (2 * (N * k - 1)) * PI / IZR N) with (- (2 * PI / IZR N) + 2 * INR (Z.to_nat k) * PI).
  - rewrite cos_period, sin_period, cos_neg, sin_neg. split; reflexivity.
  - rewrite INR_IZR_INZ, Z2Nat.id by lia. rewrite mult_IZR, minus_IZR, mult_IZR. field. exact HN0.
Qed.

Definition apex_congruent (N : Z) (h : R) (p q : vec R) : Prop :=
  dist2 p (0, 0, h) = 1 + h * h /\ dist2 q (0, 0, h) = 1 + h * h /\
  (vx p - 0) * (vx q - 0) + (vy p - 0) * (vy q - 0) + (vz p - h) * (vz q - h) = cos (2 * PI / IZR N) + h * h.

Lemma ring_pt_congruent N h i : (1 <= N)%Z -> apex_congruent N h (ring_pt N i) (ring_pt N (i + 1)).
Proof.
  intros HN. assert (HN0 : IZR N <> 0) by (apply not_0_IZR; lia).
  unfold apex_congruent, ring_pt, dist2, vx, vy, vz. cbn [fst snd].
  set (a := IZR (2 * i) * PI / IZR N). set (b := IZR (2 * (i + 1)) * PI / IZR N).
  assert (Hab : 2 * PI / IZR N = b - a) by (subst a b; rewrite !mult_IZR, plus_IZR; field; exact HN0).
  rewrite Hab, cos_minus. pose proof (cs2 a). pose proof (cs2 b). repeat split; try lra; ring.
Qed.

Lemma ring_apex_symmetric N d o k h : (3 <= N)%Z -> (1 <= k)%Z ->
  let X := ring_coords Rops N d o k (0, 0, h) in
  nth 0 X (1, 1, 1) = (0, 0, h) /\
  forall f, In f (ring_faces N o k) -> exists a b, f = [0; a; b]%Z /\
    apex_congruent N h (nth (Z.to_nat a) X (0, 0, 0)) (nth (Z.to_nat b) X (0, 0, 0)).
Proof.
  intros HN Hk X. assert (HNk : (3 <= N * k)%Z) by nia. split; [subst X; rewrite ring_coords_eq; reflexivity|].
  assert (Hlast : forall q, q = (1, 0, 0) -> apex_congruent N h (ring_pt N (N * k - 1)) q).
  { intros q ->. destruct (ring_pt_last N k ltac:(lia) Hk) as [Hc Hs].
    unfold apex_congruent, ring_pt, dist2, vx, vy, vz. cbn [fst snd]. rewrite Hc, Hs.
    pose proof (cs2 (2 * PI / IZR N)). repeat split; try lra; ring. }
  intros f Hf. unfold ring_faces in Hf. apply in_app_iff in Hf as [Hf|Hf].
  - apply in_flat_map in Hf as [i [Hi Hf]]. apply In_zrange2 in Hi. cbv zeta in Hf. destruct Hf as [<-|[]].
    assert (Hn : (if o then i + 1 else (i + 1) mod (N * k + 1))%Z = (i + 1)%Z) by (destruct o; [reflexivity|apply Z.mod_small; lia]).
    rewrite Hn. exists i, (i + 1)%Z. split; [reflexivity|]. subst X.
    replace i with ((i - 1) + 1)%Z at 1 by lia. rewrite (ring_vertex N d o k _ (i - 1)), (ring_vertex N d o k _ i) by lia.
    replace i with ((i - 1) + 1)%Z at 2 by lia. apply ring_pt_congruent. lia.
  - destruct o; destruct Hf as [<-|[]].
    + exists (N * k)%Z, (N * k + 1)%Z. split; [reflexivity|]. subst X.
      replace (N * k)%Z with ((N * k - 1) + 1)%Z at 1 by lia. rewrite (ring_vertex N d true k _ (N * k - 1)) by lia.
      apply Hlast. apply ring_vertex_last. lia.
    + exists (N * k)%Z, 1%Z. split; [reflexivity|]. subst X.
      replace (N * k)%Z with ((N * k - 1) + 1)%Z at 1 by lia. rewrite (ring_vertex N d false k _ (N * k - 1)) by lia.
      apply Hlast. rewrite ring_coords_eq. reflexivity.
Qed.

(* ------------------------------------------------------------------ 6. ring: two of the three hypotheses of C14_ring_apex_defect hold for
   the geometric angle  angle(A, P, B) = acos( (A-P).(B-P) / (|A-P| |B-P|) )  (what atan2(|cross|, dot) computes over the reals):
   the defect g is monotone in the apex height and g(0) = 0. *)
Definition geo_angle (A P B : vec R) : R :=
  acos (dot3 (vsub Rops A P) (vsub Rops B P) /
        (R_sqrt.sqrt (dot3 (vsub Rops A P) (vsub Rops A P)) * R_sqrt.sqrt (dot3 (vsub Rops B P) (vsub Rops B P)))).

Definition ring_ratio (N : Z) (h : R) : R := (cos (2 * PI / IZR N) + h * h) / (1 + h * h).

Lemma geo_angle_ring N h : (1 <= N)%Z -> geo_angle (1, 0, 0) (0, 0, h) (ring_pt N 1) = acos (ring_ratio N h).
Proof.
  intros HN. pose proof (ring_pt_congruent N h 0 HN) as [H1 [H2 H3]]. rewrite ring_pt_0 in *. change (0 + 1)%Z with 1%Z in *.
  unfold geo_angle, ring_ratio. f_equal.
  set (q := ring_pt N 1) in *. clearbody q. destruct q as [[qx qy] qz].
  unfold dist2, dot3, vsub, vx, vy, vz in *. cbn [fst snd osub Rops] in *.
  replace ((1 - 0) * (1 - 0) + (0 - 0) * (0 - 0) + (0 - h) * (0 - h)) with (1 + h * h) by ring.
  replace ((qx - 0) * (qx - 0) + (qy - 0) * (qy - 0) + (qz - h) * (qz - h)) with (1 + h * h) by lra.
  rewrite sqrt_sqrt by nra. f_equal. lra.
Qed.

Lemma ring_ratio_range N h : -1 <= ring_ratio N h <= 1.
Proof.
  unfold ring_ratio. pose proof (COS_bound (2 * PI / IZR N)) as [Hl Hu]. assert (Hp : 0 < 1 + h * h) by nra.
  split.
  - apply Rmult_le_reg_r with (1 + h * h); [exact Hp|]. unfold Rdiv. rewrite Rmult_assoc, Rinv_l by lra. nra.
  - apply Rmult_le_reg_r with (1 + h * h); [exact Hp|]. unfold Rdiv. rewrite Rmult_assoc, Rinv_l by lra. nra.
Qed.

Lemma ring_ratio_mono N a b : 0 <= a <= b -> ring_ratio N a <= ring_ratio N b.
Proof.
  intros Hab. unfold ring_ratio. pose proof (COS_bound (2 * PI / IZR N)) as [Hl Hu]. set (c := cos (2 * PI / IZR N)) in *. clearbody c.
  assert (Hpa : 0 < 1 + a * a) by nra. assert (Hpb : 0 < 1 + b * b) by nra.
  apply Rmult_le_reg_r with ((1 + a * a) * (1 + b * b)); [nra|].
  replace ((c + a * a) / (1 + a * a) * ((1 + a * a) * (1 + b * b))) with ((c + a * a) * (1 + b * b)) by (field; lra).
  replace ((c + b * b) / (1 + b * b) * ((1 + a * a) * (1 + b * b))) with ((c + b * b) * (1 + a * a)) by (field; lra).
  assert (a * a <= b * b) by nra. nra.
Qed.

Lemma acos_antitone x y : -1 <= x -> x <= y -> y <= 1 -> acos y <= acos x.
Proof.
  intros Hx Hxy Hy. destruct (Rle_lt_dec (acos y) (acos x)) as [L|L]; [exact L|]. exfalso.
  pose proof (acos_bound x) as [Bx1 Bx2]. pose proof (acos_bound y) as [By1 By2].
  pose proof (cos_decreasing_1 (acos x) (acos y) Bx1 Bx2 By1 By2 L) as Hc.
  rewrite !cos_acos in Hc by lra. lra.
Qed.

Lemma ring_geo_hypotheses N : (3 <= N)%Z ->
  let gg h := 2 * PI - IZR N * geo_angle (1, 0, 0) (0, 0, h) (ring_pt N 1) in
  (forall a b, 0 <= a <= b -> gg a <= gg b) /\ gg 0 = 0.
Proof.
  intros HN gg. assert (HN3 : 3 <= IZR N) by (apply IZR_le; lia). subst gg. cbv beta. split.
  - intros a b Hab. rewrite !geo_angle_ring by lia.
    pose proof (ring_ratio_range N a) as [Ra _]. pose proof (ring_ratio_range N b) as [_ Rb].
    pose proof (acos_antitone _ _ Ra (ring_ratio_mono N a b Hab) Rb) as Hac.
    assert (IZR N * acos (ring_ratio N b) <= IZR N * acos (ring_ratio N a)) by (apply Rmult_le_compat_l; lra). lra.
  - rewrite geo_angle_ring by lia. unfold ring_ratio. replace ((cos (2 * PI / IZR N) + 0 * 0) / (1 + 0 * 0)) with (cos (2 * PI / IZR N)) by (field).
    pose proof PI_RGT_0 as Hpi. rewrite acos_cos.
    + field. lra.
    + split.
      * apply Rlt_le. apply Rdiv_lt_0_compat; lra.
      * apply Rmult_le_reg_r with (IZR N); [lra|]. unfold Rdiv. rewrite Rmult_assoc, Rinv_l by lra. nra.
Qed.
