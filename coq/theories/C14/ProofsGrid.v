(* C14 - unit_grid(nu, nv, triangulate): all nu, nv >= 2. *)
From Coq Require Import ZArith List Bool Lia ZifyBool.
Import ListNotations.
Require Import MV.Lib.Base MV.C14.Model MV.C14.Gen MV.C14.ProofsLib.
Open Scope Z_scope.

(* vertex (i,j) of the grid *)
Definition gv (nv i j : Z) : Z := i * nv + j.
Definition gquad (nv i j : Z) : list Z := [gv nv i j; gv nv i (j + 1); gv nv (i + 1) (j + 1); gv nv (i + 1) j].
Definition gtri1 (nv i j : Z) : list Z := [gv nv i j; gv nv i (j + 1); gv nv (i + 1) j].
Definition gtri2 (nv i j : Z) : list Z := [gv nv i (j + 1); gv nv (i + 1) (j + 1); gv nv (i + 1) j].
Definition gcell (nv : Z) (t : bool) (i j : Z) : list (list Z) :=
  if t then [gtri1 nv i j; gtri2 nv i j] else [gquad nv i j].

(* the generated loop nest, with the guard turned into the loop bounds *)
Lemma grid_faces_eq nu nv t u : 2 <= nu -> 2 <= nv ->
  unit_grid_faces nu nv t u =
  flat_map (fun i => flat_map (fun j => gcell nv t i j) (zrange (nv - 1))) (zrange (nu - 1)).
Proof.
  intros Hu Hv. unfold unit_grid_faces.
  rewrite <- (flat_map_guard (fun i => flat_map (fun j => gcell nv t i j) (zrange (nv - 1)))
                             (fun i => i <? nu - 1) (nu - 1) nu) by (try lia; auto).
  apply flat_map_zrange_ext. intros i Hi.
  destruct (i <? nu - 1) eqn:Ei.
  - rewrite <- (flat_map_guard (fun j => gcell nv t i j) (fun j => j <? nv - 1) (nv - 1) nv) by (try lia; auto).
    apply flat_map_zrange_ext. intros j Hj. cbn [andb].
    destruct (j <? nv - 1); [|reflexivity].
    unfold gcell, gtri1, gtri2, gquad, gv. destruct t; cbn [app]; repeat (f_equal; try ring).
  - rewrite (flat_map_ext_in _ (fun _ => @nil (list Z))); [apply flat_map_nil|]. intros; reflexivity.
Qed.

Lemma grid_nverts nu nv t u : 0 <= nu -> 0 <= nv -> unit_grid_nverts nu nv t u = nu * nv.
Proof.
  intros Hu Hv. unfold unit_grid_nverts, unit_grid_vsites.
  rewrite (zlen_flat_map_const _ _ nv).
  - rewrite zlen_zrange by lia. lia.
  - intros i _. rewrite (zlen_flat_map_const _ _ 1); [rewrite zlen_zrange by lia; lia | reflexivity].
Qed.

Lemma grid_nfaces nu nv t u : 2 <= nu -> 2 <= nv ->
  zlen (unit_grid_faces nu nv t u) = (if t then 2 else 1) * ((nu - 1) * (nv - 1)).
Proof.
  intros Hu Hv. rewrite grid_faces_eq by lia.
  rewrite (zlen_flat_map_const _ _ ((if t then 2 else 1) * (nv - 1))).
  - rewrite zlen_zrange by lia. lia.
  - intros i _. rewrite (zlen_flat_map_const _ _ (if t then 2 else 1)).
    + rewrite zlen_zrange by lia. lia.
    + intros j _. unfold gcell. destruct t; reflexivity.
Qed.

Lemma grid_face_In nu nv t u f : 2 <= nu -> 2 <= nv ->
  In f (unit_grid_faces nu nv t u) <->
  exists i j, 0 <= i < nu - 1 /\ 0 <= j < nv - 1 /\ In f (gcell nv t i j).
Proof.
  intros Hu Hv. rewrite grid_faces_eq by lia. rewrite in_flat_map. split.
  - intros [i [Hi H]]. apply In_zrange in Hi. apply in_flat_map in H as [j [Hj H]]. apply In_zrange in Hj.
    exists i, j. auto.
  - intros [i [j [Hi [Hj H]]]]. exists i. split; [apply In_zrange; lia|].
    apply in_flat_map. exists j. split; [apply In_zrange; lia | exact H].
Qed.

Lemma grid_in_range nu nv t u : 2 <= nu -> 2 <= nv ->
  in_range (unit_grid_nverts nu nv t u) (unit_grid_faces nu nv t u).
Proof.
  intros Hu Hv. rewrite grid_nverts by lia. unfold in_range.
  apply Forall_forall. intros f Hf. apply grid_face_In in Hf as [i [j [Hi [Hj Hf]]]]; try lia.
  apply Forall_forall. intros v Hv'.
  unfold gcell, gtri1, gtri2, gquad, gv in Hf. destruct t; simpl in Hf;
    repeat (destruct Hf as [Hf|Hf]; [subst f; simpl in Hv'; repeat (destruct Hv' as [Hv'|Hv']; [subst v; nia|]); destruct Hv'|]);
    destruct Hf.
Qed.

(* every vertex is the first or third corner of some cell *)
Lemma grid_all_used nu nv t u : 2 <= nu -> 2 <= nv ->
  all_used (unit_grid_nverts nu nv t u) (unit_grid_faces nu nv t u).
Proof.
  intros Hu Hv. rewrite grid_nverts by lia. intros v Hv'.
  set (i := v / nv). set (j := v mod nv).
  assert (Hij : v = i * nv + j /\ 0 <= j < nv /\ 0 <= i < nu).
  { subst i j. pose proof (Z.div_mod v nv ltac:(lia)). pose proof (Z.mod_pos_bound v nv ltac:(lia)).
    split; [lia|]. split; [lia|]. split; [apply Z.div_pos; lia | apply Z.div_lt_upper_bound; lia]. }
  destruct Hij as [Ev [Hj Hi]]. clearbody i j.
  (* the cell (i', j') with i' = min i (nu-2), j' = min j (nv-2) contains v *)
  set (i' := Z.min i (nu - 2)). set (j' := Z.min j (nv - 2)).
  assert (Hc : exists f, In f (gcell nv t i' j') /\ In v f).
  { unfold gcell, gtri1, gtri2, gquad, gv. subst i' j'.
    destruct (Z_lt_le_dec i (nu - 1)) as [Li|Li], (Z_lt_le_dec j (nv - 1)) as [Lj|Lj];
      [rewrite (Z.min_l i), (Z.min_l j) by lia | rewrite (Z.min_l i), (Z.min_r j) by lia
      | rewrite (Z.min_r i), (Z.min_l j) by lia | rewrite (Z.min_r i), (Z.min_r j) by lia];
      destruct t.
    + eexists. split; [left; reflexivity|]. left. lia.
    + eexists. split; [left; reflexivity|]. left. lia.
    + eexists. split; [left; reflexivity|]. right. left. lia.
    + eexists. split; [left; reflexivity|]. right. left. lia.
    + assert (i = nu - 1) by lia; subst i. eexists. split; [left; reflexivity|]. right. right. left. lia.
    + assert (i = nu - 1) by lia; subst i. eexists. split; [left; reflexivity|]. right. right. right. left. lia.
    + assert (i = nu - 1) by lia; subst i. eexists. split; [right; left; reflexivity|]. right. left. lia.
    + assert (i = nu - 1) by lia; subst i. eexists. split; [left; reflexivity|]. right. right. left. lia. }
  destruct Hc as [f [Hf Hvf]]. exists f. split; auto.
  apply grid_face_In; try lia. exists i', j'. subst i' j'. split; [lia|]. split; [lia|]. exact Hf.
Qed.

Lemma grid_faces_simple nu nv t u : 2 <= nu -> 2 <= nv -> faces_simple (unit_grid_faces nu nv t u).
Proof.
  intros Hu Hv. apply Forall_forall. intros f Hf.
  apply grid_face_In in Hf as [i [j [Hi [Hj Hf]]]]; try lia.
  unfold gcell, gtri1, gtri2, gquad, gv in Hf.
  destruct t; simpl in Hf; repeat (destruct Hf as [Hf|Hf]; [subst f|]); try destruct Hf;
    (split; [simpl; lia|]); repeat constructor; simpl; nia.
Qed.
