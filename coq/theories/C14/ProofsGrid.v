(* C14 - unit_grid(nu, nv, triangulate): all nu, nv >= 2. *)
From Coq Require Import ZArith List Bool Lia ZifyBool.
Import ListNotations.
Require Import MV.Lib.Base MV.C14.Model MV.C14.Gen MV.C14.ProofsLib.
Open Scope Z_scope.

(* vertex (i,j) of the grid *)
Definition gv (nv i j : Z) : Z := i * nv + j.
Definition gquad (nv i j : Z) : list Z := [gv nv i j; gv nv i (j + 1); gv nv (i + 1) (j + 1); gv nv (i + 1) j].
Definition gtri1 (nv i j : Z) : list Z := [gv nv i j; gv nv i (j + 1); gv nv (i + 1) j].
Definition gtri2 (nv i j : Z) : list Z := [gv nv i (j + 1); gv nv (i + 1) (j + 1); gv nv (i + 1) j].
Definition gcell (nv : Z) (t : bool) (i j : Z) : list (list Z) :=
  if t then [gtri1 nv i j; gtri2 nv i j] else [gquad nv i j].

(* the generated loop nest, with the guard turned into the loop bounds *)
Lemma grid_faces_eq nu nv t u : 2 <= nu -> 2 <= nv ->
  unit_grid_faces nu nv t u =
  flat_map (fun i => flat_map (fun j => gcell nv t i j) (zrange (nv - 1))) (zrange (nu - 1)).
Proof.
  intros Hu Hv. unfold unit_grid_faces.
  rewrite <- (flat_map_guard (fun i => flat_map (fun j => gcell nv t i j) (zrange (nv - 1)))
                             (fun i => i <? nu - 1) (nu - 1) nu) by (try lia; auto).
  apply flat_map_zrange_ext. intros i Hi.
  destruct (i <? nu - 1) eqn:Ei.
  - rewrite <- (flat_map_guard (fun j => gcell nv t i j) (fun j => j <? nv - 1) (nv - 1) nv) by (try lia; auto).
    apply flat_map_zrange_ext. intros j Hj. cbn [andb].
    destruct (j <? nv - 1); [|reflexivity].
    unfold gcell, gtri1, gtri2, gquad, gv. destruct t; cbn [app]; repeat (f_equal; try ring).
  - rewrite (flat_map_ext_in _ (fun _ => @nil (list Z))); [apply flat_map_nil|]. intros; reflexivity.
Qed.

Lemma grid_nverts nu nv t u : 0 <= nu -> 0 <= nv -> unit_grid_nverts nu nv t u = nu * nv.
Proof.
  intros Hu Hv. unfold unit_grid_nverts, unit_grid_vsites.
  rewrite (zlen_flat_map_const _ _ nv).
  - rewrite zlen_zrange by lia. lia.
  - intros i _. rewrite (zlen_flat_map_const _ _ 1); [rewrite zlen_zrange by lia; lia | reflexivity].
Qed.

Lemma grid_nfaces nu nv t u : 2 <= nu -> 2 <= nv ->
  zlen (unit_grid_faces nu nv t u) = (if t then 2 else 1) * ((nu - 1) * (nv - 1)).
Proof.
  intros Hu Hv. rewrite grid_faces_eq by lia.
  rewrite (zlen_flat_map_const _ _ ((if t then 2 else 1) * (nv - 1))).
  - rewrite zlen_zrange by lia. lia.
  - intros i _. rewrite (zlen_flat_map_const _ _ (if t then 2 else 1)).
    + rewrite zlen_zrange by lia. lia.
    + intros j _. unfold gcell. destruct t; reflexivity.
Qed.

Lemma grid_face_In nu nv t u f : 2 <= nu -> 2 <= nv ->
  In f (unit_grid_faces nu nv t u) <->
  exists i j, 0 <= i < nu - 1 /\ 0 <= j < nv - 1 /\ In f (gcell nv t i j).
Proof.
  intros Hu Hv. rewrite grid_faces_eq by lia. rewrite in_flat_map. split.
  - intros [i [Hi H]]. apply In_zrange in Hi. apply in_flat_map in H as [j [Hj H]]. apply In_zrange in Hj.
    exists i, j. auto.
  - intros [i [j [Hi [Hj H]]]]. exists i. split; [apply In_zrange; lia|].
    apply in_flat_map. exists j. split; [apply In_zrange; lia | exact H].
Qed.

Lemma grid_in_range nu nv t u : 2 <= nu -> 2 <= nv ->
  in_range (unit_grid_nverts nu nv t u) (unit_grid_faces nu nv t u).
Proof.
  intros Hu Hv. rewrite grid_nverts by lia. unfold in_range.
  apply Forall_forall. intros f Hf. apply grid_face_In in Hf as [i [j [Hi [Hj Hf]]]]; try lia.
  apply Forall_forall. intros v Hv'.
  unfold gcell, gtri1, gtri2, gquad, gv in Hf. destruct t; simpl in Hf;
    repeat (destruct Hf as [Hf|Hf]; [subst f; simpl in Hv'; repeat (destruct Hv' as [Hv'|Hv']; [subst v; nia|]); destruct Hv'|]);
    destruct Hf.
Qed.

(* every vertex is the first or third corner of some cell *)
Lemma grid_all_used nu nv t u : 2 <= nu -> 2 <= nv ->
  all_used (unit_grid_nverts nu nv t u) (unit_grid_faces nu nv t u).
Proof.
  intros Hu Hv. rewrite grid_nverts by lia. intros v Hv'.
  set (i := v / nv). set (j := v mod nv).
  assert (Hij : v = i * nv + j /\ 0 <= j < nv /\ 0 <= i < nu).
  { subst i j. pose proof (Z.div_mod v nv ltac:(lia)). pose proof (Z.mod_pos_bound v nv ltac:(lia)).
    split; [lia|]. split; [lia|]. split; [apply Z.div_pos; lia | apply Z.div_lt_upper_bound; lia]. }
  destruct Hij as [Ev [Hj Hi]]. clearbody i j.
  (* the cell (i', j') with i' = min i (nu-2), j' = min j (nv-2) contains v *)
  set (i' := Z.min i (nu - 2)). set (j' := Z.min j (nv - 2)).
  assert (Hc : exists f, In f (gcell nv t i' j') /\ In v f).
  { unfold gcell, gtri1, gtri2, gquad, gv. subst i' j'.
    destruct (Z_lt_le_dec i (nu - 1)) as [Li|Li], (Z_lt_le_dec j (nv - 1)) as [Lj|Lj];
      [rewrite (Z.min_l i), (Z.min_l j) by lia | rewrite (Z.min_l i), (Z.min_r j) by lia
      | rewrite (Z.min_r i), (Z.min_l j) by lia | rewrite (Z.min_r i), (Z.min_r j) by lia];
      destruct t.
    + eexists. split; [left; reflexivity|]. left. lia.
    + eexists. split; [left; reflexivity|]. left. lia.
    + eexists. split; [left; reflexivity|]. right. left. lia.
    + eexists. split; [left; reflexivity|]. right. left. lia.
    + assert (i = nu - 1) by lia; subst i. eexists. split; [left; reflexivity|]. right. right. left. lia.
    + assert (i = nu - 1) by lia; subst i. eexists. split; [left; reflexivity|]. right. right. right. left. lia.
    + assert (i = nu - 1) by lia; subst i. eexists. split; [right; left; reflexivity|]. right. left. lia.
    + assert (i = nu - 1) by lia; subst i. eexists. split; [left; reflexivity|]. right. right. left. lia. }
  destruct Hc as [f [Hf Hvf]]. exists f. split; auto.
  apply grid_face_In; try lia. exists i', j'. subst i' j'. split; [lia|]. split; [lia|]. exact Hf.
Qed.

Lemma grid_faces_simple nu nv t u : 2 <= nu -> 2 <= nv -> faces_simple (unit_grid_faces nu nv t u).
Proof.
  intros Hu Hv. apply Forall_forall. intros f Hf.
  apply grid_face_In in Hf as [i [j [Hi [Hj Hf]]]]; try lia.
  unfold gcell, gtri1, gtri2, gquad, gv in Hf.
  destruct t; simpl in Hf; repeat (destruct Hf as [Hf|Hf]; [subst f|]); try destruct Hf;
    (split; [simpl; lia|]); repeat constructor; simpl; nia.
Qed.

(* ------------------------------------------------------------------ oriented manifold *)
Lemma cell_edges_inj nv t i j i' j' e : 2 <= nv -> 0 <= j < nv - 1 -> 0 <= j' < nv - 1 -> 0 <= i -> 0 <= i' ->
  In e (dedges (gcell nv t i j)) -> In e (dedges (gcell nv t i' j')) -> i = i' /\ j = j'.
Proof.
  intros Hv Hj Hj' Hi Hi' H H'.
  unfold gcell, gtri1, gtri2, gquad, gv in *.
  destruct t; simpl in H, H'; split_or H; subst e; split_or H'; injection H'; intros;
  try lia; (assert (i = i') by nia; subst; lia).
Qed.

Lemma cell_edges_NoDup nv t i j : 2 <= nv -> NoDup (dedges (gcell nv t i j)).
Proof.
  intros Hv. unfold gcell, gtri1, gtri2, gquad, gv.
  destruct t; simpl; repeat constructor; simpl; intros H; split_or H; injection H; intros; lia.
Qed.

Lemma grid_dedges_eq nu nv t u : 2 <= nu -> 2 <= nv ->
  dedges (unit_grid_faces nu nv t u) =
  flat_map (fun i => flat_map (fun j => dedges (gcell nv t i j)) (zrange (nv - 1))) (zrange (nu - 1)).
Proof.
  intros. rewrite grid_faces_eq by lia. rewrite dedges_flat_map.
  apply flat_map_ext_in. intros. apply dedges_flat_map.
Qed.

Lemma grid_dedge_In nu nv t u e : 2 <= nu -> 2 <= nv ->
  In e (dedges (unit_grid_faces nu nv t u)) <->
  exists i j, 0 <= i < nu - 1 /\ 0 <= j < nv - 1 /\ In e (dedges (gcell nv t i j)).
Proof.
  intros Hu Hv. rewrite grid_dedges_eq by lia. rewrite in_flat_map. split.
  - intros [i [Hi H]]. apply In_zrange in Hi. apply in_flat_map in H as [j [Hj H]]. apply In_zrange in Hj.
    exists i, j. auto.
  - intros [i [j [Hi [Hj H]]]]. exists i. split; [apply In_zrange; lia|].
    apply in_flat_map. exists j. split; [apply In_zrange; lia | exact H].
Qed.

Lemma grid_oriented_manifold nu nv t u : 2 <= nu -> 2 <= nv ->
  oriented_manifold (unit_grid_faces nu nv t u).
Proof.
  intros Hu Hv. unfold oriented_manifold. rewrite grid_dedges_eq by lia.
  apply NoDup_flat_map; [apply NoDup_zrange | |].
  - intros i Hi. apply In_zrange in Hi. apply NoDup_flat_map; [apply NoDup_zrange | |].
    + intros j _. apply cell_edges_NoDup. lia.
    + intros j j' e Hj Hj' Hne H H'. apply In_zrange in Hj, Hj'.
      destruct (cell_edges_inj nv t i j i j' e); auto; lia.
  - intros i i' e Hi Hi' Hne H H'. apply In_zrange in Hi, Hi'.
    apply in_flat_map in H as [j [Hj H]]. apply in_flat_map in H' as [j' [Hj' H']].
    apply In_zrange in Hj, Hj'.
    destruct (cell_edges_inj nv t i j i' j' e); auto; lia.
Qed.

(* ------------------------------------------------------------------ connected: every vertex > 0 has a smaller neighbour *)
Lemma grid_connected nu nv t u : 2 <= nu -> 2 <= nv ->
  connected (unit_grid_nverts nu nv t u) (unit_grid_faces nu nv t u).
Proof.
  intros Hu Hv. rewrite grid_nverts by lia. apply connected_by_descent. intros v Hv'.
  set (i := v / nv). set (j := v mod nv).
  assert (Hij : v = i * nv + j /\ 0 <= j < nv /\ 0 <= i < nu).
  { subst i j. pose proof (Z.div_mod v nv ltac:(lia)). pose proof (Z.mod_pos_bound v nv ltac:(lia)).
    split; [lia|]. split; [lia|]. split; [apply Z.div_pos; lia | apply Z.div_lt_upper_bound; lia]. }
  destruct Hij as [Ev [Hj Hi]]. clearbody i j.
  unfold adjacent.
  destruct (Z_lt_le_dec 0 j) as [Lj|Lj].
  - (* left neighbour v-1, along a row edge *)
    exists (v - 1). split; [lia|].
    destruct (Z_lt_le_dec i (nu - 1)) as [Li|Li].
    + left. apply grid_dedge_In; try lia. exists i, (j - 1). split; [lia|]. split; [lia|].
      unfold gcell, gtri1, gtri2, gquad, gv. destruct t; simpl; left; f_equal; lia.
    + right. assert (i = nu - 1) by lia. subst i.
      apply grid_dedge_In; try lia. exists (nu - 2), (j - 1). split; [lia|]. split; [lia|].
      unfold gcell, gtri1, gtri2, gquad, gv. destruct t; simpl.
      * right. right. right. right. left. f_equal; lia.
      * right. right. left. f_equal; lia.
  - (* j = 0, i > 0: upper neighbour v - nv, along a column edge *)
    assert (j = 0) by lia. subst j. assert (0 < i) by nia.
    exists (v - nv). split; [nia|]. right.
    apply grid_dedge_In; try lia. exists (i - 1), 0. split; [lia|]. split; [lia|].
    unfold gcell, gtri1, gtri2, gquad, gv. destruct t; simpl.
    + right. right. left. f_equal; lia.
    + right. right. right. left. f_equal; lia.
Qed.

(* ------------------------------------------------------------------ the border is one cycle: the perimeter *)
Definition gpos (nu nv t : Z) : Z :=
  if t <? nv - 1 then gv nv 0 t
  else if t <? (nv - 1) + (nu - 1) then gv nv (t - (nv - 1)) (nv - 1)
  else if t <? 2 * (nv - 1) + (nu - 1) then gv nv (nu - 1) ((nv - 1) - (t - (nv - 1) - (nu - 1)))
  else gv nv ((nu - 1) - (t - 2 * (nv - 1) - (nu - 1))) 0.
Definition gper (nu nv : Z) : Z := 2 * (nu - 1) + 2 * (nv - 1).

(* the four kinds of perimeter edges *)
Inductive perim (nu nv : Z) : Z * Z -> Prop :=
| per_bottom : forall s, 0 <= s < nv - 1 -> perim nu nv (gv nv 0 s, gv nv 0 (s + 1))
| per_right : forall s, 0 <= s < nu - 1 -> perim nu nv (gv nv s (nv - 1), gv nv (s + 1) (nv - 1))
| per_top : forall s, 0 <= s < nv - 1 -> perim nu nv (gv nv (nu - 1) (s + 1), gv nv (nu - 1) s)
| per_left : forall s, 0 <= s < nu - 1 -> perim nu nv (gv nv (s + 1) 0, gv nv s 0).

Lemma gpos_edge nu nv t : 2 <= nu -> 2 <= nv -> 0 <= t < gper nu nv ->
  perim nu nv (gpos nu nv t, gpos nu nv ((t + 1) mod gper nu nv)).
Proof.
  intros Hu Hv Ht. unfold gper in *.
  destruct (mod_succ_cases t (2 * (nu - 1) + 2 * (nv - 1)) Ht) as [[E L]|[E L]]; rewrite E; unfold gpos.
  - destruct (t <? nv - 1) eqn:C1.
    + destruct (t + 1 <? nv - 1) eqn:C2.
      * apply per_bottom. lia.
      * replace (t + 1 <? nv - 1 + (nu - 1)) with true by lia.
        replace (gv nv (t + 1 - (nv - 1)) (nv - 1)) with (gv nv 0 (t + 1)) by (unfold gv; nia).
        apply per_bottom. lia.
    + destruct (t <? nv - 1 + (nu - 1)) eqn:C2.
      * replace (t + 1 <? nv - 1) with false by lia.
        destruct (t + 1 <? nv - 1 + (nu - 1)) eqn:C3.
        -- replace (t + 1 - (nv - 1)) with (t - (nv - 1) + 1) by lia. apply per_right. lia.
        -- replace (t + 1 <? 2 * (nv - 1) + (nu - 1)) with true by lia.
           replace (gv nv (nu - 1) (nv - 1 - (t + 1 - (nv - 1) - (nu - 1)))) with (gv nv (t - (nv - 1) + 1) (nv - 1))
             by (unfold gv; nia).
           apply per_right. lia.
      * replace (t + 1 <? nv - 1) with false by lia. replace (t + 1 <? nv - 1 + (nu - 1)) with false by lia.
        destruct (t <? 2 * (nv - 1) + (nu - 1)) eqn:C3.
        -- destruct (t + 1 <? 2 * (nv - 1) + (nu - 1)) eqn:C4.
           ++ replace (nv - 1 - (t - (nv - 1) - (nu - 1))) with (nv - 1 - (t + 1 - (nv - 1) - (nu - 1)) + 1) by lia.
              apply per_top. lia.
           ++ replace (gv nv (nu - 1 - (t + 1 - 2 * (nv - 1) - (nu - 1))) 0) with (gv nv (nu - 1) 0) by (unfold gv; nia).
              replace (nv - 1 - (t - (nv - 1) - (nu - 1))) with (0 + 1) by lia. apply per_top. lia.
        -- replace (t + 1 <? 2 * (nv - 1) + (nu - 1)) with false by lia.
           replace (nu - 1 - (t - 2 * (nv - 1) - (nu - 1))) with (nu - 1 - (t + 1 - 2 * (nv - 1) - (nu - 1)) + 1) by lia.
           apply per_left. lia.
  - (* the last edge returns to vertex 0 *)
    replace (t <? nv - 1) with false by lia. replace (t <? nv - 1 + (nu - 1)) with false by lia.
    replace (t <? 2 * (nv - 1) + (nu - 1)) with false by lia. replace (0 <? nv - 1) with true by lia.
    replace (nu - 1 - (t - 2 * (nv - 1) - (nu - 1))) with (0 + 1) by lia. apply per_left. lia.
Qed.

Lemma perim_has_pos nu nv e : 2 <= nu -> 2 <= nv -> perim nu nv e ->
  exists t, 0 <= t < gper nu nv /\ e = (gpos nu nv t, gpos nu nv ((t + 1) mod gper nu nv)).
Proof.
  intros Hu Hv H. unfold gper.
  assert (P : forall t, 0 <= t < gper nu nv -> forall e', perim nu nv e' -> fst e' = gpos nu nv t ->
              (forall e1 e2, perim nu nv e1 -> perim nu nv e2 -> fst e1 = fst e2 -> e1 = e2) ->
              e' = (gpos nu nv t, gpos nu nv ((t + 1) mod gper nu nv))).
  { intros t Ht e' He' Hf Huniq. apply Huniq; auto. apply gpos_edge; auto. }
  assert (Huniq : forall e1 e2, perim nu nv e1 -> perim nu nv e2 -> fst e1 = fst e2 -> e1 = e2).
  { intros e1 e2 H1 H2. destruct H1, H2; unfold gv; simpl; intros E; f_equal; try nia;
      exfalso; apply rowmajor_inj in E; lia. }
  destruct H as [s Hs|s Hs|s Hs|s Hs].
  - exists s. split; [lia|]. apply P; auto; [unfold gper; lia | constructor; auto|].
    unfold gpos. cbn [fst]. replace (s <? nv - 1) with true by lia. reflexivity.
  - exists (nv - 1 + s). split; [lia|]. apply P; auto; [unfold gper; lia | constructor; auto|].
    unfold gpos. cbn [fst]. replace (nv - 1 + s <? nv - 1) with false by lia.
    replace (nv - 1 + s <? nv - 1 + (nu - 1)) with true by lia. f_equal; lia.
  - exists (nv - 1 + (nu - 1) + (nv - 2 - s)). split; [lia|]. apply P; auto; [unfold gper; lia | constructor; auto|].
    unfold gpos. cbn [fst].
    replace (nv - 1 + (nu - 1) + (nv - 2 - s) <? nv - 1) with false by lia.
    replace (nv - 1 + (nu - 1) + (nv - 2 - s) <? nv - 1 + (nu - 1)) with false by lia.
    replace (nv - 1 + (nu - 1) + (nv - 2 - s) <? 2 * (nv - 1) + (nu - 1)) with true by lia. f_equal; lia.
  - exists (2 * (nv - 1) + (nu - 1) + (nu - 2 - s)). split; [lia|]. apply P; auto; [unfold gper; lia | constructor; auto|].
    unfold gpos. cbn [fst].
    replace (2 * (nv - 1) + (nu - 1) + (nu - 2 - s) <? nv - 1) with false by lia.
    replace (2 * (nv - 1) + (nu - 1) + (nu - 2 - s) <? nv - 1 + (nu - 1)) with false by lia.
    replace (2 * (nv - 1) + (nu - 1) + (nu - 2 - s) <? 2 * (nv - 1) + (nu - 1)) with false by lia. f_equal; lia.
Qed.

Lemma gpos_inj nu nv s t : 2 <= nu -> 2 <= nv -> 0 <= s < gper nu nv -> 0 <= t < gper nu nv ->
  gpos nu nv s = gpos nu nv t -> s = t.
Proof.
  intros Hu Hv Hs Ht. unfold gper in *. unfold gpos.
  destruct (s <? nv - 1) eqn:A1; [|destruct (s <? nv - 1 + (nu - 1)) eqn:A2; [|destruct (s <? 2 * (nv - 1) + (nu - 1)) eqn:A3]];
  (destruct (t <? nv - 1) eqn:B1; [|destruct (t <? nv - 1 + (nu - 1)) eqn:B2; [|destruct (t <? 2 * (nv - 1) + (nu - 1)) eqn:B3]]);
  unfold gv; intros E; apply rowmajor_inj in E; lia.
Qed.

(* a perimeter edge belongs to exactly one cell and its reverse to none *)
Lemma perim_is_border nu nv t u e : 2 <= nu -> 2 <= nv -> perim nu nv e ->
  is_border (unit_grid_faces nu nv t u) e.
Proof.
  intros Hu Hv H. split.
  - apply grid_dedge_In; try lia. destruct H as [s Hs|s Hs|s Hs|s Hs].
    + exists 0, s. split; [lia|]. split; [lia|]. unfold gcell, gtri1, gtri2, gquad. destruct t; pick_by ltac:(reflexivity).
    + exists s, (nv - 2). split; [lia|]. split; [lia|]. unfold gcell, gtri1, gtri2, gquad.
      replace (nv - 1) with (nv - 2 + 1) by lia. destruct t; pick_by ltac:(reflexivity).
    + exists (nu - 2), s. split; [lia|]. split; [lia|]. unfold gcell, gtri1, gtri2, gquad.
      replace (nu - 1) with (nu - 2 + 1) by lia. destruct t; pick_by ltac:(reflexivity).
    + exists s, 0. split; [lia|]. split; [lia|]. unfold gcell, gtri1, gtri2, gquad. destruct t; pick_by ltac:(reflexivity).
  - intros Hin. apply grid_dedge_In in Hin as [i [j [Hi [Hj Hin]]]]; try lia.
    unfold gcell, gtri1, gtri2, gquad, gv in Hin.
    destruct H as [s Hs|s Hs|s Hs|s Hs]; unfold swap, gv in Hin; cbn [fst snd] in Hin;
      destruct t; simpl in Hin; split_or Hin; injection Hin; intros; first [nia | rm_solve].
Qed.

(* every other half-edge has its twin in the neighbouring cell *)
Lemma grid_edge_twin_or_perim nu nv t u e : 2 <= nu -> 2 <= nv ->
  In e (dedges (unit_grid_faces nu nv t u)) ->
  In (swap e) (dedges (unit_grid_faces nu nv t u)) \/ perim nu nv e.
Proof.
  intros Hu Hv H. apply grid_dedge_In in H as [i [j [Hi [Hj H]]]]; try lia.
  assert (S0 : i = 0 \/ In (gv nv i (j + 1), gv nv i j) (dedges (unit_grid_faces nu nv t u))).
  { destruct (Z.eq_dec i 0); [left; auto | right]. apply grid_dedge_In; try lia.
    exists (i - 1), j. split; [lia|]. split; [lia|]. unfold gcell, gtri1, gtri2, gquad.
    replace i with (i - 1 + 1) at 1 2 by lia. destruct t; pick_by ltac:(reflexivity). }
  assert (S1 : j = nv - 2 \/ In (gv nv (i + 1) (j + 1), gv nv i (j + 1)) (dedges (unit_grid_faces nu nv t u))).
  { destruct (Z.eq_dec j (nv - 2)); [left; auto | right]. apply grid_dedge_In; try lia.
    exists i, (j + 1). split; [lia|]. split; [lia|]. unfold gcell, gtri1, gtri2, gquad.
    destruct t; pick_by ltac:(reflexivity). }
  assert (S2 : i = nu - 2 \/ In (gv nv (i + 1) j, gv nv (i + 1) (j + 1)) (dedges (unit_grid_faces nu nv t u))).
  { destruct (Z.eq_dec i (nu - 2)); [left; auto | right]. apply grid_dedge_In; try lia.
    exists (i + 1), j. split; [lia|]. split; [lia|]. unfold gcell, gtri1, gtri2, gquad.
    destruct t; pick_by ltac:(reflexivity). }
  assert (S3 : j = 0 \/ In (gv nv i j, gv nv (i + 1) j) (dedges (unit_grid_faces nu nv t u))).
  { destruct (Z.eq_dec j 0); [left; auto | right]. apply grid_dedge_In; try lia.
    exists i, (j - 1). split; [lia|]. split; [lia|]. unfold gcell, gtri1, gtri2, gquad.
    replace j with (j - 1 + 1) at 1 2 by lia. destruct t; pick_by ltac:(reflexivity). }
  assert (Dg : In (gv nv i (j + 1), gv nv (i + 1) j) (dedges (gcell nv true i j)) /\
               In (gv nv (i + 1) j, gv nv i (j + 1)) (dedges (gcell nv true i j))).
  { unfold gcell, gtri1, gtri2. split; pick_by ltac:(reflexivity). }
  unfold gcell, gtri1, gtri2, gquad in H. destruct t; simpl in H; split_or H; subst e; unfold swap; cbn [fst snd].
  - destruct S0 as [->|S0]; [right; apply per_bottom; lia | left; exact S0].
  - left. apply grid_dedge_In; try lia. exists i, j. split; [lia|]. split; [lia|]. apply Dg.
  - destruct S3 as [->|S3]; [right; apply per_left; lia | left; exact S3].
  - destruct S1 as [->|S1]; [right | left; exact S1].
    replace (nv - 2 + 1) with (nv - 1) by lia. apply per_right. lia.
  - destruct S2 as [->|S2]; [right | left; exact S2].
    replace (nu - 2 + 1) with (nu - 1) by lia. apply per_top. lia.
  - left. apply grid_dedge_In; try lia. exists i, j. split; [lia|]. split; [lia|]. apply Dg.
  - destruct S0 as [->|S0]; [right; apply per_bottom; lia | left; exact S0].
  - destruct S1 as [->|S1]; [right | left; exact S1].
    replace (nv - 2 + 1) with (nv - 1) by lia. apply per_right. lia.
  - destruct S2 as [->|S2]; [right | left; exact S2].
    replace (nu - 2 + 1) with (nu - 1) by lia. apply per_top. lia.
  - destruct S3 as [->|S3]; [right; apply per_left; lia | left; exact S3].
Qed.

Definition grid_border_cycle (nu nv : Z) : list Z := map (gpos nu nv) (zrange (gper nu nv)).

Lemma grid_border nu nv t u : 2 <= nu -> 2 <= nv ->
  border_is_cycle (unit_grid_faces nu nv t u) (grid_border_cycle nu nv).
Proof.
  intros Hu Hv. apply border_cycle_by_positions.
  - unfold gper; lia.
  - intros a b Ha Hb E. apply (gpos_inj nu nv); auto.
  - intros k Hk. apply perim_is_border; auto. apply gpos_edge; auto.
  - intros e He. destruct (grid_edge_twin_or_perim nu nv t u e Hu Hv He) as [H|H]; [left; auto|right].
    apply perim_has_pos; auto.
Qed.

(* ------------------------------------------------------------------ Euler characteristic 1 *)
Lemma grid_euler nu nv t u : 2 <= nu -> 2 <= nv ->
  euler (unit_grid_nverts nu nv t u) (unit_grid_faces nu nv t u) = 1.
Proof.
  intros Hu Hv. unfold euler.
  pose proof (euler_formula _ (grid_oriented_manifold nu nv t u Hu Hv) (grid_faces_simple nu nv t u Hu Hv)) as HE.
  rewrite (border_length _ _ (grid_oriented_manifold nu nv t u Hu Hv) (grid_border nu nv t u Hu Hv)) in HE.
  2:{ unfold grid_border_cycle. rewrite map_length, zrange_length. unfold gper. lia. }
  unfold grid_border_cycle in HE. rewrite zlen_map, zlen_zrange in HE by (unfold gper; lia).
  rewrite (zlen_dedges_const _ (if t then 3 else 4)) in HE.
  2:{ intros f Hf. apply grid_face_In in Hf as [i [j [_ [_ Hf]]]]; try lia.
      unfold gcell in Hf. destruct t; simpl in Hf; split_or Hf; subst f; reflexivity. }
  rewrite grid_nverts by lia. rewrite grid_nfaces in * by lia. unfold gper in HE.
  destruct t; nia.
Qed.

(* ------------------------------------------------------------------ vertex umbrellas *)
Require Import MV.C14.ProofsFan.

Lemma grid_links nu nv t u v n p : 2 <= nu -> 2 <= nv ->
  In (n, p) (links (unit_grid_faces nu nv t u) v) <->
  exists i j, 0 <= i < nu - 1 /\ 0 <= j < nv - 1 /\
    let a := gv nv i j in let b := gv nv i (j + 1) in let c := gv nv (i + 1) (j + 1) in let d := gv nv (i + 1) j in
    if t then ((v = a /\ n = b /\ p = d) \/ (v = b /\ n = d /\ p = a) \/ (v = d /\ n = a /\ p = b))
              \/ ((v = b /\ n = c /\ p = d) \/ (v = c /\ n = d /\ p = b) \/ (v = d /\ n = b /\ p = c))
    else (v = a /\ n = b /\ p = d) \/ (v = b /\ n = c /\ p = a) \/ (v = c /\ n = d /\ p = b) \/ (v = d /\ n = a /\ p = c).
Proof.
  intros Hu Hv. rewrite links_In. split.
  - intros [f [Hf H]]. apply grid_face_In in Hf as [i [j [Hi [Hj Hf]]]]; try lia. exists i, j. split; auto. split; auto.
    cbv zeta. unfold gcell, gtri1, gtri2, gquad in Hf. destruct t; cbn [In] in Hf; split_or Hf; subst f.
    + left. apply tri_corner. exact H.
    + right. apply tri_corner. exact H.
    + apply quad_corner. exact H.
  - intros [i [j [Hi [Hj H]]]]. cbv zeta in H. destruct t.
    + destruct H as [H|H].
      * exists (gtri1 nv i j). split; [apply grid_face_In; try lia; exists i, j; split; auto; split; auto; left; reflexivity|].
        apply tri_corner. exact H.
      * exists (gtri2 nv i j). split; [apply grid_face_In; try lia; exists i, j; split; auto; split; auto; right; left; reflexivity|].
        apply tri_corner. exact H.
    + exists (gquad nv i j). split; [apply grid_face_In; try lia; exists i, j; split; auto; split; auto; left; reflexivity|].
      apply quad_corner. exact H.
Qed.

(* the corners at vertex (i0, j0), cell by cell, in rotational order A (cell (i0,j0)), B (cell (i0,j0-1)),
   C (cell (i0-1,j0-1)), D (cell (i0-1,j0)) *)
Definition gLA (nv : Z) (t : bool) (i0 j0 : Z) : list (Z * Z) := [(gv nv i0 (j0 + 1), gv nv (i0 + 1) j0)].
Definition gLB (nv : Z) (t : bool) (i0 j0 : Z) : list (Z * Z) :=
  if t then [(gv nv (i0 + 1) j0, gv nv (i0 + 1) (j0 - 1)); (gv nv (i0 + 1) (j0 - 1), gv nv i0 (j0 - 1))]
  else [(gv nv (i0 + 1) j0, gv nv i0 (j0 - 1))].
Definition gLC (nv : Z) (t : bool) (i0 j0 : Z) : list (Z * Z) := [(gv nv i0 (j0 - 1), gv nv (i0 - 1) j0)].
Definition gLD (nv : Z) (t : bool) (i0 j0 : Z) : list (Z * Z) :=
  if t then [(gv nv (i0 - 1) j0, gv nv (i0 - 1) (j0 + 1)); (gv nv (i0 - 1) (j0 + 1), gv nv i0 (j0 + 1))]
  else [(gv nv (i0 - 1) j0, gv nv i0 (j0 + 1))].
Definition gEA nu nv t i0 j0 := if (i0 <? nu - 1) && (j0 <? nv - 1) then gLA nv t i0 j0 else [].
Definition gEB nu nv t i0 j0 := if (i0 <? nu - 1) && (0 <? j0) then gLB nv t i0 j0 else [].
Definition gEC (nu : Z) nv t i0 j0 := if (0 <? i0) && (0 <? j0) then gLC nv t i0 j0 else [].
Definition gED (nu : Z) nv t i0 j0 := if (0 <? i0) && (j0 <? nv - 1) then gLD nv t i0 j0 else [].

Lemma grid_links_cells nu nv t u i0 j0 x : 2 <= nu -> 2 <= nv -> 0 <= i0 < nu -> 0 <= j0 < nv ->
  In x (links (unit_grid_faces nu nv t u) (gv nv i0 j0)) <->
  In x (gEA nu nv t i0 j0 ++ gEB nu nv t i0 j0 ++ gEC nu nv t i0 j0 ++ gED nu nv t i0 j0).
Proof.
  intros Hu Hv Hi0 Hj0. destruct x as [n p]. rewrite grid_links by lia. rewrite !in_app_iff. split.
  - intros [i [j [Hi [Hj H]]]]. cbv zeta in H. unfold gEA, gEB, gEC, gED, gLA, gLB, gLC, gLD.
    destruct t; split_or H; destruct H as [E [-> ->]]; unfold gv in E; apply rowmajor_inj in E; try lia;
      destruct E as [-> ->].
    + left. replace ((i <? nu - 1) && (j <? nv - 1)) with true by lia. left. reflexivity.
    + right. left. replace ((i <? nu - 1) && (0 <? j + 1)) with true by lia. right. left.
      replace (j + 1 - 1) with j by lia. reflexivity.
    + right. right. right. replace ((0 <? i + 1) && (j <? nv - 1)) with true by lia. left.
      replace (i + 1 - 1) with i by lia. reflexivity.
    + right. left. replace ((i <? nu - 1) && (0 <? j + 1)) with true by lia. left.
      replace (j + 1 - 1) with j by lia. reflexivity.
    + right. right. left. replace ((0 <? i + 1) && (0 <? j + 1)) with true by lia. left.
      replace (j + 1 - 1) with j by lia. replace (i + 1 - 1) with i by lia. reflexivity.
    + right. right. right. replace ((0 <? i + 1) && (j <? nv - 1)) with true by lia. right. left.
      replace (i + 1 - 1) with i by lia. reflexivity.
    + left. replace ((i <? nu - 1) && (j <? nv - 1)) with true by lia. left. reflexivity.
    + right. left. replace ((i <? nu - 1) && (0 <? j + 1)) with true by lia. left.
      replace (j + 1 - 1) with j by lia. reflexivity.
    + right. right. left. replace ((0 <? i + 1) && (0 <? j + 1)) with true by lia. left.
      replace (j + 1 - 1) with j by lia. replace (i + 1 - 1) with i by lia. reflexivity.
    + right. right. right. replace ((0 <? i + 1) && (j <? nv - 1)) with true by lia. left.
      replace (i + 1 - 1) with i by lia. reflexivity.
  - unfold gEA, gEB, gEC, gED, gLA, gLB, gLC, gLD. intros H. cbv zeta.
    destruct H as [H|[H|[H|H]]].
    + destruct ((i0 <? nu - 1) && (j0 <? nv - 1)) eqn:C; [|destruct H]. destruct H as [H|[]]. pinj H. subst.
      exists i0, j0. split; [lia|]. split; [lia|]. destruct t; [left; left; auto | left; auto].
    + destruct ((i0 <? nu - 1) && (0 <? j0)) eqn:C; [|destruct H]. exists i0, (j0 - 1). split; [lia|]. split; [lia|].
      replace (j0 - 1 + 1) with j0 by lia. destruct t; cbn [In] in H; split_or H; pinj H; subst.
      * right. left. auto.
      * left. right. left. auto.
      * right. left. auto.
    + destruct ((0 <? i0) && (0 <? j0)) eqn:C; [|destruct H]. destruct H as [H|[]]. pinj H. subst.
      exists (i0 - 1), (j0 - 1). split; [lia|]. split; [lia|].
      replace (j0 - 1 + 1) with j0 by lia. replace (i0 - 1 + 1) with i0 by lia.
      destruct t; [right; right; left; auto | right; right; left; auto].
    + destruct ((0 <? i0) && (j0 <? nv - 1)) eqn:C; [|destruct H]. exists (i0 - 1), j0. split; [lia|]. split; [lia|].
      replace (i0 - 1 + 1) with i0 by lia. destruct t; cbn [In] in H; split_or H; pinj H; subst.
      * left. right. right. auto.
      * right. right. right. auto.
      * right. right. right. auto.
Qed.

Definition grid_ring nu nv t i0 j0 : list (Z * Z) :=
  if j0 =? 0 then gED nu nv t i0 j0 ++ gEA nu nv t i0 j0
  else if i0 =? nu - 1 then gEC nu nv t i0 j0 ++ gED nu nv t i0 j0
  else if j0 =? nv - 1 then gEB nu nv t i0 j0 ++ gEC nu nv t i0 j0
  else if i0 =? 0 then gEA nu nv t i0 j0 ++ gEB nu nv t i0 j0
  else gEA nu nv t i0 j0 ++ gEB nu nv t i0 j0 ++ gEC nu nv t i0 j0 ++ gED nu nv t i0 j0.

Lemma grid_vertex_manifold nu nv t u : 2 <= nu -> 2 <= nv ->
  vertex_manifold (unit_grid_nverts nu nv t u) (unit_grid_faces nu nv t u).
Proof.
  intros Hu Hv. rewrite grid_nverts by lia. intros v Hv'.
  set (i0 := v / nv). set (j0 := v mod nv).
  assert (Hij : v = gv nv i0 j0 /\ 0 <= j0 < nv /\ 0 <= i0 < nu).
  { subst i0 j0. pose proof (Z.div_mod v nv ltac:(lia)). pose proof (Z.mod_pos_bound v nv ltac:(lia)). unfold gv.
    split; [lia|]. split; [lia|]. split; [apply Z.div_pos; lia | apply Z.div_lt_upper_bound; lia]. }
  destruct Hij as [Ev [Hj0 Hi0]]. clearbody i0 j0. subst v.
  apply (one_fan_intro _ _ (grid_ring nu nv t i0 j0)); [apply grid_oriented_manifold; auto | | |].
  - (* no corner twice *)
    unfold grid_ring, gEA, gEB, gEC, gED, gLA, gLB, gLC, gLD, gv.
    destruct (j0 =? 0) eqn:J0, (i0 =? nu - 1) eqn:I1, (j0 =? nv - 1) eqn:J1, (i0 =? 0) eqn:I0; try lia;
      repeat match goal with |- context[if ?c then _ else _] => let E := fresh in destruct c eqn:E; try lia end;
      cbn [app]; repeat constructor; cbn [In]; intros Hin; split_or Hin; pinj Hin; try lia; try rm_solve.
  - intros x. rewrite grid_links_cells by lia. unfold grid_ring.
    assert (EA0 : (i0 = nu - 1 \/ j0 = nv - 1) -> gEA nu nv t i0 j0 = []).
    { intros H. unfold gEA. replace ((i0 <? nu - 1) && (j0 <? nv - 1)) with false by lia. reflexivity. }
    assert (EB0 : (i0 = nu - 1 \/ j0 = 0) -> gEB nu nv t i0 j0 = []).
    { intros H. unfold gEB. replace ((i0 <? nu - 1) && (0 <? j0)) with false by lia. reflexivity. }
    assert (EC0 : (i0 = 0 \/ j0 = 0) -> gEC nu nv t i0 j0 = []).
    { intros H. unfold gEC. replace ((0 <? i0) && (0 <? j0)) with false by lia. reflexivity. }
    assert (ED0 : (i0 = 0 \/ j0 = nv - 1) -> gED nu nv t i0 j0 = []).
    { intros H. unfold gED. replace ((0 <? i0) && (j0 <? nv - 1)) with false by lia. reflexivity. }
    destruct (j0 =? 0) eqn:J0; [rewrite EB0, EC0 by lia; rewrite !in_app_iff; cbn [In]; tauto|].
    destruct (i0 =? nu - 1) eqn:I1; [rewrite EA0, EB0 by lia; rewrite !in_app_iff; cbn [In]; tauto|].
    destruct (j0 =? nv - 1) eqn:J1; [rewrite EA0, ED0 by lia; rewrite !in_app_iff; cbn [In]; tauto|].
    destruct (i0 =? 0) eqn:I0; [rewrite EC0, ED0 by lia; rewrite !in_app_iff; cbn [In]; tauto|].
    tauto.
  - unfold grid_ring, gEA, gEB, gEC, gED, gLA, gLB, gLC, gLD.
    destruct (j0 =? 0) eqn:J0, (i0 =? nu - 1) eqn:I1, (j0 =? nv - 1) eqn:J1, (i0 =? 0) eqn:I0; try lia;
      repeat match goal with |- context[if ?c then _ else _] => let E := fresh in destruct c eqn:E; try lia end;
      cbn [app chained fst snd]; repeat split; unfold gv; lia.
Qed.
