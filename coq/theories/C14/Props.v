(* C14 property theorems only: each closed by `exact <lemma>` with Print Assumptions beneath.
   All definitions named *_nverts, *_faces, *_edges, *_cells, *_coords, *_rejects, ring_bisect_*, icosphere_* are GENERATED
   from the current source of mouette/procedural (Gen.v).  The admissible parameters are the ones the code accepts: every
   theorem about a parametric generator g is stated under `g_rejects p = false`, where g_rejects is the generated guard
   (`if ...: raise`); C14_rejects says exactly what each guard rejects.  Chains: n = number of input points, n >= 1.

   The property for a surface generator g with parameters p:
     well_formed (g_nverts p) (g_faces p)          -- C14_well_formed: indices in range, every vertex used, simple faces,
                                                      no directed edge twice (oriented edge-manifold, no repeated face)
     /\ vertex_manifold (g_nverts p) (g_faces p)   -- C14_vertex_manifold: every vertex umbrella is ONE fan
     /\ closed / border_is_cycle(s), connected, euler = 2 | 0 | 1 | 0   -- C14_topology
     /\ counts (C14_counts), vertices on the named surface (C14_on_surface), switches honoured (C14_params_honoured).
   All of these are proved for every admissible parameter of every generator translated into Gen.v; the constant-table
   solids are covered by C14_tables.  C14_ring_apex_defect is about the generated body of ring's bisection loop and is
   conditional on three named facts about the real angle function geometry.angle_3pts (monotone in the apex height,
   defect 0 at height 0, no early stop while the bracket is enlarged) and on the loop terminating (partial correctness).
   Round 7: C14_unit_triangle_counts (faces of unit_triangle for equal and unequal resolutions), C14_flat_ring_apex_defect
   (closed form of the rim, apex angle of every triangle, N of them leave the requested defect - unconditional),
   C14_ring_triangles_congruent (every triangle of a ring has the apex angle the bisection measures on vertices 1, 2),
   C14_ring_apex_defect_geometric (for the geometric angle acos(dot/(|.||.|)) on vertices 1, 2: monotone defect and defect 0 of
   the flat ring PROVED, only the no-early-stop hypothesis is left),
   C14_sphere_uv_latitudes (n_lat distinct latitudes strictly between the poles), C14_rotation_helpers (the helpers
   rotate_2d / rotate_around_axis of mouette/geometry/rotations.py are GENERATED too: geom_rotate_2d, geom_rotate_around_axis).
   Outside the generated model: the faces of sphere_fibonacci(build_surface) (scipy ConvexHull) and the loop subdivision
   inside icosphere (its base mesh, number of rounds and radial projection ARE generated and covered by C14_on_surface). *)
From Coq Require Import ZArith List Bool Reals String.
Import ListNotations.
Require Import MV.Lib.Base MV.C14.Model MV.C14.Gen MV.C14.ProofsLib.
Require Import MV.C14.ProofsGrid MV.C14.ProofsTri MV.C14.ProofsTorus MV.C14.ProofsSphere MV.C14.ProofsCyl
               MV.C14.ProofsRing MV.C14.ProofsPoly MV.C14.ProofsTables MV.C14.ProofsCoords MV.C14.ProofsBisect MV.C14.ProofsMore MV.C14.ProofsAll.
Open Scope Z_scope.

Theorem C14_rejects :
  (forall nu nv t u, unit_grid_rejects nu nv t u = true <-> nu < 2 \/ nv < 2) /\
  (forall nu nv u, unit_triangle_rejects nu nv u = true <-> nu < 2 \/ nv < 2) /\
  (forall M m t, torus_rejects M m t = true <-> M < 3 \/ m < 3) /\
  (forall n L, sphere_uv_rejects n L = true <-> n < 1 \/ L < 3) /\
  (forall N c, cylinder_rejects N c = true <-> N < 3) /\
  (forall N o k, ring_rejects N o k = true <-> N < 3 \/ k < 1) /\
  (forall N k, flat_ring_rejects N k = true <-> N < 1 \/ k < 1) /\
  (* the constant-table generators and the polyline generators reject nothing *)
  triangle_rejects = false /\ (forall t, quad_rejects t = false) /\ (forall v, tetrahedron_rejects v = false) /\
  (forall c t v, hexahedron_rejects c t v = false) /\ (forall c t, axis_aligned_cube_rejects c t = false) /\
  (forall c v, hexahedron_4pts_rejects c v = false) /\ (forall u, icosahedron_rejects u = false) /\
  octahedron_rejects = false /\ dodecahedron_rejects = false /\
  (forall n l, chain_of_vertices_rejects n l = false) /\ (forall n, vector_field_rejects n = false).
Proof. exact all_rejects. Qed.
Print Assumptions C14_rejects.

Theorem C14_well_formed :
  (forall nu nv t u, unit_grid_rejects nu nv t u = false -> well_formed (unit_grid_nverts nu nv t u) (unit_grid_faces nu nv t u)) /\
  (forall nu nv u, unit_triangle_rejects nu nv u = false -> well_formed (unit_triangle_nverts nu nv u) (unit_triangle_faces nu nv u)) /\
  (forall M m t, torus_rejects M m t = false -> well_formed (torus_nverts M m t) (torus_faces M m t)) /\
  (forall n L, sphere_uv_rejects n L = false -> well_formed (sphere_uv_nverts n L) (sphere_uv_faces n L)) /\
  (forall N c, cylinder_rejects N c = false -> well_formed (cylinder_nverts N c) (cylinder_faces N c)) /\
  (forall N o k, ring_rejects N o k = false -> well_formed (ring_nverts N o k) (ring_faces N o k)) /\
  (forall N k, flat_ring_rejects N k = false -> well_formed (flat_ring_nverts N k) (flat_ring_faces N k)).
Proof. exact all_well_formed. Qed.
Print Assumptions C14_well_formed.

Theorem C14_counts :
  (forall nu nv t u, unit_grid_rejects nu nv t u = false ->
     unit_grid_nverts nu nv t u = nu * nv /\ zlen (unit_grid_faces nu nv t u) = (if t then 2 else 1) * ((nu - 1) * (nv - 1))) /\
  (forall nu nv u, unit_triangle_rejects nu nv u = false -> nv <= nu -> unit_triangle_nverts nu nv u = (nv * (nv + 1)) / 2) /\
  (forall nu nv u, unit_triangle_rejects nu nv u = false -> unit_triangle_nverts nu nv u = roff nu nv) /\
  (forall M m t, torus_rejects M m t = false -> torus_nverts M m t = M * m /\ zlen (torus_faces M m t) = (if t then 2 else 1) * (M * m)) /\
  (forall n L, sphere_uv_rejects n L = false -> sphere_uv_nverts n L = n * L + 2 /\ zlen (sphere_uv_faces n L) = (n + 1) * L) /\
  (forall N c, cylinder_rejects N c = false -> cylinder_nverts N c = 2 * N + (if c then 2 else 0) /\ zlen (cylinder_faces N c) = (if c then 4 else 2) * N) /\
  (forall N o k, ring_rejects N o k = false -> ring_nverts N o k = N * k + (if o then 2 else 1) /\ zlen (ring_faces N o k) = N * k) /\
  (forall N k, flat_ring_rejects N k = false -> flat_ring_nverts N k = N * k + 2 /\ zlen (flat_ring_faces N k) = N * k) /\
  (forall n l, 1 <= n -> chain_of_vertices_nverts n l = n /\ zlen (chain_of_vertices_edges n l) = (if l then n else n - 1)) /\
  (forall n, 0 <= n -> vector_field_nverts n = 2 * n /\ zlen (vector_field_edges n) = n).
Proof. exact all_counts. Qed.
Print Assumptions C14_counts.

Theorem C14_topology :
  (forall nu nv t u, unit_grid_rejects nu nv t u = false ->
     disk_surface (unit_grid_nverts nu nv t u) (unit_grid_faces nu nv t u) (grid_border_cycle nu nv)) /\
  (forall M m t, torus_rejects M m t = false -> closed_surface (torus_nverts M m t) (torus_faces M m t) 0) /\
  (forall n L, sphere_uv_rejects n L = false -> closed_surface (sphere_uv_nverts n L) (sphere_uv_faces n L) 2) /\
  (forall N, cylinder_rejects N true = false -> closed_surface (cylinder_nverts N true) (cylinder_faces N true) 2) /\
  (forall N, cylinder_rejects N false = false ->
     border_is_cycles (cylinder_faces N false) [map (cyl_bottom N) (zrange N); map (cyl_top N) (zrange N)] /\
     connected (cylinder_nverts N false) (cylinder_faces N false) /\
     euler (cylinder_nverts N false) (cylinder_faces N false) = 0) /\
  (forall N k, ring_rejects N true k = false ->
     disk_surface (ring_nverts N true k) (ring_faces N true k) (map (fun t => t) (zrange (N * k + 2))) /\
     disk_surface (ring_nverts N false k) (ring_faces N false k) (map (fun t => t + 1) (zrange (N * k)))) /\
  (forall N k, flat_ring_rejects N k = false ->
     disk_surface (flat_ring_nverts N k) (flat_ring_faces N k) (map (fun t => t) (zrange (N * k + 2)))) /\
  (forall nu nv u, unit_triangle_rejects nu nv u = false ->
     disk_surface (unit_triangle_nverts nu nv u) (unit_triangle_faces nu nv u) (tri_border_cycle nu nv)).
Proof. exact all_topology. Qed.
Print Assumptions C14_topology.

Theorem C14_vertex_manifold :
  (forall nu nv t u, unit_grid_rejects nu nv t u = false -> vertex_manifold (unit_grid_nverts nu nv t u) (unit_grid_faces nu nv t u)) /\
  (forall nu nv u, unit_triangle_rejects nu nv u = false -> vertex_manifold (unit_triangle_nverts nu nv u) (unit_triangle_faces nu nv u)) /\
  (forall M m t, torus_rejects M m t = false -> vertex_manifold (torus_nverts M m t) (torus_faces M m t)) /\
  (forall n L, sphere_uv_rejects n L = false -> vertex_manifold (sphere_uv_nverts n L) (sphere_uv_faces n L)) /\
  (forall N c, cylinder_rejects N c = false -> vertex_manifold (cylinder_nverts N c) (cylinder_faces N c)) /\
  (forall N o k, ring_rejects N o k = false -> vertex_manifold (ring_nverts N o k) (ring_faces N o k)) /\
  (forall N k, flat_ring_rejects N k = false -> vertex_manifold (flat_ring_nverts N k) (flat_ring_faces N k)).
Proof. exact all_vertex_manifold. Qed.
Print Assumptions C14_vertex_manifold.

Theorem C14_tables :
  (disk_like triangle_nverts triangle_faces [0; 1; 2]) /\
  (forall t, disk_like (quad_nverts t) (quad_faces t) [0; 1; 2; 3]) /\
  (forall v, sphere_like (tetrahedron_nverts v) (tetrahedron_faces v)) /\
  (forall c t, sphere_like (hexahedron_nverts c t false) (hexahedron_faces c t false)) /\
  (forall c t, sphere_like (axis_aligned_cube_nverts c t) (axis_aligned_cube_faces c t)) /\
  (forall c, sphere_like (hexahedron_4pts_nverts c false) (hexahedron_4pts_faces c false)) /\
  (forall u, sphere_like (icosahedron_nverts u) (icosahedron_faces u)) /\
  sphere_like octahedron_nverts octahedron_faces /\
  sphere_like dodecahedron_nverts dodecahedron_faces.
Proof. exact all_tables. Qed.
Print Assumptions C14_tables.

Theorem C14_table_counts :
  triangle_nverts = 3 /\ zlen triangle_faces = 1 /\
  (forall t, quad_nverts t = 4 /\ zlen (quad_faces t) = (if t then 2 else 1)) /\
  (forall v, tetrahedron_nverts v = 4 /\ zlen (tetrahedron_faces v) = 4) /\
  (forall c t, hexahedron_nverts c t false = 8 /\ zlen (hexahedron_faces c t false) = (if t then 12 else 6)) /\
  (forall u, icosahedron_nverts u = 12 /\ zlen (icosahedron_faces u) = 20) /\
  (octahedron_nverts = 6 /\ zlen octahedron_faces = 8) /\ (dodecahedron_nverts = 20 /\ zlen dodecahedron_faces = 12).
Proof. exact all_table_counts. Qed.
Print Assumptions C14_table_counts.

Theorem C14_params_honoured :
  (* triangulate: all faces are triangles, resp. quads *)
  (forall nu nv (t u : bool), unit_grid_rejects nu nv t u = false -> Forall (fun f : list Z => zlen f = if t then 3 else 4) (unit_grid_faces nu nv t u)) /\
  (forall M m (t : bool), Forall (fun f : list Z => zlen f = if t then 3 else 4) (torus_faces M m t)) /\
  (forall t : bool, Forall (fun f : list Z => zlen f = if t then 3 else 4) (quad_faces t)) /\
  (forall c t : bool, Forall (fun f : list Z => zlen f = if t then 3 else 4) (hexahedron_faces c t false)) /\
  (* volume: exactly one cell on all the vertices, and only then *)
  (forall v : bool, tetrahedron_cells v = if v then [[0; 1; 2; 3]] else []) /\
  (forall c t v : bool, hexahedron_cells c t v = if v then [[0; 1; 2; 3; 4; 5; 6; 7]] else []) /\
  (* forwarding: each named switch reaches the parameter of the same name *)
  (forall c t, axis_aligned_cube_faces c t = hexahedron_faces c t false /\ axis_aligned_cube_cells c t = hexahedron_cells c t false) /\
  (forall c v, hexahedron_4pts_faces c v = hexahedron_faces c false v /\ hexahedron_4pts_cells c v = hexahedron_cells c false v) /\
  (* ring: fewer than three triangles are rejected, exactly *)
  (forall N o k, ring_rejects N o k = true <-> N < 3 \/ k < 1) /\
  (* loop: the closed chain has the extra edge from the last point to the first *)
  (forall n, chain_of_vertices_edges n false = map (fun i => [i; i + 1]) (zrange (n - 1))) /\
  (forall n, chain_of_vertices_edges n true = map (fun i => [i; (i + 1) mod n]) (zrange n)) /\
  (forall n, vector_field_edges n = map (fun i => [2 * i; 2 * i + 1]) (zrange n)) /\
  (* dual: one face per vertex of the input (its ring of faces), one vertex per face *)
  (forall v2f nV nF, 0 <= nV -> 0 <= nF -> dual_mesh_nverts v2f nV nF = nF /\ dual_mesh_faces v2f nV nF = map v2f (zrange nV)) /\
  (* ... whose vertices are, per mode, a NON persistent attribute computed from the mesh on every call (mode, function, persistent) *)
  dual_mesh_modes = [("barycenter"%string, "face_barycenter"%string, false); ("circumcenter"%string, "face_circumcenter"%string, false)].
Proof. exact all_switches. Qed.
Print Assumptions C14_params_honoured.

Theorem C14_ring_apex_defect : forall (ang3 : vec R -> vec R -> vec R -> R) (A B : vec R) (N : Z) (d : R),
  (forall a b, (0 <= a <= b)%R -> (g ang3 A B N a <= g ang3 A B N b)%R) ->
  (g ang3 A B N 0 <= d)%R ->
  (forall h1 h2, (h1 = 0 /\ h2 = 10)%R \/ (10 <= h1 /\ h2 = 2 * h1)%R -> (g ang3 A B N h2 < d)%R ->
     (eps <= Rabs (g ang3 A B N h1 - g ang3 A B N h2))%R) ->
  forall fuel s, do_while (step ang3 A B N d) fuel (ring_bisect_init Rops) = Some s ->
  exists h, ring_bisect_apex Rops (fst s) (snd s) = (0, 0, h)%R /\ (Rabs (g ang3 A B N h - d) < eps)%R.
Proof. exact ring_apex. Qed.
Print Assumptions C14_ring_apex_defect.

Theorem C14_ring_defect_clamped : forall x : R, (0 <= ring_defect_clamp Rops x <= 2 * PI - 1 / 100)%R.
Proof. exact ring_clamp_range. Qed.
Print Assumptions C14_ring_defect_clamped.

Theorem C14_on_surface :
  (forall n L center radius, Forall (fun p => dist2 p center = (radius * radius)%R) (sphere_uv_coords Rops n L center radius)) /\
  (forall M m R0 r t, Forall (on_torus R0 r) (torus_coords Rops M m R0 r t)) /\
  (forall center radius u, Forall (fun p => dist2 p center = (radius * radius)%R) (icosahedron_coords Rops center radius u)) /\
  (forall nu nv t u, unit_grid_rejects nu nv t u = false -> Forall in_unit_square (unit_grid_coords Rops nu nv t u)) /\
  (forall nu nv u, unit_triangle_rejects nu nv u = false -> Forall in_unit_square (unit_triangle_coords Rops nu nv u)) /\
  (forall P0 P1 P2, triangle_coords Rops P0 P1 P2 = [P0; P1; P2]) /\
  (forall P0 P1 P2 t, quad_coords Rops P0 P1 P2 t = [P0; P1; vsub Rops (vadd Rops P2 P1) P0; P2]) /\
  (forall P1 P2 P3 P4 v, tetrahedron_coords Rops P1 P2 P3 P4 v = [P1; P2; P3; P4]) /\
  (forall P1 P2 P3 P4 P5 P6 P7 P8 c t v, hexahedron_coords Rops P1 P2 P3 P4 P5 P6 P7 P8 c t v = [P1; P2; P3; P4; P5; P6; P7; P8]) /\
  (forall P1 P2 P3 P4 c v, let X := hexahedron_4pts_coords Rops P1 P2 P3 P4 c v in
     List.nth 0 X P1 = P1 /\ List.nth 1 X P1 = P2 /\ List.nth 3 X P1 = P3 /\ List.nth 4 X P1 = P4 /\ List.length X = 8%nat) /\
  (forall N d o k apex, exists rim, ring_coords Rops N d o k apex = apex :: rim /\ Forall on_unit_circle rim) /\
  (forall (P1 P2 : vec R) (radius : R) N caps, (0 < dot3 (vsub Rops P2 P1) (vsub Rops P2 P1))%R ->
     let a := vnormalized Rops (vsub Rops P2 P1) in
     exists ringpts, cylinder_coords Rops P1 P2 radius N caps = ringpts ++ (if caps then [P1; P2] else []) /\
       Forall (fun p => exists P, (P = P1 \/ P = P2) /\ dot3 (vsub Rops p P) a = 0%R /\ dist2 p P = (radius * radius)%R) ringpts) /\
  (forall N d k, exists rim, flat_ring_coords Rops N d k = (0, 0, 0)%R :: rim /\ Forall on_unit_circle rim) /\
  (forall n (radius : R) b, Forall (fun p => dot3 p p = (radius * radius)%R) (sphere_fibonacci_coords Rops n radius b)) /\
  (forall k (center : vec R) (radius : R) v, (0 < dot3 (vsub Rops v center) (vsub Rops v center))%R ->
     dist2 (icosphere_project Rops k center radius v) center = (radius * radius)%R) /\
  (forall k (center : vec R) (radius : R),
     icosphere_base_faces = icosahedron_faces false /\ icosphere_base_nverts = icosahedron_nverts false /\
     icosphere_base_coords Rops k center radius = icosahedron_coords Rops center radius false /\
     icosphere_rounds k = k /\ icosphere_loop_passes = 1).
Proof. exact all_on_surface. Qed.
Print Assumptions C14_on_surface.

Theorem C14_unit_triangle_counts :
  (forall nu nv u, unit_triangle_rejects nu nv u = false ->
     zlen (unit_triangle_faces nu nv u) = 2 * roff nu nv - 2 * (nv - 1) - (Z.min nv nu - 1) - 2 /\
     Forall (fun f : list Z => zlen f = 3) (unit_triangle_faces nu nv u)) /\
  (forall nu nv u, unit_triangle_rejects nu nv u = false -> nv <= nu ->
     zlen (unit_triangle_faces nu nv u) = (nv - 1) * (nv - 1)).
Proof. exact tri_counts_all. Qed.
Print Assumptions C14_unit_triangle_counts.

Theorem C14_flat_ring_apex_defect : forall N (d : R) k, flat_ring_rejects N k = false ->
  (forall i, 0 <= i <= N * k ->
     nth (Z.to_nat (i + 1)) (flat_ring_coords Rops N d k) (0, 0, 0)%R = (cos (IZR i * flat_ang N d), sin (IZR i * flat_ang N d), 0)%R) /\
  (let X := flat_ring_coords Rops N d k in
   nth 0 X (1, 1, 1)%R = (0, 0, 0)%R /\
   (forall f, In f (flat_ring_faces N k) -> exists i, 0 <= i < N * k /\ f = [0; i + 1; i + 2] /\
      let p := nth (Z.to_nat (i + 1)) X (0, 0, 0)%R in let q := nth (Z.to_nat (i + 2)) X (0, 0, 0)%R in
      on_unit_circle p /\ on_unit_circle q /\
      (vx p * vx q + vy p * vy q = cos (flat_ang N d))%R /\ (vx p * vy q - vy p * vx q = sin (flat_ang N d))%R) /\
   (IZR N * flat_ang N d = 2 * PI - flat_defect d)%R /\ (0 < flat_ang N d <= 2 * PI / IZR N)%R) /\
  (0 <= flat_defect d <= 2 * PI - 1 / 100)%R /\ ((0 <= d < 2 * PI - 1 / 100)%R -> flat_defect d = d).
Proof. exact flat_ring_apex. Qed.
Print Assumptions C14_flat_ring_apex_defect.

Theorem C14_ring_triangles_congruent : forall N (d : R) o k (h : R), ring_rejects N o k = false ->
  let X := ring_coords Rops N d o k (0, 0, h)%R in
  nth 0 X (1, 1, 1)%R = (0, 0, h)%R /\
  forall f, In f (ring_faces N o k) -> exists a b, f = [0; a; b] /\
    apex_congruent N h (nth (Z.to_nat a) X (0, 0, 0)%R) (nth (Z.to_nat b) X (0, 0, 0)%R).
Proof. exact ring_congruent. Qed.
Print Assumptions C14_ring_triangles_congruent.

Theorem C14_ring_apex_defect_geometric : forall (N : Z) (d0 : R) (o : bool) (k : Z) (apex : vec R), ring_rejects N o k = false ->
  let X := ring_coords Rops N d0 o k apex in
  let A := nth 1 X (0, 0, 0)%R in let B := nth 2 X (0, 0, 0)%R in let d := ring_defect_clamp Rops d0 in
  (A = (1, 0, 0)%R /\ B = ring_pt N 1) /\
  ((forall a b, (0 <= a <= b)%R -> (g geo_angle A B N a <= g geo_angle A B N b)%R) /\ g geo_angle A B N 0 = 0%R) /\
  ((forall h1 h2, (h1 = 0 /\ h2 = 10)%R \/ (10 <= h1 /\ h2 = 2 * h1)%R -> (g geo_angle A B N h2 < d)%R ->
      (eps <= Rabs (g geo_angle A B N h1 - g geo_angle A B N h2))%R) ->
   forall fuel s, do_while (step geo_angle A B N d) fuel (ring_bisect_init Rops) = Some s ->
   exists h, ring_bisect_apex Rops (fst s) (snd s) = (0, 0, h)%R /\ (Rabs (g geo_angle A B N h - d) < eps)%R).
Proof. exact ring_apex_geo. Qed.
Print Assumptions C14_ring_apex_defect_geometric.

Theorem C14_sphere_uv_latitudes : forall n L (center : vec R) (radius : R), sphere_uv_rejects n L = false ->
  sphere_uv_coords Rops n L center radius =
    vadd Rops center (vscale Rops radius (0, 0, 1)%R) ::
    flat_map (fun i => map (sph_pt n L center radius i) (zrange L)) (zrange n) ++
    [vadd Rops center (vscale Rops radius (0, 0, -1)%R)] /\
  (forall i j, vz (sph_pt n L center radius i j) = (vz center + radius * cos (sph_phi n i))%R) /\
  (forall i, 0 <= i < n -> (-1 < cos (sph_phi n i) < 1)%R) /\
  (forall i i', 0 <= i < i' -> i' < n -> (cos (sph_phi n i') < cos (sph_phi n i))%R).
Proof. exact sphere_latitudes. Qed.
Print Assumptions C14_sphere_uv_latitudes.

Theorem C14_rotation_helpers :
  (forall a b z : R, geom_rotate_2d Rops (cos a, sin a, z) b = (cos (a + b), sin (a + b), 0)%R) /\
  (forall (t a : vec R) (ang : R), dot3 a a = 1%R -> dot3 t t = 1%R -> dot3 a t = 0%R ->
     let q := geom_rotate_around_axis Rops t a ang in dot3 q q = 1%R /\ dot3 q a = 0%R).
Proof. exact rotation_helpers. Qed.
Print Assumptions C14_rotation_helpers.

Theorem C14_runtime_checker_sound : forall V F,
  (is_sphere (topo_of V F) = true -> sphere_like V F) /\ (is_torus (topo_of V F) = true -> torus_like V F) /\
  (is_disk (topo_of V F) = true -> disk_like' V F) /\ (is_annulus (topo_of V F) = true -> annulus_like V F).
Proof. exact runtime_checker_sound. Qed.
Print Assumptions C14_runtime_checker_sound.
