(* C14 property theorems only: each closed by `exact <lemma>` with Print Assumptions beneath. *)
From Coq Require Import ZArith List Bool.
Require Import MV.Lib.Base MV.C14.Model MV.C14.Gen MV.C14.Proofs.
Open Scope Z_scope.

Theorem C14_torus_nverts : forall M m t, 0 <= M -> 0 <= m -> torus_nverts M m t = M * m.
Proof. exact torus_nverts_eq. Qed.
Print Assumptions C14_torus_nverts.
