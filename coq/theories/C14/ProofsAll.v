(* C14 - the property theorems, assembled clause by clause from the per-generator files, with non-vacuity
   examples.  Admissible parameters = those the generated guards accept (`g_rejects p = false`, see all_rejects). *)
From Coq Require Import ZArith List Bool Lia Reals String.
Import ListNotations.
Require Import MV.Lib.Base MV.C14.Model MV.C14.Gen MV.C14.ProofsLib.
Require Import MV.C14.ProofsGrid MV.C14.ProofsTri MV.C14.ProofsTorus MV.C14.ProofsSphere MV.C14.ProofsCyl
               MV.C14.ProofsRing MV.C14.ProofsPoly MV.C14.ProofsTables MV.C14.ProofsCoords MV.C14.ProofsBisect.
Open Scope Z_scope.

Ltac conjs := repeat match goal with |- _ /\ _ => split end.

(* the admissible parameters are those the generated guard lets through: turn `g_rejects p = false` into bounds *)
Ltac acc :=
  repeat match goal with
  | H : unit_grid_rejects ?a ?b _ _ = false |- _ =>
      assert (2 <= a /\ 2 <= b) as [? ?] by (unfold unit_grid_rejects in H; lia); clear H
  | H : unit_triangle_rejects ?a ?b _ = false |- _ =>
      assert (2 <= a /\ 2 <= b) as [? ?] by (unfold unit_triangle_rejects in H; lia); clear H
  | H : torus_rejects ?a ?b _ = false |- _ =>
      assert (3 <= a /\ 3 <= b) as [? ?] by (unfold torus_rejects in H; lia); clear H
  | H : sphere_uv_rejects ?a ?b = false |- _ =>
      assert (1 <= a /\ 3 <= b) as [? ?] by (unfold sphere_uv_rejects in H; lia); clear H
  | H : cylinder_rejects ?a _ = false |- _ =>
      assert (3 <= a) by (unfold cylinder_rejects in H; lia); clear H
  | H : ring_rejects ?a _ ?k = false |- _ =>
      assert (3 <= a /\ 1 <= k) as [? ?] by (unfold ring_rejects in H; lia); clear H
  | H : flat_ring_rejects ?a ?k = false |- _ =>
      assert (1 <= a /\ 1 <= k) as [? ?] by (unfold flat_ring_rejects in H; lia); clear H; assert (1 <= a * k) by nia
  end.

(* what is asked of the index lists of a surface generator, short of its global topology *)
Definition well_formed (V : Z) (F : list (list Z)) : Prop :=
  in_range V F /\ all_used V F /\ faces_simple F /\ oriented_manifold F /\ faces_edge_disjoint F.

Lemma wf_intro V F : in_range V F -> all_used V F -> faces_simple F -> oriented_manifold F -> well_formed V F.
Proof. intros. repeat split; auto. apply oriented_manifold_edge_disjoint; auto. Qed.

(* ---------------------------------------------------------------- 0. the admissible parameters are the ones the code accepts:
   what each generated guard (`if ...: raise`) rejects, exactly.  All theorems below are stated for `g_rejects p = false`. *)
Lemma all_rejects :
  (forall nu nv t u, unit_grid_rejects nu nv t u = true <-> nu < 2 \/ nv < 2) /\
  (forall nu nv u, unit_triangle_rejects nu nv u = true <-> nu < 2 \/ nv < 2) /\
  (forall M m t, torus_rejects M m t = true <-> M < 3 \/ m < 3) /\
  (forall n L, sphere_uv_rejects n L = true <-> n < 1 \/ L < 3) /\
  (forall N c, cylinder_rejects N c = true <-> N < 3) /\
  (forall N o k, ring_rejects N o k = true <-> N < 3 \/ k < 1) /\
  (forall N k, flat_ring_rejects N k = true <-> N < 1 \/ k < 1) /\
  (* the constant-table generators and the polyline generators reject nothing *)
  triangle_rejects = false /\ (forall t, quad_rejects t = false) /\ (forall v, tetrahedron_rejects v = false) /\
  (forall c t v, hexahedron_rejects c t v = false) /\ (forall c t, axis_aligned_cube_rejects c t = false) /\
  (forall c v, hexahedron_4pts_rejects c v = false) /\ (forall u, icosahedron_rejects u = false) /\
  octahedron_rejects = false /\ dodecahedron_rejects = false /\
  (forall n l, chain_of_vertices_rejects n l = false) /\ (forall n, vector_field_rejects n = false).
Proof.
  conjs; intros; try reflexivity;
    unfold unit_grid_rejects, unit_triangle_rejects, torus_rejects, sphere_uv_rejects, cylinder_rejects, ring_rejects, flat_ring_rejects; lia.
Qed.

(* ---------------------------------------------------------------- 1. indices in range, every vertex used, simple faces,
   no directed edge twice (consistently oriented edge-manifold; no face repeated, even rotated) *)
Lemma all_well_formed :
  (forall nu nv t u, unit_grid_rejects nu nv t u = false -> well_formed (unit_grid_nverts nu nv t u) (unit_grid_faces nu nv t u)) /\
  (forall nu nv u, unit_triangle_rejects nu nv u = false -> well_formed (unit_triangle_nverts nu nv u) (unit_triangle_faces nu nv u)) /\
  (forall M m t, torus_rejects M m t = false -> well_formed (torus_nverts M m t) (torus_faces M m t)) /\
  (forall n L, sphere_uv_rejects n L = false -> well_formed (sphere_uv_nverts n L) (sphere_uv_faces n L)) /\
  (forall N c, cylinder_rejects N c = false -> well_formed (cylinder_nverts N c) (cylinder_faces N c)) /\
  (forall N o k, ring_rejects N o k = false -> well_formed (ring_nverts N o k) (ring_faces N o k)) /\
  (forall N k, flat_ring_rejects N k = false -> well_formed (flat_ring_nverts N k) (flat_ring_faces N k)).
Proof.
  conjs; intros; acc.
  - apply wf_intro; [apply grid_in_range | apply grid_all_used | apply grid_faces_simple | apply grid_oriented_manifold]; auto.
  - apply wf_intro; [apply tri_in_range | apply tri_all_used | apply tri_faces_simple | apply tri_oriented_manifold]; auto.
  - apply wf_intro; [apply torus_in_range | apply torus_all_used | apply torus_faces_simple | apply torus_oriented_manifold]; auto.
  - apply wf_intro; [apply sphere_in_range | apply sphere_all_used | apply sphere_faces_simple | apply sphere_oriented_manifold]; auto.
  - apply wf_intro; [apply cyl_in_range | apply cyl_all_used | apply cyl_faces_simple | apply cyl_oriented_manifold]; auto.
  - assert (HK : 3 <= N * k) by nia. rewrite ring_nverts_eq by lia. destruct o.
    + rewrite ring_faces_open by lia.
      apply wf_intro; [apply fan_in_range | apply fan_all_used | apply fan_simple | apply fan_oriented]; lia.
    + rewrite ring_faces_closed by lia.
      apply wf_intro; [apply cfan_in_range | apply cfan_all_used | apply cfan_simple | apply cfan_oriented]; lia.
  - rewrite flat_ring_nverts_eq by lia. rewrite flat_ring_faces_eq.
    apply wf_intro; [apply fan_in_range | apply fan_all_used | apply fan_simple | apply fan_oriented]; lia.
Qed.

(* ---------------------------------------------------------------- 2. element counts as functions of the parameters *)
Lemma all_counts :
  (forall nu nv t u, unit_grid_rejects nu nv t u = false ->
     unit_grid_nverts nu nv t u = nu * nv /\ zlen (unit_grid_faces nu nv t u) = (if t then 2 else 1) * ((nu - 1) * (nv - 1))) /\
  (forall nu nv u, unit_triangle_rejects nu nv u = false -> nv <= nu -> unit_triangle_nverts nu nv u = (nv * (nv + 1)) / 2) /\
  (forall nu nv u, unit_triangle_rejects nu nv u = false -> unit_triangle_nverts nu nv u = roff nu nv) /\
  (forall M m t, torus_rejects M m t = false -> torus_nverts M m t = M * m /\ zlen (torus_faces M m t) = (if t then 2 else 1) * (M * m)) /\
  (forall n L, sphere_uv_rejects n L = false -> sphere_uv_nverts n L = n * L + 2 /\ zlen (sphere_uv_faces n L) = (n + 1) * L) /\
  (forall N c, cylinder_rejects N c = false -> cylinder_nverts N c = 2 * N + (if c then 2 else 0) /\ zlen (cylinder_faces N c) = (if c then 4 else 2) * N) /\
  (forall N o k, ring_rejects N o k = false -> ring_nverts N o k = N * k + (if o then 2 else 1) /\ zlen (ring_faces N o k) = N * k) /\
  (forall N k, flat_ring_rejects N k = false -> flat_ring_nverts N k = N * k + 2 /\ zlen (flat_ring_faces N k) = N * k) /\
  (forall n l, 1 <= n -> chain_of_vertices_nverts n l = n /\ zlen (chain_of_vertices_edges n l) = (if l then n else n - 1)) /\
  (forall n, 0 <= n -> vector_field_nverts n = 2 * n /\ zlen (vector_field_edges n) = n).
Proof.
  conjs; intros; acc; conjs.
  - apply grid_nverts; lia.
  - apply grid_nfaces; lia.
  - apply tri_nverts_full; lia.
  - apply tri_nverts; lia.
  - apply torus_nverts_eq; lia.
  - apply torus_nfaces; lia.
  - apply sphere_nverts; lia.
  - apply sphere_nfaces; lia.
  - apply cyl_nverts; lia.
  - apply cyl_nfaces; lia.
  - apply ring_nverts_eq; lia.
  - destruct o; [rewrite ring_faces_open by lia; apply zlen_fan; lia | rewrite ring_faces_closed by lia; apply zlen_cfan; lia].
  - apply flat_ring_nverts_eq; lia.
  - rewrite flat_ring_faces_eq. apply zlen_fan; lia.
  - apply chain_nverts; lia.
  - apply chain_nedges; lia.
  - apply vector_field_nverts_eq; lia.
  - rewrite vector_field_edges_eq, zlen_map, zlen_zrange; lia.
Qed.

(* ---------------------------------------------------------------- 3. topology of the named shape *)
Definition closed_surface (V : Z) (F : list (list Z)) (chi : Z) : Prop := closed F /\ connected V F /\ euler V F = chi.
Definition disk_surface (V : Z) (F : list (list Z)) (c : list Z) : Prop :=
  border_is_cycle F c /\ connected V F /\ euler V F = 1.

Lemma all_topology :
  (forall nu nv t u, unit_grid_rejects nu nv t u = false ->
     disk_surface (unit_grid_nverts nu nv t u) (unit_grid_faces nu nv t u) (grid_border_cycle nu nv)) /\
  (forall M m t, torus_rejects M m t = false -> closed_surface (torus_nverts M m t) (torus_faces M m t) 0) /\
  (forall n L, sphere_uv_rejects n L = false -> closed_surface (sphere_uv_nverts n L) (sphere_uv_faces n L) 2) /\
  (forall N, cylinder_rejects N true = false -> closed_surface (cylinder_nverts N true) (cylinder_faces N true) 2) /\
  (forall N, cylinder_rejects N false = false ->
     border_is_cycles (cylinder_faces N false) [map (cyl_bottom N) (zrange N); map (cyl_top N) (zrange N)] /\
     connected (cylinder_nverts N false) (cylinder_faces N false) /\
     euler (cylinder_nverts N false) (cylinder_faces N false) = 0) /\
  (forall N k, ring_rejects N true k = false ->
     disk_surface (ring_nverts N true k) (ring_faces N true k) (map (fun t => t) (zrange (N * k + 2))) /\
     disk_surface (ring_nverts N false k) (ring_faces N false k) (map (fun t => t + 1) (zrange (N * k)))) /\
  (forall N k, flat_ring_rejects N k = false ->
     disk_surface (flat_ring_nverts N k) (flat_ring_faces N k) (map (fun t => t) (zrange (N * k + 2)))) /\
  (forall nu nv u, unit_triangle_rejects nu nv u = false ->
     disk_surface (unit_triangle_nverts nu nv u) (unit_triangle_faces nu nv u) (tri_border_cycle nu nv)).
Proof.
  conjs; intros; acc; unfold disk_surface, closed_surface; conjs.
  - apply grid_border; auto.
  - apply grid_connected; auto.
  - apply grid_euler; auto.
  - apply torus_closed; auto.
  - apply torus_connected; auto.
  - apply torus_euler; auto.
  - apply sphere_closed; auto.
  - apply sphere_connected; auto.
  - apply sphere_euler; auto.
  - apply cyl_closed; auto.
  - apply cyl_connected; auto.
  - apply cyl_euler_caps; auto.
  - apply cyl_open_border; auto.
  - apply cyl_connected; auto.
  - apply cyl_euler_open; auto.
  - assert (HK : 3 <= N * k) by nia. rewrite ring_faces_open by lia. apply fan_border; lia.
  - assert (HK : 3 <= N * k) by nia. rewrite ring_nverts_eq, ring_faces_open by lia. apply fan_connected; lia.
  - assert (HK : 3 <= N * k) by nia. rewrite ring_nverts_eq, ring_faces_open by lia. apply fan_euler; lia.
  - assert (HK : 3 <= N * k) by nia. rewrite ring_faces_closed by lia. apply cfan_border; lia.
  - assert (HK : 3 <= N * k) by nia. rewrite ring_nverts_eq, ring_faces_closed by lia. apply cfan_connected; lia.
  - assert (HK : 3 <= N * k) by nia. rewrite ring_nverts_eq, ring_faces_closed by lia. apply cfan_euler; lia.
  - rewrite flat_ring_faces_eq. apply fan_border; lia.
  - rewrite flat_ring_nverts_eq, flat_ring_faces_eq by lia. apply fan_connected; lia.
  - rewrite flat_ring_nverts_eq, flat_ring_faces_eq by lia. apply fan_euler; lia.
  - apply tri_border; auto.
  - apply tri_connected; auto.
  - apply tri_euler; auto.
Qed.

(* ---------------------------------------------------------------- 3b. every vertex umbrella is one fan (vertex manifoldness) *)
Lemma all_vertex_manifold :
  (forall nu nv t u, unit_grid_rejects nu nv t u = false -> vertex_manifold (unit_grid_nverts nu nv t u) (unit_grid_faces nu nv t u)) /\
  (forall nu nv u, unit_triangle_rejects nu nv u = false -> vertex_manifold (unit_triangle_nverts nu nv u) (unit_triangle_faces nu nv u)) /\
  (forall M m t, torus_rejects M m t = false -> vertex_manifold (torus_nverts M m t) (torus_faces M m t)) /\
  (forall n L, sphere_uv_rejects n L = false -> vertex_manifold (sphere_uv_nverts n L) (sphere_uv_faces n L)) /\
  (forall N c, cylinder_rejects N c = false -> vertex_manifold (cylinder_nverts N c) (cylinder_faces N c)) /\
  (forall N o k, ring_rejects N o k = false -> vertex_manifold (ring_nverts N o k) (ring_faces N o k)) /\
  (forall N k, flat_ring_rejects N k = false -> vertex_manifold (flat_ring_nverts N k) (flat_ring_faces N k)).
Proof.
  conjs; intros; acc.
  - apply grid_vertex_manifold; auto.
  - apply tri_vertex_manifold; auto.
  - apply torus_vertex_manifold; auto.
  - apply sphere_vertex_manifold; auto.
  - apply cyl_vertex_manifold; auto.
  - assert (HK : 3 <= N * k) by nia. rewrite ring_nverts_eq by lia. destruct o.
    + rewrite ring_faces_open by lia. apply fan_vertex_manifold. lia.
    + rewrite ring_faces_closed by lia. apply cfan_vertex_manifold. lia.
  - rewrite flat_ring_nverts_eq by lia. rewrite flat_ring_faces_eq. apply fan_vertex_manifold. lia.
Qed.

(* ---------------------------------------------------------------- 4. the constant-table solids (finite domain): everything,
   vertex umbrellas included *)
Lemma all_tables :
  (disk_like triangle_nverts triangle_faces [0; 1; 2]) /\
  (forall t, disk_like (quad_nverts t) (quad_faces t) [0; 1; 2; 3]) /\
  (forall v, sphere_like (tetrahedron_nverts v) (tetrahedron_faces v)) /\
  (forall c t, sphere_like (hexahedron_nverts c t false) (hexahedron_faces c t false)) /\
  (forall c t, sphere_like (axis_aligned_cube_nverts c t) (axis_aligned_cube_faces c t)) /\
  (forall c, sphere_like (hexahedron_4pts_nverts c false) (hexahedron_4pts_faces c false)) /\
  (forall u, sphere_like (icosahedron_nverts u) (icosahedron_faces u)) /\
  sphere_like octahedron_nverts octahedron_faces /\
  sphere_like dodecahedron_nverts dodecahedron_faces.
Proof.
  split; [apply triangle_disk|].
  split; [intros; apply quad_disk|].
  split; [intros; apply tetrahedron_sphere|].
  split; [intros; apply hexahedron_sphere|].
  split; [intros c t; exact (proj1 (hexahedron_sphere c t))|].
  split; [intros c; exact (proj1 (hexahedron_sphere c false))|].
  split; [intros; apply icosahedron_sphere|].
  split; [apply octahedron_sphere | apply dodecahedron_sphere].
Qed.

Lemma all_table_counts :
  triangle_nverts = 3 /\ zlen triangle_faces = 1 /\
  (forall t, quad_nverts t = 4 /\ zlen (quad_faces t) = (if t then 2 else 1)) /\
  (forall v, tetrahedron_nverts v = 4 /\ zlen (tetrahedron_faces v) = 4) /\
  (forall c t, hexahedron_nverts c t false = 8 /\ zlen (hexahedron_faces c t false) = (if t then 12 else 6)) /\
  (forall u, icosahedron_nverts u = 12 /\ zlen (icosahedron_faces u) = 20) /\
  (octahedron_nverts = 6 /\ zlen octahedron_faces = 8) /\ (dodecahedron_nverts = 20 /\ zlen dodecahedron_faces = 12).
Proof.
  split; [reflexivity|]. split; [reflexivity|].
  split; [intros t; destruct t; split; reflexivity|].
  split; [intros v; destruct v; split; reflexivity|].
  split; [intros c t; destruct c, t; split; reflexivity|].
  split; [intros u; destruct u; split; reflexivity|].
  split; [split; [apply octahedron_sphere | apply octahedron_sphere] | split; [apply dodecahedron_sphere | apply dodecahedron_sphere]].
Qed.

(* ---------------------------------------------------------------- 5. switches are honoured as named *)
Lemma all_switches :
  (* triangulate: all faces are triangles, resp. quads *)
  (forall nu nv (t u : bool), unit_grid_rejects nu nv t u = false -> Forall (fun f : list Z => zlen f = if t then 3 else 4) (unit_grid_faces nu nv t u)) /\
  (forall M m (t : bool), Forall (fun f : list Z => zlen f = if t then 3 else 4) (torus_faces M m t)) /\
  (forall t : bool, Forall (fun f : list Z => zlen f = if t then 3 else 4) (quad_faces t)) /\
  (forall c t : bool, Forall (fun f : list Z => zlen f = if t then 3 else 4) (hexahedron_faces c t false)) /\
  (* volume: exactly one cell on all the vertices, and only then *)
  (forall v : bool, tetrahedron_cells v = if v then [[0; 1; 2; 3]] else []) /\
  (forall c t v : bool, hexahedron_cells c t v = if v then [[0; 1; 2; 3; 4; 5; 6; 7]] else []) /\
  (* forwarding: each named switch reaches the parameter of the same name *)
  (forall c t, axis_aligned_cube_faces c t = hexahedron_faces c t false /\ axis_aligned_cube_cells c t = hexahedron_cells c t false) /\
  (forall c v, hexahedron_4pts_faces c v = hexahedron_faces c false v /\ hexahedron_4pts_cells c v = hexahedron_cells c false v) /\
  (* ring: fewer than three triangles are rejected, exactly *)
  (forall N o k, ring_rejects N o k = true <-> N < 3 \/ k < 1) /\
  (* loop: the closed chain has the extra edge from the last point to the first *)
  (forall n, chain_of_vertices_edges n false = map (fun i => [i; i + 1]) (zrange (n - 1))) /\
  (forall n, chain_of_vertices_edges n true = map (fun i => [i; (i + 1) mod n]) (zrange n)) /\
  (forall n, vector_field_edges n = map (fun i => [2 * i; 2 * i + 1]) (zrange n)) /\
  (* dual: one face per vertex of the input (its ring of faces), one vertex per face *)
  (forall v2f nV nF, 0 <= nV -> 0 <= nF -> dual_mesh_nverts v2f nV nF = nF /\ dual_mesh_faces v2f nV nF = map v2f (zrange nV)) /\
  (* ... whose vertices are, per mode, a NON persistent attribute computed from the mesh on every call (mode, function, persistent) *)
  dual_mesh_modes = [("barycenter"%string, "face_barycenter"%string, false); ("circumcenter"%string, "face_circumcenter"%string, false)].
Proof.
  conjs; intros; acc; conjs.
  - apply Forall_forall. intros f Hf. apply grid_face_In in Hf as [i [j [_ [_ Hf]]]]; try lia.
    unfold gcell in Hf. destruct t; simpl in Hf; split_or Hf; subst f; reflexivity.
  - apply Forall_forall. intros f Hf. apply torus_face_In in Hf as [i [j [_ [_ Hf]]]].
    unfold ProofsTorus.tcell in Hf. cbv zeta in Hf. destruct t; simpl in Hf; split_or Hf; subst f; reflexivity.
  - apply quad_disk.
  - apply hexahedron_sphere.
  - destruct v; reflexivity.
  - destruct c, t, v; reflexivity.
  - reflexivity.
  - reflexivity.
  - reflexivity.
  - reflexivity.
  - apply ring_rejects_spec.
  - apply chain_open_edges.
  - apply chain_loop_edges.
  - apply vector_field_edges_eq.
  - apply dual_counts; auto.
  - apply dual_counts; auto.
  - reflexivity.
Qed.

(* ---------------------------------------------------------------- 6. vertices on the named surface (over the reals) *)
Lemma all_on_surface :
  (forall n L center radius, Forall (fun p => dist2 p center = (radius * radius)%R) (sphere_uv_coords Rops n L center radius)) /\
  (forall M m R0 r t, Forall (on_torus R0 r) (torus_coords Rops M m R0 r t)) /\
  (forall center radius u, Forall (fun p => dist2 p center = (radius * radius)%R) (icosahedron_coords Rops center radius u)) /\
  (forall nu nv t u, unit_grid_rejects nu nv t u = false -> Forall in_unit_square (unit_grid_coords Rops nu nv t u)) /\
  (forall nu nv u, unit_triangle_rejects nu nv u = false -> Forall in_unit_square (unit_triangle_coords Rops nu nv u)) /\
  (forall P0 P1 P2, triangle_coords Rops P0 P1 P2 = [P0; P1; P2]) /\
  (forall P0 P1 P2 t, quad_coords Rops P0 P1 P2 t = [P0; P1; vsub Rops (vadd Rops P2 P1) P0; P2]) /\
  (forall P1 P2 P3 P4 v, tetrahedron_coords Rops P1 P2 P3 P4 v = [P1; P2; P3; P4]) /\
  (forall P1 P2 P3 P4 P5 P6 P7 P8 c t v, hexahedron_coords Rops P1 P2 P3 P4 P5 P6 P7 P8 c t v = [P1; P2; P3; P4; P5; P6; P7; P8]) /\
  (forall P1 P2 P3 P4 c v, let X := hexahedron_4pts_coords Rops P1 P2 P3 P4 c v in
     List.nth 0 X P1 = P1 /\ List.nth 1 X P1 = P2 /\ List.nth 3 X P1 = P3 /\ List.nth 4 X P1 = P4 /\ List.length X = 8%nat) /\
  (forall N d o k apex, exists rim, ring_coords Rops N d o k apex = apex :: rim /\ Forall on_unit_circle rim) /\
  (forall (P1 P2 : vec R) (radius : R) N caps, (0 < dot3 (vsub Rops P2 P1) (vsub Rops P2 P1))%R ->
     let a := vnormalized Rops (vsub Rops P2 P1) in
     exists ringpts, cylinder_coords Rops P1 P2 radius N caps = ringpts ++ (if caps then [P1; P2] else []) /\
       Forall (fun p => exists P, (P = P1 \/ P = P2) /\ dot3 (vsub Rops p P) a = 0%R /\ dist2 p P = (radius * radius)%R) ringpts) /\
  (forall N d k, exists rim, flat_ring_coords Rops N d k = (0, 0, 0)%R :: rim /\ Forall on_unit_circle rim) /\
  (forall n (radius : R) b, Forall (fun p => dot3 p p = (radius * radius)%R) (sphere_fibonacci_coords Rops n radius b)) /\
  (forall k (center : vec R) (radius : R) v, (0 < dot3 (vsub Rops v center) (vsub Rops v center))%R ->
     dist2 (icosphere_project Rops k center radius v) center = (radius * radius)%R) /\
  (forall k (center : vec R) (radius : R),
     icosphere_base_faces = icosahedron_faces false /\ icosphere_base_nverts = icosahedron_nverts false /\
     icosphere_base_coords Rops k center radius = icosahedron_coords Rops center radius false /\
     icosphere_rounds k = k /\ icosphere_loop_passes = 1).
Proof.
  conjs; intros; acc.
  - apply sphere_uv_on_sphere.
  - apply torus_on_torus.
  - apply icosahedron_on_sphere.
  - apply unit_grid_in_square; auto.
  - apply unit_triangle_in_square; auto.
  - reflexivity.
  - reflexivity.
  - reflexivity.
  - reflexivity.
  - apply hexahedron_4pts_corners.
  - apply ring_rim_on_circle.
  - apply cylinder_on_surface; auto.
  - apply flat_ring_rim_on_circle.
  - destruct (Z_lt_le_dec n 1) as [L|L]; [|apply sphere_fibonacci_on_sphere; auto].
    unfold sphere_fibonacci_coords. cbv zeta. rewrite zrange_nonpos by lia. constructor.
  - apply icosphere_project_on_sphere; auto.
  - apply icosphere_base.
Qed.

(* ---------------------------------------------------------------- 6b. ring: the apex found by the bisection loop has the requested
   angle defect.  g ang3 A B N h = 2 pi - N * ang3 A (0,0,h) B is the defect of an apex at height h; ang3 stands for
   geometry.angle_3pts.  Hypotheses on that real function (named in the trusted base, checked numerically on every run):
   monotone in h >= 0; g 0 <= d; while the bracket is being enlarged its ends differ by at least eps in defect. *)
Lemma ring_apex : forall (ang3 : vec R -> vec R -> vec R -> R) (A B : vec R) (N : Z) (d : R),
  (forall a b, (0 <= a <= b)%R -> (g ang3 A B N a <= g ang3 A B N b)%R) ->
  (g ang3 A B N 0 <= d)%R ->
  (forall h1 h2, (h1 = 0 /\ h2 = 10)%R \/ (10 <= h1 /\ h2 = 2 * h1)%R -> (g ang3 A B N h2 < d)%R ->
     (eps <= Rabs (g ang3 A B N h1 - g ang3 A B N h2))%R) ->
  forall fuel s, do_while (step ang3 A B N d) fuel (ring_bisect_init Rops) = Some s ->
  exists h, ring_bisect_apex Rops (fst s) (snd s) = (0, 0, h)%R /\ (Rabs (g ang3 A B N h - d) < eps)%R.
Proof. exact ring_apex_defect. Qed.

Lemma ring_clamp_range : forall x : R, (0 <= ring_defect_clamp Rops x <= 2 * PI - 1 / 100)%R.
Proof. exact ring_clamp. Qed.

(* ---------------------------------------------------------------- 7. what a kernel-evaluated run-time check establishes *)
Lemma runtime_checker_sound V F :
  (is_sphere (topo_of V F) = true -> sphere_like V F) /\ (is_torus (topo_of V F) = true -> torus_like V F) /\
  (is_disk (topo_of V F) = true -> disk_like' V F) /\ (is_annulus (topo_of V F) = true -> annulus_like V F).
Proof. conjs; [apply is_sphere_sound | apply is_torus_sound | apply is_disk_sound | apply is_annulus_sound]. Qed.

(* ---------------------------------------------------------------- non-vacuity: concrete instances *)
Example ex_grid : unit_grid_faces 2 3 false false = [[0; 1; 4; 3]; [1; 2; 5; 4]] /\ unit_grid_nverts 2 3 false false = 6
  /\ grid_border_cycle 2 3 = [0; 1; 2; 5; 4; 3].
Proof. vm_compute. auto. Qed.
Example ex_grid_wf : well_formed 6 (unit_grid_faces 2 3 false false) /\ euler 6 (unit_grid_faces 2 3 false false) = 1.
Proof.
  split; [apply (proj1 all_well_formed 2 3 false false); reflexivity|].
  apply (grid_euler 2 3 false false); lia.
Qed.
Example ex_triangle : unit_triangle_faces 2 3 false = [[0; 1; 2]; [1; 4; 2]; [1; 3; 4]] /\ unit_triangle_nverts 2 3 false = 5.
Proof. vm_compute. auto. Qed.
Example ex_torus : zlen (torus_faces 3 4 true) = 24 /\ is_torus (topo_of 12 (torus_faces 3 4 true)) = true.
Proof. vm_compute. auto. Qed.
Example ex_sphere : sphere_uv_faces 1 3 = [[1; 0; 2]; [4; 1; 2]; [2; 0; 3]; [4; 2; 3]; [3; 0; 1]; [4; 3; 1]]
  /\ is_sphere (topo_of 5 (sphere_uv_faces 1 3)) = true.
Proof. vm_compute. auto. Qed.
Example ex_cylinder : is_annulus (topo_of 6 (cylinder_faces 3 false)) = true /\ is_sphere (topo_of 8 (cylinder_faces 3 true)) = true.
Proof. vm_compute. auto. Qed.
Example ex_ring : ring_faces 3 false 1 = [[0; 1; 2]; [0; 2; 3]; [0; 3; 1]] /\ ring_faces 3 true 1 = [[0; 1; 2]; [0; 2; 3]; [0; 3; 4]]
  /\ is_disk (topo_of 4 (ring_faces 3 false 1)) = true.
Proof. vm_compute. auto. Qed.
Example ex_sphere_coord : In (0, 0, 1)%R (sphere_uv_coords Rops 1 3 (0, 0, 0)%R 1%R).
Proof. unfold sphere_uv_coords. left. unfold vadd, vscale, vx, vy, vz. cbn. f_equal; [f_equal|]; ring. Qed.
