(* C14 - the property theorems, assembled clause by clause from the per-generator files, with non-vacuity
   examples.  Admissible parameters = those the generated guards accept (`g_rejects p = false`, see all_rejects). *)
From Coq Require Import ZArith List Bool Lia Reals Lra String.
Import ListNotations.
Require Import MV.Lib.Base MV.C14.Model MV.C14.Gen MV.C14.ProofsLib.
Require Import MV.C14.ProofsGrid MV.C14.ProofsTri MV.C14.ProofsTorus MV.C14.ProofsSphere MV.C14.ProofsCyl
               MV.C14.ProofsRing MV.C14.ProofsPoly MV.C14.ProofsTables MV.C14.ProofsCoords MV.C14.ProofsBisect MV.C14.ProofsMore.
Open Scope Z_scope.

Ltac conjs := repeat match goal with |- _ /\ _ => split end.

(* the admissible parameters are those the generated guard lets through: turn `g_rejects p = false` into bounds *)
Ltac acc :=
  repeat match goal with
  | H : unit_grid_rejects ?a ?b _ _ = false |- _ =>
      assert (2 <= a /\ 2 <= b) as [? ?] by (unfold unit_grid_rejects in H; lia); clear H
  | H : unit_triangle_rejects ?a ?b _ = false |- _ =>
      assert (2 <= a /\ 2 <= b) as [? ?] by (unfold unit_triangle_rejects in H; lia); clear H
  | H : torus_rejects ?a ?b _ = false |- _ =>
      assert (3 <= a /\ 3 <= b) as [? ?] by (unfold torus_rejects in H; lia); clear H
  | H : sphere_uv_rejects ?a ?b = false |- _ =>
      assert (1 <= a /\ 3 <= b) as [? ?] by (unfold sphere_uv_rejects in H; lia); clear H
  | H : cylinder_rejects ?a _ = false |- _ =>
      assert (3 <= a) by (unfold cylinder_rejects in H; lia); clear H
  | H : ring_rejects ?a _ ?k = false |- _ =>
      assert (3 <= a /\ 1 <= k) as [? ?] by (unfold ring_rejects in H; lia); clear H
  | H : flat_ring_rejects ?a ?k = false |- _ =>
      assert (1 <= a /\ 1 <= k) as [? ?] by (unfold flat_ring_rejects in H; lia); clear H; assert (1 <= a * k) by nia
  end.

(* what is asked of the index lists of a surface generator, short of its global topology *)
Definition well_formed (V : Z) (F : list (list Z)) : Prop :=
  in_range V F /\ all_used V F /\ faces_simple F /\ oriented_manifold F /\ faces_edge_disjoint F.

Lemma wf_intro V F : in_range V F -> all_used V F -> faces_simple F -> oriented_manifold F -> well_formed V F.
Proof. intros. repeat split; auto. apply oriented_manifold_edge_disjoint; auto. Qed.

(* ---------------------------------------------------------------- 0. the admissible parameters are the ones the code accepts:
   what each generated guard (`if ...: raise`) rejects, exactly.  All theorems below are stated for `g_rejects p = false`. *)
Lemma all_rejects :
  (forall nu nv t u, unit_grid_rejects nu nv t u = true <-> nu < 2 \/ nv < 2) /\
  (forall nu nv u, unit_triangle_rejects nu nv u = true <-> nu < 2 \/ nv < 2) /\
  (forall M m t, torus_rejects M m t = true <-> M < 3 \/ m < 3) /\
  (forall n L, sphere_uv_rejects n L = true <-> n < 1 \/ L < 3) /\
  (forall N c, cylinder_rejects N c = true <-> N < 3) /\
  (forall N o k, ring_rejects N o k = true <-> N < 3 \/ k < 1) /\
  (forall N k, flat_ring_rejects N k = true <-> N < 1 \/ k < 1) /\
  (* the constant-table generators and the polyline generators reject nothing *)
  triangle_rejects = false /\ (forall t, quad_rejects t = false) /\ (forall v, tetrahedron_rejects v = false) /\
  (forall c t v, hexahedron_rejects c t v = false) /\ (forall c t, axis_aligned_cube_rejects c t = false) /\
  (forall c v, hexahedron_4pts_rejects c v = false) /\ (forall u, icosahedron_rejects u = false) /\
  octahedron_rejects = false /\ dodecahedron_rejects = false /\
  (forall n l, chain_of_vertices_rejects n l = false) /\ (forall n, vector_field_rejects n = false).
Proof.
  conjs; intros; try reflexivity;
    unfold unit_grid_rejects, unit_triangle_rejects, torus_rejects, sphere_uv_rejects, cylinder_rejects, ring_rejects, flat_ring_rejects; lia.
Qed.

(* ---------------------------------------------------------------- 1. indices in range, every vertex used, simple faces,
   no directed edge twice (consistently oriented edge-manifold; no face repeated, even rotated) *)
Lemma all_well_formed :
  (forall nu nv t u, unit_grid_rejects nu nv t u = false -> well_formed (unit_grid_nverts nu nv t u) (unit_grid_faces nu nv t u)) /\
  (forall nu nv u, unit_triangle_rejects nu nv u = false -> well_formed (unit_triangle_nverts nu nv u) (unit_triangle_faces nu nv u)) /\
  (forall M m t, torus_rejects M m t = false -> well_formed (torus_nverts M m t) (torus_faces M m t)) /\
  (forall n L, sphere_uv_rejects n L = false -> well_formed (sphere_uv_nverts n L) (sphere_uv_faces n L)) /\
  (forall N c, cylinder_rejects N c = false -> well_formed (cylinder_nverts N c) (cylinder_faces N c)) /\
  (forall N o k, ring_rejects N o k = false -> well_formed (ring_nverts N o k) (ring_faces N o k)) /\
  (forall N k, flat_ring_rejects N k = false -> well_formed (flat_ring_nverts N k) (flat_ring_faces N k)).
Proof.
  conjs; intros; acc.
  - apply wf_intro; [apply grid_in_range | apply grid_all_used | apply grid_faces_simple | apply grid_oriented_manifold]; auto.
  - apply wf_intro; [apply tri_in_range | apply tri_all_used | apply tri_faces_simple | apply tri_oriented_manifold]; auto.
  - apply wf_intro; [apply torus_in_range | apply torus_all_used | apply torus_faces_simple | apply torus_oriented_manifold]; auto.
  - apply wf_intro; [apply sphere_in_range | apply sphere_all_used | apply sphere_faces_simple | apply sphere_oriented_manifold]; auto.
  - apply wf_intro; [apply cyl_in_range | apply cyl_all_used | apply cyl_faces_simple | apply cyl_oriented_manifold]; auto.
  - assert (HK : 3 <= N * k) by nia. rewrite ring_nverts_eq by lia. destruct o.
    + rewrite ring_faces_open by lia.
      apply wf_intro; [apply fan_in_range | apply fan_all_used | apply fan_simple | apply fan_oriented]; lia.
    + rewrite ring_faces_closed by lia.
      apply wf_intro; [apply cfan_in_range | apply cfan_all_used | apply cfan_simple | apply cfan_oriented]; lia.
  - rewrite flat_ring_nverts_eq by lia. rewrite flat_ring_faces_eq.
    apply wf_intro; [apply fan_in_range | apply fan_all_used | apply fan_simple | apply fan_oriented]; lia.
Qed.

(* ---------------------------------------------------------------- 2. element counts as functions of the parameters *)
Lemma all_counts :
  (forall nu nv t u, unit_grid_rejects nu nv t u = false ->
     unit_grid_nverts nu nv t u = nu * nv /\ zlen (unit_grid_faces nu nv t u) = (if t then 2 else 1) * ((nu - 1) * (nv - 1))) /\
  (forall nu nv u, unit_triangle_rejects nu nv u = false -> nv <= nu -> unit_triangle_nverts nu nv u = (nv * (nv + 1)) / 2) /\
  (forall nu nv u, unit_triangle_rejects nu nv u = false -> unit_triangle_nverts nu nv u = roff nu nv) /\
  (forall M m t, torus_rejects M m t = false -> torus_nverts M m t = M * m /\ zlen (torus_faces M m t) = (if t then 2 else 1) * (M * m)) /\
  (forall n L, sphere_uv_rejects n L = false -> sphere_uv_nverts n L = n * L + 2 /\ zlen (sphere_uv_faces n L) = (n + 1) * L) /\
  (forall N c, cylinder_rejects N c = false -> cylinder_nverts N c = 2 * N + (if c then 2 else 0) /\ zlen (cylinder_faces N c) = (if c then 4 else 2) * N) /\
  (forall N o k, ring_rejects N o k = false -> ring_nverts N o k = N * k + (if o then 2 else 1) /\ zlen (ring_faces N o k) = N * k) /\
  (forall N k, flat_ring_rejects N k = false -> flat_ring_nverts N k = N * k + 2 /\ zlen (flat_ring_faces N k) = N * k) /\
  (forall n l, 1 <= n -> chain_of_vertices_nverts n l = n /\ zlen (chain_of_vertices_edges n l) = (if l then n else n - 1)) /\
  (forall n, 0 <= n -> vector_field_nverts n = 2 * n /\ zlen (vector_field_edges n) = n).
Proof.
  conjs; intros; acc; conjs.
  - apply grid_nverts; lia.
  - apply grid_nfaces; lia.
  - apply tri_nverts_full; lia.
  - apply tri_nverts; lia.
  - apply torus_nverts_eq; lia.
  - apply torus_nfaces; lia.
  - apply sphere_nverts; lia.
  - apply sphere_nfaces; lia.
  - apply cyl_nverts; lia.
  - apply cyl_nfaces; lia.
  - apply ring_nverts_eq; lia.
  - destruct o; [rewrite ring_faces_open by lia; apply zlen_fan; lia | rewrite ring_faces_closed by lia; apply zlen_cfan; lia].
  - apply flat_ring_nverts_eq; lia.
  - rewrite flat_ring_faces_eq. apply zlen_fan; lia.
  - apply chain_nverts; lia.
  - apply chain_nedges; lia.
  - apply vector_field_nverts_eq; lia.
  - rewrite vector_field_edges_eq, zlen_map, zlen_zrange; lia.
Qed.

(* ---------------------------------------------------------------- 3. topology of the named shape *)
Definition closed_surface (V : Z) (F : list (list Z)) (chi : Z) : Prop := closed F /\ connected V F /\ euler V F = chi.
Definition disk_surface (V : Z) (F : list (list Z)) (c : list Z) : Prop :=
  border_is_cycle F c /\ connected V F /\ euler V F = 1.

Lemma all_topology :
  (forall nu nv t u, unit_grid_rejects nu nv t u = false ->
     disk_surface (unit_grid_nverts nu nv t u) (unit_grid_faces nu nv t u) (grid_border_cycle nu nv)) /\
  (forall M m t, torus_rejects M m t = false -> closed_surface (torus_nverts M m t) (torus_faces M m t) 0) /\
  (forall n L, sphere_uv_rejects n L = false -> closed_surface (sphere_uv_nverts n L) (sphere_uv_faces n L) 2) /\
  (forall N, cylinder_rejects N true = false -> closed_surface (cylinder_nverts N true) (cylinder_faces N true) 2) /\
  (forall N, cylinder_rejects N false = false ->
     border_is_cycles (cylinder_faces N false) [map (cyl_bottom N) (zrange N); map (cyl_top N) (zrange N)] /\
     connected (cylinder_nverts N false) (cylinder_faces N false) /\
     euler (cylinder_nverts N false) (cylinder_faces N false) = 0) /\
  (forall N k, ring_rejects N true k = false ->
     disk_surface (ring_nverts N true k) (ring_faces N true k) (map (fun t => t) (zrange (N * k + 2))) /\
     disk_surface (ring_nverts N false k) (ring_faces N false k) (map (fun t => t + 1) (zrange (N * k)))) /\
  (forall N k, flat_ring_rejects N k = false ->
     disk_surface (flat_ring_nverts N k) (flat_ring_faces N k) (map (fun t => t) (zrange (N * k + 2)))) /\
  (forall nu nv u, unit_triangle_rejects nu nv u = false ->
     disk_surface (unit_triangle_nverts nu nv u) (unit_triangle_faces nu nv u) (tri_border_cycle nu nv)).
Proof.
  conjs; intros; acc; unfold disk_surface, closed_surface; conjs.
  - apply grid_border; auto.
  - apply grid_connected; auto.
  - apply grid_euler; auto.
  - apply torus_closed; auto.
  - apply torus_connected; auto.
  - apply torus_euler; auto.
  - apply sphere_closed; auto.
  - apply sphere_connected; auto.
  - apply sphere_euler; auto.
  - apply cyl_closed; auto.
  - apply cyl_connected; auto.
  - apply cyl_euler_caps; auto.
  - apply cyl_open_border; auto.
  - apply cyl_connected; auto.
  - apply cyl_euler_open; auto.
  - assert (HK : 3 <= N * k) by nia. rewrite ring_faces_open by lia. apply fan_border; lia.
  - assert (HK : 3 <= N * k) by nia. rewrite ring_nverts_eq, ring_faces_open by lia. apply fan_connected; lia.
  - assert (HK : 3 <= N * k) by nia. rewrite ring_nverts_eq, ring_faces_open by lia. apply fan_euler; lia.
  - assert (HK : 3 <= N * k) by nia. rewrite ring_faces_closed by lia. apply cfan_border; lia.
  - assert (HK : 3 <= N * k) by nia. rewrite ring_nverts_eq, ring_faces_closed by lia. apply cfan_connected; lia.
  - assert (HK : 3 <= N * k) by nia. rewrite ring_nverts_eq, ring_faces_closed by lia. apply cfan_euler; lia.
  - rewrite flat_ring_faces_eq. apply fan_border; lia.
  - rewrite flat_ring_nverts_eq, flat_ring_faces_eq by lia. apply fan_connected; lia.
  - rewrite flat_ring_nverts_eq, flat_ring_faces_eq by lia. apply fan_euler; lia.
  - apply tri_border; auto.
  - apply tri_connected; auto.
  - apply tri_euler; auto.
Qed.

(* ---------------------------------------------------------------- 3b. every vertex umbrella is one fan (vertex manifoldness) *)
Lemma all_vertex_manifold :
  (forall nu nv t u, unit_grid_rejects nu nv t u = false -> vertex_manifold (unit_grid_nverts nu nv t u) (unit_grid_faces nu nv t u)) /\
  (forall nu nv u, unit_triangle_rejects nu nv u = false -> vertex_manifold (unit_triangle_nverts nu nv u) (unit_triangle_faces nu nv u)) /\
  (forall M m t, torus_rejects M m t = false -> vertex_manifold (torus_nverts M m t) (torus_faces M m t)) /\
  (forall n L, sphere_uv_rejects n L = false -> vertex_manifold (sphere_uv_nverts n L) (sphere_uv_faces n L)) /\
  (forall N c, cylinder_rejects N c = false -> vertex_manifold (cylinder_nverts N c) (cylinder_faces N c)) /\
  (forall N o k, ring_rejects N o k = false -> vertex_manifold (ring_nverts N o k) (ring_faces N o k)) /\
  (forall N k, flat_ring_rejects N k = false -> vertex_manifold (flat_ring_nverts N k) (flat_ring_faces N k)).
Proof.
  conjs; intros; acc.
  - apply grid_vertex_manifold; auto.
  - apply tri_vertex_manifold; auto.
  - apply torus_vertex_manifold; auto.
  - apply sphere_vertex_manifold; auto.
  - apply cyl_vertex_manifold; auto.
  - assert (HK : 3 <= N * k) by nia. rewrite ring_nverts_eq by lia. destruct o.
    + rewrite ring_faces_open by lia. apply fan_vertex_manifold. lia.
    + rewrite ring_faces_closed by lia. apply cfan_vertex_manifold. lia.
  - rewrite flat_ring_nverts_eq by lia. rewrite flat_ring_faces_eq. apply fan_vertex_manifold. lia.
Qed.

(* ---------------------------------------------------------------- 4. the constant-table solids (finite domain): everything,
   vertex umbrellas included *)
Lemma all_tables :
  (disk_like triangle_nverts triangle_faces [0; 1; 2]) /\
  (forall t, disk_like (quad_nverts t) (quad_faces t) [0; 1; 2; 3]) /\
  (forall v, sphere_like (tetrahedron_nverts v) (tetrahedron_faces v)) /\
  (forall c t, sphere_like (hexahedron_nverts c t false) (hexahedron_faces c t false)) /\
  (forall c t, sphere_like (axis_aligned_cube_nverts c t) (axis_aligned_cube_faces c t)) /\
  (forall c, sphere_like (hexahedron_4pts_nverts c false) (hexahedron_4pts_faces c false)) /\
  (forall u, sphere_like (icosahedron_nverts u) (icosahedron_faces u)) /\
  sphere_like octahedron_nverts octahedron_faces /\
  sphere_like dodecahedron_nverts dodecahedron_faces.
Proof.
  split; [apply triangle_disk|].
  split; [intros; apply quad_disk|].
  split; [intros; apply tetrahedron_sphere|].
  split; [intros; apply hexahedron_sphere|].
  split; [intros c t; exact (proj1 (hexahedron_sphere c t))|].
  split; [intros c; exact (proj1 (hexahedron_sphere c false))|].
  split; [intros; apply icosahedron_sphere|].
  split; [apply octahedron_sphere | apply dodecahedron_sphere].
Qed.

Lemma all_table_counts :
  triangle_nverts = 3 /\ zlen triangle_faces = 1 /\
  (forall t, quad_nverts t = 4 /\ zlen (quad_faces t) = (if t then 2 else 1)) /\
  (forall v, tetrahedron_nverts v = 4 /\ zlen (tetrahedron_faces v) = 4) /\
  (forall c t, hexahedron_nverts c t false = 8 /\ zlen (hexahedron_faces c t false) = (if t then 12 else 6)) /\
  (forall u, icosahedron_nverts u = 12 /\ zlen (icosahedron_faces u) = 20) /\
  (octahedron_nverts = 6 /\ zlen octahedron_faces = 8) /\ (dodecahedron_nverts = 20 /\ zlen dodecahedron_faces = 12).
Proof.
  split; [reflexivity|]. split; [reflexivity|].
  split; [intros t; destruct t; split; reflexivity|].
  split; [intros v; destruct v; split; reflexivity|].
  split; [intros c t; destruct c, t; split; reflexivity|].
  split; [intros u; destruct u; split; reflexivity|].
  split; [split; [apply octahedron_sphere | apply octahedron_sphere] | split; [apply dodecahedron_sphere | apply dodecahedron_sphere]].
Qed.

(* ---------------------------------------------------------------- 5. switches are honoured as named *)
Lemma all_switches :
  (* triangulate: all faces are triangles, resp. quads *)
  (forall nu nv (t u : bool), unit_grid_rejects nu nv t u = false -> Forall (fun f : list Z => zlen f = if t then 3 else 4) (unit_grid_faces nu nv t u)) /\
  (forall M m (t : bool), Forall (fun f : list Z => zlen f = if t then 3 else 4) (torus_faces M m t)) /\
  (forall t : bool, Forall (fun f : list Z => zlen f = if t then 3 else 4) (quad_faces t)) /\
  (forall c t : bool, Forall (fun f : list Z => zlen f = if t then 3 else 4) (hexahedron_faces c t false)) /\
  (* volume: exactly one cell on all the vertices, and only then *)
  (forall v : bool, tetrahedron_cells v = if v then [[0; 1; 2; 3]] else []) /\
  (forall c t v : bool, hexahedron_cells c t v = if v then [[0; 1; 2; 3; 4; 5; 6; 7]] else []) /\
  (* forwarding: each named switch reaches the parameter of the same name *)
  (forall c t, axis_aligned_cube_faces c t = hexahedron_faces c t false /\ axis_aligned_cube_cells c t = hexahedron_cells c t false) /\
  (forall c v, hexahedron_4pts_faces c v = hexahedron_faces c false v /\ hexahedron_4pts_cells c v = hexahedron_cells c false v) /\
  (* ring: fewer than three triangles are rejected, exactly *)
  (forall N o k, ring_rejects N o k = true <-> N < 3 \/ k < 1) /\
  (* loop: the closed chain has the extra edge from the last point to the first *)
  (forall n, chain_of_vertices_edges n false = map (fun i => [i; i + 1]) (zrange (n - 1))) /\
  (forall n, chain_of_vertices_edges n true = map (fun i => [i; (i + 1) mod n]) (zrange n)) /\
  (forall n, vector_field_edges n = map (fun i => [2 * i; 2 * i + 1]) (zrange n)) /\
  (* dual: one face per vertex of the input (its ring of faces), one vertex per face *)
  (forall v2f nV nF, 0 <= nV -> 0 <= nF -> dual_mesh_nverts v2f nV nF = nF /\ dual_mesh_faces v2f nV nF = map v2f (zrange nV)) /\
  (* ... whose vertices are, per mode, a NON persistent attribute computed from the mesh on every call (mode, function, persistent) *)
  dual_mesh_modes = [("barycenter"%string, "face_barycenter"%string, false); ("circumcenter"%string, "face_circumcenter"%string, false)].
Proof.
  conjs; intros; acc; conjs.
  - apply Forall_forall. intros f Hf. apply grid_face_In in Hf as [i [j [_ [_ Hf]]]]; try lia.
    unfold gcell in Hf. destruct t; simpl in Hf; split_or Hf; subst f; reflexivity.
  - apply Forall_forall. intros f Hf. apply torus_face_In in Hf as [i [j [_ [_ Hf]]]].
    unfold ProofsTorus.tcell in Hf. cbv zeta in Hf. destruct t; simpl in Hf; split_or Hf; subst f; reflexivity.
  - apply quad_disk.
  - apply hexahedron_sphere.
  - destruct v; reflexivity.
  - destruct c, t, v; reflexivity.
  - reflexivity.
  - reflexivity.
  - reflexivity.
  - reflexivity.
  - apply ring_rejects_spec.
  - apply chain_open_edges.
  - apply chain_loop_edges.
  - apply vector_field_edges_eq.
  - apply dual_counts; auto.
  - apply dual_counts; auto.
  - reflexivity.
Qed.

(* ---------------------------------------------------------------- 6. vertices on the named surface (over the reals) *)
Lemma all_on_surface :
  (forall n L center radius, Forall (fun p => dist2 p center = (radius * radius)%R) (sphere_uv_coords Rops n L center radius)) /\
  (forall M m R0 r t, Forall (on_torus R0 r) (torus_coords Rops M m R0 r t)) /\
  (forall center radius u, Forall (fun p => dist2 p center = (radius * radius)%R) (icosahedron_coords Rops center radius u)) /\
  (forall nu nv t u, unit_grid_rejects nu nv t u = false -> Forall in_unit_square (unit_grid_coords Rops nu nv t u)) /\
  (forall nu nv u, unit_triangle_rejects nu nv u = false -> Forall in_unit_square (unit_triangle_coords Rops nu nv u)) /\
  (forall P0 P1 P2, triangle_coords Rops P0 P1 P2 = [P0; P1; P2]) /\
  (forall P0 P1 P2 t, quad_coords Rops P0 P1 P2 t = [P0; P1; vsub Rops (vadd Rops P2 P1) P0; P2]) /\
  (forall P1 P2 P3 P4 v, tetrahedron_coords Rops P1 P2 P3 P4 v = [P1; P2; P3; P4]) /\
  (forall P1 P2 P3 P4 P5 P6 P7 P8 c t v, hexahedron_coords Rops P1 P2 P3 P4 P5 P6 P7 P8 c t v = [P1; P2; P3; P4; P5; P6; P7; P8]) /\
  (forall P1 P2 P3 P4 c v, let X := hexahedron_4pts_coords Rops P1 P2 P3 P4 c v in
     List.nth 0 X P1 = P1 /\ List.nth 1 X P1 = P2 /\ List.nth 3 X P1 = P3 /\ List.nth 4 X P1 = P4 /\ List.length X = 8%nat) /\
  (forall N d o k apex, exists rim, ring_coords Rops N d o k apex = apex :: rim /\ Forall on_unit_circle rim) /\
  (forall (P1 P2 : vec R) (radius : R) N caps, (0 < dot3 (vsub Rops P2 P1) (vsub Rops P2 P1))%R ->
     let a := vnormalized Rops (vsub Rops P2 P1) in
     exists ringpts, cylinder_coords Rops P1 P2 radius N caps = ringpts ++ (if caps then [P1; P2] else []) /\
       Forall (fun p => exists P, (P = P1 \/ P = P2) /\ dot3 (vsub Rops p P) a = 0%R /\ dist2 p P = (radius * radius)%R) ringpts) /\
  (forall N d k, exists rim, flat_ring_coords Rops N d k = (0, 0, 0)%R :: rim /\ Forall on_unit_circle rim) /\
  (forall n (radius : R) b, Forall (fun p => dot3 p p = (radius * radius)%R) (sphere_fibonacci_coords Rops n radius b)) /\
  (forall k (center : vec R) (radius : R) v, (0 < dot3 (vsub Rops v center) (vsub Rops v center))%R ->
     dist2 (icosphere_project Rops k center radius v) center = (radius * radius)%R) /\
  (forall k (center : vec R) (radius : R),
     icosphere_base_faces = icosahedron_faces false /\ icosphere_base_nverts = icosahedron_nverts false /\
     icosphere_base_coords Rops k center radius = icosahedron_coords Rops center radius false /\
     icosphere_rounds k = k /\ icosphere_loop_passes = 1).
Proof.
  conjs; intros; acc.
  - apply sphere_uv_on_sphere.
  - apply torus_on_torus.
  - apply icosahedron_on_sphere.
  - apply unit_grid_in_square; auto.
  - apply unit_triangle_in_square; auto.
  - reflexivity.
  - reflexivity.
  - reflexivity.
  - reflexivity.
  - apply hexahedron_4pts_corners.
  - apply ring_rim_on_circle.
  - apply cylinder_on_surface; auto.
  - apply flat_ring_rim_on_circle.
  - destruct (Z_lt_le_dec n 1) as [L|L]; [|apply sphere_fibonacci_on_sphere; auto].
    unfold sphere_fibonacci_coords. cbv zeta. rewrite zrange_nonpos by lia. constructor.
  - apply icosphere_project_on_sphere; auto.
  - apply icosphere_base.
Qed.

(* ---------------------------------------------------------------- 6b. ring: the apex found by the bisection loop has the requested
   angle defect.  g ang3 A B N h = 2 pi - N * ang3 A (0,0,h) B is the defect of an apex at height h; ang3 stands for
   geometry.angle_3pts.  Hypotheses on that real function (named in the trusted base, checked numerically on every run):
   monotone in h >= 0; g 0 <= d; while the bracket is being enlarged its ends differ by at least eps in defect. *)
Lemma ring_apex : forall (ang3 : vec R -> vec R -> vec R -> R) (A B : vec R) (N : Z) (d : R),
  (forall a b, (0 <= a <= b)%R -> (g ang3 A B N a <= g ang3 A B N b)%R) ->
  (g ang3 A B N 0 <= d)%R ->
  (forall h1 h2, (h1 = 0 /\ h2 = 10)%R \/ (10 <= h1 /\ h2 = 2 * h1)%R -> (g ang3 A B N h2 < d)%R ->
     (eps <= Rabs (g ang3 A B N h1 - g ang3 A B N h2))%R) ->
  forall fuel s, do_while (step ang3 A B N d) fuel (ring_bisect_init Rops) = Some s ->
  exists h, ring_bisect_apex Rops (fst s) (snd s) = (0, 0, h)%R /\ (Rabs (g ang3 A B N h - d) < eps)%R.
Proof. exact ring_apex_defect. Qed.

Lemma ring_clamp_range : forall x : R, (0 <= ring_defect_clamp Rops x <= 2 * PI - 1 / 100)%R.
Proof. exact ring_clamp. Qed.

(* ---------------------------------------------------------------- 7. what a kernel-evaluated run-time check establishes *)
Lemma runtime_checker_sound V F :
  (is_sphere (topo_of V F) = true -> sphere_like V F) /\ (is_torus (topo_of V F) = true -> torus_like V F) /\
  (is_disk (topo_of V F) = true -> disk_like' V F) /\ (is_annulus (topo_of V F) = true -> annulus_like V F).
Proof. conjs; [apply is_sphere_sound | apply is_torus_sound | apply is_disk_sound | apply is_annulus_sound]. Qed.

(* ---------------------------------------------------------------- 8. round 7: clauses that were only tested before *)
(* unit_triangle: the number of faces for every admissible pair of resolutions, equal or not; all faces are triangles *)
Lemma tri_counts_all :
  (forall nu nv u, unit_triangle_rejects nu nv u = false ->
     zlen (unit_triangle_faces nu nv u) = 2 * roff nu nv - 2 * (nv - 1) - (Z.min nv nu - 1) - 2 /\
     Forall (fun f : list Z => zlen f = 3) (unit_triangle_faces nu nv u)) /\
  (forall nu nv u, unit_triangle_rejects nu nv u = false -> nv <= nu ->
     zlen (unit_triangle_faces nu nv u) = (nv - 1) * (nv - 1)).
Proof.
  split.
  - intros nu nv u H. acc. split; [apply tri_nfaces_closed; lia | apply tri_all_triangles; lia].
  - intros nu nv u H Hle. acc. apply tri_nfaces_full. lia.
Qed.

(* flat_ring: rim vertex i+1 is at the angle i*ang on the unit circle, ang = (2 pi - clamped defect)/N; every triangle
   (0, i+1, i+2) has its apex at the origin with apex angle ang (counter-clockwise); N of them leave the requested defect *)
Lemma flat_ring_apex : forall N (d : R) k, flat_ring_rejects N k = false ->
  (forall i, 0 <= i <= N * k ->
     nth (Z.to_nat (i + 1)) (flat_ring_coords Rops N d k) (0, 0, 0)%R = (cos (IZR i * flat_ang N d), sin (IZR i * flat_ang N d), 0)%R) /\
  (let X := flat_ring_coords Rops N d k in
   nth 0 X (1, 1, 1)%R = (0, 0, 0)%R /\
   (forall f, In f (flat_ring_faces N k) -> exists i, 0 <= i < N * k /\ f = [0; i + 1; i + 2] /\
      let p := nth (Z.to_nat (i + 1)) X (0, 0, 0)%R in let q := nth (Z.to_nat (i + 2)) X (0, 0, 0)%R in
      on_unit_circle p /\ on_unit_circle q /\
      (vx p * vx q + vy p * vy q = cos (flat_ang N d))%R /\ (vx p * vy q - vy p * vx q = sin (flat_ang N d))%R) /\
   (IZR N * flat_ang N d = 2 * PI - flat_defect d)%R /\ (0 < flat_ang N d <= 2 * PI / IZR N)%R) /\
  (0 <= flat_defect d <= 2 * PI - 1 / 100)%R /\ ((0 <= d < 2 * PI - 1 / 100)%R -> flat_defect d = d).
Proof.
  intros N d k H. acc. split; [|split; [|split]].
  - intros i Hi. apply flat_ring_closed_form. exact Hi.
  - apply flat_ring_apex_angle. lia.
  - apply flat_defect_range.
  - apply flat_defect_id.
Qed.

(* sphere_uv: n_lat honoured - the vertices are the two poles and n_lat rings of n_long points; ring i is at height
   center.z + radius * cos(pi (i+1)/(n_lat+1)); these n_lat heights are pairwise distinct and strictly between the poles *)
Lemma sphere_latitudes : forall n L (center : vec R) (radius : R), sphere_uv_rejects n L = false ->
  sphere_uv_coords Rops n L center radius =
    vadd Rops center (vscale Rops radius (0, 0, 1)%R) ::
    flat_map (fun i => map (sph_pt n L center radius i) (zrange L)) (zrange n) ++
    [vadd Rops center (vscale Rops radius (0, 0, -1)%R)] /\
  (forall i j, vz (sph_pt n L center radius i j) = (vz center + radius * cos (sph_phi n i))%R) /\
  (forall i, 0 <= i < n -> (-1 < cos (sph_phi n i) < 1)%R) /\
  (forall i i', 0 <= i < i' -> i' < n -> (cos (sph_phi n i') < cos (sph_phi n i))%R).
Proof.
  intros n L center radius H. acc. split; [apply sphere_uv_rows|]. split; [intros; apply sph_pt_z|].
  apply sphere_uv_latitudes. lia.
Qed.

(* ring: with the apex on the axis at height h, every triangle (0, a, b) has |p - apex|^2 = |q - apex|^2 = 1 + h^2 and
   (p - apex).(q - apex) = cos(2 pi/N) + h^2: all apex angles equal the one the bisection measures on vertices 1, 2 *)
Lemma ring_congruent : forall N (d : R) o k (h : R), ring_rejects N o k = false ->
  let X := ring_coords Rops N d o k (0, 0, h)%R in
  nth 0 X (1, 1, 1)%R = (0, 0, h)%R /\
  forall f, In f (ring_faces N o k) -> exists a b, f = [0; a; b] /\
    apex_congruent N h (nth (Z.to_nat a) X (0, 0, 0)%R) (nth (Z.to_nat b) X (0, 0, 0)%R).
Proof. intros N d o k h H. acc. apply ring_apex_symmetric; lia. Qed.

(* ring, bisection with the GEOMETRIC angle acos((A-P).(B-P)/(|A-P||B-P|)) measured, as the code does, on vertices 1 and 2 of the
   ring: monotonicity of the defect in the apex height and defect 0 for the flat ring are PROVED (two of the three hypotheses of
   ring_apex); only "no early stop while the bracket is enlarged" remains a hypothesis *)
Lemma ring_apex_geo : forall (N : Z) (d0 : R) (o : bool) (k : Z) (apex : vec R), ring_rejects N o k = false ->
  let X := ring_coords Rops N d0 o k apex in
  let A := nth 1 X (0, 0, 0)%R in let B := nth 2 X (0, 0, 0)%R in let d := ring_defect_clamp Rops d0 in
  (A = (1, 0, 0)%R /\ B = ring_pt N 1) /\
  ((forall a b, (0 <= a <= b)%R -> (g geo_angle A B N a <= g geo_angle A B N b)%R) /\ g geo_angle A B N 0 = 0%R) /\
  ((forall h1 h2, (h1 = 0 /\ h2 = 10)%R \/ (10 <= h1 /\ h2 = 2 * h1)%R -> (g geo_angle A B N h2 < d)%R ->
      (eps <= Rabs (g geo_angle A B N h1 - g geo_angle A B N h2))%R) ->
   forall fuel s, do_while (step geo_angle A B N d) fuel (ring_bisect_init Rops) = Some s ->
   exists h, ring_bisect_apex Rops (fst s) (snd s) = (0, 0, h)%R /\ (Rabs (g geo_angle A B N h - d) < eps)%R).
Proof.
  intros N d0 o k apex H X A B d. acc.
  assert (HA : A = (1, 0, 0)%R).
  { subst A X. rewrite <- ring_pt_0 with (N := N). apply (ring_vertex N d0 o k apex 0). nia. }
  assert (HB : B = ring_pt N 1). { subst B X. apply (ring_vertex N d0 o k apex 1). nia. }
  split; [split; assumption|]. rewrite HA, HB.
  destruct (ring_geo_hypotheses N ltac:(lia)) as [Hgm Hgz]. split; [split; [exact Hgm | exact Hgz]|].
  intros Hexp fuel s Hs. apply (ring_apex geo_angle (1, 0, 0)%R (ring_pt N 1) N d) with (fuel := fuel); auto.
  unfold g. unfold g in Hgz. rewrite Hgz. apply (ring_clamp_range d0).
Qed.

(* the helpers of mouette/geometry/rotations.py, GENERATED from their source: rotate_2d turns by the angle; rotate_around_axis
   (with its early return for a tiny angle or axis) keeps a unit vector orthogonal to the unit axis a unit vector orthogonal to it *)
Lemma rotation_helpers :
  (forall a b z : R, geom_rotate_2d Rops (cos a, sin a, z) b = (cos (a + b), sin (a + b), 0)%R) /\
  (forall (t a : vec R) (ang : R), dot3 a a = 1%R -> dot3 t t = 1%R -> dot3 a t = 0%R ->
     let q := geom_rotate_around_axis Rops t a ang in dot3 q q = 1%R /\ dot3 q a = 0%R).
Proof. split; [exact rot2d_spec | exact rotate_unit_orth]. Qed.

(* ---------------------------------------------------------------- non-vacuity: concrete instances *)
Example ex_grid : unit_grid_faces 2 3 false false = [[0; 1; 4; 3]; [1; 2; 5; 4]] /\ unit_grid_nverts 2 3 false false = 6
  /\ grid_border_cycle 2 3 = [0; 1; 2; 5; 4; 3].
Proof. vm_compute. auto. Qed.
Example ex_grid_wf : well_formed 6 (unit_grid_faces 2 3 false false) /\ euler 6 (unit_grid_faces 2 3 false false) = 1.
Proof.
  split; [apply (proj1 all_well_formed 2 3 false false); reflexivity|].
  apply (grid_euler 2 3 false false); lia.
Qed.
Example ex_triangle : unit_triangle_faces 2 3 false = [[0; 1; 2]; [1; 4; 2]; [1; 3; 4]] /\ unit_triangle_nverts 2 3 false = 5.
Proof. vm_compute. auto. Qed.
Example ex_torus : zlen (torus_faces 3 4 true) = 24 /\ is_torus (topo_of 12 (torus_faces 3 4 true)) = true.
Proof. vm_compute. auto. Qed.
Example ex_sphere : sphere_uv_faces 1 3 = [[1; 0; 2]; [4; 1; 2]; [2; 0; 3]; [4; 2; 3]; [3; 0; 1]; [4; 3; 1]]
  /\ is_sphere (topo_of 5 (sphere_uv_faces 1 3)) = true.
Proof. vm_compute. auto. Qed.
Example ex_cylinder : is_annulus (topo_of 6 (cylinder_faces 3 false)) = true /\ is_sphere (topo_of 8 (cylinder_faces 3 true)) = true.
Proof. vm_compute. auto. Qed.
Example ex_ring : ring_faces 3 false 1 = [[0; 1; 2]; [0; 2; 3]; [0; 3; 1]] /\ ring_faces 3 true 1 = [[0; 1; 2]; [0; 2; 3]; [0; 3; 4]]
  /\ is_disk (topo_of 4 (ring_faces 3 false 1)) = true.
Proof. vm_compute. auto. Qed.
Example ex_sphere_coord : In (0, 0, 1)%R (sphere_uv_coords Rops 1 3 (0, 0, 0)%R 1%R).
Proof. unfold sphere_uv_coords. left. unfold vadd, vscale, vx, vy, vz. cbn. f_equal; [f_equal|]; ring. Qed.

(* round 7: the hypotheses of the new theorems are met by concrete non-trivial instances *)
Example ex_tri_counts : unit_triangle_rejects 3 5 false = false /\ zlen (unit_triangle_faces 3 5 false) = 2 * roff 3 5 - 2 * (5 - 1) - (Z.min 5 3 - 1) - 2
  /\ unit_triangle_rejects 4 4 true = false /\ zlen (unit_triangle_faces 4 4 true) = (4 - 1) * (4 - 1).
Proof. vm_compute. auto. Qed.
Example ex_flat_ring : flat_ring_rejects 5 2 = false /\ In [0; 3; 4] (flat_ring_faces 5 2) /\ zlen (flat_ring_faces 5 2) = 10.
Proof. vm_compute. auto 10. Qed.
Example ex_sphere_lat : sphere_uv_rejects 3 4 = false /\ (cos (sph_phi 3 2) < cos (sph_phi 3 0))%R.
Proof. split; [reflexivity|]. apply (proj2 (sphere_uv_latitudes 3 ltac:(lia))); lia. Qed.
Example ex_rotation : geom_rotate_around_axis Rops (1, 0, 0)%R (0, 0, 1)%R 0%R = (1, 0, 0)%R.
Proof.
  unfold geom_rotate_around_axis. cbv zeta. unfold oabs_lt. cbn [oltb oopp odiv oofZ Rops].
  destruct (Rlt_dec 0 (1 / 1000000000000)) as [_|n]; [|exfalso; apply n; lra].
  destruct (Rlt_dec (- (1 / 1000000000000)) 0) as [_|n]; [|exfalso; apply n; lra]. reflexivity.
Qed.
Example ex_ring_congruent : ring_rejects 5 true 2 = false /\ In [0; 10; 11] (ring_faces 5 true 2) /\ In [0; 10; 1] (ring_faces 5 false 2).
Proof. vm_compute. auto 20. Qed.
Example ex_ring_geo : ring_rejects 3 false 1 = false /\ (g geo_angle (1, 0, 0)%R (ring_pt 3 1) 3 0 = 0)%R.
Proof. split; [reflexivity|]. apply (proj2 (ring_geo_hypotheses 3 ltac:(lia))). Qed.
