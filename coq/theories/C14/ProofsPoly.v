(* C14 - the polyline generators chain_of_vertices(n points, loop) and vector_field(n arrows), and dual_mesh. *)
From Coq Require Import ZArith List Bool Lia ZifyBool.
Import ListNotations.
Require Import MV.Lib.Base MV.C14.Model MV.C14.Gen MV.C14.ProofsLib.
Open Scope Z_scope.

Lemma znth_zrange n i : 0 <= i < n -> znth (zrange n) i 0 = i.
Proof.
  intros H. unfold znth. destruct (i <? 0) eqn:E; [lia|]. rewrite nth_zrange by lia. lia.
Qed.

Lemma map_as_flat_map {A B} (f : A -> B) l : flat_map (fun x => [f x]) l = map f l.
Proof. induction l; simpl; congruence. Qed.

(* the open chain links i to i+1, the closed one also n-1 to 0 *)
Lemma chain_open_edges n : chain_of_vertices_edges n false = map (fun i => [i; i + 1]) (zrange (n - 1)).
Proof.
  unfold chain_of_vertices_edges, it_consecutive_pairs. rewrite zlen_zrange'.
  destruct (Z_lt_le_dec n 1) as [L|L].
  - rewrite !zrange_nonpos by lia. reflexivity.
  - replace (Z.max 0 n - 1) with (n - 1) by lia. rewrite <- map_as_flat_map. apply flat_map_zrange_ext.
    intros i Hi. rewrite !znth_zrange by lia. reflexivity.
Qed.
Lemma chain_loop_edges n : chain_of_vertices_edges n true = map (fun i => [i; (i + 1) mod n]) (zrange n).
Proof.
  unfold chain_of_vertices_edges, it_cyclic_pairs. cbv zeta. rewrite zlen_zrange'.
  destruct (Z_lt_le_dec n 1) as [L|L].
  - rewrite !zrange_nonpos by lia. reflexivity.
  - replace (Z.max 0 n) with n by lia. rewrite <- map_as_flat_map. apply flat_map_zrange_ext.
    intros i Hi. rewrite !znth_zrange by (try apply Z.mod_pos_bound; lia). reflexivity.
Qed.
Lemma chain_nverts n l : 0 <= n -> chain_of_vertices_nverts n l = n.
Proof. intros. unfold chain_of_vertices_nverts, chain_of_vertices_vsites. rewrite zlen_map, zlen_zrange; lia. Qed.
Lemma chain_nedges n l : 1 <= n -> zlen (chain_of_vertices_edges n l) = if l then n else n - 1.
Proof.
  intros H. destruct l; [rewrite chain_loop_edges | rewrite chain_open_edges]; rewrite zlen_map, zlen_zrange; lia.
Qed.
Lemma chain_in_range n l : 1 <= n -> in_range (chain_of_vertices_nverts n l) (chain_of_vertices_edges n l).
Proof.
  intros H. rewrite chain_nverts by lia. apply Forall_forall. intros e He.
  destruct l; [rewrite chain_loop_edges in He | rewrite chain_open_edges in He];
    apply in_map_iff in He as [i [<- Hi]]; apply In_zrange in Hi; repeat constructor; try lia;
    apply Z.mod_pos_bound; lia.
Qed.
Lemma chain_faces n l : chain_of_vertices_faces n l = [].
Proof. reflexivity. Qed.

(* one arrow per input point: vertices 2i (origin) and 2i+1 (tip) *)
Lemma vector_field_edges_eq n : vector_field_edges n = map (fun i => [2 * i; 2 * i + 1]) (zrange n).
Proof. unfold vector_field_edges. apply map_as_flat_map. Qed.
Lemma vector_field_nverts_eq n : 0 <= n -> vector_field_nverts n = 2 * n.
Proof.
  intros. unfold vector_field_nverts, vector_field_vsites.
  rewrite (zlen_flat_map_const _ _ 2) by (intros; reflexivity). rewrite zlen_zrange; lia.
Qed.

(* dual_mesh: one vertex per face of the input, one face per vertex of the input, namely the ring of faces
   around it as SurfaceMesh.connectivity.vertex_to_faces returns it *)
Lemma dual_counts (v2f : Z -> list Z) nV nF : 0 <= nV -> 0 <= nF ->
  dual_mesh_nverts v2f nV nF = nF /\ dual_mesh_faces v2f nV nF = map v2f (zrange nV).
Proof.
  intros HV HF. split.
  - unfold dual_mesh_nverts, dual_mesh_vsites. rewrite (zlen_flat_map_const _ _ 1) by (intros; reflexivity).
    rewrite zlen_zrange; lia.
  - unfold dual_mesh_faces. apply map_as_flat_map.
Qed.
