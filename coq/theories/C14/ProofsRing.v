(* C14 - ring(N, open, n_cover) and flat_ring(N, n_cover): K = N * n_cover triangles around vertex 0.
   flat_ring and the open ring are the same fan  [0; i+1; i+2], i < K  on K+2 vertices (a disk whose border
   0 -> 1 -> ... -> K+1 -> 0 passes through the apex); the closed ring closes the fan on K+1 vertices
   (a disk with the apex inside, border 1 -> 2 -> ... -> K -> 1), K >= 3. *)
From Coq Require Import ZArith List Bool Lia ZifyBool.
Import ListNotations.
Require Import MV.Lib.Base MV.C14.Model MV.C14.Gen MV.C14.ProofsLib.
Open Scope Z_scope.

Definition fan (K : Z) : list (list Z) := flat_map (fun i => [[0; i + 1; i + 2]]) (zrange K).
Definition cfan (K : Z) : list (list Z) := fan (K - 1) ++ [[0; K; 1]].

Lemma flat_ring_faces_eq N k : flat_ring_faces N k = fan (N * k).
Proof. reflexivity. Qed.

Lemma flat_map_zrange2 {B} (f : Z -> list B) a b :
  flat_map f (zrange2 a b) = flat_map (fun k => f (a + k)) (zrange (b - a)).
Proof. unfold zrange2. rewrite flat_map_concat_map, map_map, <- flat_map_concat_map. reflexivity. Qed.

Lemma ring_body_eq N k (o : bool) : 1 <= N * k ->
  flat_map (fun i => [[0; i; if o then i + 1 else (i + 1) mod (N * k + 1)]]) (zrange2 1 (N * k)) = fan (N * k - 1).
Proof.
  intros HK. rewrite flat_map_zrange2. unfold fan. apply flat_map_zrange_ext. intros i Hi.
  destruct o; [|rewrite Z.mod_small by lia]; repeat (f_equal; try lia).
Qed.

Lemma fan_succ K : 0 <= K -> fan (K + 1) = fan K ++ [[0; K + 1; K + 2]].
Proof. intros H. unfold fan. rewrite zrange_succ by lia. rewrite flat_map_app. reflexivity. Qed.

Lemma ring_faces_open N k : 1 <= N * k -> ring_faces N true k = fan (N * k).
Proof.
  intros HK. unfold ring_faces. cbv zeta. rewrite (ring_body_eq N k true HK).
  replace (fan (N * k)) with (fan (N * k - 1 + 1)) by (f_equal; lia).
  rewrite fan_succ by lia. repeat (f_equal; try lia).
Qed.

Lemma ring_faces_closed N k : 1 <= N * k -> ring_faces N false k = cfan (N * k).
Proof. intros HK. unfold ring_faces. cbv zeta. rewrite (ring_body_eq N k false HK). reflexivity. Qed.

Lemma ring_nverts_eq N o k : 1 <= N * k -> ring_nverts N o k = N * k + (if o then 2 else 1).
Proof.
  intros HK. unfold ring_nverts, ring_vsites. rewrite !zlen_app.
  rewrite flat_map_zrange2, (zlen_flat_map_const _ _ 1) by (intros; reflexivity). rewrite zlen_zrange by lia.
  change (zlen [0]) with 1. change (zlen [1]) with 1.
  destruct o; [change (zlen [3]) with 1 | change (zlen (@nil Z)) with 0]; lia.
Qed.

Lemma flat_ring_nverts_eq N k : 0 <= N * k -> flat_ring_nverts N k = N * k + 2.
Proof.
  intros HK. unfold flat_ring_nverts, flat_ring_vsites. rewrite !zlen_app.
  rewrite (zlen_flat_map_const _ _ 1) by (intros; reflexivity). rewrite zlen_zrange by lia.
  change (zlen [0]) with 1. change (zlen [1]) with 1. lia.
Qed.

(* ------------------------------------------------------------------ the open fan *)
Lemma fan_In K f : In f (fan K) <-> exists i, 0 <= i < K /\ f = [0; i + 1; i + 2].
Proof.
  unfold fan. rewrite in_flat_map. split.
  - intros [i [Hi Hf]]. destruct Hf as [Hf|[]]. subst f. apply In_zrange in Hi. exists i. auto.
  - intros [i [Hi ->]]. exists i. split; [apply In_zrange; lia | left; auto].
Qed.
Lemma fan_dedge_In K e : In e (dedges (fan K)) <->
  exists i, 0 <= i < K /\ (e = (0, i + 1) \/ e = (i + 1, i + 2) \/ e = (i + 2, 0)).
Proof.
  rewrite In_dedges. split.
  - intros [f [Hf He]]. apply fan_In in Hf as [i [Hi ->]]. exists i. split; auto.
    lsimpl_in He. split_or He; subst e; auto.
  - intros [i [Hi H]]. exists [0; i + 1; i + 2]. split; [apply fan_In; exists i; auto|].
    lsimpl. destruct H as [-> | [-> | ->]]; auto.
Qed.
Lemma zlen_fan K : 0 <= K -> zlen (fan K) = K.
Proof. intros. unfold fan. rewrite (zlen_flat_map_const _ _ 1) by (intros; reflexivity). rewrite zlen_zrange; lia. Qed.

Lemma fan_in_range K : 1 <= K -> in_range (K + 2) (fan K).
Proof.
  intros HK. apply Forall_forall. intros f Hf. apply fan_In in Hf as [i [Hi ->]].
  repeat constructor; lia.
Qed.
Lemma fan_all_used K : 1 <= K -> all_used (K + 2) (fan K).
Proof.
  intros HK v Hv. destruct (Z.eq_dec v 0) as [->|V0].
  - exists [0; 0 + 1; 0 + 2]. split; [apply fan_In; exists 0; split; [lia|auto] | left; auto].
  - destruct (Z.eq_dec v (K + 1)) as [->|VK].
    + exists [0; K - 1 + 1; K - 1 + 2]. split; [apply fan_In; exists (K - 1); split; [lia|auto] | right; right; left; lia].
    + exists [0; v - 1 + 1; v - 1 + 2]. split; [apply fan_In; exists (v - 1); split; [lia|auto] | right; left; lia].
Qed.
Lemma fan_simple K : faces_simple (fan K).
Proof.
  apply Forall_forall. intros f Hf. apply fan_In in Hf as [i [Hi ->]].
  split; [simpl; lia|]. repeat constructor; lsimpl; lia.
Qed.
Lemma fan_oriented K : oriented_manifold (fan K).
Proof.
  unfold oriented_manifold, fan. rewrite dedges_flat_map. apply NoDup_flat_map; [apply NoDup_zrange | |].
  - intros i Hi. apply In_zrange in Hi. lsimpl. repeat constructor; lsimpl; intros H; split_or H; pinj H; lia.
  - intros i i' e Hi Hi' Hne H H'. apply In_zrange in Hi, Hi'. lsimpl_in H. lsimpl_in H'.
    split_or H; subst e; split_or H'; pinj H'; lia.
Qed.
Lemma fan_connected K : 1 <= K -> connected (K + 2) (fan K).
Proof.
  intros HK. apply connected_by_descent. intros v Hv. exists 0. split; [lia|]. unfold adjacent.
  destruct (Z.eq_dec v (K + 1)) as [->|E].
  - right. apply fan_dedge_In. exists (K - 1). split; [lia|]. right. right. f_equal; lia.
  - left. apply fan_dedge_In. exists (v - 1). split; [lia|]. left. f_equal; lia.
Qed.
(* border: 0 -> 1 -> ... -> K+1 -> 0 *)
Lemma fan_border K : 1 <= K -> border_is_cycle (fan K) (map (fun t => t) (zrange (K + 2))).
Proof.
  intros HK. apply border_cycle_by_positions; [lia | intros; lia | |].
  - intros t Ht. destruct (mod_succ_cases t (K + 2) Ht) as [[E L]|[E L]]; rewrite E; split.
    + apply fan_dedge_In. destruct (Z.eq_dec t 0) as [->|T0].
      * exists 0. split; [lia|]. left. reflexivity.
      * exists (t - 1). split; [lia|]. right. left. f_equal; lia.
    + unfold swap. cbn [fst snd]. intros H. apply fan_dedge_In in H as [i [Hi H]]. split_or H; pinj H; lia.
    + apply fan_dedge_In. exists (K - 1). split; [lia|]. right. right. f_equal; lia.
    + unfold swap. cbn [fst snd]. intros H. apply fan_dedge_In in H as [i [Hi H]]. split_or H; pinj H; lia.
  - intros e He. apply fan_dedge_In in He as [i [Hi H]]. destruct H as [-> | [-> | ->]].
    + destruct (Z.eq_dec i 0) as [->|I0].
      * right. exists 0. split; [lia|]. rewrite Z.mod_small by lia. reflexivity.
      * left. unfold swap. cbn [fst snd]. apply fan_dedge_In. exists (i - 1). split; [lia|]. right. right. f_equal; lia.
    + right. exists (i + 1). split; [lia|]. rewrite Z.mod_small by lia. f_equal; lia.
    + destruct (Z.eq_dec i (K - 1)) as [->|IK].
      * right. exists (K + 1). split; [lia|]. replace (K + 1 + 1) with (K + 2) by lia. rewrite Z.mod_same by lia. f_equal; lia.
      * left. unfold swap. cbn [fst snd]. apply fan_dedge_In. exists (i + 1). split; [lia|]. left. f_equal; lia.
Qed.
Lemma fan_euler K : 1 <= K -> euler (K + 2) (fan K) = 1.
Proof.
  intros HK. unfold euler.
  pose proof (euler_formula _ (fan_oriented K) (fan_simple K)) as HE.
  rewrite (border_length _ _ (fan_oriented K) (fan_border K HK)) in HE
    by (rewrite map_length, zrange_length; lia).
  rewrite zlen_map, zlen_zrange in HE by lia.
  rewrite (zlen_dedges_const _ 3) in HE by (intros f Hf; apply fan_In in Hf as [i [_ ->]]; reflexivity).
  rewrite zlen_fan in * by lia. lia.
Qed.

(* ------------------------------------------------------------------ the closed fan, K >= 3 *)
Lemma cfan_In K f : In f (cfan K) <-> (exists i, 0 <= i < K - 1 /\ f = [0; i + 1; i + 2]) \/ f = [0; K; 1].
Proof.
  unfold cfan. rewrite in_app_iff, fan_In. simpl. intuition.
Qed.
Lemma cfan_dedge_In K e : In e (dedges (cfan K)) <->
  (exists i, 0 <= i < K - 1 /\ (e = (0, i + 1) \/ e = (i + 1, i + 2) \/ e = (i + 2, 0)))
  \/ e = (0, K) \/ e = (K, 1) \/ e = (1, 0).
Proof.
  unfold cfan. rewrite dedges_app, in_app_iff, fan_dedge_In. lsimpl. intuition.
Qed.
Lemma zlen_cfan K : 1 <= K -> zlen (cfan K) = K.
Proof. intros. unfold cfan. rewrite zlen_app, zlen_fan by lia. change (zlen [[0; K; 1]]) with 1. lia. Qed.

Lemma cfan_in_range K : 3 <= K -> in_range (K + 1) (cfan K).
Proof.
  intros HK. apply Forall_forall. intros f Hf. apply cfan_In in Hf as [[i [Hi ->]] | ->]; repeat constructor; lia.
Qed.
Lemma cfan_all_used K : 3 <= K -> all_used (K + 1) (cfan K).
Proof.
  intros HK v Hv. destruct (Z.eq_dec v 0) as [->|V0].
  - exists [0; K; 1]. split; [apply cfan_In; auto | left; auto].
  - destruct (Z.eq_dec v K) as [->|VK].
    + exists [0; K; 1]. split; [apply cfan_In; auto | right; left; auto].
    + exists [0; v - 1 + 1; v - 1 + 2]. split; [apply cfan_In; left; exists (v - 1); split; [lia|auto] | right; left; lia].
Qed.
Lemma cfan_simple K : 3 <= K -> faces_simple (cfan K).
Proof.
  intros HK. apply Forall_forall. intros f Hf. apply cfan_In in Hf as [[i [Hi ->]] | ->];
    (split; [simpl; lia|]); repeat constructor; lsimpl; lia.
Qed.
Lemma cfan_oriented K : 3 <= K -> oriented_manifold (cfan K).
Proof.
  intros HK. unfold oriented_manifold, cfan. rewrite dedges_app. apply NoDup_app_intro.
  - apply fan_oriented.
  - lsimpl. repeat constructor; lsimpl; intros H; split_or H; pinj H; lia.
  - intros e H H'. apply fan_dedge_In in H as [i [Hi H]]. lsimpl_in H'.
    split_or H; subst e; split_or H'; pinj H'; lia.
Qed.
Lemma cfan_connected K : 3 <= K -> connected (K + 1) (cfan K).
Proof.
  intros HK. apply connected_by_descent. intros v Hv. exists 0. split; [lia|]. unfold adjacent.
  left. apply cfan_dedge_In. destruct (Z.eq_dec v K) as [->|E]; [right; left; auto|].
  left. exists (v - 1). split; [lia|]. left. f_equal; lia.
Qed.
(* border: 1 -> 2 -> ... -> K -> 1 *)
Lemma cfan_border K : 3 <= K -> border_is_cycle (cfan K) (map (fun t => t + 1) (zrange K)).
Proof.
  intros HK. apply border_cycle_by_positions; [lia | intros; lia | |].
  - intros t Ht. destruct (mod_succ_cases t K Ht) as [[E L]|[E L]]; rewrite E; split.
    + apply cfan_dedge_In. left. exists t. split; [lia|]. right. left. f_equal; lia.
    + unfold swap. cbn [fst snd]. intros H. apply cfan_dedge_In in H as [[i [Hi H]]|H]; split_or H; pinj H; lia.
    + apply cfan_dedge_In. right. right. left. f_equal; lia.
    + unfold swap. cbn [fst snd]. intros H. apply cfan_dedge_In in H as [[i [Hi H]]|H]; split_or H; pinj H; lia.
  - intros e He. apply cfan_dedge_In in He as [[i [Hi H]]|H].
    + destruct H as [-> | [-> | ->]].
      * left. unfold swap. cbn [fst snd]. apply cfan_dedge_In. destruct (Z.eq_dec i 0) as [->|I0].
        -- right. right. right. reflexivity.
        -- left. exists (i - 1). split; [lia|]. right. right. f_equal; lia.
      * right. exists i. split; [lia|]. rewrite Z.mod_small by lia. f_equal; lia.
      * left. unfold swap. cbn [fst snd]. apply cfan_dedge_In. destruct (Z.eq_dec i (K - 2)) as [->|IK].
        -- right. left. f_equal; lia.
        -- left. exists (i + 1). split; [lia|]. left. f_equal; lia.
    + destruct H as [-> | [-> | ->]].
      * left. unfold swap. cbn [fst snd]. apply cfan_dedge_In. left. exists (K - 2). split; [lia|]. right. right. f_equal; lia.
      * right. exists (K - 1). split; [lia|]. replace (K - 1 + 1) with K by lia. rewrite Z.mod_same by lia. f_equal; lia.
      * left. unfold swap. cbn [fst snd]. apply cfan_dedge_In. left. exists 0. split; [lia|]. left. reflexivity.
Qed.
Lemma cfan_euler K : 3 <= K -> euler (K + 1) (cfan K) = 1.
Proof.
  intros HK. unfold euler.
  pose proof (euler_formula _ (cfan_oriented K HK) (cfan_simple K HK)) as HE.
  rewrite (border_length _ _ (cfan_oriented K HK) (cfan_border K HK)) in HE
    by (rewrite map_length, zrange_length; lia).
  rewrite zlen_map, zlen_zrange in HE by lia.
  rewrite (zlen_dedges_const _ 3) in HE
    by (intros f Hf; apply cfan_In in Hf as [[i [_ ->]] | ->]; reflexivity).
  rewrite zlen_cfan in * by lia. lia.
Qed.

(* the guard of ring *)
Lemma ring_rejects_spec N o k : ring_rejects N o k = true <-> N < 3 \/ k < 1.
Proof. unfold ring_rejects. lia. Qed.

(* ------------------------------------------------------------------ vertex umbrellas *)
Require Import MV.C14.ProofsFan.

Lemma fan_links K v n p : In (n, p) (links (fan K) v) <->
  exists i, 0 <= i < K /\ ((v = 0 /\ n = i + 1 /\ p = i + 2) \/ (v = i + 1 /\ n = i + 2 /\ p = 0) \/ (v = i + 2 /\ n = 0 /\ p = i + 1)).
Proof.
  rewrite links_In. split.
  - intros [f [Hf H]]. apply fan_In in Hf as [i [Hi ->]]. apply tri_corner in H. exists i. split; auto.
  - intros [i [Hi H]]. exists [0; i + 1; i + 2]. split; [apply fan_In; exists i; auto|]. apply tri_corner. exact H.
Qed.

Lemma fan_vertex_manifold K : 1 <= K -> vertex_manifold (K + 2) (fan K).
Proof.
  intros HK v Hv. destruct (Z.eq_dec v 0) as [->|V0].
  - (* the apex: the K corners in order *)
    apply (one_fan_intro _ _ (map (fun i => (i + 1, i + 2)) (zrange K))); [apply fan_oriented | | |].
    + apply NoDup_pairs_fst. cbn [fst]. intros; lia.
    + intros [n p]. rewrite fan_links, in_map_iff. split.
      * intros [i [E Hi]]. apply In_zrange in Hi. pinj E. exists i. split; [lia|]. left. lia.
      * intros [i [Hi H]]. exists i. split; [|apply In_zrange; auto]. split_or H; destruct H as [? [? ?]]; try lia. f_equal; lia.
    + apply chained_map_zrange. cbn [fst snd]. intros; lia.
  - (* a rim vertex: at most two corners *)
    apply (one_fan_intro _ _ ((if v <=? K then [(v + 1, 0)] else []) ++ (if 2 <=? v then [(0, v - 1)] else [])));
      [apply fan_oriented | | |].
    + destruct (v <=? K), (2 <=? v); cbn [app]; repeat constructor; cbn [In]; intros H; split_or H; pinj H; lia.
    + intros [n p]. rewrite fan_links. split.
      * intros H. apply in_app_iff in H as [H|H].
        -- destruct (v <=? K) eqn:E1; [|destruct H]. destruct H as [H|[]]. pinj H.
           exists (v - 1). split; [lia|]. right. left. lia.
        -- destruct (2 <=? v) eqn:E2; [|destruct H]. destruct H as [H|[]]. pinj H.
           exists (v - 2). split; [lia|]. right. right. lia.
      * intros [i [Hi H]]. split_or H; destruct H as [? [? ?]]; try lia; subst.
        -- replace (i + 1 <=? K) with true by lia. left. f_equal; lia.
        -- replace (2 <=? i + 2) with true by lia. apply in_app_iff. right. left. f_equal; lia.
    + destruct (v <=? K), (2 <=? v); cbn [app chained fst snd]; auto.
Qed.

Lemma cfan_links K v n p : In (n, p) (links (cfan K) v) <->
  (exists i, 0 <= i < K - 1 /\ ((v = 0 /\ n = i + 1 /\ p = i + 2) \/ (v = i + 1 /\ n = i + 2 /\ p = 0) \/ (v = i + 2 /\ n = 0 /\ p = i + 1)))
  \/ (v = 0 /\ n = K /\ p = 1) \/ (v = K /\ n = 1 /\ p = 0) \/ (v = 1 /\ n = 0 /\ p = K).
Proof.
  unfold cfan, links. rewrite flat_map_app, in_app_iff. fold (links (fan (K - 1)) v). rewrite fan_links.
  cbn [flat_map]. rewrite app_nil_r, tri_corner. tauto.
Qed.

Lemma cfan_vertex_manifold K : 3 <= K -> vertex_manifold (K + 1) (cfan K).
Proof.
  intros HK v Hv. destruct (Z.eq_dec v 0) as [->|V0].
  - apply (one_fan_intro _ _ (map (fun i => (i + 1, (i + 1) mod K + 1)) (zrange K))); [apply cfan_oriented; auto | | |].
    + apply NoDup_pairs_fst. cbn [fst]. intros; lia.
    + intros [n p]. rewrite cfan_links, in_map_iff. split.
      * intros [i [E Hi]]. apply In_zrange in Hi. pinj E.
        destruct (mod_succ_cases i K Hi) as [[Em L]|[Em L]]; rewrite Em in *.
        -- left. exists i. split; [lia|]. left. lia.
        -- right. left. lia.
      * intros [[i [Hi H]]|H].
        -- exists i. split; [|apply In_zrange; lia]. split_or H; destruct H as [? [? ?]]; try lia.
           rewrite Z.mod_small by lia. f_equal; lia.
        -- exists (K - 1). split; [|apply In_zrange; lia]. split_or H; destruct H as [? [? ?]]; try lia.
           replace (K - 1 + 1) with K by lia. rewrite Z.mod_same by lia. f_equal; lia.
    + apply chained_map_zrange. cbn [fst snd]. intros t Ht. rewrite Z.mod_small by lia. lia.
  - (* rim vertex v in 1..K: the triangle after it and the triangle before it *)
    apply (one_fan_intro _ _ [(v mod K + 1, 0); (0, (v - 2) mod K + 1)]); [apply cfan_oriented; auto | | |].
    + repeat constructor; cbn [In]; intros H; split_or H; pinj H.
      pose proof (Z.mod_pos_bound v K ltac:(lia)). lia.
    + intros [n p]. rewrite cfan_links. cbn [In].
      assert (E1 : v mod K + 1 = if v =? K then 1 else v + 1).
      { destruct (v =? K) eqn:E; [replace v with K by lia; rewrite Z.mod_same by lia; lia | rewrite Z.mod_small by lia; lia]. }
      assert (E2 : (v - 2) mod K + 1 = if v =? 1 then K else v - 1).
      { destruct (v =? 1) eqn:E.
        - replace (v - 2) with (K - 1 + (-1) * K) by lia. rewrite Z.mod_add by lia. rewrite Z.mod_small by lia. lia.
        - rewrite Z.mod_small by lia. lia. }
      rewrite E1, E2. split.
      * intros H. split_or H; pinj H; subst.
        -- destruct (v =? K) eqn:E; [right; right; left; lia | left; exists (v - 1); split; [lia|]; right; left; lia].
        -- destruct (v =? 1) eqn:E; [right; right; right; lia | left; exists (v - 2); split; [lia|]; right; right; lia].
      * intros [[i [Hi H]]|H]; split_or H; destruct H as [? [? ?]]; try lia; subst.
        -- left. replace (i + 1 =? K) with false by lia. f_equal; lia.
        -- right. left. replace (i + 2 =? 1) with false by lia. f_equal; lia.
        -- left. rewrite Z.eqb_refl. reflexivity.
        -- right. left. cbn [Z.eqb]. reflexivity.
    + cbn [chained fst snd]. auto.
Qed.
