(* C14 - cylinder(N, fill_caps): all N >= 3.  With caps: a sphere; without: an annulus (two border loops). *)
From Coq Require Import ZArith List Bool Lia ZifyBool.
Import ListNotations.
Require Import MV.Lib.Base MV.C14.Model MV.C14.Gen MV.C14.ProofsLib.
Open Scope Z_scope.

Definition ccap (N i : Z) : list (list Z) :=
  let i' := (i + 1) mod N in [[i; i'; 2 * N]; [i + N; 2 * N + 1; i' + N]].
Definition cside (N i : Z) : list (list Z) :=
  let i' := (i + 1) mod N in [[i; N + i; i']; [N + i; N + i'; i']].

Lemma cyl_faces_eq N c :
  cylinder_faces N c = (if c then flat_map (ccap N) (zrange N) else []) ++ flat_map (cside N) (zrange N).
Proof. unfold cylinder_faces, ccap, cside. reflexivity. Qed.

Lemma cyl_nverts N c : 0 <= N -> cylinder_nverts N c = 2 * N + (if c then 2 else 0).
Proof.
  intros HN. unfold cylinder_nverts, cylinder_vsites. rewrite zlen_app.
  rewrite (zlen_flat_map_const _ _ N).
  - rewrite zlen_zrange by lia. destruct c; [change (zlen [1; 2]) with 2 | change (zlen (@nil Z)) with 0]; lia.
  - intros k _. rewrite (zlen_flat_map_const _ _ 1) by (intros; reflexivity). rewrite zlen_zrange by lia. lia.
Qed.

Lemma cyl_nfaces N c : 0 <= N -> zlen (cylinder_faces N c) = (if c then 4 else 2) * N.
Proof.
  intros HN. rewrite cyl_faces_eq, zlen_app.
  rewrite (zlen_flat_map_const (cside N) _ 2) by (intros; reflexivity). rewrite zlen_zrange by lia.
  destruct c.
  - rewrite (zlen_flat_map_const (ccap N) _ 2) by (intros; reflexivity). rewrite zlen_zrange by lia. lia.
  - change (zlen (@nil (list Z))) with 0. lia.
Qed.

Lemma cyl_face_In N c f :
  In f (cylinder_faces N c) <->
  (c = true /\ exists i, 0 <= i < N /\ In f (ccap N i)) \/ (exists i, 0 <= i < N /\ In f (cside N i)).
Proof.
  rewrite cyl_faces_eq, in_app_iff. split.
  - intros [H|H].
    + destruct c; [|destruct H]. left. split; auto. apply in_flat_map in H as [i [Hi H]]. apply In_zrange in Hi. exists i. auto.
    + right. apply in_flat_map in H as [i [Hi H]]. apply In_zrange in Hi. exists i. auto.
  - intros [[-> [i [Hi H]]]|[i [Hi H]]].
    + left. apply in_flat_map. exists i. split; [apply In_zrange; lia | auto].
    + right. apply in_flat_map. exists i. split; [apply In_zrange; lia | auto].
Qed.

Lemma cyl_dedge_In N c e :
  In e (dedges (cylinder_faces N c)) <->
  (c = true /\ exists i, 0 <= i < N /\ In e (dedges (ccap N i))) \/ (exists i, 0 <= i < N /\ In e (dedges (cside N i))).
Proof.
  rewrite In_dedges. split.
  - intros [f [Hf He]]. apply cyl_face_In in Hf as [[Hc [i [Hi Hf]]]|[i [Hi Hf]]].
    + left. split; auto. exists i. split; auto. apply In_dedges. exists f. auto.
    + right. exists i. split; auto. apply In_dedges. exists f. auto.
  - intros [[Hc [i [Hi He]]]|[i [Hi He]]]; apply In_dedges in He as [f [Hf He]]; exists f; (split; auto);
      apply cyl_face_In; [left; split; auto; exists i; auto | right; exists i; auto].
Qed.

Ltac ccases N i :=
  let Ei := fresh "Ei" in let Li := fresh "Li" in
  destruct (mod_succ_cases i N ltac:(lia)) as [[Ei Li]|[Ei Li]]; rewrite ?Ei in *.

Lemma cyl_in_range N c : 3 <= N -> in_range (cylinder_nverts N c) (cylinder_faces N c).
Proof.
  intros HN. rewrite cyl_nverts by lia. apply Forall_forall. intros f Hf. apply Forall_forall. intros v Hv.
  apply cyl_face_In in Hf as [[-> [i [Hi Hf]]]|[i [Hi Hf]]]; unfold ccap, cside in Hf; cbv zeta in Hf;
    ccases N i; lsimpl_in Hf; split_or Hf; subst f; lsimpl_in Hv; split_or Hv; subst v; try destruct c; lia.
Qed.

Lemma cyl_all_used N c : 3 <= N -> all_used (cylinder_nverts N c) (cylinder_faces N c).
Proof.
  intros HN. rewrite cyl_nverts by lia. intros v Hv.
  destruct (Z_lt_le_dec v N) as [L1|L1].
  - exists [v; N + v; (v + 1) mod N]. split; [|left; auto].
    apply cyl_face_In. right. exists v. split; [lia|]. unfold cside. cbv zeta. left. reflexivity.
  - destruct (Z_lt_le_dec v (2 * N)) as [L2|L2].
    + exists [v - N; N + (v - N); (v - N + 1) mod N]. split; [|right; left; lia].
      apply cyl_face_In. right. exists (v - N). split; [lia|]. unfold cside. cbv zeta. left. reflexivity.
    + destruct c; [|lia]. destruct (Z.eq_dec v (2 * N)) as [->|E].
      * exists [0; (0 + 1) mod N; 2 * N]. split; [|right; right; left; auto].
        apply cyl_face_In. left. split; auto. exists 0. split; [lia|]. unfold ccap. cbv zeta. left. reflexivity.
      * exists [0 + N; 2 * N + 1; (0 + 1) mod N + N]. split; [|right; left; lia].
        apply cyl_face_In. left. split; auto. exists 0. split; [lia|]. unfold ccap. cbv zeta. right. left. reflexivity.
Qed.

Lemma cyl_faces_simple N c : 3 <= N -> faces_simple (cylinder_faces N c).
Proof.
  intros HN. apply Forall_forall. intros f Hf.
  apply cyl_face_In in Hf as [[-> [i [Hi Hf]]]|[i [Hi Hf]]]; unfold ccap, cside in Hf; cbv zeta in Hf;
    ccases N i; lsimpl_in Hf; split_or Hf; subst f; (split; [lsimpl; lia|]); repeat constructor; lsimpl; lia.
Qed.

(* ------------------------------------------------------------------ oriented manifold *)
Lemma ccap_edges_inj N i i' e : 3 <= N -> 0 <= i < N -> 0 <= i' < N ->
  In e (dedges (ccap N i)) -> In e (dedges (ccap N i')) -> i = i'.
Proof.
  intros HN Hi Hi' H H'. unfold ccap in *. cbv zeta in *.
  ccases N i; ccases N i'; lsimpl_in H; lsimpl_in H'; split_or H; subst e; split_or H'; pinj H'; lia.
Qed.
Lemma cside_edges_inj N i i' e : 3 <= N -> 0 <= i < N -> 0 <= i' < N ->
  In e (dedges (cside N i)) -> In e (dedges (cside N i')) -> i = i'.
Proof.
  intros HN Hi Hi' H H'. unfold cside in *. cbv zeta in *.
  ccases N i; ccases N i'; lsimpl_in H; lsimpl_in H'; split_or H; subst e; split_or H'; pinj H'; lia.
Qed.
Lemma ccap_cside_disjoint N i i' e : 3 <= N -> 0 <= i < N -> 0 <= i' < N ->
  In e (dedges (ccap N i)) -> In e (dedges (cside N i')) -> False.
Proof.
  intros HN Hi Hi' H H'. unfold ccap, cside in *. cbv zeta in *.
  ccases N i; ccases N i'; lsimpl_in H; lsimpl_in H'; split_or H; subst e; split_or H'; pinj H'; lia.
Qed.
Lemma ccap_edges_NoDup N i : 3 <= N -> 0 <= i < N -> NoDup (dedges (ccap N i)).
Proof.
  intros HN Hi. unfold ccap. cbv zeta.
  ccases N i; lsimpl; repeat constructor; lsimpl; intros H; split_or H; pinj H; lia.
Qed.
Lemma cside_edges_NoDup N i : 3 <= N -> 0 <= i < N -> NoDup (dedges (cside N i)).
Proof.
  intros HN Hi. unfold cside. cbv zeta.
  ccases N i; lsimpl; repeat constructor; lsimpl; intros H; split_or H; pinj H; lia.
Qed.

Lemma cyl_oriented_manifold N c : 3 <= N -> oriented_manifold (cylinder_faces N c).
Proof.
  intros HN. unfold oriented_manifold. rewrite cyl_faces_eq, dedges_app.
  apply NoDup_app_intro.
  - destruct c; [|constructor]. rewrite dedges_flat_map. apply NoDup_flat_map; [apply NoDup_zrange | |].
    + intros i Hi. apply In_zrange in Hi. apply ccap_edges_NoDup; lia.
    + intros i i' e Hi Hi' Hne H H'. apply In_zrange in Hi, Hi'. apply Hne. eapply ccap_edges_inj; eauto.
  - rewrite dedges_flat_map. apply NoDup_flat_map; [apply NoDup_zrange | |].
    + intros i Hi. apply In_zrange in Hi. apply cside_edges_NoDup; lia.
    + intros i i' e Hi Hi' Hne H H'. apply In_zrange in Hi, Hi'. apply Hne. eapply cside_edges_inj; eauto.
  - intros e H H'. destruct c; [|destruct H]. rewrite dedges_flat_map in H, H'.
    apply in_flat_map in H as [i [Hi H]]. apply in_flat_map in H' as [i' [Hi' H']].
    apply In_zrange in Hi, Hi'. eapply (ccap_cside_disjoint N i i'); eauto.
Qed.

(* ------------------------------------------------------------------ twins and border *)
Definition pr (n i : Z) : Z := if i =? 0 then n - 1 else i - 1.
Lemma pr_range n i : 0 <= i < n -> 0 <= pr n i < n.
Proof. unfold pr. destruct (i =? 0) eqn:E; lia. Qed.
Lemma succ_pr n i : 0 <= i < n -> (pr n i + 1) mod n = i.
Proof.
  intros H. unfold pr. destruct (i =? 0) eqn:E.
  - replace (n - 1 + 1) with n by lia. rewrite Z.mod_same by lia. lia.
  - replace (i - 1 + 1) with i by lia. apply Z.mod_small. lia.
Qed.

Lemma ccap_has N i : let i' := (i + 1) mod N in
  In (i, i') (dedges (ccap N i)) /\ In (i', 2 * N) (dedges (ccap N i)) /\ In (2 * N, i) (dedges (ccap N i)) /\
  In (i + N, 2 * N + 1) (dedges (ccap N i)) /\ In (2 * N + 1, i' + N) (dedges (ccap N i)) /\
  In (i' + N, i + N) (dedges (ccap N i)).
Proof. unfold ccap. cbv zeta. lsimpl. tauto. Qed.
Lemma cside_has N i : let i' := (i + 1) mod N in
  In (i, N + i) (dedges (cside N i)) /\ In (N + i, i') (dedges (cside N i)) /\ In (i', i) (dedges (cside N i)) /\
  In (N + i, N + i') (dedges (cside N i)) /\ In (N + i', i') (dedges (cside N i)) /\ In (i', N + i) (dedges (cside N i)).
Proof. unfold cside. cbv zeta. lsimpl. tauto. Qed.
Lemma ccap_edges N i e : In e (dedges (ccap N i)) -> let i' := (i + 1) mod N in
  e = (i, i') \/ e = (i', 2 * N) \/ e = (2 * N, i) \/ e = (i + N, 2 * N + 1) \/ e = (2 * N + 1, i' + N) \/ e = (i' + N, i + N).
Proof. unfold ccap. cbv zeta. lsimpl. intros H. split_or H; subst e; tauto. Qed.
Lemma cside_edges N i e : In e (dedges (cside N i)) -> let i' := (i + 1) mod N in
  e = (i, N + i) \/ e = (N + i, i') \/ e = (i', i) \/ e = (N + i, N + i') \/ e = (N + i', i') \/ e = (i', N + i).
Proof. unfold cside. cbv zeta. lsimpl. intros H. split_or H; subst e; tauto. Qed.

(* the side half-edges that are not rim edges always have their twin on the side *)
Lemma cyl_side_twin N c i e : 3 <= N -> 0 <= i < N -> In e (dedges (cside N i)) ->
  let i' := (i + 1) mod N in
  e = (i', i) \/ e = (N + i, N + i') \/ In (swap e) (dedges (cylinder_faces N c)).
Proof.
  intros HN Hi H. cbv zeta.
  assert (Hi' : 0 <= (i + 1) mod N < N) by (apply Z.mod_pos_bound; lia).
  assert (IS : forall k x, 0 <= k < N -> In x (dedges (cside N k)) -> In x (dedges (cylinder_faces N c))).
  { intros k x Hk Hx. apply cyl_dedge_In. right. exists k. auto. }
  apply cside_edges in H. cbv zeta in H. destruct H as [H|[H|[H|[H|[H|H]]]]]; subst e; unfold swap; cbn [fst snd]; auto.
  - right. right. apply (IS (pr N i)); [apply pr_range; lia|].
    pose proof (cside_has N (pr N i)) as T. cbv zeta in T. rewrite succ_pr in T by lia. apply T.
  - right. right. apply (IS i); [lia|]. pose proof (cside_has N i) as T. cbv zeta in T. apply T.
  - right. right. apply (IS ((i + 1) mod N)); [lia|]. pose proof (cside_has N ((i + 1) mod N)) as T. cbv zeta in T. apply T.
  - right. right. apply (IS i); [lia|]. pose proof (cside_has N i) as T. cbv zeta in T. apply T.
Qed.

Lemma cyl_closed N : 3 <= N -> closed (cylinder_faces N true).
Proof.
  intros HN a b H.
  assert (IS : forall k x, 0 <= k < N -> In x (dedges (cside N k)) -> In x (dedges (cylinder_faces N true))).
  { intros k x Hk Hx. apply cyl_dedge_In. right. exists k. auto. }
  assert (IC : forall k x, 0 <= k < N -> In x (dedges (ccap N k)) -> In x (dedges (cylinder_faces N true))).
  { intros k x Hk Hx. apply cyl_dedge_In. left. split; auto. exists k. auto. }
  apply cyl_dedge_In in H as [[_ [i [Hi H]]]|[i [Hi H]]].
  - assert (Hi' : 0 <= (i + 1) mod N < N) by (apply Z.mod_pos_bound; lia).
    apply ccap_edges in H. cbv zeta in H. destruct H as [H|[H|[H|[H|[H|H]]]]]; injection H as -> ->.
    + apply (IS i); [lia|]. pose proof (cside_has N i) as T. cbv zeta in T. apply T.
    + apply (IC ((i + 1) mod N)); [lia|]. pose proof (ccap_has N ((i + 1) mod N)) as T. cbv zeta in T. apply T.
    + apply (IC (pr N i)); [apply pr_range; lia|].
      pose proof (ccap_has N (pr N i)) as T. cbv zeta in T. rewrite succ_pr in T by lia. apply T.
    + apply (IC (pr N i)); [apply pr_range; lia|].
      pose proof (ccap_has N (pr N i)) as T. cbv zeta in T. rewrite succ_pr in T by lia. apply T.
    + apply (IC ((i + 1) mod N)); [lia|]. pose proof (ccap_has N ((i + 1) mod N)) as T. cbv zeta in T. apply T.
    + apply (IS i); [lia|]. pose proof (cside_has N i) as T. cbv zeta in T.
      replace ((i + 1) mod N + N) with (N + (i + 1) mod N) by lia. replace (i + N) with (N + i) by lia. apply T.
  - destruct (cyl_side_twin N true i (a, b) HN Hi H) as [E|[E|T]]; [| |exact T]; injection E as -> ->.
    + apply (IC i); [lia|]. pose proof (ccap_has N i) as T. cbv zeta in T. apply T.
    + apply (IC i); [lia|]. pose proof (ccap_has N i) as T. cbv zeta in T.
      replace (N + (i + 1) mod N) with ((i + 1) mod N + N) by lia. replace (N + i) with (i + N) by lia. apply T.
Qed.

(* without caps the two rims are the border: bottom rim  i+1 -> i  and top rim  N+i -> N+i+1 *)
Definition cyl_bottom (N t : Z) : Z := (N - t) mod N.
Definition cyl_top (N t : Z) : Z := N + t.

Lemma cyl_bottom_val N t : 3 <= N -> 0 <= t < N -> cyl_bottom N t = if t =? 0 then 0 else N - t.
Proof.
  intros HN Ht. unfold cyl_bottom. destruct (t =? 0) eqn:E.
  - replace t with 0 by lia. rewrite Z.sub_0_r. apply Z.mod_same. lia.
  - apply Z.mod_small. lia.
Qed.

Lemma cyl_open_border N : 3 <= N ->
  border_is_cycles (cylinder_faces N false) [map (cyl_bottom N) (zrange N); map (cyl_top N) (zrange N)].
Proof.
  intros HN. split.
  - cbn [concat]. rewrite app_nil_r. apply NoDup_app_intro.
    + apply NoDup_map_positions. intros s t Hs Ht E. rewrite !cyl_bottom_val in E by lia.
      destruct (s =? 0) eqn:E1, (t =? 0) eqn:E2; lia.
    + apply NoDup_map_positions. unfold cyl_top. intros; lia.
    + intros x H1 H2. apply in_map_iff in H1 as [s [<- Hs]]. apply in_map_iff in H2 as [t [E Ht]].
      apply In_zrange in Hs, Ht. rewrite cyl_bottom_val in E by lia. unfold cyl_top in E.
      destruct (s =? 0) eqn:E1; lia.
  - intros e. split.
    + intros [He Hn]. apply cyl_dedge_In in He as [[Hc _]|[i [Hi He]]]; [discriminate|].
      destruct (cyl_side_twin N false i e HN Hi He) as [E|[E|T]]; [| |contradiction]; subst e.
      * exists (map (cyl_bottom N) (zrange N)). split; [left; auto|].
        apply In_cyc_pairs_positions; [lia|].
        (* (i+1 mod N, i) = (bottom t, bottom (t+1)) with t = N-1-i *)
        exists (N - 1 - i). split; [lia|].
        assert (Ht1 : 0 <= (N - 1 - i + 1) mod N < N) by (apply Z.mod_pos_bound; lia).
        rewrite !cyl_bottom_val by lia.
        destruct (mod_succ_cases i N Hi) as [[Ei Li]|[Ei Li]]; rewrite Ei;
        destruct (mod_succ_cases (N - 1 - i) N ltac:(lia)) as [[Et Lt]|[Et Lt]]; rewrite Et;
          destruct (N - 1 - i =? 0) eqn:E1; try lia;
          try (destruct (N - 1 - i + 1 =? 0) eqn:E2; try lia); cbn [Z.eqb]; f_equal; lia.
      * exists (map (cyl_top N) (zrange N)). split; [right; left; auto|].
        apply In_cyc_pairs_positions; [lia|]. exists i. split; [lia|]. unfold cyl_top. reflexivity.
    + intros [cy [Hc He]]. destruct Hc as [<-|[<-|[]]]; apply In_cyc_pairs_positions in He; try lia;
        destruct He as [t [Ht ->]].
      * (* bottom rim edge  bottom t -> bottom (t+1)  is the edge  k+1 -> k  of side cell k = N-1-t *)
        assert (Ht1 : 0 <= (t + 1) mod N < N) by (apply Z.mod_pos_bound; lia).
        set (k := N - 1 - t). assert (Hk : 0 <= k < N) by (subst k; lia).
        assert (Ek : cyl_bottom N t = (k + 1) mod N /\ cyl_bottom N ((t + 1) mod N) = k).
        { rewrite !cyl_bottom_val by lia. subst k.
          destruct (mod_succ_cases t N Ht) as [[Et Lt]|[Et Lt]]; rewrite Et;
          destruct (mod_succ_cases (N - 1 - t) N ltac:(lia)) as [[Ek' Lk]|[Ek' Lk]]; rewrite Ek';
            destruct (t =? 0) eqn:E1; try lia; try (destruct (t + 1 =? 0) eqn:E2; try lia); cbn [Z.eqb]; lia. }
        destruct Ek as [E1 E2]. rewrite E1, E2. clearbody k. split.
        -- apply cyl_dedge_In. right. exists k. split; auto. pose proof (cside_has N k) as T. cbv zeta in T. apply T.
        -- intros Hin. unfold swap in Hin. cbn [fst snd] in Hin.
           apply cyl_dedge_In in Hin as [[Hc _]|[i [Hi Hin]]]; [discriminate|].
           unfold cside in Hin. cbv zeta in Hin.
           destruct (mod_succ_cases i N Hi) as [[Ei Li]|[Ei Li]]; rewrite Ei in Hin;
           destruct (mod_succ_cases k N Hk) as [[Ek' Lk]|[Ek' Lk]]; rewrite Ek' in Hin;
             lsimpl_in Hin; split_or Hin; pinj Hin; lia.
      * unfold cyl_top. split.
        -- apply cyl_dedge_In. right. exists t. split; auto. pose proof (cside_has N t) as T. cbv zeta in T. apply T.
        -- intros Hin. unfold swap in Hin. cbn [fst snd] in Hin.
           apply cyl_dedge_In in Hin as [[Hc _]|[i [Hi Hin]]]; [discriminate|].
           unfold cside in Hin. cbv zeta in Hin.
           destruct (mod_succ_cases i N Hi) as [[Ei Li]|[Ei Li]]; rewrite Ei in Hin;
           destruct (mod_succ_cases t N Ht) as [[Et Lt]|[Et Lt]]; rewrite Et in Hin;
             lsimpl_in Hin; split_or Hin; pinj Hin; lia.
Qed.

(* ------------------------------------------------------------------ connected *)
Lemma cyl_connected N c : 3 <= N -> connected (cylinder_nverts N c) (cylinder_faces N c).
Proof.
  intros HN. rewrite cyl_nverts by lia. apply connected_by_descent. intros v Hv. unfold adjacent.
  assert (IS : forall k x, 0 <= k < N -> In x (dedges (cside N k)) -> In x (dedges (cylinder_faces N c))).
  { intros k x Hk Hx. apply cyl_dedge_In. right. exists k. auto. }
  destruct (Z_lt_le_dec v N) as [L1|L1].
  - exists (v - 1). split; [lia|]. right. apply (IS (v - 1)); [lia|].
    pose proof (cside_has N (v - 1)) as T. cbv zeta in T.
    replace ((v - 1 + 1) mod N) with v in T by (replace (v - 1 + 1) with v by lia; symmetry; apply Z.mod_small; lia).
    apply T.
  - destruct (Z_lt_le_dec v (2 * N)) as [L2|L2].
    + exists (v - N). split; [lia|]. left. apply (IS (v - N)); [lia|].
      pose proof (cside_has N (v - N)) as T. cbv zeta in T. replace (N + (v - N)) with v in T by lia. apply T.
    + destruct c; [|lia].
      assert (IC : forall k x, 0 <= k < N -> In x (dedges (ccap N k)) -> In x (dedges (cylinder_faces N true))).
      { intros k x Hk Hx. apply cyl_dedge_In. left. split; auto. exists k. auto. }
      destruct (Z.eq_dec v (2 * N)) as [->|E].
      * exists 0. split; [lia|]. right. apply (IC 0); [lia|]. pose proof (ccap_has N 0) as T. cbv zeta in T. apply T.
      * exists N. split; [lia|]. left. apply (IC 0); [lia|]. pose proof (ccap_has N 0) as T. cbv zeta in T.
        replace v with (2 * N + 1) by lia. replace N with (0 + N) at 1 by lia. apply T.
Qed.

(* ------------------------------------------------------------------ Euler characteristic: 2 with caps, 0 without *)
Lemma cyl_zlen_dedges N c : 0 <= N -> zlen (dedges (cylinder_faces N c)) = 3 * zlen (cylinder_faces N c).
Proof.
  intros HN. apply zlen_dedges_const. intros f Hf.
  apply cyl_face_In in Hf as [[_ [i [_ Hf]]]|[i [_ Hf]]]; unfold ccap, cside in Hf; cbv zeta in Hf;
    lsimpl_in Hf; split_or Hf; subst f; reflexivity.
Qed.

Lemma cyl_euler_caps N : 3 <= N -> euler (cylinder_nverts N true) (cylinder_faces N true) = 2.
Proof.
  intros HN. unfold euler.
  pose proof (euler_formula _ (cyl_oriented_manifold N true HN) (cyl_faces_simple N true HN)) as HE.
  rewrite (closed_border_nil _ (cyl_closed N HN)) in HE. change (zlen (@nil (Z * Z))) with 0 in HE.
  rewrite cyl_zlen_dedges in HE by lia. rewrite cyl_nverts by lia. rewrite cyl_nfaces in * by lia. lia.
Qed.

Lemma cyl_euler_open N : 3 <= N -> euler (cylinder_nverts N false) (cylinder_faces N false) = 0.
Proof.
  intros HN. unfold euler.
  pose proof (euler_formula _ (cyl_oriented_manifold N false HN) (cyl_faces_simple N false HN)) as HE.
  rewrite (border_length_cycles _ _ (cyl_oriented_manifold N false HN) (cyl_open_border N HN)) in HE.
  cbn [concat] in HE. rewrite app_nil_r, zlen_app, !zlen_map, !zlen_zrange in HE by lia.
  rewrite cyl_zlen_dedges in HE by lia. rewrite cyl_nverts by lia. rewrite cyl_nfaces in * by lia. lia.
Qed.

(* ------------------------------------------------------------------ vertex umbrellas *)
Require Import MV.C14.ProofsFan.

Lemma cyl_links N c v n p :
  In (n, p) (links (cylinder_faces N c) v) <->
  (c = true /\ exists i, 0 <= i < N /\ let i' := (i + 1) mod N in
     ((v = i /\ n = i' /\ p = 2 * N) \/ (v = i' /\ n = 2 * N /\ p = i) \/ (v = 2 * N /\ n = i /\ p = i')) \/
     ((v = i + N /\ n = 2 * N + 1 /\ p = i' + N) \/ (v = 2 * N + 1 /\ n = i' + N /\ p = i + N) \/ (v = i' + N /\ n = i + N /\ p = 2 * N + 1)))
  \/ (exists i, 0 <= i < N /\ let i' := (i + 1) mod N in
     ((v = i /\ n = N + i /\ p = i') \/ (v = N + i /\ n = i' /\ p = i) \/ (v = i' /\ n = i /\ p = N + i)) \/
     ((v = N + i /\ n = N + i' /\ p = i') \/ (v = N + i' /\ n = i' /\ p = N + i) \/ (v = i' /\ n = N + i /\ p = N + i'))).
Proof.
  rewrite links_In. split.
  - intros [f [Hf H]]. apply cyl_face_In in Hf as [[Hc [i [Hi Hf]]]|[i [Hi Hf]]]; [left; split; auto | right];
      exists i; (split; [exact Hi|]); cbv zeta; unfold ccap, cside in Hf; cbv zeta in Hf; cbn [In] in Hf;
      split_or Hf; subst f; [left | right | left | right]; apply tri_corner; exact H.
  - intros [[Hc [i [Hi H]]]|[i [Hi H]]]; cbv zeta in H; destruct H as [H|H].
    + exists [i; (i + 1) mod N; 2 * N]. split; [|apply tri_corner; exact H].
      apply cyl_face_In. left. split; [exact Hc|]. exists i. split; [exact Hi|]. unfold ccap. cbv zeta. left. reflexivity.
    + exists [i + N; 2 * N + 1; (i + 1) mod N + N]. split; [|apply tri_corner; exact H].
      apply cyl_face_In. left. split; [exact Hc|]. exists i. split; [exact Hi|]. unfold ccap. cbv zeta. right. left. reflexivity.
    + exists [i; N + i; (i + 1) mod N]. split; [|apply tri_corner; exact H].
      apply cyl_face_In. right. exists i. split; [exact Hi|]. unfold cside. cbv zeta. left. reflexivity.
    + exists [N + i; N + (i + 1) mod N; (i + 1) mod N]. split; [|apply tri_corner; exact H].
      apply cyl_face_In. right. exists i. split; [exact Hi|]. unfold cside. cbv zeta. right. left. reflexivity.
Qed.

Lemma pr_cases n i : 0 <= i < n -> (pr n i = i - 1 /\ 0 < i) \/ (pr n i = n - 1 /\ i = 0).
Proof. unfold pr. destruct (i =? 0) eqn:E; lia. Qed.

(* a witness cell k for a corner: evaluate its wrapped successor, then find the matching pattern *)
Ltac cyl_wit N k :=
  exists k; split; [lia|]; cbv zeta;
  let E := fresh "E" in let L := fresh "L" in
  destruct (mod_succ_cases k N ltac:(lia)) as [[E L]|[E L]]; rewrite ?E;
  first [exfalso; lia | pick_disj ltac:(repeat split; lia)].
Ltac cyl_wits N i0 :=
  first [cyl_wit N i0 | cyl_wit N (i0 - 1) | cyl_wit N (N - 1) | cyl_wit N (i0 + 1) | cyl_wit N 0].

Definition cyl_ring_bottom (N : Z) (c : bool) (i0 : Z) : list (Z * Z) :=
  let ni := (i0 + 1) mod N in let pi := pr N i0 in
  [(pi, N + pi); (N + pi, N + i0); (N + i0, ni)] ++ (if c then [(ni, 2 * N); (2 * N, pi)] else []).
Definition cyl_ring_top (N : Z) (c : bool) (i0 : Z) : list (Z * Z) :=
  let ni := (i0 + 1) mod N in let pi := pr N i0 in
  [(N + ni, ni); (ni, i0); (i0, N + pi)] ++ (if c then [(pi + N, 2 * N + 1); (2 * N + 1, ni + N)] else []).

Lemma cyl_vertex_manifold N c : 3 <= N -> vertex_manifold (cylinder_nverts N c) (cylinder_faces N c).
Proof.
  intros HN. rewrite cyl_nverts by lia. intros v Hv.
  destruct (Z_lt_le_dec v N) as [L1|L1]; [|destruct (Z_lt_le_dec v (2 * N)) as [L2|L2]].
  - (* bottom rim vertex *)
    apply (one_fan_intro _ _ (cyl_ring_bottom N c v)); [apply cyl_oriented_manifold; auto | | |];
      unfold cyl_ring_bottom; cbv zeta;
      destruct (mod_succ_cases v N ltac:(lia)) as [[Ei Li]|[Ei Li]]; rewrite Ei;
      destruct (pr_cases N v ltac:(lia)) as [[Pi Qi]|[Pi Qi]]; rewrite Pi; try lia.
    1-3: destruct c; cbn [app]; repeat constructor; cbn [In]; intros Hin; split_or Hin; pinj Hin; lia.
    1-3: intros [n p]; rewrite cyl_links; split;
      [ intros H; destruct c; cbn [app In] in H; split_or H; pinj H; subst n p;
        first [left; split; [reflexivity|]; cyl_wits N v | right; cyl_wits N v]
      | intros [[Hc [i [Hi H]]]|[i [Hi H]]]; cbv zeta in H;
        destruct (mod_succ_cases i N Hi) as [[E L]|[E L]]; rewrite E in H;
        split_or H; destruct H as [E1 [-> ->]]; try lia; subst; cbn [app In];
        first [lia | pick_disj ltac:(f_equal; lia)] ].
    1-3: destruct c; cbn [app chained fst snd]; repeat split; lia.
  - (* top rim vertex N + i0 *)
    set (i0 := v - N). assert (Hi0 : 0 <= i0 < N) by (subst i0; lia). replace v with (N + i0) by (subst i0; lia). clearbody i0.
    apply (one_fan_intro _ _ (cyl_ring_top N c i0)); [apply cyl_oriented_manifold; auto | | |];
      unfold cyl_ring_top; cbv zeta;
      destruct (mod_succ_cases i0 N ltac:(lia)) as [[Ei Li]|[Ei Li]]; rewrite Ei;
      destruct (pr_cases N i0 ltac:(lia)) as [[Pi Qi]|[Pi Qi]]; rewrite Pi; try lia.
    1-3: destruct c; cbn [app]; repeat constructor; cbn [In]; intros Hin; split_or Hin; pinj Hin; lia.
    1-3: intros [n p]; rewrite cyl_links; split;
      [ intros H; destruct c; cbn [app In] in H; split_or H; pinj H; subst n p;
        first [left; split; [reflexivity|]; cyl_wits N i0 | right; cyl_wits N i0]
      | intros [[Hc [i [Hi H]]]|[i [Hi H]]]; cbv zeta in H;
        destruct (mod_succ_cases i N Hi) as [[E L]|[E L]]; rewrite E in H;
        split_or H; destruct H as [E1 [-> ->]]; try lia; subst; cbn [app In];
        first [lia | pick_disj ltac:(f_equal; lia)] ].
    1-3: destruct c; cbn [app chained fst snd]; repeat split; lia.
  - (* the two cap centres *)
    destruct c; [|lia]. destruct (Z.eq_dec v (2 * N)) as [->|NE].
    + apply (one_fan_intro _ _ (map (fun k => (k, (k + 1) mod N)) (zrange N))); [apply cyl_oriented_manifold; auto | | |].
      * apply NoDup_pairs_fst. cbn [fst]. intros; lia.
      * intros [n p]. rewrite cyl_links, in_map_iff. split.
        -- intros [k [E Hk]]. apply In_zrange in Hk. pinj E. left. split; auto. exists k. split; auto. cbv zeta.
           left. right. right. lia.
        -- intros [[_ [i [Hi H]]]|[i [Hi H]]]; cbv zeta in H;
             pose proof (Z.mod_pos_bound (i + 1) N ltac:(lia));
             split_or H; destruct H as [E1 [-> ->]]; try lia.
           exists i. split; [reflexivity | apply In_zrange; lia].
      * apply chained_map_zrange. cbn [fst snd]. intros t Ht. rewrite Z.mod_small by lia. reflexivity.
    + assert (v = 2 * N + 1) by lia. subst v.
      apply (one_fan_intro _ _ (map (fun t => ((N - 1 - t + 1) mod N + N, N - 1 - t + N)) (zrange N)));
        [apply cyl_oriented_manifold; auto | | |].
      * apply NoDup_map_inj_in; [|apply NoDup_zrange]. intros x y Hx Hy E. apply In_zrange in Hx, Hy. pinj E. lia.
      * intros [n p]. rewrite cyl_links, in_map_iff. split.
        -- intros [t [E Ht]]. apply In_zrange in Ht. pinj E. left. split; auto. exists (N - 1 - t). split; [lia|]. cbv zeta.
           right. right. left. lia.
        -- intros [[_ [i [Hi H]]]|[i [Hi H]]]; cbv zeta in H;
             pose proof (Z.mod_pos_bound (i + 1) N ltac:(lia));
             split_or H; destruct H as [E1 [-> ->]]; try lia.
           exists (N - 1 - i). split; [|apply In_zrange; lia]. replace (N - 1 - (N - 1 - i)) with i by lia. reflexivity.
      * apply chained_map_zrange. cbn [fst snd]. intros t Ht.
        replace (N - 1 - (t + 1) + 1) with (N - 1 - t) by lia. rewrite Z.mod_small by lia. lia.
Qed.
