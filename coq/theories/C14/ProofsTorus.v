(* C14 - torus(major_segments = M, minor_segments = m, triangulate): all M, m >= 3. *)
From Coq Require Import ZArith List Bool Lia ZifyBool.
Import ListNotations.
Require Import MV.Lib.Base MV.C14.Model MV.C14.Gen MV.C14.ProofsLib.
Open Scope Z_scope.

Definition tcell (M m : Z) (t : bool) (i j : Z) : list (list Z) :=
  let i' := (i + 1) mod M in let j' := (j + 1) mod m in
  let v0 := i * m + j in let v1 := i * m + j' in let v2 := i' * m + j' in let v3 := i' * m + j in
  if t then [[v0; v1; v3]; [v1; v2; v3]] else [[v0; v1; v2; v3]].

Lemma torus_faces_eq M m t :
  torus_faces M m t = flat_map (fun i => flat_map (fun j => tcell M m t i j) (zrange m)) (zrange M).
Proof. unfold torus_faces, tcell. reflexivity. Qed.

Lemma torus_nverts_eq M m t : 0 <= M -> 0 <= m -> torus_nverts M m t = M * m.
Proof.
  intros HM Hm. unfold torus_nverts, torus_vsites.
  rewrite (zlen_flat_map_const _ _ m).
  - rewrite zlen_zrange by lia. lia.
  - intros i _. rewrite (zlen_flat_map_const _ _ 1); [rewrite zlen_zrange by lia; lia | reflexivity].
Qed.

Lemma torus_nfaces M m t : 0 <= M -> 0 <= m ->
  zlen (torus_faces M m t) = (if t then 2 else 1) * (M * m).
Proof.
  intros HM Hm. rewrite torus_faces_eq.
  rewrite (zlen_flat_map_const _ _ ((if t then 2 else 1) * m)).
  - rewrite zlen_zrange by lia. lia.
  - intros i _. rewrite (zlen_flat_map_const _ _ (if t then 2 else 1)).
    + rewrite zlen_zrange by lia. lia.
    + intros j _. unfold tcell. cbv zeta. destruct t; reflexivity.
Qed.

Lemma torus_face_In M m t f :
  In f (torus_faces M m t) <-> exists i j, 0 <= i < M /\ 0 <= j < m /\ In f (tcell M m t i j).
Proof.
  rewrite torus_faces_eq, in_flat_map. split.
  - intros [i [Hi H]]. apply In_zrange in Hi. apply in_flat_map in H as [j [Hj H]]. apply In_zrange in Hj.
    exists i, j. auto.
  - intros [i [j [Hi [Hj H]]]]. exists i. split; [apply In_zrange; lia|].
    apply in_flat_map. exists j. split; [apply In_zrange; lia | exact H].
Qed.

Lemma torus_dedge_In M m t e :
  In e (dedges (torus_faces M m t)) <-> exists i j, 0 <= i < M /\ 0 <= j < m /\ In e (dedges (tcell M m t i j)).
Proof.
  rewrite In_dedges. split.
  - intros [f [Hf He]]. apply torus_face_In in Hf as [i [j [Hi [Hj Hf]]]]. exists i, j. split; auto. split; auto.
    apply In_dedges. exists f. auto.
  - intros [i [j [Hi [Hj He]]]]. apply In_dedges in He as [f [Hf He]]. exists f. split; auto.
    apply torus_face_In. exists i, j. auto.
Qed.

(* unfold a cell, replacing the two wrapped successors by their case analysis *)
Ltac tcell_cases M m i j :=
  unfold tcell in *; cbv zeta in *;
  let Ei := fresh "Ei" in let Li := fresh "Li" in let Ej := fresh "Ej" in let Lj := fresh "Lj" in
  destruct (mod_succ_cases i M ltac:(lia)) as [[Ei Li]|[Ei Li]];
  destruct (mod_succ_cases j m ltac:(lia)) as [[Ej Lj]|[Ej Lj]];
  rewrite ?Ei, ?Ej in *.

Lemma torus_in_range M m t : 3 <= M -> 3 <= m -> in_range (torus_nverts M m t) (torus_faces M m t).
Proof.
  intros HM Hm. rewrite torus_nverts_eq by lia. apply Forall_forall. intros f Hf.
  apply torus_face_In in Hf as [i [j [Hi [Hj Hf]]]]. apply Forall_forall. intros v Hv.
  tcell_cases M m i j; destruct t; simpl in Hf; split_or Hf; subst f; simpl in Hv; split_or Hv; subst v; nia.
Qed.

Lemma torus_all_used M m t : 3 <= M -> 3 <= m -> all_used (torus_nverts M m t) (torus_faces M m t).
Proof.
  intros HM Hm. rewrite torus_nverts_eq by lia. intros v Hv.
  set (i := v / m). set (j := v mod m).
  assert (Hij : v = i * m + j /\ 0 <= j < m /\ 0 <= i < M).
  { subst i j. pose proof (Z.div_mod v m ltac:(lia)). pose proof (Z.mod_pos_bound v m ltac:(lia)).
    split; [lia|]. split; [lia|]. split; [apply Z.div_pos; lia | apply Z.div_lt_upper_bound; lia]. }
  destruct Hij as [Ev [Hj Hi]]. clearbody i j.
  (* v is the first corner of the first face of cell (i,j) *)
  assert (Hc : exists f, In f (tcell M m t i j) /\ In v f).
  { unfold tcell. cbv zeta. destruct t; eexists; (split; [left; reflexivity|]); left; lia. }
  destruct Hc as [f [Hf Hvf]]. exists f. split; auto. apply torus_face_In. exists i, j. auto.
Qed.

Lemma torus_faces_simple M m t : 3 <= M -> 3 <= m -> faces_simple (torus_faces M m t).
Proof.
  intros HM Hm. apply Forall_forall. intros f Hf.
  apply torus_face_In in Hf as [i [j [Hi [Hj Hf]]]].
  tcell_cases M m i j; destruct t; simpl in Hf; split_or Hf; subst f;
    (split; [simpl; lia|]); repeat constructor; simpl; nia.
Qed.

(* ------------------------------------------------------------------ oriented manifold *)
Lemma tcell_edges_inj M m t i j i' j' e : 3 <= M -> 3 <= m ->
  0 <= i < M -> 0 <= j < m -> 0 <= i' < M -> 0 <= j' < m ->
  In e (dedges (tcell M m t i j)) -> In e (dedges (tcell M m t i' j')) -> i = i' /\ j = j'.
Proof.
  intros HM Hm Hi Hj Hi' Hj' H H'.
  unfold tcell in *; cbv zeta in *.
  destruct (mod_succ_cases i M ltac:(lia)) as [[Ei Li]|[Ei Li]];
  destruct (mod_succ_cases j m ltac:(lia)) as [[Ej Lj]|[Ej Lj]];
  destruct (mod_succ_cases i' M ltac:(lia)) as [[Ei' Li']|[Ei' Li']];
  destruct (mod_succ_cases j' m ltac:(lia)) as [[Ej' Lj']|[Ej' Lj']];
  rewrite ?Ei, ?Ej, ?Ei', ?Ej' in *;
  destruct t; simpl in H, H'; split_or H; subst e; split_or H'; injection H'; intros;
  first [lia | (assert (i = i') by nia; subst; lia) | nia | rm_solve].
Qed.

Lemma tcell_edges_NoDup M m t i j : 3 <= M -> 3 <= m -> 0 <= i < M -> 0 <= j < m ->
  NoDup (dedges (tcell M m t i j)).
Proof.
  intros HM Hm Hi Hj.
  tcell_cases M m i j; destruct t; simpl; repeat constructor; simpl; intros H; split_or H; injection H; intros; nia.
Qed.

Lemma torus_dedges_eq M m t :
  dedges (torus_faces M m t) =
  flat_map (fun i => flat_map (fun j => dedges (tcell M m t i j)) (zrange m)) (zrange M).
Proof.
  rewrite torus_faces_eq, dedges_flat_map. apply flat_map_ext_in. intros. apply dedges_flat_map.
Qed.

Lemma torus_oriented_manifold M m t : 3 <= M -> 3 <= m -> oriented_manifold (torus_faces M m t).
Proof.
  intros HM Hm. unfold oriented_manifold. rewrite torus_dedges_eq.
  apply NoDup_flat_map; [apply NoDup_zrange | |].
  - intros i Hi. apply In_zrange in Hi. apply NoDup_flat_map; [apply NoDup_zrange | |].
    + intros j Hj. apply In_zrange in Hj. apply tcell_edges_NoDup; lia.
    + intros j j' e Hj Hj' Hne H H'. apply In_zrange in Hj, Hj'.
      destruct (tcell_edges_inj M m t i j i j' e); auto; lia.
  - intros i i' e Hi Hi' Hne H H'. apply In_zrange in Hi, Hi'.
    apply in_flat_map in H as [j [Hj H]]. apply in_flat_map in H' as [j' [Hj' H']].
    apply In_zrange in Hj, Hj'.
    destruct (tcell_edges_inj M m t i j i' j' e); auto; lia.
Qed.

(* ------------------------------------------------------------------ closed: every half-edge has its twin *)
Definition tv (m i j : Z) : Z := i * m + j.

(* the four sides of cell (i,j) and the diagonal, with wrapped successors i', j' *)
Lemma tcell_edges M m t i j e : In e (dedges (tcell M m t i j)) ->
  let i' := (i + 1) mod M in let j' := (j + 1) mod m in
  e = (tv m i j, tv m i j') \/ e = (tv m i j', tv m i' j') \/ e = (tv m i' j', tv m i' j) \/ e = (tv m i' j, tv m i j)
  \/ (t = true /\ (e = (tv m i j', tv m i' j) \/ e = (tv m i' j, tv m i j'))).
Proof.
  unfold tcell, tv. cbv zeta. destruct t; simpl; intros H; split_or H; subst e; tauto.
Qed.

Lemma tcell_has M m t i j :
  let i' := (i + 1) mod M in let j' := (j + 1) mod m in
  In (tv m i j, tv m i j') (dedges (tcell M m t i j)) /\
  In (tv m i j', tv m i' j') (dedges (tcell M m t i j)) /\
  In (tv m i' j', tv m i' j) (dedges (tcell M m t i j)) /\
  In (tv m i' j, tv m i j) (dedges (tcell M m t i j)) /\
  (t = true -> In (tv m i j', tv m i' j) (dedges (tcell M m t i j)) /\ In (tv m i' j, tv m i j') (dedges (tcell M m t i j))).
Proof.
  unfold tcell, tv. cbv zeta. destruct t; simpl; repeat split; try discriminate; tauto.
Qed.

(* predecessor on the cycle 0..n-1 *)
Definition pr (n i : Z) : Z := if i =? 0 then n - 1 else i - 1.
Lemma pr_range n i : 0 <= i < n -> 0 <= pr n i < n.
Proof. unfold pr. destruct (i =? 0) eqn:E; lia. Qed.
Lemma succ_pr n i : 0 <= i < n -> (pr n i + 1) mod n = i.
Proof.
  intros H. unfold pr. destruct (i =? 0) eqn:E.
  - replace (n - 1 + 1) with n by lia. rewrite Z.mod_same by lia. lia.
  - replace (i - 1 + 1) with i by lia. apply Z.mod_small. lia.
Qed.

Lemma torus_closed M m t : 3 <= M -> 3 <= m -> closed (torus_faces M m t).
Proof.
  intros HM Hm a b H. apply torus_dedge_In in H as [i [j [Hi [Hj H]]]].
  assert (Hi' : 0 <= (i + 1) mod M < M) by (apply Z.mod_pos_bound; lia).
  assert (Hj' : 0 <= (j + 1) mod m < m) by (apply Z.mod_pos_bound; lia).
  apply tcell_edges in H. cbv zeta in H.
  destruct H as [H|[H|[H|[H|[Ht [H|H]]]]]]; injection H as -> ->; apply torus_dedge_In.
  - (* twin of side 0 is side 2 of the cell above *)
    exists (pr M i), j. split; [apply pr_range; lia|]. split; [lia|].
    pose proof (tcell_has M m t (pr M i) j) as T. cbv zeta in T. rewrite succ_pr in T by lia. apply T.
  - exists i, ((j + 1) mod m). split; [lia|]. split; [lia|].
    pose proof (tcell_has M m t i ((j + 1) mod m)) as T. cbv zeta in T. apply T.
  - exists ((i + 1) mod M), j. split; [lia|]. split; [lia|].
    pose proof (tcell_has M m t ((i + 1) mod M) j) as T. cbv zeta in T. apply T.
  - exists i, (pr m j). split; [lia|]. split; [apply pr_range; lia|].
    pose proof (tcell_has M m t i (pr m j)) as T. cbv zeta in T. rewrite succ_pr in T by lia. apply T.
  - exists i, j. split; [lia|]. split; [lia|].
    pose proof (tcell_has M m t i j) as T. cbv zeta in T. apply T. exact Ht.
  - exists i, j. split; [lia|]. split; [lia|].
    pose proof (tcell_has M m t i j) as T. cbv zeta in T. apply T. exact Ht.
Qed.

(* ------------------------------------------------------------------ connected *)
Lemma torus_connected M m t : 3 <= M -> 3 <= m -> connected (torus_nverts M m t) (torus_faces M m t).
Proof.
  intros HM Hm. rewrite torus_nverts_eq by lia. apply connected_by_descent. intros v Hv.
  set (i := v / m). set (j := v mod m).
  assert (Hij : v = i * m + j /\ 0 <= j < m /\ 0 <= i < M).
  { subst i j. pose proof (Z.div_mod v m ltac:(lia)). pose proof (Z.mod_pos_bound v m ltac:(lia)).
    split; [lia|]. split; [lia|]. split; [apply Z.div_pos; lia | apply Z.div_lt_upper_bound; lia]. }
  destruct Hij as [Ev [Hj Hi]]. clearbody i j. unfold adjacent.
  destruct (Z_lt_le_dec 0 j) as [Lj|Lj].
  - exists (v - 1). split; [lia|]. left. apply torus_dedge_In. exists i, (j - 1). split; [lia|]. split; [lia|].
    pose proof (tcell_has M m t i (j - 1)) as T. cbv zeta in T.
    replace ((j - 1 + 1) mod m) with j in T by (replace (j - 1 + 1) with j by lia; symmetry; apply Z.mod_small; lia).
    destruct T as [T _]. unfold tv in T. replace (v - 1) with (i * m + (j - 1)) by lia. rewrite Ev. exact T.
  - assert (j = 0) by lia. subst j. assert (0 < i) by nia.
    exists (v - m). split; [nia|]. right. apply torus_dedge_In. exists (i - 1), 0. split; [lia|]. split; [lia|].
    pose proof (tcell_has M m t (i - 1) 0) as T. cbv zeta in T.
    replace ((i - 1 + 1) mod M) with i in T by (replace (i - 1 + 1) with i by lia; symmetry; apply Z.mod_small; lia).
    destruct T as [_ [_ [_ [T _]]]]. unfold tv in T. replace (v - m) with ((i - 1) * m + 0) by lia. rewrite Ev. exact T.
Qed.

(* ------------------------------------------------------------------ Euler characteristic 0 *)
Lemma torus_euler M m t : 3 <= M -> 3 <= m -> euler (torus_nverts M m t) (torus_faces M m t) = 0.
Proof.
  intros HM Hm. unfold euler.
  pose proof (euler_formula _ (torus_oriented_manifold M m t HM Hm) (torus_faces_simple M m t HM Hm)) as HE.
  rewrite (closed_border_nil _ (torus_closed M m t HM Hm)) in HE.
  rewrite (zlen_dedges_const _ (if t then 3 else 4)) in HE.
  2:{ intros f Hf. apply torus_face_In in Hf as [i [j [_ [_ Hf]]]].
      unfold tcell in Hf. cbv zeta in Hf. destruct t; simpl in Hf; split_or Hf; subst f; reflexivity. }
  rewrite torus_nverts_eq by lia. rewrite torus_nfaces in * by lia.
  change (zlen (@nil (Z * Z))) with 0 in HE. destruct t; nia.
Qed.

(* ------------------------------------------------------------------ vertex umbrellas *)
Require Import MV.C14.ProofsFan.

Lemma torus_links M m t v n p :
  In (n, p) (links (torus_faces M m t) v) <->
  exists i j, 0 <= i < M /\ 0 <= j < m /\
    let i' := (i + 1) mod M in let j' := (j + 1) mod m in
    let a := tv m i j in let b := tv m i j' in let c := tv m i' j' in let d := tv m i' j in
    if t then ((v = a /\ n = b /\ p = d) \/ (v = b /\ n = d /\ p = a) \/ (v = d /\ n = a /\ p = b))
              \/ ((v = b /\ n = c /\ p = d) \/ (v = c /\ n = d /\ p = b) \/ (v = d /\ n = b /\ p = c))
    else (v = a /\ n = b /\ p = d) \/ (v = b /\ n = c /\ p = a) \/ (v = c /\ n = d /\ p = b) \/ (v = d /\ n = a /\ p = c).
Proof.
  rewrite links_In. split.
  - intros [f [Hf H]]. apply torus_face_In in Hf as [i [j [Hi [Hj Hf]]]]. exists i, j. split; auto. split; auto.
    cbv zeta. unfold tcell in Hf. cbv zeta in Hf. unfold tv. destruct t; cbn [In] in Hf; split_or Hf; subst f.
    + left. apply tri_corner. exact H.
    + right. apply tri_corner. exact H.
    + apply quad_corner. exact H.
  - intros [i [j [Hi [Hj H]]]]. cbv zeta in H. unfold tv in H. destruct t.
    + destruct H as [H|H]; eexists; (split; [apply torus_face_In; exists i, j; split; [exact Hi|]; split; [exact Hj|];
        unfold tcell; cbv zeta; cbn [In] | apply tri_corner; exact H]); [left | right; left]; reflexivity.
    + eexists. split; [apply torus_face_In; exists i, j; split; [exact Hi|]; split; [exact Hj|];
        unfold tcell; cbv zeta; left; reflexivity | apply quad_corner; exact H].
Qed.

Definition torus_ring (M m : Z) (t : bool) (i0 j0 : Z) : list (Z * Z) :=
  let ni := (i0 + 1) mod M in let nj := (j0 + 1) mod m in let pi := pr M i0 in let pj := pr m j0 in
  [(tv m i0 nj, tv m ni j0)]
  ++ (if t then [(tv m ni j0, tv m ni pj); (tv m ni pj, tv m i0 pj)] else [(tv m ni j0, tv m i0 pj)])
  ++ [(tv m i0 pj, tv m pi j0)]
  ++ (if t then [(tv m pi j0, tv m pi nj); (tv m pi nj, tv m i0 nj)] else [(tv m pi j0, tv m i0 nj)]).

Lemma pr_cases n i : 0 <= i < n -> (pr n i = i - 1 /\ 0 < i) \/ (pr n i = n - 1 /\ i = 0).
Proof. unfold pr. destruct (i =? 0) eqn:E; lia. Qed.

Lemma torus_vertex_manifold M m t : 3 <= M -> 3 <= m -> vertex_manifold (torus_nverts M m t) (torus_faces M m t).
Proof.
  intros HM Hm. rewrite torus_nverts_eq by lia. intros v Hv.
  set (i0 := v / m). set (j0 := v mod m).
  assert (Hij : v = tv m i0 j0 /\ 0 <= j0 < m /\ 0 <= i0 < M).
  { subst i0 j0. pose proof (Z.div_mod v m ltac:(lia)). pose proof (Z.mod_pos_bound v m ltac:(lia)). unfold tv.
    split; [lia|]. split; [lia|]. split; [apply Z.div_pos; lia | apply Z.div_lt_upper_bound; lia]. }
  destruct Hij as [Ev [Hj0 Hi0]]. clearbody i0 j0. subst v.
  apply (one_fan_intro _ _ (torus_ring M m t i0 j0)); [apply torus_oriented_manifold; auto | | |].
  - unfold torus_ring, tv. cbv zeta.
    destruct (mod_succ_cases i0 M Hi0) as [[Ei Li]|[Ei Li]]; rewrite Ei;
    destruct (mod_succ_cases j0 m Hj0) as [[Ej Lj]|[Ej Lj]]; rewrite Ej;
    destruct (pr_cases M i0 Hi0) as [[Pi Qi]|[Pi Qi]]; rewrite Pi;
    destruct (pr_cases m j0 Hj0) as [[Pj Qj]|[Pj Qj]]; rewrite Pj;
    destruct t; cbn [app]; repeat constructor; cbn [In]; intros Hin; split_or Hin; pinj Hin;
      first [lia | nia | rm_solve].
  - intros [n p]. rewrite torus_links. unfold torus_ring. cbv zeta. split.
    + (* each corner of the ring is a corner of one of the four cells around the vertex *)
      intros H. rewrite !in_app_iff in H. destruct H as [H|[H|[H|H]]].
      * destruct H as [H|[]]. pinj H. subst. exists i0, j0. split; [lia|]. split; [lia|]. cbv zeta.
        destruct t; [left; left; auto | left; auto].
      * exists i0, (pr m j0). split; [lia|]. split; [apply pr_range; lia|]. cbv zeta. rewrite succ_pr by lia.
        destruct t; cbn [In] in H; split_or H; pinj H; subst.
        -- right. left. auto.
        -- left. right. left. auto.
        -- right. left. auto.
      * destruct H as [H|[]]. pinj H. subst. exists (pr M i0), (pr m j0). split; [apply pr_range; lia|]. split; [apply pr_range; lia|].
        cbv zeta. rewrite !succ_pr by lia. destruct t; [right; right; left; auto | right; right; left; auto].
      * exists (pr M i0), j0. split; [apply pr_range; lia|]. split; [lia|]. cbv zeta. rewrite succ_pr by lia.
        destruct t; cbn [In] in H; split_or H; pinj H; subst.
        -- left. right. right. auto.
        -- right. right. right. auto.
        -- right. right. right. auto.
    + (* conversely every corner at the vertex comes from one of those four cells *)
      intros [i [j [Hi [Hj H]]]]. cbv zeta in H. unfold tv in *.
      destruct (mod_succ_cases i M Hi) as [[Ei Li]|[Ei Li]]; rewrite Ei in H;
      destruct (mod_succ_cases j m Hj) as [[Ej Lj]|[Ej Lj]]; rewrite Ej in H;
      destruct (mod_succ_cases i0 M Hi0) as [[Ei0 Li0]|[Ei0 Li0]]; rewrite Ei0;
      destruct (mod_succ_cases j0 m Hj0) as [[Ej0 Lj0]|[Ej0 Lj0]]; rewrite Ej0;
      destruct (pr_cases M i0 Hi0) as [[Pi Qi]|[Pi Qi]]; rewrite Pi;
      destruct (pr_cases m j0 Hj0) as [[Pj Qj]|[Pj Qj]]; rewrite Pj;
      destruct t; split_or H; destruct H as [E [-> ->]]; apply rowmajor_inj in E; try lia; destruct E as [E1 E2];
      try lia; subst; cbn [app In]; first [lia | pick_by ltac:(f_equal; lia)].
  - unfold torus_ring. cbv zeta. destruct t; cbn [app chained fst snd]; repeat split; reflexivity.
Qed.
