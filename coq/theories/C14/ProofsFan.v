(* C14 - vertex umbrellas: generic lemmas.  links F v lists the corners at v as (next, previous) pairs; the vertex
   is manifold when these can be ordered into one chain (Model.one_fan).  Here: the corners of an explicit
   triangle / quad, duplicate-freeness of links in an oriented manifold, and the introduction rule used by
   the per-generator proofs (an explicit ring with the same elements as links, chained). *)
From Coq Require Import ZArith List Bool Lia ZifyBool Permutation.
Import ListNotations.
Require Import MV.Lib.Base MV.C14.Model MV.C14.ProofsLib.
Open Scope Z_scope.

(* ------------------------------------------------------------------ corners of explicit faces *)
Lemma tri_corner v a b c n p :
  In (n, p) (face_corners_at v [a; b; c]) <->
  (v = a /\ n = b /\ p = c) \/ (v = b /\ n = c /\ p = a) \/ (v = c /\ n = a /\ p = b).
Proof.
  unfold face_corners_at. cbn [fedges combine app corners_at].
  destruct (b =? v) eqn:Eb, (c =? v) eqn:Ec, (a =? v) eqn:Ea; cbn [andb app In];
    (split; [intros H; split_or H; pinj H; subst; lia | intros H; split_or H; destruct H as [? [? ?]]; subst; try lia; auto 6]).
Qed.

Lemma quad_corner v a b c d n p :
  In (n, p) (face_corners_at v [a; b; c; d]) <->
  (v = a /\ n = b /\ p = d) \/ (v = b /\ n = c /\ p = a) \/ (v = c /\ n = d /\ p = b) \/ (v = d /\ n = a /\ p = c).
Proof.
  unfold face_corners_at. cbn [fedges combine app corners_at].
  destruct (b =? v) eqn:Eb, (c =? v) eqn:Ec, (d =? v) eqn:Ed, (a =? v) eqn:Ea; cbn [andb app In];
    (split; [intros H; split_or H; pinj H; subst; lia | intros H; split_or H; destruct H as [? [? ?]]; subst; try lia; auto 8]).
Qed.

Lemma links_In F v x : In x (links F v) <-> exists f, In f F /\ In x (face_corners_at v f).
Proof. unfold links. apply in_flat_map. Qed.

(* ------------------------------------------------------------------ links has no duplicates in an oriented manifold *)
Lemma chained_combine (l : list Z) y z : l <> [] -> chained (combine l (tl l ++ [y]) ++ [(y, z)]).
Proof.
  induction l as [|a l IH]; intros Hne; [congruence|]. destruct l as [|b t].
  - simpl. auto.
  - cbn [tl]. change (combine (a :: b :: t) ((b :: t) ++ [y])) with ((a, b) :: combine (b :: t) (t ++ [y])).
    specialize (IH ltac:(discriminate)). cbn [tl] in IH.
    destruct (combine (b :: t) (t ++ [y])) as [|e es] eqn:E.
    + destruct t; simpl in E; discriminate.
    + assert (fst e = b) by (destruct t; simpl in E; inversion E; reflexivity).
      cbn [app]. cbn [app] in IH. split; [cbn [snd]; lia | exact IH].
Qed.

Lemma corners_at_map v : forall l a, chained (a :: l) ->
  map (fun np => (v, fst np)) (corners_at v (a :: l)) = filter (fun e => fst e =? v) l.
Proof.
  induction l as [|b t IH]; intros [p x] H; [reflexivity|]. destruct b as [y n].
  destruct H as [H1 H2]. cbn [fst snd] in H1. subst y.
  change (corners_at v ((p, x) :: (x, n) :: t)) with
    ((if (x =? v) && (x =? v) then [(n, p)] else []) ++ corners_at v ((x, n) :: t)).
  rewrite map_app, IH by exact H2. cbn [filter fst].
  destruct (x =? v) eqn:E; cbn [andb map app fst]; [|reflexivity].
  replace x with v by lia. reflexivity.
Qed.

Lemma face_links_map v f :
  map (fun np => (v, fst np)) (face_corners_at v f) =
  match fedges f with [] => [] | e :: t => filter (fun e => fst e =? v) (t ++ [e]) end.
Proof.
  unfold face_corners_at. destruct f as [|a t]; [reflexivity|].
  change (fedges (a :: t)) with (combine (a :: t) (t ++ [a])).
  destruct (combine (a :: t) (t ++ [a])) as [|e es] eqn:E; [reflexivity|].
  cbn [app]. apply corners_at_map.
  assert (He : exists z, e = (a, z)) by (destruct t; simpl in E; inversion E; eauto).
  destruct He as [z ->].
  pose proof (chained_combine (a :: t) a z ltac:(discriminate)) as H. cbn [tl] in H. rewrite E in H. exact H.
Qed.

Lemma NoDup_rot_filter {A} (P : A -> bool) (e : A) t : NoDup (e :: t) -> NoDup (filter P (t ++ [e])).
Proof.
  intros H. apply NoDup_filter. inversion H; subst. apply NoDup_app_intro; auto.
  - repeat constructor. intros [].
  - intros x Hx [<-|[]]. contradiction.
Qed.

Lemma links_NoDup F v : oriented_manifold F -> NoDup (links F v).
Proof.
  intros HN. apply (NoDup_map_inv (fun np => (v, fst np))).
  unfold links, oriented_manifold in *. induction F as [|f F IH]; [constructor|].
  cbn [flat_map]. rewrite map_app, face_links_map. rewrite dedges_cons in HN.
  apply NoDup_app_inv in HN as [H1 [H2 H3]].
  apply NoDup_app_intro.
  - destruct (fedges f) as [|e t]; [constructor|]. apply NoDup_rot_filter. exact H1.
  - apply IH. exact H2.
  - intros x Hx Hy. apply (H3 x).
    + destruct (fedges f) as [|e t]; [destruct Hx|]. apply filter_In in Hx as [Hx _].
      apply in_app_iff in Hx as [Hx|[<-|[]]]; simpl; auto.
    + (* x comes from a later face *)
      clear - Hy. induction F as [|g F IHF]; [destruct Hy|].
      cbn [flat_map] in Hy. rewrite map_app, face_links_map in Hy. rewrite dedges_cons.
      apply in_app_iff in Hy as [Hy|Hy]; apply in_app_iff; [left|right; auto].
      destruct (fedges g) as [|e t]; [destruct Hy|]. apply filter_In in Hy as [Hy _].
      apply in_app_iff in Hy as [Hy|[<-|[]]]; simpl; auto.
Qed.

(* ------------------------------------------------------------------ introduction rule *)
Lemma one_fan_intro F v r : oriented_manifold F -> NoDup r -> (forall x, In x r <-> In x (links F v)) -> chained r ->
  one_fan F v.
Proof.
  intros HN Hr Hs Hc. exists r. split; auto. apply NoDup_Permutation; auto. apply links_NoDup; auto.
Qed.

(* a ring given by positions 0..k-1 *)
Lemma chained_map_zrange (f : Z -> Z * Z) k :
  (forall t, 0 <= t < k - 1 -> snd (f t) = fst (f (t + 1))) -> chained (map f (zrange k)).
Proof.
  intros H. destruct (Z_lt_le_dec k 1) as [L|L]; [rewrite zrange_nonpos by lia; exact I|].
  revert H. replace k with (k - 1 + 1) by lia. assert (Hk : 0 <= k - 1) by lia. revert Hk. generalize (k - 1). clear.
  intros m Hm. pattern m. apply natlike_ind; [ | | exact Hm].
  - intros _. simpl. exact I.
  - intros x Hx IH H. unfold Z.succ. rewrite zrange_succ by lia. rewrite map_app.
    assert (IH' : chained (map f (zrange (x + 1)))) by (apply IH; intros t Ht; apply H; lia).
    assert (G : forall (l : list (Z * Z)) a b, chained (l ++ [a]) -> snd a = fst b -> chained ((l ++ [a]) ++ [b])).
    { induction l as [|h l IHl]; intros a b Hc Hab; [simpl; auto|].
      cbn [app] in *. specialize (IHl a b).
      destruct (l ++ [a]) as [|y0 rest] eqn:E; [destruct l; discriminate|].
      cbn [app]. destruct Hc as [H1 H2]. split; auto. }
    rewrite (zrange_succ x) in * by lia. rewrite map_app in *. cbn [map] in *.
    apply G; auto. replace (x + 1) with (x + 1) by lia. apply H. lia.
Qed.

Lemma NoDup_pairs_fst (f : Z -> Z * Z) k :
  (forall s t, 0 <= s < k -> 0 <= t < k -> fst (f s) = fst (f t) -> s = t) -> NoDup (map f (zrange k)).
Proof.
  intros H. apply NoDup_map_inj_in; [|apply NoDup_zrange].
  intros x y Hx Hy E. apply In_zrange in Hx, Hy. apply H; auto. rewrite E. reflexivity.
Qed.
