(* C14 - proofs about the generated generators (first batch: index ranges). *)
From Coq Require Import ZArith List Bool Lia ZifyBool.
Import ListNotations.
Require Import MV.Lib.Base MV.C14.Model MV.C14.Gen.
Open Scope Z_scope.
Ltac Zify.zify_post_hook ::= Z.to_euclidean_division_equations.

Lemma zlen_flat_map_const {A B} (f : A -> list B) (l : list A) k :
  (forall x, In x l -> zlen (f x) = k) -> zlen (flat_map f l) = k * zlen l.
Proof.
  unfold zlen. induction l as [|a l IH]; intros H; simpl.
  - lia.
  - rewrite app_length, Nat2Z.inj_add, IH by (intros; apply H; simpl; auto).
    rewrite (H a) by (simpl; auto). lia.
Qed.

Lemma zlen_zrange n : 0 <= n -> zlen (zrange n) = n.
Proof. intros. unfold zlen. rewrite zrange_length. lia. Qed.

Lemma torus_nverts_eq M m t : 0 <= M -> 0 <= m -> torus_nverts M m t = M * m.
Proof.
  intros HM Hm. unfold torus_nverts, torus_vsites.
  rewrite (zlen_flat_map_const _ _ m).
  - rewrite zlen_zrange by lia. lia.
  - intros i _. rewrite (zlen_flat_map_const _ _ 1).
    + rewrite zlen_zrange by lia. lia.
    + intros. reflexivity.
Qed.
