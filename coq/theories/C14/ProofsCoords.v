(* C14 - vertices lie on the named surface: the generated coordinate expressions instantiated with the
   real numbers (cos, sin, sqrt, PI are the functions of Coq's Reals). *)
From Coq Require Import ZArith List Bool Reals Lra Lia Nsatz.
Import ListNotations.
Require Import MV.Lib.Base MV.C14.Model MV.C14.Gen.
Open Scope R_scope.

Definition Rops : ops R :=
  mkops IZR Rplus Rminus Rmult Rdiv Ropp cos sin R_sqrt.sqrt PI (fun a b => if Rlt_dec a b then true else false).

Definition dist2 (p c : vec R) : R :=
  (vx p - vx c) * (vx p - vx c) + (vy p - vy c) * (vy p - vy c) + (vz p - vz c) * (vz p - vz c).

Lemma cs2 a : sin a * sin a + cos a * cos a = 1.
Proof. pose proof (sin2_cos2 a) as H. unfold Rsqr in H. exact H. Qed.

(* replace cos a, sin a by two unknowns c, s with s*s + c*c = 1 *)
Ltac abs_angle :=
  match goal with
  | |- context[cos ?a] =>
      let H := fresh "H" in pose proof (cs2 a) as H;
      let c := fresh "c" in let s := fresh "s" in
      set (c := cos a) in *; set (s := sin a) in *; clearbody c s
  end.

(* ------------------------------------------------------------------ sphere_uv: |p - center|^2 = radius^2, all parameters *)
Lemma sphere_uv_on_sphere n L (center : vec R) (radius : R) :
  Forall (fun p => dist2 p center = radius * radius) (sphere_uv_coords Rops n L center radius).
Proof.
  unfold sphere_uv_coords. destruct center as [[cx cy] cz].
  apply Forall_app. split; [|apply Forall_app; split].
  - repeat constructor. unfold dist2, vadd, vscale, vx, vy, vz. simpl. ring.
  - apply Forall_forall. intros p Hp. apply in_flat_map in Hp as [i [_ Hp]]. cbv zeta in Hp.
    apply in_flat_map in Hp as [j [_ Hp]]. cbv zeta in Hp. destruct Hp as [<-|[]].
    unfold dist2, vadd, vscale, vx, vy, vz. cbn [fst snd oadd omul osub ocos osin Rops].
    set (phi := odiv Rops _ _). set (theta := odiv Rops _ _).
    pose proof (cs2 phi) as H1. pose proof (cs2 theta) as H2.
    generalize dependent (sin phi). generalize dependent (cos phi).
    generalize dependent (sin theta). generalize dependent (cos theta). intros. nsatz.
  - repeat constructor. unfold dist2, vadd, vscale, vx, vy, vz. simpl. ring.
Qed.

(* ------------------------------------------------------------------ torus: the implicit equation
   (x^2 + y^2 + z^2 + R^2 - r^2)^2 = 4 R^2 (x^2 + y^2)   (for 0 < r < R this is (sqrt(x^2+y^2) - R)^2 + z^2 = r^2) *)
Definition on_torus (R0 r : R) (p : vec R) : Prop :=
  let x := vx p in let y := vy p in let z := vz p in
  (x * x + y * y + z * z + R0 * R0 - r * r) * (x * x + y * y + z * z + R0 * R0 - r * r) = 4 * (R0 * R0) * (x * x + y * y).

Lemma torus_on_torus M m (R0 r : R) t :
  Forall (on_torus R0 r) (torus_coords Rops M m R0 r t).
Proof.
  unfold torus_coords. apply Forall_forall. intros p Hp.
  apply in_flat_map in Hp as [i [_ Hp]]. apply in_flat_map in Hp as [j [_ Hp]]. cbv zeta in Hp.
  destruct Hp as [<-|[]]. unfold on_torus, vx, vy, vz. cbn [fst snd oadd omul osub ocos osin Rops].
  repeat abs_angle. nsatz.
Qed.

(* distance form, when the tube is thinner than the ring *)
Lemma on_torus_distance (R0 r : R) p : 0 < r < R0 -> on_torus R0 r p ->
  let d := R_sqrt.sqrt (vx p * vx p + vy p * vy p) in (d - R0) * (d - R0) + vz p * vz p = r * r \/
  (d + R0) * (d + R0) + vz p * vz p = r * r.
Proof.
  intros Hr H. cbv zeta. unfold on_torus in H. cbv zeta in H.
  set (x := vx p) in *. set (y := vy p) in *. set (z := vz p) in *.
  assert (Hs : 0 <= x * x + y * y) by nra.
  pose proof (sqrt_sqrt _ Hs) as Hd. set (d := R_sqrt.sqrt (x * x + y * y)) in *.
  assert (E : (d * d + z * z + R0 * R0 - r * r) * (d * d + z * z + R0 * R0 - r * r) = (2 * R0 * d) * (2 * R0 * d)).
  { replace ((2 * R0 * d) * (2 * R0 * d)) with (4 * (R0 * R0) * (d * d)) by ring. rewrite Hd. exact H. }
  assert (F : (d * d + z * z + R0 * R0 - r * r - 2 * R0 * d) * (d * d + z * z + R0 * R0 - r * r + 2 * R0 * d) = 0) by nra.
  apply Rmult_integral in F as [F|F]; [left|right]; nra.
Qed.

(* ------------------------------------------------------------------ icosahedron: |p - center| = radius *)
Lemma icosahedron_on_sphere (center : vec R) (radius : R) u :
  Forall (fun p => dist2 p center = radius * radius) (icosahedron_coords Rops center radius u).
Proof.
  unfold icosahedron_coords. cbv zeta. destruct center as [[cx cy] cz].
  set (phi := odiv Rops _ _).
  assert (Hpos : 0 < 1 + phi * phi) by nra.
  set (nrm := osqrt Rops (oadd Rops (oofZ Rops 1) (omul Rops phi phi))).
  assert (Hn : nrm * nrm = 1 + phi * phi).
  { unfold nrm. cbn [osqrt oadd omul oofZ Rops]. apply sqrt_sqrt. lra. }
  assert (Hn0 : nrm <> 0) by (intros E; rewrite E in Hn; lra).
  apply Forall_forall. intros p Hp. apply in_map_iff in Hp as [a [<- Ha]].
  unfold dist2, vadd, vdivs, vscale, vx, vy, vz. cbn [fst snd oadd omul osub odiv Rops].
  assert (Haa : fst (fst a) * fst (fst a) + snd (fst a) * snd (fst a) + snd a * snd a = 1 + phi * phi).
  { cbn [In] in Ha. cbn [oofZ oopp Rops] in Ha.
    repeat (destruct Ha as [<-|Ha]; [cbn [fst snd]; ring|]). destruct Ha. }
  destruct a as [[ax ay] az]. cbn [fst snd] in *. unfold Rdiv.
  assert (Hinv : / nrm * nrm = 1) by (field; auto).
  set (inv := / nrm) in *. clearbody inv. clear Ha Hpos Hn0. clearbody nrm. clearbody phi. nsatz.
Qed.

(* ------------------------------------------------------------------ unit_grid / unit_triangle: points of the unit square *)
Definition in_unit_square (p : vec R) : Prop := 0 <= vx p <= 1 /\ 0 <= vy p <= 1 /\ vz p = 0.

Lemma linspace01 n i : (2 <= n)%Z -> (0 <= i < n)%Z -> 0 <= linspace Rops (IZR 0) (IZR 1) n i <= 1.
Proof.
  intros Hn Hi. unfold linspace. cbn [oadd omul odiv osub oofZ Rops].
  assert (Hd : 0 < IZR (n - 1)) by (apply IZR_lt; lia).
  assert (H0 : 0 <= IZR i) by (apply IZR_le; lia).
  assert (H1 : IZR i <= IZR (n - 1)) by (apply IZR_le; lia).
  replace (0 + IZR i * ((1 - 0) / IZR (n - 1))) with (IZR i / IZR (n - 1)) by (field; lra).
  split.
  - apply Rmult_le_pos; [lra | left; apply Rinv_0_lt_compat; lra].
  - apply (Rmult_le_reg_r (IZR (n - 1))); [lra|]. unfold Rdiv. rewrite Rmult_assoc, Rinv_l by lra. lra.
Qed.
Lemma linspace10 n i : (2 <= n)%Z -> (0 <= i < n)%Z -> 0 <= linspace Rops (IZR 1) (IZR 0) n i <= 1.
Proof.
  intros Hn Hi. pose proof (linspace01 n i Hn Hi) as H. unfold linspace in *. cbn [oadd omul odiv osub oofZ Rops] in *.
  assert (Hd : 0 < IZR (n - 1)) by (apply IZR_lt; lia).
  replace (1 + IZR i * ((0 - 1) / IZR (n - 1))) with (1 - (0 + IZR i * ((1 - 0) / IZR (n - 1)))) by (field; lra).
  lra.
Qed.

Lemma unit_grid_in_square nu nv t u : (2 <= nu)%Z -> (2 <= nv)%Z ->
  Forall in_unit_square (unit_grid_coords Rops nu nv t u).
Proof.
  intros Hu Hv. unfold unit_grid_coords. apply Forall_forall. intros p Hp.
  apply in_flat_map in Hp as [i [Hi Hp]]. apply In_zrange in Hi. cbv zeta in Hp.
  apply in_flat_map in Hp as [j [Hj Hp]]. apply In_zrange in Hj. cbv zeta in Hp. destruct Hp as [<-|[]].
  unfold in_unit_square, vx, vy, vz. cbn [fst snd]. split; [apply linspace01; lia|]. split; [apply linspace01; lia|reflexivity].
Qed.

Lemma In_ztake_while_sub p l x : In x (ztake_while p l) -> In x l.
Proof.
  induction l as [|a l IH]; simpl; [tauto|]. destruct (p a); [|intros []]. intros [->|H]; auto.
Qed.

Lemma unit_triangle_in_square nu nv u : (2 <= nu)%Z -> (2 <= nv)%Z ->
  Forall in_unit_square (unit_triangle_coords Rops nu nv u).
Proof.
  intros Hu Hv. unfold unit_triangle_coords. apply Forall_forall. intros p Hp.
  apply in_flat_map in Hp as [j [Hj Hp]]. apply In_zrange in Hj. cbv zeta in Hp.
  apply in_flat_map in Hp as [i [Hi Hp]]. apply In_ztake_while_sub in Hi. apply In_zrange in Hi.
  cbv zeta in Hp. destruct Hp as [<-|[]].
  unfold in_unit_square, vx, vy, vz. cbn [fst snd]. split; [apply linspace01; lia|]. split; [apply linspace10; lia|reflexivity].
Qed.

(* ------------------------------------------------------------------ corners as requested *)
Lemma triangle_corners (P0 P1 P2 : vec R) : triangle_coords Rops P0 P1 P2 = [P0; P1; P2].
Proof. reflexivity. Qed.
Lemma tetrahedron_corners (P1 P2 P3 P4 : vec R) v : tetrahedron_coords Rops P1 P2 P3 P4 v = [P1; P2; P3; P4].
Proof. reflexivity. Qed.
Lemma hexahedron_corners (P1 P2 P3 P4 P5 P6 P7 P8 : vec R) c t v :
  hexahedron_coords Rops P1 P2 P3 P4 P5 P6 P7 P8 c t v = [P1; P2; P3; P4; P5; P6; P7; P8].
Proof. reflexivity. Qed.
(* quad: P0, P1, the deduced fourth point P1 + P2 - P0, P2 *)
Lemma quad_corners (P0 P1 P2 : vec R) t :
  quad_coords Rops P0 P1 P2 t = [P0; P1; vsub Rops (vadd Rops P2 P1) P0; P2].
Proof. reflexivity. Qed.
(* hexahedron_4pts: vertices 0, 1, 3, 4 are the four given points *)
Lemma hexahedron_4pts_corners (P1 P2 P3 P4 : vec R) c v :
  let X := hexahedron_4pts_coords Rops P1 P2 P3 P4 c v in
  List.nth 0 X P1 = P1 /\ List.nth 1 X P1 = P2 /\ List.nth 3 X P1 = P3 /\ List.nth 4 X P1 = P4 /\ length X = 8%nat.
Proof.
  destruct P1 as [[a1 b1] c1], P2 as [[a2 b2] c2], P3 as [[a3 b3] c3], P4 as [[a4 b4] c4].
  cbv zeta. unfold hexahedron_4pts_coords, hexahedron_coords. cbv zeta.
  unfold vadd, vsub, vx, vy, vz. cbn [List.nth fst snd oadd osub Rops length].
  repeat split; repeat f_equal; ring.
Qed.
Lemma cube_corners c t :
  axis_aligned_cube_coords Rops c t =
  [(-(1/2), -(1/2), -(1/2)); (1/2, -(1/2), -(1/2)); (1/2, 1/2, -(1/2)); (-(1/2), 1/2, -(1/2));
   (-(1/2), -(1/2), 1/2); (1/2, -(1/2), 1/2); (1/2, 1/2, 1/2); (-(1/2), 1/2, 1/2)].
Proof. reflexivity. Qed.

(* ------------------------------------------------------------------ ring: every vertex but the apex lies on the unit circle
   of the plane z = 0 (the apex, found by bisection and written over vertex 0 afterwards, is a parameter here) *)
Definition on_unit_circle (p : vec R) : Prop := vx p * vx p + vy p * vy p = 1 /\ vz p = 0.

Lemma ring_rim_on_circle N d o k (apex : vec R) :
  exists rim, ring_coords Rops N d o k apex = apex :: rim /\ Forall on_unit_circle rim.
Proof.
  unfold ring_coords. cbn [app]. unfold vset. cbn [Z.to_nat vset_nat]. eexists. split; [reflexivity|].
  assert (H1 : on_unit_circle (oofZ Rops 1, oofZ Rops 0, oofZ Rops 0)).
  { unfold on_unit_circle, vx, vy, vz. cbn. split; ring. }
  constructor; [exact H1|]. apply Forall_app. split.
  - apply Forall_forall. intros p Hp. apply in_flat_map in Hp as [i [_ Hp]]. destruct Hp as [<-|[]].
    unfold on_unit_circle, vx, vy, vz. cbn [fst snd ocos osin oofZ Rops]. split; [|reflexivity].
    pose proof (cs2 (odiv Rops (omul Rops (IZR (2 * i)) (opi Rops)) (IZR N))) as H. cbn [odiv omul opi Rops] in *. lra.
  - destruct o; constructor; [exact H1 | constructor].
Qed.

(* ------------------------------------------------------------------ cylinder *)
Definition dot3 (a b : vec R) : R := vx a * vx b + vy a * vy b + vz a * vz b.

Lemma vdot_R a b : vdot Rops a b = dot3 a b.
Proof. reflexivity. Qed.

(* normalising a non-zero vector gives a unit vector *)
Lemma vnormalized_unit_norm (a : vec R) : 0 < dot3 a a -> dot3 (vnormalized Rops a) (vnormalized Rops a) = 1.
Proof.
  intros H. destruct a as [[x y] z]. unfold vnormalized, vdivs, vnorm, vdot, dot3, vx, vy, vz in *. cbn [fst snd osqrt oadd omul odiv Rops] in *.
  set (q := x * x + y * y + z * z) in *. assert (Hs : R_sqrt.sqrt q * R_sqrt.sqrt q = q) by (apply sqrt_sqrt; lra).
  assert (Hn : R_sqrt.sqrt q <> 0) by (intros E; rewrite E in Hs; lra).
  set (n := R_sqrt.sqrt q) in *. unfold q in Hs.
  assert (Hi : / n * n = 1) by (field; auto). unfold Rdiv. set (inv := / n) in *. clearbody inv. clearbody n. nsatz.
Qed.
Lemma vnormalized_dot (a b : vec R) : dot3 a b = 0 -> dot3 (vnormalized Rops a) b = 0.
Proof.
  intros H. destruct a as [[x y] z], b as [[p q] r]. unfold vnormalized, vdivs, vnorm, vdot, dot3, vx, vy, vz in *.
  cbn [fst snd osqrt oadd omul odiv Rops] in *. unfold Rdiv. set (inv := / _). clearbody inv. nsatz.
Qed.
Lemma vnormalized_id (a : vec R) : dot3 a a = 1 -> vnormalized Rops a = a.
Proof.
  intros H. destruct a as [[x y] z]. unfold vnormalized, vdivs, vnorm, vdot, dot3, vx, vy, vz in *.
  cbn [fst snd osqrt oadd omul odiv Rops] in *. rewrite H, sqrt_1. repeat f_equal; field.
Qed.

Lemma dot3_comm a b : dot3 a b = dot3 b a.
Proof. unfold dot3. ring. Qed.

(* Rodrigues' rotation of a unit vector t orthogonal to the unit axis a stays a unit vector orthogonal to a *)
Lemma rotate_unit_orth (t a : vec R) (ang : R) :
  dot3 a a = 1 -> dot3 t t = 1 -> dot3 a t = 0 ->
  let q := geom_rotate_around_axis Rops t a ang in dot3 q q = 1 /\ dot3 q a = 0.
Proof.
  intros Ha Ht Hat. cbv zeta. unfold geom_rotate_around_axis. cbv zeta.
  (* the early `return inp` (tiny angle or tiny axis) hands back t itself *)
  match goal with |- context[if ?c then _ else _] => destruct c end; [split; [exact Ht | rewrite dot3_comm; exact Hat]|].
  rewrite (vnormalized_id a Ha).
  destruct a as [[u v] w], t as [[x y] z]. unfold dot3, vx, vy, vz in *. cbn [fst snd oadd osub omul oofZ ocos osin Rops] in *.
  pose proof (cs2 ang) as Hcs. set (c := cos ang) in *. set (s := sin ang) in *. clearbody c s.
  split; nsatz.
Qed.

Lemma sqrt_small (x e : R) : 0 <= x -> 0 < e -> R_sqrt.sqrt x < e -> x < e * e.
Proof.
  intros Hx He H. destruct (Rlt_le_dec x (e * e)) as [L|L]; auto. exfalso.
  assert (R_sqrt.sqrt (e * e) <= R_sqrt.sqrt x) by (apply sqrt_le_1_alt; exact L).
  rewrite sqrt_square in H0 by lra. lra.
Qed.


(* cylinder: every ring vertex lies in the end plane through P1 (resp. P2) at distance `radius` from the axis;
   the cap centres are P1 and P2 *)
Lemma cylinder_on_surface (P1 P2 : vec R) (radius : R) N caps :
  0 < dot3 (vsub Rops P2 P1) (vsub Rops P2 P1) ->
  let a := vnormalized Rops (vsub Rops P2 P1) in
  exists ringpts, cylinder_coords Rops P1 P2 radius N caps = ringpts ++ (if caps then [P1; P2] else []) /\
    Forall (fun p => exists P, (P = P1 \/ P = P2) /\ dot3 (vsub Rops p P) a = 0 /\ dist2 p P = radius * radius) ringpts.
Proof.
  intros Hd. cbv zeta. unfold cylinder_coords. cbv zeta.
  set (a := vnormalized Rops (vsub Rops P2 P1)).
  assert (Ha : dot3 a a = 1) by (apply vnormalized_unit_norm; exact Hd).
  set (t0 := (vy a, oopp Rops (vx a), oofZ Rops 0)).
  set (t' := if oltb Rops (vnorm Rops t0) (odiv Rops (oofZ Rops 1) (oofZ Rops 1000000))
             then (oofZ Rops 0, vz a, oopp Rops (vy a)) else t0).
  assert (Ht' : 0 < dot3 t' t' /\ dot3 t' a = 0).
  { destruct a as [[u v] w]. unfold dot3, vx, vy, vz in Ha. cbn [fst snd] in Ha.
    unfold t', t0, vnorm, vdot, vx, vy, vz. cbn [fst snd oltb osqrt oadd omul odiv oopp oofZ Rops].
    destruct (Rlt_dec _ _) as [L|L].
    - apply sqrt_small in L; [|nra|lra]. unfold dot3, vx, vy, vz. cbn [fst snd]. split; [nra|ring].
    - unfold dot3, vx, vy, vz. cbn [fst snd]. split; [|ring].
      destruct (Rle_lt_dec (v * v + - u * - u + 0 * 0) 0) as [Z|Z]; [|nra]. exfalso. apply L.
      replace (v * v + - u * - u + 0 * 0) with 0 by nra. rewrite sqrt_0. lra. }
  destruct Ht' as [Ht1 Ht2].
  set (t := vnormalized Rops t').
  assert (Htt : dot3 t t = 1) by (apply vnormalized_unit_norm; exact Ht1).
  assert (Hat : dot3 a t = 0) by (rewrite dot3_comm; apply vnormalized_dot; exact Ht2).
  eexists. split; [reflexivity|].
  apply Forall_forall. intros p Hp. apply in_flat_map in Hp as [k [Hk Hp]]. apply In_zrange in Hk. cbv zeta in Hp.
  apply in_flat_map in Hp as [i [_ Hp]]. cbv zeta in Hp. destruct Hp as [<-|[]].
  set (ang := odiv Rops _ _).
  destruct (rotate_unit_orth t a ang Ha Htt Hat) as [Hq1 Hq2]. set (q := geom_rotate_around_axis Rops t a ang) in *.
  clearbody q.
  assert (HP : vsel Rops k [P1; P2] = P1 \/ vsel Rops k [P1; P2] = P2).
  { assert (k = 0 \/ k = 1)%Z as [-> | ->] by lia; [left|right]; reflexivity. }
  set (P := vsel Rops k [P1; P2]) in *. clearbody P. exists P. split; [exact HP|].
  clear - Hq1 Hq2. clearbody a.
  destruct P as [[px py] pz], q as [[qx qy] qz], a as [[u v] w].
  unfold dot3, dist2, vsub, vadd, vscale, vx, vy, vz in *. cbn [fst snd oadd osub omul Rops] in *.
  split; nsatz.
Qed.

(* ------------------------------------------------------------------ flat_ring: the rim is on the unit circle of the plane z = 0 *)
Lemma vscan_Forall (P : vec R -> Prop) (f : vec R -> Z -> vec R) s l :
  P s -> (forall s i, P s -> P (f s i)) -> Forall P (vscan f s l).
Proof.
  intros Hs Hf. revert s Hs. induction l as [|i l IH]; intros s Hs; cbn [vscan]; constructor; auto.
Qed.

Lemma flat_ring_rim_on_circle N d k :
  exists rim, flat_ring_coords Rops N d k = (0, 0, 0) :: rim /\ Forall on_unit_circle rim.
Proof.
  unfold flat_ring_coords. cbv zeta. cbn [app]. eexists. split; [reflexivity|].
  assert (H1 : on_unit_circle (oofZ Rops 1, oofZ Rops 0, oofZ Rops 0)).
  { unfold on_unit_circle, vx, vy, vz. cbn. split; ring. }
  constructor; [exact H1|]. apply vscan_Forall; [exact H1|].
  intros [[x y] z] i [Hc Hz]. unfold on_unit_circle, geom_rotate_2d, vx, vy, vz in *. cbv zeta. cbn [fst snd ocos osin osub oadd omul oofZ Rops] in *.
  split; [|reflexivity]. set (a := odiv Rops _ _). pose proof (cs2 a) as H. set (c := cos a) in *. set (s := sin a) in *.
  clearbody c s. nsatz.
Qed.

(* ------------------------------------------------------------------ sphere_fibonacci: every point at distance `radius` from the origin *)
Lemma sphere_fibonacci_on_sphere n (radius : R) b : (1 <= n)%Z ->
  Forall (fun p => dot3 p p = radius * radius) (sphere_fibonacci_coords Rops n radius b).
Proof.
  intros Hn. unfold sphere_fibonacci_coords. cbv zeta. apply Forall_forall. intros p Hp.
  apply in_flat_map in Hp as [i [Hi Hp]]. apply In_zrange in Hi. destruct Hp as [<-|[]].
  unfold dot3, vscale, vx, vy, vz. cbn [fst snd oadd osub omul odiv ocos osin osqrt oofZ Rops].
  set (j := (2 * i - (n - 1))%Z). set (th := _ / _ * _ + _ * _ / _) || idtac.
  assert (Hq : 0 <= IZR ((n + j) * (n - j))) by (apply IZR_le; subst j; nia).
  pose proof (sqrt_sqrt _ Hq) as Hs. set (q := R_sqrt.sqrt (IZR ((n + j) * (n - j)))) in *.
  rewrite mult_IZR, plus_IZR, minus_IZR in Hs.
  assert (Hn0 : IZR n <> 0) by (apply not_0_IZR; lia).
  match goal with |- context[sin ?a] => pose proof (cs2 a) as Ht; set (c := cos a) in *; set (s := sin a) in * end.
  clearbody c s q. unfold Rdiv. assert (Hi' : / IZR n * IZR n = 1) by (field; auto).
  set (inv := / IZR n) in *. clearbody inv. set (nn := IZR n) in *. set (jj := IZR j) in *. clearbody nn jj. nsatz.
Qed.

(* ------------------------------------------------------------------ icosphere: the projection puts a vertex at `radius` from `center` *)
Lemma icosphere_project_on_sphere k (center : vec R) (radius : R) (v : vec R) :
  0 < dot3 (vsub Rops v center) (vsub Rops v center) ->
  dist2 (icosphere_project Rops k center radius v) center = radius * radius.
Proof.
  intros H. unfold icosphere_project. pose proof (vnormalized_unit_norm _ H) as Hu.
  set (u := vnormalized Rops (vsub Rops v center)) in *. clearbody u.
  destruct u as [[ux uy] uz], center as [[cx cy] cz]. unfold dot3, dist2, vadd, vscale, vx, vy, vz in *.
  cbn [fst snd oadd omul Rops] in *. nsatz.
Qed.
(* ... and the mesh it starts from is the icosahedron with the same centre and radius *)
Lemma icosphere_base k (center : vec R) (radius : R) :
  icosphere_base_faces = icosahedron_faces false /\ icosphere_base_nverts = icosahedron_nverts false /\
  icosphere_base_coords Rops k center radius = icosahedron_coords Rops center radius false /\
  icosphere_rounds k = k /\ icosphere_loop_passes = 1%Z.
Proof. repeat split. Qed.
