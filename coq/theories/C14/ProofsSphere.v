(* C14 - sphere_uv(n_lat = n, n_long = L): all n >= 1, L >= 3 (the source as repaired: n rings strictly
   between the poles, the last ring joined to the south pole). *)
From Coq Require Import ZArith List Bool Lia ZifyBool.
Import ListNotations.
Require Import MV.Lib.Base MV.C14.Model MV.C14.Gen MV.C14.ProofsLib.
Open Scope Z_scope.

(* vertex i of ring r ; 0 is the north pole, n*L+1 the south pole *)
Definition rv (L r i : Z) : Z := r * L + 1 + i.
Definition sfan (n L i : Z) : list (list Z) :=
  let i' := (i + 1) mod L in
  [[rv L 0 i; 0; rv L 0 i']; [n * L + 1; rv L (n - 1) i; rv L (n - 1) i']].
Definition squad (L j i : Z) : list (list Z) :=
  let i' := (i + 1) mod L in [[rv L j i; rv L j i'; rv L (j + 1) i'; rv L (j + 1) i]].

Lemma sphere_nverts n L : 0 <= n -> 0 <= L -> sphere_uv_nverts n L = n * L + 2.
Proof.
  intros Hn HL. unfold sphere_uv_nverts, sphere_uv_vsites.
  rewrite !zlen_app, (zlen_flat_map_const _ _ L).
  - rewrite zlen_zrange by lia. change (zlen [0]) with 1. change (zlen [2]) with 1. lia.
  - intros i _. rewrite (zlen_flat_map_const _ _ 1); [rewrite zlen_zrange by lia; lia | reflexivity].
Qed.

Lemma sphere_faces_eq n L : 0 <= n -> 0 <= L ->
  sphere_uv_faces n L =
  flat_map (sfan n L) (zrange L) ++ flat_map (fun j => flat_map (squad L j) (zrange L)) (zrange (n - 1)).
Proof.
  intros Hn HL. unfold sphere_uv_faces. rewrite sphere_nverts by lia.
  assert (A : forall (a a' b b' : list (list Z)), a = a' -> b = b' -> a ++ b = a' ++ b') by (intros; subst; auto).
  apply A.
  - apply flat_map_zrange_ext. intros i Hi. unfold sfan, rv. cbv zeta. cbn [app].
    repeat (f_equal; try ring).
  - apply flat_map_zrange_ext. intros j Hj. cbv zeta. apply flat_map_zrange_ext. intros i Hi.
    unfold squad, rv. cbv zeta. repeat (f_equal; try ring).
Qed.

Lemma sphere_nfaces n L : 1 <= n -> 0 <= L -> zlen (sphere_uv_faces n L) = (n + 1) * L.
Proof.
  intros Hn HL. rewrite sphere_faces_eq by lia. rewrite zlen_app.
  rewrite (zlen_flat_map_const _ _ 2) by (intros; reflexivity).
  rewrite (zlen_flat_map_const _ _ L).
  - rewrite !zlen_zrange by lia. lia.
  - intros j _. rewrite (zlen_flat_map_const _ _ 1) by (intros; reflexivity). rewrite zlen_zrange by lia. lia.
Qed.

Lemma sphere_face_In n L f : 1 <= n -> 0 <= L ->
  In f (sphere_uv_faces n L) <->
  (exists i, 0 <= i < L /\ In f (sfan n L i)) \/ (exists j i, 0 <= j < n - 1 /\ 0 <= i < L /\ In f (squad L j i)).
Proof.
  intros Hn HL. rewrite sphere_faces_eq by lia. rewrite in_app_iff, !in_flat_map. split.
  - intros [[i [Hi H]]|[j [Hj H]]].
    + left. apply In_zrange in Hi. exists i. auto.
    + right. apply In_zrange in Hj. apply in_flat_map in H as [i [Hi H]]. apply In_zrange in Hi. exists j, i. auto.
  - intros [[i [Hi H]]|[j [i [Hj [Hi H]]]]].
    + left. exists i. split; [apply In_zrange; lia | auto].
    + right. exists j. split; [apply In_zrange; lia|]. apply in_flat_map. exists i. split; [apply In_zrange; lia | auto].
Qed.

Lemma sphere_dedge_In n L e : 1 <= n -> 0 <= L ->
  In e (dedges (sphere_uv_faces n L)) <->
  (exists i, 0 <= i < L /\ In e (dedges (sfan n L i))) \/
  (exists j i, 0 <= j < n - 1 /\ 0 <= i < L /\ In e (dedges (squad L j i))).
Proof.
  intros Hn HL. rewrite In_dedges. split.
  - intros [f [Hf He]]. apply sphere_face_In in Hf as [[i [Hi Hf]]|[j [i [Hj [Hi Hf]]]]]; try lia.
    + left. exists i. split; auto. apply In_dedges. exists f. auto.
    + right. exists j, i. split; auto. split; auto. apply In_dedges. exists f. auto.
  - intros [[i [Hi He]]|[j [i [Hj [Hi He]]]]]; apply In_dedges in He as [f [Hf He]]; exists f; (split; auto);
      apply sphere_face_In; try lia; [left; exists i; auto | right; exists j, i; auto].
Qed.

Ltac scases L i :=
  let Ei := fresh "Ei" in let Li := fresh "Li" in
  destruct (mod_succ_cases i L ltac:(lia)) as [[Ei Li]|[Ei Li]]; rewrite ?Ei in *.

Lemma sphere_in_range n L : 1 <= n -> 3 <= L -> in_range (sphere_uv_nverts n L) (sphere_uv_faces n L).
Proof.
  intros Hn HL. rewrite sphere_nverts by lia. apply Forall_forall. intros f Hf.
  apply Forall_forall. intros v Hv.
  assert (0 <= (n - 1) * L) by (apply Z.mul_nonneg_nonneg; lia).
  apply sphere_face_In in Hf as [[i [Hi Hf]]|[j [i [Hj [Hi Hf]]]]]; try lia;
    [|assert ((j + 1) * L <= (n - 1) * L) by (apply Z.mul_le_mono_nonneg_r; lia);
      assert (0 <= j * L) by (apply Z.mul_nonneg_nonneg; lia)];
    unfold sfan, squad, rv in Hf; cbv zeta in Hf; scases L i;
    lsimpl_in Hf; split_or Hf; subst f; lsimpl_in Hv; split_or Hv; subst v; lia.
Qed.

Lemma sphere_all_used n L : 1 <= n -> 3 <= L -> all_used (sphere_uv_nverts n L) (sphere_uv_faces n L).
Proof.
  intros Hn HL. rewrite sphere_nverts by lia. intros v Hv.
  destruct (Z.eq_dec v 0) as [->|N0].
  { exists [rv L 0 0; 0; rv L 0 ((0 + 1) mod L)]. split; [|simpl; auto].
    apply sphere_face_In; try lia. left. exists 0. split; [lia|]. unfold sfan. cbv zeta. simpl. auto. }
  destruct (Z.eq_dec v (n * L + 1)) as [->|NS].
  { exists [n * L + 1; rv L (n - 1) 0; rv L (n - 1) ((0 + 1) mod L)]. split; [|simpl; auto].
    apply sphere_face_In; try lia. left. exists 0. split; [lia|]. unfold sfan. cbv zeta. simpl. auto. }
  set (r := (v - 1) / L). set (i := (v - 1) mod L).
  assert (Hri : v = r * L + 1 + i /\ 0 <= i < L /\ 0 <= r < n).
  { subst r i. pose proof (Z.div_mod (v - 1) L ltac:(lia)). pose proof (Z.mod_pos_bound (v - 1) L ltac:(lia)).
    split; [lia|]. split; [lia|]. split; [apply Z.div_pos; lia | apply Z.div_lt_upper_bound; nia]. }
  destruct Hri as [Ev [Hi Hr]]. clearbody r i.
  destruct (Z.eq_dec r 0) as [->|R0].
  - exists [rv L 0 i; 0; rv L 0 ((i + 1) mod L)]. split; [|left; unfold rv; lia].
    apply sphere_face_In; try lia. left. exists i. split; [lia|]. unfold sfan. cbv zeta. simpl. auto.
  - exists [rv L (r - 1) i; rv L (r - 1) ((i + 1) mod L); rv L (r - 1 + 1) ((i + 1) mod L); rv L (r - 1 + 1) i].
    split; [|right; right; right; left; unfold rv; lia].
    apply sphere_face_In; try lia. right. exists (r - 1), i. split; [lia|]. split; [lia|].
    unfold squad. cbv zeta. simpl. auto.
Qed.

Lemma sphere_faces_simple n L : 1 <= n -> 3 <= L -> faces_simple (sphere_uv_faces n L).
Proof.
  intros Hn HL. apply Forall_forall. intros f Hf.
  apply sphere_face_In in Hf as [[i [Hi Hf]]|[j [i [Hj [Hi Hf]]]]]; try lia;
    unfold sfan, squad, rv in Hf; cbv zeta in Hf; scases L i;
    lsimpl_in Hf; split_or Hf; subst f; (split; [lsimpl; lia|]); repeat constructor; lsimpl; nia.
Qed.

(* ------------------------------------------------------------------ oriented manifold *)
Lemma sfan_edges_inj n L i i' e : 1 <= n -> 3 <= L -> 0 <= i < L -> 0 <= i' < L ->
  In e (dedges (sfan n L i)) -> In e (dedges (sfan n L i')) -> i = i'.
Proof.
  intros Hn HL Hi Hi' H H'. unfold sfan, rv in *. cbv zeta in *.
  scases L i; scases L i'; lsimpl_in H; lsimpl_in H'; split_or H; subst e; split_or H'; pinj H'; nia.
Qed.

Lemma sfan_edges_NoDup n L i : 1 <= n -> 3 <= L -> 0 <= i < L -> NoDup (dedges (sfan n L i)).
Proof.
  intros Hn HL Hi. unfold sfan, rv. cbv zeta.
  scases L i; lsimpl; repeat constructor; lsimpl; intros H; split_or H; pinj H; nia.
Qed.

Lemma squad_edges_inj L j i j' i' e : 3 <= L -> 0 <= j -> 0 <= j' -> 0 <= i < L -> 0 <= i' < L ->
  In e (dedges (squad L j i)) -> In e (dedges (squad L j' i')) -> j = j' /\ i = i'.
Proof.
  intros HL Hj Hj' Hi Hi' H H'. unfold squad, rv in *. cbv zeta in *.
  scases L i; scases L i'; lsimpl_in H; lsimpl_in H'; split_or H; subst e; split_or H'; pinj H';
    first [lia | (assert (j = j') by nia; subst; lia) | nia].
Qed.

Lemma squad_edges_NoDup L j i : 3 <= L -> 0 <= j -> 0 <= i < L -> NoDup (dedges (squad L j i)).
Proof.
  intros HL Hj Hi. unfold squad, rv. cbv zeta.
  scases L i; lsimpl; repeat constructor; lsimpl; intros H; split_or H; pinj H; nia.
Qed.

Lemma sfan_squad_disjoint n L i j i' e : 1 <= n -> 3 <= L -> 0 <= i < L -> 0 <= j < n - 1 -> 0 <= i' < L ->
  In e (dedges (sfan n L i)) -> In e (dedges (squad L j i')) -> False.
Proof.
  intros Hn HL Hi Hj Hi' H H'. unfold sfan, squad, rv in *. cbv zeta in *.
  scases L i; scases L i'; lsimpl_in H; lsimpl_in H'; split_or H; subst e; split_or H'; pinj H'; nia.
Qed.

Lemma sphere_oriented_manifold n L : 1 <= n -> 3 <= L -> oriented_manifold (sphere_uv_faces n L).
Proof.
  intros Hn HL. unfold oriented_manifold. rewrite sphere_faces_eq by lia. rewrite dedges_app.
  apply NoDup_app_intro.
  - rewrite dedges_flat_map. apply NoDup_flat_map; [apply NoDup_zrange | |].
    + intros i Hi. apply In_zrange in Hi. apply sfan_edges_NoDup; lia.
    + intros i i' e Hi Hi' Hne H H'. apply In_zrange in Hi, Hi'.
      apply Hne. eapply sfan_edges_inj; eauto.
  - rewrite dedges_flat_map. apply NoDup_flat_map; [apply NoDup_zrange | |].
    + intros j Hj. apply In_zrange in Hj. rewrite dedges_flat_map. apply NoDup_flat_map; [apply NoDup_zrange | |].
      * intros i Hi. apply In_zrange in Hi. apply squad_edges_NoDup; lia.
      * intros i i' e Hi Hi' Hne H H'. apply In_zrange in Hi, Hi'.
        destruct (squad_edges_inj L j i j i' e); auto; lia.
    + intros j j' e Hj Hj' Hne H H'. apply In_zrange in Hj, Hj'.
      rewrite dedges_flat_map in H, H'.
      apply in_flat_map in H as [i [Hi H]]. apply in_flat_map in H' as [i' [Hi' H']]. apply In_zrange in Hi, Hi'.
      destruct (squad_edges_inj L j i j' i' e); auto; lia.
  - intros e H H'. rewrite dedges_flat_map in H, H'.
    apply in_flat_map in H as [i [Hi H]]. apply in_flat_map in H' as [j [Hj H']].
    rewrite dedges_flat_map in H'. apply in_flat_map in H' as [i' [Hi' H']].
    apply In_zrange in Hi, Hj, Hi'. eapply (sfan_squad_disjoint n L i j i'); eauto.
Qed.

(* ------------------------------------------------------------------ closed *)
Definition pr (n i : Z) : Z := if i =? 0 then n - 1 else i - 1.
Lemma pr_range n i : 0 <= i < n -> 0 <= pr n i < n.
Proof. unfold pr. destruct (i =? 0) eqn:E; lia. Qed.
Lemma succ_pr n i : 0 <= i < n -> (pr n i + 1) mod n = i.
Proof.
  intros H. unfold pr. destruct (i =? 0) eqn:E.
  - replace (n - 1 + 1) with n by lia. rewrite Z.mod_same by lia. lia.
  - replace (i - 1 + 1) with i by lia. apply Z.mod_small. lia.
Qed.

Lemma sfan_has n L i : let i' := (i + 1) mod L in
  In (rv L 0 i, 0) (dedges (sfan n L i)) /\ In (0, rv L 0 i') (dedges (sfan n L i)) /\
  In (rv L 0 i', rv L 0 i) (dedges (sfan n L i)) /\
  In (n * L + 1, rv L (n - 1) i) (dedges (sfan n L i)) /\
  In (rv L (n - 1) i, rv L (n - 1) i') (dedges (sfan n L i)) /\
  In (rv L (n - 1) i', n * L + 1) (dedges (sfan n L i)).
Proof. unfold sfan. cbv zeta. lsimpl. tauto. Qed.

Lemma squad_has L j i : let i' := (i + 1) mod L in
  In (rv L j i, rv L j i') (dedges (squad L j i)) /\ In (rv L j i', rv L (j + 1) i') (dedges (squad L j i)) /\
  In (rv L (j + 1) i', rv L (j + 1) i) (dedges (squad L j i)) /\ In (rv L (j + 1) i, rv L j i) (dedges (squad L j i)).
Proof. unfold squad. cbv zeta. lsimpl. tauto. Qed.

Lemma sfan_edges n L i e : In e (dedges (sfan n L i)) -> let i' := (i + 1) mod L in
  e = (rv L 0 i, 0) \/ e = (0, rv L 0 i') \/ e = (rv L 0 i', rv L 0 i) \/
  e = (n * L + 1, rv L (n - 1) i) \/ e = (rv L (n - 1) i, rv L (n - 1) i') \/ e = (rv L (n - 1) i', n * L + 1).
Proof. unfold sfan. cbv zeta. lsimpl. intros H. split_or H; subst e; tauto. Qed.

Lemma squad_edges L j i e : In e (dedges (squad L j i)) -> let i' := (i + 1) mod L in
  e = (rv L j i, rv L j i') \/ e = (rv L j i', rv L (j + 1) i') \/
  e = (rv L (j + 1) i', rv L (j + 1) i) \/ e = (rv L (j + 1) i, rv L j i).
Proof. unfold squad. cbv zeta. lsimpl. intros H. split_or H; subst e; tauto. Qed.

Lemma sphere_closed n L : 1 <= n -> 3 <= L -> closed (sphere_uv_faces n L).
Proof.
  intros Hn HL a b H.
  assert (IF : forall i e, 0 <= i < L -> In e (dedges (sfan n L i)) -> In e (dedges (sphere_uv_faces n L))).
  { intros i e Hi He. apply sphere_dedge_In; try lia. left. exists i. auto. }
  assert (IQ : forall j i e, 0 <= j < n - 1 -> 0 <= i < L -> In e (dedges (squad L j i)) -> In e (dedges (sphere_uv_faces n L))).
  { intros j i e Hj Hi He. apply sphere_dedge_In; try lia. right. exists j, i. auto. }
  apply sphere_dedge_In in H as [[i [Hi H]]|[j [i [Hj [Hi H]]]]]; try lia.
  - assert (Hi' : 0 <= (i + 1) mod L < L) by (apply Z.mod_pos_bound; lia).
    apply sfan_edges in H. cbv zeta in H. destruct H as [H|[H|[H|[H|[H|H]]]]]; injection H as -> ->.
    + (* (ring0 i, N): twin in the fan before *)
      apply (IF (pr L i)); [apply pr_range; lia|].
      pose proof (sfan_has n L (pr L i)) as T. cbv zeta in T. rewrite succ_pr in T by lia. apply T.
    + apply (IF ((i + 1) mod L)); [lia|]. pose proof (sfan_has n L ((i + 1) mod L)) as T. cbv zeta in T. apply T.
    + (* (ring0 i', ring0 i): twin is side 0 of the first row of quads, or the south fan if there is one ring *)
      destruct (Z.eq_dec n 1) as [->|N1].
      * apply (IF i); [lia|]. pose proof (sfan_has 1 L i) as T. cbv zeta in T. replace (1 - 1) with 0 in T by lia. apply T.
      * apply (IQ 0 i); [lia|lia|]. pose proof (squad_has L 0 i) as T. cbv zeta in T. apply T.
    + apply (IF (pr L i)); [apply pr_range; lia|].
      pose proof (sfan_has n L (pr L i)) as T. cbv zeta in T. rewrite succ_pr in T by lia. apply T.
    + destruct (Z.eq_dec n 1) as [->|N1].
      * apply (IF i); [lia|]. pose proof (sfan_has 1 L i) as T. cbv zeta in T. replace (1 - 1) with 0 by lia. apply T.
      * apply (IQ (n - 2) i); [lia|lia|]. pose proof (squad_has L (n - 2) i) as T. cbv zeta in T.
        replace (n - 2 + 1) with (n - 1) in T by lia. apply T.
    + apply (IF ((i + 1) mod L)); [lia|]. pose proof (sfan_has n L ((i + 1) mod L)) as T. cbv zeta in T. apply T.
  - assert (Hi' : 0 <= (i + 1) mod L < L) by (apply Z.mod_pos_bound; lia).
    apply squad_edges in H. cbv zeta in H. destruct H as [H|[H|[H|H]]]; injection H as -> ->.
    + destruct (Z.eq_dec j 0) as [->|J0].
      * apply (IF i); [lia|]. pose proof (sfan_has n L i) as T. cbv zeta in T. apply T.
      * apply (IQ (j - 1) i); [lia|lia|]. pose proof (squad_has L (j - 1) i) as T. cbv zeta in T.
        replace (j - 1 + 1) with j in T by lia. apply T.
    + apply (IQ j ((i + 1) mod L)); [lia|lia|]. pose proof (squad_has L j ((i + 1) mod L)) as T. cbv zeta in T. apply T.
    + destruct (Z.eq_dec (j + 1) (n - 1)) as [E|E].
      * rewrite E. apply (IF i); [lia|]. pose proof (sfan_has n L i) as T. cbv zeta in T. apply T.
      * apply (IQ (j + 1) i); [lia|lia|]. pose proof (squad_has L (j + 1) i) as T. cbv zeta in T. apply T.
    + apply (IQ j (pr L i)); [lia|apply pr_range; lia|].
      pose proof (squad_has L j (pr L i)) as T. cbv zeta in T. rewrite succ_pr in T by lia. apply T.
Qed.

(* ------------------------------------------------------------------ connected *)
Lemma sphere_connected n L : 1 <= n -> 3 <= L -> connected (sphere_uv_nverts n L) (sphere_uv_faces n L).
Proof.
  intros Hn HL. rewrite sphere_nverts by lia. apply connected_by_descent. intros v Hv. unfold adjacent.
  assert (IF : forall i e, 0 <= i < L -> In e (dedges (sfan n L i)) -> In e (dedges (sphere_uv_faces n L))).
  { intros i e Hi He. apply sphere_dedge_In; try lia. left. exists i. auto. }
  assert (IQ : forall j i e, 0 <= j < n - 1 -> 0 <= i < L -> In e (dedges (squad L j i)) -> In e (dedges (sphere_uv_faces n L))).
  { intros j i e Hj Hi He. apply sphere_dedge_In; try lia. right. exists j, i. auto. }
  destruct (Z.eq_dec v (n * L + 1)) as [->|NS].
  { (* south pole: joined to the first vertex of the last ring *)
    exists (rv L (n - 1) 0). split; [unfold rv; nia|]. right. apply (IF 0); [lia|].
    pose proof (sfan_has n L 0) as T. cbv zeta in T. apply T. }
  set (r := (v - 1) / L). set (i := (v - 1) mod L).
  assert (Hri : v = rv L r i /\ 0 <= i < L /\ 0 <= r < n).
  { subst r i. pose proof (Z.div_mod (v - 1) L ltac:(lia)). pose proof (Z.mod_pos_bound (v - 1) L ltac:(lia)).
    unfold rv. split; [lia|]. split; [lia|]. split; [apply Z.div_pos; lia | apply Z.div_lt_upper_bound; nia]. }
  destruct Hri as [Ev [Hi Hr]]. clearbody r i. subst v.
  destruct (Z_lt_le_dec 0 i) as [Li|Li].
  - (* previous vertex on the same ring *)
    exists (rv L r (i - 1)). split; [unfold rv; nia|]. right.
    assert (Em : (i - 1 + 1) mod L = i) by (replace (i - 1 + 1) with i by lia; apply Z.mod_small; lia).
    destruct (Z.eq_dec r 0) as [->|R0].
    + apply (IF (i - 1)); [lia|]. pose proof (sfan_has n L (i - 1)) as T. cbv zeta in T. rewrite Em in T. apply T.
    + apply (IQ (r - 1) (i - 1)); [lia|lia|]. pose proof (squad_has L (r - 1) (i - 1)) as T. cbv zeta in T.
      rewrite Em in T. replace (r - 1 + 1) with r in T by lia. apply T.
  - assert (i = 0) by lia. subst i.
    destruct (Z.eq_dec r 0) as [->|R0].
    + exists 0. split; [unfold rv; lia|]. right. apply (IF 0); [lia|].
      pose proof (sfan_has n L 0) as T. cbv zeta in T. apply T.
    + exists (rv L (r - 1) 0). split; [unfold rv; nia|]. right. apply (IQ (r - 1) 0); [lia|lia|].
      pose proof (squad_has L (r - 1) 0) as T. cbv zeta in T. replace (r - 1 + 1) with r in T by lia. apply T.
Qed.

(* ------------------------------------------------------------------ Euler characteristic 2 *)
Lemma sphere_euler n L : 1 <= n -> 3 <= L -> euler (sphere_uv_nverts n L) (sphere_uv_faces n L) = 2.
Proof.
  intros Hn HL. unfold euler.
  pose proof (euler_formula _ (sphere_oriented_manifold n L Hn HL) (sphere_faces_simple n L Hn HL)) as HE.
  rewrite (closed_border_nil _ (sphere_closed n L Hn HL)) in HE.
  change (zlen (@nil (Z * Z))) with 0 in HE.
  (* half-edges: 3 per fan triangle, 4 per quad *)
  assert (HD : zlen (dedges (sphere_uv_faces n L)) = 6 * L + 4 * ((n - 1) * L)).
  { rewrite sphere_faces_eq by lia. rewrite dedges_app, zlen_app.
    rewrite (zlen_dedges_const _ 3), (zlen_dedges_const _ 4).
    - rewrite (zlen_flat_map_const _ _ 2) by (intros; reflexivity).
      rewrite (zlen_flat_map_const _ _ L).
      + rewrite !zlen_zrange by lia. lia.
      + intros j _. rewrite (zlen_flat_map_const _ _ 1) by (intros; reflexivity). rewrite zlen_zrange by lia. lia.
    - intros f Hf. apply in_flat_map in Hf as [j [_ Hf]]. apply in_flat_map in Hf as [i [_ Hf]].
      unfold squad in Hf. cbv zeta in Hf. lsimpl_in Hf. split_or Hf. subst f. reflexivity.
    - intros f Hf. apply in_flat_map in Hf as [i [_ Hf]].
      unfold sfan in Hf. cbv zeta in Hf. lsimpl_in Hf. split_or Hf; subst f; reflexivity. }
  rewrite sphere_nverts by lia. rewrite sphere_nfaces by lia. nia.
Qed.

(* ------------------------------------------------------------------ vertex umbrellas *)
Require Import MV.C14.ProofsFan.

Lemma sphere_links n L v x y : 1 <= n -> 0 <= L ->
  In (x, y) (links (sphere_uv_faces n L) v) <->
  (exists i, 0 <= i < L /\ let i' := (i + 1) mod L in
     ((v = rv L 0 i /\ x = 0 /\ y = rv L 0 i') \/ (v = 0 /\ x = rv L 0 i' /\ y = rv L 0 i) \/ (v = rv L 0 i' /\ x = rv L 0 i /\ y = 0)) \/
     ((v = n * L + 1 /\ x = rv L (n - 1) i /\ y = rv L (n - 1) i') \/ (v = rv L (n - 1) i /\ x = rv L (n - 1) i' /\ y = n * L + 1)
      \/ (v = rv L (n - 1) i' /\ x = n * L + 1 /\ y = rv L (n - 1) i)))
  \/ (exists j i, 0 <= j < n - 1 /\ 0 <= i < L /\ let i' := (i + 1) mod L in
     let a := rv L j i in let b := rv L j i' in let c := rv L (j + 1) i' in let d := rv L (j + 1) i in
     (v = a /\ x = b /\ y = d) \/ (v = b /\ x = c /\ y = a) \/ (v = c /\ x = d /\ y = b) \/ (v = d /\ x = a /\ y = c)).
Proof.
  intros Hn HL. rewrite links_In. split.
  - intros [f [Hf H]]. apply sphere_face_In in Hf as [[i [Hi Hf]]|[j [i [Hj [Hi Hf]]]]]; try lia.
    + left. exists i. split; auto. cbv zeta. unfold sfan in Hf. cbv zeta in Hf. cbn [In] in Hf. split_or Hf; subst f;
        [left | right]; apply tri_corner; exact H.
    + right. exists j, i. split; auto. split; auto. cbv zeta. unfold squad in Hf. cbv zeta in Hf. cbn [In] in Hf.
      split_or Hf. subst f. apply quad_corner. exact H.
  - intros [[i [Hi H]]|[j [i [Hj [Hi H]]]]]; cbv zeta in H.
    + destruct H as [H|H].
      * exists [rv L 0 i; 0; rv L 0 ((i + 1) mod L)]. split; [|apply tri_corner; exact H].
        apply sphere_face_In; try lia. left. exists i. split; auto. unfold sfan. cbv zeta. left. reflexivity.
      * exists [n * L + 1; rv L (n - 1) i; rv L (n - 1) ((i + 1) mod L)]. split; [|apply tri_corner; exact H].
        apply sphere_face_In; try lia. left. exists i. split; auto. unfold sfan. cbv zeta. right. left. reflexivity.
    + eexists. split; [|apply quad_corner; exact H].
      apply sphere_face_In; try lia. right. exists j, i. split; auto. split; auto. unfold squad. cbv zeta. left. reflexivity.
Qed.

Lemma pr_cases n i : 0 <= i < n -> (pr n i = i - 1 /\ 0 < i) \/ (pr n i = n - 1 /\ i = 0).
Proof. unfold pr. destruct (i =? 0) eqn:E; lia. Qed.

(* turn an equation between two ring vertices  a*L + 1 + b = c*L + 1 + d  into  a = c /\ b = d *)
Ltac rv_eq E :=
  match type of E with
  | ?a * ?L + 1 + ?b = ?c * ?L + 1 + ?d =>
      let E' := fresh "E" in assert (E' : a * L + b = c * L + d) by lia;
      apply rowmajor_inj in E'; [|lia|lia]; destruct E'
  end.

Ltac sph_fan_wit L k :=
  left; exists k; split; [lia|]; cbv zeta;
  let E := fresh "E" in let Lt := fresh "L" in
  destruct (mod_succ_cases k L ltac:(lia)) as [[E Lt]|[E Lt]]; rewrite ?E; unfold rv;
  first [exfalso; lia | pick_disj ltac:(repeat split; lia)].
Ltac sph_quad_wit L j k :=
  right; exists j, k; split; [lia|]; split; [lia|]; cbv zeta;
  let E := fresh "E" in let Lt := fresh "L" in
  destruct (mod_succ_cases k L ltac:(lia)) as [[E Lt]|[E Lt]]; rewrite ?E; unfold rv;
  first [exfalso; lia | pick_disj ltac:(repeat split; lia)].
Ltac sph_wits L r i0 :=
  first [ sph_fan_wit L i0 | sph_fan_wit L (i0 - 1) | sph_fan_wit L (L - 1)
        | sph_quad_wit L r i0 | sph_quad_wit L r (i0 - 1) | sph_quad_wit L r (L - 1)
        | sph_quad_wit L (r - 1) i0 | sph_quad_wit L (r - 1) (i0 - 1) | sph_quad_wit L (r - 1) (L - 1) ].

Definition sphere_ring (n L r i0 : Z) : list (Z * Z) :=
  let ni := (i0 + 1) mod L in let pi := pr L i0 in
  let dn := if r =? n - 1 then n * L + 1 else rv L (r + 1) i0 in
  let up := if r =? 0 then 0 else rv L (r - 1) i0 in
  [(rv L r ni, dn); (dn, rv L r pi); (rv L r pi, up); (up, rv L r ni)].

Lemma rv_inj L r i r' i' : 0 <= i < L -> 0 <= i' < L -> rv L r i = rv L r' i' -> r = r' /\ i = i'.
Proof. unfold rv. intros Hi Hi' E. assert (E' : r * L + i = r' * L + i') by lia. apply rowmajor_inj in E'; auto. Qed.
Lemma rv_range n L r i : 0 <= r < n -> 0 <= i < L -> 1 <= rv L r i <= n * L.
Proof. unfold rv. intros. assert (0 <= r * L) by (apply Z.mul_nonneg_nonneg; lia). assert (r * L <= (n - 1) * L) by (apply Z.mul_le_mono_nonneg_r; lia). lia. Qed.
Lemma succ_is L i i0 : 0 <= i < L -> 0 <= i0 < L -> (i + 1) mod L = i0 -> i = pr L i0.
Proof.
  intros Hi Hi0 E. destruct (mod_succ_cases i L Hi) as [[E1 L1]|[E1 L1]]; rewrite E1 in E; unfold pr;
    destruct (i0 =? 0) eqn:Z0; lia.
Qed.
Lemma nx_ne_pr L i0 : 3 <= L -> 0 <= i0 < L -> (i0 + 1) mod L <> pr L i0 /\ (i0 + 1) mod L <> i0 /\ pr L i0 <> i0.
Proof.
  intros HL Hi0. destruct (mod_succ_cases i0 L Hi0) as [[E1 L1]|[E1 L1]]; rewrite E1; unfold pr; destruct (i0 =? 0) eqn:Z0; lia.
Qed.

Ltac sph_close SP :=
  rewrite ?SP;
  repeat match goal with
         | |- context[?a =? ?b] => first [replace (a =? b) with true by lia | replace (a =? b) with false by lia]
         end;
  pick_disj ltac:(repeat f_equal; lia).

(* the umbrella of ring vertex (r, i0): below-right, below-left, above-left, above-right *)
Lemma sphere_ring_vertex n L r i0 : 1 <= n -> 3 <= L -> 0 <= r < n -> 0 <= i0 < L -> one_fan (sphere_uv_faces n L) (rv L r i0).
Proof.
  intros Hn HL Hr Hi0.
  assert (Hni : 0 <= (i0 + 1) mod L < L) by (apply Z.mod_pos_bound; lia).
  assert (Hpi : 0 <= pr L i0 < L) by (apply pr_range; lia).
  destruct (nx_ne_pr L i0 HL Hi0) as [D1 [D2 D3]].
  pose proof (succ_pr L i0 Hi0) as SP.
  apply (one_fan_intro _ _ (sphere_ring n L r i0)); [apply sphere_oriented_manifold; auto | | |]; unfold sphere_ring; cbv zeta.
  - (* the four `next` vertices are pairwise distinct *)
    set (ni := (i0 + 1) mod L) in *. set (pi := pr L i0) in *. clearbody ni pi.
    assert (B1 : 0 <= r * L) by (apply Z.mul_nonneg_nonneg; lia).
    destruct (r =? n - 1) eqn:R1, (r =? 0) eqn:R0; unfold rv; repeat constructor; cbn [In]; intros Hin; split_or Hin; pinj Hin;
      try lia; try (assert (r = n - 1) by lia; subst r; lia).
  - intros [x y]. rewrite sphere_links by lia. cbn [In]. split.
    + (* each of the four corners comes from a face *)
      intros H. split_or H; pinj H; subst x y.
      * destruct (r =? n - 1) eqn:R1.
        -- left. exists i0. split; [lia|]. cbv zeta. right. right. left. replace r with (n - 1) by lia. auto.
        -- right. exists r, i0. split; [lia|]. split; [lia|]. cbv zeta. left. auto.
      * destruct (r =? n - 1) eqn:R1.
        -- left. exists (pr L i0). split; [lia|]. cbv zeta. rewrite SP. right. right. right. replace r with (n - 1) by lia. auto.
        -- right. exists r, (pr L i0). split; [lia|]. split; [lia|]. cbv zeta. rewrite SP. right. left. auto.
      * destruct (r =? 0) eqn:R0.
        -- left. exists (pr L i0). split; [lia|]. cbv zeta. rewrite SP. left. right. right. replace r with 0 by lia. auto.
        -- right. exists (r - 1), (pr L i0). split; [lia|]. split; [lia|]. cbv zeta. rewrite SP.
           replace (r - 1 + 1) with r by lia. right. right. left. auto.
      * destruct (r =? 0) eqn:R0.
        -- left. exists i0. split; [lia|]. cbv zeta. left. left. replace r with 0 by lia. auto.
        -- right. exists (r - 1), i0. split; [lia|]. split; [lia|]. cbv zeta. replace (r - 1 + 1) with r by lia. right. right. right. auto.
    + (* and every corner at the vertex is one of the four *)
      pose proof (rv_range n L r i0 Hr Hi0) as Rv.
      intros [[i [Hi H]]|[j [i [Hj [Hi H]]]]]; cbv zeta in H;
        assert (Hi' : 0 <= (i + 1) mod L < L) by (apply Z.mod_pos_bound; lia).
      * destruct H as [H|H]; split_or H; destruct H as [E [-> ->]]; try lia; apply rv_inj in E; auto; destruct E as [E1 E2].
        -- subst r i. sph_close SP.
        -- symmetry in E2. apply succ_is in E2; auto. subst r i. sph_close SP.
        -- subst r i. sph_close SP.
        -- symmetry in E2. apply succ_is in E2; auto. subst r i. sph_close SP.
      * split_or H; destruct H as [E [-> ->]]; apply rv_inj in E; auto; destruct E as [E1 E2].
        -- subst j i. sph_close SP.
        -- symmetry in E2. apply succ_is in E2; auto. subst j i. sph_close SP.
        -- symmetry in E2. apply succ_is in E2; auto. subst r i. sph_close SP.
        -- subst r i. sph_close SP.
  - cbn [chained fst snd]. auto.
Qed.

Lemma sphere_vertex_manifold n L : 1 <= n -> 3 <= L -> vertex_manifold (sphere_uv_nverts n L) (sphere_uv_faces n L).
Proof.
  intros Hn HL. rewrite sphere_nverts by lia. intros v Hv.
  assert (HnL : 0 <= (n - 1) * L) by (apply Z.mul_nonneg_nonneg; lia).
  destruct (Z.eq_dec v 0) as [->|N0]; [|destruct (Z.eq_dec v (n * L + 1)) as [->|NS]].
  - (* north pole: the L triangles of the fan, in order *)
    apply (one_fan_intro _ _ (map (fun t => (rv L 0 ((L - 1 - t + 1) mod L), rv L 0 (L - 1 - t))) (zrange L)));
      [apply sphere_oriented_manifold; auto | | |].
    + apply NoDup_map_inj_in; [|apply NoDup_zrange]. intros a b Ha Hb E. apply In_zrange in Ha, Hb. pinj E. unfold rv in *. lia.
    + intros [x y]. rewrite sphere_links, in_map_iff by lia. split.
      * intros [t [E Ht]]. apply In_zrange in Ht. pinj E. left. exists (L - 1 - t). split; [lia|]. cbv zeta. left. right. left. lia.
      * intros [[i [Hi H]]|[j [i [Hj [Hi H]]]]]; cbv zeta in H;
          pose proof (Z.mod_pos_bound (i + 1) L ltac:(lia)); unfold rv in H.
        -- split_or H; destruct H as [E1 [-> ->]]; try lia.
           exists (L - 1 - i). split; [|apply In_zrange; lia]. replace (L - 1 - (L - 1 - i)) with i by lia. reflexivity.
        -- assert (0 <= j * L) by (apply Z.mul_nonneg_nonneg; lia). split_or H; destruct H as [E1 [-> ->]]; lia.
    + apply chained_map_zrange. cbn [fst snd]. intros t Ht.
      replace (L - 1 - (t + 1) + 1) with (L - 1 - t) by lia. rewrite Z.mod_small by lia. reflexivity.
  - (* south pole *)
    apply (one_fan_intro _ _ (map (fun k => (rv L (n - 1) k, rv L (n - 1) ((k + 1) mod L))) (zrange L)));
      [apply sphere_oriented_manifold; auto | | |].
    + apply NoDup_map_inj_in; [|apply NoDup_zrange]. intros a b Ha Hb E. apply In_zrange in Ha, Hb. pinj E. unfold rv in *. lia.
    + intros [x y]. rewrite sphere_links, in_map_iff by lia. split.
      * intros [k [E Hk]]. apply In_zrange in Hk. pinj E. left. exists k. split; [lia|]. cbv zeta. right. left. lia.
      * intros [[i [Hi H]]|[j [i [Hj [Hi H]]]]]; cbv zeta in H;
          pose proof (Z.mod_pos_bound (i + 1) L ltac:(lia)); unfold rv in H.
        -- split_or H; destruct H as [E1 [-> ->]]; try lia.
           exists i. split; [reflexivity | apply In_zrange; lia].
        -- assert ((j + 1) * L <= (n - 1) * L) by (apply Z.mul_le_mono_nonneg_r; lia).
           assert (0 <= j * L) by (apply Z.mul_nonneg_nonneg; lia).
           split_or H; destruct H as [E1 [-> ->]]; lia.
    + apply chained_map_zrange. cbn [fst snd]. intros t Ht. rewrite Z.mod_small by lia. reflexivity.
  - (* a ring vertex (r, i0): four corners *)
    set (r := (v - 1) / L). set (i0 := (v - 1) mod L).
    assert (Hri : v = rv L r i0 /\ 0 <= i0 < L /\ 0 <= r < n).
    { subst r i0. pose proof (Z.div_mod (v - 1) L ltac:(lia)). pose proof (Z.mod_pos_bound (v - 1) L ltac:(lia)).
      unfold rv. split; [lia|]. split; [lia|]. split; [apply Z.div_pos; lia | apply Z.div_lt_upper_bound; nia]. }
    destruct Hri as [Ev [Hi0 Hr]]. clearbody r i0. subst v.
    apply sphere_ring_vertex; auto.
Qed.

