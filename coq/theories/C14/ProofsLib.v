(* C14 - generic lemmas: lists built by flat_map over integer ranges, directed edges, counting,
   Euler characteristic of an oriented edge-manifold face list, connectedness criterion. *)
From Coq Require Import ZArith List Bool Lia ZifyBool Permutation.
Import ListNotations.
Require Import MV.Lib.Base MV.C14.Model.
Open Scope Z_scope.

(* ------------------------------------------------------------------ zlen / flat_map / zrange *)
Lemma zlen_nil {A} : zlen (@nil A) = 0.
Proof. reflexivity. Qed.
Lemma zlen_cons {A} (a : A) l : zlen (a :: l) = 1 + zlen l.
Proof. unfold zlen. cbn [length]. lia. Qed.
Lemma zlen_app {A} (a b : list A) : zlen (a ++ b) = zlen a + zlen b.
Proof. unfold zlen. rewrite app_length. lia. Qed.
Lemma zlen_nonneg {A} (l : list A) : 0 <= zlen l.
Proof. unfold zlen. lia. Qed.
Lemma zlen_map {A B} (f : A -> B) l : zlen (map f l) = zlen l.
Proof. unfold zlen. now rewrite map_length. Qed.

Lemma zlen_flat_map_const {A B} (f : A -> list B) (l : list A) k :
  (forall x, In x l -> zlen (f x) = k) -> zlen (flat_map f l) = k * zlen l.
Proof.
  induction l as [|a l IH]; intros H; simpl flat_map.
  - unfold zlen; simpl; lia.
  - rewrite zlen_app, zlen_cons, IH by (intros; apply H; simpl; auto).
    rewrite (H a) by (simpl; auto). lia.
Qed.

Lemma zlen_zrange n : 0 <= n -> zlen (zrange n) = n.
Proof. intros. unfold zlen. rewrite zrange_length. lia. Qed.
Lemma zlen_zrange' n : zlen (zrange n) = Z.max 0 n.
Proof. unfold zlen. rewrite zrange_length. lia. Qed.
Lemma zlen_zrange2 a b : zlen (zrange2 a b) = Z.max 0 (b - a).
Proof. unfold zrange2. rewrite zlen_map. apply zlen_zrange'. Qed.

Lemma zrange_succ n : 0 <= n -> zrange (n + 1) = zrange n ++ [n].
Proof.
  intros H. unfold zrange. replace (Z.to_nat (n + 1)) with (S (Z.to_nat n)) by lia.
  rewrite seq_S, map_app. simpl. f_equal. f_equal. lia.
Qed.
Lemma zrange_nonpos n : n <= 0 -> zrange n = [].
Proof. intros. unfold zrange. replace (Z.to_nat n) with O by lia. reflexivity. Qed.

(* sum of f over 0..n-1 *)
Fixpoint zsum_nat (f : Z -> Z) (n : nat) : Z :=
  match n with O => 0 | S k => zsum_nat f k + f (Z.of_nat k) end.
Definition zsum (f : Z -> Z) (n : Z) : Z := zsum_nat f (Z.to_nat n).
Lemma zsum_succ f n : 0 <= n -> zsum f (n + 1) = zsum f n + f n.
Proof.
  intros. unfold zsum. replace (Z.to_nat (n + 1)) with (S (Z.to_nat n)) by lia.
  simpl. f_equal. f_equal. lia.
Qed.
Lemma zsum_0 f : zsum f 0 = 0.
Proof. reflexivity. Qed.

Lemma zlen_flat_map_zrange {B} (f : Z -> list B) n :
  zlen (flat_map f (zrange n)) = zsum (fun i => zlen (f i)) n.
Proof.
  destruct (Z_lt_le_dec n 0) as [Hn|Hn].
  - rewrite zrange_nonpos by lia. unfold zsum. replace (Z.to_nat n) with O by lia. reflexivity.
  - pattern n. apply natlike_ind; [reflexivity | | exact Hn].
    intros x Hx IH. unfold Z.succ. rewrite zrange_succ, flat_map_app, zlen_app, IH, zsum_succ by lia.
    simpl. rewrite app_nil_r. reflexivity.
Qed.

Lemma zsum_ext f g n : (forall i, 0 <= i < n -> f i = g i) -> zsum f n = zsum g n.
Proof.
  unfold zsum. intros H.
  assert (G : forall k, Z.of_nat k <= Z.max 0 n -> zsum_nat f k = zsum_nat g k).
  { induction k; intros Hk; simpl; auto. rewrite IHk by lia. rewrite H by lia. reflexivity. }
  apply G. lia.
Qed.

Lemma zsum_const c n : 0 <= n -> zsum (fun _ => c) n = c * n.
Proof.
  intros Hn. pattern n. apply natlike_ind; [unfold zsum; simpl; lia | | exact Hn].
  intros x Hx IH. unfold Z.succ. rewrite zsum_succ, IH by lia. lia.
Qed.

(* ------------------------------------------------------------------ take-while over a range *)
Lemma In_ztake_while_zrange (p : Z -> bool) n i :
  (forall a b, 0 <= a <= b -> p b = true -> p a = true) ->
  In i (ztake_while p (zrange n)) <-> (0 <= i < n /\ p i = true).
Proof.
  intros Hmono.
  destruct (Z_lt_le_dec n 0) as [Hn|Hn].
  { rewrite zrange_nonpos by lia. simpl. split; [tauto | lia]. }
  revert i. pattern n. apply natlike_ind; [ | | exact Hn].
  - intros i. simpl. split; [tauto | lia].
  - intros x Hx IH i. unfold Z.succ. rewrite zrange_succ by lia.
    assert (G : forall l a, ztake_while p (l ++ [a]) =
                             if forallb p l then ztake_while p l ++ (if p a then [a] else []) else ztake_while p l).
    { induction l as [|y l IHl]; intros a; simpl.
      - destruct (p a); reflexivity.
      - destruct (p y); simpl; [|reflexivity]. rewrite IHl. destruct (forallb p l); reflexivity. }
    rewrite G.
    destruct (forallb p (zrange x)) eqn:Hall.
    + rewrite in_app_iff, IH. destruct (p x) eqn:Hpx; simpl.
      * split.
        -- intros [[H1 H2]|[H|[]]]; [split; [lia|auto] | subst; split; [lia|auto]].
        -- intros [H1 H2]. destruct (Z.eq_dec i x); [right; left; auto | left; split; [lia|auto]].
      * split.
        -- intros [[H1 H2]|[]]. split; [lia|auto].
        -- intros [H1 H2]. left. split; [|auto]. destruct (Z.eq_dec i x); [subst; congruence | lia].
    + rewrite IH. split; [intros [H1 H2]; split; [lia|auto] |].
      intros [H1 H2]. split; [|auto].
      destruct (Z.eq_dec i x) as [->|]; [|lia]. exfalso.
      assert (forallb p (zrange x) = true); [|congruence].
      apply forallb_forall. intros y Hy. apply In_zrange in Hy. apply (Hmono y x); [lia|auto].
Qed.

Lemma ztake_while_all p l : (forall x, In x l -> p x = true) -> ztake_while p l = l.
Proof.
  induction l as [|a l IH]; intros H; simpl; auto.
  rewrite (H a) by (simpl; auto). f_equal. apply IH. intros; apply H; simpl; auto.
Qed.

(* take-while of a threshold predicate on a range is a (shorter) range *)
Lemma zrange_split m n : 0 <= m <= n -> zrange n = zrange m ++ map (fun k => m + k) (zrange (n - m)).
Proof.
  intros H. replace n with (m + (n - m)) at 1 by lia.
  assert (Hd : 0 <= n - m) by lia. revert Hd. generalize (n - m). intros d Hd.
  pattern d. apply natlike_ind; [ | | exact Hd].
  - rewrite Z.add_0_r. simpl. now rewrite app_nil_r.
  - intros x Hx IH. unfold Z.succ. rewrite Z.add_assoc, zrange_succ, IH by lia.
    rewrite (zrange_succ x) by lia. rewrite map_app, app_assoc. reflexivity.
Qed.

Lemma ztake_while_zrange_prefix p n m :
  0 <= m <= n -> (forall i, 0 <= i < m -> p i = true) -> (m < n -> p m = false) ->
  ztake_while p (zrange n) = zrange m.
Proof.
  intros Hm Ht Hf. rewrite (zrange_split m n) by lia.
  assert (G : forall l r, (forall x, In x l -> p x = true) -> ztake_while p (l ++ r) = l ++ ztake_while p r).
  { induction l as [|a l IH]; intros r H; simpl; auto.
    rewrite (H a) by (simpl; auto). f_equal. apply IH. intros; apply H; simpl; auto. }
  rewrite G by (intros x Hx; apply In_zrange in Hx; apply Ht; lia).
  destruct (Z.eq_dec m n) as [->|Hne].
  - rewrite Z.sub_diag. simpl. apply app_nil_r.
  - replace (n - m) with ((n - m - 1) + 1) by lia.
    unfold zrange at 2. replace (Z.to_nat (n - m - 1 + 1)) with (S (Z.to_nat (n - m - 1))) by lia.
    simpl. rewrite Z.add_0_r, Hf by lia. apply app_nil_r.
Qed.

(* ------------------------------------------------------------------ NoDup of flat_map *)
Lemma NoDup_flat_map {A B} (f : A -> list B) (l : list A) :
  NoDup l -> (forall x, In x l -> NoDup (f x)) ->
  (forall x y e, In x l -> In y l -> x <> y -> In e (f x) -> In e (f y) -> False) ->
  NoDup (flat_map f l).
Proof.
  induction l as [|a l IH]; intros Hl Hf Hd; simpl; [constructor|].
  inversion Hl; subst.
  assert (G : forall (u v : list B), NoDup u -> NoDup v -> (forall e, In e u -> In e v -> False) -> NoDup (u ++ v)).
  { induction u as [|x u IHu]; intros v Hu Hv Hx; simpl; auto.
    inversion Hu; subst. constructor.
    - rewrite in_app_iff. intros [H|H]; [auto | eapply Hx; [left; reflexivity | exact H]].
    - apply IHu; auto. intros e He He'. eapply Hx; [right; exact He | exact He']. }
  apply G.
  - apply Hf. left; auto.
  - apply IH; auto.
    + intros x Hx. apply Hf. right; auto.
    + intros x y e Hx Hy. apply Hd; right; auto.
  - intros e He He'. apply in_flat_map in He' as [y [Hy He']].
    apply (Hd a y e); simpl; auto. intros ->. contradiction.
Qed.

Lemma NoDup_app_intro {B} (u v : list B) :
  NoDup u -> NoDup v -> (forall e, In e u -> In e v -> False) -> NoDup (u ++ v).
Proof.
  induction u as [|x u IHu]; intros Hu Hv Hx; simpl; auto.
  inversion Hu; subst. constructor.
  - rewrite in_app_iff. intros [H|H]; [auto | eapply Hx; [left; reflexivity | exact H]].
  - apply IHu; auto. intros e He He'. eapply Hx; [right; exact He | exact He'].
Qed.

Lemma NoDup_app_inv {B} (u v : list B) :
  NoDup (u ++ v) -> NoDup u /\ NoDup v /\ (forall e, In e u -> In e v -> False).
Proof.
  induction u as [|x u IH]; simpl; intros H.
  - split; [constructor|]. split; auto.
  - inversion H; subst. destruct (IH H3) as [Hu [Hv Hd]]. split; [|split; auto].
    + constructor; auto. intros Hx. apply H2. apply in_app_iff. auto.
    + intros e [->|He] Hev; [apply H2; apply in_app_iff; auto | eapply Hd; eauto].
Qed.

(* ------------------------------------------------------------------ directed edges *)
Lemma dedges_app F G : dedges (F ++ G) = dedges F ++ dedges G.
Proof. unfold dedges. apply flat_map_app. Qed.
Lemma dedges_flat_map {A} (g : A -> list (list Z)) l :
  dedges (flat_map g l) = flat_map (fun x => dedges (g x)) l.
Proof.
  induction l as [|a l IH]; simpl; auto. rewrite dedges_app, IH. reflexivity.
Qed.
Lemma dedges_cons f F : dedges (f :: F) = fedges f ++ dedges F.
Proof. reflexivity. Qed.
Lemma In_dedges e F : In e (dedges F) <-> exists f, In f F /\ In e (fedges f).
Proof. unfold dedges. apply in_flat_map. Qed.
Lemma dedges_if (b : bool) F G : dedges (if b then F else G) = if b then dedges F else dedges G.
Proof. destruct b; reflexivity. Qed.

Lemma fedges_length f : length (fedges f) = length f.
Proof.
  destruct f as [|a t]; auto. change (fedges (a :: t)) with (combine (a :: t) (t ++ [a])).
  rewrite combine_length, app_length. cbn [length]. lia.
Qed.
Lemma zlen_fedges f : zlen (fedges f) = zlen f.
Proof. unfold zlen. now rewrite fedges_length. Qed.

(* ------------------------------------------------------------------ boolean reflections *)
Lemma dedge_eqb_eq a b : dedge_eqb a b = true <-> a = b.
Proof.
  destruct a as [a1 a2], b as [b1 b2]. unfold dedge_eqb. simpl. rewrite andb_true_iff, !Z.eqb_eq.
  split; [intros [-> ->]; auto | intros H; inversion H; auto].
Qed.
Lemma dmem_In e l : dmem e l = true <-> In e l.
Proof.
  unfold dmem. rewrite existsb_exists. split.
  - intros [x [Hx E]]. apply dedge_eqb_eq in E. now subst.
  - intros H. exists e. split; auto. now apply dedge_eqb_eq.
Qed.
Lemma zmem_In x l : zmem x l = true <-> In x l.
Proof.
  unfold zmem. rewrite existsb_exists. split.
  - intros [y [Hy E]]. apply Z.eqb_eq in E. now subst.
  - intros H. exists x. split; auto. apply Z.eqb_refl.
Qed.
Lemma nodupb_NoDup {A} (eqb : A -> A -> bool) (l : list A) :
  (forall a b, eqb a b = true <-> a = b) -> nodupb eqb l = true -> NoDup l.
Proof.
  intros He. induction l as [|x t IH]; simpl; intros H; constructor.
  - apply andb_true_iff in H as [H _]. apply negb_true_iff in H. intros Hin.
    assert (existsb (eqb x) t = true); [|congruence].
    apply existsb_exists. exists x. split; auto. now apply He.
  - apply IH. apply andb_true_iff in H. tauto.
Qed.

Lemma in_rangeb_sound V F : in_rangeb V F = true -> in_range V F.
Proof.
  unfold in_rangeb, in_range. intros H. apply Forall_forall. intros f Hf. apply Forall_forall. intros v Hv.
  rewrite forallb_forall in H. specialize (H f Hf). rewrite forallb_forall in H. specialize (H v Hv). lia.
Qed.
Lemma all_usedb_sound V F : all_usedb V F = true -> all_used V F.
Proof.
  unfold all_usedb, all_used. intros H v Hv. rewrite forallb_forall in H.
  specialize (H v (proj2 (In_zrange V v) Hv)). apply existsb_exists in H as [f [Hf Hm]].
  exists f. split; auto. now apply zmem_In.
Qed.
Lemma faces_simpleb_sound F : faces_simpleb F = true -> faces_simple F.
Proof.
  unfold faces_simpleb, faces_simple. intros H. apply Forall_forall. intros f Hf.
  rewrite forallb_forall in H. specialize (H f Hf). apply andb_true_iff in H as [H1 H2]. split.
  - unfold zlen in H1. lia.
  - apply (nodupb_NoDup Z.eqb); auto. intros; apply Z.eqb_eq.
Qed.
Lemma oriented_manifoldb_sound F : oriented_manifoldb F = true -> oriented_manifold F.
Proof. apply nodupb_NoDup. apply dedge_eqb_eq. Qed.
Lemma closedb_sound F : closedb F = true -> closed F.
Proof.
  unfold closedb, closed. intros H a b Hab. rewrite forallb_forall in H.
  specialize (H _ Hab). now apply dmem_In in H.
Qed.

(* ------------------------------------------------------------------ faces are pairwise edge-disjoint *)
(* With no directed edge repeated, two faces at different positions share no directed edge; in particular
   no face is repeated, not even up to a rotation of its corner list (a rotation has the same directed
   edges, and a face has at least one). *)
Definition faces_edge_disjoint (F : list (list Z)) : Prop :=
  forall i j f g e, nth_error F i = Some f -> nth_error F j = Some g ->
                    In e (fedges f) -> In e (fedges g) -> i = j.

Lemma oriented_manifold_edge_disjoint F : oriented_manifold F -> faces_edge_disjoint F.
Proof.
  unfold oriented_manifold, faces_edge_disjoint. induction F as [|h F IH]; intros HN i j f g e Hi Hj Hf Hg.
  - destruct i; discriminate.
  - rewrite dedges_cons in HN. apply NoDup_app_inv in HN as [_ [HN2 Hd0]].
    assert (Hd : forall x, In x (fedges h) -> ~ In x (dedges F)) by (intros x Hx Hx'; eapply Hd0; eauto).
    destruct i as [|i], j as [|j]; simpl in Hi, Hj; auto.
    + inversion Hi; subst. exfalso. apply (Hd e Hf). apply In_dedges. exists g. split; auto.
      eapply nth_error_In; eauto.
    + inversion Hj; subst. exfalso. apply (Hd e Hg). apply In_dedges. exists f. split; auto.
      eapply nth_error_In; eauto.
    + f_equal. eapply IH; eauto.
Qed.

(* ------------------------------------------------------------------ connectedness by descent *)
Lemma connected_by_descent V F :
  (forall v, 0 < v < V -> exists u, 0 <= u < v /\ adjacent F u v) -> connected V F.
Proof.
  intros H v Hv.
  assert (G : forall n, (0 <= n)%Z -> forall w, 0 <= w <= n -> w < V -> linked F 0 w).
  { intros n Hn. pattern n. apply natlike_ind; auto.
    - intros w Hw _. replace w with 0 by lia. constructor.
    - intros x Hx IH w Hw HwV. destruct (Z.eq_dec w (Z.succ x)) as [E|E].
      + destruct (H w ltac:(lia)) as [u [Hu Ha]].
        apply linked_step with u; auto. apply IH; lia.
      + apply IH; lia. }
  apply (G v); lia.
Qed.

(* ------------------------------------------------------------------ Euler characteristic *)
Lemma dnodup_In l e : In e (dnodup l) <-> In e l.
Proof.
  induction l as [|x t IH]; simpl; [tauto|].
  destruct (dmem x t) eqn:Hm.
  - rewrite IH. split; auto. intros [->|H]; auto. now apply dmem_In.
  - simpl. rewrite IH. tauto.
Qed.
Lemma dnodup_NoDup l : NoDup (dnodup l).
Proof.
  induction l as [|x t IH]; simpl; [constructor|].
  destruct (dmem x t) eqn:Hm; auto. constructor; auto.
  rewrite dnodup_In. intros H. apply dmem_In in H. congruence.
Qed.

Lemma filter_split_length {A} (p : A -> bool) l :
  zlen l = zlen (filter p l) + zlen (filter (fun x => negb (p x)) l).
Proof.
  induction l as [|a l IH]; cbn [filter]; [reflexivity|].
  destruct (p a); cbn [negb]; rewrite !zlen_cons, IH; lia.
Qed.

Lemma NoDup_same_length {A} (u v : list A) :
  NoDup u -> NoDup v -> (forall x, In x u <-> In x v) -> zlen u = zlen v.
Proof.
  intros Hu Hv H. unfold zlen. f_equal. apply Nat.le_antisymm.
  - apply NoDup_incl_length; auto. intros x; apply H.
  - apply NoDup_incl_length; auto. intros x; apply H.
Qed.

Lemma NoDup_map_inj_in {A B} (f : A -> B) (l : list A) :
  (forall x y, In x l -> In y l -> f x = f y -> x = y) -> NoDup l -> NoDup (map f l).
Proof.
  induction l as [|a l IH]; intros Hinj Hn; simpl; [constructor|].
  inversion Hn; subst. constructor.
  - intros Hin. apply in_map_iff in Hin as [y [E Hy]]. apply H1.
    rewrite (Hinj a y); simpl; auto.
  - apply IH; auto. intros x y Hx Hy. apply Hinj; simpl; auto.
Qed.

Lemma swap_swap e : swap (swap e) = e.
Proof. destruct e; reflexivity. Qed.

Lemma filter_and_split {A} (r p : A -> bool) l :
  zlen (filter r l) = zlen (filter (fun e => r e && p e) l) + zlen (filter (fun e => r e && negb (p e)) l).
Proof.
  induction l as [|a l IH]; cbn [filter]; [reflexivity|].
  destruct (r a), (p a); cbn [negb andb]; rewrite ?zlen_cons, IH; lia.
Qed.
Lemma zlen_filter_ext {A} (p q : A -> bool) l :
  (forall x, In x l -> p x = q x) -> zlen (filter p l) = zlen (filter q l).
Proof.
  intros H. f_equal. induction l as [|a l IH]; cbn [filter]; auto.
  rewrite (H a) by (simpl; auto). rewrite IH by (intros; apply H; simpl; auto). reflexivity.
Qed.

Section Euler.
  Variable D : list dedge.
  Hypothesis HN : NoDup D.
  Hypothesis Hloop : forall a b, In (a, b) D -> a <> b.

  Let lt (e : dedge) := fst e <? snd e.
  Let paired (e : dedge) := dmem (swap e) D.
  Let repr (e : dedge) := lt e || negb (paired e).

  Lemma norm_repr_NoDup : NoDup (map norm_edge (filter repr D)).
  Proof.
    apply NoDup_map_inj_in; [| apply NoDup_filter; exact HN].
    intros [a b] [c d] H1 H2 E. apply filter_In in H1 as [H1 R1]. apply filter_In in H2 as [H2 R2].
    unfold norm_edge, swap in E. simpl in E.
    pose proof (Hloop _ _ H1). pose proof (Hloop _ _ H2).
    unfold repr, lt, paired, swap in R1, R2. simpl in R1, R2.
    destruct (a <=? b) eqn:E1, (c <=? d) eqn:E2; injection E as E3 E4.
    - congruence.
    - exfalso. assert (Hm : dmem (d, c) D = true) by (apply dmem_In; rewrite <- E3, <- E4; auto).
      rewrite Hm in R2. simpl in R2. lia.
    - exfalso. assert (Hm : dmem (b, a) D = true) by (apply dmem_In; rewrite E3, E4; auto).
      rewrite Hm in R1. simpl in R1. lia.
    - congruence.
  Qed.

  Lemma norm_repr_same x : In x (map norm_edge D) <-> In x (map norm_edge (filter repr D)).
  Proof.
    rewrite !in_map_iff. split.
    - intros [[a b] [E H]]. pose proof (Hloop _ _ H) as Hab.
      destruct (repr (a, b)) eqn:R.
      + exists (a, b). split; auto. apply filter_In. auto.
      + unfold repr, lt, paired, swap in R. simpl in R. apply orb_false_iff in R as [R1 R2].
        apply negb_false_iff in R2. apply dmem_In in R2.
        exists (b, a). split.
        * rewrite <- E. unfold norm_edge, swap. simpl.
          destruct (b <=? a) eqn:E1, (a <=? b) eqn:E2; auto; lia.
        * apply filter_In. split; auto. unfold repr, lt. simpl.
          apply orb_true_iff. left. lia.
    - intros [e [E H]]. apply filter_In in H as [H _]. exists e. auto.
  Qed.

  Lemma nedges_repr : zlen (dnodup (map norm_edge D)) = zlen (filter repr D).
  Proof.
    rewrite <- (zlen_map norm_edge (filter repr D)).
    apply NoDup_same_length.
    - apply dnodup_NoDup.
    - apply norm_repr_NoDup.
    - intros x. rewrite dnodup_In. apply norm_repr_same.
  Qed.

  (* paired edges with a<b and paired edges with a>b are in bijection through swap *)
  Lemma paired_lt_gt :
    zlen (filter (fun e => lt e && paired e) D) = zlen (filter (fun e => negb (lt e) && paired e) D).
  Proof.
    assert (G : forall (p q : dedge -> bool),
               (forall e, In e D -> p e = true -> In (swap e) D /\ q (swap e) = true) ->
               (zlen (filter p D) <= zlen (filter q D))).
    { intros p q H. rewrite <- (zlen_map swap (filter p D)). unfold zlen. apply inj_le.
      apply NoDup_incl_length.
      - apply FinFun.Injective_map_NoDup; [|apply NoDup_filter; exact HN].
        intros x y E. rewrite <- (swap_swap x), <- (swap_swap y), E. reflexivity.
      - intros x Hx. apply in_map_iff in Hx as [e [<- He]]. apply filter_In in He as [He Hp].
        apply filter_In. apply H; auto. }
    apply Z.le_antisymm; apply G; intros [a b] He Hp; apply andb_true_iff in Hp as [H1 H2];
      unfold paired in H2; apply dmem_In in H2; pose proof (Hloop _ _ He); split; auto;
      unfold lt, paired, swap in *; simpl in *; apply andb_true_iff; (split; [lia | apply dmem_In; auto]).
  Qed.

  Lemma euler_count :
    2 * zlen (dnodup (map norm_edge D)) = zlen D + zlen (filter (fun e => negb (paired e)) D).
  Proof.
    rewrite nedges_repr.
    pose proof paired_lt_gt as B.
    pose proof (filter_split_length lt D) as E0.
    pose proof (filter_and_split lt paired D) as E1.
    pose proof (filter_and_split (fun e => negb (lt e)) paired D) as E2.
    pose proof (filter_and_split repr lt D) as E3.
    pose proof (filter_and_split (fun e => negb (paired e)) lt D) as E4.
    rewrite (zlen_filter_ext (fun e => repr e && lt e) lt) in E3
      by (intros x _; unfold repr; destruct (lt x), (paired x); reflexivity).
    rewrite (zlen_filter_ext (fun e => repr e && negb (lt e)) (fun e => negb (lt e) && negb (paired e))) in E3
      by (intros x _; unfold repr; destruct (lt x), (paired x); reflexivity).
    rewrite (zlen_filter_ext (fun e => negb (paired e) && lt e) (fun e => lt e && negb (paired e))) in E4
      by (intros x _; destruct (lt x), (paired x); reflexivity).
    rewrite (zlen_filter_ext (fun e => negb (paired e) && negb (lt e)) (fun e => negb (lt e) && negb (paired e))) in E4
      by (intros x _; destruct (lt x), (paired x); reflexivity).
    cbv beta in *. lia.
  Qed.
End Euler.

Lemma combine_shift_no_loop (l : list Z) y :
  NoDup l -> ~ In y l -> forall c, ~ In (c, c) (combine l (tl l ++ [y])).
Proof.
  induction l as [|h l IH]; intros Hn Hy c Hc; [destruct Hc|].
  inversion Hn; subst. destruct l as [|h2 l'].
  - simpl in Hc. destruct Hc as [Hc|[]]. inversion Hc; subst. apply Hy. simpl; auto.
  - simpl in Hc. destruct Hc as [Hc|Hc].
    + inversion Hc; subst. apply H1. simpl; auto.
    + apply (IH H2) with c; [|exact Hc]. intros Hin. apply Hy. simpl. simpl in Hin. tauto.
Qed.

Lemma faces_simple_no_loop F : faces_simple F -> forall a b, In (a, b) (dedges F) -> a <> b.
Proof.
  intros H a b Hab. apply In_dedges in Hab as [f [Hf He]].
  unfold faces_simple in H. rewrite Forall_forall in H. destruct (H f Hf) as [Hl Hn].
  destruct f as [|x [|h t]]; simpl in Hl; try lia.
  intros ->. simpl in He. destruct He as [He|He].
  - inversion He; subst. inversion Hn; subst. apply H2. simpl; auto.
  - inversion Hn; subst. apply (combine_shift_no_loop (h :: t) x H3 H2 b). exact He.
Qed.

(* the Euler characteristic of an oriented edge-manifold list of simple faces:
   twice the number of edges = number of half-edges + number of border half-edges *)
Lemma euler_formula F :
  oriented_manifold F -> faces_simple F ->
  2 * nedges F = zlen (dedges F) + zlen (border F).
Proof.
  intros HN HS. unfold nedges, uedges, border.
  apply euler_count; auto. apply faces_simple_no_loop; auto.
Qed.

Lemma closed_border_nil F : closed F -> border F = [].
Proof.
  intros H. unfold border.
  assert (G : forall l, (forall e, In e l -> In (swap e) (dedges F)) ->
                        filter (fun e => negb (dmem (swap e) (dedges F))) l = []).
  { induction l as [|a l IH]; intros Hl; simpl; auto.
    assert (Hm : dmem (swap a) (dedges F) = true) by (apply dmem_In; apply Hl; simpl; auto).
    rewrite Hm. simpl. apply IH. intros; apply Hl; simpl; auto. }
  apply G. intros [a b] He. apply H. exact He.
Qed.

Lemma zlen_dedges_const F k : (forall f, In f F -> zlen f = k) -> zlen (dedges F) = k * zlen F.
Proof.
  intros H. unfold dedges. apply zlen_flat_map_const. intros f Hf. rewrite zlen_fedges. auto.
Qed.

(* ------------------------------------------------------------------ rewriting guarded loops *)
Lemma flat_map_ext_in {A B} (f g : A -> list B) l :
  (forall x, In x l -> f x = g x) -> flat_map f l = flat_map g l.
Proof.
  induction l as [|a l IH]; intros H; simpl; auto.
  rewrite (H a) by (simpl; auto). rewrite IH by (intros; apply H; simpl; auto). reflexivity.
Qed.
Lemma flat_map_zrange_ext {B} (f g : Z -> list B) n :
  (forall i, 0 <= i < n -> f i = g i) -> flat_map f (zrange n) = flat_map g (zrange n).
Proof.
  intros H. apply flat_map_ext_in. intros i Hi. apply In_zrange in Hi. auto.
Qed.

Lemma flat_map_nil {A B} (l : list A) : flat_map (fun _ => @nil B) l = [].
Proof. induction l; simpl; auto. Qed.

Lemma flat_map_guard {B} (f : Z -> list B) (g : Z -> bool) m n :
  0 <= m <= n -> (forall i, 0 <= i < n -> g i = (i <? m)) ->
  flat_map (fun i => if g i then f i else []) (zrange n) = flat_map f (zrange m).
Proof.
  intros Hm Hg. rewrite (zrange_split m n) by lia. rewrite flat_map_app.
  replace (flat_map (fun i => if g i then f i else []) (map (fun k => m + k) (zrange (n - m)))) with (@nil B).
  - rewrite app_nil_r. apply flat_map_ext_in. intros i Hi. apply In_zrange in Hi.
    rewrite Hg by lia. destruct (i <? m) eqn:E; [reflexivity|lia].
  - symmetry. rewrite (flat_map_ext_in _ (fun _ => @nil B)); [apply flat_map_nil|].
    intros i Hi. apply in_map_iff in Hi as [k [<- Hk]]. apply In_zrange in Hk.
    rewrite Hg by lia. destruct (m + k <? m) eqn:E; [lia|reflexivity].
Qed.

(* ------------------------------------------------------------------ tactics *)
(* decompose a hypothesis  In x (generated list expression) *)
Ltac fm_destruct H :=
  repeat (cbv zeta in H;
  match type of H with
  | In _ (flat_map _ (zrange _)) =>
      let i := fresh "i" in let Hi := fresh "Hi" in
      apply in_flat_map in H as [i [Hi H]]; apply In_zrange in Hi
  | In _ (flat_map _ (zrange2 _ _)) =>
      let i := fresh "i" in let Hi := fresh "Hi" in
      apply in_flat_map in H as [i [Hi H]]; apply In_zrange2 in Hi
  | In _ (flat_map _ _) =>
      let i := fresh "i" in let Hi := fresh "Hi" in
      apply in_flat_map in H as [i [Hi H]]
  | In _ (if ?c then _ else _) => let E := fresh "E" in destruct c eqn:E
  | In _ (_ ++ _) => apply in_app_iff in H as [H|H]
  | In _ [] => destruct H
  | In _ (_ :: _) => destruct H as [H|H]
  | False => destruct H
  end).

(* prove  In x (flat_map ...)  by naming the index *)
Ltac fm_pick i :=
  cbv zeta; apply in_flat_map; exists i; split; [first [apply In_zrange | apply In_zrange2]; lia|].
Ltac fm_true :=
  cbv zeta; match goal with |- In _ (if ?c then _ else _) => replace c with true by (symmetry; lia) end.
Ltac fm_false :=
  cbv zeta; match goal with |- In _ (if ?c then _ else _) => replace c with false by (symmetry; lia) end.
(* choose the right element of an explicit list *)
Ltac in_list tac := cbv zeta; simpl; repeat (first [left; solve [tac] | right]); fail.

Lemma rowmajor_inj n i j i' j' :
  0 <= j < n -> 0 <= j' < n -> i * n + j = i' * n + j' -> i = i' /\ j = j'.
Proof. intros. assert (i = i') by nia. subst. lia. Qed.

Lemma mod_succ_cases i n : 0 <= i < n ->
  ((i + 1) mod n = i + 1 /\ i + 1 < n) \/ ((i + 1) mod n = 0 /\ i + 1 = n).
Proof.
  intros H. destruct (Z.eq_dec (i + 1) n) as [E|E].
  - right. split; auto. rewrite E. apply Z.mod_same. lia.
  - left. split; [apply Z.mod_small|]; lia.
Qed.

Ltac split_or H := repeat match type of H with
  | _ \/ _ => destruct H as [H|H]
  | False => destruct H
  end.

(* ------------------------------------------------------------------ cyclic pairs of a list given by positions *)
Lemma nth_zrange k t : (t < Z.to_nat k)%nat -> nth t (zrange k) 0 = Z.of_nat t.
Proof.
  intros H. unfold zrange.
  change (nth t (map Z.of_nat (seq 0 (Z.to_nat k))) (Z.of_nat O) = Z.of_nat t).
  rewrite (map_nth Z.of_nat (seq 0 (Z.to_nat k)) O t), seq_nth by lia. reflexivity.
Qed.

Lemma combine_map_same {A B C} (f : A -> B) (g : A -> C) l :
  combine (map f l) (map g l) = map (fun x => (f x, g x)) l.
Proof. induction l; simpl; congruence. Qed.

Lemma zrange_cons k : 0 < k -> zrange k = 0 :: map (fun t => t + 1) (zrange (k - 1)).
Proof.
  intros Hk. unfold zrange. replace (Z.to_nat k) with (S (Z.to_nat (k - 1))) by lia.
  cbn [seq map]. f_equal. rewrite <- seq_shift, !map_map. apply map_ext. intros a. lia.
Qed.

Lemma zrange_shift k : 0 < k -> tl (zrange k) ++ [0] = map (fun t => (t + 1) mod k) (zrange k).
Proof.
  intros Hk. rewrite (zrange_cons k Hk) at 1. cbn [tl].
  assert (Hl : zrange k = zrange (k - 1) ++ [k - 1]).
  { replace k with ((k - 1) + 1) at 1 by lia. apply zrange_succ. lia. }
  rewrite Hl. rewrite map_app. cbn [map].
  f_equal.
  - apply map_ext_in. intros t Ht. apply In_zrange in Ht. rewrite Z.mod_small; lia.
  - f_equal. replace (k - 1 + 1) with k by lia. symmetry. apply Z.mod_same. lia.
Qed.

Lemma In_cyc_pairs_positions (pos : Z -> Z) k e : 0 < k ->
  In e (cyc_pairs (map pos (zrange k))) <-> exists t, 0 <= t < k /\ e = (pos t, pos ((t + 1) mod k)).
Proof.
  intros Hk. unfold cyc_pairs, fedges.
  destruct (zrange k) as [|z0 zs] eqn:E.
  { apply (f_equal (@length Z)) in E. rewrite zrange_length in E. simpl in E. lia. }
  assert (Hz : z0 = 0).
  { pose proof (nth_zrange k 0 ltac:(lia)) as H. rewrite E in H. simpl in H. exact H. }
  subst z0. cbn [map].
  assert (Hs : map pos zs ++ [pos 0] = map (fun t => pos ((t + 1) mod k)) (0 :: zs)).
  { pose proof (zrange_shift k Hk) as H. rewrite E in H. cbn [tl] in H.
    rewrite <- (map_map (fun t => (t + 1) mod k) pos), <- H, map_app. reflexivity. }
  rewrite Hs. change (pos 0 :: map pos zs) with (map pos (0 :: zs)).
  rewrite combine_map_same, in_map_iff. rewrite <- E. split.
  - intros [t [<- Ht]]. apply In_zrange in Ht. exists t. auto.
  - intros [t [Ht ->]]. exists t. split; auto. apply In_zrange. lia.
Qed.

Lemma NoDup_map_positions (pos : Z -> Z) k :
  (forall s t, 0 <= s < k -> 0 <= t < k -> pos s = pos t -> s = t) -> NoDup (map pos (zrange k)).
Proof.
  intros H. apply NoDup_map_inj_in; [|apply NoDup_zrange].
  intros x y Hx Hy. apply In_zrange in Hx, Hy. auto.
Qed.

(* a border described by positions: pos 0 -> pos 1 -> ... -> pos (k-1) -> pos 0 *)
Lemma border_cycle_by_positions F (pos : Z -> Z) k : 0 < k ->
  (forall s t, 0 <= s < k -> 0 <= t < k -> pos s = pos t -> s = t) ->
  (forall t, 0 <= t < k -> is_border F (pos t, pos ((t + 1) mod k))) ->
  (forall e, In e (dedges F) -> In (swap e) (dedges F) \/ exists t, 0 <= t < k /\ e = (pos t, pos ((t + 1) mod k))) ->
  border_is_cycle F (map pos (zrange k)).
Proof.
  intros Hk Hinj Hb Hall. split; [apply NoDup_map_positions; auto|].
  intros e. rewrite In_cyc_pairs_positions by lia. split.
  - intros [He Hn]. destruct (Hall e He) as [H|H]; [contradiction|exact H].
  - intros [t [Ht ->]]. auto.
Qed.

(* border edges counted through the cycle *)
Lemma In_border F e : In e (border F) <-> is_border F e.
Proof.
  unfold border, is_border. rewrite filter_In. split.
  - intros [H1 H2]. split; auto. intros H. apply dmem_In in H. rewrite H in H2. discriminate.
  - intros [H1 H2]. split; auto. destruct (dmem (swap e) (dedges F)) eqn:E; auto.
    apply dmem_In in E. contradiction.
Qed.

Lemma border_length F c : oriented_manifold F -> border_is_cycle F c -> (2 <= length c)%nat ->
  zlen (border F) = zlen c.
Proof.
  intros HN [Hc Hb] Hl. rewrite <- (zlen_fedges c).
  apply NoDup_same_length.
  - apply NoDup_filter. exact HN.
  - (* the cyclic pairs of a duplicate-free list are duplicate-free (first components) *)
    unfold cyc_pairs in *. destruct c as [|a t]; [constructor|].
    change (fedges (a :: t)) with (combine (a :: t) (t ++ [a])).
    assert (G : forall (l1 : list Z) (l2 : list Z), NoDup l1 -> NoDup (combine l1 l2)).
    { induction l1 as [|x l1 IH]; intros l2 H1; simpl; [constructor|].
      destruct l2 as [|y l2]; [constructor|]. inversion H1; subst. constructor; auto.
      intros Hin. apply in_combine_l in Hin. contradiction. }
    apply G. exact Hc.
  - intros e. rewrite In_border. apply Hb.
Qed.

(* choose the matching element of an explicit list of pairs / numbers *)
Ltac pick_by tac := simpl; solve [repeat (first [left; solve [tac] | right])].

(* contradiction / equality from a row-major index equation  i*n + j = i'*n + j'  with 0 <= j, j' < n *)
Ltac rm_solve :=
  match goal with
  | H : _ * ?n + _ = _ * ?n + _ |- _ => apply rowmajor_inj in H; [|lia|lia]; lia
  end.

(* unfold list structure only (never arithmetic: `simpl` would turn  0 * n + 1 + i  into a match) *)
Ltac lsimpl_in H := cbn [dedges flat_map fedges combine app In tl map fst snd swap length] in H.
Ltac lsimpl := cbn [dedges flat_map fedges combine app In tl map fst snd swap length].

Lemma pair_inj {A B} (a c : A) (b d : B) : (a, b) = (c, d) -> a = c /\ b = d.
Proof. intros H. inversion H. auto. Qed.
Ltac pinj H := let E1 := fresh "E" in let E2 := fresh "E" in apply pair_inj in H as [E1 E2].

(* ------------------------------------------------------------------ several border loops *)
Lemma map_fst_fedges c : map fst (fedges c) = c.
Proof.
  destruct c as [|a t]; [reflexivity|]. change (fedges (a :: t)) with (combine (a :: t) (t ++ [a])).
  assert (G : forall (l1 l2 : list Z), length l1 = length l2 -> map fst (combine l1 l2) = l1).
  { induction l1 as [|x l1 IH]; intros [|y l2] H; simpl in *; try discriminate; auto. f_equal. apply IH. lia. }
  apply G. rewrite app_length. simpl. lia.
Qed.

Lemma NoDup_map_fst_inv {A B} (l : list (A * B)) : NoDup (map fst l) -> NoDup l.
Proof.
  induction l as [|x l IH]; simpl; intros H; [constructor|]. inversion H; subst. constructor; auto.
  intros Hin. apply H2. apply in_map. exact Hin.
Qed.

Lemma border_length_cycles F cs : oriented_manifold F -> border_is_cycles F cs ->
  zlen (border F) = zlen (concat cs).
Proof.
  intros HN [Hc Hb].
  assert (E : map fst (flat_map fedges cs) = concat cs).
  { clear. induction cs as [|c cs IH]; simpl; auto. rewrite map_app, map_fst_fedges, IH. reflexivity. }
  rewrite <- E, zlen_map.
  apply NoDup_same_length.
  - apply NoDup_filter. exact HN.
  - apply NoDup_map_fst_inv. rewrite E. exact Hc.
  - intros e. rewrite In_border, Hb, in_flat_map. unfold cyc_pairs. tauto.
Qed.

(* depth-first search through a nested disjunction *)
Ltac pick_disj tac := first [solve [tac] | left; pick_disj tac | right; pick_disj tac].
