(* C14 - execution harness of the model: binary64 instance of `ops` (cos/sin by range reduction + Taylor,
   good to ~1e-15 on the angles used) and the check functions evaluated by the correspondence batches. *)
From Coq Require Import ZArith List Bool PrimFloat Uint63.
Import ListNotations.
Require Import MV.Lib.Base MV.Lib.FloatLit MV.C14.Model MV.C14.Gen.
Open Scope Z_scope.

(* ------------------------------------------------------------------ floats *)
Definition f_ofZ (z : Z) : float :=
  if z <? 0 then PrimFloat.opp (of_uint63 (Uint63.of_Z (- z))) else of_uint63 (Uint63.of_Z z).
Definition f_pi : float := mkf 7074237752028440 (-51).
Definition f_twopi : float := PrimFloat.mul (f_ofZ 2) f_pi.

Fixpoint reduce (fuel : nat) (x : float) : float :=
  match fuel with
  | O => x
  | S k => if PrimFloat.ltb f_pi x then reduce k (PrimFloat.sub x f_twopi)
           else if PrimFloat.ltb x (PrimFloat.opp f_pi) then reduce k (PrimFloat.add x f_twopi)
           else x
  end.
(* s_k = 1 - r2/((2k)(2k+1)) * s_(k+1)  (sine) ;  c_k = 1 - r2/((2k-1)(2k)) * c_(k+1)  (cosine) *)
Fixpoint horner (odd : bool) (r2 : float) (k : nat) (n : nat) : float :=
  match n with
  | O => PrimFloat.one
  | S m =>
      let kz := Z.of_nat k in
      let d := if odd then (2 * kz) * (2 * kz + 1) else (2 * kz - 1) * (2 * kz) in
      PrimFloat.sub PrimFloat.one (PrimFloat.mul (PrimFloat.div r2 (f_ofZ d)) (horner odd r2 (S k) m))
  end.
Definition f_sin (x : float) : float :=
  let r := reduce 64 x in PrimFloat.mul r (horner true (PrimFloat.mul r r) 1 16).
Definition f_cos (x : float) : float :=
  let r := reduce 64 x in horner false (PrimFloat.mul r r) 1 16.

Definition Fops : ops float :=
  mkops f_ofZ PrimFloat.add PrimFloat.sub PrimFloat.mul PrimFloat.div PrimFloat.opp f_cos f_sin PrimFloat.sqrt f_pi
        PrimFloat.ltb.

Definition tol8 : float := PrimFloat.mul tol9 (f_ofZ 10).
(* every component within 1e-9 of the size of the vector (scale-free: radii 1e-7 and 1e39 are compared alike; the
   null vector must be met exactly) *)
Definition fmax (a b : float) : float := if PrimFloat.ltb a b then b else a.
Definition vclose (a b : vec float) : bool :=
  let s := fmax (PrimFloat.abs (vx b)) (fmax (PrimFloat.abs (vy b)) (PrimFloat.abs (vz b))) in
  let t := PrimFloat.mul tol9 s in
  PrimFloat.leb (PrimFloat.abs (PrimFloat.sub (vx a) (vx b))) t
  && PrimFloat.leb (PrimFloat.abs (PrimFloat.sub (vy a) (vy b))) t
  && PrimFloat.leb (PrimFloat.abs (PrimFloat.sub (vz a) (vz b))) t.
Fixpoint all2 {A B} (p : A -> B -> bool) (a : list A) (b : list B) : bool :=
  match a, b with
  | [], [] => true
  | x :: s, y :: t => p x y && all2 p s t
  | _, _ => false
  end.

(* ------------------------------------------------------------------ index correspondence *)
Definition sort2 (e : list Z) : list Z :=
  match e with
  | [a; b] => if a <=? b then [a; b] else [b; a]
  | _ => e
  end.
Fixpoint is_prefix (a b : list (list Z)) : bool :=
  match a, b with
  | [], _ => true
  | x :: s, y :: t => face_eqb x y && is_prefix s t
  | _, [] => false
  end.
Definition subset_faces (a b : list (list Z)) : bool := forallb (fun x => existsb (face_eqb x) b) a.
(* the mesh container keeps an undirected edge that is declared more than once only once (its first declaration, order kept;
   mouette fix 32e0758 - before it, every declaration was kept): a closed chain of 2 points declares (0,1) and (1,0) *)
Fixpoint keep_first (l : list (list Z)) : list (list Z) :=
  match l with
  | [] => []
  | x :: t => x :: filter (fun y => negb (face_eqb x y)) (keep_first t)
  end.

(* what the implementation returned: rejected?, #vertices, faces, edges, cells *)
Definition obs : Type := (bool * Z * list (list Z) * list (list Z) * list (list Z))%type.
(* a case: generator code, integer and boolean parameters, compare faces cyclically? (dual meshes),
   expected shape class (0 none, 1 sphere, 2 torus, 3 disk, 4 annulus), observation *)
Definition icase : Type := (Z * list Z * list bool * bool * Z * obs)%type.

Definition shape_ok (cls : Z) (V : Z) (F : list (list Z)) : bool :=
  match cls with
  | 1 => is_sphere (topo_of V F)
  | 2 => is_torus (topo_of V F)
  | 3 => is_disk (topo_of V F)
  | 4 => is_annulus (topo_of V F)
  | _ => true
  end.

Definition check_index (c : icase) : bool :=
  match c with
  | (code, ip, bp, cyc, cls, (rej, nv, fs, es, cs)) =>
      match dispatch_rejects code ip bp, dispatch_nverts code ip bp, dispatch_faces code ip bp,
            dispatch_edges code ip bp, dispatch_cells code ip bp with
      | Some r, Some V, Some F, Some E, Some C =>
          if r then rej
          else negb rej
               && (V =? nv)
               && (if cyc then all2 cyc_eqb F fs
                   else match C with [] => faces_eqb F fs | _ => is_prefix F fs end)
               && (match F, C with
                   | [], [] => faces_eqb (keep_first (map sort2 E)) es || faces_eqb (map sort2 E) es
                   | _, _ => subset_faces (map sort2 E) es
                   end)
               && faces_eqb C cs
               && shape_ok cls V F
      | _, _, _, _, _ => false
      end
  end.

(* ------------------------------------------------------------------ coordinate correspondence *)
Definition ccase : Type := (Z * list Z * list bool * list float * list (vec float) * list (vec float))%type.
Definition check_coords (c : ccase) : bool :=
  match c with
  | (code, ip, bp, fp, vp, pts) =>
      match dispatch_coords Fops code ip bp fp vp with
      | Some l => all2 vclose l pts
      | None => false
      end
  end.

(* ------------------------------------------------------------------ dual_mesh on an arbitrary input mesh *)
(* input faces, #vertices, observed dual faces, observed #vertices *)
Definition dcase : Type := (list (list Z) * Z * list (list Z) * Z)%type.
Definition check_dual (c : dcase) : bool :=
  match c with
  | (F, V, fs, nv) =>
      (dual_mesh_nverts (v2f_ring F) V (zlen F) =? nv)
      && all2 cyc_eqb (dual_mesh_faces (v2f_ring F) V (zlen F)) fs
  end.
