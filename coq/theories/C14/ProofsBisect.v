(* C14 - ring: the apex found by the bisection loop has the requested angle defect.
   The loop body is GENERATED (Gen.ring_bisect_step, one pass of `while not stop`), with geometry.angle_3pts abstracted
   as the parameter ang3.  Writing  g h = 2 pi - N * angle(A, (0,0,h), B)  for the defect of an apex at height h:
   hypotheses (named, about the real angle function, checked numerically on every run):
     Hmono : g is monotone on h >= 0                         (the apex angle decreases as the apex rises)
     Hg0   : g 0 <= d                                        (a flat ring has defect 0 and the request is clamped to >= 0)
     Hexp  : while the bracket is still being enlarged (request above g(h2), bracket (0,10) or (h, 2h) with h >= 10)
             the two ends differ by at least eps in defect   (so the loop cannot stop before the request is bracketed)
   conclusion: whenever the loop stops, the apex written to vertex 0 is on the axis and |g(apex) - d| < eps = 1e-6. *)
From Coq Require Import ZArith List Bool Reals Lra Lia.
Import ListNotations.
Require Import MV.Lib.Base MV.C14.Model MV.C14.Gen MV.C14.ProofsCoords.
Open Scope R_scope.

Section Bisection.
  Variable ang3 : vec R -> vec R -> vec R -> R.
  Variables A B : vec R.
  Variable N : Z.
  Variable d : R.

  Definition eps : R := 1 / 1000000.
  Definition g (h : R) : R := 2 * PI - IZR N * ang3 A (0, 0, h) B.

  Hypothesis Hmono : forall a b, 0 <= a <= b -> g a <= g b.
  Hypothesis Hg0 : g 0 <= d.
  Hypothesis Hexp : forall h1 h2, (h1 = 0 /\ h2 = 10) \/ (10 <= h1 /\ h2 = 2 * h1) -> g h2 < d -> eps <= Rabs (g h1 - g h2).

  Definition step (s : vec R * vec R) : (vec R * vec R) * bool :=
    let '(P1, P2, stop) := ring_bisect_step Rops ang3 A B N d (fst s) (snd s) in ((P1, P2), stop).

  (* the loop state: two points (0,0,h1), (0,0,h2) on the axis *)
  Definition inv (s : vec R * vec R) : Prop :=
    exists h1 h2, s = ((0, 0, h1), (0, 0, h2)) /\ 0 <= h1 < h2 /\ g h1 <= d /\
      ((h1 = 0 /\ h2 = 10) \/ (10 <= h1 /\ h2 = 2 * h1) \/ d <= g h2).

  Lemma ltb_R a b : oltb Rops a b = true <-> a < b.
  Proof. cbn [oltb Rops]. destruct (Rlt_dec a b); split; auto; discriminate. Qed.
  Lemma ltb_R_false a b : oltb Rops a b = false <-> ~ a < b.
  Proof. cbn [oltb Rops]. destruct (Rlt_dec a b); split; auto; try discriminate. contradiction. Qed.

  Lemma step_spec h1 h2 :
    let m := (h1 + h2) / 2 in
    step ((0, 0, h1), (0, 0, h2)) =
      ((if oltb Rops (g h2) d then ((0, 0, h2), (0, 0, 2 * h2))
        else if oltb Rops (g m) d then ((0, 0, m), (0, 0, h2))
        else if oltb Rops d (g m) then ((0, 0, h1), (0, 0, m))
        else ((0, 0, h1), (0, 0, h2))),
       oabs_lt Rops (g h1 - g h2) eps).
  Proof.
    cbv zeta. unfold step, ring_bisect_step. cbn [fst snd]. cbv zeta.
    unfold vdivs, vadd, vscale, vx, vy, vz. cbn [fst snd oadd omul odiv osub oofZ opi Rops].
    replace ((0 + 0) / 2) with 0 by field. replace (2 * 0) with 0 by ring.
    fold (g h1). fold (g h2). fold (g ((h1 + h2) / 2)). unfold eps.
    destruct (oltb Rops (g h2) d), (oltb Rops (g ((h1 + h2) / 2)) d), (oltb Rops d (g ((h1 + h2) / 2))); reflexivity.
  Qed.

  Lemma abs_lt_spec x : oabs_lt Rops x eps = true -> Rabs x < eps.
  Proof.
    unfold oabs_lt. intros H. apply andb_true_iff in H as [H1 H2]. apply ltb_R in H1, H2. cbn [oopp Rops] in H2.
    apply Rabs_def1; lra.
  Qed.

  (* one pass keeps the invariant, and if it raises the flag the midpoint of the new bracket answers the request *)
  Lemma step_inv s s' stop : inv s -> step s = (s', stop) ->
    inv s' /\ (stop = true -> exists h, ring_bisect_apex Rops (fst s') (snd s') = (0, 0, h) /\ Rabs (g h - d) < eps).
  Proof.
    intros [h1 [h2 [-> [Hh [Hl Hsh]]]]] Hs. rewrite step_spec in Hs. cbv zeta in Hs.
    set (m := (h1 + h2) / 2) in *. assert (Hm : h1 < m < h2) by (subst m; lra).
    assert (Apex : forall a b, ring_bisect_apex Rops (0, 0, a) (0, 0, b) = (0, 0, (a + b) / 2)).
    { intros a b. unfold ring_bisect_apex, vdivs, vadd, vx, vy, vz. cbn [fst snd oadd odiv oofZ Rops].
      replace ((0 + 0) / 2) with 0 by field. reflexivity. }
    assert (Conclude : g h1 <= d <= g h2 -> forall a b, h1 <= a -> a <= b -> b <= h2 -> oabs_lt Rops (g h1 - g h2) eps = true ->
              exists h, ring_bisect_apex Rops (0, 0, a) (0, 0, b) = (0, 0, h) /\ Rabs (g h - d) < eps).
    { intros Bracket a b Ha Hab Hb Hstop. exists ((a + b) / 2). split; [apply Apex|].
      apply abs_lt_spec in Hstop. apply Rabs_def2 in Hstop.
      pose proof (Hmono h1 ((a + b) / 2) ltac:(lra)). pose proof (Hmono ((a + b) / 2) h2 ltac:(lra)).
      apply Rabs_def1; lra. }
    destruct (oltb Rops (g h2) d) eqn:C1; [|destruct (oltb Rops (g m) d) eqn:C2; [|destruct (oltb Rops d (g m)) eqn:C3]];
      injection Hs as <- <-.
    - (* the request is above the bracket: enlarge it; the loop cannot stop here *)
      apply ltb_R in C1.
      assert (Hshape : (h1 = 0 /\ h2 = 10) \/ (10 <= h1 /\ h2 = 2 * h1)) by (destruct Hsh as [H|[H|H]]; [auto | auto | lra]).
      split.
      + exists h2, (2 * h2). split; [reflexivity|]. split; [lra|]. split; [lra|]. right. left. split; [lra | reflexivity].
      + intros Hstop. apply abs_lt_spec in Hstop. pose proof (Hexp h1 h2 Hshape C1). lra.
    - apply ltb_R_false in C1. apply ltb_R in C2. split.
      + exists m, h2. split; [reflexivity|]. split; [lra|]. split; [lra|]. right. right. lra.
      + intros Hstop. cbn [fst snd]. apply Conclude; auto; lra.
    - apply ltb_R_false in C1. apply ltb_R in C3. split.
      + exists h1, m. split; [reflexivity|]. split; [lra|]. split; [lra|]. right. right. lra.
      + intros Hstop. cbn [fst snd]. apply Conclude; auto; lra.
    - apply ltb_R_false in C1. split.
      + exists h1, h2. split; [reflexivity|]. split; [lra|]. split; [lra|]. right. right. lra.
      + intros Hstop. cbn [fst snd]. apply Conclude; auto; lra.
  Qed.

  Lemma init_inv : inv (ring_bisect_init Rops).
  Proof.
    exists 0, 10. split; [reflexivity|]. split; [lra|]. split; [exact Hg0|]. left. split; reflexivity.
  Qed.

  Theorem ring_apex_defect fuel s :
    do_while step fuel (ring_bisect_init Rops) = Some s ->
    exists h, ring_bisect_apex Rops (fst s) (snd s) = (0, 0, h) /\ Rabs (g h - d) < eps.
  Proof.
    pose proof init_inv as Hi. revert Hi. generalize (ring_bisect_init Rops). induction fuel as [|k IH]; intros s0 Hi H; [discriminate|].
    cbn [do_while] in H. destruct (step s0) as [s1 stop] eqn:E.
    destruct (step_inv s0 s1 stop Hi E) as [Hi1 Hstop]. destruct stop.
    - injection H as <-. apply Hstop. reflexivity.
    - apply (IH s1); auto.
  Qed.
End Bisection.

(* the request is clamped to [0, 2 pi - 0.01] before the loop *)
Lemma ring_clamp (x : R) : 0 <= ring_defect_clamp Rops x <= 2 * PI - 1 / 100.
Proof.
  unfold ring_defect_clamp, omax, omin. cbv zeta. cbn [oltb osub omul odiv oofZ opi Rops].
  pose proof PI_RGT_0. assert (3 < PI) by (pose proof PI_4; pose proof (PI2_3_2); unfold PI2 in *; lra).
  destruct (Rlt_dec x (2 * PI - 1 / 100)); destruct (Rlt_dec _ 0); lra.
Qed.
