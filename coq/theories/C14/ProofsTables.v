(* C14 - the constant-table generators: triangle, quad, tetrahedron, hexahedron / axis_aligned_cube /
   hexahedron_4pts, icosahedron, and the duals octahedron, dodecahedron.  The domain is finite (a handful of
   boolean switches), so a boolean checker with a soundness proof, evaluated by vm_compute, is a proof. *)
From Coq Require Import ZArith List Bool Lia ZifyBool Permutation.
Import ListNotations.
Require Import MV.Lib.Base MV.C14.Model MV.C14.Gen MV.C14.ProofsLib.
Open Scope Z_scope.

(* ------------------------------------------------------------------ soundness of the umbrella checker *)
Lemma chainedb_sound r : chainedb r = true -> chained r.
Proof.
  induction r as [|a [|b t] IH]; simpl; auto. intros H. apply andb_true_iff in H as [H1 H2].
  split; [lia | apply IH; exact H2].
Qed.
Lemma same_setb_perm a b : same_setb a b = true -> Permutation a b.
Proof.
  unfold same_setb. intros H. repeat (apply andb_true_iff in H as [H ?]).
  apply NoDup_Permutation.
  - apply (nodupb_NoDup dedge_eqb); auto. apply dedge_eqb_eq.
  - apply (nodupb_NoDup dedge_eqb); auto. apply dedge_eqb_eq.
  - intros x. split; intros Hx.
    + rewrite forallb_forall in H1. apply dmem_In. apply H1. exact Hx.
    + rewrite forallb_forall in H0. apply dmem_In. apply H0. exact Hx.
Qed.
Lemma vertex_manifoldb_sound V F : vertex_manifoldb V F = true -> vertex_manifold V F.
Proof.
  unfold vertex_manifoldb, vertex_manifold. intros H v Hv. rewrite forallb_forall in H.
  specialize (H v (proj2 (In_zrange V v) Hv)). unfold one_fanb in H. apply andb_true_iff in H as [H1 H2].
  exists (fan_order F v). split; [apply same_setb_perm; auto | apply chainedb_sound; auto].
Qed.

(* ------------------------------------------------------------------ connectedness checker *)
Lemma reach_sound F fuel : forall seen,
  (forall s, In s seen -> linked F 0 s) -> forall x, In x (reach (dedges F) fuel seen) -> linked F 0 x.
Proof.
  induction fuel as [|k IH]; intros seen Hs x Hx; simpl in Hx; [auto|].
  set (new := flat_map (fun e =>
                   (if zmem (fst e) seen && negb (zmem (snd e) seen) then [snd e] else []) ++
                   (if zmem (snd e) seen && negb (zmem (fst e) seen) then [fst e] else [])) (dedges F)) in *.
  assert (Hnew : forall y, In y new -> linked F 0 y).
  { intros y Hy. unfold new in Hy. apply in_flat_map in Hy as [[a b] [He Hy]]. cbn [fst snd] in Hy.
    apply in_app_iff in Hy as [Hy|Hy].
    - destruct (zmem a seen && negb (zmem b seen)) eqn:E; [|destruct Hy]. destruct Hy as [<-|[]].
      apply andb_true_iff in E as [E _]. apply zmem_In in E.
      apply linked_step with a; [auto | left; exact He].
    - destruct (zmem b seen && negb (zmem a seen)) eqn:E; [|destruct Hy]. destruct Hy as [<-|[]].
      apply andb_true_iff in E as [E _]. apply zmem_In in E.
      apply linked_step with b; [auto | right; exact He]. }
  destruct new as [|n0 nw] eqn:En; [auto|].
  apply IH in Hx; auto. intros s Hin. apply in_app_iff in Hin as [Hin|Hin]; [auto|].
  apply Hnew.
  assert (G : forall (l : list Z) z, In z (fold_right (fun x acc => if zmem x acc then acc else x :: acc) [] l) -> In z l).
  { induction l as [|h l IHl]; intros z Hz; simpl in *; auto.
    destruct (zmem h _) eqn:E; [right; apply IHl; auto|]. destruct Hz as [->|Hz]; [left; auto | right; apply IHl; auto]. }
  apply G. exact Hin.
Qed.
Lemma connectedb_sound V F : connectedb V F = true -> connected V F.
Proof.
  unfold connectedb. intros H v Hv. apply orb_true_iff in H as [H|H]; [lia|].
  rewrite forallb_forall in H. specialize (H v (proj2 (In_zrange V v) Hv)). apply zmem_In in H.
  eapply reach_sound; [|exact H]. intros s [<-|[]]. constructor.
Qed.

(* ------------------------------------------------------------------ the shapes *)
Record surface_ok (V : Z) (F : list (list Z)) : Prop := {
  s_in_range : in_range V F;
  s_all_used : all_used V F;
  s_simple : faces_simple F;
  s_oriented : oriented_manifold F;
  s_disjoint : faces_edge_disjoint F;
  s_vertex : vertex_manifold V F;
  s_connected : connected V F }.
Definition sphere_like (V : Z) (F : list (list Z)) : Prop := surface_ok V F /\ closed F /\ euler V F = 2.
Definition disk_like (V : Z) (F : list (list Z)) (c : list Z) : Prop :=
  surface_ok V F /\ border_is_cycle F c /\ euler V F = 1.

Definition surface_chk (V : Z) (F : list (list Z)) : bool :=
  in_rangeb V F && all_usedb V F && faces_simpleb F && oriented_manifoldb F && vertex_manifoldb V F && connectedb V F.
Lemma surface_chk_sound V F : surface_chk V F = true -> surface_ok V F.
Proof.
  unfold surface_chk. intros H. repeat (apply andb_true_iff in H as [H ?]).
  constructor.
  - apply in_rangeb_sound; auto.
  - apply all_usedb_sound; auto.
  - apply faces_simpleb_sound; auto.
  - apply oriented_manifoldb_sound; auto.
  - apply oriented_manifold_edge_disjoint. apply oriented_manifoldb_sound; auto.
  - apply vertex_manifoldb_sound; auto.
  - apply connectedb_sound; auto.
Qed.
Definition sphere_chk (V : Z) (F : list (list Z)) : bool := surface_chk V F && closedb F && (euler V F =? 2).
Lemma sphere_chk_sound V F : sphere_chk V F = true -> sphere_like V F.
Proof.
  unfold sphere_chk. intros H. apply andb_true_iff in H as [H H2]. apply andb_true_iff in H as [H H1].
  split; [apply surface_chk_sound; auto|]. split; [apply closedb_sound; auto | lia].
Qed.
(* border cycle checker: is_border e <-> e among the cyclic pairs of c, decided over the finite edge list *)
Definition border_chk (F : list (list Z)) (c : list Z) : bool :=
  nodupb Z.eqb c
  && forallb (fun e => dmem e (dedges F) && negb (dmem (swap e) (dedges F))) (cyc_pairs c)
  && forallb (fun e => dmem (swap e) (dedges F) || dmem e (cyc_pairs c)) (dedges F).
Lemma border_chk_sound F c : border_chk F c = true -> border_is_cycle F c.
Proof.
  unfold border_chk. intros H. repeat (apply andb_true_iff in H as [H ?]). split.
  - apply (nodupb_NoDup Z.eqb); auto. intros; apply Z.eqb_eq.
  - intros e. split.
    + intros [He Hn]. rewrite forallb_forall in H0. specialize (H0 e He).
      apply orb_true_iff in H0 as [H0|H0]; apply dmem_In in H0; [contradiction|auto].
    + intros He. rewrite forallb_forall in H1. specialize (H1 e He). apply andb_true_iff in H1 as [H1 H2].
      split; [apply dmem_In; auto|]. intros Hin. apply dmem_In in Hin. rewrite Hin in H2. discriminate.
Qed.
Definition disk_chk (V : Z) (F : list (list Z)) (c : list Z) : bool := surface_chk V F && border_chk F c && (euler V F =? 1).
Lemma disk_chk_sound V F c : disk_chk V F c = true -> disk_like V F c.
Proof.
  unfold disk_chk. intros H. apply andb_true_iff in H as [H H2]. apply andb_true_iff in H as [H H1].
  split; [apply surface_chk_sound; auto|]. split; [apply border_chk_sound; auto | lia].
Qed.

(* ------------------------------------------------------------------ several border loops; the run-time shape checkers *)
Lemma borders_chk_sound F cs : borders_chk F cs = true -> border_is_cycles F cs.
Proof.
  unfold borders_chk. intros H. apply andb_true_iff in H as [H H2]. apply andb_true_iff in H as [H0 H1]. split.
  - apply (nodupb_NoDup Z.eqb); auto. intros; apply Z.eqb_eq.
  - intros e. split.
    + intros [He Hn]. rewrite forallb_forall in H2. specialize (H2 e He).
      apply orb_true_iff in H2 as [H2|H2]; apply dmem_In in H2; [contradiction|].
      apply in_flat_map in H2. exact H2.
    + intros [c [Hc He]]. rewrite forallb_forall in H1.
      assert (Hin : In e (flat_map cyc_pairs cs)) by (apply in_flat_map; exists c; auto).
      specialize (H1 e Hin). apply andb_true_iff in H1 as [H1 H3].
      split; [apply dmem_In; auto|]. intros Hs. apply dmem_In in Hs. rewrite Hs in H3. discriminate.
Qed.

Definition disk_like' (V : Z) (F : list (list Z)) : Prop :=
  surface_ok V F /\ (exists c, border_is_cycles F [c]) /\ euler V F = 1.
Definition annulus_like (V : Z) (F : list (list Z)) : Prop :=
  surface_ok V F /\ (exists c1 c2, border_is_cycles F [c1; c2]) /\ euler V F = 0.
Definition torus_like (V : Z) (F : list (list Z)) : Prop := surface_ok V F /\ closed F /\ euler V F = 0.

Lemma valid_surface_sound V F : valid_surface (topo_of V F) = true -> surface_ok V F.
Proof.
  unfold valid_surface, topo_of. cbn [t_in_range t_all_used t_simple t_no_repeat t_oriented_manifold t_vertex_manifold t_connected].
  intros H. repeat (apply andb_true_iff in H as [H ?]).
  constructor.
  - apply in_rangeb_sound; auto.
  - apply all_usedb_sound; auto.
  - apply faces_simpleb_sound; auto.
  - apply oriented_manifoldb_sound; auto.
  - apply oriented_manifold_edge_disjoint. apply oriented_manifoldb_sound; auto.
  - apply vertex_manifoldb_sound; auto.
  - apply connectedb_sound; auto.
Qed.

Lemma border_loops_sound F n : border_loops F = Some n -> exists cs, zlen cs = n /\ border_is_cycles F cs.
Proof.
  unfold border_loops. destruct (border_cycles F) as [cs|]; [|discriminate].
  destruct (borders_chk F cs) eqn:E; [|discriminate]. intros H. injection H as <-.
  exists cs. split; auto. apply borders_chk_sound; auto.
Qed.

(* what a kernel-evaluated `shape_ok` of the correspondence batches establishes for that parameter tuple *)
Theorem is_sphere_sound V F : is_sphere (topo_of V F) = true -> sphere_like V F.
Proof.
  unfold is_sphere. intros H. apply andb_true_iff in H as [H H2]. apply andb_true_iff in H as [H H1].
  split; [apply valid_surface_sound; auto|]. split; [apply closedb_sound; exact H1|].
  unfold topo_of in H2. cbn [t_euler] in H2. lia.
Qed.
Theorem is_torus_sound V F : is_torus (topo_of V F) = true -> torus_like V F.
Proof.
  unfold is_torus. intros H. apply andb_true_iff in H as [H H2]. apply andb_true_iff in H as [H H1].
  split; [apply valid_surface_sound; auto|]. split; [apply closedb_sound; exact H1|].
  unfold topo_of in H2. cbn [t_euler] in H2. lia.
Qed.
Theorem is_disk_sound V F : is_disk (topo_of V F) = true -> disk_like' V F.
Proof.
  unfold is_disk. intros H. apply andb_true_iff in H as [H H3]. apply andb_true_iff in H as [H H2].
  apply andb_true_iff in H as [H H1].
  split; [apply valid_surface_sound; auto|]. unfold topo_of in H2, H3. cbn [t_euler t_border_loops] in H2, H3. split; [|lia].
  destruct (border_loops F) as [[|[| |]|]|] eqn:E; try discriminate.
  apply border_loops_sound in E as [cs [Hl Hc]]. destruct cs as [|c [|c2 cs]]; try (unfold zlen in Hl; simpl in Hl; lia).
  exists c. exact Hc.
Qed.
Theorem is_annulus_sound V F : is_annulus (topo_of V F) = true -> annulus_like V F.
Proof.
  unfold is_annulus. intros H. apply andb_true_iff in H as [H H3]. apply andb_true_iff in H as [H H2].
  apply andb_true_iff in H as [H H1].
  split; [apply valid_surface_sound; auto|]. unfold topo_of in H2, H3. cbn [t_euler t_border_loops] in H2, H3. split; [|lia].
  destruct (border_loops F) as [[|[p|p|]|]|] eqn:E; try discriminate. destruct p; try discriminate.
  apply border_loops_sound in E as [cs [Hl Hc]].
  destruct cs as [|c [|c2 [|c3 cs]]]; try (unfold zlen in Hl; simpl in Hl; lia).
  exists c, c2. exact Hc.
Qed.

(* ------------------------------------------------------------------ the theorems *)
Lemma triangle_disk : disk_like triangle_nverts triangle_faces [0; 1; 2] /\ triangle_nverts = 3 /\ zlen triangle_faces = 1.
Proof. split; [apply disk_chk_sound; vm_compute; reflexivity | split; reflexivity]. Qed.

Lemma quad_disk t : disk_like (quad_nverts t) (quad_faces t) [0; 1; 2; 3] /\ quad_nverts t = 4
  /\ zlen (quad_faces t) = (if t then 2 else 1)
  /\ Forall (fun f => zlen f = if t then 3 else 4) (quad_faces t).
Proof.
  destruct t; (split; [apply disk_chk_sound; vm_compute; reflexivity|]); repeat split; repeat constructor.
Qed.

Lemma tetrahedron_sphere v : sphere_like (tetrahedron_nverts v) (tetrahedron_faces v)
  /\ tetrahedron_nverts v = 4 /\ zlen (tetrahedron_faces v) = 4
  /\ tetrahedron_cells v = (if v then [[0; 1; 2; 3]] else []).
Proof. destruct v; (split; [apply sphere_chk_sound; vm_compute; reflexivity|]); repeat split. Qed.

Lemma hexahedron_sphere c t : sphere_like (hexahedron_nverts c t false) (hexahedron_faces c t false)
  /\ hexahedron_nverts c t false = 8 /\ zlen (hexahedron_faces c t false) = (if t then 12 else 6)
  /\ Forall (fun f => zlen f = if t then 3 else 4) (hexahedron_faces c t false)
  /\ hexahedron_cells c t false = [].
Proof.
  destruct c, t; (split; [apply sphere_chk_sound; vm_compute; reflexivity|]); repeat split; repeat constructor.
Qed.

Lemma hexahedron_volume c t : hexahedron_cells c t true = [[0; 1; 2; 3; 4; 5; 6; 7]] /\ hexahedron_faces c t true = []
  /\ hexahedron_nverts c t true = 8.
Proof. destruct c, t; repeat split. Qed.

Lemma icosahedron_sphere u : sphere_like (icosahedron_nverts u) (icosahedron_faces u)
  /\ icosahedron_nverts u = 12 /\ zlen (icosahedron_faces u) = 20.
Proof. destruct u; (split; [apply sphere_chk_sound; vm_compute; reflexivity|]); repeat split. Qed.

Lemma octahedron_sphere : sphere_like octahedron_nverts octahedron_faces /\ octahedron_nverts = 6
  /\ zlen octahedron_faces = 8 /\ Forall (fun f => zlen f = 3) octahedron_faces.
Proof. split; [apply sphere_chk_sound; vm_compute; reflexivity|]. repeat split. vm_compute. repeat constructor. Qed.

Lemma dodecahedron_sphere : sphere_like dodecahedron_nverts dodecahedron_faces /\ dodecahedron_nverts = 20
  /\ zlen dodecahedron_faces = 12 /\ Forall (fun f => zlen f = 5) dodecahedron_faces.
Proof. split; [apply sphere_chk_sound; vm_compute; reflexivity|]. repeat split. vm_compute. repeat constructor. Qed.

(* ------------------------------------------------------------------ switches are honoured as named (call plumbing) *)
Lemma cube_plumbing c t :
  axis_aligned_cube_faces c t = hexahedron_faces c t false /\ axis_aligned_cube_cells c t = hexahedron_cells c t false
  /\ axis_aligned_cube_nverts c t = hexahedron_nverts c t false.
Proof. repeat split. Qed.

Lemma hexahedron_4pts_plumbing c v :
  hexahedron_4pts_faces c v = hexahedron_faces c false v /\ hexahedron_4pts_cells c v = hexahedron_cells c false v
  /\ hexahedron_4pts_nverts c v = hexahedron_nverts c false v.
Proof. repeat split. Qed.

Lemma octahedron_is_dual_of_cube :
  octahedron_faces = dual_mesh_faces (v2f_ring (axis_aligned_cube_faces false false))
                                     (axis_aligned_cube_nverts false false) (zlen (axis_aligned_cube_faces false false)).
Proof. reflexivity. Qed.
Lemma dodecahedron_is_dual_of_icosahedron :
  dodecahedron_faces = dual_mesh_faces (v2f_ring (icosahedron_faces false))
                                       (icosahedron_nverts false) (zlen (icosahedron_faces false)).
Proof. reflexivity. Qed.
